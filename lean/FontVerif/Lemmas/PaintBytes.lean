/-
C13 helper lemmas for the byte-level paint model (Model/PaintBytes.lean): inversion of `nodeOfBytes`
(what the bytes must look like for each node shape), in-table paint ids, forward child offsets.
-/
import FontVerif.Model.PaintBytes
import FontVerif.Lemmas.HandColr
import FontVerif.Props.C01HandColr
set_option linter.unusedVariables false
set_option linter.unusedSimpArgs false
namespace FontVerif.PaintBytes
open FontVerif FontVerif.Paint FontVerif.HandRead FontVerif.HandColr

theorem colrRead_d {d : List Nat} {t : Colr} (h : colrRead d = some t) : t.d = d := by
  unfold colrRead at h
  cases hr : readAt d 0 2 with
  | none => simp [hr] at h
  | some v =>
    simp only [hr] at h
    split at h <;> split at h <;> first | (injection h with h; subst h; rfl) | cases h

/-- a resolved child paint (`Offset24` relative to the parent at `p`) lies strictly after its parent,
inside the table -/
theorem childAt_forward {d : List Nat} {p at_ q : Nat} (h : childAt d p at_ = some q) :
    p < q ∧ q < d.length := by
  unfold childAt at h
  split at h
  · rename_i f q' hr
    injection h with h; subst h
    obtain ⟨h1, h2, sz, _, _, h5, _⟩ := C01HandColr.resolvePaint_in_bounds _ _ _ _ _ hr
    omega
  · cases h

theorem paintRead_lt {d : List Nat} {p fmt : Nat} (h : paintRead d p = .ok fmt) : p < d.length := by
  unfold paintRead at h
  split at h
  · cases h
  · split at h
    · cases h
    · rename_i sz hsz
      split at h
      · have h3 : 3 ≤ sz := by
          unfold paintSize at hsz
          split at hsz <;> first | (injection hsz with hsz; omega) | cases hsz
        omega
      · cases h

/-- **`resolve_paint` only succeeds on a paint inside the table** -/
theorem nodeOfBytes_lt {d : List Nat} {p : Nat} {n : Node} (h : nodeOfBytes d p = some n) : p < d.length := by
  unfold nodeOfBytes at h
  split at h
  · cases h
  · rename_i fmt hf; exact paintRead_lt hf

/-- **`resolve_paint` from bytes, inverted**: what the bytes at `p` look like for each node shape -/
theorem nodeOfBytes_cases {d : List Nat} {p : Nat} {n : Node} (h : nodeOfBytes d p = some n) :
    ∃ fmt, paintRead d p = .ok fmt ∧
      ((fmt = 1 ∧ n = .colrLayers (be d (p + 2) 4) (be d (p + 1) 1)) ∨
       ((fmt = 2 ∨ fmt = 3) ∧ n = .leaf (some (solidBrush (be d (p + 1) 2) (i16 (be d (p + 3) 2))))) ∨
       (4 ≤ fmt ∧ fmt ≤ 9 ∧ ∃ cl, colorLineAt d p (fmt % 2 = 1) = some cl ∧
          n = .leaf (gradientBrush fmt cl (caseOf d p fmt cl))) ∨
       (fmt = 10 ∧ ∃ q, childAt d p (p + 1) = some q ∧ n = .glyph (be d (p + 4) 2) q) ∨
       (fmt = 11 ∧ n = .colrGlyph (be d (p + 1) 2)) ∨
       (fmt = 32 ∧ ∃ s b, childAt d p (p + 1) = some s ∧ childAt d p (p + 5) = some b ∧
          n = .composite s (modeOf (be d (p + 4) 1)) b) ∨
       (12 ≤ fmt ∧ fmt ≠ 32 ∧ ∃ q, childAt d p (p + 1) = some q ∧ n = .transform p q)) := by
  unfold nodeOfBytes at h
  split at h
  · cases h
  · rename_i fmt hf
    refine ⟨fmt, hf, ?_⟩
    by_cases h1 : fmt = 1
    · simp only [h1, ↓reduceIte] at h
      injection h with h
      exact Or.inl ⟨h1, h.symm⟩
    · simp only [h1, ↓reduceIte] at h
      by_cases h2 : fmt = 2 ∨ fmt = 3
      · simp only [h2, ↓reduceIte] at h
        injection h with h
        exact Or.inr (Or.inl ⟨h2, h.symm⟩)
      · simp only [h2, ↓reduceIte] at h
        by_cases h3 : 4 ≤ fmt ∧ fmt ≤ 9
        · simp only [h3, and_self, ↓reduceIte] at h
          cases hg : colorLineAt d p (fmt % 2 = 1) with
          | none => simp [hg] at h
          | some g =>
            simp only [hg, Option.map_some] at h
            injection h with h
            exact Or.inr (Or.inr (Or.inl ⟨h3.1, h3.2, g, rfl, h.symm⟩))
        · simp only [h3, ↓reduceIte] at h
          by_cases h4 : fmt = 10
          · simp only [h4, ↓reduceIte] at h
            cases hc : childAt d p (p + 1) with
            | none => simp [hc] at h
            | some q =>
              simp only [hc, Option.map_some] at h
              injection h with h
              exact Or.inr (Or.inr (Or.inr (Or.inl ⟨h4, q, rfl, h.symm⟩)))
          · simp only [h4, ↓reduceIte] at h
            by_cases h5 : fmt = 11
            · simp only [h5, ↓reduceIte] at h
              injection h with h
              exact Or.inr (Or.inr (Or.inr (Or.inr (Or.inl ⟨h5, h.symm⟩))))
            · simp only [h5, ↓reduceIte] at h
              by_cases h6 : fmt = 12 ∨ fmt = 13
              · simp only [h6, ↓reduceIte] at h
                split at h
                · cases hc : childAt d p (p + 1) with
                  | none => simp [hc] at h
                  | some q =>
                    simp only [hc, Option.map_some] at h
                    injection h with h
                    exact Or.inr (Or.inr (Or.inr (Or.inr (Or.inr (Or.inr ⟨by omega, by omega, q, rfl, h.symm⟩)))))
                · cases h
              · simp only [h6, ↓reduceIte] at h
                by_cases h7 : fmt = 32
                · simp only [h7, ↓reduceIte] at h
                  split at h
                  · rename_i s b hs hb
                    injection h with h
                    exact Or.inr (Or.inr (Or.inr (Or.inr (Or.inr (Or.inl ⟨h7, s, b, hs, hb, h.symm⟩)))))
                  · cases h
                · simp only [h7, ↓reduceIte] at h
                  cases hc : childAt d p (p + 1) with
                  | none => simp [hc] at h
                  | some q =>
                    simp only [hc, Option.map_some] at h
                    injection h with h
                    have hfmt : fmt ≠ 0 := by
                      intro h0; subst h0
                      unfold paintRead at hf
                      split at hf
                      · cases hf
                      · rename_i f' hf'
                        split at hf
                        · cases hf
                        · rename_i sz hsz
                          split at hf
                          · injection hf with hf; subst hf
                            simp [paintSize] at hsz
                          · cases hf
                    exact Or.inr (Or.inr (Or.inr (Or.inr (Or.inr (Or.inr ⟨by omega, h7, q, rfl, h.symm⟩)))))

/-- the shape of a node read from bytes: a `PaintColrLayers` has a `u8` layer count -/
theorem nodeOfBytes_layers {d : List Nat} {p first num : Nat}
    (h : nodeOfBytes d p = some (.colrLayers first num)) : num = be d (p + 1) 1 ∧ first = be d (p + 2) 4 := by
  obtain ⟨fmt, hf, hc⟩ := nodeOfBytes_cases h
  rcases hc with ⟨_, hn⟩ | ⟨_, hn⟩ | ⟨_, _, g, _, hn⟩ | ⟨_, q, _, hn⟩ | ⟨_, hn⟩ | ⟨_, s, b, _, _, hn⟩ | ⟨_, _, q, _, hn⟩
  · injection hn with h1 h2; exact ⟨h2, h1⟩
  all_goals cases hn

/-- children of the unguarded edges (`PaintGlyph`, the transforms, `PaintComposite`) lie strictly after
their parent in the table -/
theorem nodeOfBytes_glyph {d : List Nat} {p g ch : Nat}
    (h : nodeOfBytes d p = some (.glyph g ch)) : p < ch ∧ ch < d.length := by
  obtain ⟨fmt, hf, hc⟩ := nodeOfBytes_cases h
  rcases hc with ⟨_, hn⟩ | ⟨_, hn⟩ | ⟨_, _, g, _, hn⟩ | ⟨_, q, hq, hn⟩ | ⟨_, hn⟩ | ⟨_, s, b, _, _, hn⟩ | ⟨_, _, q, _, hn⟩
  case inr.inr.inr.inl => injection hn with h1 h2; subst h2; exact childAt_forward hq
  all_goals cases hn

theorem nodeOfBytes_transform {d : List Nat} {p tag ch : Nat}
    (h : nodeOfBytes d p = some (.transform tag ch)) : p < ch ∧ ch < d.length ∧ tag = p := by
  obtain ⟨fmt, hf, hc⟩ := nodeOfBytes_cases h
  rcases hc with ⟨_, hn⟩ | ⟨_, hn⟩ | ⟨_, _, g, _, hn⟩ | ⟨_, q, hq, hn⟩ | ⟨_, hn⟩ | ⟨_, s, b, _, _, hn⟩ | ⟨_, _, q, hq, hn⟩
  case inr.inr.inr.inr.inr.inr => injection hn with h0 h1; subst h1; exact ⟨(childAt_forward hq).1, (childAt_forward hq).2, h0⟩
  all_goals cases hn

theorem nodeOfBytes_composite {d : List Nat} {p s m b : Nat}
    (h : nodeOfBytes d p = some (.composite s m b)) :
    (p < s ∧ s < d.length) ∧ (p < b ∧ b < d.length) ∧ m ≤ 28 := by
  obtain ⟨fmt, hf, hc⟩ := nodeOfBytes_cases h
  rcases hc with ⟨_, hn⟩ | ⟨_, hn⟩ | ⟨_, _, g, _, hn⟩ | ⟨_, q, hq, hn⟩ | ⟨_, hn⟩ | ⟨_, s', b', hs, hb, hn⟩ | ⟨_, _, q, hq, hn⟩
  case inr.inr.inr.inr.inr.inl =>
    injection hn with h1 h2 h3; subst h1; subst h2; subst h3
    refine ⟨childAt_forward hs, childAt_forward hb, ?_⟩
    unfold modeOf; split <;> omega
  all_goals cases hn

/-- **paint ids handed to the decycler are byte offsets inside the table** (layer edge) -/
theorem inst_layer_lt {t : Colr} {i pid : Nat} (h : (instOfBytes t).layer i = some pid) :
    pid < t.d.length ∧ ∃ l, t.layerList = some (.ok l) ∧ i < l.recs.length := by
  simp only [instOfBytes] at h
  split at h
  · rename_i f q hq
    injection h with h; subst h
    obtain ⟨_, hs⟩ := C01HandColr.v1Layer_safe t i
    obtain ⟨hl, sz, hsz, hle⟩ := hs f q hq
    have h3 : 3 ≤ sz := by
      unfold paintSize at hsz
      split at hsz <;> first | (injection hsz with hsz; omega) | cases hsz
    exact ⟨by omega, hl⟩
  · cases h

/-- (colour-glyph edge and root) -/
theorem inst_base_lt {t : Colr} {g pid : Nat} (h : (instOfBytes t).base g = .found pid) :
    pid < t.d.length ∧ g ≤ 65535 := by
  simp only [instOfBytes] at h
  split at h
  · rename_i f q hq
    injection h with h; subst h
    obtain ⟨_, hs⟩ := C01HandColr.v1BaseGlyph_safe t g
    obtain ⟨hg, sz, hsz, hle⟩ := hs f q hq
    have h3 : 3 ≤ sz := by
      unfold paintSize at hsz
      split at hsz <;> first | (injection hsz with hsz; omega) | cases hsz
    exact ⟨by omega, hg⟩
  · cases h
  · cases h

/-- every `PaintColrLayers` read from bytes has at most 255 layers -/
theorem instOfBytes_layersBounded (t : Colr) (hb : Bytes t.d) : LayersBounded (instOfBytes t) 255 := by
  intro id first num h
  have := (nodeOfBytes_layers (d := t.d) h).1
  have h2 := be1_lt t.d hb (id + 1)
  omega

/-- an edge of the paint graph on which `traverse_with_callbacks` does NOT call `decycler.enter`: from the
paint at byte offset `p` to its child at `q` -/
inductive UEdge (d : List Nat) : Nat → Nat → Prop
  | glyph {p g q : Nat} : nodeOfBytes d p = some (.glyph g q) → UEdge d p q
  | transform {p tag q : Nat} : nodeOfBytes d p = some (.transform tag q) → UEdge d p q
  | src {p s m b : Nat} : nodeOfBytes d p = some (.composite s m b) → UEdge d p s
  | backdrop {p s m b : Nat} : nodeOfBytes d p = some (.composite s m b) → UEdge d p b

/-- a chain of `k` unguarded edges starting at offset `p` -/
inductive UChain (d : List Nat) : Nat → Nat → Prop
  | here (p : Nat) : UChain d p 0
  | step {p q k : Nat} : UEdge d p q → UChain d q k → UChain d p (k + 1)

theorem UEdge.forward {d : List Nat} {p q : Nat} (h : UEdge d p q) : p < q ∧ q < d.length := by
  cases h with
  | glyph h => exact nodeOfBytes_glyph h
  | transform h => exact ⟨(nodeOfBytes_transform h).1, (nodeOfBytes_transform h).2.1⟩
  | src h => exact (nodeOfBytes_composite h).1
  | backdrop h => exact (nodeOfBytes_composite h).2.1

end FontVerif.PaintBytes
