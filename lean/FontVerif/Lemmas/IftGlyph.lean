/-
C18 — glyph-keyed patch application at the level of fonts (`apply_glyph_keyed_patches` after
decoding): table-by-table characterisation of a successful result, reading the new loca back.
-/
import FontVerif.Lemmas.Ift
import FontVerif.Lemmas.IftDedup
set_option linter.unusedVariables false
namespace FontVerif.Ift

/-! ## FontBuilder keeps the directory sorted -/

theorem insertTable_mem (t : Tag) (d : Bytes) (f : Font) :
    ∀ x ∈ insertTable t d f, x = (t, d) ∨ x ∈ f := by
  induction f with
  | nil => simp [insertTable]
  | cons hd tl ih =>
    obtain ⟨t', d'⟩ := hd
    unfold insertTable
    by_cases h1 : t < t'
    · simp only [h1, if_true]; intro x hx
      rcases List.mem_cons.mp hx with e | e
      · exact Or.inl e
      · exact Or.inr e
    · by_cases h2 : t = t'
      · simp only [h1, h2, if_false, if_true, Nat.lt_irrefl]; intro x hx
        rcases List.mem_cons.mp hx with e | e
        · exact Or.inl (by rw [e])
        · exact Or.inr (List.mem_cons_of_mem _ e)
      · simp only [h1, h2, if_false]; intro x hx
        rcases List.mem_cons.mp hx with e | e
        · exact Or.inr (by rw [e]; simp)
        · rcases ih x e with e' | e'
          · exact Or.inl e'
          · exact Or.inr (List.mem_cons_of_mem _ e')

theorem insertTable_sorted (t : Tag) (d : Bytes) (f : Font) (hs : SortedGids f) :
    SortedGids (insertTable t d f) := by
  induction f with
  | nil => simp [insertTable, SortedGids]
  | cons hd tl ih =>
    obtain ⟨t', d'⟩ := hd
    have htl := sorted_tail hs
    have hhd := (List.pairwise_cons.mp hs).1
    unfold insertTable
    by_cases h1 : t < t'
    · simp only [h1, if_true]
      refine List.pairwise_cons.mpr ⟨?_, hs⟩
      intro y hy
      rcases List.mem_cons.mp hy with e | e
      · rw [e]; exact h1
      · have := hhd y e; exact Nat.lt_trans h1 this
    · by_cases h2 : t = t'
      · subst h2
        simp only [Nat.lt_irrefl, if_false, if_true]
        exact List.pairwise_cons.mpr ⟨hhd, htl⟩
      · simp only [h1, h2, if_false]
        refine List.pairwise_cons.mpr ⟨?_, ih htl⟩
        intro y hy
        rcases insertTable_mem t d tl y hy with e | e
        · rw [e]; exact Nat.lt_of_le_of_ne (Nat.le_of_not_lt h1) (fun h => h2 h.symm)
        · exact hhd y e

theorem copyUnprocessed_sorted (font : Font) (processed : List Tag) (b : Font) (hs : SortedGids b) :
    SortedGids (copyUnprocessed font processed b) := by
  unfold copyUnprocessed
  induction font generalizing b with
  | nil => exact hs
  | cons hd tl ih =>
    simp only [List.foldl_cons]
    apply ih
    split
    · exact hs
    · exact insertTable_sorted _ _ _ hs

theorem sorted_unique (f : Font) (hs : SortedGids f) : UniqueTags f := by
  unfold UniqueTags
  unfold SortedGids at hs
  rw [List.nodup_iff_pairwise_ne, List.pairwise_map]
  exact hs.imp (fun h => Nat.ne_of_lt h)

/-! ## big-endian numbers read back -/

theorem beValue_append_one (xs : List Nat) (b : Nat) : beValue (xs ++ [b]) = beValue xs * 256 + b := by
  simp [beValue, List.foldl_append]

theorem beBytes_succ (n v : Nat) : beBytes (n + 1) v = beBytes n (v / 256) ++ [v % 256] := by
  unfold beBytes
  rw [List.range_succ, List.map_append]
  congr 1
  · apply List.map_congr_left
    intro i hi
    have hi' : i < n := List.mem_range.mp hi
    rw [show n + 1 - 1 - i = (n - 1 - i) + 1 by omega, Nat.pow_succ, Nat.mul_comm, Nat.div_div_eq_div_mul]
  · simp

theorem beValue_beBytes (n v : Nat) (h : v < 256 ^ n) : beValue (beBytes n v) = v := by
  induction n generalizing v with
  | zero => simp at h; subst h; simp [beBytes, beValue]
  | succ n ih =>
    rw [beBytes_succ, beValue_append_one, ih (v / 256) (by rw [Nat.pow_succ] at h; omega)]
    omega

theorem beBytes_len (n v : Nat) : (beBytes n v).length = n := by simp [beBytes]

theorem beArray_flatMap (w : Nat) (xs : List Nat) (rest : Bytes) (h : ∀ x ∈ xs, x < 256 ^ w) :
    beArray w xs.length (xs.flatMap (beBytes w) ++ rest) = xs := by
  induction xs with
  | nil => simp [beArray]
  | cons x xs ih =>
    simp only [List.length_cons, beArray, List.flatMap_cons, List.append_assoc]
    rw [List.take_left' (beBytes_len w x), List.drop_left' (beBytes_len w x),
      beValue_beBytes w x (h x (by simp)), ih (fun y hy => h y (List.mem_cons_of_mem _ hy))]

theorem flatMap_beBytes_length (w : Nat) (xs : List Nat) : (xs.flatMap (beBytes w)).length = xs.length * w := by
  induction xs with
  | nil => simp
  | cons x xs ih => simp [List.flatMap_cons, beBytes_len, ih, Nat.succ_mul]; omega

/-! ## the per-table loop -/

theorem patchTables_spec (font : Font) (gps : List GlyphPatches) (maxGid : Nat) (tags : List Tag)
    (p0 : List Tag) (b0 : Font) (p : List Tag) (b : Font)
    (h : patchTables font gps maxGid tags (p0, b0) = .ok (p, b)) :
    (∀ tag ∈ tags, tag ≠ TAG_gvar ∧ tag ≠ TAG_CFF ∧ tag ≠ TAG_CFF2) ∧
    (TAG_glyf ∈ tags → ∃ a repl data offs, glyfAndLoca font = some a ∧ dedup TAG_glyf gps = .ok repl ∧
        patchOffsetArray a repl maxGid = .ok (a.offsetType, data, offs) ∧
        b.lookup TAG_glyf = some data ∧ b.lookup TAG_loca = some offs ∧
        (∀ t, t ≠ TAG_glyf → t ≠ TAG_loca → b.lookup t = b0.lookup t) ∧
        (∀ t, t ∈ p ↔ (t ∈ p0 ∨ t = TAG_glyf ∨ t = TAG_loca))) ∧
    (TAG_glyf ∉ tags → b = b0 ∧ p = p0) := by
  induction tags generalizing p0 b0 with
  | nil =>
    simp only [patchTables, Except.ok.injEq, Prod.mk.injEq] at h
    obtain ⟨h1, h2⟩ := h
    subst h1 h2
    exact ⟨by simp, by simp, by simp⟩
  | cons tag rest ih =>
    unfold patchTables at h
    by_cases hg : tag = TAG_glyf
    · subst hg
      simp only [if_true] at h
      cases ha : glyfAndLoca font with
      | none => rw [ha] at h; cases h
      | some a =>
        rw [ha] at h
        simp only at h
        cases hd : dedup TAG_glyf gps with
        | error e => rw [hd] at h; cases h
        | ok repl =>
          rw [hd] at h
          simp only at h
          cases hp : patchOffsetArray a repl maxGid with
          | error e => rw [hp] at h; cases h
          | ok r =>
            obtain ⟨t, data, offs⟩ := r
            rw [hp] at h
            simp only at h
            by_cases ht : t = a.offsetType
            · subst ht
              simp only [ne_eq, not_true_eq_false, if_false] at h
              obtain ⟨i1, i2, i3⟩ := ih _ _ h
              refine ⟨?_, ?_, ?_⟩
              · intro x hx
                rcases List.mem_cons.mp hx with e | e
                · subst e; decide
                · exact i1 x e
              · intro _
                by_cases hr : TAG_glyf ∈ rest
                · obtain ⟨a', repl', data', offs', j1, j2, j3, j4, j5, j6, j7⟩ := i2 hr
                  rw [ha] at j1; cases j1
                  rw [hd] at j2; cases j2
                  rw [hp] at j3; cases j3
                  refine ⟨_, _, _, _, rfl, rfl, hp, j4, j5, ?_, ?_⟩
                  · intro x hx1 hx2
                    rw [j6 x hx1 hx2, lookup_insertTable_ne _ _ _ _ hx2, lookup_insertTable_ne _ _ _ _ hx1]
                  · intro x; rw [j7 x]; simp only [List.mem_cons]
                    constructor
                    · rintro ((e | e | e) | e | e) <;> simp_all
                    · rintro (e | e | e) <;> simp_all
                · obtain ⟨j1, j2⟩ := i3 hr
                  subst j1 j2
                  refine ⟨_, _, _, _, rfl, rfl, hp, ?_, ?_, ?_, ?_⟩
                  · rw [lookup_insertTable_ne _ _ _ _ (by decide), lookup_insertTable_self]
                  · rw [lookup_insertTable_self]
                  · intro x hx1 hx2
                    rw [lookup_insertTable_ne _ _ _ _ hx2, lookup_insertTable_ne _ _ _ _ hx1]
                  · intro x; simp only [List.mem_cons]
                    constructor
                    · rintro (e | e | e) <;> simp_all
                    · rintro (e | e | e) <;> simp_all
              · intro hn; exact absurd (List.mem_cons_self) hn
            · simp only [ne_eq, ht, not_false_eq_true, if_true] at h; cases h
    · simp only [hg, if_false] at h
      by_cases hu : tag = TAG_gvar ∨ tag = TAG_CFF ∨ tag = TAG_CFF2
      · simp only [hu, if_true] at h; cases h
      · simp only [hu, if_false] at h
        obtain ⟨i1, i2, i3⟩ := ih _ _ h
        refine ⟨?_, ?_, ?_⟩
        · intro x hx
          rcases List.mem_cons.mp hx with e | e
          · subst e; simp only [not_or] at hu; exact hu
          · exact i1 x e
        · intro hm
          rcases List.mem_cons.mp hm with e | e
          · exact absurd e.symm hg
          · exact i2 e
        · intro hn
          exact i3 (fun hm => hn (List.mem_cons_of_mem _ hm))

theorem patchTables_sorted (font : Font) (gps : List GlyphPatches) (maxGid : Nat) (tags : List Tag)
    (p0 : List Tag) (b0 : Font) (p : List Tag) (b : Font) (hs : SortedGids b0)
    (h : patchTables font gps maxGid tags (p0, b0) = .ok (p, b)) : SortedGids b := by
  induction tags generalizing p0 b0 with
  | nil =>
    simp only [patchTables, Except.ok.injEq, Prod.mk.injEq] at h
    rw [← h.2]; exact hs
  | cons tag rest ih =>
    unfold patchTables at h
    split at h
    · split at h
      · cases h
      · split at h
        · cases h
        · split at h
          · cases h
          · split at h
            · cases h
            · exact ih _ _ (insertTable_sorted _ _ _ (insertTable_sorted _ _ _ hs)) h
    · split at h
      · cases h
      · exact ih _ _ hs h

/-- the loop depends on the patches only through `dedup TAG_glyf` -/
theorem patchTables_congr (font : Font) (gps gps' : List GlyphPatches) (maxGid : Nat) (tags : List Tag)
    (st : List Tag × Font) (h : TAG_glyf ∈ tags → dedup TAG_glyf gps = dedup TAG_glyf gps') :
    patchTables font gps maxGid tags st = patchTables font gps' maxGid tags st := by
  induction tags generalizing st with
  | nil => obtain ⟨p, b⟩ := st; simp [patchTables]
  | cons tag rest ih =>
    obtain ⟨p, b⟩ := st
    unfold patchTables
    have ihr : ∀ st, patchTables font gps maxGid rest st = patchTables font gps' maxGid rest st :=
      fun st => ih st (fun hm => h (List.mem_cons_of_mem _ hm))
    by_cases hg : tag = TAG_glyf
    · subst hg
      simp only [if_true]
      rw [h (by simp)]
      simp only [ihr]
    · simp only [hg, if_false, ihr]

/-! ## applied bits -/

/-- bit `k` of a byte string, LSB first inside each byte (`application_flag_bit_index`) -/
def bitAt (d : Bytes) (k : Nat) : Bool := (d.getD (k / 8) 0).testBit (k % 8)

/-- the bit indices of the infos that live in IFT (`iftx = false`) or IFTX (`iftx = true`) -/
def bitsFor (iftx : Bool) (infos : List PatchInfo) : List Nat :=
  (infos.filter (fun i => i.iftx == iftx)).map (·.bit)

theorem setAppliedBit_spec (d d' : Bytes) (b : Nat) (h : setAppliedBit d b = some d') :
    d'.length = d.length ∧ b < 8 * d.length ∧ ∀ k, bitAt d' k = (bitAt d k || k == b) := by
  unfold setAppliedBit at h
  split at h
  · cases h
  · rename_i x hx
    simp only [Option.some.injEq] at h
    subst h
    obtain ⟨hl, hxe⟩ := List.getElem?_eq_some_iff.mp hx
    refine ⟨by simp, by omega, ?_⟩
    intro k
    unfold bitAt
    by_cases hk : k / 8 = b / 8
    · have : (d.set (b / 8) (x ||| 1 <<< (b % 8))).getD (k / 8) 0 = x ||| 1 <<< (b % 8) := by
        simp [List.getD, hk, List.getElem?_set, hl]
      rw [this, Nat.testBit_or, Nat.one_shiftLeft, Nat.testBit_two_pow]
      have hd : d.getD (k / 8) 0 = x := by simp [List.getD, hk, hx]
      rw [hd]
      congr 1
      by_cases hkb : k = b
      · subst hkb; simp
      · have : ¬ (b % 8 = k % 8) := by omega
        simp [this, hkb]
    · have : (d.set (b / 8) (x ||| 1 <<< (b % 8))).getD (k / 8) 0 = d.getD (k / 8) 0 := by
        simp [List.getD, List.getElem?_set, Ne.symm hk]
      rw [this]
      have : (k == b) = false := by
        simp only [beq_eq_false_iff_ne, ne_eq]; intro e; subst e; exact hk rfl
      simp [this]

/-- setting a list of applied bits one after the other (`none` if one is out of range) -/
def setBits : Bytes → List Nat → Option Bytes
  | d, [] => some d
  | d, b :: bs =>
    match setAppliedBit d b with
    | none => none
    | some d' => setBits d' bs

theorem setBits_spec (d d' : Bytes) (bs : List Nat) (h : setBits d bs = some d') :
    d'.length = d.length ∧ (∀ b ∈ bs, b < 8 * d.length) ∧ ∀ k, bitAt d' k = (bitAt d k || bs.contains k) := by
  induction bs generalizing d with
  | nil => simp only [setBits, Option.some.injEq] at h; subst h; simp
  | cons b bs ih =>
    simp only [setBits] at h
    split at h
    · cases h
    · rename_i d1 h1
      obtain ⟨l1, r1, k1⟩ := setAppliedBit_spec d d1 b h1
      obtain ⟨l2, r2, k2⟩ := ih d1 h
      refine ⟨by omega, ?_, ?_⟩
      · intro x hx
        rcases List.mem_cons.mp hx with e | e
        · subst e; exact r1
        · have := r2 x e; omega
      · intro k
        rw [k2 k, k1 k]
        simp only [List.contains_cons, Bool.or_assoc]

/-- the two mapping tables after "Mark patches applied in IFT and IFTX" -/
def markedTable (orig : Option Bytes) (bits : List Nat) : Option (Option Bytes) :=
  match orig with
  | none => if bits = [] then some none else none
  | some d => (setBits d bits).map some

theorem markApplied_spec (infos : List PatchInfo) (i x i' x' : Option Bytes)
    (h : markApplied infos (i, x) = .ok (i', x')) :
    markedTable i (bitsFor false infos) = some i' ∧ markedTable x (bitsFor true infos) = some x' := by
  induction infos generalizing i x with
  | nil =>
    simp only [markApplied, Except.ok.injEq, Prod.mk.injEq] at h
    obtain ⟨h1, h2⟩ := h; subst h1 h2
    cases i <;> cases x <;> simp [markedTable, bitsFor, setBits]
  | cons info rest ih =>
    unfold markApplied at h
    cases hx : info.iftx with
    | false =>
      simp only [hx, Bool.false_eq_true, if_false] at h
      cases i with
      | none => simp at h
      | some d =>
        simp only at h
        cases hs : setAppliedBit d info.bit with
        | none => rw [hs] at h; cases h
        | some d1 =>
          rw [hs] at h
          simp only at h
          obtain ⟨j1, j2⟩ := ih (some d1) x h
          refine ⟨?_, ?_⟩
          · simpa [markedTable, bitsFor, List.filter_cons, hx, setBits, hs] using j1
          · simpa [bitsFor, List.filter_cons, hx] using j2
    | true =>
      simp only [hx, if_true] at h
      cases x with
      | none => simp at h
      | some d =>
        simp only at h
        cases hs : setAppliedBit d info.bit with
        | none => rw [hs] at h; cases h
        | some d1 =>
          rw [hs] at h
          simp only at h
          obtain ⟨j1, j2⟩ := ih i (some d1) h
          refine ⟨?_, ?_⟩
          · simpa [bitsFor, List.filter_cons, hx] using j1
          · simpa [markedTable, bitsFor, List.filter_cons, hx, setBits, hs] using j2

/-! ## the whole application (after decoding / parsing) -/

/-- `maxp.num_glyphs` -/
def numGlyphs (font : Font) : Nat :=
  match font.get TAG_maxp with
  | some maxp => beValue (sliceLen maxp 4 2)
  | none => 0

/-- `if let Some(data) = .. { font_builder.add_raw(tag, data) }` -/
def addOpt (t : Tag) (o : Option Bytes) (b : Font) : Font :=
  match o with
  | some d => insertTable t d b
  | none => b

theorem addOpt_lookup (t u : Tag) (o : Option Bytes) (b : Font) :
    (addOpt t o b).lookup u = if u = t then o.or (b.lookup t) else b.lookup u := by
  cases o with
  | none => by_cases e : u = t <;> simp [addOpt, e]
  | some d =>
    by_cases e : u = t
    · subst e; simp [addOpt, lookup_insertTable_self]
    · simp [addOpt, e, lookup_insertTable_ne _ _ _ _ e]

theorem addOpt_sorted (t : Tag) (o : Option Bytes) (b : Font) (hs : SortedGids b) : SortedGids (addOpt t o b) := by
  cases o with
  | none => exact hs
  | some d => exact insertTable_sorted _ _ _ hs

/-- table-by-table characterisation of a successful `apply_glyph_keyed_patches` -/
theorem applyGlyphPatches_char (infos : List PatchInfo) (gps : List GlyphPatches) (font out : Font)
    (hu : UniqueTags font) (h : applyGlyphPatches infos gps font = .ok out) :
    ∃ tags ift iftx, numGlyphs font ≠ 0 ∧ tableTagList gps = .ok tags ∧
      markApplied infos (font.get TAG_IFT, font.get TAG_IFTX) = .ok (ift, iftx) ∧
      SortedGids out ∧ out.get TAG_IFT = ift ∧ out.get TAG_IFTX = iftx ∧
      (∀ t, t ≠ TAG_IFT → t ≠ TAG_IFTX → t ≠ TAG_glyf → t ≠ TAG_loca → out.get t = font.get t) ∧
      (∀ tag ∈ tags, tag ≠ TAG_gvar ∧ tag ≠ TAG_CFF ∧ tag ≠ TAG_CFF2) ∧
      (TAG_glyf ∈ tags → ∃ a repl data offs, glyfAndLoca font = some a ∧ dedup TAG_glyf gps = .ok repl ∧
          patchOffsetArray a repl (numGlyphs font - 1) = .ok (a.offsetType, data, offs) ∧
          out.get TAG_glyf = some data ∧ out.get TAG_loca = some offs) ∧
      (TAG_glyf ∉ tags → out.get TAG_glyf = font.get TAG_glyf ∧ out.get TAG_loca = font.get TAG_loca) := by
  unfold applyGlyphPatches at h
  cases hm : font.get TAG_maxp with
  | none => rw [hm] at h; cases h
  | some maxp =>
    rw [hm] at h
    simp only at h
    have hng : numGlyphs font = beValue (sliceLen maxp 4 2) := by simp [numGlyphs, hm]
    by_cases hz : beValue (sliceLen maxp 4 2) = 0
    · simp only [hz, if_true] at h; cases h
    · simp only [hz, if_false] at h
      cases ht : tableTagList gps with
      | error e => rw [ht] at h; cases h
      | ok tags =>
        rw [ht] at h
        simp only at h
        cases hp : patchTables font gps (beValue (sliceLen maxp 4 2) - 1) tags ([TAG_IFTX, TAG_IFT], []) with
        | error e => rw [hp] at h; cases h
        | ok pb =>
          obtain ⟨p, b⟩ := pb
          rw [hp] at h
          simp only at h
          cases hma : markApplied infos (font.get TAG_IFT, font.get TAG_IFTX) with
          | error e => rw [hma] at h; cases h
          | ok ii =>
            obtain ⟨ift, iftx⟩ := ii
            rw [hma] at h
            simp only [Except.ok.injEq] at h
            obtain ⟨s1, s2, s3⟩ := patchTables_spec font gps _ tags _ _ p b hp
            have hform : out = copyUnprocessed font p (addOpt TAG_IFTX iftx (addOpt TAG_IFT ift b)) := by
              rw [← h]; cases ift <;> cases iftx <;> rfl
            clear h
            generalize hb2 : addOpt TAG_IFTX iftx (addOpt TAG_IFT ift b) = b2 at hform
            have hbs : SortedGids b := patchTables_sorted font gps _ tags _ _ p b (by simp [SortedGids]) hp
            have hbn : ∀ t, t ≠ TAG_glyf → t ≠ TAG_loca → b.lookup t = none := by
              intro t h1 h2
              by_cases hg : TAG_glyf ∈ tags
              · obtain ⟨_, _, _, _, _, _, _, _, _, j6, _⟩ := s2 hg
                rw [j6 t h1 h2]; rfl
              · rw [(s3 hg).1]; rfl
            have hpm : ∀ t, t ∈ p ↔ (t = TAG_IFTX ∨ t = TAG_IFT ∨ (TAG_glyf ∈ tags ∧ (t = TAG_glyf ∨ t = TAG_loca))) := by
              intro t
              by_cases hg : TAG_glyf ∈ tags
              · obtain ⟨_, _, _, _, _, _, _, _, _, _, j7⟩ := s2 hg
                rw [j7 t]; simp [hg, or_assoc]
              · rw [(s3 hg).2]; simp [hg]
            have hb2l : ∀ t, b2.lookup t = if t = TAG_IFTX then iftx else if t = TAG_IFT then ift else b.lookup t := by
              intro t
              subst hb2
              rw [addOpt_lookup, addOpt_lookup, addOpt_lookup]
              simp only [show TAG_IFTX ≠ TAG_IFT by decide, if_false,
                hbn TAG_IFTX (by decide) (by decide), hbn TAG_IFT (by decide) (by decide), Option.or_none]
            have hb2s : SortedGids b2 := by
              subst hb2; exact addOpt_sorted _ _ _ (addOpt_sorted _ _ _ hbs)
            subst hform
            have hout := fun t => copyUnprocessed_lookup font p b2 t hu
            have hc : ∀ t, p.contains t = true ↔ t ∈ p := fun t => by simp
            refine ⟨tags, ift, iftx, by rw [hng]; exact hz, rfl, rfl,
              copyUnprocessed_sorted _ _ _ hb2s, ?_, ?_, ?_, s1, ?_, ?_⟩
            · unfold Font.get
              rw [hout, if_pos ((hc _).mpr ((hpm _).mpr (Or.inr (Or.inl rfl)))), hb2l]
              simp only [show TAG_IFT ≠ TAG_IFTX by decide, if_false, if_true]
            · unfold Font.get
              rw [hout, if_pos ((hc _).mpr ((hpm _).mpr (Or.inl rfl))), hb2l]
              simp only [if_true]
            · intro t h1 h2 h3 h4
              unfold Font.get
              have hnp : ¬ (p.contains t = true) := by
                rw [hc, hpm]; simp [h1, h2, h3, h4]
              rw [hout, if_neg hnp, hb2l]
              simp only [h1, h2, if_false, hbn t h3 h4]
              cases font.lookup t <;> rfl
            · intro hg
              obtain ⟨a, repl, data, offs, j1, j2, j3, j4, j5, _, _⟩ := s2 hg
              rw [← hng] at j3
              refine ⟨a, repl, data, offs, j1, j2, j3, ?_, ?_⟩
              · unfold Font.get
                rw [hout, if_pos ((hc _).mpr ((hpm _).mpr (Or.inr (Or.inr ⟨hg, Or.inl rfl⟩)))), hb2l]
                simp only [show TAG_glyf ≠ TAG_IFTX by decide, show TAG_glyf ≠ TAG_IFT by decide, if_false]
                exact j4
              · unfold Font.get
                rw [hout, if_pos ((hc _).mpr ((hpm _).mpr (Or.inr (Or.inr ⟨hg, Or.inr rfl⟩)))), hb2l]
                simp only [show TAG_loca ≠ TAG_IFTX by decide, show TAG_loca ≠ TAG_IFT by decide, if_false]
                exact j5
            · intro hg
              have hx : ∀ t, t = TAG_glyf ∨ t = TAG_loca → (copyUnprocessed font p b2).get t = font.get t := by
                intro t ht
                have h1 : t ≠ TAG_IFTX := by rcases ht with e | e <;> subst e <;> decide
                have h2 : t ≠ TAG_IFT := by rcases ht with e | e <;> subst e <;> decide
                unfold Font.get
                have hnp : ¬ (p.contains t = true) := by
                  rw [hc, hpm]; simp [h1, h2, hg]
                rw [hout, if_neg hnp, hb2l]
                simp only [h1, h2, if_false, (s3 hg).1]
                cases font.lookup t <;> rfl
              exact ⟨hx _ (Or.inl rfl), hx _ (Or.inr rfl)⟩

/-! ## reading glyf/loca, and reading the new loca back -/

def isLongLoca (head : Bytes) : Bool := beValue (sliceLen head 50 2) == 1

theorem glyfAndLoca_some (font : Font) (a : OffsetArray) (h : glyfAndLoca font = some a) :
    ∃ glyf head loca, font.get TAG_glyf = some glyf ∧ font.get TAG_head = some head ∧
      font.get TAG_loca = some loca ∧ a.data = glyf ∧
      a.offsetType = (if isLongLoca head then OffsetType.long else OffsetType.shortDivByTwo) ∧
      a.available = [a.offsetType] ∧
      a.missing = .invalidPatch "Start loca entry is missing." ∧ a.getErr = .fontParsingFailed .outOfBounds ∧
      (∀ o ∈ a.offsets, o % a.offsetType.divisor = 0) := by
  unfold glyfAndLoca at h
  cases hg : font.get TAG_glyf with
  | none => rw [hg] at h; cases h
  | some glyf =>
    cases hh : font.get TAG_head with
    | none => rw [hg, hh] at h; cases h
    | some head =>
      cases hl : font.get TAG_loca with
      | none => rw [hg, hh, hl] at h; cases h
      | some loca =>
        rw [hg, hh, hl] at h
        simp only at h
        cases hlong : (beValue (sliceLen head 50 2) == 1) with
        | true =>
          rw [hlong] at h
          simp only [if_true] at h
          split at h
          · cases h
          · simp only [Option.some.injEq] at h
            subst h
            refine ⟨glyf, head, loca, rfl, rfl, rfl, rfl, ?_, rfl, rfl, rfl, ?_⟩
            · simp [isLongLoca, hlong]
            · intro o ho; simp [OffsetType.divisor, Nat.mod_one]
        | false =>
          rw [hlong] at h
          simp only [Bool.false_eq_true, if_false] at h
          split at h
          · cases h
          · simp only [Option.some.injEq] at h
            subst h
            refine ⟨glyf, head, loca, rfl, rfl, rfl, rfl, ?_, rfl, rfl, rfl, ?_⟩
            · simp [isLongLoca, hlong]
            · intro o ho
              simp only [List.mem_map] at ho
              obtain ⟨r, _, hr⟩ := ho
              subst hr
              simp [OffsetType.divisor]

theorem encodeOffs_as_flatMap (t : OffsetType) (os : List Nat) :
    encodeOffs t os = (os.map (fun o => o / t.divisor + t.bias)).flatMap (beBytes t.width) := by
  simp [encodeOffs, List.flatMap_map]

/-- a font whose `loca` is `encodeOffs t os` (same `head`) reads back the offsets `os` -/
theorem glyfAndLoca_readback (font font' : Font) (a : OffsetArray) (h : glyfAndLoca font = some a)
    (data : Bytes) (os : List Nat)
    (hg : font'.get TAG_glyf = some data) (hh : font'.get TAG_head = font.get TAG_head)
    (hl : font'.get TAG_loca = some (encodeOffs a.offsetType os))
    (hdiv : ∀ o ∈ os, o % a.offsetType.divisor = 0)
    (hb : ∀ o ∈ os, o / a.offsetType.divisor < 2 ^ (a.offsetType.width * 8)) :
    glyfAndLoca font' = some { a with offsets := os, data := data } := by
  obtain ⟨glyf, head, loca, g1, g2, g3, g4, g5, g6, g7, g8, _⟩ := glyfAndLoca_some font a h
  obtain ⟨t, av, offs, dat, mis, ge⟩ := a
  simp only at g4 g5 g6 g7 g8 hl hdiv hb
  subst g4 g6 g7 g8
  unfold glyfAndLoca
  rw [hg, hh, g2, hl]
  simp only
  have hpow : ∀ w : Nat, 2 ^ (w * 8) = 256 ^ w := fun w => by
    rw [Nat.mul_comm, Nat.pow_mul]
  cases hlong : isLongLoca head with
  | true =>
    have hlong' : (beValue (sliceLen head 50 2) == 1) = true := hlong
    rw [hlong] at g5; simp only [if_true] at g5
    subst g5
    simp only [OffsetType.divisor, OffsetType.width, Nat.div_one] at hb hdiv ⊢
    have henc : encodeOffs OffsetType.long os = os.flatMap (beBytes 4) := by
      simp [encodeOffs, OffsetType.divisor, OffsetType.width, OffsetType.bias]
    have hlen : (encodeOffs OffsetType.long os).length = os.length * 4 := by
      rw [henc, flatMap_beBytes_length]
    simp only [hlong', if_true]
    rw [if_neg (by rw [hlen]; simp)]
    have hb' : ∀ o ∈ os, o < 256 ^ 4 := fun o ho => by have := hb o ho; rw [hpow] at this; exact this
    have := beArray_flatMap 4 os [] hb'
    rw [List.append_nil] at this
    rw [hlen, Nat.mul_div_cancel _ (by decide : 0 < 4), henc, this]
  | false =>
    have hlong' : (beValue (sliceLen head 50 2) == 1) = false := hlong
    rw [hlong] at g5; simp only [Bool.false_eq_true, if_false] at g5
    subst g5
    simp only [OffsetType.divisor, OffsetType.width] at hb hdiv ⊢
    have henc : encodeOffs OffsetType.shortDivByTwo os = (os.map (· / 2)).flatMap (beBytes 2) := by
      simp [encodeOffs, OffsetType.divisor, OffsetType.width, OffsetType.bias, List.flatMap_map]
    have hlen : (encodeOffs OffsetType.shortDivByTwo os).length = os.length * 2 := by
      rw [henc, flatMap_beBytes_length, List.length_map]
    simp only [hlong', Bool.false_eq_true, if_false]
    rw [if_neg (by rw [hlen]; simp)]
    have hb' : ∀ o ∈ os.map (· / 2), o < 256 ^ 2 := fun o ho => by
      obtain ⟨x, hx, hxe⟩ := List.mem_map.mp ho
      have := hb x hx; rw [hpow] at this; omega
    have := beArray_flatMap 2 (os.map (· / 2)) [] hb'
    rw [List.append_nil, List.length_map] at this
    rw [hlen, Nat.mul_div_cancel _ (by decide : 0 < 2), henc, this]
    have hback : (os.map (· / 2)).map (· * 2) = os := by
      rw [List.map_map]
      conv => rhs; rw [← List.map_id os]
      apply List.map_congr_left
      intro o ho
      have := hdiv o ho
      simp only [Function.comp, id]; omega
    rw [hback]

/-! ## table_tag_list -/

theorem insertSorted_spec (t : Nat) (s : List Nat) (hs : s.Pairwise (· < ·)) :
    (insertSorted t s).Pairwise (· < ·) ∧ ∀ x, x ∈ insertSorted t s ↔ (x = t ∨ x ∈ s) := by
  induction s with
  | nil => simp [insertSorted]
  | cons y ys ih =>
    obtain ⟨i1, i2⟩ := ih (List.pairwise_cons.mp hs).2
    have hy := (List.pairwise_cons.mp hs).1
    unfold insertSorted
    by_cases h1 : t < y
    · simp only [h1, if_true]
      refine ⟨List.pairwise_cons.mpr ⟨?_, hs⟩, fun x => by simp⟩
      intro z hz
      rcases List.mem_cons.mp hz with e | e
      · rw [e]; exact h1
      · exact Nat.lt_trans h1 (hy z e)
    · by_cases h2 : t = y
      · subst h2
        simp only [Nat.lt_irrefl, if_false, if_true]
        exact ⟨hs, fun x => by simp⟩
      · simp only [h1, h2, if_false]
        refine ⟨List.pairwise_cons.mpr ⟨?_, i1⟩, ?_⟩
        · intro z hz
          rcases (i2 z).mp hz with e | e
          · rw [e]; omega
          · exact hy z e
        · intro x; simp only [List.mem_cons, i2 x]
          constructor
          · rintro (e | e | e) <;> simp_all
          · rintro (e | e | e) <;> simp_all

theorem foldl_insertSorted_spec (l s : List Nat) (hs : s.Pairwise (· < ·)) :
    (l.foldl (fun s t => insertSorted t s) s).Pairwise (· < ·) ∧
    ∀ x, x ∈ l.foldl (fun s t => insertSorted t s) s ↔ (x ∈ l ∨ x ∈ s) := by
  induction l generalizing s with
  | nil => simp [hs]
  | cons y ys ih =>
    obtain ⟨i1, i2⟩ := insertSorted_spec y s hs
    obtain ⟨j1, j2⟩ := ih (insertSorted y s) i1
    refine ⟨j1, ?_⟩
    intro x
    simp only [List.foldl_cons, j2 x, i2 x, List.mem_cons]
    constructor
    · rintro (e | e | e) <;> simp_all
    · rintro ((e | e) | e) <;> simp_all

theorem strict_sorted_ext (l1 l2 : List Nat) (h1 : l1.Pairwise (· < ·)) (h2 : l2.Pairwise (· < ·))
    (h : ∀ x, x ∈ l1 ↔ x ∈ l2) : l1 = l2 := by
  induction l1 generalizing l2 with
  | nil =>
    cases l2 with
    | nil => rfl
    | cons y ys => have := (h y).mpr (by simp); cases this
  | cons x xs ih =>
    cases l2 with
    | nil => have := (h x).mp (by simp); cases this
    | cons y ys =>
      have hx := (List.pairwise_cons.mp h1).1
      have hy := (List.pairwise_cons.mp h2).1
      have hxy : x = y := by
        rcases List.mem_cons.mp ((h x).mp (by simp)) with e | e
        · exact e
        · rcases List.mem_cons.mp ((h y).mpr (by simp)) with e' | e'
          · exact e'.symm
          · have := hy x e; have := hx y e'; omega
      subst hxy
      congr 1
      apply ih ys (List.pairwise_cons.mp h1).2 (List.pairwise_cons.mp h2).2
      intro z
      constructor
      · intro hz
        rcases List.mem_cons.mp ((h z).mp (List.mem_cons_of_mem _ hz)) with e | e
        · have := hx z hz; omega
        · exact e
      · intro hz
        rcases List.mem_cons.mp ((h z).mpr (List.mem_cons_of_mem _ hz)) with e | e
        · have := hy z hz; omega
        · exact e

theorem tableTagList_ok (gps : List GlyphPatches) (tags : List Tag) (h : tableTagList gps = .ok tags) :
    tags.Pairwise (· < ·) ∧ ∀ t, t ∈ tags ↔ ∃ gp ∈ gps, t ∈ gp.tables := by
  unfold tableTagList at h
  split at h
  · cases h
  · simp only [Except.ok.injEq] at h
    subst h
    obtain ⟨h1, h2⟩ := foldl_insertSorted_spec (gps.flatMap (·.tables)) [] (by simp)
    refine ⟨h1, ?_⟩
    intro t
    rw [h2 t]
    simp [List.mem_flatMap]

/-- `table_tag_list` does not depend on the order of the patches -/
theorem tableTagList_perm (gps gps' : List GlyphPatches) (hp : gps.Perm gps') :
    (∃ e, tableTagList gps = .error e ∧ tableTagList gps' = .error e) ∨
    (∃ tags, tableTagList gps = .ok tags ∧ tableTagList gps' = .ok tags) := by
  have hany : gps.any (fun gp => !strictlyAscending gp.tables) = gps'.any (fun gp => !strictlyAscending gp.tables) := by
    rw [Bool.eq_iff_iff]
    simp only [List.any_eq_true]
    constructor
    · rintro ⟨x, hx, hxp⟩; exact ⟨x, hp.mem_iff.mp hx, hxp⟩
    · rintro ⟨x, hx, hxp⟩; exact ⟨x, hp.mem_iff.mpr hx, hxp⟩
  unfold tableTagList
  rw [← hany]
  split
  · exact Or.inl ⟨_, rfl, rfl⟩
  · refine Or.inr ⟨_, rfl, ?_⟩
    congr 1
    obtain ⟨a1, a2⟩ := foldl_insertSorted_spec (gps.flatMap (·.tables)) [] (by simp)
    obtain ⟨b1, b2⟩ := foldl_insertSorted_spec (gps'.flatMap (·.tables)) [] (by simp)
    apply strict_sorted_ext _ _ b1 a1
    intro x
    rw [a2 x, b2 x]
    simp only [List.mem_flatMap, List.not_mem_nil, or_false]
    constructor
    · rintro ⟨g, hg, hx⟩; exact ⟨g, hp.mem_iff.mpr hg, hx⟩
    · rintro ⟨g, hg, hx⟩; exact ⟨g, hp.mem_iff.mp hg, hx⟩

/-! ## the spliced glyf/loca read back -/

theorem mod_zero_sub (d x y : Nat) (hx : x % d = 0) (hy : y % d = 0) : (x - y) % d = 0 := by
  have h1 := Nat.dvd_of_mod_eq_zero hx
  have h2 := Nat.dvd_of_mod_eq_zero hy
  exact Nat.mod_eq_zero_of_dvd (Nat.dvd_sub h1 h2)

theorem mod_zero_add (d x y : Nat) (hx : x % d = 0) (hy : y % d = 0) : (x + y) % d = 0 := by
  have h1 := Nat.dvd_of_mod_eq_zero hx
  have h2 := Nat.dvd_of_mod_eq_zero hy
  exact Nat.mod_eq_zero_of_dvd (Nat.dvd_add h1 h2)

theorem getD_mem_or (l : List Nat) (g : Nat) (hg : g < l.length) : l.getD g 0 ∈ l := by
  simp [List.getD, List.getElem?_eq_getElem hg]

theorem chunk_len_div (a : OffsetArray) (t : OffsetType) (repl : List (Nat × Bytes)) (maxGid g : Nat)
    (ht : t.divisor = 1 ∨ t.divisor = 2)
    (hdiv : ∀ o ∈ a.offsets, o % t.divisor = 0) (hp : a.offsets.Pairwise (· ≤ ·))
    (hk : KeptInBounds a repl maxGid) (hg : g ≤ maxGid) :
    (chunkFor a t repl g).length % t.divisor = 0 := by
  unfold chunkFor
  cases hl : repl.lookup g with
  | some d =>
    simp only [padTo, List.length_append, List.length_replicate]
    rcases ht with e | e <;> rw [e] <;> omega
  | none =>
    obtain ⟨k1, k2⟩ := hk g hg hl
    simp only
    rw [glyphAt_length a.offsets a.data hp g k1 k2]
    exact mod_zero_sub _ _ _ (hdiv _ (getD_mem_or _ _ k1)) (hdiv _ (getD_mem_or _ _ (by omega)))

theorem startsFrom_div (d w : Nat) (cs : List Bytes) (hw : w % d = 0) (hc : ∀ c ∈ cs, c.length % d = 0) :
    (∀ o ∈ startsFrom w cs, o % d = 0) ∧ (w + cs.flatten.length) % d = 0 := by
  induction cs generalizing w with
  | nil => simp [startsFrom, hw]
  | cons c cs ih =>
    have hc0 := hc c (by simp)
    obtain ⟨i1, i2⟩ := ih (w + c.length) (mod_zero_add _ _ _ hw hc0) (fun x hx => hc x (List.mem_cons_of_mem _ hx))
    refine ⟨?_, ?_⟩
    · intro o ho
      simp only [startsFrom, List.mem_cons] at ho
      rcases ho with e | e
      · rw [e]; exact hw
      · exact i1 o e
    · simp only [List.flatten_cons, List.length_append]
      rw [← Nat.add_assoc]; exact i2

theorem newOffsets_div (d : Nat) (cs : List Bytes) (hc : ∀ c ∈ cs, c.length % d = 0) :
    ∀ o ∈ newOffsets cs, o % d = 0 := by
  obtain ⟨h1, h2⟩ := startsFrom_div d 0 cs (Nat.zero_mod _) hc
  intro o ho
  simp only [newOffsets, List.mem_append, List.mem_singleton] at ho
  rcases ho with e | e
  · exact h1 o e
  · rw [e]; simpa using h2

theorem newOffsets_le_last (cs : List Bytes) : ∀ o ∈ newOffsets cs, o ≤ cs.flatten.length := by
  intro o ho
  obtain ⟨i, hi, he⟩ := List.mem_iff_getElem.mp ho
  rw [newOffsets_length] at hi
  have h1 : (newOffsets cs).getD i 0 = o := by simp [List.getD, newOffsets_length, hi, he]
  have := getD_mono (newOffsets cs) (newOffsets_pairwise cs) i cs.length (by omega) (by rw [newOffsets_length]; omega)
  rw [h1, newOffsets_last] at this
  exact this

theorem glyfAndLoca_divisor (font : Font) (a : OffsetArray) (h : glyfAndLoca font = some a) :
    (a.offsetType.divisor = 1 ∨ a.offsetType.divisor = 2) ∧ a.offsetType.bias = 0 := by
  obtain ⟨_, head, _, _, _, _, _, g5, _⟩ := glyfAndLoca_some font a h
  rw [g5]
  cases isLongLoca head <;> simp [OffsetType.divisor, OffsetType.bias]

/-- the font produced by a successful glyf splice reads back as: offsets = `newOffsets` of the
chunks, data = their concatenation -/
theorem glyf_splice_readback (font out : Font) (a : OffsetArray) (repl : List (Nat × Bytes))
    (maxGid : Nat) (data offs : Bytes)
    (ha : glyfAndLoca font = some a) (hsort : SortedGids repl)
    (hp : patchOffsetArray a repl maxGid = .ok (a.offsetType, data, offs))
    (hg : out.get TAG_glyf = some data) (hl : out.get TAG_loca = some offs)
    (hh : out.get TAG_head = font.get TAG_head) :
    glyfAndLoca out = some { a with offsets := newOffsets (chunks a a.offsetType repl maxGid),
                                    data := (chunks a a.offsetType repl maxGid).flatten } := by
  obtain ⟨e1, e2⟩ := patchOffsetArray_eq a repl maxGid hsort _ data offs hp
  obtain ⟨f1, f2, f3, _⟩ := patchOffsetArray_facts a repl maxGid hsort _ data offs hp
  obtain ⟨hd, hbias⟩ := glyfAndLoca_divisor font a ha
  obtain ⟨_, _, _, _, _, _, _, _, _, _, _, hdiv⟩ := glyfAndLoca_some font a ha
  have hpw := ascending_pairwise _ f1
  have hcs : ∀ c ∈ chunks a a.offsetType repl maxGid, c.length % a.offsetType.divisor = 0 := by
    intro c hc
    obtain ⟨g, hg', he⟩ := List.mem_iff_getElem.mp hc
    rw [chunks_getElem] at he
    rw [← he]
    rw [chunks_length] at hg'
    exact chunk_len_div a _ repl maxGid g hd hdiv hpw f3 (by omega)
  rw [e1] at hg
  rw [e2] at hl
  apply glyfAndLoca_readback font out a ha _ _ hg hh hl
  · exact newOffsets_div _ _ hcs
  · intro o ho
    have h1 := newOffsets_le_last _ o ho
    rw [hbias, Nat.add_zero] at f2
    have hpos : 0 < a.offsetType.divisor := by rcases hd with e | e <;> omega
    exact Nat.lt_of_le_of_lt (Nat.div_le_div_right h1) f2

end FontVerif.Ift
