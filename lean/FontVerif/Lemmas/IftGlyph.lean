/-
C18 — glyph-keyed patch application at the level of fonts (`apply_glyph_keyed_patches` after
decoding): table-by-table characterisation of a successful result, reading the new loca back.
-/
import FontVerif.Lemmas.Ift
import FontVerif.Lemmas.IftDedup
set_option linter.unusedVariables false
namespace FontVerif.Ift

/-! ## FontBuilder keeps the directory sorted -/

theorem insertTable_mem (t : Tag) (d : Bytes) (f : Font) :
    ∀ x ∈ insertTable t d f, x = (t, d) ∨ x ∈ f := by
  induction f with
  | nil => simp [insertTable]
  | cons hd tl ih =>
    obtain ⟨t', d'⟩ := hd
    unfold insertTable
    by_cases h1 : t < t'
    · simp only [h1, if_true]; intro x hx
      rcases List.mem_cons.mp hx with e | e
      · exact Or.inl e
      · exact Or.inr e
    · by_cases h2 : t = t'
      · simp only [h1, h2, if_false, if_true, Nat.lt_irrefl]; intro x hx
        rcases List.mem_cons.mp hx with e | e
        · exact Or.inl (by rw [e])
        · exact Or.inr (List.mem_cons_of_mem _ e)
      · simp only [h1, h2, if_false]; intro x hx
        rcases List.mem_cons.mp hx with e | e
        · exact Or.inr (by rw [e]; simp)
        · rcases ih x e with e' | e'
          · exact Or.inl e'
          · exact Or.inr (List.mem_cons_of_mem _ e')

theorem insertTable_sorted (t : Tag) (d : Bytes) (f : Font) (hs : SortedGids f) :
    SortedGids (insertTable t d f) := by
  induction f with
  | nil => simp [insertTable, SortedGids]
  | cons hd tl ih =>
    obtain ⟨t', d'⟩ := hd
    have htl := sorted_tail hs
    have hhd := (List.pairwise_cons.mp hs).1
    unfold insertTable
    by_cases h1 : t < t'
    · simp only [h1, if_true]
      refine List.pairwise_cons.mpr ⟨?_, hs⟩
      intro y hy
      rcases List.mem_cons.mp hy with e | e
      · rw [e]; exact h1
      · have := hhd y e; exact Nat.lt_trans h1 this
    · by_cases h2 : t = t'
      · subst h2
        simp only [Nat.lt_irrefl, if_false, if_true]
        exact List.pairwise_cons.mpr ⟨hhd, htl⟩
      · simp only [h1, h2, if_false]
        refine List.pairwise_cons.mpr ⟨?_, ih htl⟩
        intro y hy
        rcases insertTable_mem t d tl y hy with e | e
        · rw [e]; exact Nat.lt_of_le_of_ne (Nat.le_of_not_lt h1) (fun h => h2 h.symm)
        · exact hhd y e

theorem copyUnprocessed_sorted (font : Font) (processed : List Tag) (b : Font) (hs : SortedGids b) :
    SortedGids (copyUnprocessed font processed b) := by
  unfold copyUnprocessed
  induction font generalizing b with
  | nil => exact hs
  | cons hd tl ih =>
    simp only [List.foldl_cons]
    apply ih
    split
    · exact hs
    · exact insertTable_sorted _ _ _ hs

theorem sorted_unique (f : Font) (hs : SortedGids f) : UniqueTags f := by
  unfold UniqueTags
  unfold SortedGids at hs
  rw [List.nodup_iff_pairwise_ne, List.pairwise_map]
  exact hs.imp (fun h => Nat.ne_of_lt h)

/-! ## big-endian numbers read back -/

theorem beValue_append_one (xs : List Nat) (b : Nat) : beValue (xs ++ [b]) = beValue xs * 256 + b := by
  simp [beValue, List.foldl_append]

theorem beBytes_succ (n v : Nat) : beBytes (n + 1) v = beBytes n (v / 256) ++ [v % 256] := by
  unfold beBytes
  rw [List.range_succ, List.map_append]
  congr 1
  · apply List.map_congr_left
    intro i hi
    have hi' : i < n := List.mem_range.mp hi
    rw [show n + 1 - 1 - i = (n - 1 - i) + 1 by omega, Nat.pow_succ, Nat.mul_comm, Nat.div_div_eq_div_mul]
  · simp

theorem beValue_beBytes (n v : Nat) (h : v < 256 ^ n) : beValue (beBytes n v) = v := by
  induction n generalizing v with
  | zero => simp at h; subst h; simp [beBytes, beValue]
  | succ n ih =>
    rw [beBytes_succ, beValue_append_one, ih (v / 256) (by rw [Nat.pow_succ] at h; omega)]
    omega

theorem beBytes_len (n v : Nat) : (beBytes n v).length = n := by simp [beBytes]

theorem beArray_flatMap (w : Nat) (xs : List Nat) (rest : Bytes) (h : ∀ x ∈ xs, x < 256 ^ w) :
    beArray w xs.length (xs.flatMap (beBytes w) ++ rest) = xs := by
  induction xs with
  | nil => simp [beArray]
  | cons x xs ih =>
    simp only [List.length_cons, beArray, List.flatMap_cons, List.append_assoc]
    rw [List.take_left' (beBytes_len w x), List.drop_left' (beBytes_len w x),
      beValue_beBytes w x (h x (by simp)), ih (fun y hy => h y (List.mem_cons_of_mem _ hy))]

theorem flatMap_beBytes_length (w : Nat) (xs : List Nat) : (xs.flatMap (beBytes w)).length = xs.length * w := by
  induction xs with
  | nil => simp
  | cons x xs ih => simp [List.flatMap_cons, beBytes_len, ih, Nat.succ_mul]; omega

/-! ## the per-table loop -/

/-- the arm (a tag of `table_tag_list`) that writes table `t` -/
def ownerOf (t : Tag) : Option Tag :=
  if t = TAG_glyf ∨ t = TAG_loca then some TAG_glyf
  else if t = TAG_gvar then some TAG_gvar
  else if t = TAG_CFF then some TAG_CFF
  else if t = TAG_CFF2 then some TAG_CFF2
  else none

/-- the four tags that select an arm -/
def IsArmTag (tag : Tag) : Prop := tag = TAG_glyf ∨ tag = TAG_gvar ∨ tag = TAG_CFF ∨ tag = TAG_CFF2

instance (tag : Tag) : Decidable (IsArmTag tag) := by unfold IsArmTag; infer_instance

theorem ownerOf_eq_iff (t tag : Nat) : ownerOf t = some tag ↔
    (tag = TAG_glyf ∧ (t = TAG_glyf ∨ t = TAG_loca)) ∨ (tag = TAG_gvar ∧ t = TAG_gvar) ∨
    (tag = TAG_CFF ∧ t = TAG_CFF) ∨ (tag = TAG_CFF2 ∧ t = TAG_CFF2) := by
  unfold ownerOf
  by_cases c1 : t = TAG_glyf ∨ t = TAG_loca
  · rw [if_pos c1]; simp only [Option.some.injEq, TAG_glyf, TAG_loca, TAG_gvar, TAG_CFF, TAG_CFF2] at *
    constructor
    · intro hh; exact Or.inl ⟨hh.symm, c1⟩
    · rintro (⟨e, _⟩ | ⟨_, e⟩ | ⟨_, e⟩ | ⟨_, e⟩) <;> first | exact e.symm | omega
  · rw [if_neg c1]
    by_cases c2 : t = TAG_gvar
    · rw [if_pos c2]; simp only [Option.some.injEq, TAG_glyf, TAG_loca, TAG_gvar, TAG_CFF, TAG_CFF2] at *
      constructor
      · intro hh; exact Or.inr (Or.inl ⟨hh.symm, c2⟩)
      · rintro (⟨_, e⟩ | ⟨e, _⟩ | ⟨_, e⟩ | ⟨_, e⟩) <;> first | exact e.symm | omega
    · rw [if_neg c2]
      by_cases c3 : t = TAG_CFF
      · rw [if_pos c3]; simp only [Option.some.injEq, TAG_glyf, TAG_loca, TAG_gvar, TAG_CFF, TAG_CFF2] at *
        constructor
        · intro hh; exact Or.inr (Or.inr (Or.inl ⟨hh.symm, c3⟩))
        · rintro (⟨_, e⟩ | ⟨_, e⟩ | ⟨e, _⟩ | ⟨_, e⟩) <;> first | exact e.symm | omega
      · rw [if_neg c3]
        by_cases c4 : t = TAG_CFF2
        · rw [if_pos c4]; simp only [Option.some.injEq, TAG_glyf, TAG_loca, TAG_gvar, TAG_CFF, TAG_CFF2] at *
          constructor
          · intro hh; exact Or.inr (Or.inr (Or.inr ⟨hh.symm, c4⟩))
          · rintro (⟨_, e⟩ | ⟨_, e⟩ | ⟨_, e⟩ | ⟨e, _⟩) <;> first | exact e.symm | omega
        · rw [if_neg c4]; simp only [reduceCtorEq, false_iff, TAG_glyf, TAG_loca, TAG_gvar, TAG_CFF, TAG_CFF2] at *
          rintro (⟨_, e⟩ | ⟨_, e⟩ | ⟨_, e⟩ | ⟨_, e⟩) <;> first | exact e.symm | omega

theorem ownerOf_glyf_iff (t : Nat) : ownerOf t = some TAG_glyf ↔ (t = TAG_glyf ∨ t = TAG_loca) := by
  rw [ownerOf_eq_iff]
  constructor
  · rintro (⟨_, e⟩ | ⟨e, _⟩ | ⟨e, _⟩ | ⟨e, _⟩)
    · exact e
    · exact absurd e (by decide)
    · exact absurd e (by decide)
    · exact absurd e (by decide)
  · intro e; exact Or.inl ⟨rfl, e⟩

theorem ownerOf_single_iff (t tag : Nat) (h : tag = TAG_gvar ∨ tag = TAG_CFF ∨ tag = TAG_CFF2) :
    ownerOf t = some tag ↔ t = tag := by
  rw [ownerOf_eq_iff]
  constructor
  · rintro (⟨e, _⟩ | ⟨e1, e2⟩ | ⟨e1, e2⟩ | ⟨e1, e2⟩)
    · subst e; rcases h with h | h | h <;> exact absurd h (by decide)
    · rw [e1, e2]
    · rw [e1, e2]
    · rw [e1, e2]
  · intro e
    subst e
    rcases h with h | h | h
    · exact Or.inr (Or.inl ⟨h, h⟩)
    · exact Or.inr (Or.inr (Or.inl ⟨h, h⟩))
    · exact Or.inr (Or.inr (Or.inr ⟨h, h⟩))

theorem ownerOf_some (t tag : Tag) (h : ownerOf t = some tag) : IsArmTag tag := by
  unfold IsArmTag
  rcases (ownerOf_eq_iff t tag).mp h with ⟨e, _⟩ | ⟨e, _⟩ | ⟨e, _⟩ | ⟨e, _⟩
  · exact Or.inl e
  · exact Or.inr (Or.inl e)
  · exact Or.inr (Or.inr (Or.inl e))
  · exact Or.inr (Or.inr (Or.inr e))

theorem armOf_none_iff (font : Font) (gps : List GlyphPatches) (m : Nat) (tag : Tag) :
    armOf font gps m tag = none ↔ ¬ IsArmTag tag := by
  unfold armOf IsArmTag
  by_cases h1 : tag = TAG_glyf
  · rw [if_pos h1]; simp [h1]
  · rw [if_neg h1]
    by_cases h2 : tag = TAG_gvar
    · rw [if_pos h2]; simp [h2]
    · rw [if_neg h2]
      by_cases h3 : tag = TAG_CFF
      · rw [if_pos h3]; simp [h3]
      · rw [if_neg h3]
        by_cases h4 : tag = TAG_CFF2
        · rw [if_pos h4]; simp [h4]
        · rw [if_neg h4]; simp [h1, h2, h3, h4]

/-- what a (successful) arm adds to the builder; `[]` for ignored tags -/
def armOuts (font : Font) (gps : List GlyphPatches) (m : Nat) (tag : Tag) : List (Tag × Bytes) :=
  match armOf font gps m tag with
  | some (.ok outs) => outs
  | _ => []

theorem oneTable_ok (tag : Tag) (r : Except PErr Bytes) (outs : List (Tag × Bytes))
    (h : oneTable tag r = .ok outs) : ∃ b, r = .ok b ∧ outs = [(tag, b)] := by
  unfold oneTable at h
  cases r with
  | error e => cases h
  | ok b => simp only [Except.ok.injEq] at h; exact ⟨b, rfl, h.symm⟩

theorem glyfArm_ok (font : Font) (gps : List GlyphPatches) (m : Nat) (outs : List (Tag × Bytes))
    (h : glyfArm font gps m = .ok outs) :
    ∃ a repl data offs, glyfAndLoca font = some a ∧ dedup TAG_glyf gps = .ok repl ∧
      patchOffsetArray a repl m = .ok (a.offsetType, data, offs) ∧
      outs = [(TAG_glyf, data), (TAG_loca, offs)] := by
  unfold glyfArm at h
  cases ha : glyfAndLoca font with
  | none => rw [ha] at h; cases h
  | some a =>
    rw [ha] at h
    simp only at h
    cases hd : dedup TAG_glyf gps with
    | error e => rw [hd] at h; cases h
    | ok repl =>
      rw [hd] at h
      simp only at h
      cases hp : patchOffsetArray a repl m with
      | error e => rw [hp] at h; cases h
      | ok r =>
        obtain ⟨t, data, offs⟩ := r
        rw [hp] at h
        simp only at h
        by_cases ht : t = a.offsetType
        · subst ht
          simp only [ne_eq, not_true_eq_false, if_false, Except.ok.injEq] at h
          exact ⟨a, repl, data, offs, rfl, rfl, hp, h.symm⟩
        · simp only [ne_eq, ht, not_false_eq_true, if_true] at h; cases h

/-- the tables a successful arm adds: glyf + loca, or the one table named by the tag -/
theorem armOf_ok_shape (font : Font) (gps : List GlyphPatches) (m : Nat) (tag : Tag)
    (outs : List (Tag × Bytes)) (h : armOf font gps m tag = some (.ok outs)) :
    (tag = TAG_glyf ∧ ∃ d o, outs = [(TAG_glyf, d), (TAG_loca, o)]) ∨
    ((tag = TAG_gvar ∨ tag = TAG_CFF ∨ tag = TAG_CFF2) ∧ ∃ b, outs = [(tag, b)]) := by
  unfold armOf at h
  by_cases h1 : tag = TAG_glyf
  · subst h1
    simp only [if_true, Option.some.injEq] at h
    obtain ⟨_, _, d, o, _, _, _, e⟩ := glyfArm_ok font gps m outs h
    exact Or.inl ⟨rfl, d, o, e⟩
  · simp only [h1, if_false] at h
    by_cases h2 : tag = TAG_gvar
    · subst h2
      simp only [if_true, Option.some.injEq] at h
      obtain ⟨b, _, e⟩ := oneTable_ok _ _ _ h
      exact Or.inr ⟨Or.inl rfl, b, e⟩
    · simp only [h2, if_false] at h
      by_cases h3 : tag = TAG_CFF
      · subst h3
        simp only [if_true, Option.some.injEq] at h
        obtain ⟨b, _, e⟩ := oneTable_ok _ _ _ h
        exact Or.inr ⟨Or.inr (Or.inl rfl), b, e⟩
      · simp only [h3, if_false] at h
        by_cases h4 : tag = TAG_CFF2
        · subst h4
          simp only [if_true, Option.some.injEq] at h
          obtain ⟨b, _, e⟩ := oneTable_ok _ _ _ h
          exact Or.inr ⟨Or.inr (Or.inr rfl), b, e⟩
        · simp only [h4, if_false] at h; cases h

/-- the builder and `processed_tables` after a successful arm -/
theorem addOuts_spec (font : Font) (gps : List GlyphPatches) (m : Nat) (tag : Tag)
    (outs : List (Tag × Bytes)) (h : armOf font gps m tag = some (.ok outs)) (p0 : List Tag) (b0 : Font) :
    (∀ t, (addOuts outs (p0, b0)).2.lookup t = if ownerOf t = some tag then outs.lookup t else b0.lookup t) ∧
    (∀ t, t ∈ (addOuts outs (p0, b0)).1 ↔ t ∈ p0 ∨ ownerOf t = some tag) ∧
    (∀ t, ownerOf t = some tag → (outs.lookup t).isSome) := by
  rcases armOf_ok_shape font gps m tag outs h with ⟨e, d, o, eo⟩ | ⟨e, b, eo⟩
  · subst e eo
    refine ⟨?_, ?_, ?_⟩
    · intro t
      simp only [addOuts, List.foldl_cons, List.foldl_nil]
      by_cases c1 : t = TAG_loca
      · subst c1
        rw [lookup_insertTable_self, if_pos ((ownerOf_glyf_iff _).mpr (Or.inr rfl))]
        simp [List.lookup, show (TAG_loca == TAG_glyf) = false by decide]
      · rw [lookup_insertTable_ne _ _ _ _ c1]
        by_cases c2 : t = TAG_glyf
        · subst c2
          rw [lookup_insertTable_self, if_pos ((ownerOf_glyf_iff _).mpr (Or.inl rfl))]
          simp [List.lookup]
        · rw [lookup_insertTable_ne _ _ _ _ c2, if_neg]
          intro hh
          rcases (ownerOf_glyf_iff t).mp hh with e | e
          · exact c2 e
          · exact c1 e
    · intro t
      simp only [addOuts, List.foldl_cons, List.foldl_nil, List.mem_cons]
      rw [ownerOf_glyf_iff]
      constructor
      · rintro (e | e | e)
        · exact Or.inr (Or.inr e)
        · exact Or.inr (Or.inl e)
        · exact Or.inl e
      · rintro (e | e | e)
        · exact Or.inr (Or.inr e)
        · exact Or.inr (Or.inl e)
        · exact Or.inl e
    · intro t ht
      rcases (ownerOf_glyf_iff t).mp ht with e | e
      · subst e; simp [List.lookup]
      · subst e; simp [List.lookup, show (TAG_loca == TAG_glyf) = false by decide]
  · subst eo
    have hown : ∀ t, ownerOf t = some tag ↔ t = tag := fun t => ownerOf_single_iff t tag e
    refine ⟨?_, ?_, ?_⟩
    · intro t
      simp only [addOuts, List.foldl_cons, List.foldl_nil]
      by_cases c : t = tag
      · subst c
        rw [lookup_insertTable_self, if_pos ((hown t).mpr rfl)]
        simp [List.lookup]
      · rw [lookup_insertTable_ne _ _ _ _ c, if_neg (fun hh => c ((hown t).mp hh))]
    · intro t
      simp only [addOuts, List.foldl_cons, List.foldl_nil, List.mem_cons]
      rw [hown t]
      constructor
      · rintro (e' | e')
        · exact Or.inr e'
        · exact Or.inl e'
      · rintro (e' | e')
        · exact Or.inr e'
        · exact Or.inl e'
    · intro t ht
      have := (hown t).mp ht
      subst this
      simp [List.lookup]

theorem patchTables_spec (font : Font) (gps : List GlyphPatches) (maxGid : Nat) (tags : List Tag)
    (p0 : List Tag) (b0 : Font) (p : List Tag) (b : Font)
    (h : patchTables font gps maxGid tags (p0, b0) = .ok (p, b)) :
    (∀ tag ∈ tags, ∀ r, armOf font gps maxGid tag = some r → ∃ outs, r = .ok outs) ∧
    (∀ t, b.lookup t =
      match ownerOf t with
      | some tag => if tag ∈ tags then (armOuts font gps maxGid tag).lookup t else b0.lookup t
      | none => b0.lookup t) ∧
    (∀ t, t ∈ p ↔ t ∈ p0 ∨ ∃ tag, ownerOf t = some tag ∧ tag ∈ tags) := by
  induction tags generalizing p0 b0 with
  | nil =>
    simp only [patchTables, Except.ok.injEq, Prod.mk.injEq] at h
    obtain ⟨h1, h2⟩ := h
    subst h1 h2
    refine ⟨by simp, ?_, by simp⟩
    intro t
    cases ownerOf t <;> simp
  | cons tag rest ih =>
    unfold patchTables at h
    cases ha : armOf font gps maxGid tag with
    | none =>
      rw [ha] at h
      simp only at h
      have hna : ¬ IsArmTag tag := (armOf_none_iff font gps maxGid tag).mp ha
      obtain ⟨i1, i2, i3⟩ := ih _ _ h
      have hne : ∀ t tg, ownerOf t = some tg → tg ≠ tag := by
        intro t tg ho e; subst e; exact hna (ownerOf_some t _ ho)
      refine ⟨?_, ?_, ?_⟩
      · intro x hx r hr
        rcases List.mem_cons.mp hx with e | e
        · subst e; rw [ha] at hr; cases hr
        · exact i1 x e r hr
      · intro t
        rw [i2 t]
        cases ho : ownerOf t with
        | none => rfl
        | some tg => simp only [List.mem_cons, hne t tg ho, false_or]
      · intro t
        rw [i3 t]
        constructor
        · rintro (e | ⟨tg, e1, e2⟩)
          · exact Or.inl e
          · exact Or.inr ⟨tg, e1, List.mem_cons_of_mem _ e2⟩
        · rintro (e | ⟨tg, e1, e2⟩)
          · exact Or.inl e
          · rcases List.mem_cons.mp e2 with e3 | e3
            · exact absurd e3 (hne t tg e1)
            · exact Or.inr ⟨tg, e1, e3⟩
    | some r =>
      rw [ha] at h
      cases r with
      | error e => simp only at h; cases h
      | ok outs =>
        simp only at h
        obtain ⟨a1, a2, a3⟩ := addOuts_spec font gps maxGid tag outs ha p0 b0
        have hst : addOuts outs (p0, b0) = ((addOuts outs (p0, b0)).1, (addOuts outs (p0, b0)).2) := rfl
        rw [hst] at h
        obtain ⟨i1, i2, i3⟩ := ih _ _ h
        have hao : armOuts font gps maxGid tag = outs := by simp [armOuts, ha]
        refine ⟨?_, ?_, ?_⟩
        · intro x hx r hr
          rcases List.mem_cons.mp hx with e | e
          · subst e; rw [ha] at hr; cases hr; exact ⟨outs, rfl⟩
          · exact i1 x e r hr
        · intro t
          rw [i2 t]
          cases ho : ownerOf t with
          | none =>
            simp only
            rw [a1 t, ho]
            simp
          | some tg =>
            simp only [List.mem_cons]
            by_cases c1 : tg ∈ rest
            · simp [c1]
            · simp only [c1, if_false, or_false]
              rw [a1 t, ho]
              by_cases c2 : tg = tag
              · subst c2; simp [hao]
              · simp [c2]
        · intro t
          rw [i3 t, a2 t]
          constructor
          · rintro ((e | e) | ⟨tg, e1, e2⟩)
            · exact Or.inl e
            · exact Or.inr ⟨tag, e, List.mem_cons_self⟩
            · exact Or.inr ⟨tg, e1, List.mem_cons_of_mem _ e2⟩
          · rintro (e | ⟨tg, e1, e2⟩)
            · exact Or.inl (Or.inl e)
            · rcases List.mem_cons.mp e2 with e3 | e3
              · subst e3; exact Or.inl (Or.inr e1)
              · exact Or.inr ⟨tg, e1, e3⟩

theorem addOuts_sorted (outs : List (Tag × Bytes)) (p : List Tag) (b : Font) (hs : SortedGids b) :
    SortedGids (addOuts outs (p, b)).2 := by
  unfold addOuts
  induction outs generalizing p b with
  | nil => exact hs
  | cons x xs ih =>
    simp only [List.foldl_cons]
    exact ih _ _ (insertTable_sorted _ _ _ hs)

theorem patchTables_sorted (font : Font) (gps : List GlyphPatches) (maxGid : Nat) (tags : List Tag)
    (p0 : List Tag) (b0 : Font) (p : List Tag) (b : Font) (hs : SortedGids b0)
    (h : patchTables font gps maxGid tags (p0, b0) = .ok (p, b)) : SortedGids b := by
  induction tags generalizing p0 b0 with
  | nil =>
    simp only [patchTables, Except.ok.injEq, Prod.mk.injEq] at h
    rw [← h.2]; exact hs
  | cons tag rest ih =>
    unfold patchTables at h
    split at h
    · exact ih _ _ hs h
    · cases h
    · rename_i outs _
      have hst : addOuts outs (p0, b0) = ((addOuts outs (p0, b0)).1, (addOuts outs (p0, b0)).2) := rfl
      rw [hst] at h
      exact ih _ _ (addOuts_sorted outs p0 b0 hs) h

/-- the loop depends on the patches only through the arms of the listed tags -/
theorem patchTables_congr (font : Font) (gps gps' : List GlyphPatches) (maxGid : Nat) (tags : List Tag)
    (st : List Tag × Font) (h : ∀ tag ∈ tags, armOf font gps maxGid tag = armOf font gps' maxGid tag) :
    patchTables font gps maxGid tags st = patchTables font gps' maxGid tags st := by
  induction tags generalizing st with
  | nil => simp [patchTables]
  | cons tag rest ih =>
    unfold patchTables
    have ihr : ∀ st, patchTables font gps maxGid rest st = patchTables font gps' maxGid rest st :=
      fun st => ih st (fun x hx => h x (List.mem_cons_of_mem _ hx))
    rw [h tag List.mem_cons_self]
    simp only [ihr]

/-! ## applied bits -/

/-- bit `k` of a byte string, LSB first inside each byte (`application_flag_bit_index`) -/
def bitAt (d : Bytes) (k : Nat) : Bool := (d.getD (k / 8) 0).testBit (k % 8)

/-- the bit indices of the infos that live in IFT (`iftx = false`) or IFTX (`iftx = true`) -/
def bitsFor (iftx : Bool) (infos : List PatchInfo) : List Nat :=
  (infos.filter (fun i => i.iftx == iftx)).map (·.bit)

theorem setAppliedBit_spec (d d' : Bytes) (b : Nat) (h : setAppliedBit d b = some d') :
    d'.length = d.length ∧ b < 8 * d.length ∧ ∀ k, bitAt d' k = (bitAt d k || k == b) := by
  unfold setAppliedBit at h
  split at h
  · cases h
  · rename_i x hx
    simp only [Option.some.injEq] at h
    subst h
    obtain ⟨hl, hxe⟩ := List.getElem?_eq_some_iff.mp hx
    refine ⟨by simp, by omega, ?_⟩
    intro k
    unfold bitAt
    by_cases hk : k / 8 = b / 8
    · have : (d.set (b / 8) (x ||| 1 <<< (b % 8))).getD (k / 8) 0 = x ||| 1 <<< (b % 8) := by
        simp [List.getD, hk, List.getElem?_set, hl]
      rw [this, Nat.testBit_or, Nat.one_shiftLeft, Nat.testBit_two_pow]
      have hd : d.getD (k / 8) 0 = x := by simp [List.getD, hk, hx]
      rw [hd]
      congr 1
      by_cases hkb : k = b
      · subst hkb; simp
      · have : ¬ (b % 8 = k % 8) := by omega
        simp [this, hkb]
    · have : (d.set (b / 8) (x ||| 1 <<< (b % 8))).getD (k / 8) 0 = d.getD (k / 8) 0 := by
        simp [List.getD, List.getElem?_set, Ne.symm hk]
      rw [this]
      have : (k == b) = false := by
        simp only [beq_eq_false_iff_ne, ne_eq]; intro e; subst e; exact hk rfl
      simp [this]

/-- setting a list of applied bits one after the other (`none` if one is out of range) -/
def setBits : Bytes → List Nat → Option Bytes
  | d, [] => some d
  | d, b :: bs =>
    match setAppliedBit d b with
    | none => none
    | some d' => setBits d' bs

theorem setBits_spec (d d' : Bytes) (bs : List Nat) (h : setBits d bs = some d') :
    d'.length = d.length ∧ (∀ b ∈ bs, b < 8 * d.length) ∧ ∀ k, bitAt d' k = (bitAt d k || bs.contains k) := by
  induction bs generalizing d with
  | nil => simp only [setBits, Option.some.injEq] at h; subst h; simp
  | cons b bs ih =>
    simp only [setBits] at h
    split at h
    · cases h
    · rename_i d1 h1
      obtain ⟨l1, r1, k1⟩ := setAppliedBit_spec d d1 b h1
      obtain ⟨l2, r2, k2⟩ := ih d1 h
      refine ⟨by omega, ?_, ?_⟩
      · intro x hx
        rcases List.mem_cons.mp hx with e | e
        · subst e; exact r1
        · have := r2 x e; omega
      · intro k
        rw [k2 k, k1 k]
        simp only [List.contains_cons, Bool.or_assoc]

/-- the two mapping tables after "Mark patches applied in IFT and IFTX" -/
def markedTable (orig : Option Bytes) (bits : List Nat) : Option (Option Bytes) :=
  match orig with
  | none => if bits = [] then some none else none
  | some d => (setBits d bits).map some

theorem markApplied_spec (infos : List PatchInfo) (i x i' x' : Option Bytes)
    (h : markApplied infos (i, x) = .ok (i', x')) :
    markedTable i (bitsFor false infos) = some i' ∧ markedTable x (bitsFor true infos) = some x' := by
  induction infos generalizing i x with
  | nil =>
    simp only [markApplied, Except.ok.injEq, Prod.mk.injEq] at h
    obtain ⟨h1, h2⟩ := h; subst h1 h2
    cases i <;> cases x <;> simp [markedTable, bitsFor, setBits]
  | cons info rest ih =>
    unfold markApplied at h
    cases hx : info.iftx with
    | false =>
      simp only [hx, Bool.false_eq_true, if_false] at h
      cases i with
      | none => simp at h
      | some d =>
        simp only at h
        cases hs : setAppliedBit d info.bit with
        | none => rw [hs] at h; cases h
        | some d1 =>
          rw [hs] at h
          simp only at h
          obtain ⟨j1, j2⟩ := ih (some d1) x h
          refine ⟨?_, ?_⟩
          · simpa [markedTable, bitsFor, List.filter_cons, hx, setBits, hs] using j1
          · simpa [bitsFor, List.filter_cons, hx] using j2
    | true =>
      simp only [hx, if_true] at h
      cases x with
      | none => simp at h
      | some d =>
        simp only at h
        cases hs : setAppliedBit d info.bit with
        | none => rw [hs] at h; cases h
        | some d1 =>
          rw [hs] at h
          simp only at h
          obtain ⟨j1, j2⟩ := ih i (some d1) h
          refine ⟨?_, ?_⟩
          · simpa [bitsFor, List.filter_cons, hx] using j1
          · simpa [markedTable, bitsFor, List.filter_cons, hx, setBits, hs] using j2

/-! ## the whole application (after decoding / parsing) -/

/-- `maxp.num_glyphs` -/
def numGlyphs (font : Font) : Nat :=
  match font.get TAG_maxp with
  | some maxp => beValue (sliceLen maxp 4 2)
  | none => 0

/-- `if let Some(data) = .. { font_builder.add_raw(tag, data) }` -/
def addOpt (t : Tag) (o : Option Bytes) (b : Font) : Font :=
  match o with
  | some d => insertTable t d b
  | none => b

theorem addOpt_lookup (t u : Tag) (o : Option Bytes) (b : Font) :
    (addOpt t o b).lookup u = if u = t then o.or (b.lookup t) else b.lookup u := by
  cases o with
  | none => by_cases e : u = t <;> simp [addOpt, e]
  | some d =>
    by_cases e : u = t
    · subst e; simp [addOpt, lookup_insertTable_self]
    · simp [addOpt, e, lookup_insertTable_ne _ _ _ _ e]

theorem addOpt_sorted (t : Tag) (o : Option Bytes) (b : Font) (hs : SortedGids b) : SortedGids (addOpt t o b) := by
  cases o with
  | none => exact hs
  | some d => exact insertTable_sorted _ _ _ hs

/-- table-by-table characterisation of a successful `apply_glyph_keyed_patches`: the two mapping
tables carry the applied bits; every arm selected by a listed tag succeeded; a table owned by such an
arm is what the arm produced; every other table is the base font's (or still absent). -/
theorem applyGlyphPatches_char (infos : List PatchInfo) (gps : List GlyphPatches) (font out : Font)
    (hu : UniqueTags font) (h : applyGlyphPatches infos gps font = .ok out) :
    ∃ tags ift iftx, numGlyphs font ≠ 0 ∧ tableTagList gps = .ok tags ∧
      markApplied infos (font.get TAG_IFT, font.get TAG_IFTX) = .ok (ift, iftx) ∧
      SortedGids out ∧ out.get TAG_IFT = ift ∧ out.get TAG_IFTX = iftx ∧
      (∀ tag ∈ tags, ∀ r, armOf font gps (numGlyphs font - 1) tag = some r → ∃ outs, r = .ok outs) ∧
      (∀ t, t ≠ TAG_IFT → t ≠ TAG_IFTX → out.get t =
        match ownerOf t with
        | some tag =>
          if tag ∈ tags then (armOuts font gps (numGlyphs font - 1) tag).lookup t else font.get t
        | none => font.get t) := by
  unfold applyGlyphPatches at h
  cases hm : font.get TAG_maxp with
  | none => rw [hm] at h; cases h
  | some maxp =>
    rw [hm] at h
    simp only at h
    have hng : numGlyphs font = beValue (sliceLen maxp 4 2) := by simp [numGlyphs, hm]
    by_cases hz : beValue (sliceLen maxp 4 2) = 0
    · simp only [hz, if_true] at h; cases h
    · simp only [hz, if_false] at h
      cases ht : tableTagList gps with
      | error e => rw [ht] at h; cases h
      | ok tags =>
        rw [ht] at h
        simp only at h
        cases hp : patchTables font gps (beValue (sliceLen maxp 4 2) - 1) tags ([TAG_IFTX, TAG_IFT], []) with
        | error e => rw [hp] at h; cases h
        | ok pb =>
          obtain ⟨p, b⟩ := pb
          rw [hp] at h
          simp only at h
          cases hma : markApplied infos (font.get TAG_IFT, font.get TAG_IFTX) with
          | error e => rw [hma] at h; cases h
          | ok ii =>
            obtain ⟨ift, iftx⟩ := ii
            rw [hma] at h
            simp only [Except.ok.injEq] at h
            obtain ⟨s1, s2, s3⟩ := patchTables_spec font gps _ tags _ _ p b hp
            have hform : out = copyUnprocessed font p (addOpt TAG_IFTX iftx (addOpt TAG_IFT ift b)) := by
              rw [← h]; cases ift <;> cases iftx <;> rfl
            clear h
            generalize hb2 : addOpt TAG_IFTX iftx (addOpt TAG_IFT ift b) = b2 at hform
            have hbs : SortedGids b := patchTables_sorted font gps _ tags _ _ p b (by simp [SortedGids]) hp
            have hno : ∀ t, t = TAG_IFT ∨ t = TAG_IFTX → ownerOf t = none := by
              intro t ht
              rcases ht with e | e <;> subst e <;> decide
            have hbn : ∀ t, t = TAG_IFT ∨ t = TAG_IFTX → b.lookup t = none := by
              intro t ht
              rw [s2 t, hno t ht]; rfl
            have hb2l : ∀ t, b2.lookup t = if t = TAG_IFTX then iftx else if t = TAG_IFT then ift else b.lookup t := by
              intro t
              subst hb2
              rw [addOpt_lookup, addOpt_lookup, addOpt_lookup]
              simp only [show TAG_IFTX ≠ TAG_IFT by decide, if_false,
                hbn TAG_IFTX (Or.inr rfl), hbn TAG_IFT (Or.inl rfl), Option.or_none]
            have hb2s : SortedGids b2 := by
              subst hb2; exact addOpt_sorted _ _ _ (addOpt_sorted _ _ _ hbs)
            subst hform
            have hout := fun t => copyUnprocessed_lookup font p b2 t hu
            have hc : ∀ t, p.contains t = true ↔ t ∈ p := fun t => by simp
            refine ⟨tags, ift, iftx, by rw [hng]; exact hz, rfl, rfl,
              copyUnprocessed_sorted _ _ _ hb2s, ?_, ?_, by rw [hng]; exact s1, ?_⟩
            · unfold Font.get
              rw [hout, if_pos ((hc _).mpr ((s3 _).mpr (Or.inl (by simp)))), hb2l]
              simp only [show TAG_IFT ≠ TAG_IFTX by decide, if_false, if_true]
            · unfold Font.get
              rw [hout, if_pos ((hc _).mpr ((s3 _).mpr (Or.inl (by simp)))), hb2l]
              simp only [if_true]
            · intro t h1 h2
              rw [hng]
              unfold Font.get
              rw [hout, hb2l]
              simp only [h1, h2, if_false]
              rw [s2 t]
              cases ho : ownerOf t with
              | none =>
                have hnp : ¬ (p.contains t = true) := by
                  rw [hc, s3]
                  rintro (e | ⟨tg, e1, _⟩)
                  · simp only [List.mem_cons, List.not_mem_nil, or_false] at e
                    rcases e with e | e
                    · exact h2 e
                    · exact h1 e
                  · rw [ho] at e1; cases e1
                rw [if_neg hnp]
                simp only [List.lookup]
                cases font.lookup t <;> rfl
              | some tg =>
                simp only
                by_cases c : tg ∈ tags
                · have hpp : p.contains t = true := (hc t).mpr ((s3 t).mpr (Or.inr ⟨tg, ho, c⟩))
                  rw [if_pos hpp, if_pos c, if_pos c]
                · have hnp : ¬ (p.contains t = true) := by
                    rw [hc, s3]
                    rintro (e | ⟨tg', e1, e2⟩)
                    · simp only [List.mem_cons, List.not_mem_nil, or_false] at e
                      rcases e with e | e
                      · exact h2 e
                      · exact h1 e
                    · rw [ho] at e1; cases e1; exact c e2
                  rw [if_neg hnp, if_neg c, if_neg c]
                  simp only [List.lookup]
                  cases font.lookup t <;> rfl

/-- the arm of a listed tag, spelled out: it succeeded and its tables are in the output -/
theorem char_arm (font out : Font) (gps : List GlyphPatches) (tags : List Tag)
    (harm : ∀ tag ∈ tags, ∀ r, armOf font gps (numGlyphs font - 1) tag = some r → ∃ outs, r = .ok outs)
    (hout : ∀ t, t ≠ TAG_IFT → t ≠ TAG_IFTX → out.get t =
        match ownerOf t with
        | some tag =>
          if tag ∈ tags then (armOuts font gps (numGlyphs font - 1) tag).lookup t else font.get t
        | none => font.get t)
    (tag : Tag) (hin : tag ∈ tags) (r : Except PErr (List (Tag × Bytes)))
    (hr : armOf font gps (numGlyphs font - 1) tag = some r) :
    ∃ outs, r = .ok outs ∧ ∀ td ∈ outs, out.get td.1 = some td.2 := by
  obtain ⟨outs, e⟩ := harm tag hin r hr
  subst e
  refine ⟨outs, rfl, ?_⟩
  have hao : armOuts font gps (numGlyphs font - 1) tag = outs := by simp [armOuts, hr]
  have key : ∀ t d, ownerOf t = some tag → outs.lookup t = some d → out.get t = some d := by
    intro t d ho hl
    have h1 : t ≠ TAG_IFT := by
      intro e; subst e; exact absurd (ownerOf_some _ _ ho) (by rw [show ownerOf TAG_IFT = none by decide] at ho; cases ho)
    have h2 : t ≠ TAG_IFTX := by
      intro e; subst e; exact absurd (ownerOf_some _ _ ho) (by rw [show ownerOf TAG_IFTX = none by decide] at ho; cases ho)
    rw [hout t h1 h2, ho]
    simp only [hin, if_true, hao, hl]
  rcases armOf_ok_shape font gps _ tag outs hr with ⟨e, d, o, eo⟩ | ⟨e, b, eo⟩
  · subst e eo
    intro td htd
    simp only [List.mem_cons, List.not_mem_nil, or_false] at htd
    rcases htd with e | e <;> subst e
    · exact key _ _ ((ownerOf_glyf_iff _).mpr (Or.inl rfl)) (by simp [List.lookup])
    · exact key _ _ ((ownerOf_glyf_iff _).mpr (Or.inr rfl))
        (by simp [List.lookup, show (TAG_loca == TAG_glyf) = false by decide])
  · subst eo
    intro td htd
    simp only [List.mem_cons, List.not_mem_nil, or_false] at htd
    subst htd
    exact key _ _ ((ownerOf_single_iff _ _ e).mpr rfl) (by simp [List.lookup])

/-- a table whose arm is not selected by any listed tag is the base font's -/
theorem char_untouched (font out : Font) (gps : List GlyphPatches) (tags : List Tag)
    (hout : ∀ t, t ≠ TAG_IFT → t ≠ TAG_IFTX → out.get t =
        match ownerOf t with
        | some tag =>
          if tag ∈ tags then (armOuts font gps (numGlyphs font - 1) tag).lookup t else font.get t
        | none => font.get t)
    (t : Tag) (h1 : t ≠ TAG_IFT) (h2 : t ≠ TAG_IFTX) (hn : ∀ tag, ownerOf t = some tag → tag ∉ tags) :
    out.get t = font.get t := by
  rw [hout t h1 h2]
  cases ho : ownerOf t with
  | none => rfl
  | some tg => simp only [hn tg ho, if_false]

/-! ## reading glyf/loca, and reading the new loca back -/

def isLongLoca (head : Bytes) : Bool := beValue (sliceLen head 50 2) == 1

theorem glyfAndLoca_some (font : Font) (a : OffsetArray) (h : glyfAndLoca font = some a) :
    ∃ glyf head loca, font.get TAG_glyf = some glyf ∧ font.get TAG_head = some head ∧
      font.get TAG_loca = some loca ∧ a.data = glyf ∧
      a.offsetType = (if isLongLoca head then OffsetType.long else OffsetType.shortDivByTwo) ∧
      a.available = [a.offsetType] ∧
      a.missing = .invalidPatch "Start loca entry is missing." ∧ a.getErr = .fontParsingFailed .outOfBounds ∧
      (∀ o ∈ a.offsets, o % a.offsetType.divisor = 0) ∧
      a.ascOk = ascending a.offsets ∧ a.unreadable = [] := by
  unfold glyfAndLoca at h
  cases hg : font.get TAG_glyf with
  | none => rw [hg] at h; cases h
  | some glyf =>
    cases hh : font.get TAG_head with
    | none => rw [hg, hh] at h; cases h
    | some head =>
      cases hl : font.get TAG_loca with
      | none => rw [hg, hh, hl] at h; cases h
      | some loca =>
        rw [hg, hh, hl] at h
        simp only at h
        cases hlong : (beValue (sliceLen head 50 2) == 1) with
        | true =>
          rw [hlong] at h
          simp only [if_true] at h
          split at h
          · cases h
          · simp only [Option.some.injEq] at h
            subst h
            refine ⟨glyf, head, loca, rfl, rfl, rfl, rfl, ?_, rfl, rfl, rfl, ?_, rfl, rfl⟩
            · simp [isLongLoca, hlong]
            · intro o ho; simp [OffsetType.divisor, Nat.mod_one]
        | false =>
          rw [hlong] at h
          simp only [Bool.false_eq_true, if_false] at h
          split at h
          · cases h
          · simp only [Option.some.injEq] at h
            subst h
            refine ⟨glyf, head, loca, rfl, rfl, rfl, rfl, ?_, rfl, rfl, rfl, ?_, rfl, rfl⟩
            · simp [isLongLoca, hlong]
            · intro o ho
              simp only [List.mem_map] at ho
              obtain ⟨r, _, hr⟩ := ho
              subst hr
              simp [OffsetType.divisor]

theorem encodeOffs_as_flatMap (t : OffsetType) (os : List Nat) :
    encodeOffs t os = (os.map (fun o => o / t.divisor + t.bias)).flatMap (beBytes t.width) := by
  simp [encodeOffs, List.flatMap_map]

/-- a font whose `loca` is `encodeOffs t os` (same `head`) reads back the offsets `os` -/
theorem glyfAndLoca_readback (font font' : Font) (a : OffsetArray) (h : glyfAndLoca font = some a)
    (data : Bytes) (os : List Nat)
    (hg : font'.get TAG_glyf = some data) (hh : font'.get TAG_head = font.get TAG_head)
    (hl : font'.get TAG_loca = some (encodeOffs a.offsetType os))
    (hdiv : ∀ o ∈ os, o % a.offsetType.divisor = 0)
    (hb : ∀ o ∈ os, o / a.offsetType.divisor < 2 ^ (a.offsetType.width * 8)) :
    glyfAndLoca font' = some { a with offsets := os, data := data, ascOk := ascending os } := by
  obtain ⟨glyf, head, loca, g1, g2, g3, g4, g5, g6, g7, g8, _, _, g9⟩ := glyfAndLoca_some font a h
  obtain ⟨t, av, offs, dat, mis, ge, asc, unr⟩ := a
  simp only at g4 g5 g6 g7 g8 g9 hl hdiv hb
  subst g4 g6 g7 g8 g9
  unfold glyfAndLoca
  rw [hg, hh, g2, hl]
  simp only
  have hpow : ∀ w : Nat, 2 ^ (w * 8) = 256 ^ w := fun w => by
    rw [Nat.mul_comm, Nat.pow_mul]
  cases hlong : isLongLoca head with
  | true =>
    have hlong' : (beValue (sliceLen head 50 2) == 1) = true := hlong
    rw [hlong] at g5; simp only [if_true] at g5
    subst g5
    simp only [OffsetType.divisor, OffsetType.width, Nat.div_one] at hb hdiv ⊢
    have henc : encodeOffs OffsetType.long os = os.flatMap (beBytes 4) := by
      simp [encodeOffs, OffsetType.divisor, OffsetType.width, OffsetType.bias]
    have hlen : (encodeOffs OffsetType.long os).length = os.length * 4 := by
      rw [henc, flatMap_beBytes_length]
    simp only [hlong', if_true]
    rw [if_neg (by rw [hlen]; simp)]
    have hb' : ∀ o ∈ os, o < 256 ^ 4 := fun o ho => by have := hb o ho; rw [hpow] at this; exact this
    have := beArray_flatMap 4 os [] hb'
    rw [List.append_nil] at this
    rw [hlen, Nat.mul_div_cancel _ (by decide : 0 < 4), henc, this]
  | false =>
    have hlong' : (beValue (sliceLen head 50 2) == 1) = false := hlong
    rw [hlong] at g5; simp only [Bool.false_eq_true, if_false] at g5
    subst g5
    simp only [OffsetType.divisor, OffsetType.width] at hb hdiv ⊢
    have henc : encodeOffs OffsetType.shortDivByTwo os = (os.map (· / 2)).flatMap (beBytes 2) := by
      simp [encodeOffs, OffsetType.divisor, OffsetType.width, OffsetType.bias, List.flatMap_map]
    have hlen : (encodeOffs OffsetType.shortDivByTwo os).length = os.length * 2 := by
      rw [henc, flatMap_beBytes_length, List.length_map]
    simp only [hlong', Bool.false_eq_true, if_false]
    rw [if_neg (by rw [hlen]; simp)]
    have hb' : ∀ o ∈ os.map (· / 2), o < 256 ^ 2 := fun o ho => by
      obtain ⟨x, hx, hxe⟩ := List.mem_map.mp ho
      have := hb x hx; rw [hpow] at this; omega
    have := beArray_flatMap 2 (os.map (· / 2)) [] hb'
    rw [List.append_nil, List.length_map] at this
    rw [hlen, Nat.mul_div_cancel _ (by decide : 0 < 2), henc, this]
    have hback : (os.map (· / 2)).map (· * 2) = os := by
      rw [List.map_map]
      conv => rhs; rw [← List.map_id os]
      apply List.map_congr_left
      intro o ho
      have := hdiv o ho
      simp only [Function.comp, id]; omega
    rw [hback]

/-! ## table_tag_list -/

theorem insertSorted_spec (t : Nat) (s : List Nat) (hs : s.Pairwise (· < ·)) :
    (insertSorted t s).Pairwise (· < ·) ∧ ∀ x, x ∈ insertSorted t s ↔ (x = t ∨ x ∈ s) := by
  induction s with
  | nil => simp [insertSorted]
  | cons y ys ih =>
    obtain ⟨i1, i2⟩ := ih (List.pairwise_cons.mp hs).2
    have hy := (List.pairwise_cons.mp hs).1
    unfold insertSorted
    by_cases h1 : t < y
    · simp only [h1, if_true]
      refine ⟨List.pairwise_cons.mpr ⟨?_, hs⟩, fun x => by simp⟩
      intro z hz
      rcases List.mem_cons.mp hz with e | e
      · rw [e]; exact h1
      · exact Nat.lt_trans h1 (hy z e)
    · by_cases h2 : t = y
      · subst h2
        simp only [Nat.lt_irrefl, if_false, if_true]
        exact ⟨hs, fun x => by simp⟩
      · simp only [h1, h2, if_false]
        refine ⟨List.pairwise_cons.mpr ⟨?_, i1⟩, ?_⟩
        · intro z hz
          rcases (i2 z).mp hz with e | e
          · rw [e]; omega
          · exact hy z e
        · intro x; simp only [List.mem_cons, i2 x]
          constructor
          · rintro (e | e | e) <;> simp_all
          · rintro (e | e | e) <;> simp_all

theorem foldl_insertSorted_spec (l s : List Nat) (hs : s.Pairwise (· < ·)) :
    (l.foldl (fun s t => insertSorted t s) s).Pairwise (· < ·) ∧
    ∀ x, x ∈ l.foldl (fun s t => insertSorted t s) s ↔ (x ∈ l ∨ x ∈ s) := by
  induction l generalizing s with
  | nil => simp [hs]
  | cons y ys ih =>
    obtain ⟨i1, i2⟩ := insertSorted_spec y s hs
    obtain ⟨j1, j2⟩ := ih (insertSorted y s) i1
    refine ⟨j1, ?_⟩
    intro x
    simp only [List.foldl_cons, j2 x, i2 x, List.mem_cons]
    constructor
    · rintro (e | e | e) <;> simp_all
    · rintro ((e | e) | e) <;> simp_all

theorem strict_sorted_ext (l1 l2 : List Nat) (h1 : l1.Pairwise (· < ·)) (h2 : l2.Pairwise (· < ·))
    (h : ∀ x, x ∈ l1 ↔ x ∈ l2) : l1 = l2 := by
  induction l1 generalizing l2 with
  | nil =>
    cases l2 with
    | nil => rfl
    | cons y ys => have := (h y).mpr (by simp); cases this
  | cons x xs ih =>
    cases l2 with
    | nil => have := (h x).mp (by simp); cases this
    | cons y ys =>
      have hx := (List.pairwise_cons.mp h1).1
      have hy := (List.pairwise_cons.mp h2).1
      have hxy : x = y := by
        rcases List.mem_cons.mp ((h x).mp (by simp)) with e | e
        · exact e
        · rcases List.mem_cons.mp ((h y).mpr (by simp)) with e' | e'
          · exact e'.symm
          · have := hy x e; have := hx y e'; omega
      subst hxy
      congr 1
      apply ih ys (List.pairwise_cons.mp h1).2 (List.pairwise_cons.mp h2).2
      intro z
      constructor
      · intro hz
        rcases List.mem_cons.mp ((h z).mp (List.mem_cons_of_mem _ hz)) with e | e
        · have := hx z hz; omega
        · exact e
      · intro hz
        rcases List.mem_cons.mp ((h z).mpr (List.mem_cons_of_mem _ hz)) with e | e
        · have := hy z hz; omega
        · exact e

theorem tableTagList_ok (gps : List GlyphPatches) (tags : List Tag) (h : tableTagList gps = .ok tags) :
    tags.Pairwise (· < ·) ∧ ∀ t, t ∈ tags ↔ ∃ gp ∈ gps, t ∈ gp.tables := by
  unfold tableTagList at h
  split at h
  · cases h
  · simp only [Except.ok.injEq] at h
    subst h
    obtain ⟨h1, h2⟩ := foldl_insertSorted_spec (gps.flatMap (·.tables)) [] (by simp)
    refine ⟨h1, ?_⟩
    intro t
    rw [h2 t]
    simp [List.mem_flatMap]

/-- `table_tag_list` does not depend on the order of the patches -/
theorem tableTagList_perm (gps gps' : List GlyphPatches) (hp : gps.Perm gps') :
    (∃ e, tableTagList gps = .error e ∧ tableTagList gps' = .error e) ∨
    (∃ tags, tableTagList gps = .ok tags ∧ tableTagList gps' = .ok tags) := by
  have hany : gps.any (fun gp => !strictlyAscending gp.tables) = gps'.any (fun gp => !strictlyAscending gp.tables) := by
    rw [Bool.eq_iff_iff]
    simp only [List.any_eq_true]
    constructor
    · rintro ⟨x, hx, hxp⟩; exact ⟨x, hp.mem_iff.mp hx, hxp⟩
    · rintro ⟨x, hx, hxp⟩; exact ⟨x, hp.mem_iff.mpr hx, hxp⟩
  unfold tableTagList
  rw [← hany]
  split
  · exact Or.inl ⟨_, rfl, rfl⟩
  · refine Or.inr ⟨_, rfl, ?_⟩
    congr 1
    obtain ⟨a1, a2⟩ := foldl_insertSorted_spec (gps.flatMap (·.tables)) [] (by simp)
    obtain ⟨b1, b2⟩ := foldl_insertSorted_spec (gps'.flatMap (·.tables)) [] (by simp)
    apply strict_sorted_ext _ _ b1 a1
    intro x
    rw [a2 x, b2 x]
    simp only [List.mem_flatMap, List.not_mem_nil, or_false]
    constructor
    · rintro ⟨g, hg, hx⟩; exact ⟨g, hp.mem_iff.mpr hg, hx⟩
    · rintro ⟨g, hg, hx⟩; exact ⟨g, hp.mem_iff.mp hg, hx⟩

/-! ## the spliced glyf/loca read back -/

theorem mod_zero_sub (d x y : Nat) (hx : x % d = 0) (hy : y % d = 0) : (x - y) % d = 0 := by
  have h1 := Nat.dvd_of_mod_eq_zero hx
  have h2 := Nat.dvd_of_mod_eq_zero hy
  exact Nat.mod_eq_zero_of_dvd (Nat.dvd_sub h1 h2)

theorem mod_zero_add (d x y : Nat) (hx : x % d = 0) (hy : y % d = 0) : (x + y) % d = 0 := by
  have h1 := Nat.dvd_of_mod_eq_zero hx
  have h2 := Nat.dvd_of_mod_eq_zero hy
  exact Nat.mod_eq_zero_of_dvd (Nat.dvd_add h1 h2)

theorem getD_mem_or (l : List Nat) (g : Nat) (hg : g < l.length) : l.getD g 0 ∈ l := by
  simp [List.getD, List.getElem?_eq_getElem hg]

theorem chunk_len_div (a : OffsetArray) (t : OffsetType) (repl : List (Nat × Bytes)) (maxGid g : Nat)
    (ht : t.divisor = 1 ∨ t.divisor = 2)
    (hdiv : ∀ o ∈ a.offsets, o % t.divisor = 0) (hp : a.offsets.Pairwise (· ≤ ·))
    (hk : KeptInBounds a repl maxGid) (hg : g ≤ maxGid) :
    (chunkFor a t repl g).length % t.divisor = 0 := by
  unfold chunkFor
  cases hl : repl.lookup g with
  | some d =>
    simp only [padTo, List.length_append, List.length_replicate]
    rcases ht with e | e <;> rw [e] <;> omega
  | none =>
    obtain ⟨k1, k2⟩ := hk g hg hl
    simp only
    rw [glyphAt_length a.offsets a.data hp g k1 k2]
    exact mod_zero_sub _ _ _ (hdiv _ (getD_mem_or _ _ k1)) (hdiv _ (getD_mem_or _ _ (by omega)))

theorem startsFrom_div (d w : Nat) (cs : List Bytes) (hw : w % d = 0) (hc : ∀ c ∈ cs, c.length % d = 0) :
    (∀ o ∈ startsFrom w cs, o % d = 0) ∧ (w + cs.flatten.length) % d = 0 := by
  induction cs generalizing w with
  | nil => simp [startsFrom, hw]
  | cons c cs ih =>
    have hc0 := hc c (by simp)
    obtain ⟨i1, i2⟩ := ih (w + c.length) (mod_zero_add _ _ _ hw hc0) (fun x hx => hc x (List.mem_cons_of_mem _ hx))
    refine ⟨?_, ?_⟩
    · intro o ho
      simp only [startsFrom, List.mem_cons] at ho
      rcases ho with e | e
      · rw [e]; exact hw
      · exact i1 o e
    · simp only [List.flatten_cons, List.length_append]
      rw [← Nat.add_assoc]; exact i2

theorem newOffsets_div (d : Nat) (cs : List Bytes) (hc : ∀ c ∈ cs, c.length % d = 0) :
    ∀ o ∈ newOffsets cs, o % d = 0 := by
  obtain ⟨h1, h2⟩ := startsFrom_div d 0 cs (Nat.zero_mod _) hc
  intro o ho
  simp only [newOffsets, List.mem_append, List.mem_singleton] at ho
  rcases ho with e | e
  · exact h1 o e
  · rw [e]; simpa using h2

theorem newOffsets_le_last (cs : List Bytes) : ∀ o ∈ newOffsets cs, o ≤ cs.flatten.length := by
  intro o ho
  obtain ⟨i, hi, he⟩ := List.mem_iff_getElem.mp ho
  rw [newOffsets_length] at hi
  have h1 : (newOffsets cs).getD i 0 = o := by simp [List.getD, newOffsets_length, hi, he]
  have := getD_mono (newOffsets cs) (newOffsets_pairwise cs) i cs.length (by omega) (by rw [newOffsets_length]; omega)
  rw [h1, newOffsets_last] at this
  exact this

theorem glyfAndLoca_ascSound (font : Font) (a : OffsetArray) (h : glyfAndLoca font = some a) :
    a.AscSound := by
  obtain ⟨_, _, _, _, _, _, _, _, _, _, _, _, g, _⟩ := glyfAndLoca_some font a h
  intro hh; rw [← g]; exact hh

theorem glyfAndLoca_divisor (font : Font) (a : OffsetArray) (h : glyfAndLoca font = some a) :
    (a.offsetType.divisor = 1 ∨ a.offsetType.divisor = 2) ∧ a.offsetType.bias = 0 := by
  obtain ⟨_, head, _, _, _, _, _, g5, _⟩ := glyfAndLoca_some font a h
  rw [g5]
  cases isLongLoca head <;> simp [OffsetType.divisor, OffsetType.bias]

/-- the array a table reads back as after a splice: offsets = `newOffsets` of the chunks, data = their
concatenation (the array's own ascending check then holds) -/
def OffsetArray.rebase (a : OffsetArray) (cs : List Bytes) : OffsetArray :=
  { a with offsets := newOffsets cs, data := cs.flatten, ascOk := ascending (newOffsets cs) }

theorem OffsetArray.rebase_ascSound (a : OffsetArray) (cs : List Bytes) : (a.rebase cs).AscSound :=
  fun h => h

/-- the font produced by a successful glyf splice reads back as: offsets = `newOffsets` of the
chunks, data = their concatenation -/
theorem glyf_splice_readback (font out : Font) (a : OffsetArray) (repl : List (Nat × Bytes))
    (maxGid : Nat) (data offs : Bytes)
    (ha : glyfAndLoca font = some a) (hsort : SortedGids repl)
    (hp : patchOffsetArray a repl maxGid = .ok (a.offsetType, data, offs))
    (hg : out.get TAG_glyf = some data) (hl : out.get TAG_loca = some offs)
    (hh : out.get TAG_head = font.get TAG_head) :
    glyfAndLoca out = some (a.rebase (chunks a a.offsetType repl maxGid)) := by
  have hA := glyfAndLoca_ascSound font a ha
  obtain ⟨e1, e2⟩ := patchOffsetArray_eq a repl maxGid hA hsort _ data offs hp
  obtain ⟨f1, f2, f3, _⟩ := patchOffsetArray_facts a repl maxGid hA hsort _ data offs hp
  obtain ⟨hd, hbias⟩ := glyfAndLoca_divisor font a ha
  obtain ⟨_, _, _, _, _, _, _, _, _, _, _, hdiv, _, _⟩ := glyfAndLoca_some font a ha
  have hpw := ascending_pairwise _ f1
  have hcs : ∀ c ∈ chunks a a.offsetType repl maxGid, c.length % a.offsetType.divisor = 0 := by
    intro c hc
    obtain ⟨g, hg', he⟩ := List.mem_iff_getElem.mp hc
    rw [chunks_getElem] at he
    rw [← he]
    rw [chunks_length] at hg'
    exact chunk_len_div a _ repl maxGid g hd hdiv hpw f3 (by omega)
  rw [e1] at hg
  rw [e2] at hl
  apply glyfAndLoca_readback font out a ha _ _ hg hh hl
  · exact newOffsets_div _ _ hcs
  · intro o ho
    have h1 := newOffsets_le_last _ o ho
    rw [hbias, Nat.add_zero] at f2
    have hpos : 0 < a.offsetType.divisor := by rcases hd with e | e <;> omega
    exact Nat.lt_of_le_of_lt (Nat.div_le_div_right h1) f2

end FontVerif.Ift
