/-
Per-step facts (invariants, measures, trap freedom) of the hand-written-code models
(Model/HandRead.lean, Model/HandIter.lean) from which Props/C01Hand.lean derives its theorems.
-/
import FontVerif.Lemmas.ReadIterBounds
import FontVerif.Model.HandIter
set_option linter.unusedVariables false
set_option linter.unusedSimpArgs false
namespace FontVerif.C01Hand
open FontVerif FontVerif.ReadIter FontVerif.HandRead FontVerif.HandIter

/-! ## cursor -/

theorem satAdd_ge (a b : Nat) (h : a ≤ MAXU) : a ≤ satAdd a b := by
  unfold satAdd; split <;> omega

theorem satAdd_le (a b : Nat) (h : a ≤ MAXU) : satAdd a b ≤ MAXU := by
  unfold satAdd; split <;> omega

theorem satAdd_exact (a b : Nat) (h : a + b ≤ MAXU) : satAdd a b = a + b := by
  unfold satAdd; simp [h]

/-- facts about one `Cursor::read` -/
theorem read_facts (d : List Nat) (c : Cur) (sz : Nat) (h : c.pos ≤ MAXU) :
    c.pos ≤ (c.read d sz).2.pos ∧ (c.read d sz).2.pos ≤ MAXU ∧
    ((c.read d sz).1 = none → d.length ≤ MAXU → d.length ≤ (c.read d sz).2.pos) ∧
    (c.pos + sz ≤ d.length → d.length ≤ MAXU → (c.read d sz).2.pos = c.pos + sz) := by
  simp only [Cur.read, Cur.advanceBy]
  refine ⟨satAdd_ge _ _ h, satAdd_le _ _ h, ?_, ?_⟩
  · intro hn hlen
    unfold readAt checkedAdd at hn
    unfold satAdd
    by_cases h1 : c.pos + sz ≤ MAXU
    · simp only [h1, if_true] at hn ⊢
      by_cases h2 : c.pos + sz ≤ d.length
      · simp [h2] at hn
      · omega
    · simp only [h1, if_false]; omega
  · intro h1 hlen
    exact satAdd_exact _ _ (by omega)

theorem readBytes_facts (d : List Nat) (n : Nat) :
    ∀ c : Cur, c.pos ≤ MAXU →
      c.pos ≤ (c.readBytes d n).2.pos ∧ (c.readBytes d n).2.pos ≤ MAXU ∧
      ((c.readBytes d n).1 = none → d.length ≤ MAXU → d.length ≤ (c.readBytes d n).2.pos) := by
  induction n with
  | zero => intro c h; simp [Cur.readBytes, h]
  | succ n ih =>
    intro c h
    have hr := read_facts d c 1 h
    unfold Cur.readBytes
    cases hc : c.read d 1 with
    | mk r c1 =>
      rw [hc] at hr
      dsimp only at hr
      cases r with
      | none => dsimp only; exact ⟨hr.1, hr.2.1, fun _ hl => hr.2.2.1 rfl hl⟩
      | some b =>
        dsimp only
        have ih' := ih c1 hr.2.1
        cases hb : Cur.readBytes d n c1 with
        | mk r2 c2 =>
          rw [hb] at ih'
          dsimp only at ih'
          cases r2 with
          | none => dsimp only; exact ⟨by omega, ih'.2.1, fun _ hl => ih'.2.2 rfl hl⟩
          | some bs => dsimp only; exact ⟨by omega, ih'.2.1, fun hn _ => by simp at hn⟩

/-- facts about `read_u32_var`: monotone, bounded, a failure leaves the cursor at/past the end, and
from a non-empty cursor at least one byte is consumed -/
theorem readU32Var_facts (d : List Nat) (c : Cur) (h : c.pos ≤ MAXU) :
    c.pos ≤ (c.readU32Var d).2.pos ∧ (c.readU32Var d).2.pos ≤ MAXU ∧
    ((c.readU32Var d).1 = none → d.length ≤ MAXU → d.length ≤ (c.readU32Var d).2.pos) ∧
    (c.pos < d.length → d.length ≤ MAXU → c.pos + 1 ≤ (c.readU32Var d).2.pos) := by
  have hr := read_facts d c 1 h
  unfold Cur.readU32Var
  cases hc : c.read d 1 with
  | mk r c1 =>
    rw [hc] at hr
    dsimp only at hr
    cases r with
    | none =>
      dsimp only
      refine ⟨hr.1, hr.2.1, fun _ hl => hr.2.2.1 rfl hl, ?_⟩
      intro hlt hl
      have := hr.2.2.1 rfl hl
      omega
    | some b0 =>
      dsimp only
      generalize hk : (if b0 < 0x80 then 0 else if b0 < 0xC0 then 1 else if b0 < 0xE0 then 2 else if b0 < 0xF0 then 3 else 4) = k
      have hb := readBytes_facts d k c1 hr.2.1
      have hstep : c.pos < d.length → d.length ≤ MAXU → c1.pos = c.pos + 1 := fun hlt hl => hr.2.2.2 (by omega) hl
      cases hbs : Cur.readBytes d k c1 with
      | mk r2 c2 =>
        rw [hbs] at hb
        dsimp only at hb
        cases r2 with
        | none =>
          dsimp only
          exact ⟨by omega, hb.2.1, fun _ hl => hb.2.2 rfl hl, fun hlt hl => by have := hstep hlt hl; omega⟩
        | some bs =>
          dsimp only
          exact ⟨by omega, hb.2.1, fun hn _ => by simp at hn, fun hlt hl => by have := hstep hlt hl; omega⟩

theorem readU32Var_pos_le (d : List Nat) (c : Cur) (h : c.pos ≤ MAXU) : (c.readU32Var d).2.pos ≤ MAXU :=
  (readU32Var_facts d c h).2.1

/-! ## VARC -/

/-- `DeltaRunIter::end` terminates: the limit counts down -/
theorem dlEndLoop_some (d : List Nat) : ∀ (fuel : Nat) (s : DlSt), s.limit.isSome → C01Iter.muDl s < fuel →
    ∃ e, dlEndLoop d fuel s = some e := by
  intro fuel
  induction fuel with
  | zero => intro s _ h; omega
  | succ f ih =>
    intro s hs hf
    have hfacts := C01Iter.dlNext_facts d s hs
    unfold dlEndLoop
    cases hn : dlNext d s with
    | mk o s' =>
      rw [hn] at hfacts
      dsimp only at hfacts
      cases o with
      | yield v =>
        dsimp only
        exact ih s' hfacts.1 (by have := hfacts.2.2 (by simp); omega)
      | cont => exact ⟨s', rfl⟩
      | done => exact ⟨s', rfl⟩
      | trap => exact ⟨s', rfl⟩

/-- the invariant of the VARC iterator state: positions are `usize` values -/
def VInv (s : VSt) : Prop := s.d.length ≤ MAXU ∧ s.c.pos ≤ MAXU

theorem act_facts (ax : Nat → Option Nat) (a : Act) (s : VSt) (hi : VInv s) :
    VInv (a.run ax s).2 ∧ (a.run ax s).2.rem ≤ s.rem := by
  obtain ⟨hd, hp⟩ := hi
  cases a with
  | rd sz =>
    have := read_facts s.d s.c sz hp
    simp only [Act.run, VInv, VSt.rem]
    exact ⟨⟨hd, this.2.1⟩, by omega⟩
  | var =>
    have := readU32Var_facts s.d s.c hp
    simp only [Act.run, VInv, VSt.rem]
    exact ⟨⟨hd, this.2.1⟩, by omega⟩
  | axes =>
    have hv := readU32Var_facts s.d s.c hp
    simp only [Act.run]
    cases hr : (s.c.readU32Var s.d).1 with
    | none => simp only [VInv, VSt.rem]; exact ⟨⟨hd, hv.2.1⟩, by omega⟩
    | some ix =>
      dsimp only
      cases hax : ax ix with
      | none => simp only [VInv, VSt.rem]; exact ⟨⟨hd, hv.2.1⟩, by omega⟩
      | some n =>
        dsimp only
        by_cases hn : n = 0
        · simp only [hn, if_true, VInv, VSt.rem]; exact ⟨⟨hd, hv.2.1⟩, by omega⟩
        · simp only [hn, if_false]
          by_cases hle : (s.c.readU32Var s.d).2.pos ≤ s.d.length
          · simp only [hle, if_true]
            obtain ⟨e, he⟩ := dlEndLoop_some (s.d.drop (s.c.readU32Var s.d).2.pos) (n + 1) (dlInit (some n))
              (by simp [dlInit]) (by simp [C01Iter.muDl, dlInit])
            simp only [he, VInv, VSt.rem, List.length_drop]
            exact ⟨⟨by omega, Nat.min_le_right _ _⟩, by omega⟩
          · simp only [hle, if_false, VInv, VSt.rem]; exact ⟨⟨hd, hv.2.1⟩, by omega⟩

theorem runActs_facts (ax : Nat → Option Nat) : ∀ (acts : List Act) (s : VSt), VInv s →
    VInv (runActs ax acts s).2 ∧ (runActs ax acts s).2.rem ≤ s.rem := by
  intro acts
  induction acts with
  | nil => intro s hi; simp [runActs, hi]
  | cons a rest ih =>
    intro s hi
    have ha := act_facts ax a s hi
    unfold runActs
    cases hr : a.run ax s with
    | mk ok s' =>
      rw [hr] at ha
      dsimp only at ha
      cases ok with
      | false => simpa using ha
      | true =>
        dsimp only
        have := ih s' ha.1
        exact ⟨this.1, by omega⟩

theorem varcStep_facts' (ax : Nat → Option Nat) (s : VSt) (hi : VInv s) :
    VInv (varcStep ax s).2 ∧ (varcStep ax s).1 ≠ .trap ∧
    ((varcStep ax s).1 ≠ .done → (varcStep ax s).2.rem < s.rem) := by
  unfold varcStep
  by_cases he : s.c.isEmpty s.d = true
  · simp [he, hi]
  · simp only [he, Bool.false_eq_true, if_false]
    simp only [Cur.isEmpty, decide_eq_true_eq] at he
    have hv := readU32Var_facts s.d s.c hi.2
    have hadv := hv.2.2.2 (by omega) hi.1
    unfold varcParse
    simp only []
    cases hr : (s.c.readU32Var s.d).1 with
    | none =>
      simp only [VInv, VSt.rem]
      exact ⟨⟨hi.1, hv.2.1⟩, by simp, fun _ => by omega⟩
    | some raw =>
      dsimp only
      have hs1 : VInv { s with c := (s.c.readU32Var s.d).2 } := ⟨hi.1, hv.2.1⟩
      have := runActs_facts ax (actsOf raw) _ hs1
      refine ⟨this.1, by simp, fun _ => ?_⟩
      have h2 := this.2
      simp only [VSt.rem] at h2 ⊢
      omega


theorem readU32Var_fail_empty (d : List Nat) (c : Cur) (hlen : d.length ≤ MAXU)
    (h : (c.readU32Var d).1 = none) : (c.readU32Var d).2.isEmpty d = true := by
  -- positions above `usize::MAX` do not occur; for them the claim holds as well because the
  -- failing byte read saturates
  by_cases hp : c.pos ≤ MAXU
  · have := (readU32Var_facts d c hp).2.2.1 h hlen
    simp [Cur.isEmpty, this]
  · -- `c.pos > MAXU ≥ len`: the first byte read fails and saturation puts the position at MAXU
    unfold Cur.readU32Var at h ⊢
    have hr : c.read d 1 = (none, ⟨MAXU⟩) := by
      simp only [Cur.read, Cur.advanceBy, readAt, checkedAdd, satAdd]
      have h1 : ¬ (c.pos + 1 ≤ MAXU) := by omega
      simp [h1]
    rw [hr]
    simp [Cur.isEmpty]
    exact hlen

/-! ## Blues -/

theorem bluesNew_eq (n : Nat) : bluesNew n = some (min n 14 / 2) := by
  have h : ∀ m, m ≤ 14 → bluesLoop (List.range m) 0 = some (m / 2) := by decide
  exact h (min n 14) (Nat.min_le_right _ _)

/-! ## DICT -/

/-- operand stack invariant: `top` indexes the 513-slot arrays -/
def DInv (s : DSt) : Prop := s.st.top ≤ 513 ∧ s.st.slots.length = 513 ∧ s.c.pos ≤ MAXU

theorem dinv_init : DInv ⟨Cur.init, Stack.new⟩ := by
  refine ⟨Nat.zero_le _, ?_, Nat.zero_le _⟩
  show (List.replicate MAX_STACK (Slot.int 0)).length = 513
  rw [List.length_replicate]; rfl

theorem bcdLoop_used (bs : List Nat) : ∀ buf used, used + 1 ≤ (bcdLoop bs buf used).2 := by
  induction bs with
  | nil => intro buf used; simp [bcdLoop]
  | cons b rest ih =>
    intro buf used
    unfold bcdLoop
    split
    · simp
    · simp
    · split
      · simp
      · simp
      · have := ih ‹_› (used + 1); omega

/-- `parse_token` consumes at least one byte of a non-empty cursor and keeps the position a `usize` -/
theorem parseToken_facts (d : List Nat) (c : Cur) (hp : c.pos ≤ MAXU) :
    (parseToken d c).2.pos ≤ MAXU ∧
    (c.pos < d.length → d.length ≤ MAXU → c.pos + 1 ≤ (parseToken d c).2.pos) := by
  have hr := read_facts d c 1 hp
  have hr1 : ∀ sz, (c.read d 1).2.pos ≤ ((c.read d 1).2.read d sz).2.pos ∧ ((c.read d 1).2.read d sz).2.pos ≤ MAXU :=
    fun sz => ⟨(read_facts d _ sz hr.2.1).1, (read_facts d _ sz hr.2.1).2.1⟩
  have hstep : c.pos < d.length → d.length ≤ MAXU → (c.read d 1).2.pos = c.pos + 1 := fun hlt hl => hr.2.2.2 (by omega) hl
  have hadv : ∀ n, (c.read d 1).2.pos ≤ ((c.read d 1).2.advanceBy n).pos ∧ ((c.read d 1).2.advanceBy n).pos ≤ MAXU :=
    fun n => ⟨satAdd_ge _ _ hr.2.1, satAdd_le _ _ hr.2.1⟩
  unfold parseToken
  cases hc : c.read d 1 with
  | mk r c1 =>
    rw [hc] at hr hr1 hstep hadv
    dsimp only at hr hr1 hstep hadv
    cases r with
    | none =>
      dsimp only
      refine ⟨hr.2.1, fun hlt hl => ?_⟩
      have := hr.2.2.1 rfl hl
      omega
    | some b0 =>
      dsimp only
      have fin : ∀ (c2 : Cur), c1.pos ≤ c2.pos → c2.pos ≤ MAXU →
          c2.pos ≤ MAXU ∧ (c.pos < d.length → d.length ≤ MAXU → c.pos + 1 ≤ c2.pos) :=
        fun c2 h1 h2 => ⟨h2, fun hlt hl => by have := hstep hlt hl; omega⟩
      have rd : ∀ sz, ∀ (k : Option Nat × Cur → Except DErr Tok × Cur),
          (∀ r c2, (k (r, c2)).2 = c2) →
          (k (c1.read d sz)).2.pos ≤ MAXU ∧ (c.pos < d.length → d.length ≤ MAXU → c.pos + 1 ≤ (k (c1.read d sz)).2.pos) := by
        intro sz k hk
        have := hr1 sz
        cases hq : c1.read d sz with
        | mk r c2 =>
          rw [hq] at this
          rw [hk]
          exact fin c2 this.1 this.2
      split
      · exact rd 1 (fun p => match p with
          | (none, c2) => (.error .oob, c2)
          | (some b1, c2) => (if knownExtOp b1 then .ok (.operator true b1) else .error (.invalidOperator b1), c2))
          (by intro r c2; cases r <;> rfl)
      · split
        · exact rd 2 (fun p => match p with
            | (none, c2) => (.error .oob, c2)
            | (some v, c2) => (.ok (.operand (.int (toI16 v))), c2)) (by intro r c2; cases r <;> rfl)
        · split
          · exact rd 4 (fun p => match p with
              | (none, c2) => (.error .oob, c2)
              | (some v, c2) => (.ok (.operand (.int (toI32 v))), c2)) (by intro r c2; cases r <;> rfl)
          · split
            · have := hadv (bcdLoop (d.drop c1.pos) [] 0).2
              split <;> exact fin _ this.1 this.2
            · split
              · exact fin c1 (Nat.le_refl _) hr.2.1
              · split
                · exact rd 1 (fun p => match p with
                    | (none, c2) => (.error .oob, c2)
                    | (some b1, c2) => (.ok (.operand (.int (((b0 : Int) - 247) * 256 + b1 + 108))), c2))
                    (by intro r c2; cases r <;> rfl)
                · split
                  · exact rd 1 (fun p => match p with
                      | (none, c2) => (.error .oob, c2)
                      | (some b1, c2) => (.ok (.operand (.int (-((b0 : Int) - 251) * 256 - b1 - 108))), c2))
                      (by intro r c2; cases r <;> rfl)
                  · exact fin c1 (Nat.le_refl _) hr.2.1

theorem liftS_ne_trap {α : Type} (r : SR α) (k : α → ER) (hr : ∀ (h : r = SR.trap), False) (hk : ∀ a, k a ≠ .trap) :
    liftS r k ≠ .trap := by
  unfold liftS
  cases r with
  | ok a => exact hk a
  | err e => simp
  | trap => exact absurd rfl (fun h => hr h)

theorem getI32_ne_trap (st : Stack) (i : Nat) : ∀ (h : st.getI32 i = SR.trap), False := by
  intro h; unfold Stack.getI32 at h; split at h <;> cases h

theorem getFixed_ne_trap (st : Stack) (i : Nat) : ∀ (h : st.getFixed i = SR.trap), False := by
  intro h; unfold Stack.getFixed at h; split at h <;> cases h

theorem popI32_ne_trap (st : Stack) : ∀ (h : st.popI32.1 = SR.trap), False := by
  intro h; unfold Stack.popI32 at h
  split at h
  · exact getI32_ne_trap _ _ h
  · cases h

theorem popFixed_ne_trap (st : Stack) : ∀ (h : st.popFixed.1 = SR.trap), False := by
  intro h; unfold Stack.popFixed at h
  split at h
  · exact getFixed_ne_trap _ _ h
  · cases h

theorem parseEntry_ne_trap (name : String) (k : EKind) (st : Stack) : parseEntry name k st ≠ .trap := by
  cases k with
  | sid => simp only [parseEntry]; exact liftS_ne_trap _ _ (popI32_ne_trap st) (by intro a; simp)
  | i32 => simp only [parseEntry]; exact liftS_ne_trap _ _ (popI32_ne_trap st) (by intro a; simp)
  | usize => simp only [parseEntry]; exact liftS_ne_trap _ _ (popI32_ne_trap st) (by intro a; simp)
  | u32 => simp only [parseEntry]; exact liftS_ne_trap _ _ (popI32_ne_trap st) (by intro a; simp)
  | bool => simp only [parseEntry]; exact liftS_ne_trap _ _ (popI32_ne_trap st) (by intro a; simp)
  | fixed => simp only [parseEntry]; exact liftS_ne_trap _ _ (popFixed_ne_trap st) (by intro a; simp)
  | none => simp [parseEntry]
  | bbox n => simp only [parseEntry]; split <;> simp
  | privRange =>
    simp only [parseEntry]
    exact liftS_ne_trap _ _ (getI32_ne_trap st 0) (fun len =>
      liftS_ne_trap _ _ (getI32_ne_trap st 1) (fun start => by split <;> simp))
  | blues => simp only [parseEntry]; rw [bluesNew_eq]; simp
  | snaps => simp [parseEntry]
  | ros =>
    simp only [parseEntry]
    exact liftS_ne_trap _ _ (getI32_ne_trap st 0) (fun reg =>
      liftS_ne_trap _ _ (getI32_ne_trap st 1) (fun ord =>
        liftS_ne_trap _ _ (getFixed_ne_trap st 2) (by intro a; simp)))
  | blendOrVsindex => simp [parseEntry]

theorem prefixSum_inv (st : Stack) (h : st.top ≤ 513 ∧ st.slots.length = 513) :
    st.prefixSum.top ≤ 513 ∧ st.prefixSum.slots.length = 513 := by
  unfold Stack.prefixSum
  split
  · simp only [List.length_append, List.length_replicate, List.length_drop]
    refine ⟨h.1, ?_⟩
    have := h.2
    omega
  · exact h

theorem dictStep_facts (d : List Nat) (hlen : d.length ≤ MAXU) (s : DSt) (hi : DInv s) :
    DInv (dictStep d s).2 ∧ (dictStep d s).1 ≠ .trap ∧
    ((dictStep d s).1 ≠ .done → (dictStep d s).2.c.remainingBytes d < s.c.remainingBytes d) := by
  obtain ⟨htop, hslots, hpos⟩ := hi
  unfold dictStep
  by_cases hz : s.c.remainingBytes d = 0
  · simp [hz, DInv, htop, hslots, hpos]
  · simp only [hz, if_false]
    have hlt : s.c.pos < d.length := by simp only [Cur.remainingBytes] at hz; omega
    have hpt := parseToken_facts d s.c hpos
    have hadv := hpt.2 hlt hlen
    have hdec : ∀ c' : Cur, c' = (parseToken d s.c).2 → c'.remainingBytes d < s.c.remainingBytes d := by
      intro c' hc; subst hc; simp only [Cur.remainingBytes]; omega
    cases hc : parseToken d s.c with
    | mk r c' =>
      rw [hc] at hpt hdec
      dsimp only at hpt hdec
      have hd := hdec c' rfl
      cases r with
      | error e => dsimp only; exact ⟨⟨htop, hslots, hpt.1⟩, by simp, fun _ => hd⟩
      | ok t =>
        cases t with
        | operand x =>
          dsimp only
          unfold Stack.push
          by_cases h513 : s.st.top = MAX_STACK
          · simp only [h513, if_true]; exact ⟨⟨htop, hslots, hpt.1⟩, by simp, fun _ => hd⟩
          · simp only [h513, if_false]
            have : s.st.top < s.st.slots.length := by simp only [MAX_STACK] at h513; omega
            simp only [this, if_true]
            refine ⟨⟨?_, ?_, hpt.1⟩, by simp, fun _ => hd⟩
            · simp only [MAX_STACK] at h513; dsimp only; omega
            · simp [hslots]
        | operator ext b =>
          dsimp only
          by_cases hb : (opInfo ext b).2 = .blendOrVsindex
          · simp only [hb, if_true]; exact ⟨⟨htop, hslots, hpt.1⟩, by simp, fun _ => hd⟩
          · simp only [hb, if_false]
            have hst1 : ∀ st1 : Stack, st1 = (if (opInfo ext b).2 = .blues ∨ (opInfo ext b).2 = .snaps then s.st.prefixSum else s.st) →
                st1.clear.top ≤ 513 ∧ st1.clear.slots.length = 513 := by
              intro st1 h1
              subst h1
              split
              · have := prefixSum_inv s.st ⟨htop, hslots⟩; simp [Stack.clear, this.2]
              · simp [Stack.clear, hslots]
            generalize hg : (if (opInfo ext b).2 = .blues ∨ (opInfo ext b).2 = .snaps then s.st.prefixSum else s.st) = st1 at *
            have h1 := hst1 st1 rfl
            split
            · rename_i hp; exact absurd hp (parseEntry_ne_trap _ _ _)
            · exact ⟨⟨h1.1, h1.2, hpt.1⟩, by simp, fun _ => hd⟩

/-! ## charset -/

theorem simpleNext_facts (sids : List Nat) (ng cur : Nat) :
    (simpleNext sids ng cur).1 ≠ .trap ∧
    ((simpleNext sids ng cur).1 ≠ .done → ng - (simpleNext sids ng cur).2 < ng - cur) := by
  unfold simpleNext
  cases h : charsetSid (.f0 sids) ng cur with
  | none => simp
  | some sid =>
    dsimp only
    have hlt : cur < ng := by
      unfold charsetSid at h
      by_cases hc : cur ≥ ng
      · simp [hc] at h
      · omega
    split
    · simp
    · simp; omega

theorem rangeNext_facts (ng : Nat) (s : RSt) :
    (rangeNext ng s).1 ≠ .trap ∧
    ((rangeNext ng s).1 ≠ .done → ng - (rangeNext ng s).2.gid < ng - s.gid) := by
  unfold rangeNext
  by_cases h1 : s.gid ≥ ng
  · simp [h1]
  · simp only [h1, if_false]
    by_cases h0 : s.gid = 0
    · simp [h0]; omega
    · simp only [h0, if_false]
      split
      · simp
      · split
        · simp
        · split
          · simp
          · split
            · simp; omega
            · simp

end FontVerif.C01Hand
