/-
Lemmas for C17 — COMPLETENESS of the COLRv1 palette collection below the nesting limit (`BelowLimit`): heightLe decreases
along Reach, acyclicity below a root, the DFS invariant of `dispatch` by induction on the height bound (`dispatch_complete`),
threaded through `body`'s seven cases and `dispatchAll`, assembled over `v1Roots` / the clip loop / `v1Palettes`.
-/
import FontVerif.Lemmas.SubsetColrPalV1
set_option linter.unusedVariables false
set_option linter.unusedSimpArgs false
namespace FontVerif.SubsetColrPalV1
open FontVerif FontVerif.HandColr FontVerif.Layout

/-- every path from `pos` ends after fewer than `k` edges -/
def heightLe (G : Graph) : Nat → Nat → Bool
  | 0, _ => false
  | k + 1, pos =>
    match G.node pos with
    | none => true
    | some n => (children G n).all (heightLe G k)

def BelowLimit (G : Graph) (gs : List Nat) : Bool := (rootsOf G gs).all (heightLe G 64)

theorem heightLe_mono (G : Graph) : ∀ (k a : Nat), heightLe G k a = true → heightLe G (k + 1) a = true
  | 0, a, h => by simp [heightLe] at h
  | k + 1, a, h => by
    unfold heightLe at h ⊢
    cases hn : G.node a with
    | none => rfl
    | some n =>
      rw [hn] at h
      simp only [List.all_eq_true] at h ⊢
      intro q hq
      exact heightLe_mono G k q (h q hq)

theorem heightLe_child (G : Graph) (k a : Nat) (n : PNode) (q : Nat) (h : heightLe G (k + 1) a = true)
    (hn : G.node a = some n) (hq : q ∈ children G n) : heightLe G k q = true := by
  unfold heightLe at h
  rw [hn] at h
  simp only [List.all_eq_true] at h
  exact h q hq

theorem heightLe_reach (G : Graph) (k : Nat) {a y : Nat} (hr : Reach G a y) (h : heightLe G k a = true) :
    heightLe G k y = true := by
  induction hr with
  | refl => exact h
  | tail hab hn hc ih =>
    cases k with
    | zero => simp [heightLe] at h
    | succ k => exact heightLe_mono G k _ (heightLe_child G k _ _ _ ih hn hc)

theorem acyclic_below (G : Graph) : ∀ (k a : Nat) (n : PNode) (q : Nat), heightLe G k a = true → G.node a = some n →
    q ∈ children G n → ¬ Reach G q a
  | 0, a, n, q, h, _, _ => by simp [heightLe] at h
  | k + 1, a, n, q, h, hn, hq => by
    intro hr
    have hq' := heightLe_child G k a n q h hn hq
    have ha' := heightLe_reach G k hr hq'
    exact acyclic_below G k a n q ha' hn hq hr

theorem Reach.trans' {G : Graph} {a b c : Nat} (h1 : Reach G a b) (h2 : Reach G b c) : Reach G a c := by
  induction h2 with
  | refl => exact h1
  | tail _ hn hc ih => exact Reach.tail ih hn hc

theorem Reach.head_cases {G : Graph} {a y : Nat} (h : Reach G a y) :
    y = a ∨ ∃ n q, G.node a = some n ∧ q ∈ children G n ∧ Reach G q y := by
  induction h with
  | refl => exact Or.inl rfl
  | tail hab hn hc ih =>
    rcases ih with h | ⟨n', q, h1, h2, h3⟩
    · subst h
      exact Or.inr ⟨_, _, hn, hc, Reach.refl _⟩
    · exact Or.inr ⟨n', q, h1, h2, Reach.tail h3 hn hc⟩

/-- everything reachable from `x` has its palette indices collected -/
def Coll (G : Graph) (c : Ctx) (x : Nat) : Prop :=
  ∀ y m, Reach G x y → G.node y = some m → ∀ p ∈ palOf m, p ∈ c.palettes

theorem Coll.mono {G : Graph} {c c' : Ctx} {x : Nat} (h : Coll G c x) (hp : ∀ p ∈ c.palettes, p ∈ c'.palettes) :
    Coll G c' x := fun y m hr hn p hpm => hp p (h y m hr hn p hpm)

structure Inv (G : Graph) (c1 ci : Ctx) : Prop where
  lvl : ci.level = c1.level
  pal : ∀ p ∈ c1.palettes, p ∈ ci.palettes
  vis : ∀ x ∈ c1.visited, x ∈ ci.visited
  new : ∀ x ∈ ci.visited, x ∉ c1.visited → ∀ m, G.node x = some m → Coll G ci x

theorem Inv.refl (G : Graph) (c : Ctx) : Inv G c c :=
  ⟨rfl, fun _ h => h, fun _ h => h, fun x h hn => absurd h hn⟩

theorem Inv.trans {G : Graph} {a b c : Ctx} (h1 : Inv G a b) (h2 : Inv G b c) : Inv G a c := by
  refine ⟨h2.lvl.trans h1.lvl, fun p hp => h2.pal p (h1.pal p hp), fun x hx => h2.vis x (h1.vis x hx), ?_⟩
  intro x hx hna m hm
  by_cases hb : x ∈ b.visited
  · exact (h1.new x hb hna m hm).mono h2.pal
  · exact h2.new x hx hb m hm

/-- a context with the same level and visited set and at least the palettes -/
theorem Inv.congr_right {G : Graph} {a b b' : Ctx} (h : Inv G a b) (hl : b'.level = b.level)
    (hp : ∀ p ∈ b.palettes, p ∈ b'.palettes) (hv : b'.visited = b.visited) : Inv G a b' := by
  refine ⟨hl.trans h.lvl, fun p hp' => hp p (h.pal p hp'), fun x hx => by rw [hv]; exact h.vis x hx, ?_⟩
  intro x hx hna m hm
  rw [hv] at hx
  exact (h.new x hx hna m hm).mono hp

/-- what one `dispatch` call guarantees (induction hypothesis), for paints of height ≤ k -/
def RecOk (G : Graph) (k F : Nat) (rec : Ctx → Nat → Ctx) : Prop :=
  ∀ c q, heightLe G k q = true → k ≤ c.level → c.level < F →
    (∀ x ∈ c.visited, Reach G q x → ∀ m, G.node x = some m → Coll G c x) →
    Inv G c (rec c q) ∧ (∀ m, G.node q = some m → Coll G (rec c q) q)


/-- the situation inside `dispatch` at `pos` after `pos` was marked visited (`c1`), `c0` = the context on entry -/
structure Par (G : Graph) (k F pos : Nat) (n : PNode) (c0 c1 : Ctx) : Prop where
  hnode : G.node pos = some n
  hh : heightLe G (k + 1) pos = true
  pre : ∀ x ∈ c0.visited, Reach G pos x → ∀ m, G.node x = some m → Coll G c0 x
  vis1 : c1.visited = pos :: c0.visited
  pal1 : ∀ p ∈ c0.palettes, p ∈ c1.palettes
  lev1 : k ≤ c1.level ∧ c1.level < F

theorem seq_step {G : Graph} {k F pos : Nat} {n : PNode} {c0 c1 : Ctx} {rec : Ctx → Nat → Ctx}
    (hrec : RecOk G k F rec) (P : Par G k F pos n c0 c1) (ci : Ctx) (hi : Inv G c1 ci) (q : Nat)
    (hq : q ∈ children G n) :
    Inv G c1 (rec ci q) ∧ Inv G ci (rec ci q) ∧ (∀ m, G.node q = some m → Coll G (rec ci q) q) := by
  have hpq : Reach G pos q := Reach.tail (Reach.refl pos) P.hnode hq
  have hpre : ∀ x ∈ ci.visited, Reach G q x → ∀ m, G.node x = some m → Coll G ci x := by
    intro x hx hr m hm
    by_cases h1 : x ∈ c1.visited
    · rw [P.vis1] at h1
      rcases List.mem_cons.mp h1 with h | h
      · subst h
        exact absurd hr (acyclic_below G (k + 1) x n q P.hh P.hnode hq)
      · exact (P.pre x h (hpq.trans' hr) m hm).mono (fun p hp => hi.pal p (P.pal1 p hp))
    · exact hi.new x hx h1 m hm
  obtain ⟨h1, h2⟩ := hrec ci q (heightLe_child G k pos n q P.hh P.hnode hq) (by rw [hi.lvl]; exact P.lev1.1)
    (by rw [hi.lvl]; exact P.lev1.2) hpre
  exact ⟨hi.trans h1, h1, h2⟩

theorem seq_list {G : Graph} {k F pos : Nat} {n : PNode} {c0 c1 : Ctx} {rec : Ctx → Nat → Ctx}
    (hrec : RecOk G k F rec) (P : Par G k F pos n c0 c1) :
    ∀ (qs : List Nat) (ci : Ctx), Inv G c1 ci → (∀ q ∈ qs, q ∈ children G n) →
      Inv G c1 (dispatchAll rec ci qs) ∧ Inv G ci (dispatchAll rec ci qs) ∧
      ∀ q ∈ qs, ∀ m, G.node q = some m → Coll G (dispatchAll rec ci qs) q
  | [], ci, hi, _ => ⟨hi, Inv.refl G ci, fun q hq => by cases hq⟩
  | q :: qs, ci, hi, hqs => by
    obtain ⟨a1, a2, a3⟩ := seq_step hrec P ci hi q (hqs q (List.mem_cons_self ..))
    obtain ⟨b1, b2, b3⟩ := seq_list hrec P qs (rec ci q) a1 (fun x hx => hqs x (List.mem_cons_of_mem _ hx))
    simp only [dispatchAll]
    refine ⟨b1, a2.trans b2, ?_⟩
    intro x hx m hm
    rcases List.mem_cons.mp hx with h | h
    · subst h; exact (a3 m hm).mono b2.pal
    · exact b3 x h m hm


theorem addVars_level (c : Ctx) (b n : Nat) : (c.addVars b n).level = c.level := by unfold Ctx.addVars; split <;> rfl
theorem addVars_visited (c : Ctx) (b n : Nat) : (c.addVars b n).visited = c.visited := by unfold Ctx.addVars; split <;> rfl
theorem addVarsOpt_level (c : Ctx) (v : Option (Nat × Nat)) : (c.addVarsOpt v).level = c.level := by
  cases v with | none => rfl | some x => exact addVars_level c x.1 x.2
theorem addVarsOpt_visited (c : Ctx) (v : Option (Nat × Nat)) : (c.addVarsOpt v).visited = c.visited := by
  cases v with | none => rfl | some x => exact addVars_visited c x.1 x.2
theorem addStop_level (c : Ctx) (s : Nat × Option Nat) : (c.addStop s).level = c.level := by
  unfold Ctx.addStop; cases s.2 with | none => rfl | some b => simp only [addVars_level]
theorem addStop_visited (c : Ctx) (s : Nat × Option Nat) : (c.addStop s).visited = c.visited := by
  unfold Ctx.addStop; cases s.2 with | none => rfl | some b => simp only [addVars_visited]

theorem foldl_addStop_fields : ∀ (ss : List (Nat × Option Nat)) (c : Ctx),
    (ss.foldl Ctx.addStop c).level = c.level ∧ (ss.foldl Ctx.addStop c).visited = c.visited ∧
    (∀ p ∈ c.palettes, p ∈ (ss.foldl Ctx.addStop c).palettes) ∧
    (∀ p ∈ ss.map (·.1), p ∈ (ss.foldl Ctx.addStop c).palettes)
  | [], c => ⟨rfl, rfl, fun _ h => h, fun p h => by cases h⟩
  | s :: ss, c => by
    obtain ⟨a, b, c', d⟩ := foldl_addStop_fields ss (c.addStop s)
    simp only [List.foldl_cons]
    refine ⟨a.trans (addStop_level c s), b.trans (addStop_visited c s), ?_, ?_⟩
    · intro p hp; apply c'; rw [addStop_pal]; exact List.mem_cons_of_mem _ hp
    · intro p hp
      simp only [List.map_cons, List.mem_cons] at hp
      rcases hp with h | h
      · apply c'; rw [addStop_pal, h]; exact List.mem_cons_self ..
      · exact d p h


/-- the result of one paint's `v1_closure` inside `dispatch`: its own palette indices are in, every child's reachable
set is collected, the invariant holds relative to `c1` -/
def BodyOk (G : Graph) (n : PNode) (c1 c2 : Ctx) : Prop :=
  Inv G c1 c2 ∧ (∀ p ∈ palOf n, p ∈ c2.palettes) ∧ (∀ q ∈ children G n, ∀ m, G.node q = some m → Coll G c2 q)

theorem body_complete {G : Graph} {k F pos : Nat} {n : PNode} {c0 c1 : Ctx} {rec : Ctx → Nat → Ctx}
    (hrec : RecOk G k F rec) (P : Par G k F pos n c0 c1) : BodyOk G n c1 (body G rec c1 n) := by
  have hrefl := Inv.refl G c1
  cases n with
  | layers num first =>
    unfold body
    by_cases h0 : num = 0
    · simp only [h0, if_true]
      exact ⟨hrefl, fun p hp => (by cases hp), fun q hq => by simp [children, h0] at hq⟩
    · simp only [h0, if_false]
      cases hll : G.layerList with
      | none => exact ⟨hrefl, fun p hp => (by cases hp), fun q hq => by simp [children, h0, hll] at hq⟩
      | some ll =>
        simp only
        have hch : children G (.layers num first) =
            (layerIndices first (min (first + (num - 1)) U32MAX)).filterMap (fun i => (ll[i]?).join) := by
          simp only [children, h0, if_false, hll]
        obtain ⟨a1, _, a3⟩ := seq_list hrec P _ { c1 with layers := (first, min (first + (num - 1)) U32MAX) :: c1.layers }
          (hrefl.congr_right rfl (fun _ h => h) rfl) (fun q hq => by rw [hch]; exact hq)
        exact ⟨a1, fun p hp => (by cases hp), fun q hq => a3 q (by rw [hch] at hq; exact hq)⟩
  | solid pal var =>
    unfold body
    refine ⟨?_, ?_, fun q hq => by simp [children] at hq⟩
    · cases var with
      | none => exact hrefl.congr_right rfl (fun p hp => List.mem_cons_of_mem _ hp) rfl
      | some b =>
        exact hrefl.congr_right (addVars_level _ _ _) (fun p hp => by rw [addVars_pal]; exact List.mem_cons_of_mem _ hp)
          (addVars_visited _ _ _)
    · intro p hp
      simp only [palOf, List.mem_singleton] at hp
      subst hp
      cases var with
      | none => exact List.mem_cons_self ..
      | some b => rw [addVars_pal]; exact List.mem_cons_self ..
  | gradient stops var =>
    unfold body
    refine ⟨?_, ?_, fun q hq => by simp [children] at hq⟩
    · cases stops with
      | none => exact hrefl.congr_right (addVarsOpt_level _ _) (fun p hp => by rw [addVarsOpt_pal]; exact hp) (addVarsOpt_visited _ _)
      | some ss =>
        obtain ⟨f1, f2, f3, _⟩ := foldl_addStop_fields ss c1
        exact hrefl.congr_right ((addVarsOpt_level _ _).trans f1) (fun p hp => by rw [addVarsOpt_pal]; exact f3 p hp)
          ((addVarsOpt_visited _ _).trans f2)
    · intro p hp
      cases stops with
      | none => cases hp
      | some ss =>
        obtain ⟨_, _, _, f4⟩ := foldl_addStop_fields ss c1
        rw [addVarsOpt_pal]
        exact f4 p hp
  | glyph gid child =>
    unfold body
    cases child with
    | none => exact ⟨hrefl.congr_right rfl (fun _ h => h) rfl, fun p hp => (by cases hp), fun q hq => by simp [children] at hq⟩
    | some q =>
      obtain ⟨a1, _, a3⟩ := seq_step hrec P { c1 with glyphs := gid :: c1.glyphs } (hrefl.congr_right rfl (fun _ h => h) rfl) q
        (by simp [children])
      refine ⟨a1, fun p hp => (by cases hp), ?_⟩
      intro x hx
      simp only [children, Option.toList, List.mem_singleton] at hx
      subst hx
      exact a3
  | colrGlyph gid =>
    unfold body
    cases hb : G.baseList with
    | none => exact ⟨hrefl, fun p hp => (by cases hp), fun q hq => by simp [children, hb] at hq⟩
    | some recs =>
      simp only
      cases hs : binarySearchBy recs.length (fun i => natCmp (recs.getD i default).1 gid) with
      | err e =>
        refine ⟨hrefl, fun p hp => (by cases hp), fun q hq => ?_⟩
        unfold children at hq; rw [hb] at hq; simp only at hq; rw [hs] at hq; cases hq
      | ok ix =>
        simp only
        cases hr : recs[ix]? with
        | none =>
          refine ⟨hrefl.congr_right rfl (fun _ h => h) rfl, fun p hp => (by cases hp), fun q hq => ?_⟩
          unfold children at hq; rw [hb] at hq; simp only at hq; rw [hs] at hq; simp only at hq; rw [hr] at hq; cases hq
        | some rp =>
          obtain ⟨g', op⟩ := rp
          cases op with
          | none =>
            refine ⟨hrefl, fun p hp => (by cases hp), fun q hq => ?_⟩
            unfold children at hq; rw [hb] at hq; simp only at hq; rw [hs] at hq; simp only at hq; rw [hr] at hq; cases hq
          | some q =>
            simp only
            have hch : children G (.colrGlyph gid) = [q] := by
              unfold children; rw [hb]; simp only; rw [hs]; simp only; rw [hr]
            obtain ⟨a1, _, a3⟩ := seq_step hrec P { c1 with glyphs := gid :: c1.glyphs } (hrefl.congr_right rfl (fun _ h => h) rfl) q
              (by rw [hch]; exact List.mem_cons_self ..)
            refine ⟨a1, fun p hp => (by cases hp), ?_⟩
            intro x hx
            rw [hch, List.mem_singleton] at hx
            subst hx
            exact a3
  | unary child var =>
    unfold body
    cases child with
    | none => exact ⟨hrefl, fun p hp => (by cases hp), fun q hq => by simp [children] at hq⟩
    | some q =>
      obtain ⟨a1, _, a3⟩ := seq_step hrec P c1 hrefl q (by simp [children])
      refine ⟨a1.congr_right (addVarsOpt_level _ _) (fun p hp => by rw [addVarsOpt_pal]; exact hp) (addVarsOpt_visited _ _),
        fun p hp => (by cases hp), ?_⟩
      intro x hx
      simp only [children, Option.toList, List.mem_singleton] at hx
      subst hx
      intro m hm
      exact (a3 m hm).mono (fun p hp => by rw [addVarsOpt_pal]; exact hp)
  | composite src backdrop =>
    cases src with
    | none =>
      cases backdrop with
      | none => simp only [body]; exact ⟨hrefl, fun p hp => (by cases hp), fun q hq => by simp [children] at hq⟩
      | some q =>
        simp only [body]
        obtain ⟨a1, _, a3⟩ := seq_step hrec P c1 hrefl q (by simp [children])
        refine ⟨a1, fun p hp => (by cases hp), ?_⟩
        intro x hx
        simp only [children, Option.toList, List.nil_append, List.mem_singleton] at hx
        subst hx
        exact a3
    | some q1 =>
      obtain ⟨a1, _, a3⟩ := seq_step hrec P c1 hrefl q1 (by simp [children])
      cases backdrop with
      | none =>
        simp only [body]
        refine ⟨a1, fun p hp => (by cases hp), ?_⟩
        intro x hx
        simp only [children, Option.toList, List.append_nil, List.mem_singleton] at hx
        subst hx
        exact a3
      | some q2 =>
        simp only [body]
        obtain ⟨b1, b2, b3⟩ := seq_step hrec P (rec c1 q1) a1 q2 (by simp [children])
        refine ⟨b1, fun p hp => (by cases hp), ?_⟩
        intro x hx
        simp only [children, Option.toList, List.cons_append, List.nil_append, List.mem_cons, List.not_mem_nil, or_false] at hx
        rcases hx with h | h
        · subst h; intro m hm; exact (a3 m hm).mono b2.pal
        · subst h; exact b3


theorem coll_of_children {G : Graph} {c : Ctx} {q : Nat} {n : PNode} (hn : G.node q = some n)
    (hself : ∀ p ∈ palOf n, p ∈ c.palettes)
    (hch : ∀ q' ∈ children G n, ∀ m, G.node q' = some m → Coll G c q') : Coll G c q := by
  intro y m hr hm p hp
  rcases hr.head_cases with h | ⟨n', q', h1, h2, h3⟩
  · subst h
    rw [hn] at hm; cases hm
    exact hself p hp
  · rw [hn] at h1; cases h1
    cases hq' : G.node q' with
    | some m' => exact hch q' h2 m' hq' y m h3 hm p hp
    | none =>
      rcases h3.head_cases with h | ⟨n'', _, h1', _, _⟩
      · subst h; rw [hq'] at hm; cases hm
      · rw [hq'] at h1'; cases h1'

/-- **the DFS invariant**: `dispatch` on a paint of height ≤ k, with enough nesting levels left -/
theorem dispatch_complete (G : Graph) (hsmall : ∀ x m, G.node x = some m → x < 4294967296) :
    ∀ (k F fuel : Nat), F ≤ fuel → F ≤ 256 → RecOk G k F (dispatch G fuel)
  | 0, F, fuel, _, _ => by
    intro c q hh; simp [heightLe] at hh
  | k + 1, F, fuel, hFf, hF => by
    intro c q hh hlev hcF hpre
    cases fuel with
    | zero => omega
    | succ f =>
    unfold dispatch
    simp only
    cases hn : G.node q with
    | none =>
      simp only
      exact ⟨(Inv.refl G c).congr_right rfl (fun _ h => h) rfl, fun m hm => by cases hm⟩
    | some n =>
      simp only
      have hl0 : ¬ (c.level = 0) := by omega
      have hq : q % 4294967296 = q := Nat.mod_eq_of_lt (hsmall q n hn)
      simp only [hl0, if_false, hq]
      by_cases hv : c.visited.contains q = true
      · simp only [hv, if_true]
        refine ⟨(Inv.refl G c).congr_right rfl (fun _ h => h) rfl, fun m hm => ?_⟩
        have hmem : q ∈ c.visited := by simpa using hv
        exact (hpre q hmem (Reach.refl q) n hn).mono (fun _ h => h)
      · simp only [hv, Bool.false_eq_true, if_false]
        have hnm : q ∉ c.visited := by simpa using hv
        generalize hc1 : ({ c with calls := c.calls + 1, visited := q :: c.visited, level := c.level - 1 } : Ctx) = c1
        have P : Par G k (F - 1) q n c c1 := by
          subst hc1
          exact ⟨hn, hh, hpre, rfl, fun _ h => h, by simp only; omega⟩
        have hrec := dispatch_complete G hsmall k (F - 1) f (by omega) (by omega)
        obtain ⟨hI, hself, hch⟩ := body_complete hrec P
        generalize body G (dispatch G f) c1 n = c2 at hI hself hch
        have hlv : c2.level = c.level - 1 := by rw [hI.lvl, ← hc1]
        have hnt : ¬ (c2.level + 1 > 255) := by omega
        simp only [hnt, if_false]
        have hcoll : Coll G c2 q := coll_of_children hn hself hch
        have hv1 : c1.visited = q :: c.visited := by rw [← hc1]
        have hp1 : c1.palettes = c.palettes := by rw [← hc1]
        refine ⟨⟨by simp only; omega, fun p hp => hI.pal p (by rw [hp1]; exact hp),
          fun x hx => hI.vis x (by rw [hv1]; exact List.mem_cons_of_mem _ hx), ?_⟩, fun m _ => hcoll.mono (fun _ h => h)⟩
        intro x hx hnx m hm
        by_cases hxq : x = q
        · subst hxq; exact hcoll.mono (fun _ h => h)
        · have : x ∉ c1.visited := by
            rw [hv1]; intro h
            rcases List.mem_cons.mp h with h' | h'
            · exact hxq h'
            · exact hnx h'
          exact (hI.new x hx this m hm).mono (fun _ h => h)


def VisDone (G : Graph) (c : Ctx) : Prop := ∀ x ∈ c.visited, ∀ m, G.node x = some m → Coll G c x

theorem roots_loop (G : Graph) (hsmall : ∀ x m, G.node x = some m → x < 4294967296) :
    ∀ (rs : List Nat) (c : Ctx), VisDone G c → c.level = 64 → (∀ r ∈ rs, heightLe G 64 r = true) →
      VisDone G (dispatchAll (dispatch G 65) c rs) ∧ (∀ p ∈ c.palettes, p ∈ (dispatchAll (dispatch G 65) c rs).palettes) ∧
      ∀ r ∈ rs, ∀ m, G.node r = some m → Coll G (dispatchAll (dispatch G 65) c rs) r
  | [], c, hv, _, _ => ⟨hv, fun _ h => h, fun r hr => by cases hr⟩
  | r :: rs, c, hv, hl, hh => by
    obtain ⟨hI, hC⟩ := dispatch_complete G hsmall 64 65 65 (Nat.le_refl _) (by omega) c r (hh r (List.mem_cons_self ..))
      (by omega) (by omega) (fun x hx _ m hm => hv x hx m hm)
    have hv' : VisDone G (dispatch G 65 c r) := by
      intro x hx m hm
      by_cases hxc : x ∈ c.visited
      · exact (hv x hxc m hm).mono hI.pal
      · exact hI.new x hx hxc m hm
    obtain ⟨a, b, d⟩ := roots_loop G hsmall rs (dispatch G 65 c r) hv' (by rw [hI.lvl]; exact hl)
      (fun x hx => hh x (List.mem_cons_of_mem _ hx))
    simp only [dispatchAll]
    refine ⟨a, fun p hp => b p (hI.pal p hp), ?_⟩
    intro x hx m hm
    rcases List.mem_cons.mp hx with h | h
    · subst h; exact (hC m hm).mono b
    · exact d x h m hm

/-- completeness of the COLRv1 palette collection below the nesting limit, on the abstract graph -/
theorem v1Roots_complete (G : Graph) (hsmall : ∀ x m, G.node x = some m → x < 4294967296) (gs : List Nat)
    (hbl : BelowLimit G gs = true) (r : Nat) (hr : r ∈ rootsOf G gs) (y : Nat) (m : PNode) (hreach : Reach G r y)
    (hm : G.node y = some m) (p : Nat) (hp : p ∈ palOf m) : p ∈ (v1Roots G gs).palettes := by
  unfold BelowLimit at hbl
  simp only [List.all_eq_true] at hbl
  have hroots : v1Roots G gs = dispatchAll (dispatch G 65) {} (rootsOf G gs) := by
    unfold v1Roots rootsOf
    cases G.baseList with
    | none => rfl
    | some recs => rfl
  rw [hroots]
  obtain ⟨_, _, hd⟩ := roots_loop G hsmall (rootsOf G gs) {} (fun x hx => by cases hx) rfl hbl
  cases hnr : G.node r with
  | some mr => exact hd r hr mr hnr y m hreach hm p hp
  | none =>
    rcases hreach.head_cases with h | ⟨n', _, h1, _, _⟩
    · subst h; rw [hnr] at hm; cases hm
    · rw [hnr] at h1; cases h1

theorem v1Palettes_complete (t : Colr) (hv : ¬ t.version < 1)
    (hsmall : ∀ x m, (graphOf t).node x = some m → x < 4294967296) (gs : List Nat)
    (hbl : BelowLimit (graphOf t) gs = true) (r : Nat) (hr : r ∈ rootsOf (graphOf t) gs) (y : Nat) (m : PNode)
    (hreach : Reach (graphOf t) r y) (hm : (graphOf t).node y = some m) (p : Nat) (hp : p ∈ palOf m) :
    p ∈ v1Palettes t gs := by
  have h := v1Roots_complete (graphOf t) hsmall gs hbl r hr y m hreach hm p hp
  unfold v1Palettes v1ClosureOf
  simp only [hv, if_false]
  unfold v1Closure
  simp only
  cases hc : clipsOf t with
  | none => exact h
  | some cl =>
    simp only
    rw [v1Clips_pal]
    exact h

end FontVerif.SubsetColrPalV1
