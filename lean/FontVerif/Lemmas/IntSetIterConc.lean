/- C14 / concrete iterators: the state machines of Model/IntSetIterConc.lean (page `RangeIter`,
`BitSetRangeIter`, `iter`, `iter_after`) yield what the abstract model (Model/IntSet.lean) says:
`runsOfList (pageMembers …)`, `BitSet.ranges`, `BitSet.members`. -/
import FontVerif.Model.IntSetIterConc
import FontVerif.Lemmas.IntSetConcInv
import FontVerif.Lemmas.IntSetObs
set_option linter.unusedVariables false
set_option linter.unusedSimpArgs false
namespace FontVerif.IntSet

/-! ### runs of a list that starts with a maximal run -/

private theorem runsOfList_cons_head (y : Nat) (ys : List Nat) :
    ∃ e r, runsOfList (y :: ys) = (y, e) :: r := by
  unfold runsOfList
  split
  · rename_i s e rest _
    by_cases h : y + 1 = s
    · exact ⟨e, rest, by simp [h]⟩
    · exact ⟨y, (s, e) :: rest, by simp [h]⟩
  · exact ⟨y, [], rfl⟩

/-- a list that starts with the run `s..=e` and continues strictly above `e + 1` -/
theorem runsOfList_run_append (n s : Nat) (rest : List Nat) (hr : ∀ x ∈ rest, s + n + 1 < x) :
    runsOfList (List.range' s (n + 1) ++ rest) = (s, s + n) :: runsOfList rest := by
  induction n generalizing s with
  | zero =>
    cases rest with
    | nil => simp [runsOfList]
    | cons y ys =>
      obtain ⟨e, r, hy⟩ := runsOfList_cons_head y ys
      have hlt := hr y List.mem_cons_self
      show runsOfList (s :: y :: ys) = _
      rw [runsOfList, hy]
      have : ¬ s + 1 = y := by omega
      simp [this]
  | succ n ih =>
    have h1 : List.range' s (n + 1 + 1) ++ rest = s :: (List.range' (s + 1) (n + 1) ++ rest) := by
      rw [List.range'_succ]; rfl
    rw [h1, runsOfList, ih (s + 1) (by intro x hx; have := hr x hx; omega)]
    simp
    omega

/-- the members `s..=e` -/
def runList (s e : Nat) : List Nat := List.range' s (e + 1 - s)

theorem mem_runList {s e x : Nat} : x ∈ runList s e ↔ s ≤ x ∧ x ≤ e := by
  unfold runList
  rw [List.mem_range'_1]
  omega

theorem asc_runList (s e : Nat) : Asc (runList s e) := by
  unfold runList Asc
  exact List.pairwise_lt_range'

theorem runList_length {s e : Nat} (h : s ≤ e) : (runList s e).length = e + 1 - s := by
  simp [runList]

theorem runsOfList_runList_append {s e : Nat} (h : s ≤ e) (rest : List Nat)
    (hr : ∀ x ∈ rest, e + 1 < x) :
    runsOfList (runList s e ++ rest) = (s, e) :: runsOfList rest := by
  have := runsOfList_run_append (e - s) s rest (by intro x hx; have := hr x hx; omega)
  unfold runList
  have h1 : e + 1 - s = e - s + 1 := by omega
  have h2 : s + (e - s) = e := by omega
  rw [h1]; rw [h2] at this; exact this

theorem runList_append {s e e' : Nat} (h1 : s ≤ e) (h2 : e ≤ e') :
    runList s e ++ runList (e + 1) e' = runList s e' := by
  unfold runList
  have : e' + 1 - s = (e + 1 - s) + (e' + 1 - (e + 1)) := by omega
  rw [this, ← List.range'_append_1]
  congr 2
  omega

/-! ### `trailing_zeros` / `trailing_ones` -/

theorem firstIdx_spec (p : Nat → Bool) (fuel i : Nat) :
    i ≤ firstIdx p fuel i ∧ firstIdx p fuel i ≤ i + fuel ∧
      (∀ j, i ≤ j → j < firstIdx p fuel i → p j = false) ∧
      (firstIdx p fuel i < i + fuel → p (firstIdx p fuel i) = true) := by
  induction fuel generalizing i with
  | zero => simp [firstIdx]; intro j h1 h2; omega
  | succ f ih =>
    by_cases h : p i = true
    · have e : firstIdx p (f + 1) i = i := by simp [firstIdx, h]
      rw [e]
      exact ⟨Nat.le_refl _, by omega, fun j h1 h2 => by omega, fun _ => h⟩
    · have e : firstIdx p (f + 1) i = firstIdx p f (i + 1) := by simp [firstIdx, h]
      rw [e]
      obtain ⟨a, b, c, d⟩ := ih (i + 1)
      refine ⟨by omega, by omega, ?_, fun hh => d (by omega)⟩
      intro j h1 h2
      by_cases hj : j = i
      · subst hj; simpa using h
      · exact c j (by omega) h2

/-! ### bits of a concrete page -/

/-- bit `i` of the page -/
def pbit (p : CPage) (i : Nat) : Bool := (pack p.elems).testBit i

private theorem ic_testBit_pack (es : List Nat) (h : ∀ e ∈ es, e < 2 ^ 64) (j : Nat) :
    (pack es).testBit j = (es.getD (j / 64) 0).testBit (j % 64) := by
  induction es generalizing j with
  | nil => simp [pack]
  | cons e es ih =>
    have he : e < 2 ^ 64 := h e (List.mem_cons_self)
    have hes : ∀ x ∈ es, x < 2 ^ 64 := fun x hx => h x (List.mem_cons_of_mem _ hx)
    unfold pack
    rw [Nat.add_comm, Nat.testBit_two_pow_mul_add _ he]
    by_cases hj : j < 64
    · have h0 : j / 64 = 0 := by omega
      have h1 : j % 64 = j := by omega
      simp [hj, h0, h1]
    · have h0 : j / 64 = (j - 64) / 64 + 1 := by omega
      have h1 : j % 64 = (j - 64) % 64 := by omega
      rw [if_neg hj, ih hes, h0, h1]
      simp

theorem element_testBit {p : CPage} (hp : CPageOk p) {m : Nat} (hm : m < 512) {j : Nat} (hj : j < 64) :
    (p.element m).testBit j = pbit p (elemFloor m + j) := by
  unfold pbit CPage.element elementIndex elemFloor
  rw [ic_testBit_pack p.elems hp.2.1]
  congr 2 <;> omega

private theorem testBit_low_mask {bit j : Nat} (hb : bit < 64) :
    (shl64 1 bit - 1).testBit j = decide (j < bit) := by
  unfold shl64
  rw [Nat.one_shiftLeft, Nat.mod_eq_of_lt (Nat.pow_lt_pow_right (by omega) hb),
    Nat.testBit_two_pow_sub_one]

private theorem testBit_and_high_mask {el bit j : Nat} (hb : bit < 64) (hj : j < 64) :
    (el &&& not64 (shl64 1 bit - 1)).testBit j = (el.testBit j && decide (bit ≤ j)) := by
  unfold not64 U64_MAX
  rw [Nat.testBit_and, Nat.testBit_xor, Nat.testBit_two_pow_sub_one, Nat.testBit_mod_two_pow,
    testBit_low_mask hb]
  by_cases h : j < bit
  · have : ¬ bit ≤ j := by omega
    simp [hj, h, this]
  · have : bit ≤ j := by omega
    simp [hj, h, this]

private theorem testBit_or_low_mask {el rs j : Nat} (hb : rs < 64) :
    (el ||| (shl64 1 rs - 1)).testBit j = (el.testBit j || decide (j < rs)) := by
  rw [Nat.testBit_or, testBit_low_mask hb]

/-! ### `next_range_in_element` -/

theorem elemFloor_le (m : Nat) : elemFloor m ≤ m ∧ m < elemFloor m + 64 ∧ elemFloor m % 64 = 0 := by
  unfold elemFloor; omega

/-- `None`: no set bit from `next_value_to_check` to the end of its element -/
theorem nre_none {p : CPage} (hp : CPageOk p) {m : Nat} (hm : m < 512)
    (h : PRangeIter.nextRangeInElement ⟨p, m⟩ = none) :
    ∀ i, m ≤ i → i < elemFloor m + 64 → pbit p i = false := by
  intro i h1 h2
  have hf := elemFloor_le m
  unfold PRangeIter.nextRangeInElement at h
  simp only [PAGE_BITS, ge_iff_le, show ¬ 512 ≤ m from by omega, if_false] at h
  by_cases htz : tzcnt64 (p.element m &&& not64 (shl64 1 (m % 64) - 1)) = ELEM_BITS
  · replace htz : tzcnt64 (p.element m &&& not64 (shl64 1 (m % 64) - 1)) = 64 := htz
    obtain ⟨_, _, c, _⟩ := firstIdx_spec
      (fun i => (p.element m &&& not64 (shl64 1 (m % 64) - 1)).testBit i) 64 0
    unfold tzcnt64 at htz
    rw [htz] at c
    have hj : i - elemFloor m < 64 := by omega
    have := c (i - elemFloor m) (by omega) hj
    simp only [testBit_and_high_mask (show m % 64 < 64 by omega) hj, element_testBit hp hm hj] at this
    have e1 : elemFloor m + (i - elemFloor m) = i := by omega
    have e2 : m % 64 ≤ i - elemFloor m := by unfold elemFloor at *; omega
    rw [e1] at this
    simpa [e2] using this
  · rw [if_neg htz] at h; simp at h

/-- `Some(s..=e)`: the first set bit at or after `next_value_to_check` inside its element and the
run of set bits from it inside that element -/
theorem nre_some {p : CPage} (hp : CPageOk p) {m : Nat} (hm : m < 512) {s e : Nat}
    (h : PRangeIter.nextRangeInElement ⟨p, m⟩ = some (s, e)) :
    m ≤ s ∧ s ≤ e ∧ e < elemFloor m + 64 ∧ (∀ i, m ≤ i → i < s → pbit p i = false) ∧
      (∀ i, s ≤ i → i ≤ e → pbit p i = true) ∧ (e + 1 < elemFloor m + 64 → pbit p (e + 1) = false) := by
  have hf := elemFloor_le m
  unfold PRangeIter.nextRangeInElement at h
  simp only [PAGE_BITS, ge_iff_le, show ¬ 512 ≤ m from by omega, if_false] at h
  by_cases htz : tzcnt64 (p.element m &&& not64 (shl64 1 (m % 64) - 1)) = ELEM_BITS
  · rw [if_pos htz] at h; simp at h
  · rw [if_neg htz] at h
    replace htz : ¬ tzcnt64 (p.element m &&& not64 (shl64 1 (m % 64) - 1)) = 64 := htz
    simp only [Option.some.injEq, Prod.mk.injEq] at h
    obtain ⟨hs, he⟩ := h
    generalize hrs : tzcnt64 (p.element m &&& not64 (shl64 1 (m % 64) - 1)) = rs at *
    generalize hto : tocnt64 (p.element m ||| (shl64 1 rs - 1)) = t at *
    obtain ⟨_, a2, a3, a4⟩ := firstIdx_spec
      (fun i => (p.element m &&& not64 (shl64 1 (m % 64) - 1)).testBit i) 64 0
    unfold tzcnt64 at hrs
    rw [hrs] at a2 a3 a4
    have hrs64 : rs < 64 := by omega
    obtain ⟨_, b2, b3, b4⟩ := firstIdx_spec
      (fun i => !(p.element m ||| (shl64 1 rs - 1)).testBit i) 64 0
    unfold tocnt64 at hto
    rw [hto] at b2 b3 b4
    -- bit `rs` of the element is set and `m % 64 ≤ rs`
    have hrsbit := a4 (by omega)
    simp only [testBit_and_high_mask (show m % 64 < 64 by omega) hrs64, Bool.and_eq_true,
      decide_eq_true_eq] at hrsbit
    -- bits `0..=rs` of `element | mask` are set, so `t ≥ rs + 1`
    have ht : rs < t := by
      apply Nat.lt_of_not_le
      intro hle
      have := b4 (by omega)
      simp only [testBit_or_low_mask hrs64, Bool.not_eq_true', Bool.or_eq_false_iff,
        decide_eq_false_iff_not] at this
      by_cases hh : t = rs
      · rw [hh] at this; rw [hrsbit.1] at this; simp at this
      · omega
    have hmod : m % 64 = m - elemFloor m := by unfold elemFloor; omega
    subst hs he
    refine ⟨by omega, by omega, by omega, ?_, ?_, ?_⟩
    · intro i h1 h2
      have hj : i - elemFloor m < 64 := by omega
      have := a3 (i - elemFloor m) (by omega) (by omega)
      simp only [testBit_and_high_mask (show m % 64 < 64 by omega) hj, element_testBit hp hm hj] at this
      have e1 : elemFloor m + (i - elemFloor m) = i := by omega
      have e2 : m % 64 ≤ i - elemFloor m := by omega
      rw [e1] at this
      simpa [e2] using this
    · intro i h1 h2
      have hj : i - elemFloor m < 64 := by omega
      have := b3 (i - elemFloor m) (by omega) (by omega)
      simp only [testBit_or_low_mask hrs64, element_testBit hp hm hj, Bool.not_eq_false'] at this
      have e1 : elemFloor m + (i - elemFloor m) = i := by omega
      have e2 : ¬ i - elemFloor m < rs := by omega
      rw [e1] at this
      simpa [e2] using this
    · intro h1
      have hj : t < 64 := by omega
      have := b4 (by omega)
      simp only [testBit_or_low_mask hrs64, element_testBit hp hm hj, Bool.not_eq_true',
        Bool.or_eq_false_iff] at this
      have e1 : elemFloor m + (t - 1) + 1 = elemFloor m + t := by omega
      rw [e1]
      exact this.1

theorem nre_ge (p : CPage) {m : Nat} (hm : 512 ≤ m) : PRangeIter.nextRangeInElement ⟨p, m⟩ = none := by
  unfold PRangeIter.nextRangeInElement
  simp [PAGE_BITS, hm]

/-! ### the remaining members of a page `RangeIter` -/

/-- `s..=e` is the first maximal run of set bits at or after position `n` of the page -/
structure FirstRun (b : Nat → Bool) (n s e : Nat) : Prop where
  ns : n ≤ s
  se : s ≤ e
  elt : e < 512
  clr : ∀ i, n ≤ i → i < s → b i = false
  set : ∀ i, s ≤ i → i ≤ e → b i = true
  stop : e + 1 < 512 → b (e + 1) = false

/-- the members of the page at or after `next_value_to_check` -/
def remP (it : PRangeIter) : List Nat :=
  (pageMembers it.page.abs.bits).filter (fun i => decide (it.nvtc ≤ i))

theorem mem_remP {it : PRangeIter} {x : Nat} :
    x ∈ remP it ↔ x < 512 ∧ pbit it.page x = true ∧ it.nvtc ≤ x := by
  unfold remP pbit
  rw [List.mem_filter, mem_pageMembers]
  simp [CPage.abs, and_assoc]

theorem asc_remP (it : PRangeIter) : Asc (remP it) := Asc.filter _ (pageMembers_sorted _)

theorem remP_zero (p : CPage) : remP ⟨p, 0⟩ = pageMembers p.abs.bits := by
  unfold remP; simp

theorem remP_nil {p : CPage} {n : Nat} (h : ∀ i, n ≤ i → i < 512 → pbit p i = false) :
    remP ⟨p, n⟩ = [] := by
  apply List.eq_nil_iff_forall_not_mem.2
  intro x hx
  rw [mem_remP] at hx
  have := h x hx.2.2 hx.1
  rw [hx.2.1] at this
  exact Bool.noConfusion this

theorem remP_firstRun {p : CPage} {n s e : Nat} (h : FirstRun (pbit p) n s e) :
    remP ⟨p, n⟩ = runList s e ++ remP ⟨p, e + 1⟩ ∧ ∀ x ∈ remP ⟨p, e + 1⟩, e + 1 < x := by
  have h2 : ∀ x ∈ remP ⟨p, e + 1⟩, e + 1 < x := by
    intro x hx
    rw [mem_remP] at hx
    simp only at hx
    by_cases hh : x = e + 1
    · subst hh
      have := h.stop hx.1
      rw [hx.2.1] at this
      exact Bool.noConfusion this
    · omega
  refine ⟨?_, h2⟩
  apply asc_ext (asc_remP _)
  · rw [asc_append]
    refine ⟨asc_runList _ _, asc_remP _, ?_⟩
    intro a ha b hb
    rw [mem_runList] at ha
    have := h2 b hb
    omega
  · intro x
    rw [List.mem_append, mem_remP, mem_remP, mem_runList]
    simp only
    constructor
    · rintro ⟨h1, h3, h4⟩
      by_cases hxs : x < s
      · have := h.clr x h4 hxs
        rw [h3] at this
        exact Bool.noConfusion this
      · by_cases hxe : x ≤ e
        · exact Or.inl ⟨by omega, hxe⟩
        · exact Or.inr ⟨h1, h3, by omega⟩
    · rintro (⟨h1, h3⟩ | ⟨h1, h3, h4⟩)
      · exact ⟨by have := h.elt; omega, h.set x h1 h3, by have := h.ns; omega⟩
      · exact ⟨h1, h3, by have := h.ns; have := h.se; omega⟩

/-! ### the loop of `RangeIter::next` -/

theorem pnextLoop_some {p : CPage} (hp : CPageOk p) (n s : Nat) :
    ∀ (fuel m e : Nat), 9 ≤ fuel + m / 64 → m < 512 → n ≤ s → s ≤ e →
      elemFloor m ≤ e → e < elemFloor m + 64 →
      (∀ i, n ≤ i → i < s → pbit p i = false) → (∀ i, s ≤ i → i ≤ e → pbit p i = true) →
      (e + 1 < elemFloor m + 64 → pbit p (e + 1) = false) →
      ∃ e', FirstRun (pbit p) n s e' ∧
        PRangeIter.nextLoop fuel (some (s, e)) ⟨p, m⟩ = (some (s, e'), ⟨p, e' + 1⟩) := by
  intro fuel
  induction fuel with
  | zero => intro m e h1 h2; omega
  | succ f ih =>
    intro m e hf hm hns hse hlo hhi hclr hset hstop
    have hfl := elemFloor_le m
    have hfl512 : elemFloor m + 64 ≤ 512 := by unfold elemFloor; omega
    have hEB : ELEM_BITS = 64 := rfl
    simp only [PRangeIter.nextLoop]
    by_cases hee : e = elemFloor m + ELEM_BITS - 1
    · rw [if_pos hee]
      cases hc : PRangeIter.nextRangeInElement ⟨p, e + 1⟩ with
      | none =>
        refine ⟨e, ⟨hns, hse, by omega, hclr, hset, ?_⟩, rfl⟩
        intro h512
        exact nre_none hp h512 hc (e + 1) (Nat.le_refl _) (by have := elemFloor_le (e + 1); omega)
      | some cont =>
        obtain ⟨cs, ce⟩ := cont
        have h512 : e + 1 < 512 := by
          apply Nat.lt_of_not_le
          intro hge
          rw [nre_ge p hge] at hc
          cases hc
        obtain ⟨c1, c2, c3, c4, c5, c6⟩ := nre_some hp h512 hc
        simp only
        by_cases hcs : cs = elemFloor m + ELEM_BITS - 1 + 1
        · rw [if_pos hcs]
          have hm' : (e + 1) / 64 = m / 64 + 1 := by unfold elemFloor at *; omega
          obtain ⟨e', hfr, heq⟩ := ih (e + 1) ce (by omega) h512 hns (by omega) (by
              have := elemFloor_le (e + 1); omega) c3 hclr (by
              intro i hi1 hi2
              by_cases hie : i ≤ e
              · exact hset i hi1 hie
              · exact c5 i (by omega) hi2) c6
          exact ⟨e', hfr, heq⟩
        · rw [if_neg hcs]
          refine ⟨e, ⟨hns, hse, by omega, hclr, hset, ?_⟩, rfl⟩
          intro _
          exact c4 (e + 1) (Nat.le_refl _) (by omega)
    · rw [if_neg hee]
      exact ⟨e, ⟨hns, hse, by omega, hclr, hset, fun _ => hstop (by omega)⟩, rfl⟩

theorem pnextLoop_none {p : CPage} (hp : CPageOk p) (n : Nat) :
    ∀ (fuel m : Nat), 9 ≤ fuel + m / 64 → 1 ≤ fuel → n ≤ elemFloor m + 64 →
      (∀ i, n ≤ i → i < elemFloor m + 64 → i < 512 → pbit p i = false) →
      ((PRangeIter.nextLoop fuel none ⟨p, m⟩).1 = none ∧
          (PRangeIter.nextLoop fuel none ⟨p, m⟩).2.page = p ∧
          512 ≤ (PRangeIter.nextLoop fuel none ⟨p, m⟩).2.nvtc ∧
          ∀ i, n ≤ i → i < 512 → pbit p i = false) ∨
        ∃ s e, FirstRun (pbit p) n s e ∧
          PRangeIter.nextLoop fuel none ⟨p, m⟩ = (some (s, e), ⟨p, e + 1⟩) := by
  intro fuel
  induction fuel with
  | zero => intro m h1 h2; omega
  | succ f ih =>
    intro m hf _ hnm hclr
    have hEB : ELEM_BITS = 64 := rfl
    have hPB : PAGE_BITS = 512 := rfl
    simp only [PRangeIter.nextLoop]
    have e1 : elemFloor m + ELEM_BITS - 1 + 1 = elemFloor m + 64 := by omega
    rw [e1]
    by_cases hlt' : elemFloor m + 64 < PAGE_BITS
    · rw [if_pos hlt']
      have hlt : elemFloor m + 64 < 512 := by omega
      have hm' : (elemFloor m + 64) / 64 = m / 64 + 1 := by unfold elemFloor; omega
      have hfl' : elemFloor (elemFloor m + 64) = elemFloor m + 64 := by unfold elemFloor; omega
      cases hc : PRangeIter.nextRangeInElement ⟨p, elemFloor m + 64⟩ with
      | none =>
        have hn := nre_none hp hlt hc
        refine ih (elemFloor m + 64) (by omega) (by omega) (by omega) ?_
        intro i h1 h2 h3
        by_cases hi : i < elemFloor m + 64
        · exact hclr i h1 hi h3
        · exact hn i (by omega) h2
      | some cont =>
        obtain ⟨cs, ce⟩ := cont
        obtain ⟨c1, c2, c3, c4, c5, c6⟩ := nre_some hp hlt hc
        right
        obtain ⟨e', hfr, heq⟩ := pnextLoop_some hp n cs f (elemFloor m + 64) ce (by omega) hlt
          (by omega) c2 (by omega) c3 (by
            intro i h1 h2
            by_cases hi : i < elemFloor m + 64
            · exact hclr i h1 hi (by omega)
            · exact c4 i (by omega) h2) c5 c6
        exact ⟨cs, e', hfr, heq⟩
    · rw [if_neg hlt']
      have hlt : ¬ elemFloor m + 64 < 512 := by omega
      left
      refine ⟨rfl, rfl, by simp only; omega, ?_⟩
      intro i h1 h2
      exact hclr i h1 (by omega) h2

/-- `RangeIter::next` from position `n`: either there is no set bit at or after `n` and the
result is `None`, or the result is the first maximal run at or after `n` and the iterator moves
just past it. -/
theorem pnext_spec {p : CPage} (hp : CPageOk p) (n : Nat) :
    ((PRangeIter.next ⟨p, n⟩).1 = none ∧ (PRangeIter.next ⟨p, n⟩).2.page = p ∧
        512 ≤ (PRangeIter.next ⟨p, n⟩).2.nvtc ∧ ∀ i, n ≤ i → i < 512 → pbit p i = false) ∨
      ∃ s e, FirstRun (pbit p) n s e ∧ PRangeIter.next ⟨p, n⟩ = (some (s, e), ⟨p, e + 1⟩) := by
  unfold PRangeIter.next
  have hfl := elemFloor_le n
  by_cases hn : n < 512
  · cases hc : PRangeIter.nextRangeInElement ⟨p, n⟩ with
    | none =>
      exact pnextLoop_none hp n 9 n (by omega) (by omega) (by omega)
        (fun i h1 h2 _ => nre_none hp hn hc i h1 h2)
    | some r =>
      obtain ⟨s, e⟩ := r
      obtain ⟨c1, c2, c3, c4, c5, c6⟩ := nre_some hp hn hc
      right
      obtain ⟨e', hfr, heq⟩ := pnextLoop_some hp n s 9 n e (by omega) hn c1 c2 (by omega) c3 c4 c5 c6
      exact ⟨s, e', hfr, heq⟩
  · rw [nre_ge p (by omega)]
    exact pnextLoop_none hp n 9 n (by omega) (by omega) (by omega)
      (fun i h1 _ h3 => by omega)

theorem pnext_none {it it' : PRangeIter} (hp : CPageOk it.page) (h : it.next = (none, it')) :
    remP it = [] ∧ remP it' = [] ∧ it'.page = it.page := by
  obtain ⟨p, n⟩ := it
  rcases pnext_spec hp n with ⟨h1, h2, h3, h4⟩ | ⟨s, e, _, heq⟩
  · rw [h] at h2 h3
    simp only at h2 h3
    refine ⟨remP_nil h4, ?_, h2⟩
    obtain ⟨p', n'⟩ := it'
    simp only at h2 h3
    subst h2
    exact remP_nil (fun i hi1 hi2 => by omega)
  · rw [h] at heq
    simp at heq

theorem pnext_some {it it' : PRangeIter} {s e : Nat} (hp : CPageOk it.page)
    (h : it.next = (some (s, e), it')) :
    s ≤ e ∧ e < 512 ∧ it' = ⟨it.page, e + 1⟩ ∧ remP it = runList s e ++ remP it' ∧
      ∀ x ∈ remP it', e + 1 < x := by
  obtain ⟨p, n⟩ := it
  rcases pnext_spec hp n with ⟨h1, _⟩ | ⟨s', e', hfr, heq⟩
  · rw [h] at h1
    simp at h1
  · rw [h] at heq
    simp only [Prod.mk.injEq, Option.some.injEq] at heq
    obtain ⟨⟨rfl, rfl⟩, rfl⟩ := heq
    obtain ⟨r1, r2⟩ := remP_firstRun hfr
    exact ⟨hfr.se, hfr.elt, rfl, r1, r2⟩

theorem pcollect_spec : ∀ (fuel : Nat) (it : PRangeIter), CPageOk it.page →
    (remP it).length < fuel → PRangeIter.collect fuel it = runsOfList (remP it) := by
  intro fuel
  induction fuel with
  | zero => intro it _ h; omega
  | succ f ih =>
    intro it hp hlen
    unfold PRangeIter.collect
    cases hn : it.next with
    | mk o it' =>
      cases o with
      | none =>
        simp only
        rw [(pnext_none hp hn).1]; rfl
      | some r =>
        obtain ⟨s, e⟩ := r
        obtain ⟨h1, h2, h3, h4, h5⟩ := pnext_some hp hn
        simp only
        have hl : (remP it).length = (e + 1 - s) + (remP it').length := by
          rw [h4, List.length_append, runList_length h1]
        rw [ih it' (by rw [h3]; exact hp) (by omega), h4, runsOfList_runList_append h1 _ h5]

/-- (A) the page `RangeIter`, run to exhaustion, yields exactly the maximal runs of the members
of the page, ascending, merged across element boundaries. -/
theorem page_range_iter_yields_runs' (p : CPage) (hp : CPageOk p) :
    p.ranges = runsOfList (pageMembers p.abs.bits) := by
  unfold CPage.ranges CPage.iterRanges
  rw [pcollect_spec _ _ hp, remP_zero]
  rw [remP_zero]
  have := popCount_le p.abs.bits
  unfold popCount at this
  simp only [PAGE_BITS]
  omega

/-- any fuel above the page size gives the same result -/
theorem pcollect_fuel (p : CPage) (hp : CPageOk p) (fuel : Nat) (h : 513 ≤ fuel) :
    PRangeIter.collect fuel p.iterRanges = runsOfList (pageMembers p.abs.bits) := by
  unfold CPage.iterRanges
  rw [pcollect_spec _ _ hp, remP_zero]
  rw [remP_zero]
  have := popCount_le p.abs.bits
  unfold popCount at this
  omega

/-! ### (B) the view of a concrete set and the remaining members of a `BitSetRangeIter` -/

/-- `membersAll` of a `(major, page)` list -/
def viewMembers (V : List (Nat × CPage)) : List Nat :=
  V.flatMap (fun kp => (pageMembers kp.2.abs.bits).map (· + majorStart kp.1))

theorem abs_membersAll (s : CBitSet) :
    s.abs.membersAll = viewMembers (cview s.pageMap s.pages) := by
  unfold BitSet.membersAll CBitSet.abs viewMembers
  simp only [List.flatMap_map]

theorem viewMembers_drop {V : List (Nat × CPage)} {i : Nat} {kp : Nat × CPage} (h : V[i]? = some kp) :
    viewMembers (V.drop i) =
      (pageMembers kp.2.abs.bits).map (· + majorStart kp.1) ++ viewMembers (V.drop (i + 1)) := by
  obtain ⟨hi, rfl⟩ := List.getElem?_eq_some_iff.1 h
  rw [List.drop_eq_getElem_cons hi]
  simp only [viewMembers, List.flatMap_cons]

theorem viewMembers_drop_nil {V : List (Nat × CPage)} {i : Nat} (h : V.length ≤ i) :
    viewMembers (V.drop i) = [] := by
  rw [List.drop_eq_nil_of_le h]; rfl

theorem mem_viewMembers_drop {V : List (Nat × CPage)} {j x : Nat} (h : x ∈ viewMembers (V.drop j)) :
    ∃ j' kp y, j ≤ j' ∧ V[j']? = some kp ∧ y < 512 ∧ x = y + majorStart kp.1 := by
  unfold viewMembers at h
  simp only [List.mem_flatMap, List.mem_map] at h
  obtain ⟨kp, hkp, y, hy, rfl⟩ := h
  obtain ⟨n, hn⟩ := List.getElem?_of_mem hkp
  rw [List.getElem?_drop] at hn
  exact ⟨j + n, kp, y, by omega, hn, (mem_pageMembers.1 hy).1, rfl⟩

/-- the view is sorted by major -/
def VSorted (V : List (Nat × CPage)) : Prop := (V.map (·.1)).Pairwise (· < ·)

theorem vsorted_lt {V : List (Nat × CPage)} (hs : VSorted V) {i j : Nat} {a b : Nat × CPage}
    (hij : i < j) (ha : V[i]? = some a) (hb : V[j]? = some b) : a.1 < b.1 := by
  unfold VSorted at hs
  rw [List.pairwise_iff_getElem] at hs
  obtain ⟨hi, rfl⟩ := List.getElem?_eq_some_iff.1 ha
  obtain ⟨hj, rfl⟩ := List.getElem?_eq_some_iff.1 hb
  have := hs i j (by simpa using hi) (by simpa using hj) hij
  simpa using this

/-- members of later map entries lie above the end of the page of entry `i` -/
theorem view_drop_ge {V : List (Nat × CPage)} (hs : VSorted V) {i : Nat} {kp : Nat × CPage}
    (h : V[i]? = some kp) : ∀ x ∈ viewMembers (V.drop (i + 1)), majorStart kp.1 + 512 ≤ x := by
  intro x hx
  obtain ⟨j', kp', y, h1, h2, h3, rfl⟩ := mem_viewMembers_drop hx
  have := vsorted_lt hs (show i < j' by omega) h h2
  unfold majorStart
  omega

section SetLevel
variable {s : CBitSet}

theorem view_getElem? (s : CBitSet) (i : Nat) :
    (cview s.pageMap s.pages)[i]? =
      (s.pageMap[i]?).map (fun e => (e.1, s.pages.getD e.2 CPage.zero)) := by
  unfold cview
  rw [List.getElem?_map]

theorem view_sorted (hs : CInv s) : VSorted (cview s.pageMap s.pages) := by
  unfold VSorted cview
  rw [List.map_map]
  exact hs.sorted

theorem view_ok (hs : CInv s) {i : Nat} {kp : Nat × CPage}
    (h : (cview s.pageMap s.pages)[i]? = some kp) : CPageOk kp.2 := by
  rw [view_getElem?] at h
  cases hpm : s.pageMap[i]? with
  | none => rw [hpm] at h; cases h
  | some e =>
    rw [hpm] at h
    simp only [Option.map_some, Option.some.injEq] at h
    subst h
    have hlt := hs.idxLt e (List.mem_of_getElem? hpm)
    apply hs.pagesOk
    rw [List.getD_eq_getElem?_getD, List.getElem?_eq_getElem hlt]
    exact List.getElem_mem hlt

theorem pageIterAt_eq (hs : CInv s) (i : Nat) :
    SRangeIter.pageIterAt s i =
      ((cview s.pageMap s.pages)[i]?).map (fun kp => (⟨kp.2, 0⟩ : PRangeIter)) := by
  unfold SRangeIter.pageIterAt
  rw [view_getElem?]
  cases hpm : s.pageMap[i]? with
  | none => rfl
  | some e =>
    have hlt := hs.idxLt e (List.mem_of_getElem? hpm)
    simp only [Option.bind_some, Option.map_some, Option.map_map]
    rw [List.getElem?_eq_getElem hlt, List.getD_eq_getElem?_getD, List.getElem?_eq_getElem hlt]
    rfl

theorem pm_of_view {i : Nat} {kp : Nat × CPage} (h : (cview s.pageMap s.pages)[i]? = some kp) :
    ∃ e, s.pageMap[i]? = some e ∧ e.1 = kp.1 := by
  rw [view_getElem?] at h
  cases hpm : s.pageMap[i]? with
  | none => rw [hpm] at h; cases h
  | some e =>
    rw [hpm] at h
    simp only [Option.map_some, Option.some.injEq] at h
    exact ⟨e, rfl, by rw [← h]⟩

theorem pm_none_of_view {i : Nat} (h : (cview s.pageMap s.pages)[i]? = none) :
    s.pageMap[i]? = none := by
  rw [view_getElem?] at h
  simpa using h

/-- the members a `BitSetRangeIter` has not passed yet: the rest of the current page (shifted by
its `major_start`) followed by all members of the later map entries -/
def remS (it : SRangeIter) : List Nat :=
  (match it.pageIter, (cview it.set.pageMap it.set.pages)[it.pageInfoIndex]? with
    | some pit, some kp => (remP pit).map (· + majorStart kp.1)
    | _, _ => []) ++
  viewMembers ((cview it.set.pageMap it.set.pages).drop (it.pageInfoIndex + 1))

/-- the iterator invariant: `page_iter` is `Some` exactly while `page_info_index` is in the
map, and then it iterates the page of that map entry -/
def SInv (s : CBitSet) (it : SRangeIter) : Prop :=
  it.set = s ∧
    match it.pageIter with
    | some pit => ∃ kp, (cview s.pageMap s.pages)[it.pageInfoIndex]? = some kp ∧ pit.page = kp.2
    | none => (cview s.pageMap s.pages).length ≤ it.pageInfoIndex

theorem remS_some {i : Nat} {pit : PRangeIter} {kp : Nat × CPage}
    (h : (cview s.pageMap s.pages)[i]? = some kp) :
    remS ⟨s, i, some pit⟩ = (remP pit).map (· + majorStart kp.1) ++
      viewMembers ((cview s.pageMap s.pages).drop (i + 1)) := by
  unfold remS
  simp only [h]

theorem remS_none (i : Nat) :
    remS ⟨s, i, none⟩ = viewMembers ((cview s.pageMap s.pages).drop (i + 1)) := by
  unfold remS
  simp

theorem remS_fresh {i : Nat} {kp : Nat × CPage} (h : (cview s.pageMap s.pages)[i]? = some kp) :
    remS ⟨s, i, some ⟨kp.2, 0⟩⟩ = viewMembers ((cview s.pageMap s.pages).drop i) := by
  rw [remS_some h, remP_zero, viewMembers_drop h]

theorem mem_remP_shift_le {pit : PRangeIter} {k x : Nat} (h : x ∈ (remP pit).map (· + majorStart k)) :
    majorStart k ≤ x ∧ x ≤ majorStart k + 511 := by
  simp only [List.mem_map] at h
  obtain ⟨y, hy, rfl⟩ := h
  have := (mem_remP.1 hy).1
  omega

theorem runList_shift (a b c : Nat) : (runList a b).map (· + c) = runList (a + c) (b + c) := by
  unfold runList
  rw [List.range'_eq_map_range, List.range'_eq_map_range, List.map_map]
  have : b + c + 1 - (a + c) = b + 1 - a := by omega
  rw [this]
  apply List.map_congr_left
  intro x _
  simp only [Function.comp]
  omega

theorem move_eq (hs : CInv s) (i : Nat) (o : Option PRangeIter) :
    SRangeIter.moveToNextPage ⟨s, i, o⟩ =
      (((cview s.pageMap s.pages)[i + 1]?).isSome,
        ⟨s, i + 1, ((cview s.pageMap s.pages)[i + 1]?).map (fun kp => (⟨kp.2, 0⟩ : PRangeIter))⟩) := by
  unfold SRangeIter.moveToNextPage SRangeIter.resetPageIter
  simp only [pageIterAt_eq hs, Option.isSome_map]

theorem reset_eq (hs : CInv s) (i : Nat) (o : Option PRangeIter) :
    SRangeIter.resetPageIter ⟨s, i, o⟩ =
      ⟨s, i, ((cview s.pageMap s.pages)[i]?).map (fun kp => (⟨kp.2, 0⟩ : PRangeIter))⟩ := by
  unfold SRangeIter.resetPageIter
  simp only [pageIterAt_eq hs]

theorem nextRange_some {i : Nat} {pit : PRangeIter} {kp : Nat × CPage}
    (h : (cview s.pageMap s.pages)[i]? = some kp) :
    SRangeIter.nextRange ⟨s, i, some pit⟩ =
      ((pit.next).1.map (fun x => (x.1 + majorStart kp.1, x.2 + majorStart kp.1)),
        ⟨s, i, some (pit.next).2⟩) := by
  obtain ⟨e, he, hk⟩ := pm_of_view h
  unfold SRangeIter.nextRange
  simp only [he, hk]

theorem nextRange_out {i : Nat} {o : Option PRangeIter}
    (h : (cview s.pageMap s.pages)[i]? = none) :
    SRangeIter.nextRange ⟨s, i, o⟩ = (none, ⟨s, i, o⟩) := by
  unfold SRangeIter.nextRange
  simp only [pm_none_of_view h]

/-- the page iterator of entry `i` is exhausted -/
theorem step_none (hs : CInv s) {i : Nat} {pit pit' : PRangeIter} {kp : Nat × CPage}
    (hv : (cview s.pageMap s.pages)[i]? = some kp) (hp : pit.page = kp.2)
    (hn : pit.next = (none, pit')) :
    remS ⟨s, i, some pit⟩ = viewMembers ((cview s.pageMap s.pages).drop (i + 1)) ∧
      remS ⟨s, i, some pit'⟩ = viewMembers ((cview s.pageMap s.pages).drop (i + 1)) ∧
      pit'.page = kp.2 ∧ remP pit' = [] := by
  have hok : CPageOk pit.page := hp ▸ view_ok hs hv
  obtain ⟨h1, h2, h3⟩ := pnext_none hok hn
  rw [remS_some hv, remS_some hv, h1, h2]
  exact ⟨rfl, rfl, h3 ▸ hp, rfl⟩

/-- the page iterator of entry `i` yields a range -/
theorem step_some (hs : CInv s) {i : Nat} {pit pit' : PRangeIter} {kp : Nat × CPage} {cs ce : Nat}
    (hv : (cview s.pageMap s.pages)[i]? = some kp) (hp : pit.page = kp.2)
    (hn : pit.next = (some (cs, ce), pit')) :
    cs ≤ ce ∧ ce < 512 ∧ pit'.page = kp.2 ∧
      remS ⟨s, i, some pit⟩ =
        runList (cs + majorStart kp.1) (ce + majorStart kp.1) ++ remS ⟨s, i, some pit'⟩ ∧
      ∀ x ∈ (remP pit').map (· + majorStart kp.1), ce + majorStart kp.1 + 1 < x := by
  have hok : CPageOk pit.page := hp ▸ view_ok hs hv
  obtain ⟨h1, h2, h3, h4, h5⟩ := pnext_some hok hn
  refine ⟨h1, h2, by rw [h3]; exact hp, ?_, ?_⟩
  · rw [remS_some hv, remS_some hv, h4, List.map_append, runList_shift, List.append_assoc]
  · intro x hx
    simp only [List.mem_map] at hx
    obtain ⟨y, hy, rfl⟩ := hx
    have := h5 y hy
    omega

theorem page_part_nil {pit : PRangeIter} {k e : Nat} (he : e = majorStart k + 511)
    (h : ∀ x ∈ (remP pit).map (· + majorStart k), e + 1 < x) :
    (remP pit).map (· + majorStart k) = [] := by
  apply List.eq_nil_iff_forall_not_mem.2
  intro x hx
  have := h x hx
  have := mem_remP_shift_le hx
  omega

/-- the loop of `BitSetRangeIter::next` entered with `current_range = Some(s0..=e)` taken from
the page of map entry `i` -/
theorem snextLoop_some (hs : CInv s) (s0 : Nat) :
    ∀ (fuel i : Nat) (pit : PRangeIter) (kp : Nat × CPage) (e : Nat),
      (cview s.pageMap s.pages).length < fuel + i →
      (cview s.pageMap s.pages)[i]? = some kp → pit.page = kp.2 → s0 ≤ e →
      e ≤ majorStart kp.1 + 511 →
      (∀ x ∈ (remP pit).map (· + majorStart kp.1), e + 1 < x) →
      ∃ e' it', SRangeIter.nextLoop fuel (some (s0, e)) ⟨s, i, some pit⟩ = (some (s0, e'), it') ∧
        SInv s it' ∧ e ≤ e' ∧
        runList s0 e ++ remS ⟨s, i, some pit⟩ = runList s0 e' ++ remS it' ∧
        ∀ x ∈ remS it', e' + 1 < x := by
  intro fuel
  induction fuel with
  | zero =>
    intro i pit kp e hf hv
    have := (List.getElem?_eq_some_iff.1 hv).1
    omega
  | succ f ih =>
    intro i pit kp e hf hv hpage hse hle hgap
    have hPB : PAGE_BITS = 512 := rfl
    obtain ⟨pe, hpe, hk⟩ := pm_of_view hv
    simp only [SRangeIter.nextLoop, hpe, hk]
    by_cases hend : e = majorStart kp.1 + (PAGE_BITS - 1)
    · rw [if_neg (fun hne => hne hend)]
      have hend' : e = majorStart kp.1 + 511 := by omega
      have hnil := page_part_nil hend' hgap
      have hrem : remS ⟨s, i, some pit⟩ = viewMembers ((cview s.pageMap s.pages).drop (i + 1)) := by
        rw [remS_some hv, hnil]; rfl
      rw [move_eq hs]
      simp only
      cases hv1 : (cview s.pageMap s.pages)[i + 1]? with
      | none =>
        simp only [Option.map_none, nextRange_out hv1]
        have hlen : (cview s.pageMap s.pages).length ≤ i + 1 := List.getElem?_eq_none_iff.1 hv1
        refine ⟨e, _, rfl, ⟨rfl, hlen⟩, Nat.le_refl _, ?_, ?_⟩
        · rw [hrem, remS_none, viewMembers_drop_nil hlen, viewMembers_drop_nil (by omega)]
        · rw [remS_none, viewMembers_drop_nil (by omega)]
          intro x hx; cases hx
      | some kp1 =>
        simp only [Option.map_some, nextRange_some hv1]
        have hmaj := vsorted_lt (view_sorted hs) (show i < i + 1 by omega) hv hv1
        have hge2 := view_drop_ge (view_sorted hs) hv1
        cases hn : PRangeIter.next ⟨kp1.2, 0⟩ with
        | mk o pit1 =>
          cases o with
          | none =>
            obtain ⟨q1, q2, q3, q4⟩ := step_none hs hv1 rfl hn
            simp only [Option.map_none]
            refine ⟨e, _, rfl, ⟨rfl, kp1, hv1, q3⟩, Nat.le_refl _, ?_, ?_⟩
            · rw [hrem, q2, ← remS_fresh hv1, q1]
            · rw [q2]
              intro x hx
              have := hge2 x hx
              unfold majorStart at *
              omega
          | some c =>
            obtain ⟨cs, ce⟩ := c
            obtain ⟨q1, q2, q3, q4, q5⟩ := step_some hs hv1 rfl hn
            simp only [Option.map_some]
            by_cases hadj : cs + majorStart kp1.1 = e + 1
            · rw [if_pos hadj]
              obtain ⟨e', it', r1, r2, r3, r4, r5⟩ := ih (i + 1) pit1 kp1 (ce + majorStart kp1.1)
                (by omega) hv1 q3 (by omega) (by omega) q5
              refine ⟨e', it', r1, r2, by omega, ?_, r5⟩
              rw [← r4, hrem, ← remS_fresh hv1, q4, ← List.append_assoc, hadj,
                runList_append hse (by omega)]
            · rw [if_neg hadj, reset_eq hs]
              simp only [hv1, Option.map_some]
              refine ⟨e, _, rfl, ⟨rfl, kp1, hv1, rfl⟩, Nat.le_refl _, ?_, ?_⟩
              · rw [hrem, remS_fresh hv1]
              · rw [q4]
                intro x hx
                rw [List.mem_append, mem_runList, remS_some hv1, List.mem_append] at hx
                unfold majorStart at *
                rcases hx with hx | hx | hx
                · omega
                · have := q5 x hx; omega
                · have := hge2 x hx; omega
    · rw [if_pos hend]
      refine ⟨e, _, rfl, ⟨rfl, kp, hv, hpage⟩, Nat.le_refl _, rfl, ?_⟩
      intro x hx
      rw [remS_some hv, List.mem_append] at hx
      rcases hx with hx | hx
      · exact hgap x hx
      · have := view_drop_ge (view_sorted hs) hv x hx
        omega

/-- the loop of `BitSetRangeIter::next` entered with `current_range = None` (the page of map
entry `i` is exhausted) -/
theorem snextLoop_none (hs : CInv s) :
    ∀ (fuel i : Nat) (pit : PRangeIter) (kp : Nat × CPage),
      (cview s.pageMap s.pages).length < fuel + i →
      (cview s.pageMap s.pages)[i]? = some kp →
      ((SRangeIter.nextLoop fuel none ⟨s, i, some pit⟩).1 = none ∧
          viewMembers ((cview s.pageMap s.pages).drop (i + 1)) = []) ∨
        ∃ s0 e it', SRangeIter.nextLoop fuel none ⟨s, i, some pit⟩ = (some (s0, e), it') ∧
          SInv s it' ∧ s0 ≤ e ∧
          viewMembers ((cview s.pageMap s.pages).drop (i + 1)) = runList s0 e ++ remS it' ∧
          ∀ x ∈ remS it', e + 1 < x := by
  intro fuel
  induction fuel with
  | zero =>
    intro i pit kp hf hv
    have := (List.getElem?_eq_some_iff.1 hv).1
    omega
  | succ f ih =>
    intro i pit kp hf hv
    obtain ⟨pe, hpe, hk⟩ := pm_of_view hv
    simp only [SRangeIter.nextLoop, hpe]
    rw [move_eq hs]
    simp only
    cases hv1 : (cview s.pageMap s.pages)[i + 1]? with
    | none =>
      have hlen : (cview s.pageMap s.pages).length ≤ i + 1 := List.getElem?_eq_none_iff.1 hv1
      left
      simp only [Option.isSome_none, Bool.not_false, if_true]
      exact ⟨trivial, viewMembers_drop_nil hlen⟩
    | some kp1 =>
      simp only [Option.isSome_some, Bool.not_true, Bool.false_eq_true, if_false, Option.map_some,
        nextRange_some hv1]
      cases hn : PRangeIter.next ⟨kp1.2, 0⟩ with
      | mk o pit1 =>
        cases o with
        | none =>
          obtain ⟨q1, q2, q3, q4⟩ := step_none hs hv1 rfl hn
          simp only [Option.map_none]
          have hsame : viewMembers ((cview s.pageMap s.pages).drop (i + 1)) =
              viewMembers ((cview s.pageMap s.pages).drop (i + 1 + 1)) := by
            rw [← remS_fresh hv1, q1]
          rw [hsame]
          exact ih (i + 1) pit1 kp1 (by omega) hv1
        | some c =>
          obtain ⟨cs, ce⟩ := c
          obtain ⟨q1, q2, q3, q4, q5⟩ := step_some hs hv1 rfl hn
          simp only [Option.map_some]
          right
          obtain ⟨e', it', r1, r2, r3, r4, r5⟩ := snextLoop_some hs (cs + majorStart kp1.1) f (i + 1)
            pit1 kp1 (ce + majorStart kp1.1) (by omega) hv1 q3 (by omega) (by omega) q5
          refine ⟨cs + majorStart kp1.1, e', it', r1, r2, by omega, ?_, r5⟩
          rw [← remS_fresh hv1, q4, r4]

/-- `BitSetRangeIter::next`: `None` exactly when no member is left, otherwise the first maximal
run of the remaining members, leaving exactly the members above it. -/
theorem snext_spec (hs : CInv s) {it : SRangeIter} (hi : SInv s it) :
    ((it.next).1 = none ∧ remS it = []) ∨
      ∃ s0 e it', it.next = (some (s0, e), it') ∧ SInv s it' ∧ s0 ≤ e ∧
        remS it = runList s0 e ++ remS it' ∧ ∀ x ∈ remS it', e + 1 < x := by
  obtain ⟨st, i, o⟩ := it
  obtain ⟨hset, hinv⟩ := hi
  simp only at hset hinv
  subst hset
  cases o with
  | none =>
    left
    simp only at hinv
    exact ⟨rfl, by rw [remS_none, viewMembers_drop_nil (by omega)]⟩
  | some pit =>
    simp only at hinv
    obtain ⟨kp, hv, hp⟩ := hinv
    have hlen : st.pageMap.length = (cview st.pageMap st.pages).length := by simp [cview]
    simp only [SRangeIter.next, nextRange_some hv, hlen]
    cases hn : pit.next with
    | mk o pit1 =>
      cases o with
      | none =>
        obtain ⟨q1, q2, q3, q4⟩ := step_none hs hv hp hn
        simp only [Option.map_none]
        rw [q1]
        exact snextLoop_none hs _ i pit1 kp (by omega) hv
      | some c =>
        obtain ⟨cs, ce⟩ := c
        obtain ⟨q1, q2, q3, q4, q5⟩ := step_some hs hv hp hn
        simp only [Option.map_some]
        right
        obtain ⟨e', it', r1, r2, r3, r4, r5⟩ := snextLoop_some hs (cs + majorStart kp.1)
          ((cview st.pageMap st.pages).length + 1) i
          pit1 kp (ce + majorStart kp.1) (by omega) hv q3 (by omega) (by omega) q5
        refine ⟨cs + majorStart kp.1, e', it', r1, r2, by omega, ?_, r5⟩
        rw [q4, r4]

theorem scollect_spec (hs : CInv s) : ∀ (fuel : Nat) (it : SRangeIter), SInv s it →
    (remS it).length < fuel → SRangeIter.collect fuel it = runsOfList (remS it) := by
  intro fuel
  induction fuel with
  | zero => intro it _ h; omega
  | succ f ih =>
    intro it hi hlen
    unfold SRangeIter.collect
    rcases snext_spec hs hi with ⟨h1, h2⟩ | ⟨s0, e, it', h1, h2, h3, h4, h5⟩
    · cases hn : it.next with
      | mk o it' =>
        rw [hn] at h1
        simp only at h1
        subst h1
        simp only
        rw [h2]; rfl
    · rw [h1]
      simp only
      have hl : (remS it).length = (e + 1 - s0) + (remS it').length := by
        rw [h4, List.length_append, runList_length h3]
      rw [ih it' h2 (by omega), h4, runsOfList_runList_append h3 _ h5]

theorem sinv_new (hs : CInv s) : SInv s (SRangeIter.new s) := by
  unfold SRangeIter.new
  rw [pageIterAt_eq hs]
  refine ⟨rfl, ?_⟩
  cases hv : (cview s.pageMap s.pages)[0]? with
  | none => simpa using hv
  | some kp => exact ⟨kp, rfl, rfl⟩

theorem remS_new (hs : CInv s) : remS (SRangeIter.new s) = viewMembers (cview s.pageMap s.pages) := by
  unfold SRangeIter.new
  rw [pageIterAt_eq hs]
  cases hv : (cview s.pageMap s.pages)[0]? with
  | none =>
    have hlen : (cview s.pageMap s.pages).length ≤ 0 := List.getElem?_eq_none_iff.1 hv
    simp only [Option.map_none]
    rw [remS_none, viewMembers_drop_nil (by omega)]
    have : cview s.pageMap s.pages = [] := List.eq_nil_of_length_eq_zero (by omega)
    rw [this]; rfl
  | some kp =>
    simp only [Option.map_some]
    rw [remS_fresh hv]; rfl

theorem viewMembers_length_le (V : List (Nat × CPage)) : (viewMembers V).length ≤ 512 * V.length := by
  induction V with
  | nil => simp [viewMembers]
  | cons kp V ih =>
    have h1 : viewMembers (kp :: V) =
        (pageMembers kp.2.abs.bits).map (· + majorStart kp.1) ++ viewMembers V := by
      simp [viewMembers]
    have := popCount_le kp.2.abs.bits
    unfold popCount at this
    rw [h1, List.length_append, List.length_map, List.length_cons]
    omega

/-- (B) `BitSetRangeIter`, run to exhaustion, yields exactly the abstract ranges of the set. -/
theorem range_iter_yields_abstract_ranges' (s : CBitSet) (hs : CInv s) :
    s.iterRanges = s.abs.ranges := by
  unfold CBitSet.iterRanges BitSet.ranges
  rw [abs_membersAll, scollect_spec hs _ _ (sinv_new hs), remS_new hs]
  rw [remS_new hs]
  have := viewMembers_length_le (cview s.pageMap s.pages)
  have hlen : s.pageMap.length = (cview s.pageMap s.pages).length := by simp [cview]
  simp only [PAGE_BITS, hlen]
  omega

end SetLevel

/-- any fuel above the number of mapped bits gives the same result -/
theorem scollect_fuel (s : CBitSet) (hs : CInv s) (fuel : Nat) (h : 512 * s.pageMap.length + 1 ≤ fuel) :
    SRangeIter.collect fuel (SRangeIter.new s) = s.abs.ranges := by
  unfold BitSet.ranges
  rw [abs_membersAll, scollect_spec hs _ _ (sinv_new hs), remS_new hs]
  rw [remS_new hs]
  have := viewMembers_length_le (cview s.pageMap s.pages)
  have hlen : s.pageMap.length = (cview s.pageMap s.pages).length := by simp [cview]
  omega

/-! ### (C) `BitPage::iter` / `BitSet::iter` -/

private theorem ic_getD_lt {es : List Nat} (h : ∀ e ∈ es, e < 2 ^ 64) (i : Nat) : es.getD i 0 < 2 ^ 64 := by
  rw [List.getD_eq_getElem?_getD]
  cases hi : es[i]? with
  | none => exact Nat.two_pow_pos 64
  | some x => exact h x (List.mem_of_getElem? hi)

private theorem ic_pack_elem (es : List Nat) (h : ∀ e ∈ es, e < 2 ^ 64) (i : Nat) :
    pack es / 2 ^ (i * 64) % 2 ^ 64 = es.getD i 0 := by
  apply Nat.eq_of_testBit_eq
  intro j
  rw [Nat.testBit_mod_two_pow, Nat.testBit_div_two_pow, ic_testBit_pack es h]
  by_cases hj : j < 64
  · have h0 : (j + i * 64) / 64 = i := by omega
    have h1 : (j + i * 64) % 64 = j := by omega
    simp [hj, h0, h1]
  · have : (es.getD i 0).testBit j = false :=
      Nat.testBit_lt_two_pow (Nat.lt_of_lt_of_le (ic_getD_lt h i) (Nat.pow_le_pow_right (by omega) (by omega)))
    rw [this]; simp [hj]

theorem pageMembers_blocks {p : CPage} (hp : CPageOk p) :
    pageMembers p.abs.bits =
      (List.range 8).flatMap (fun i => elemMembers (i * 64) (p.elems.getD i 0)) := by
  unfold pageMembers
  congr 1
  funext e
  rw [show p.abs.bits = pack p.elems from rfl, ic_pack_elem _ hp.2.1]

/-- one element: the items of `Iter::from(a, f)` placed at block `B` -/
theorem elemIter_block (a f B : Nat) :
    (elemIterFrom a f).map (fun idx => B * 64 + idx) =
      (elemMembers (B * 64) a).filter (fun x => decide (f ≤ x - B * 64)) := by
  rw [elemMembers_eq, List.filter_map, List.filter_filter]
  unfold elemIterFrom
  have hq : ∀ i, (decide (f ≤ i) && a.testBit i) =
      (((fun x => decide (f ≤ x - B * 64)) ∘ fun x => x + B * 64) i && a.testBit i) := by
    intro i
    simp only [Function.comp]
    rw [show i + B * 64 - B * 64 = i by omega]
  rw [List.filter_congr (fun i _ => hq i)]
  apply List.map_congr_left
  intro i _
  omega

/-- the `enumerate().filter(elem != 0).flat_map(..)` skeleton of `BitPage::iter` / `iter_after`
over a suffix of the storage: block by block, zero elements contribute nothing either way -/
theorem elemScan (fr : Nat → Nat) (k : Nat) : ∀ (es : List Nat) (n : Nat),
    ((es.zipIdx n).filter (fun ei => ei.1 != 0)).flatMap
        (fun ei => (elemIterFrom ei.1 (fr (ei.2 + k))).map (fun idx => (ei.2 + k) * 64 + idx)) =
      (List.range es.length).flatMap (fun j =>
        (elemMembers ((n + j + k) * 64) (es.getD j 0)).filter
          (fun x => decide (fr (n + j + k) ≤ x - (n + j + k) * 64))) := by
  intro es
  induction es with
  | nil => intro n; rfl
  | cons a es ih =>
    intro n
    rw [List.zipIdx_cons, List.length_cons, List.range_succ_eq_map, List.flatMap_cons,
      List.flatMap_map]
    have htail : (List.range es.length).flatMap (fun j =>
          (elemMembers ((n + j.succ + k) * 64) ((a :: es).getD j.succ 0)).filter
            (fun x => decide (fr (n + j.succ + k) ≤ x - (n + j.succ + k) * 64))) =
        (List.range es.length).flatMap (fun j =>
          (elemMembers ((n + 1 + j + k) * 64) (es.getD j 0)).filter
            (fun x => decide (fr (n + 1 + j + k) ≤ x - (n + 1 + j + k) * 64))) := by
      congr 1
      funext j
      simp only [List.getD_cons_succ]
      have : n + j.succ + k = n + 1 + j + k := by omega
      rw [this]
    rw [htail, ← ih (n + 1)]
    simp only [List.getD_cons_zero, Nat.add_zero]
    by_cases ha : a = 0
    · subst ha
      have : elemMembers ((n + k) * 64) 0 = [] := by simp [elemMembers]
      rw [this]
      simp [List.filter_cons]
    · have hne : ((a, n).1 != 0) = true := by simpa using ha
      rw [List.filter_cons, if_pos hne, List.flatMap_cons, elemIter_block]

/-- `BitPage::iter` yields the members of the page, ascending -/
theorem iterL_eq {p : CPage} (hp : CPageOk p) : p.iterL = pageMembers p.abs.bits := by
  rw [pageMembers_blocks hp]
  have h := elemScan (fun _ => 0) 0 p.elems 0
  rw [hp.1] at h
  have e : ∀ l : List Nat, l.filter (fun _ => true) = l :=
    fun l => List.filter_eq_self.2 (fun _ _ => rfl)
  simp only [Nat.zero_le, decide_true, Nat.zero_add, Nat.add_zero, e] at h
  exact h

private theorem filterMap_eq_map_of {α β : Type} {f : α → Option β} {g : α → β} {l : List α}
    (h : ∀ x ∈ l, f x = some (g x)) : l.filterMap f = l.map g := by
  induction l with
  | nil => rfl
  | cons a l ih =>
    rw [List.filterMap_cons, h a List.mem_cons_self, List.map_cons,
      ih (fun x hx => h x (List.mem_cons_of_mem _ hx))]

theorem iterPages_eq {s : CBitSet} (hs : CInv s) : s.iterPages = cview s.pageMap s.pages := by
  unfold CBitSet.iterPages cview
  apply filterMap_eq_map_of
  intro e he
  have hlt := hs.idxLt e he
  simp [List.getElem?_eq_getElem hlt, List.getD_eq_getElem?_getD]

/-- `iter_non_empty_pages().flat_map(page.iter() + major_start)` over a `(major, page)` list -/
def viewIter (V : List (Nat × CPage)) : List Nat :=
  (V.filter (fun mp => !mp.2.isEmpty)).flatMap (fun mp => mp.2.iterL.map (fun v => majorStart mp.1 + v))

/-- `BitSet.members` of the abstraction of a `(major, page)` list -/
def viewMembersNE (V : List (Nat × CPage)) : List Nat :=
  (V.map (fun kp => (kp.1, kp.2.abs))).flatMap (fun kp =>
    if kp.2.len = 0 then [] else (pageMembers kp.2.bits).map (· + majorStart kp.1))

theorem viewIter_eq (V : List (Nat × CPage)) (hok : ∀ kp ∈ V, CPageOk kp.2) :
    viewIter V = viewMembersNE V := by
  induction V with
  | nil => rfl
  | cons kp V ih =>
    have ih' := ih (fun q hq => hok q (List.mem_cons_of_mem _ hq))
    unfold viewIter viewMembersNE at *
    rw [List.filter_cons, List.map_cons, List.flatMap_cons, ← ih']
    by_cases hl : kp.2.len = 0
    · have : (!kp.2.isEmpty) = false := by simp [CPage.isEmpty, hl]
      simp only [this, CPage.abs, hl, if_true, List.nil_append]
      rfl
    · have : (!kp.2.isEmpty) = true := by simp [CPage.isEmpty, hl]
      rw [if_pos this, List.flatMap_cons]
      congr 1
      simp only [CPage.abs, hl, if_false]
      rw [iterL_eq (hok kp List.mem_cons_self)]
      apply List.map_congr_left
      intro x _
      omega

theorem abs_members (s : CBitSet) : s.abs.members = viewMembersNE (cview s.pageMap s.pages) := rfl

theorem view_all_ok {s : CBitSet} (hs : CInv s) : ∀ kp ∈ cview s.pageMap s.pages, CPageOk kp.2 := by
  intro kp hkp
  obtain ⟨i, hi⟩ := List.getElem?_of_mem hkp
  exact view_ok hs hi

/-- (C) `BitSet::iter`, front to back, yields the abstract members -/
theorem iter_eq_members {s : CBitSet} (hs : CInv s) : s.iter = s.abs.members := by
  rw [abs_members, ← viewIter_eq _ (view_all_ok hs)]
  unfold CBitSet.iter CBitSet.iterNonEmptyPages viewIter
  rw [iterPages_eq hs]

/-! ### the double-ended deque -/

theorem deIter_run_spec : ∀ (sched : List Bool) (l : List Nat),
    (DEIter.run sched ⟨l⟩).1 ++ (DEIter.run sched ⟨l⟩).2.2.rest ++ (DEIter.run sched ⟨l⟩).2.1.reverse = l := by
  intro sched
  induction sched with
  | nil => intro l; simp [DEIter.run]
  | cons b sched ih =>
    intro l
    cases b with
    | false =>
      cases l with
      | nil =>
        have := ih []
        simp only [DEIter.run, DEIter.next, Option.toList, List.nil_append] at *
        exact this
      | cons x xs =>
        have := ih xs
        simp only [DEIter.run, DEIter.next, Option.toList, List.cons_append, List.nil_append]
        rw [this]
    | true =>
      rcases List.eq_nil_or_concat l with rfl | ⟨l', x, rfl⟩
      · have := ih []
        simp only [DEIter.run, DEIter.nextBack, List.getLast?_nil, Option.toList, List.nil_append] at *
        exact this
      · have := ih l'
        rw [List.concat_eq_append]
        have hl : (l' ++ [x]).getLast? = some x := by simp
        have hd : (l' ++ [x]).dropLast = l' := by simp
        simp only [DEIter.run, DEIter.nextBack, hl, hd, Option.toList, List.reverse_append,
          List.reverse_cons, List.reverse_nil, List.nil_append]
        rw [← List.append_assoc, this]

theorem deIter_rev : ∀ (n : Nat) (l : List Nat), l.length ≤ n →
    (DEIter.run (List.replicate n true) ⟨l⟩).2.1 = l.reverse := by
  intro n
  induction n with
  | zero =>
    intro l h
    have : l = [] := List.eq_nil_of_length_eq_zero (by omega)
    subst this; rfl
  | succ n ih =>
    intro l h
    rcases List.eq_nil_or_concat l with rfl | ⟨l', x, rfl⟩
    · have := ih [] (by simp)
      simp only [List.replicate_succ, DEIter.run, DEIter.nextBack, List.getLast?_nil, Option.toList,
        List.nil_append] at *
      exact this
    · have := ih l' (by simp at h; omega)
      rw [List.concat_eq_append]
      have hl : (l' ++ [x]).getLast? = some x := by simp
      have hd : (l' ++ [x]).dropLast = l' := by simp
      simp only [List.replicate_succ, DEIter.run, DEIter.nextBack, hl, hd, Option.toList,
        List.reverse_append, List.reverse_cons, List.reverse_nil, List.nil_append]
      rw [this]

/-! ### (C) `BitPage::iter_after` / `BitSet::iter_after` -/

theorem mem_elemMembers {base e x : Nat} (h : x ∈ elemMembers base e) : base ≤ x ∧ x < base + 64 := by
  rw [elemMembers_eq] at h
  simp only [List.mem_map, List.mem_filter, List.mem_range] at h
  obtain ⟨i, ⟨hi, _⟩, rfl⟩ := h
  omega

private theorem flatMap_congr' {α β : Type} {l : List α} {f g : α → List β}
    (h : ∀ a ∈ l, f a = g a) : l.flatMap f = l.flatMap g := by
  induction l with
  | nil => rfl
  | cons a l ih =>
    rw [List.flatMap_cons, List.flatMap_cons, h a List.mem_cons_self,
      ih (fun x hx => h x (List.mem_cons_of_mem _ hx))]

/-- `BitPage::iter_after(value)` yields the members of the page above `value & PAGE_MASK` -/
theorem iterAfterL_eq {p : CPage} (hp : CPageOk p) (v : Nat) :
    p.iterAfterL v = (pageMembers p.abs.bits).filter (fun x => decide (v % 512 < x)) := by
  have hstv : elementIndex v = v % 512 / 64 := rfl
  generalize hstd : elementIndex v = st at hstv
  have hst : st < 8 := by omega
  have hL : p.iterAfterL v =
      (((p.elems.drop st).zipIdx 0).filter (fun ei => ei.1 != 0)).flatMap
        (fun ei => (elemIterFrom ei.1 ((fun i => if st = i then v % 64 + 1 else 0) (ei.2 + st))).map
          (fun idx => (ei.2 + st) * 64 + idx)) := by
    unfold CPage.iterAfterL
    simp only [hstd, ELEM_BITS]
    congr 1
    funext ei
    by_cases h : st = ei.2 + st
    · simp only [if_pos h]
    · simp only [if_neg h]
  rw [hL, elemScan (fun i => if st = i then v % 64 + 1 else 0) st (p.elems.drop st) 0,
    pageMembers_blocks hp]
  have h8 : (8 : Nat) = st + (8 - st) := by omega
  have hlen : (p.elems.drop st).length = 8 - st := by rw [List.length_drop, hp.1]
  rw [hlen]
  conv => rhs; rw [h8, List.range_add, List.flatMap_append, List.filter_append]
  have hfirst : ((List.range st).flatMap (fun i => elemMembers (i * 64) (p.elems.getD i 0))).filter
      (fun x => decide (v % 512 < x)) = [] := by
    apply List.filter_eq_nil_iff.2
    intro x hx
    simp only [List.mem_flatMap, List.mem_range] at hx
    obtain ⟨i, hi, hx⟩ := hx
    have := mem_elemMembers hx
    simp only [decide_eq_true_eq]
    omega
  rw [hfirst, List.nil_append, List.flatMap_map, List.filter_flatMap]
  apply flatMap_congr'
  intro j hj
  have hget : (p.elems.drop st).getD j 0 = p.elems.getD (st + j) 0 := by
    simp only [List.getD_eq_getElem?_getD, List.getElem?_drop]
  rw [hget]
  have hidx : 0 + j + st = st + j := by omega
  rw [hidx]
  apply List.filter_congr
  intro x hx
  have := mem_elemMembers hx
  by_cases hj0 : j = 0
  · subst hj0
    simp only [Nat.add_zero, if_true] at *
    apply decide_eq_decide.2
    omega
  · have hne : ¬ st = st + j := by omega
    simp only [if_neg hne]
    apply decide_eq_decide.2
    omega

private theorem ic_recomputeLength_eq_popCount (es : List Nat) (hl : es.length = 8)
    (h : ∀ e ∈ es, e < 2 ^ 64) : recomputeLength es = popCount (pack es) := by
  unfold popCount pageMembers
  rw [List.length_flatMap]
  have : (fun a => (elemMembers (a * 64) (pack es / 2 ^ (a * 64) % 2 ^ 64)).length) =
      fun a => countOnes (es.getD a 0) := by
    funext a
    rw [ic_pack_elem es h, elemMembers_eq, List.length_map]; rfl
  rw [this]
  match es, hl with
  | [a, b, c, d, e, f, g, i], _ =>
    simp [recomputeLength, List.range, List.range.loop]
    omega

theorem pageMembers_nil_of_len0 {p : CPage} (hp : CPageOk p) (h : p.len = 0) :
    pageMembers p.abs.bits = [] := by
  have h1 : popCount (pack p.elems) = 0 := by
    rw [← ic_recomputeLength_eq_popCount _ hp.1 hp.2.1, ← hp.2.2, h]
  unfold popCount at h1
  exact List.eq_nil_of_length_eq_zero h1

/-- specification of the binary search on a map strictly sorted by major -/
theorem searchMap_specI : ∀ (pm : PMap), (pm.map (·.1)).Pairwise (· < ·) → ∀ (m : Nat),
    (∀ e ∈ pm.take (searchMap pm m).2, e.1 < m) ∧
      ((searchMap pm m).1 = true → ∃ e, pm[(searchMap pm m).2]? = some e ∧ e.1 = m) ∧
      (∀ e ∈ pm.drop (if (searchMap pm m).1 then (searchMap pm m).2 + 1 else (searchMap pm m).2),
        m < e.1) := by
  intro pm
  induction pm with
  | nil => intro _ m; simp [searchMap]
  | cons a rest ih =>
    intro hs m
    obtain ⟨k, idx⟩ := a
    simp only [List.map_cons, List.pairwise_cons, List.mem_map] at hs
    obtain ⟨h1, h2⟩ := hs
    have hgt : ∀ e ∈ rest, k < e.1 := fun e he => h1 e.1 ⟨e, he, rfl⟩
    unfold searchMap
    by_cases hk : k = m
    · subst hk
      simp only [if_true, List.take_zero, List.not_mem_nil, false_imp_iff, implies_true, true_and,
        List.getElem?_cons_zero, Nat.zero_add, List.drop_succ_cons, List.drop_zero]
      exact ⟨fun _ => ⟨(k, idx), rfl, rfl⟩, hgt⟩
    · by_cases hlt : m < k
      · simp only [if_neg hk, if_pos hlt, List.take_zero, List.not_mem_nil, false_imp_iff,
          implies_true, true_and, Bool.false_eq_true, if_false, List.drop_zero, List.mem_cons]
        rintro e (rfl | he)
        · exact hlt
        · have := hgt e he; omega
      · obtain ⟨i1, i2, i3⟩ := ih h2 m
        simp only [if_neg hk, if_neg hlt, List.take_succ_cons, List.mem_cons, List.getElem?_cons_succ]
        refine ⟨?_, i2, ?_⟩
        · rintro e (rfl | he)
          · simp only; omega
          · exact i1 e he
        · intro e he
          apply i3 e
          split at he <;> rename_i hb <;> simp only [hb, if_true, if_false, Bool.false_eq_true] <;>
            simpa using he

theorem viewMembersNE_append (A B : List (Nat × CPage)) :
    viewMembersNE (A ++ B) = viewMembersNE A ++ viewMembersNE B := by
  unfold viewMembersNE
  rw [List.map_append, List.flatMap_append]

theorem mem_viewMembersNE {V : List (Nat × CPage)} {x : Nat} (h : x ∈ viewMembersNE V) :
    ∃ kp ∈ V, majorStart kp.1 ≤ x ∧ x < majorStart kp.1 + 512 := by
  unfold viewMembersNE at h
  simp only [List.mem_flatMap, List.mem_map] at h
  obtain ⟨_, ⟨kp, hkp, rfl⟩, hx⟩ := h
  by_cases hl : kp.2.len = 0
  · simp [CPage.abs, hl] at hx
  · simp only [CPage.abs, hl, if_false, List.mem_map] at hx
    obtain ⟨y, hy, rfl⟩ := hx
    have := (mem_pageMembers.1 hy).1
    exact ⟨kp, hkp, by omega, by omega⟩

/-- (C) `BitSet::iter_after(value)` yields the abstract members above `value` -/
theorem iterAfter_eq {s : CBitSet} (hs : CInv s) (v : Nat) :
    s.iterAfter v = s.abs.members.filter (fun x => decide (v < x)) := by
  have hV := view_all_ok hs
  obtain ⟨sp1, sp2, sp3⟩ := searchMap_specI s.pageMap hs.sorted (majorOf v)
  generalize hr : searchMap s.pageMap (majorOf v) = r at sp1 sp2 sp3
  obtain ⟨found, i⟩ := r
  simp only at sp1 sp2 sp3
  -- everything through the view
  have hdrop : ∀ n, ((s.pageMap.drop n).filterMap
      (fun info => (s.pages[info.2]?).map (fun page => (info.1, page)))) =
      (cview s.pageMap s.pages).drop n := by
    intro n
    unfold cview
    rw [← List.map_drop]
    apply filterMap_eq_map_of
    intro e he
    have hlt := hs.idxLt e (List.mem_of_mem_drop he)
    simp [List.getElem?_eq_getElem hlt, List.getD_eq_getElem?_getD]
  have hpage : ((s.pageMap[i]?).bind (fun info => (s.pages[info.2]?).map (fun p => (p, info.1)))) =
      ((cview s.pageMap s.pages)[i]?).map (fun kp => (kp.2, kp.1)) := by
    rw [view_getElem?]
    cases hpm : s.pageMap[i]? with
    | none => rfl
    | some e =>
      have hlt := hs.idxLt e (List.mem_of_getElem? hpm)
      simp [List.getElem?_eq_getElem hlt, List.getD_eq_getElem?_getD]
  have hfollow : ∀ n, (((s.pageMap.drop n).filterMap
        (fun info => (s.pages[info.2]?).map (fun page => (info.1, page)))).filter
        (fun mp => !mp.2.isEmpty)).flatMap
      (fun mp => mp.2.iterL.map (fun v => majorStart mp.1 + v)) =
      viewMembersNE ((cview s.pageMap s.pages).drop n) := by
    intro n
    rw [hdrop n, ← viewIter_eq _ (fun kp hkp => hV kp (List.mem_of_mem_drop hkp))]
    rfl
  unfold CBitSet.iterAfter
  simp only [hr, hpage, hfollow]
  -- split the abstract members at the search position
  rw [abs_members]
  generalize hVd : cview s.pageMap s.pages = V at *
  have hkeys : ∀ n, ∀ kp ∈ V.drop n, ∃ e ∈ s.pageMap.drop n, e.1 = kp.1 := by
    intro n kp hkp
    rw [← hVd] at hkp
    unfold cview at hkp
    rw [← List.map_drop, List.mem_map] at hkp
    obtain ⟨e, he, rfl⟩ := hkp
    exact ⟨e, he, rfl⟩
  have hkeysT : ∀ kp ∈ V.take i, ∃ e ∈ s.pageMap.take i, e.1 = kp.1 := by
    intro kp hkp
    rw [← hVd] at hkp
    unfold cview at hkp
    rw [← List.map_take, List.mem_map] at hkp
    obtain ⟨e, he, rfl⟩ := hkp
    exact ⟨e, he, rfl⟩
  -- members before the search position are `≤ value`
  have hbefore : (viewMembersNE (V.take i)).filter (fun x => decide (v < x)) = [] := by
    apply List.filter_eq_nil_iff.2
    intro x hx
    obtain ⟨kp, hkp, h1, h2⟩ := mem_viewMembersNE hx
    obtain ⟨e, he, hek⟩ := hkeysT kp hkp
    have := sp1 e he
    simp only [decide_eq_true_eq]
    unfold majorStart majorOf at *
    omega
  -- members of the follow-on pages are `> value`
  have hafter : (viewMembersNE (V.drop (if found then i + 1 else i))).filter (fun x => decide (v < x)) =
      viewMembersNE (V.drop (if found then i + 1 else i)) := by
    apply List.filter_eq_self.2
    intro x hx
    obtain ⟨kp, hkp, h1, h2⟩ := mem_viewMembersNE hx
    obtain ⟨e, he, hek⟩ := hkeys _ kp hkp
    have := sp3 e he
    simp only [decide_eq_true_eq]
    unfold majorStart majorOf at *
    omega
  conv => rhs; rw [← List.take_append_drop i V, viewMembersNE_append, List.filter_append, hbefore,
    List.nil_append]
  cases found with
  | false =>
    simp only [Bool.false_eq_true, if_false] at hafter ⊢
    rw [hafter]
    cases V[i]? <;> rfl
  | true =>
    simp only [if_true] at hafter ⊢
    obtain ⟨e, he, hem⟩ := sp2 rfl
    have hvi : V[i]? = some (e.1, s.pages.getD e.2 CPage.zero) := by
      rw [← hVd, view_getElem?, he]; rfl
    obtain ⟨hi, hvi'⟩ := List.getElem?_eq_some_iff.1 hvi
    have hsplit : V.drop i = (e.1, s.pages.getD e.2 CPage.zero) :: V.drop (i + 1) := by
      rw [List.drop_eq_getElem_cons hi, hvi']
    have hcons : viewMembersNE ((e.1, s.pages.getD e.2 CPage.zero) :: V.drop (i + 1)) =
        viewMembersNE [(e.1, s.pages.getD e.2 CPage.zero)] ++ viewMembersNE (V.drop (i + 1)) :=
      viewMembersNE_append [_] _
    rw [hsplit, hcons, List.filter_append, hafter, hvi]
    congr 1
    have hok : CPageOk (s.pages.getD e.2 CPage.zero) :=
      hV _ (List.mem_of_getElem? hvi)
    generalize s.pages.getD e.2 CPage.zero = pg at hok
    simp only [Option.map_some, Option.filter, if_true, Option.toList, List.flatMap_cons,
      List.flatMap_nil, List.append_nil, viewMembersNE, List.map_cons, List.map_nil, CPage.abs]
    rw [iterAfterL_eq hok]
    by_cases hl : pg.len = 0
    · rw [pageMembers_nil_of_len0 hok hl]
      simp [hl]
    · simp only [hl, if_false, List.filter_map]
      rw [show pg.abs.bits = pack pg.elems from rfl]
      have : ∀ x, (decide (v % 512 < x)) = ((fun x => decide (v < x)) ∘ fun x => x + majorStart e.1) x := by
        intro x
        simp only [Function.comp]
        apply decide_eq_decide.2
        rw [hem]
        unfold majorStart majorOf
        omega
      rw [List.filter_congr (fun x _ => this x)]
      apply List.map_congr_left
      intro x _
      omega

end FontVerif.IntSet
