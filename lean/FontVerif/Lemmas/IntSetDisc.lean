/- C14 / IntSet helper lemmas, part 10: `iter_ranges` on DISCONTINUOUS domains
(`RangeIter::InclusiveDiscontinuous` = `mergeDomainAdjacent`, `RangeIter::ExclusiveDiscontinuous`
= `discontinuousRuns`): both produce the same canonical "runs of consecutive domain values". -/
import FontVerif.Lemmas.IntSetEq
set_option linter.unusedVariables false
set_option linter.unusedSimpArgs false
namespace FontVerif.IntSet

/-! ### domain normal form of range lists -/

/-- a domain value lies strictly between the two ranges -/
def DGap (D : List Nat) (p q : Nat × Nat) : Prop := ∃ g ∈ D, p.2 < g ∧ g < q.1

/-- range list in *domain* normal form: end points are domain values, ranges are sorted,
disjoint, well formed, and two ranges are never adjacent in the domain (a domain value lies
between them) — what `iter_ranges` yields for a discontinuous domain -/
def DRInv (D : List Nat) (rs : List (Nat × Nat)) : Prop :=
  rs.Pairwise (fun p q => p.2 < q.1 ∧ DGap D p q) ∧ ∀ p ∈ rs, p.1 ≤ p.2 ∧ p.1 ∈ D ∧ p.2 ∈ D

theorem drinv_nil (D : List Nat) : DRInv D [] := ⟨List.Pairwise.nil, by simp⟩

theorem drinv_cons {D : List Nat} {p : Nat × Nat} {rs : List (Nat × Nat)} :
    DRInv D (p :: rs) ↔
      (∀ q ∈ rs, p.2 < q.1 ∧ DGap D p q) ∧ (p.1 ≤ p.2 ∧ p.1 ∈ D ∧ p.2 ∈ D) ∧ DRInv D rs := by
  simp only [DRInv, List.pairwise_cons, List.mem_cons, forall_eq_or_imp]
  constructor
  · rintro ⟨⟨h1, h2⟩, h3, h4⟩; exact ⟨h1, h3, h2, h4⟩
  · rintro ⟨h1, h3, h2, h4⟩; exact ⟨⟨h1, h2⟩, h3, h4⟩

theorem DRInv.rsorted {D : List Nat} {rs : List (Nat × Nat)} (h : DRInv D rs) : RSorted rs :=
  ⟨List.Pairwise.imp (fun h => h.1) h.1, fun p hp => (h.2 p hp).1⟩

theorem DRInv.mono {D D' : List Nat} {rs : List (Nat × Nat)} (hsub : ∀ x ∈ D, x ∈ D')
    (h : DRInv D rs) : DRInv D' rs := by
  refine ⟨List.Pairwise.imp ?_ h.1, fun p hp => ?_⟩
  · rintro p q ⟨h1, g, hg, h2, h3⟩
    exact ⟨h1, g, hsub g hg, h2, h3⟩
  · have := h.2 p hp
    exact ⟨this.1, hsub _ this.2.1, hsub _ this.2.2⟩

/-- canonical form relative to the domain: same domain members ⇒ same list -/
theorem drinv_ext {D : List Nat} {as bs : List (Nat × Nat)} (ha : DRInv D as) (hb : DRInv D bs)
    (h : ∀ x ∈ D, (NMem as x ↔ NMem bs x)) : as = bs := by
  induction as generalizing bs with
  | nil =>
    cases bs with
    | nil => rfl
    | cons b bs =>
      have hb' := (drinv_cons.1 hb).2.1
      have := (h b.1 hb'.2.1).2 (nmem_cons.2 (Or.inl ⟨Nat.le_refl _, hb'.1⟩))
      exact absurd this nmem_nil
  | cons a as ih =>
    cases bs with
    | nil =>
      have ha' := (drinv_cons.1 ha).2.1
      have := (h a.1 ha'.2.1).1 (nmem_cons.2 (Or.inl ⟨Nat.le_refl _, ha'.1⟩))
      exact absurd this nmem_nil
    | cons b bs =>
      have ca := drinv_cons.1 ha
      have cb := drinv_cons.1 hb
      obtain ⟨a1, a2⟩ := a
      obtain ⟨b1, b2⟩ := b
      simp only at ca cb
      have hs : a1 = b1 := by
        have h1 := nmem_ge_head hb.rsorted
          ((h a1 ca.2.1.2.1).1 (nmem_cons.2 (Or.inl ⟨Nat.le_refl _, ca.2.1.1⟩)))
        have h2 := nmem_ge_head ha.rsorted
          ((h b1 cb.2.1.2.1).2 (nmem_cons.2 (Or.inl ⟨Nat.le_refl _, cb.2.1.1⟩)))
        simp only at h1 h2
        omega
      subst hs
      -- one direction of the end comparison, stated symmetrically
      have key : ∀ (x2 y2 : Nat) (xs ys : List (Nat × Nat)),
          DRInv D ((a1, x2) :: xs) → DRInv D ((a1, y2) :: ys) →
          (∀ x ∈ D, (NMem ((a1, x2) :: xs) x ↔ NMem ((a1, y2) :: ys) x)) → ¬ x2 < y2 := by
        intro x2 y2 xs ys hx hy hxy hlt
        have cx := drinv_cons.1 hx
        have cy := drinv_cons.1 hy
        simp only at cx cy
        -- y2 is a domain member of ys-side, hence of xs-side, hence in a later range of xs
        have hm : NMem ((a1, x2) :: xs) y2 :=
          (hxy y2 cy.2.1.2.2).2 (nmem_cons.2 (Or.inl ⟨cy.2.1.1, Nat.le_refl _⟩))
        rcases nmem_cons.1 hm with hm | ⟨q, hq, hq1, hq2⟩
        · simp only at hm; omega
        · -- xs is non-empty: take its first range and the gap before it
          cases xs with
          | nil => simp at hq
          | cons r xs' =>
            obtain ⟨hr1, g, hg, hg1, hg2⟩ := cx.1 r (by simp)
            simp only at hg1
            have hrq : r.1 ≤ q.1 := by
              simp only [List.mem_cons] at hq
              rcases hq with rfl | hq
              · exact Nat.le_refl _
              · have := ((drinv_cons.1 cx.2.2).1 q hq).1
                have := ((drinv_cons.1 cx.2.2).2.1).1
                omega
            -- g is a member on the ys side (inside the first range) but not on the xs side
            have hgy : NMem ((a1, y2) :: ys) g :=
              nmem_cons.2 (Or.inl ⟨by simp only; omega, by simp only; omega⟩)
            rcases nmem_cons.1 ((hxy g hg).2 hgy) with hgx | ⟨q', hq', h1, h2⟩
            · simp only at hgx; omega
            · have : r.1 ≤ q'.1 := by
                simp only [List.mem_cons] at hq'
                rcases hq' with rfl | hq'
                · exact Nat.le_refl _
                · have := ((drinv_cons.1 cx.2.2).1 q' hq').1
                  have := ((drinv_cons.1 cx.2.2).2.1).1
                  omega
              omega
      have he : a2 = b2 := by
        have k1 := key a2 b2 as bs ha hb h
        have k2 := key b2 a2 bs as hb ha (fun x hx => (h x hx).symm)
        omega
      subst he
      congr 1
      apply ih ca.2.2 cb.2.2
      intro x hxD
      constructor
      · intro hx
        obtain ⟨q, hq, h1, h2⟩ := hx
        have hgap := (ca.1 q hq).1
        rcases nmem_cons.1 ((h x hxD).1 (nmem_cons.2 (Or.inr ⟨q, hq, h1, h2⟩))) with hy | hy
        · simp only at hy; omega
        · exact hy
      · intro hx
        obtain ⟨q, hq, h1, h2⟩ := hx
        have hgap := (cb.1 q hq).1
        rcases nmem_cons.1 ((h x hxD).2 (nmem_cons.2 (Or.inr ⟨q, hq, h1, h2⟩))) with hy | hy
        · simp only at hy; omega
        · exact hy

/-! ### `discontinuousRuns` -/

theorem discontinuousRuns_nil (inSet : Nat → Bool) : discontinuousRuns inSet [] = [] := rfl

theorem discontinuousRuns_spec (inSet : Nat → Bool) (D : List Nat) (hD : Asc D) :
    DRInv D (discontinuousRuns inSet D) ∧
    (∀ x ∈ D, (NMem (discontinuousRuns inSet D) x ↔ inSet x = false)) ∧
    (∀ w t, D = w :: t → inSet w = false → ∃ e rest, discontinuousRuns inSet D = (w, e) :: rest) := by
  induction D with
  | nil => exact ⟨drinv_nil _, by simp, by simp⟩
  | cons v vs ih =>
    have hD' := asc_cons.1 hD
    obtain ⟨i1, i2, i3⟩ := ih hD'.2
    have hsub : ∀ x ∈ vs, x ∈ v :: vs := fun x hx => by simp [hx]
    -- every run of the tail starts at a tail value that is not in the set
    have hstart : ∀ q ∈ discontinuousRuns inSet vs, q.1 ∈ vs ∧ v < q.1 ∧ inSet q.1 = false := by
      intro q hq
      have hq' := i1.2 q hq
      exact ⟨hq'.2.1, hD'.1 _ hq'.2.1, (i2 q.1 hq'.2.1).1 ⟨q, hq, Nat.le_refl _, hq'.1⟩⟩
    unfold discontinuousRuns
    cases hv : inSet v with
    | true =>
      simp only [if_true]
      refine ⟨i1.mono hsub, ?_, ?_⟩
      · intro x hx
        simp only [List.mem_cons] at hx
        rcases hx with rfl | hx
        · rw [hv]
          simp only [Bool.true_eq_false, iff_false]
          rintro ⟨q, hq, h1, h2⟩
          have := (hstart q hq).2.1; omega
        · exact i2 x hx
      · intro w t hwt hw
        injection hwt with h1 h2
        subst h1; rw [hv] at hw; simp at hw
    | false =>
      simp only [Bool.false_eq_true, if_false]
      split
      · rename_i s e rest w t heq
        -- the tail is `w :: t` and its runs are `(s, e) :: rest`
        rw [heq] at i1 i2 hstart
        have c1 := drinv_cons.1 i1
        simp only at c1
        split
        · rename_i hw
          have hw : inSet w = false := by simpa using hw
          obtain ⟨e', rest', he⟩ := i3 w t rfl hw
          rw [heq] at he
          injection he with he1 he2
          injection he1 with hs1 hs2
          subst hs1
          refine ⟨?_, ?_, ?_⟩
          · rw [drinv_cons]
            refine ⟨?_, ⟨?_, by simp, by have := c1.2.1.2.2; simp [this]⟩, c1.2.2.mono hsub⟩
            · intro q hq
              obtain ⟨h1, g, hg, h2, h3⟩ := c1.1 q hq
              exact ⟨h1, g, hsub g hg, h2, h3⟩
            · have := hD'.1 s (by simp); simp only; omega
          · intro x hx
            simp only [List.mem_cons] at hx
            rcases hx with rfl | hx
            · rw [hv]
              simp only [iff_true]
              exact nmem_cons.2 (Or.inl ⟨Nat.le_refl _, by have := hD'.1 s (by simp); have := c1.2.1.1; simp only; omega⟩)
            · have hx' : x ∈ s :: t := by simpa using hx
              rw [← i2 x hx', nmem_cons, nmem_cons]
              simp only
              have hvx := hD'.1 x hx'
              have hsx : s ≤ x := by
                rcases hx with rfl | hx
                · exact Nat.le_refl _
                · exact Nat.le_of_lt ((asc_cons.1 hD'.2).1 x hx)
              constructor
              · rintro (h1 | h1)
                · exact Or.inl ⟨hsx, h1.2⟩
                · exact Or.inr h1
              · rintro (h1 | h1)
                · exact Or.inl ⟨by omega, h1.2⟩
                · exact Or.inr h1
          · intro w' t' hwt _
            injection hwt with h1 h2
            subst h1
            exact ⟨e, rest, rfl⟩
        · rename_i hw
          have hw : inSet w = true := by simpa using hw
          refine ⟨?_, ?_, ?_⟩
          · rw [drinv_cons]
            refine ⟨?_, ⟨Nat.le_refl _, by simp, by simp⟩, i1.mono hsub⟩
            intro q hq
            obtain ⟨hq1, hq2, hq3⟩ := hstart q hq
            refine ⟨hq2, w, by simp, hD'.1 w (by simp), ?_⟩
            simp only [List.mem_cons] at hq1
            rcases hq1 with hq1 | hq1
            · rw [hq1, hw] at hq3; simp at hq3
            · exact (asc_cons.1 hD'.2).1 _ hq1
          · intro x hx
            simp only [List.mem_cons] at hx
            rcases hx with rfl | hx
            · rw [hv]
              simp only [iff_true]
              exact nmem_cons.2 (Or.inl ⟨Nat.le_refl _, Nat.le_refl _⟩)
            · have hx' : x ∈ w :: t := by simpa using hx
              rw [← i2 x hx', nmem_cons]
              have hvx := hD'.1 x hx'
              simp only
              constructor
              · rintro (h1 | h1)
                · omega
                · exact h1
              · exact fun h1 => Or.inr h1
          · intro w' t' hwt _
            injection hwt with h1 h2
            subst h1
            exact ⟨v, _, rfl⟩
      · rename_i vs rs tl hno
        -- no run in the tail (or empty tail): the tail has no value outside the set
        have hempty : discontinuousRuns inSet vs = [] := by
          cases hr : discontinuousRuns inSet vs with
          | nil => rfl
          | cons r rest =>
            cases hvs : vs with
            | nil => rw [hvs] at hr; simp [discontinuousRuns] at hr
            | cons w t => exact (hno r.1 r.2 rest w t (by rw [hr]) hvs).elim
        rw [hempty] at i2 ⊢
        refine ⟨?_, ?_, ?_⟩
        · rw [drinv_cons]
          exact ⟨by simp, ⟨Nat.le_refl _, by simp, by simp⟩, drinv_nil _⟩
        · intro x hx
          simp only [List.mem_cons] at hx
          rcases hx with rfl | hx
          · rw [hv]
            simp only [iff_true]
            exact nmem_cons.2 (Or.inl ⟨Nat.le_refl _, Nat.le_refl _⟩)
          · have h1 := i2 x hx
            have hvx := hD'.1 x hx
            rw [nmem_cons]
            simp only [nmem_nil, or_false]
            constructor
            · intro h2; omega
            · intro h2; exact absurd (h1.2 h2) nmem_nil
        · intro w' t' hwt _
          injection hwt with h1 h2
          subst h1
          exact ⟨v, _, rfl⟩

/-- the runs only depend on the set restricted to the domain -/
theorem discontinuousRuns_congr (f g : Nat → Bool) (D : List Nat) (h : ∀ x ∈ D, f x = g x) :
    discontinuousRuns f D = discontinuousRuns g D := by
  induction D with
  | nil => rfl
  | cons v vs ih =>
    have ih' := ih (fun x hx => h x (by simp [hx]))
    unfold discontinuousRuns
    rw [h v (by simp), ih']
    cases vs with
    | nil => rfl
    | cons w t =>
      have hw := h w (by simp)
      cases discontinuousRuns g (w :: t) with
      | nil => rfl
      | cons r rest =>
        obtain ⟨s, e⟩ := r
        simp only [hw]

/-! ### `Domain.adjacent` and `mergeDomainAdjacent` -/

/-- `RangeIter::are_values_adjacent(a, b)` for two domain values `a < b`: no domain value lies
strictly between them -/
theorem adjacent_spec {d : Domain} (hd : DomWF d) {a b : Nat} (ha : d.contains a = true)
    (hb : d.contains b = true) (hab : a < b) :
    d.adjacent a b = true ↔ ¬ ∃ g ∈ expand d.ranges, a < g ∧ g < b := by
  unfold Domain.adjacent
  rw [expandTake_eq]
  unfold Domain.rangeValues
  rw [expand_clipRanges hd.sorted]
  have hFasc : Asc ((expand d.ranges).filter (fun x => decide (a ≤ x) && decide (x ≤ b))) :=
    (expand_asc hd.sorted).filter _
  have hFmem : ∀ x, x ∈ (expand d.ranges).filter (fun x => decide (a ≤ x) && decide (x ≤ b)) ↔
      x ∈ expand d.ranges ∧ a ≤ x ∧ x ≤ b := by
    intro x; simp [List.mem_filter]
  generalize (expand d.ranges).filter (fun x => decide (a ≤ x) && decide (x ≤ b)) = F at hFasc hFmem
  have haF : a ∈ F := (hFmem a).2 ⟨Domain.contains_iff_mem.1 ha, Nat.le_refl _, Nat.le_of_lt hab⟩
  have hbF : b ∈ F := (hFmem b).2 ⟨Domain.contains_iff_mem.1 hb, Nat.le_of_lt hab, Nat.le_refl _⟩
  cases F with
  | nil => simp at haF
  | cons x0 F0 =>
    have c0 := asc_cons.1 hFasc
    have hx0 : x0 = a := by
      have h1 := (hFmem x0).1 (by simp)
      simp only [List.mem_cons] at haF
      rcases haF with h | h
      · exact h.symm
      · have := c0.1 a h; omega
    subst hx0
    have hbF0 : b ∈ F0 := by
      simp only [List.mem_cons] at hbF
      rcases hbF with h | h
      · omega
      · exact h
    cases F0 with
    | nil => simp at hbF0
    | cons c F1 =>
      have c1 := asc_cons.1 c0.2
      rw [show List.take 2 (x0 :: c :: F1) = [x0, c] from rfl]
      simp only [beq_iff_eq]
      have hc := (hFmem c).1 (by simp)
      have hac := c0.1 c (by simp)
      constructor
      · rintro rfl ⟨g, hg, h1, h2⟩
        have := (hFmem g).2 ⟨hg, by omega, by omega⟩
        simp only [List.mem_cons] at this
        rcases this with h | h | h
        · omega
        · omega
        · have := c1.1 g h; omega
      · intro hno
        apply Classical.byContradiction
        intro hne
        exact hno ⟨c, hc.1, hac, by omega⟩

theorem mergeGo_nil (d : Domain) (cur : Nat × Nat) : mergeDomainAdjacent.go d cur [] = [cur] := by
  simp [mergeDomainAdjacent.go]

theorem mergeGo_cons (d : Domain) (cur n : Nat × Nat) (more : List (Nat × Nat)) :
    mergeDomainAdjacent.go d cur (n :: more) =
      if d.adjacent cur.2 n.1 then mergeDomainAdjacent.go d (cur.1, n.2) more
      else cur :: mergeDomainAdjacent.go d n more := by
  simp [mergeDomainAdjacent.go]

theorem mergeGo_spec {d : Domain} (hd : DomWF d) (rest : List (Nat × Nat)) (cur : Nat × Nat)
    (hs : RSorted (cur :: rest))
    (hD : ∀ p ∈ cur :: rest, p.1 ∈ expand d.ranges ∧ p.2 ∈ expand d.ranges) :
    DRInv (expand d.ranges) (mergeDomainAdjacent.go d cur rest) ∧
    (∀ x ∈ expand d.ranges,
      (NMem (mergeDomainAdjacent.go d cur rest) x ↔ NMem (cur :: rest) x)) ∧
    (∀ q ∈ mergeDomainAdjacent.go d cur rest, cur.1 ≤ q.1) := by
  induction rest generalizing cur with
  | nil =>
    rw [mergeGo_nil]
    have c := rsorted_cons.1 hs
    have hc := hD cur (by simp)
    refine ⟨drinv_cons.2 ⟨by simp, ⟨c.2.1, hc.1, hc.2⟩, drinv_nil _⟩, fun x _ => Iff.rfl, ?_⟩
    intro q hq; simp at hq; subst hq; exact Nat.le_refl _
  | cons n more ih =>
    rw [mergeGo_cons]
    have c := rsorted_cons.1 hs
    have cn := rsorted_cons.1 c.2.2
    have hcur := hD cur (by simp)
    have hn := hD n (by simp)
    have hlt : cur.2 < n.1 := c.1 n (by simp)
    have hadj := adjacent_spec hd (Domain.contains_iff_mem.2 hcur.2) (Domain.contains_iff_mem.2 hn.1) hlt
    split
    · rename_i ha
      have hno := hadj.1 ha
      have hs' : RSorted ((cur.1, n.2) :: more) :=
        rsorted_cons.2 ⟨cn.1, by simp only; omega, cn.2.2⟩
      have hD' : ∀ p ∈ (cur.1, n.2) :: more, p.1 ∈ expand d.ranges ∧ p.2 ∈ expand d.ranges := by
        intro p hp
        simp only [List.mem_cons] at hp
        rcases hp with rfl | hp
        · exact ⟨hcur.1, hn.2⟩
        · exact hD p (by simp [hp])
      obtain ⟨i1, i2, i3⟩ := ih (cur.1, n.2) hs' hD'
      refine ⟨i1, fun x hx => ?_, i3⟩
      rw [i2 x hx, nmem_cons, nmem_cons, nmem_cons]
      simp only
      constructor
      · rintro (h1 | h1)
        · by_cases hx1 : x ≤ cur.2
          · exact Or.inl ⟨h1.1, hx1⟩
          · by_cases hx2 : n.1 ≤ x
            · exact Or.inr (Or.inl ⟨hx2, h1.2⟩)
            · exact absurd ⟨x, hx, by omega, by omega⟩ hno
        · exact Or.inr (Or.inr h1)
      · rintro (h1 | h1 | h1)
        · exact Or.inl ⟨h1.1, by omega⟩
        · exact Or.inl ⟨by omega, h1.2⟩
        · exact Or.inr h1
    · rename_i ha
      have hgap : ∃ g ∈ expand d.ranges, cur.2 < g ∧ g < n.1 := by
        apply Classical.byContradiction
        intro hno
        exact ha (hadj.2 hno)
      obtain ⟨i1, i2, i3⟩ := ih n c.2.2 (fun p hp => hD p (by simp [hp]))
      refine ⟨drinv_cons.2 ⟨?_, ⟨c.2.1, hcur.1, hcur.2⟩, i1⟩, fun x hx => ?_, ?_⟩
      · intro q hq
        have := i3 q hq
        obtain ⟨g, hg, h1, h2⟩ := hgap
        exact ⟨by omega, g, hg, h1, by omega⟩
      · rw [nmem_cons, i2 x hx, nmem_cons (p := cur)]
      · intro q hq
        simp only [List.mem_cons] at hq
        rcases hq with rfl | hq
        · exact Nat.le_refl _
        · have := i3 q hq; omega

theorem mergeDomainAdjacent_spec {d : Domain} (hd : DomWF d) (rs : List (Nat × Nat))
    (hs : RSorted rs) (hD : ∀ p ∈ rs, p.1 ∈ expand d.ranges ∧ p.2 ∈ expand d.ranges) :
    DRInv (expand d.ranges) (mergeDomainAdjacent d rs) ∧
    ∀ x ∈ expand d.ranges, (NMem (mergeDomainAdjacent d rs) x ↔ NMem rs x) := by
  cases rs with
  | nil => exact ⟨drinv_nil _, fun x _ => Iff.rfl⟩
  | cons r rest =>
    obtain ⟨h1, h2, _⟩ := mergeGo_spec hd rest r hs hD
    exact ⟨h1, h2⟩

/-! ### `iter_ranges_invertible` on a discontinuous domain, and the uniform interface -/

theorem IntSet.rangesInvertible_disc {d : Domain} (hd : DomWF d) (hc : d.continuous = false)
    {s : IntSet} (h : IInvD d s) (inv : Bool) :
    DRInv (expand d.ranges) (s.rangesInvertible d inv) ∧
    ∀ x ∈ expand d.ranges,
      (NMem (s.rangesInvertible d inv) x ↔ (s.contains x ^^ inv) = true) := by
  obtain ⟨r1, r2⟩ := BitSet.ranges_spec _ h.1
  unfold IntSet.rangesInvertible
  by_cases hm : s.inverted = inv
  · rw [if_pos hm, hc]
    simp only [Bool.false_eq_true, if_false]
    have hD : ∀ p ∈ s.set.ranges, p.1 ∈ expand d.ranges ∧ p.2 ∈ expand d.ranges := by
      intro p hp
      have hp' := r1.2 p hp
      exact ⟨Domain.contains_iff_mem.1 (h.2 p.1 ((r2 p.1).1 ⟨p, hp, Nat.le_refl _, hp'⟩)),
        Domain.contains_iff_mem.1 (h.2 p.2 ((r2 p.2).1 ⟨p, hp, hp', Nat.le_refl _⟩))⟩
    obtain ⟨m1, m2⟩ := mergeDomainAdjacent_spec hd s.set.ranges r1.rsorted hD
    refine ⟨m1, fun x hx => ?_⟩
    rw [m2 x hx, r2, IntSet.contains_eq, hm]
    cases inv <;> cases s.set.contains x <;> simp
  · rw [if_neg hm, hc]
    simp only [Bool.false_eq_true, if_false]
    obtain ⟨d1, d2, _⟩ := discontinuousRuns_spec s.set.contains (expand d.ranges)
      (expand_asc hd.sorted)
    refine ⟨d1, fun x hx => ?_⟩
    rw [d2 x hx, IntSet.contains_eq]
    have hne : s.inverted = !inv := by
      cases hs : s.inverted <;> cases inv <;> simp_all
    rw [hne]
    cases inv <;> cases s.set.contains x <;> simp

/-- what every consumer of `iter_ranges()` relies on, for every well-formed domain: ranges are
well formed with domain values as end points, and a domain value is covered iff it is a member -/
theorem IntSet.ranges_iface {d : Domain} (hd : DomWF d) {s : IntSet} (h : IInvD d s) :
    (∀ r ∈ s.ranges d, r.1 ≤ r.2 ∧ d.contains r.1 = true ∧ d.contains r.2 = true) ∧
    (∀ x, d.contains x = true → (NMem (s.ranges d) x ↔ s.contains x = true)) := by
  cases hc : d.continuous with
  | true =>
    obtain ⟨h1, h2, _⟩ := IntSet.ranges_spec hd hc h
    refine ⟨fun r hr => ?_, fun x hx => ?_⟩
    · have hwf := h1.2 r hr
      exact ⟨hwf, ((h2 r.1).1 ⟨r, hr, Nat.le_refl _, hwf⟩).1, ((h2 r.2).1 ⟨r, hr, hwf, Nat.le_refl _⟩).1⟩
    · rw [h2 x]; simp [hx]
  | false =>
    obtain ⟨h1, h2⟩ := IntSet.rangesInvertible_disc hd hc h false
    refine ⟨fun r hr => ?_, fun x hx => ?_⟩
    · have := h1.2 r hr
      exact ⟨this.1, Domain.contains_iff_mem.2 this.2.1, Domain.contains_iff_mem.2 this.2.2⟩
    · unfold IntSet.ranges
      rw [h2 x (Domain.contains_iff_mem.1 hx)]; simp

/-- `iter_ranges()` is canonical on every well-formed domain: equal range lists ⇔ same members -/
theorem IntSet.ranges_canonical {d : Domain} (hd : DomWF d) {a b : IntSet} (ha : IInvD d a)
    (hb : IInvD d b) :
    a.ranges d = b.ranges d ↔ ∀ x, d.contains x = true → a.contains x = b.contains x := by
  constructor
  · intro he x hx
    have h1 := (IntSet.ranges_iface hd ha).2 x hx
    have h2 := (IntSet.ranges_iface hd hb).2 x hx
    rw [he] at h1
    cases hax : a.contains x <;> cases hbx : b.contains x <;> simp_all
  · intro hx
    cases hc : d.continuous with
    | true => exact (IntSet.hashKey_spec hd hc ha hb).2 hx
    | false =>
      obtain ⟨a1, a2⟩ := IntSet.rangesInvertible_disc hd hc ha false
      obtain ⟨b1, b2⟩ := IntSet.rangesInvertible_disc hd hc hb false
      unfold IntSet.ranges
      apply drinv_ext a1 b1
      intro x hxD
      rw [a2 x hxD, b2 x hxD, hx x (Domain.contains_iff_mem.2 hxD)]

/-- hash key agreement on every well-formed domain -/
theorem IntSet.hashKey_spec' {d : Domain} (hd : DomWF d) {a b : IntSet} (ha : IInvD d a)
    (hb : IInvD d b) :
    a.hashKey d = b.hashKey d ↔ ∀ x, d.contains x = true → a.contains x = b.contains x :=
  IntSet.ranges_canonical hd ha hb

/-- `==` on every well-formed domain, all four mode combinations -/
theorem IntSet.beq_spec' {d : Domain} (hd : DomWF d) {a b : IntSet} (ha : IInvD d a)
    (hb : IInvD d b) :
    a.beq d b = true ↔ ∀ x, d.contains x = true → a.contains x = b.contains x := by
  by_cases hm : a.inverted = b.inverted
  · exact IntSet.beq_spec_same_mode ha hb hm
  · unfold IntSet.beq
    rw [if_neg hm, IntSet.len_spec hd ha, IntSet.len_spec hd hb, ← IntSet.ranges_canonical hd ha hb]
    split
    · exact beq_iff_eq
    · rename_i hlen
      simp only [Bool.false_eq_true, false_iff]
      intro he
      apply hlen
      have := (elems_eq_iff hd a b).2 ((IntSet.ranges_canonical hd ha hb).1 he)
      rw [this]

/-- `intersects_set` on every well-formed domain -/
theorem IntSet.intersectsSet_spec' {d : Domain} (hd : DomWF d) {a b : IntSet} (ha : IInvD d a)
    (hb : IInvD d b) :
    a.intersectsSet d b = true ↔
      ∃ v, d.contains v = true ∧ a.contains v = true ∧ b.contains v = true := by
  have key : ∀ {x y : IntSet}, IInvD d x → IInvD d y →
      ((y.ranges d).any (fun r => x.intersectsRange d r.1 r.2) = true ↔
        ∃ v, d.contains v = true ∧ x.contains v = true ∧ y.contains v = true) := by
    intro x y hx hy
    obtain ⟨r1, r2⟩ := IntSet.ranges_iface hd hy
    rw [List.any_eq_true]
    constructor
    · rintro ⟨r, hr, hi⟩
      rw [IntSet.intersectsRange_spec hd hx r.1 r.2 (r1 r hr).2.1] at hi
      obtain ⟨v, h1, h2, h3, h4⟩ := hi
      exact ⟨v, h3, h4, (r2 v h3).1 ⟨r, hr, h1, h2⟩⟩
    · rintro ⟨v, h1, h2, h3⟩
      obtain ⟨r, hr, h4, h5⟩ := (r2 v h1).2 h3
      refine ⟨r, hr, ?_⟩
      rw [IntSet.intersectsRange_spec hd hx r.1 r.2 (r1 r hr).2.1]
      exact ⟨v, h4, h5, h1, h2⟩
  unfold IntSet.intersectsSet
  by_cases hlen : a.set.pages.length > b.set.pages.length
  · simp only [hlen, if_true]
    rw [key ha hb]
  · simp only [hlen, if_false]
    rw [key hb ha]
    constructor
    · rintro ⟨v, h1, h2, h3⟩; exact ⟨v, h1, h3, h2⟩
    · rintro ⟨v, h1, h2, h3⟩; exact ⟨v, h1, h3, h2⟩

end FontVerif.IntSet
