/-
Helper lemmas for C08: `Cmap::from_mappings` normalisation (sort, dedup, conflict detection).
-/
import FontVerif.Model.Cmap
import FontVerif.Lemmas.Cmap
set_option linter.unusedVariables false
namespace FontVerif.Cmap
open FontVerif

/-- no character is given two different glyphs -/
def ConflictFree (raw : Mapping) : Prop := ∀ p ∈ raw, ∀ q ∈ raw, p.1 = q.1 → p.2 = q.2

/-- strict lexicographic order of `(char, GlyphId)` -/
def pairLt (a b : Nat × Nat) : Prop := a.1 < b.1 ∨ (a.1 = b.1 ∧ a.2 < b.2)

theorem pairLe_trans (a b c : Nat × Nat) (h1 : pairLe a b = true) (h2 : pairLe b c = true) :
    pairLe a c = true := by
  simp only [pairLe, Bool.or_eq_true, decide_eq_true_eq, Bool.and_eq_true, beq_iff_eq] at *
  omega

theorem pairLe_total (a b : Nat × Nat) : (pairLe a b || pairLe b a) = true := by
  simp only [pairLe, Bool.or_eq_true, decide_eq_true_eq, Bool.and_eq_true, beq_iff_eq]
  omega

theorem sortMappings_sorted (raw : Mapping) :
    (sortMappings raw).Pairwise (fun a b => pairLe a b = true) :=
  List.pairwise_mergeSort pairLe_trans pairLe_total raw

theorem mem_sortMappings (raw : Mapping) (p : Nat × Nat) : p ∈ sortMappings raw ↔ p ∈ raw :=
  (List.mergeSort_perm raw pairLe).mem_iff

theorem mem_dedup : ∀ (l : Mapping) (p : Nat × Nat), p ∈ dedup l ↔ p ∈ l := by
  intro l
  induction l with
  | nil => intro p; simp [dedup]
  | cons a rest ih =>
    intro p
    cases rest with
    | nil => simp [dedup]
    | cons b rest' =>
      unfold dedup
      by_cases hab : a = b
      · subst hab
        simp only [if_true, ih p, List.mem_cons]
        constructor
        · intro h; exact Or.inr h
        · rintro (h | h)
          · exact Or.inl h
          · exact h
      · simp only [hab, if_false, List.mem_cons, ih p]

theorem dedup_length_le : ∀ (l : Mapping), (dedup l).length ≤ l.length := by
  intro l
  induction l with
  | nil => simp [dedup]
  | cons a rest ih =>
    cases rest with
    | nil => simp [dedup]
    | cons b rest' =>
      unfold dedup
      split
      · simp only [List.length_cons] at ih ⊢; omega
      · simp only [List.length_cons] at ih ⊢; omega

theorem dedup_sorted : ∀ (l : Mapping), l.Pairwise (fun a b => pairLe a b = true) →
    (dedup l).Pairwise pairLt := by
  intro l
  induction l with
  | nil => intro _; simp [dedup]
  | cons a rest ih =>
    intro h
    have hp := List.pairwise_cons.1 h
    cases rest with
    | nil => simp [dedup]
    | cons b rest' =>
      unfold dedup
      by_cases hab : a = b
      · simp only [hab, if_true]
        exact ih hp.2
      · simp only [hab, if_false]
        refine List.pairwise_cons.2 ⟨?_, ih hp.2⟩
        intro x hx
        rw [mem_dedup] at hx
        have hax := hp.1 x hx
        have hab' := hp.1 b (List.mem_cons_self ..)
        have hbx : pairLe b x = true := by
          cases hx with
          | head => simp [pairLe]
          | tail _ hx' => exact (List.pairwise_cons.1 hp.2).1 x hx'
        simp only [pairLe, Bool.or_eq_true, decide_eq_true_eq, Bool.and_eq_true, beq_iff_eq] at hab' hbx
        have hne : ¬ (a.1 = b.1 ∧ a.2 = b.2) := fun h => hab (Prod.ext h.1 h.2)
        unfold pairLt
        omega

theorem findConflict_none_iff : ∀ (l : Mapping), l.Pairwise pairLt →
    (findConflict l = none ↔ Ascending l) := by
  intro l
  induction l with
  | nil => intro _; simp [findConflict, Ascending]
  | cons a rest ih =>
    intro h
    have hp := List.pairwise_cons.1 h
    cases rest with
    | nil => simp [findConflict, Ascending]
    | cons b rest' =>
      have hab := hp.1 b (List.mem_cons_self ..)
      unfold findConflict
      by_cases hc : a.1 = b.1 ∧ a.2 ≠ b.2
      · simp only [hc, ne_eq, not_false_eq_true, and_self, if_true]
        constructor
        · intro h'; cases h'
        · intro hasc
          have := (List.pairwise_cons.1 hasc).1 b (List.mem_cons_self ..)
          omega
      · simp only [hc, if_false]
        rw [ih hp.2]
        constructor
        · intro hasc
          refine List.pairwise_cons.2 ⟨?_, hasc⟩
          intro x hx
          have hlt : a.1 < b.1 := by unfold pairLt at hab; omega
          cases hx with
          | head => exact hlt
          | tail _ hx' =>
            have := (List.pairwise_cons.1 hasc).1 x hx'
            omega
        · intro hasc
          exact (List.pairwise_cons.1 hasc).2

theorem normalize_sorted (raw : Mapping) : (normalize raw).Pairwise pairLt :=
  dedup_sorted _ (sortMappings_sorted raw)

theorem mem_normalize (raw : Mapping) (p : Nat × Nat) : p ∈ normalize raw ↔ p ∈ raw := by
  unfold normalize
  rw [mem_dedup, mem_sortMappings]

theorem normalize_length_le (raw : Mapping) : (normalize raw).length ≤ raw.length := by
  unfold normalize
  have := dedup_length_le (sortMappings raw)
  have h2 : (sortMappings raw).length = raw.length := (List.mergeSort_perm raw pairLe).length_eq
  omega

/-- an ascending list is conflict free, and conversely for lexicographically sorted lists -/
theorem ascending_of_conflictFree (l : Mapping) (hs : l.Pairwise pairLt) (hcf : ConflictFree l) :
    Ascending l := by
  unfold Ascending
  refine List.Pairwise.imp_of_mem ?_ hs
  intro a b ha hb hab
  have := hcf a ha b hb
  unfold pairLt at hab
  omega

theorem conflictFree_of_ascending (l : Mapping) (hasc : Ascending l) : ConflictFree l := by
  intro p hp q hq hpq
  obtain ⟨i, hi, rfl⟩ := List.getElem_of_mem hp
  obtain ⟨j, hj, rfl⟩ := List.getElem_of_mem hq
  have hpw := List.pairwise_iff_getElem.1 hasc
  rcases Nat.lt_trichotomy i j with h | h | h
  · have := hpw i j hi hj h; omega
  · subst h; rfl
  · have := hpw j i hj hi h; omega

/-- the conflict check of `from_mappings` fires exactly on conflicting inputs -/
theorem findConflict_normalize_none_iff (raw : Mapping) :
    findConflict (normalize raw) = none ↔ ConflictFree raw := by
  rw [findConflict_none_iff _ (normalize_sorted raw)]
  constructor
  · intro hasc p hp q hq hpq
    exact conflictFree_of_ascending _ hasc p ((mem_normalize raw p).2 hp) q ((mem_normalize raw q).2 hq) hpq
  · intro hcf
    refine ascending_of_conflictFree _ (normalize_sorted raw) ?_
    intro p hp q hq hpq
    exact hcf p ((mem_normalize raw p).1 hp) q ((mem_normalize raw q).1 hq) hpq

/-- what the conflict check reports is a genuine conflict of the input -/
theorem findConflict_some : ∀ (l : Mapping) (c g1 g2 : Nat), findConflict l = some (c, g1, g2) →
    (c, g1) ∈ l ∧ (c, g2) ∈ l ∧ g1 < g2 := by
  intro l
  induction l with
  | nil => intro c g1 g2 h; simp [findConflict] at h
  | cons a rest ih =>
    intro c g1 g2 h
    cases rest with
    | nil => simp [findConflict] at h
    | cons b rest' =>
      unfold findConflict at h
      by_cases hc : a.1 = b.1 ∧ a.2 ≠ b.2
      · simp only [hc, ne_eq, not_false_eq_true, and_self, if_true, Option.some.injEq, Prod.mk.injEq] at h
        obtain ⟨rfl, rfl, rfl⟩ := h
        obtain ⟨a1, a2⟩ := a
        obtain ⟨b1, b2⟩ := b
        simp only at hc
        obtain ⟨rfl, hne⟩ := hc
        have ha : (a1, a2) ∈ (a1, a2) :: (a1, b2) :: rest' := List.mem_cons_self ..
        have hb : (a1, b2) ∈ (a1, a2) :: (a1, b2) :: rest' := List.mem_cons_of_mem _ (List.mem_cons_self ..)
        simp only
        rcases Nat.lt_or_ge a2 b2 with hlt | hge
        · have e1 : min a2 b2 = a2 := by omega
          have e2 : max a2 b2 = b2 := by omega
          rw [e1, e2]
          exact ⟨ha, hb, hlt⟩
        · have e1 : min a2 b2 = b2 := by omega
          have e2 : max a2 b2 = a2 := by omega
          rw [e1, e2]
          exact ⟨hb, ha, by omega⟩
      · simp only [hc, if_false] at h
        obtain ⟨h1, h2, h3⟩ := ih c g1 g2 h
        exact ⟨List.mem_cons_of_mem _ h1, List.mem_cons_of_mem _ h2, h3⟩

/-- a conflict-free input in range normalises to an in-domain mapping with the same pairs -/
theorem normalize_inDomain (raw : Mapping) (hcf : ConflictFree raw)
    (hr : ∀ p ∈ raw, p.1 ≤ 0x10FFFF ∧ p.1 ≠ 0xFFFF ∧ 1 ≤ p.2 ∧ p.2 ≤ 0xFFFF) :
    InDomain (normalize raw) := by
  refine ⟨(findConflict_none_iff _ (normalize_sorted raw)).1 ((findConflict_normalize_none_iff raw).2 hcf), ?_, ?_⟩
  · intro p hp
    have := hr p ((mem_normalize raw p).1 hp)
    exact ⟨this.1, this.2.1⟩
  · intro p hp
    have := hr p ((mem_normalize raw p).1 hp)
    exact ⟨this.2.2.1, this.2.2.2⟩

end FontVerif.Cmap
