/-
Lemmas for C19 (byte level, Model/PatchMapBytes.lean): reads that succeeded are in range, the getters
after a successful `read` never trap, entry sizes stay inside the entry data, the start byte the
field-level decoder tracks is the sum of the sizes.
-/
import FontVerif.Model.PatchMapBytes
import FontVerif.Lemmas.PatchMap
import FontVerif.Props.C14Codec
set_option linter.unusedVariables false
namespace FontVerif.PatchMapBytes
open FontVerif FontVerif.HandRead FontVerif.PatchMap

theorem readAt_some {d : List Nat} {off n v : Nat} (h : readAt d off n = some v) :
    off + n ≤ d.length ∧ v = beAt d off n := by
  unfold readAt checkedAdd at h
  split at h
  · cases h
  · next e he =>
    split at he
    · cases he
      split at h
      · cases h; exact ⟨by assumption, rfl⟩
      · cases h
    · cases he

theorem readAt_of_le {d : List Nat} {off n : Nat} (h : off + n ≤ d.length) (hl : d.length ≤ MAXU) :
    readAt d off n = some (beAt d off n) := by
  unfold readAt checkedAdd
  have : off + n ≤ MAXU := by omega
  simp [this, h]

theorem getU_ok {d : List Nat} {off n : Nat} (h : off + n ≤ d.length) (hl : d.length ≤ MAXU) :
    getU d off n = .ok (beAt d off n) := by
  unfold getU; rw [readAt_of_le h hl]

theorem getBytes_ok {d : List Nat} {off n : Nat} (h : off + n ≤ d.length) :
    getBytes d off n = .ok ((d.drop off).take n) := by
  unfold getBytes; simp [h]

theorem optOffsetsEnd_some {len flags p e : Nat} (h : optOffsetsEnd len flags p = some e) :
    p ≤ e ∧ e ≤ len := by
  unfold optOffsetsEnd at h
  simp only [] at h
  repeat' split at h
  all_goals first | (cases h; done) | skip
  all_goals (cases h; omega)

/-! ## headers never trap -/

theorem f2ReadHdr_ne_trap (d : List Nat) (hl : d.length ≤ MAXU) : ∀ x, f2ReadHdr d = x → x ≠ .trap := by
  intro x hx
  unfold f2ReadHdr at hx
  split at hx
  · subst hx; simp
  · split at hx
    · subst hx; simp
    · next ul hul =>
      split at hx
      · subst hx; simp
      · next e he =>
        have h1 := (readAt_some hul).1
        have h2 := optOffsetsEnd_some he
        rw [getU_ok (by omega) hl, getU_ok (by omega) hl, getU_ok (by omega) hl, getU_ok (by omega) hl,
          getU_ok (by omega) hl, getBytes_ok (by omega)] at hx
        subst hx; simp

theorem f2ReadHdr_ok {d : List Nat} {h : F2Hdr} (hh : f2ReadHdr d = .ok h) :
    35 + h.template.length ≤ h.hdrEnd ∧ h.hdrEnd ≤ d.length := by
  unfold f2ReadHdr at hh
  split at hh
  · cases hh
  · split at hh
    · cases hh
    · next ul hul =>
      split at hh
      · cases hh
      · next e he =>
        have h2 := optOffsetsEnd_some he
        split at hh
        · next tpl _ _ _ _ _ _ _ _ _ _ htpl =>
          cases hh
          simp only []
          unfold getBytes at htpl
          split at htpl
          · cases htpl
            simp only [List.length_take, List.length_drop]
            omega
          · cases htpl
        · cases hh

theorem f1ReadHdr_ne_trap (d : List Nat) (hl : d.length ≤ MAXU) : ∀ x, f1ReadHdr d = x → x ≠ .trap := by
  intro x hx
  unfold f1ReadHdr at hx
  split at hx
  · subst hx; simp
  · split at hx
    · subst hx; simp
    · next mei hmei =>
      simp only [] at hx
      split at hx
      · subst hx; simp
      · next ul hul =>
        split at hx
        · subst hx; simp
        · next e he =>
          have h1 := (readAt_some hul).1
          have h2 := optOffsetsEnd_some he
          rw [getU_ok (by omega) hl, getU_ok (by omega) hl, getU_ok (by omega) hl, getU_ok (by omega) hl,
            getU_ok (by omega) hl, getBytes_ok (by omega), getBytes_ok (by omega),
            getU_ok (by omega) hl] at hx
          subst hx; simp

/-! ## entries -/

theorem entryLayout_ok {hasIds : Bool} {d : List Nat} {L : EntryLayout}
    (h : entryLayout hasIds d = some L) :
    1 ≤ d.length ∧ 1 ≤ L.cpAt ∧ L.cpAt ≤ d.length ∧ gettersInRange L d.length = true := by
  unfold entryLayout at h
  simp only [] at h
  rw [Option.ite_none_right_eq_some] at h
  obtain ⟨hg, hL⟩ := h
  injection hL with hL
  subst hL
  simp only [gettersInRange, decide_eq_true_eq]
  by_cases hF : beAt d 0 1 % 2 = 1 <;> by_cases hC : beAt d 0 1 / 2 % 2 = 1 <;>
    by_cases hD : beAt d 0 1 / 4 % 2 = 1 <;> by_cases hP : beAt d 0 1 / 8 % 2 = 1 <;>
    simp only [hF, hC, hD, hP, if_true, if_false, true_implies, false_implies, true_and] at hg ⊢ <;>
    (cases hasIds <;> (try simp only [Bool.false_eq_true, if_true, if_false] at hg ⊢) <;> omega)

theorem decodeCodepoints_ne_trap (mode : Nat) (cp : List Nat) : decodeCodepoints mode cp ≠ .trap := by
  unfold decodeCodepoints
  split
  · simp
  · simp only []
    split
    · simp
    · next bias _ =>
      have ht := C14Codec.decode_total (cp.drop (if mode = 2 then 2 else if mode = 3 then 3 else 0)) bias 1114111
      split
      · simp
      · next hx => exact absurd hx ht.1
      · next ins rest hx =>
        have := (ht.2 ins rest hx).1.length_le
        rw [List.length_drop] at this
        rw [if_pos (by omega)]
        simp

theorem decodeCodepoints_used {mode : Nat} {cp : List Nat} {cps : Ranges} {used : Nat}
    (h : decodeCodepoints mode cp = .ok cps used) : used ≤ cp.length := by
  unfold decodeCodepoints at h
  split at h
  · cases h; omega
  · simp only [] at h
    split at h
    · cases h
    · split at h
      · cases h
      · cases h
      · split at h
        · cases h; omega
        · cases h

theorem readRawEntry_ne_trap (hasIds : Bool) (d : List Nat) : ∀ x, readRawEntry hasIds d = x → x ≠ .trap := by
  intro x hx
  unfold readRawEntry at hx
  split at hx
  · subst hx; simp
  · next L hL =>
    rw [(entryLayout_ok hL).2.2.2] at hx
    simp only [Bool.not_true, Bool.false_eq_true, if_false] at hx
    split at hx
    · next hc => exact absurd hc (decodeCodepoints_ne_trap _ _)
    · subst hx; simp
    · subst hx; simp

theorem readRawEntry_size {hasIds : Bool} {d : List Nat} {r : RawEntry}
    (h : readRawEntry hasIds d = .ok r) : 1 ≤ d.length ∧ r.size ≤ d.length ∧ (r.cps ≠ none → 1 ≤ r.size) := by
  unfold readRawEntry at h
  split at h
  · cases h
  · next L hL =>
    obtain ⟨h1, h2, h3, h4⟩ := entryLayout_ok hL
    rw [h4] at h
    simp only [Bool.not_true, Bool.false_eq_true, if_false] at h
    split at h
    · cases h
    · cases h; exact ⟨h1, by simp, by simp⟩
    · next cps used hc =>
      cases h
      have := decodeCodepoints_used hc
      rw [List.length_drop] at this
      exact ⟨h1, by simp only []; omega, fun _ => by simp only []; omega⟩

theorem readRawEntries_ne_trap (hasIds : Bool) : ∀ (n : Nat) (d : List Nat),
    (readRawEntries hasIds n d).2 ≠ some .trap
  | 0, d => by simp [readRawEntries]
  | n + 1, d => by
    unfold readRawEntries
    split
    · next hx => exact absurd hx (readRawEntry_ne_trap hasIds d _ rfl)
    · simp
    · split
      · simp
      · exact readRawEntries_ne_trap hasIds n _

/-- sum of the sizes of the first `i` raw entries -/
def sizeSum (rs : List RawEntry) (i : Nat) : Nat := ((rs.take i).map (·.size)).sum

theorem sizeSum_cons_succ (r : RawEntry) (rs : List RawEntry) (i : Nat) :
    sizeSum (r :: rs) (i + 1) = r.size + sizeSum rs i := by
  simp [sizeSum]

/-- every raw entry that was read starts on an existing byte of the entry data and ends inside it -/
theorem readRawEntries_sizes (hasIds : Bool) : ∀ (n : Nat) (d : List Nat) (i : Nat) (r : RawEntry),
    (readRawEntries hasIds n d).1[i]? = some r →
    sizeSum (readRawEntries hasIds n d).1 i + 1 ≤ d.length ∧
    sizeSum (readRawEntries hasIds n d).1 i + r.size ≤ d.length
  | 0, d, i, r, h => by simp [readRawEntries] at h
  | n + 1, d, i, r, h => by
    unfold readRawEntries at h ⊢
    split at h
    · simp at h
    · simp at h
    · next r0 hr0 =>
      obtain ⟨h1, h2, _⟩ := readRawEntry_size hr0
      split at h
      · next hnone =>
        cases i with
        | zero => simp at h; subst h; simp [sizeSum]; omega
        | succ i => simp at h
      · next c hsome =>
        cases i with
        | zero => simp at h; subst h; simp [sizeSum]; omega
        | succ i =>
          simp only [List.getElem?_cons_succ] at h
          have ih := readRawEntries_sizes hasIds n (d.drop r0.size) i r h
          rw [List.length_drop] at ih
          rw [sizeSum_cons_succ]
          omega

/-! ## the start byte tracked by the field-level decoder -/

theorem decodeEntry_start {tag : TableTag} {t : F2Table} {enc : PatchFormat} {st st' : DecodeState}
    {raw : RawEntry} (h : decodeEntry tag t enc st raw = .ok st') :
    st'.startByte = st.startByte + raw.size ∧
    ∃ e, st'.entries = st.entries ++ [e] ∧ e.uri.bit = st.startByte * 8 + 6 := by
  unfold decodeEntry at h
  simp only [bind, Except.bind, pure, Except.pure] at h
  repeat' split at h
  all_goals first | (cases h; done) | skip
  all_goals (cases h; exact ⟨rfl, _, rfl, rfl⟩)

theorem decodeEntries_start (tag : TableTag) (t : F2Table) (enc : PatchFormat) :
    ∀ (raws : List RawEntry) (st st' : DecodeState), decodeEntries tag t enc st raws = .ok st' →
      st'.entries.length = st.entries.length + raws.length ∧
      ∀ i e, st'.entries[st.entries.length + i]? = some e → i < raws.length →
        e.uri.bit = (st.startByte + sizeSum raws i) * 8 + 6
  | [], st, st', h => by
    simp only [decodeEntries] at h; cases h
    exact ⟨by simp, fun i e _ hi => by simp at hi⟩
  | r :: rs, st, st', h => by
    simp only [decodeEntries] at h
    split at h
    · cases h
    · next st1 h1 =>
      obtain ⟨hs, e0, he0, hb0⟩ := decodeEntry_start h1
      obtain ⟨ihl, ih⟩ := decodeEntries_start tag t enc rs st1 st' h
      have hlen1 : st1.entries.length = st.entries.length + 1 := by rw [he0]; simp
      refine ⟨by rw [ihl, hlen1]; simp; omega, ?_⟩
      intro i e hi hlt
      cases i with
      | zero =>
        -- the entry appended by this step stays at its index
        have hpre := decodeEntries_prefix tag t enc rs st1 st' h
        obtain ⟨suffix, hsuf⟩ := hpre
        rw [hsuf, he0] at hi
        simp at hi
        subst hi
        simp [sizeSum, hb0]
      | succ i =>
        have := ih i e (by rw [hlen1]; rwa [Nat.add_assoc, Nat.add_comm 1 i]) (by simpa using hlt)
        rw [this, hs, sizeSum_cons_succ]
        omega
where
  decodeEntries_prefix (tag : TableTag) (t : F2Table) (enc : PatchFormat) :
      ∀ (raws : List RawEntry) (st st' : DecodeState), decodeEntries tag t enc st raws = .ok st' →
        ∃ suffix, st'.entries = st.entries ++ suffix
    | [], st, st', h => by simp only [decodeEntries] at h; cases h; exact ⟨[], by simp⟩
    | r :: rs, st, st', h => by
      simp only [decodeEntries] at h
      split at h
      · cases h
      · next st1 h1 =>
        obtain ⟨_, e0, he0, _⟩ := decodeEntry_start h1
        obtain ⟨s, hs⟩ := decodeEntries_prefix tag t enc rs st1 st' h
        exact ⟨e0 :: s, by rw [hs, he0]; simp⟩

end FontVerif.PatchMapBytes
