/- helper lemmas for Props/C03Vec.lean (vector normalisation, projection state, point movement:
   skrifa = FreeType). -/
import FontVerif.Lemmas.MoveEq
import FontVerif.Props.C03
import FontVerif.Model.HintVec
import FontVerif.Model.FtVec
set_option linter.unusedVariables false
set_option linter.unusedSimpArgs false
set_option maxRecDepth 8000
namespace FontVerif.C03
open FontVerif FontVerif.Tt

theorem wrapI32_in (x : Int) : inI32 (wrapI32 x) := by
  unfold inI32 wrapI32; simp only []; split <;> omega

theorem wrapU32_in (x : Int) : 0 ≤ wrapU32 x ∧ wrapU32 x < 4294967296 := by
  unfold wrapU32; omega

theorem wrapI16_id {x : Int} (h1 : -32768 ≤ x) (h2 : x < 32768) : wrapI16 x = x := by
  unfold wrapI16; simp only []; split <;> omega

theorem wU32 {x : Int} (h1 : 0 ≤ x) (h2 : x < 4294967296) : wrapU32 x = x := by
  unfold wrapU32; omega

/-- the two transcriptions of "number of significant bits" coincide. -/
theorem bitLen_eq (n : Nat) : ∀ l : Int, HintVec.bitLen n l = FtVec.bitLen n l := by
  induction n with
  | zero => intro l; rfl
  | succ n ih => intro l; simp only [HintVec.bitLen, FtVec.bitLen, ih]

theorem bitLen_bound (n : Nat) : ∀ l : Int, 0 ≤ FtVec.bitLen n l ∧ FtVec.bitLen n l ≤ n := by
  induction n with
  | zero => intro l; simp [FtVec.bitLen]
  | succ n ih =>
    intro l
    have h := ih (l / 2)
    simp only [FtVec.bitLen]
    split
    · omega
    · push_cast; omega

theorem bitLen_pos (n : Nat) (l : Int) (h : 0 < l) : 1 ≤ FtVec.bitLen (n + 1) l := by
  have hb := bitLen_bound n (l / 2)
  simp only [FtVec.bitLen]
  split
  · omega
  · omega

theorem pow2_eq (s : Int) : HintVec.pow2 s = FtVec.pow2 s := rfl

/-- the Newton iteration: whenever skrifa's loop returns (no trap on `-(i32::MIN)`, fuel left),
FreeType's returns the same pair. -/
theorem norm_loop_eq : ∀ (fuel : Nat) (x y b : Int) (r : Int × Int),
    HintVec.normLoop fuel x y b = some r → FtVec.normLoop fuel x y b = some r := by
  intro fuel
  induction fuel with
  | zero => intro x y b r h; simp [HintVec.normLoop] at h
  | succ n ih =>
    intro x y b r h
    unfold HintVec.normLoop at h
    unfold FtVec.normLoop
    simp only [] at h ⊢
    generalize hu : wrapU32 (wrapI32 (x + wrapI32 (x * b) / 65536)) = u at h ⊢
    generalize hv : wrapU32 (wrapI32 (y + wrapI32 (y * b) / 65536)) = v at h ⊢
    have hs := wrapI32_in (wrapU32 (wrapU32 (u * u) + wrapU32 (v * v)))
    generalize wrapI32 (wrapU32 (wrapU32 (u * u) + wrapU32 (v * v))) = s at h hs ⊢
    by_cases hmin : s = -2147483648
    · simp [hmin] at h
    · simp only [hmin, if_false] at h
      have e : wrapI32 (-s) = -s := by unfold inI32 at hs; exact wI32 (by omega) (by omega)
      rw [e]
      generalize (wrapI32 ((-s).tdiv 512 * (wrapI32 (65536 + b) / 256))).tdiv 65536 = z at h ⊢
      by_cases hz : z ≤ 0
      · have hz' : ¬ z > 0 := by omega
        simp only [hz, if_true] at h
        simp only [hz', if_false]
        exact h
      · have hz' : z > 0 := by omega
        simp only [hz, if_false] at h
        simp only [hz', if_true]
        exact ih _ _ _ _ h

/-- the result of the loop is a pair of `u32` values. -/
theorem norm_loop_range : ∀ (fuel : Nat) (x y b : Int) (u v : Int),
    FtVec.normLoop fuel x y b = some (u, v) → (0 ≤ u ∧ u < 4294967296) ∧ (0 ≤ v ∧ v < 4294967296) := by
  intro fuel
  induction fuel with
  | zero => intro x y b u v h; simp [FtVec.normLoop] at h
  | succ n ih =>
    intro x y b u v h
    unfold FtVec.normLoop at h
    simp only [] at h
    split at h
    · exact ih _ _ _ _ _ h
    · simp only [Option.some.injEq, Prod.mk.injEq] at h
      rw [← h.1, ← h.2]
      exact ⟨wrapU32_in _, wrapU32_in _⟩

theorem approxLen_eq (a b : Int) : HintVec.approxLen a b = FtVec.approxLen a b := rfl

theorem approxLen_pos {a b : Int} (ha : 0 < a ∧ a ≤ 2147483648) (hb : 0 < b ∧ b ≤ 2147483648) :
    0 < FtVec.approxLen a b ∧ FtVec.approxLen a b < 4294967296 := by
  unfold FtVec.approxLen wrapU32
  split <;> omega

theorem prenorm_eq (a b l s : Int) : HintVec.prenorm a b l s = FtVec.prenorm a b l s := rfl

theorem normShift_eq (l : Int) (hl : 0 < l ∧ l < 4294967296) : HintVec.normShift l = FtVec.normShift l := by
  unfold HintVec.normShift FtVec.normShift
  simp only [pow2_eq]
  have hb1 : 1 ≤ FtVec.bitLen 32 l := bitLen_pos 31 l hl.1
  have hb2 := bitLen_bound 32 l
  have elz : HintVec.clz32 l = 31 - FtVec.msb l := by
    unfold HintVec.clz32 FtVec.msb; rw [bitLen_eq]; omega
  rw [elz]
  have hr : 0 ≤ 31 - FtVec.msb l ∧ 31 - FtVec.msb l ≤ 31 := by
    unfold FtVec.msb; omega
  generalize 31 - FtVec.msb l = sh0 at hr ⊢
  have em : sh0 % 32 = sh0 := by omega
  rw [em]
  by_cases hcnd : l ≥ 2863311530 / FtVec.pow2 sh0
  · simp only [hcnd, if_true]
    rw [show wrapI32 (15 + 1) = 15 + 1 from by decide, wI32 (by omega) (by omega)]
  · simp only [hcnd, if_false]
    rw [show wrapI32 (15 + 0) = 15 + 0 from by decide, wI32 (by omega) (by omega)]

/-- `normalize14`'s core = `FT_Vector_NormLen`'s core for magnitudes of `i32` operands. -/
theorem norm_core_eq (ux uy : Int) (hx : 0 < ux ∧ ux ≤ 2147483648) (hy : 0 < uy ∧ uy ≤ 2147483648)
    (r : Int × Int) (h : HintVec.normCore ux uy = some r) : FtVec.normCore ux uy = some r := by
  unfold HintVec.normCore at h
  unfold FtVec.normCore
  simp only [approxLen_eq, prenorm_eq] at h
  rw [normShift_eq _ (approxLen_pos hx hy)] at h
  exact norm_loop_eq _ _ _ _ _ h

/-! ### projection state -/

def axisToProj : HintVec.Axis → FtVec.ProjFn
  | .x => .px
  | .y => .py
  | .both => .general

def axisToMove : HintVec.Axis → FtVec.MoveFn
  | .x => .mx
  | .y => .my
  | .both => .direct

/-- skrifa's cached projection state read as FreeType's (`CoordAxis` ↦ function pointer). -/
def toFuncs (g : HintVec.Proj) : FtVec.Funcs :=
  { pv := g.pv, dv := g.dv, fv := g.fv, fDotP := g.fdotp,
    project := axisToProj g.projAxis, dualproj := axisToProj g.dualAxis, move := axisToMove g.freeAxis }

theorem mul_abs_bound {a b A B : Int} (ha : -A ≤ a ∧ a ≤ A) (hb : -B ≤ b ∧ b ≤ B) :
    -(A * B) ≤ a * b ∧ a * b ≤ A * B := by
  have hA : 0 ≤ A := by omega
  have hB : 0 ≤ B := by omega
  have hAB : 0 ≤ A * B := Int.mul_nonneg hA hB
  by_cases h1 : 0 ≤ a <;> by_cases h2 : 0 ≤ b
  · have := Int.mul_le_mul ha.2 hb.2 h2 hA
    have := Int.mul_nonneg h1 h2
    omega
  · have h := Int.mul_le_mul ha.2 (show -b ≤ B by omega) (show 0 ≤ -b by omega) hA
    have h' := Int.mul_nonneg h1 (show 0 ≤ -b by omega)
    rw [Int.mul_neg] at h h'
    omega
  · have h := Int.mul_le_mul (show -a ≤ A by omega) hb.2 h2 hA
    have h' := Int.mul_nonneg (show 0 ≤ -a by omega) h2
    rw [Int.neg_mul] at h h'
    omega
  · have h := Int.mul_le_mul (show -a ≤ A by omega) (show -b ≤ B by omega) (show 0 ≤ -b by omega) hA
    have h' := Int.mul_nonneg (show 0 ≤ -a by omega) (show 0 ≤ -b by omega)
    rw [Int.neg_mul_neg] at h h'
    omega

/-! ### `mul_div(distance, fv, fdotp)` in the range of a point move -/

theorem div_round_bound {p uc P : Int} (hp : 0 ≤ p ∧ p ≤ P) (hu : 1024 ≤ uc) :
    0 ≤ (p + uc / 2) / uc ∧ ((p + uc / 2) / uc - 1) * 1024 ≤ P := by
  have hq0 : 0 ≤ (p + uc / 2) / uc := Int.ediv_nonneg (by omega) (by omega)
  have hq1 : (p + uc / 2) / uc * uc ≤ p + uc / 2 := Int.ediv_mul_le _ (by omega)
  generalize (p + uc / 2) / uc = q at hq0 hq1
  refine ⟨hq0, ?_⟩
  by_cases h1 : q ≤ 0
  · have : (q - 1) * 1024 ≤ 0 := by omega
    omega
  · have h2 : (q - 1) * 1024 ≤ (q - 1) * uc := Int.mul_le_mul_of_nonneg_left hu (by omega)
    have h3 : (q - 1) * uc = q * uc - uc := by rw [Int.sub_mul, Int.one_mul]
    omega

/-- `FT_MulDiv( distance, v, F_dot_P )` for a move: |distance| ≤ 2^24, |v| ≤ 32767, |F·P| ≥ 0x400. -/
theorem ft_muldiv_small (d v f : Int) (hd : -16777216 ≤ d ∧ d ≤ 16777216) (hv : -32767 ≤ v ∧ v ≤ 32767)
    (hf : inI32 f) (hf2 : 1024 ≤ iabs f) :
    -536870913 ≤ FtCalc.mulDiv d v f ∧ FtCalc.mulDiv d v f ≤ 536870913 := by
  have hdi : inI32 d := by unfold inI32; omega
  have hvi : inI32 v := by unfold inI32; omega
  unfold FtCalc.mulDiv FtCalc.negLong FtCalc.sign3
  rw [moveSign_abs (i32_i64 hdi), moveSign_abs (i32_i64 hvi), moveSign_abs (i32_i64 hf)]
  have bc := iabs_bound hf
  have bd : 0 ≤ iabs d ∧ iabs d ≤ 16777216 := by unfold iabs; split <;> omega
  have bv : 0 ≤ iabs v ∧ iabs v ≤ 32767 := by unfold iabs; split <;> omega
  have bm := mul_abs_bound (A := 16777216) (B := 32767) (a := iabs d) (b := iabs v) (by omega) (by omega)
  have bm0 : 0 ≤ iabs d * iabs v := Int.mul_nonneg bd.1 bv.1
  simp only []
  generalize iabs d = ua at *
  generalize iabs v = ub at *
  generalize iabs f = uc at *
  generalize ua * ub = p at *
  have hz : uc > 0 := by omega
  have e1 : wrapU64 (wrapU64 p + uc / 2) = p + uc / 2 := by unfold wrapU64; omega
  rw [e1]
  have hb := div_round_bound (p := p) (uc := uc) (P := 549739036672) (by omega) hf2
  generalize (p + uc / 2) / uc = Q at *
  simp only [hz, if_true]
  have eq1 : wrapI64 Q = Q := wI64 (by omega) (by omega)
  rw [eq1]
  split
  · rw [wI64 (by omega) (by omega)]; omega
  · omega

/-- … there skrifa's `mul_div` is exactly FreeType's. -/
theorem muldiv_small_eq (d v f : Int) (hd : -16777216 ≤ d ∧ d ≤ 16777216) (hv : -32767 ≤ v ∧ v ≤ 32767)
    (hf : inI32 f) (hf2 : 1024 ≤ iabs f) : HintMath.mulDiv d v f = FtCalc.mulDiv d v f := by
  have hb := ft_muldiv_small d v f hd hv hf hf2
  unfold HintMath.mulDiv
  exact muldiv_eq_exact d v f (by unfold inI32; omega) (by unfold inI32; omega) hf (by unfold inI32; omega)

/-! ### projections -/

theorem wsub_exact {a b : Int} (ha : Dist29 a) (hb : Dist29 b) :
    HintMove.wsub a b = a - b ∧ FtCalc.subLong a b = a - b := by
  unfold Dist29 at *
  unfold HintMove.wsub FtCalc.subLong
  exact ⟨wI32 (by omega) (by omega), wI64 (by omega) (by omega)⟩

/-- `dot14` does not trap for a 31-bit difference against a 16-bit vector, and is `TT_DotFix14`. -/
theorem dot14_some (dx dy px py : Int) (hdx : -1073741824 ≤ dx ∧ dx ≤ 1073741824)
    (hdy : -1073741824 ≤ dy ∧ dy ≤ 1073741824) (hpx : -32767 ≤ px ∧ px ≤ 32767)
    (hpy : -32767 ≤ py ∧ py ≤ 32767) :
    HintMath.dot14 dx dy px py = some (FtCalc.dotFix14 dx dy px py) := by
  have m1 := mul_abs_bound (A := 1073741824) (B := 32767) hdx hpx
  have m2 := mul_abs_bound (A := 1073741824) (B := 32767) hdy hpy
  unfold HintMath.dot14 FtCalc.dotFix14
  have hp : -70366596694016 ≤ dx * px + dy * py ∧ dx * px + dy * py ≤ 70366596694016 := by omega
  generalize dx * px + dy * py = p at hp ⊢
  have c1 : HintMath.chk64 p = some p := by unfold HintMath.chk64; rw [if_pos (by omega)]
  simp only [c1, Option.bind_some]
  have c2 : HintMath.chk64 (p + (8192 + if p < 0 then -1 else 0)) = some (p + (8192 + if p < 0 then -1 else 0)) := by
    unfold HintMath.chk64; rw [if_pos (by split <;> omega)]
  simp only [c2, Option.map_some]
  have e1 : wrapI64 p = p := wI64 (by omega) (by omega)
  rw [e1]
  have e2 : wrapI64 (p + (8192 + if p < 0 then -1 else 0)) = p + (8192 + if p < 0 then -1 else 0) :=
    wI64 (by split <;> omega) (by split <;> omega)
  rw [e2]

/-- the result of a 2.14 dot product of a 31-bit difference with a 16-bit vector. -/
theorem dotFix14_bound (dx dy px py : Int) (hdx : -1073741824 ≤ dx ∧ dx ≤ 1073741824)
    (hdy : -1073741824 ≤ dy ∧ dy ≤ 1073741824) (hpx : -32767 ≤ px ∧ px ≤ 32767)
    (hpy : -32767 ≤ py ∧ py ≤ 32767) : inI64 (FtCalc.dotFix14 dx dy px py) := by
  unfold FtCalc.dotFix14
  simp only []
  have := wrapI32_in (wrapI64 (wrapI64 (dx * px + dy * py) + (8192 + if wrapI64 (dx * px + dy * py) < 0 then -1 else 0)) / 16384)
  unfold inI32 at this; unfold inI64; omega

/-- 2.14 dot product of a 21-bit difference with a 16-bit vector stays below 2^22 + 1. -/
theorem dotFix14_small (dx dy px py : Int) (hdx : -1048576 ≤ dx ∧ dx ≤ 1048576)
    (hdy : -1048576 ≤ dy ∧ dy ≤ 1048576) (hpx : -32767 ≤ px ∧ px ≤ 32767)
    (hpy : -32767 ≤ py ∧ py ≤ 32767) :
    -4194305 ≤ FtCalc.dotFix14 dx dy px py ∧ FtCalc.dotFix14 dx dy px py ≤ 4194305 := by
  have m1 := mul_abs_bound (A := 1048576) (B := 32767) hdx hpx
  have m2 := mul_abs_bound (A := 1048576) (B := 32767) hdy hpy
  unfold FtCalc.dotFix14
  have hp : -68717379584 ≤ dx * px + dy * py ∧ dx * px + dy * py ≤ 68717379584 := by omega
  generalize dx * px + dy * py = p at hp ⊢
  have e1 : wrapI64 p = p := wI64 (by omega) (by omega)
  simp only [e1]
  have e2 : wrapI64 (p + (8192 + if p < 0 then -1 else 0)) = p + (8192 + if p < 0 then -1 else 0) :=
    wI64 (by split <;> omega) (by split <;> omega)
  rw [e2]
  have hq : -4194305 ≤ (p + (8192 + if p < 0 then -1 else 0)) / 16384 ∧
      (p + (8192 + if p < 0 then -1 else 0)) / 16384 ≤ 4194305 := by split <;> omega
  rw [wI32 (by omega) (by omega)]
  exact hq

/-! ### ISECT helpers -/

/-- `FT_MulDiv( a, b, 0x40 )` for 16-bit differences: magnitude at most 2^24 + 1. -/
theorem ft_muldiv64_bound (a b : Int) (ha : -32768 ≤ a ∧ a ≤ 32768) (hb : -32768 ≤ b ∧ b ≤ 32768) :
    -16777217 ≤ FtCalc.mulDiv a b 64 ∧ FtCalc.mulDiv a b 64 ≤ 16777217 := by
  have hai : inI32 a := by unfold inI32; omega
  have hbi : inI32 b := by unfold inI32; omega
  unfold FtCalc.mulDiv FtCalc.negLong FtCalc.sign3
  rw [moveSign_abs (i32_i64 hai), moveSign_abs (i32_i64 hbi), moveSign_abs (show inI64 64 by decide)]
  have ba : 0 ≤ iabs a ∧ iabs a ≤ 32768 := by unfold iabs; split <;> omega
  have bb : 0 ≤ iabs b ∧ iabs b ≤ 32768 := by unfold iabs; split <;> omega
  have bm := mul_abs_bound (A := 32768) (B := 32768) (a := iabs a) (b := iabs b) (by omega) (by omega)
  have bm0 : 0 ≤ iabs a * iabs b := Int.mul_nonneg ba.1 bb.1
  simp only [show iabs 64 = 64 from by decide]
  generalize iabs a * iabs b = p at *
  have e1 : wrapU64 (wrapU64 p + 64 / 2) = p + 32 := by unfold wrapU64; omega
  simp only [show ((64:Int) > 0) = True from by decide, if_true, e1]
  have eq1 : wrapI64 ((p + 32) / 64) = (p + 32) / 64 := wI64 (by omega) (by omega)
  rw [eq1]
  split
  · rw [wI64 (by omega) (by omega)]; omega
  · omega

/-- … and there skrifa's `mul_div(a, b, 0x40)` is exactly FreeType's. -/
theorem muldiv64_eq (a b : Int) (ha : -32768 ≤ a ∧ a ≤ 32768) (hb : -32768 ≤ b ∧ b ≤ 32768) :
    HintMath.mulDiv a b 64 = FtCalc.mulDiv a b 64 := by
  have hb' := ft_muldiv64_bound a b ha hb
  unfold HintMath.mulDiv
  exact muldiv_eq_exact a b 64 (by unfold inI32; omega) (by unfold inI32; omega) (by decide) (by unfold inI32; omega)

/-- any `FT_MulDiv` of i32 operands stays far inside the 64-bit range. -/
theorem ft_muldiv_i64 (a b c : Int) (ha : inI32 a) (hb : inI32 b) (hc : inI32 c) :
    -4611686020574871552 ≤ FtCalc.mulDiv a b c ∧ FtCalc.mulDiv a b c ≤ 4611686020574871552 := by
  unfold FtCalc.mulDiv FtCalc.negLong FtCalc.sign3
  rw [moveSign_abs (i32_i64 ha), moveSign_abs (i32_i64 hb), moveSign_abs (i32_i64 hc)]
  have ba := iabs_bound ha
  have bb := iabs_bound hb
  have bc := iabs_bound hc
  have bm := mul_bound ba bb
  simp only []
  generalize iabs a = ua at *
  generalize iabs b = ub at *
  generalize iabs c = uc at *
  generalize ua * ub = p at *
  by_cases hz : uc > 0
  · have e1 : wrapU64 (wrapU64 p + uc / 2) = p + uc / 2 := by unfold wrapU64; omega
    rw [e1]
    have hq0 : 0 ≤ (p + uc / 2) / uc := Int.ediv_nonneg (by omega) (by omega)
    have hq1 : (p + uc / 2) / uc ≤ p + uc / 2 := Int.ediv_le_self _ (by omega)
    generalize (p + uc / 2) / uc = Q at *
    simp only [hz, if_true]
    have eq1 : wrapI64 Q = Q := wI64 (by omega) (by omega)
    rw [eq1]
    split
    · rw [wI64 (by omega) (by omega)]; omega
    · omega
  · simp only [hz, if_false]
    rw [show wrapI64 2147483647 = 2147483647 from by decide]
    split
    · rw [show wrapI64 (-2147483647) = -2147483647 from by decide]; omega
    · omega

theorem wrap_add_wrap (a x : Int) : wrapI32 (a + wrapI32 x) = wrapI32 (a + x) := by
  unfold wrapI32; simp only []; split <;> split <;> split <;> omega

end FontVerif.C03
