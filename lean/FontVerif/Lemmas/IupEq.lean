/- `Zone::iup` = `Ins_IUP` as a whole: the invariant argument (Props/C03Interp.lean `iup_eq`). -/
import FontVerif.Lemmas.InterpEq
import FontVerif.Props.C03Interp
set_option linter.unusedVariables false
set_option linter.unusedSimpArgs false
set_option maxRecDepth 8000
namespace FontVerif.C03
open FontVerif FontVerif.Tt

/-- the interpolation term for touched references stays within ±2^30. -/
def IupTerm (ax : Bool) (pts : List ZPt) : Prop :=
  ∀ r1 r2 p : ZPt, r1 ∈ pts → r2 ∈ pts → p ∈ pts → FtInterp.touched ax r1 = true → FtInterp.touched ax r2 = true →
    -1073741824 ≤ iupTermCore (FtInterp.co ax r1.orus) (FtInterp.co ax r2.orus) (FtInterp.co ax r1.cur) (FtInterp.co ax r2.cur) (FtInterp.co ax p.orus) ∧
    iupTermCore (FtInterp.co ax r1.orus) (FtInterp.co ax r2.orus) (FtInterp.co ax r1.cur) (FtInterp.co ax r2.cur) (FtInterp.co ax p.orus) ≤ 1073741824

/-- the running invariant of the IUP walk: original and unscaled coordinates of every point and the
current coordinate of every TOUCHED point are within ±2^29; so is the current coordinate of every point
from index `lo` on (the part of the zone no call has written yet). -/
def IupInv (ax : Bool) (pts : List ZPt) (lo : Nat) : Prop :=
  (∀ p ∈ pts, Dist29 (FtInterp.co ax p.org) ∧ Dist29 (FtInterp.co ax p.orus) ∧
    (FtInterp.touched ax p = true → Dist29 (FtInterp.co ax p.cur))) ∧
  (∀ i p, pts[i]? = some p → lo ≤ i → Dist29 (FtInterp.co ax p.cur)) ∧
  IupTerm ax pts

/-- element access into the result of `mapRange`. -/
theorem mapRange_get (pts : List ZPt) (p1 p2 : Nat) (f : ZPt → ZPt) (i : Nat) :
    (FtInterp.mapRange pts p1 p2 f)[i]? = (pts[i]?).map (fun p => if p1 ≤ i ∧ i ≤ p2 then f p else p) := by
  unfold FtInterp.mapRange
  rw [List.getElem?_map, List.getElem?_zipIdx]
  cases pts[i]? with
  | none => rfl
  | some p => simp

theorem mapRange_length (pts : List ZPt) (p1 p2 : Nat) (f : ZPt → ZPt) :
    (FtInterp.mapRange pts p1 p2 f).length = pts.length := by
  unfold FtInterp.mapRange; simp

/-- a member of the mapped list comes from a member of the original at the same index. -/
theorem mapRange_mem (pts : List ZPt) (p1 p2 : Nat) (f : ZPt → ZPt) (q : ZPt) (hq : q ∈ FtInterp.mapRange pts p1 p2 f) :
    ∃ i p, pts[i]? = some p ∧ q = (if p1 ≤ i ∧ i ≤ p2 then f p else p) := by
  obtain ⟨i, hi, e⟩ := List.getElem_of_mem hq
  have h := mapRange_get pts p1 p2 f i
  rw [List.getElem?_eq_getElem hi] at h
  cases hp : pts[i]? with
  | none => rw [hp] at h; simp at h
  | some p =>
    rw [hp] at h
    simp only [Option.map_some, Option.some.injEq] at h
    exact ⟨i, p, hp, by rw [← e, h]⟩

/-- **one `iup_interpolate` call inside the walk**: the references are touched points, the written range
holds only untouched points: the two calls agree and the invariant survives (with the unwritten part of the
zone starting after the range). -/
theorem interp_step (ax : Bool) (pts : List ZPt) (p1 p2 r1 r2 lo lo' : Nat) (hinv : IupInv ax pts lo)
    (hunt : ∀ i p, pts[i]? = some p → p1 ≤ i → i ≤ p2 → FtInterp.touched ax p = false)
    (hr1 : ∀ p, pts[r1]? = some p → FtInterp.touched ax p = true)
    (hr2 : ∀ p, pts[r2]? = some p → FtInterp.touched ax p = true)
    (hlo : lo ≤ lo' ∧ p2 < lo') :
    HintInterp.iupInterpolate ax pts p1 p2 r1 r2 = some (FtInterp.iupInterpolate ax pts p1 p2 r1 r2) ∧
    IupInv ax (FtInterp.iupInterpolate ax pts p1 p2 r1 r2) lo' ∧
    (FtInterp.iupInterpolate ax pts p1 p2 r1 r2).length = pts.length ∧
    (∀ i, FtInterp.isTouched ax (FtInterp.iupInterpolate ax pts p1 p2 r1 r2) i = FtInterp.isTouched ax pts i) := by
  obtain ⟨hall, hcur, hterm⟩ := hinv
  have hweak : IupInv ax pts lo' := ⟨hall, fun i p hp hi => hcur i p hp (by omega), hterm⟩
  unfold HintInterp.iupInterpolate FtInterp.iupInterpolate
  by_cases h1 : p1 > p2
  · simp only [h1, if_true]; exact ⟨by first | rfl | trivial, hweak, by first | rfl | trivial, fun _ => by first | rfl | trivial⟩
  · simp only [h1, if_false]
    by_cases h2 : r1 ≥ pts.length ∨ r2 ≥ pts.length
    · simp only [h2, if_true]; exact ⟨by first | rfl | trivial, hweak, by first | rfl | trivial, fun _ => by first | rfl | trivial⟩
    · simp only [h2, if_false]
      cases hq1 : pts[r1]? with
      | none => simp only []; exact ⟨by first | rfl | trivial, hweak, by first | rfl | trivial, fun _ => by first | rfl | trivial⟩
      | some ra0 =>
        cases hq2 : pts[r2]? with
        | none => simp only []; exact ⟨by first | rfl | trivial, hweak, by first | rfl | trivial, fun _ => by first | rfl | trivial⟩
        | some rb0 =>
          simp only [orderRefs_eq]
          have m1 : ra0 ∈ pts := List.mem_of_getElem? hq1
          have m2 : rb0 ∈ pts := List.mem_of_getElem? hq2
          have t1 := hr1 ra0 hq1
          have t2 := hr2 rb0 hq2
          have hmem : ((FtInterp.orderRefs ax ra0 rb0).1 ∈ pts ∧ FtInterp.touched ax (FtInterp.orderRefs ax ra0 rb0).1 = true) ∧
              ((FtInterp.orderRefs ax ra0 rb0).2 ∈ pts ∧ FtInterp.touched ax (FtInterp.orderRefs ax ra0 rb0).2 = true) := by
            unfold FtInterp.orderRefs; split <;> exact ⟨⟨by assumption, by assumption⟩, ⟨by assumption, by assumption⟩⟩
          generalize FtInterp.orderRefs ax ra0 rb0 = rr at hmem
          obtain ⟨ra, rb⟩ := rr
          simp only [] at hmem ⊢
          have ha := hall ra hmem.1.1
          have hb := hall rb hmem.2.1
          -- the kernel on one point of the zone
          have hk : ∀ q ∈ pts, HintInterp.interpCoord ax ra rb (HintInterp.co ax q.org) (HintInterp.co ax q.orus) =
              some (FtInterp.interpCoord ax ra rb (FtInterp.co ax q.org) (FtInterp.co ax q.orus)) := by
            intro q hq
            have hqz := hall q hq
            unfold HintInterp.interpCoord FtInterp.interpCoord
            simp only [co_eq]
            exact iup_interp_core_eq _ _ _ _ _ _ _ _ ha.2.1 hb.2.1 ha.1 hb.1 (ha.2.2 hmem.1.2) (hb.2.2 hmem.2.2)
              hqz.1 hqz.2.1 (hterm ra rb q hmem.1.1 hmem.2.1 hq hmem.1.2 hmem.2.2)
          refine ⟨?_, ?_, mapRange_length _ _ _ _, ?_⟩
          · unfold HintInterp.mapRange FtInterp.mapRange
            apply mapM_some_of_forall
            intro ⟨q, i⟩ hq
            have hqm : q ∈ pts := (List.mem_zipIdx hq).2.2 ▸ List.getElem_mem _
            simp only []
            split
            · rw [hk q hqm]; simp only [Option.map_some, co_eq, setCo_eq]
            · rfl
          · -- the invariant after the call
            refine ⟨?_, ?_, ?_⟩
            · intro q hq
              obtain ⟨i, p, hp, e⟩ := mapRange_mem _ _ _ _ q hq
              have hpz := hall p (List.mem_of_getElem? hp)
              by_cases hin : p1 ≤ i ∧ i ≤ p2
              · rw [if_pos hin] at e
                have hu := hunt i p hp hin.1 hin.2
                rw [e]
                refine ⟨hpz.1, hpz.2.1, ?_⟩
                intro ht
                have : FtInterp.touched ax p = true := ht
                rw [hu] at this; exact absurd this (by decide)
              · rw [if_neg hin] at e; rw [e]; exact hpz
            · intro i q hq hi
              rw [mapRange_get] at hq
              cases hp : pts[i]? with
              | none => rw [hp] at hq; simp at hq
              | some p =>
                rw [hp] at hq
                simp only [Option.map_some, Option.some.injEq] at hq
                have hni : ¬ (p1 ≤ i ∧ i ≤ p2) := by omega
                rw [if_neg hni] at hq
                rw [← hq]; exact hcur i p hp (by omega)
            · intro s1 s2 q hs1 hs2 hq ht1 ht2
              -- touched members of the new list are members of the old one
              have back : ∀ s, s ∈ FtInterp.mapRange pts p1 p2 (fun p => { p with cur := FtInterp.setCo ax p.cur (FtInterp.interpCoord ax ra rb (FtInterp.co ax p.org) (FtInterp.co ax p.orus)) }) →
                  FtInterp.touched ax s = true → s ∈ pts := by
                intro s hs ht
                obtain ⟨i, p, hp, e⟩ := mapRange_mem _ _ _ _ s hs
                by_cases hin : p1 ≤ i ∧ i ≤ p2
                · rw [if_pos hin] at e
                  have hu := hunt i p hp hin.1 hin.2
                  rw [e] at ht
                  have : FtInterp.touched ax p = true := ht
                  rw [hu] at this; exact absurd this (by decide)
                · rw [if_neg hin] at e; rw [e]; exact List.mem_of_getElem? hp
              obtain ⟨i, p, hp, e⟩ := mapRange_mem _ _ _ _ q hq
              have horus : FtInterp.co ax q.orus = FtInterp.co ax p.orus := by
                rw [e]; split <;> rfl
              rw [horus]
              exact hterm s1 s2 p (back s1 hs1 ht1) (back s2 hs2 ht2) (List.mem_of_getElem? hp) ht1 ht2
          · intro i
            unfold FtInterp.isTouched
            rw [mapRange_get]
            cases hp : pts[i]? with
            | none => rfl
            | some p => simp only [Option.map_some]; split <;> rfl

theorem zipMap_get (pts : List ZPt) (g : ZPt × Nat → ZPt) (i : Nat) :
    ((pts.zipIdx).map g)[i]? = (pts[i]?).map (fun p => g (p, i)) := by
  rw [List.getElem?_map, List.getElem?_zipIdx]
  cases pts[i]? with
  | none => rfl
  | some p => simp

theorem zipMap_mem (pts : List ZPt) (g : ZPt × Nat → ZPt) (q : ZPt) (hq : q ∈ (pts.zipIdx).map g) :
    ∃ i p, pts[i]? = some p ∧ q = g (p, i) := by
  obtain ⟨i, hi, e⟩ := List.getElem_of_mem hq
  have h := zipMap_get pts g i
  rw [List.getElem?_eq_getElem hi] at h
  cases hp : pts[i]? with
  | none => rw [hp] at h; simp at h
  | some p =>
    rw [hp] at h
    simp only [Option.map_some, Option.some.injEq] at h
    exact ⟨i, p, hp, by rw [← e, h]⟩

/-- **the `iup_shift` call of the walk**: `first ≤ ct ≤ endp`, `ct` the only touched point of the contour,
nothing of the contour written yet. -/
theorem shift_step (ax : Bool) (pts : List ZPt) (first endp ct lo : Nat) (hinv : IupInv ax pts lo)
    (hlo : lo ≤ first) (hord : first ≤ ct ∧ ct ≤ endp)
    (hct : ∀ p, pts[ct]? = some p → FtInterp.touched ax p = true)
    (hunt : ∀ i p, pts[i]? = some p → first ≤ i → i ≤ endp → i ≠ ct → FtInterp.touched ax p = false) :
    HintInterp.iupShift ax pts first endp ct = some (FtInterp.iupShift ax pts first endp ct) ∧
    IupInv ax (FtInterp.iupShift ax pts first endp ct) (endp + 1) ∧
    (FtInterp.iupShift ax pts first endp ct).length = pts.length ∧
    (∀ i, FtInterp.isTouched ax (FtInterp.iupShift ax pts first endp ct) i = FtInterp.isTouched ax pts i) := by
  obtain ⟨hall, hcur, hterm⟩ := hinv
  have hweak : IupInv ax pts (endp + 1) := ⟨hall, fun i p hp hi => hcur i p hp (by omega), hterm⟩
  unfold HintInterp.iupShift FtInterp.iupShift
  have hg : ¬ (first > endp ∨ first > ct ∨ ct > endp) := by omega
  simp only [hg, if_false]
  cases hr : pts[ct]? with
  | none => simp only []; exact ⟨by first | rfl | trivial, hweak, by first | rfl | trivial, fun _ => by first | rfl | trivial⟩
  | some r =>
    simp only [co_eq]
    have mr : r ∈ pts := List.mem_of_getElem? hr
    have hrz := hall r mr
    have hrc := hrz.2.2 (hct r hr)
    have e0 := (iup_shift_coord_eq 0 _ _ (by unfold Dist29; omega) hrc hrz.1).1
    simp only [e0]
    by_cases hd : FtCalc.subLong (FtInterp.co ax r.cur) (FtInterp.co ax r.org) = 0
    · simp only [hd, if_true]; exact ⟨by first | rfl | trivial, hweak, by first | rfl | trivial, fun _ => by first | rfl | trivial⟩
    · simp only [hd, if_false]
      have hc : ∀ i : Nat, (first ≤ i ∧ i ≤ endp ∧ i ≠ ct) ↔ ((first ≤ i ∧ i < ct) ∨ (ct + 1 ≤ i ∧ i ≤ endp)) := by
        intro i; omega
      refine ⟨?_, ?_, by simp, ?_⟩
      · apply mapM_some_of_forall
        intro ⟨q, i⟩ hq
        have hqi := List.mem_zipIdx hq
        have hqe : pts[i]? = some q := by
          have : i < pts.length := by omega
          rw [List.getElem?_eq_getElem this]; simp only [Option.some.injEq]; have := hqi.2.2; simp at this; exact this.symm
        simp only []
        by_cases hin : first ≤ i ∧ i ≤ endp ∧ i ≠ ct
        · have hin' := (hc i).mp hin
          have hqc := hcur i q hqe (by omega)
          have e1 := iup_shift_coord_eq (FtInterp.co ax q.cur) (FtInterp.co ax r.cur) (FtInterp.co ax r.org) hqc hrc hrz.1
          have e2 := e1.2
          rw [e1.1] at e2
          rw [if_pos hin, if_pos hin']
          simp only [Option.some.injEq, setCo_eq, co_eq, e2]
        · have hin' : ¬ ((first ≤ i ∧ i < ct) ∨ (ct + 1 ≤ i ∧ i ≤ endp)) := fun h => hin ((hc i).mpr h)
          rw [if_neg hin, if_neg hin']
      · refine ⟨?_, ?_, ?_⟩
        · intro q hq
          obtain ⟨i, p, hp, e⟩ := zipMap_mem _ _ q hq
          have hpz := hall p (List.mem_of_getElem? hp)
          simp only [] at e
          by_cases hin : (first ≤ i ∧ i < ct) ∨ (ct + 1 ≤ i ∧ i ≤ endp)
          · rw [if_pos hin] at e
            have hu := hunt i p hp (by omega) (by omega) (by omega)
            rw [e]
            refine ⟨hpz.1, hpz.2.1, ?_⟩
            intro ht
            have : FtInterp.touched ax p = true := ht
            rw [hu] at this; exact absurd this (by decide)
          · rw [if_neg hin] at e; rw [e]; exact hpz
        · intro i q hq hi
          rw [zipMap_get] at hq
          cases hp : pts[i]? with
          | none => rw [hp] at hq; simp at hq
          | some p =>
            rw [hp] at hq
            simp only [Option.map_some, Option.some.injEq] at hq
            have hni : ¬ ((first ≤ i ∧ i < ct) ∨ (ct + 1 ≤ i ∧ i ≤ endp)) := by omega
            rw [if_neg hni] at hq
            rw [← hq]; exact hcur i p hp (by omega)
        · intro s1 s2 q hs1 hs2 hq ht1 ht2
          have back : ∀ s, s ∈ (pts.zipIdx).map (fun x : ZPt × Nat =>
                if (first ≤ x.2 ∧ x.2 < ct) ∨ (ct + 1 ≤ x.2 ∧ x.2 ≤ endp) then
                  { x.1 with cur := FtInterp.setCo ax x.1.cur (FtCalc.addLong (FtInterp.co ax x.1.cur) (FtCalc.subLong (FtInterp.co ax r.cur) (FtInterp.co ax r.org))) }
                else x.1) →
              FtInterp.touched ax s = true → s ∈ pts := by
            intro s hs ht
            obtain ⟨i, p, hp, e⟩ := zipMap_mem _ _ s hs
            simp only [] at e
            by_cases hin : (first ≤ i ∧ i < ct) ∨ (ct + 1 ≤ i ∧ i ≤ endp)
            · rw [if_pos hin] at e
              have hu := hunt i p hp (by omega) (by omega) (by omega)
              rw [e] at ht
              have : FtInterp.touched ax p = true := ht
              rw [hu] at this; exact absurd this (by decide)
            · rw [if_neg hin] at e; rw [e]; exact List.mem_of_getElem? hp
          obtain ⟨i, p, hp, e⟩ := zipMap_mem _ _ q hq
          have horus : FtInterp.co ax q.orus = FtInterp.co ax p.orus := by
            rw [e]; simp only []; split <;> rfl
          rw [horus]
          exact hterm s1 s2 p (back s1 hs1 ht1) (back s2 hs2 ht2) (List.mem_of_getElem? hp) ht1 ht2
      · intro i
        unfold FtInterp.isTouched
        rw [zipMap_get]
        cases hp : pts[i]? with
        | none => rfl
        | some p => simp only [Option.map_some]; split <;> rfl

/-- the scan for the first touched point: everything skipped is untouched, and if the scan stops inside the
contour it stops at a touched point (given enough fuel). -/
theorem skip_spec (ax : Bool) (pts : List ZPt) : ∀ (fuel point endp : Nat), endp + 1 ≤ point + fuel →
    point ≤ FtInterp.skipUntouched ax pts fuel point endp ∧
    (∀ i, point ≤ i → i < FtInterp.skipUntouched ax pts fuel point endp → FtInterp.isTouched ax pts i = false) ∧
    (FtInterp.skipUntouched ax pts fuel point endp ≤ endp → FtInterp.isTouched ax pts (FtInterp.skipUntouched ax pts fuel point endp) = true) ∧
    (point ≤ endp + 1 → FtInterp.skipUntouched ax pts fuel point endp ≤ endp + 1) := by
  intro fuel
  induction fuel with
  | zero =>
    intro point endp h
    simp only [FtInterp.skipUntouched]
    exact ⟨Nat.le_refl _, fun i h1 h2 => by omega, fun h2 => by omega, fun h2 => h2⟩
  | succ n ih =>
    intro point endp h
    simp only [FtInterp.skipUntouched]
    by_cases hc : point ≤ endp ∧ ¬ FtInterp.isTouched ax pts point = true
    · rw [if_pos hc]
      have h' := ih (point + 1) endp (by omega)
      refine ⟨by omega, ?_, h'.2.2.1, fun _ => h'.2.2.2 (by omega)⟩
      intro i h1 h2
      by_cases hi : i = point
      · rw [hi]; simpa using hc.2
      · exact h'.2.1 i (by omega) h2
    · rw [if_neg hc]
      refine ⟨Nat.le_refl _, fun i h1 h2 => by omega, ?_, fun h2 => h2⟩
      intro h2
      by_cases ht : FtInterp.isTouched ax pts point = true
      · exact ht
      · exact absurd ⟨h2, ht⟩ hc

theorem isTouched_get (ax : Bool) (pts : List ZPt) (i : Nat) (p : ZPt) (hp : pts[i]? = some p) :
    FtInterp.isTouched ax pts i = FtInterp.touched ax p := by
  unfold FtInterp.isTouched; rw [hp]

/-- **the inner walk** over the rest of a contour: skrifa's loop is FreeType's; afterwards the invariant
holds with the whole contour counted as written, nothing changed if no further touched point was found,
and everything after the last touched point is untouched. -/
theorem walk_spec (ax : Bool) : ∀ (fuel : Nat) (pts : List ZPt) (point endp ct lo : Nat),
    endp + 1 ≤ point + fuel → IupInv ax pts lo → lo ≤ endp + 1 → ct < point →
    FtInterp.isTouched ax pts ct = true →
    (∀ i, ct < i → i < point → FtInterp.isTouched ax pts i = false) →
    HintInterp.walkTouched ax fuel pts point endp ct = some (FtInterp.walkTouched ax fuel pts point endp ct) ∧
    IupInv ax (FtInterp.walkTouched ax fuel pts point endp ct).1 (endp + 1) ∧
    (FtInterp.walkTouched ax fuel pts point endp ct).1.length = pts.length ∧
    (∀ i, FtInterp.isTouched ax (FtInterp.walkTouched ax fuel pts point endp ct).1 i = FtInterp.isTouched ax pts i) ∧
    ((FtInterp.walkTouched ax fuel pts point endp ct).2 = ct → (FtInterp.walkTouched ax fuel pts point endp ct).1 = pts) ∧
    ct ≤ (FtInterp.walkTouched ax fuel pts point endp ct).2 ∧
    ((FtInterp.walkTouched ax fuel pts point endp ct).2 ≠ ct → (FtInterp.walkTouched ax fuel pts point endp ct).2 ≤ endp) ∧
    FtInterp.isTouched ax pts (FtInterp.walkTouched ax fuel pts point endp ct).2 = true ∧
    (∀ i, (FtInterp.walkTouched ax fuel pts point endp ct).2 < i → i ≤ endp → FtInterp.isTouched ax pts i = false) := by
  intro fuel
  induction fuel with
  | zero =>
    intro pts point endp ct lo hf hinv hlo hct htc hun
    simp only [HintInterp.walkTouched, FtInterp.walkTouched]
    obtain ⟨hall, hcur, hterm⟩ := hinv
    refine ⟨by first | rfl | trivial, ⟨hall, fun i p hp hi => hcur i p hp (by omega), hterm⟩, by first | rfl | trivial,
      fun _ => by first | rfl | trivial, fun _ => by first | rfl | trivial, Nat.le_refl _,
      fun h => absurd rfl h, htc, ?_⟩
    intro i h1 h2
    exact hun i h1 (by omega)
  | succ n ih =>
    intro pts point endp ct lo hf hinv hlo hct htc hun
    simp only [HintInterp.walkTouched, FtInterp.walkTouched]
    by_cases hpe : point ≤ endp
    · rw [if_pos hpe, if_pos hpe]
      simp only [isTouched_eq]
      by_cases htp : FtInterp.isTouched ax pts point = true
      · simp only [htp, if_true]
        -- a touched point: interpolate the untouched run behind it
        have hstep := interp_step ax pts (ct + 1) (point - 1) ct point lo (endp + 1) hinv
          (by
            intro i p hp h1 h2
            have := hun i (by omega) (by omega)
            rw [isTouched_get ax pts i p hp] at this; exact this)
          (by intro p hp; rw [← isTouched_get ax pts ct p hp]; exact htc)
          (by intro p hp; rw [← isTouched_get ax pts point p hp]; exact htp)
          ⟨hlo, by omega⟩
        rw [hstep.1]
        simp only [Option.bind_some]
        generalize FtInterp.iupInterpolate ax pts (ct + 1) (point - 1) ct point = pts1 at hstep ⊢
        have hrec := ih pts1 (point + 1) endp point (endp + 1) (by omega) hstep.2.1 (Nat.le_refl _) (by omega)
          (by rw [hstep.2.2.2 point]; exact htp)
          (by intro i h1 h2; omega)
        refine ⟨hrec.1, hrec.2.1, by rw [hrec.2.2.1, hstep.2.2.1], ?_, ?_, by have := hrec.2.2.2.2.2.1; omega, ?_, ?_, ?_⟩
        · intro i; rw [hrec.2.2.2.1 i, hstep.2.2.2 i]
        · intro h; have := hrec.2.2.2.2.2.1; omega
        · intro _
          by_cases he : (FtInterp.walkTouched ax n pts1 (point + 1) endp point).2 = point
          · rw [he]; exact hpe
          · exact hrec.2.2.2.2.2.2.1 he
        · have := hrec.2.2.2.2.2.2.2.1
          rw [hstep.2.2.2] at this; exact this
        · intro i h1 h2
          have := hrec.2.2.2.2.2.2.2.2 i h1 h2
          rw [hstep.2.2.2] at this; exact this
      · have hfalse : FtInterp.isTouched ax pts point = false := by
          cases h : FtInterp.isTouched ax pts point with
          | true => exact absurd h htp
          | false => rfl
        simp only [hfalse, Bool.false_eq_true, if_false]
        exact ih pts (point + 1) endp ct lo (by omega) hinv hlo (by omega) htc
          (by
            intro i h1 h2
            by_cases hi : i = point
            · rw [hi]; exact hfalse
            · exact hun i h1 (by omega))
    · rw [if_neg hpe, if_neg hpe]
      obtain ⟨hall, hcur, hterm⟩ := hinv
      refine ⟨by first | rfl | trivial, ⟨hall, fun i p hp hi => hcur i p hp (by omega), hterm⟩, by first | rfl | trivial,
        fun _ => by first | rfl | trivial, fun _ => by first | rfl | trivial, Nat.le_refl _,
        fun h => absurd rfl h, htc, ?_⟩
      intro i h1 h2
      exact hun i h1 (by omega)

theorem skip_eq (ax : Bool) (pts : List ZPt) (fuel point endp : Nat) :
    HintInterp.skipUntouched ax pts fuel point endp = FtInterp.skipUntouched ax pts fuel point endp :=
  skipUntouched_eq ax pts fuel point endp

/-- **one contour** of `Zone::iup` = one iteration of `Ins_IUP`'s contour loop. -/
theorem contour_spec (ax : Bool) (pts : List ZPt) (point e lo : Nat) (hinv : IupInv ax pts lo) (hlo : lo ≤ point) :
    HintInterp.iupContour ax pts point e = some (FtInterp.iupContour ax pts point e) ∧
    IupInv ax (FtInterp.iupContour ax pts point e).1 (FtInterp.iupContour ax pts point e).2 ∧
    (FtInterp.iupContour ax pts point e).1.length = pts.length := by
  unfold HintInterp.iupContour FtInterp.iupContour
  simp only [skip_eq]
  generalize hE : (if e ≥ pts.length then pts.length - 1 else e) = endp
  have hsk := skip_spec ax pts (endp + 2) point endp (by omega)
  generalize hP : FtInterp.skipUntouched ax pts (endp + 2) point endp = p1 at hsk ⊢
  by_cases hin : p1 ≤ endp
  · simp only [hin, if_true]
    have htp := hsk.2.2.1 hin
    have hw := walk_spec ax (endp + 2) pts (p1 + 1) endp p1 lo (by omega) hinv (by omega) (by omega) htp
      (by intro i h1 h2; omega)
    rw [hw.1]
    simp only [Option.bind_some]
    generalize hW : FtInterp.walkTouched ax (endp + 2) pts (p1 + 1) endp p1 = w at hw ⊢
    obtain ⟨pts1, ct⟩ := w
    simp only [] at hw ⊢
    have hnext : (if p1 + 1 ≤ endp then endp + 1 else p1 + 1) = endp + 1 := by split <;> omega
    simp only [hnext]
    obtain ⟨hw1, hw2, hw3, hw4, hw5, hw6, hw7, hw8, hw9⟩ := hw
    by_cases hct : ct = p1
    · -- a single touched point: shift the rest of the contour (nothing has been written yet)
      simp only [hct, if_true]
      have hun := hw5 hct
      rw [hun]
      have hs := shift_step ax pts point endp p1 lo hinv hlo ⟨hsk.1, hin⟩
        (by intro p hp; rw [← isTouched_get ax pts p1 p hp]; exact htp)
        (by
          intro i p hp h1 h2 h3
          rw [← isTouched_get ax pts i p hp]
          by_cases hlt : i < p1
          · exact hsk.2.1 i h1 hlt
          · exact hw9 i (by omega) h2)
      rw [hs.1]
      simp only [Option.map_some]
      exact ⟨by first | rfl | trivial, hs.2.1, hs.2.2.1⟩
    · -- at least two touched points: the wrap-around interpolations
      simp only [hct, if_false]
      have hcle := hw7 hct
      have tch : ∀ i, FtInterp.isTouched ax pts1 i = FtInterp.isTouched ax pts i := hw4
      have hs1 := interp_step ax pts1 (ct + 1) endp ct p1 (endp + 1) (endp + 1) hw2
        (by
          intro i p hp h1 h2
          rw [← isTouched_get ax pts1 i p hp, tch]
          exact hw9 i (by omega) h2)
        (by intro p hp; rw [← isTouched_get ax pts1 ct p hp, tch]; exact hw8)
        (by intro p hp; rw [← isTouched_get ax pts1 p1 p hp, tch]; exact htp)
        ⟨Nat.le_refl _, by omega⟩
      rw [hs1.1]
      simp only [Option.bind_some]
      generalize FtInterp.iupInterpolate ax pts1 (ct + 1) endp ct p1 = pts2 at hs1 ⊢
      have tch2 : ∀ i, FtInterp.isTouched ax pts2 i = FtInterp.isTouched ax pts i := by
        intro i; rw [hs1.2.2.2 i, tch i]
      by_cases hft : p1 > 0
      · simp only [hft, if_true]
        have hs2 := interp_step ax pts2 point (p1 - 1) ct p1 (endp + 1) (endp + 1) hs1.2.1
          (by
            intro i p hp h1 h2
            rw [← isTouched_get ax pts2 i p hp, tch2]
            exact hsk.2.1 i h1 (by omega))
          (by intro p hp; rw [← isTouched_get ax pts2 ct p hp, tch2]; exact hw8)
          (by intro p hp; rw [← isTouched_get ax pts2 p1 p hp, tch2]; exact htp)
          ⟨Nat.le_refl _, by omega⟩
        rw [hs2.1]
        simp only [Option.map_some]
        exact ⟨by first | rfl | trivial, hs2.2.1, by rw [hs2.2.2.1, hs1.2.2.1, hw3]⟩
      · simp only [hft, if_false]
        exact ⟨by first | rfl | trivial, hs1.2.1, by rw [hs1.2.2.1, hw3]⟩
  · simp only [hin, if_false]
    refine ⟨by first | rfl | trivial, ?_, by first | rfl | trivial⟩
    obtain ⟨hall, hcur, hterm⟩ := hinv
    exact ⟨hall, fun i p hp hi => hcur i p hp (by omega), hterm⟩

/-- **all contours**. -/
theorem loop_spec (ax : Bool) : ∀ (ends : List Nat) (pts : List ZPt) (point lo : Nat), IupInv ax pts lo → lo ≤ point →
    HintInterp.iupLoop ax ends pts point = some (FtInterp.iupLoop ax ends pts point) := by
  intro ends
  induction ends with
  | nil => intro pts point lo _ _; rfl
  | cons e rest ih =>
    intro pts point lo hinv hlo
    have hc := contour_spec ax pts point e lo hinv hlo
    simp only [HintInterp.iupLoop, FtInterp.iupLoop]
    rw [hc.1]
    simp only [Option.bind_some]
    generalize FtInterp.iupContour ax pts point e = r at hc ⊢
    obtain ⟨pts', point'⟩ := r
    exact ih pts' point' point' hc.2.1 (Nat.le_refl _)

end FontVerif.C03
