/-
Helper lemmas for C05 (Model/Graph.lean): on an acyclic graph all of whose objects are reachable
from the root, the main loop of `sort_shortest_distance` returns and its cycle check passes.
-/
import FontVerif.Model.Graph
import FontVerif.Lemmas.GraphTopo2
set_option linter.unusedVariables false
set_option linter.unusedSimpArgs false
namespace FontVerif.Graph
open FontVerif

theorem shortFold_rem (G : Graph) (links : List Link) (acc : List QEntry × Map Nat × Nat) (h : RemInv acc.2.1) :
    RemInv (links.foldl (shortVisitLink G) acc).2.1 := by
  induction links generalizing acc with
  | nil => exact h
  | cons l rest ih =>
    simp only [List.foldl_cons]
    apply ih
    unfold shortVisitLink
    simp only []
    split <;> exact remInv_insert _ _ h

theorem shortLoop_rem (G : Graph) (fuel : Nat) (st st' : ShortSt) (h : shortLoop G fuel st = some st')
    (hinv : RemInv st.removed) : RemInv st'.removed := by
  induction fuel generalizing st with
  | zero => simp [shortLoop] at h
  | succ n ih =>
    unfold shortLoop at h
    split at h
    · simp only [Option.some.injEq] at h; subst h; exact hinv
    · rename_i e rest hq
      simp only [] at h
      have := shortFold_rem G (G.obj e.id).links (rest, st.removed, st.objOrder) hinv
      generalize hf : (G.obj e.id).links.foldl (shortVisitLink G) (rest, st.removed, st.objOrder) = res at h this
      obtain ⟨q, r, oo⟩ := res
      exact ih _ h this

theorem shortLoop_fuel (G : Graph) (hcl : LinksHaveNodes G) (hroot : G.indeg G.root = 0) (fuel : Nat) (st : ShortSt)
    (hinv : EnumInv G (st.queue.map (·.id)) st.removed st.orderRev) (hf : G.nodes.length + 2 ≤ fuel + st.orderRev.length) :
    ∃ st', shortLoop G fuel st = some st' := by
  induction fuel generalizing st with
  | zero =>
    have := enum_bound G hcl _ _ _ hinv
    simp only [List.length_append] at this
    omega
  | succ n ih =>
    unfold shortLoop
    split
    · exact ⟨st, rfl⟩
    · rename_i e rest hq
      simp only []
      rw [hq] at hinv
      simp only [List.map_cons] at hinv
      have hsrc : Reach G G.root e.id := hinv.reach e.id (Or.inl List.mem_cons_self)
      have hstep := shortFold_enum G (G.obj e.id).links (rest, st.removed, st.objOrder) e.id (e.id :: st.orderRev) hroot
        (fun l hl => hl) hsrc (enum_pop G e.id (rest.map (·.id)) st.removed st.orderRev hinv)
      generalize hfold : (G.obj e.id).links.foldl (shortVisitLink G) (rest, st.removed, st.objOrder) = res at hstep
      obtain ⟨queue, removed, oo⟩ := res
      simp only []
      apply ih _ hstep
      simp only [List.length_cons]
      omega

theorem shortLoop_keeps (G : Graph) (fuel : Nat) (st st' : ShortSt) (h : shortLoop G fuel st = some st')
    (hinv : ShortInv G st.queue st.removed st.orderRev) (x : Nat) (hx : qIds st.queue x ∨ x ∈ st.orderRev) :
    x ∈ st'.orderRev := by
  induction fuel generalizing st with
  | zero => simp [shortLoop] at h
  | succ n ih =>
    unfold shortLoop at h
    split at h
    · rename_i hq
      simp only [Option.some.injEq] at h
      subst h
      rw [hq] at hx
      rcases hx with ⟨e, he, _⟩ | hx
      · simp at he
      · exact hx
    · rename_i e rest hq
      simp only [] at h
      rw [hq] at hinv hx
      have hstep := shortStep_inv G e rest st.removed st.orderRev st.objOrder hinv
      have hfull0 : FullIn G (rest, st.removed, st.objOrder).2.1
          (fun y => qIds (rest, st.removed, st.objOrder).1 y ∨ (y ∈ e.id :: st.orderRev)) := by
        intro y c hc hci
        rcases hinv.full y c hc hci with ⟨e', he', hy⟩ | hy
        · rcases List.mem_cons.mp he' with rfl | he'
          · right; rw [← hy]; exact List.mem_cons_self
          · left; exact ⟨e', he', hy⟩
        · right; exact List.mem_cons_of_mem _ hy
      obtain ⟨f1, _, _, _⟩ := shortFold_spec G (G.obj e.id).links (rest, st.removed, st.objOrder)
        (fun y => y ∈ e.id :: st.orderRev) hfull0
      generalize hfold : (G.obj e.id).links.foldl (shortVisitLink G) (rest, st.removed, st.objOrder) = res at h hstep f1
      obtain ⟨queue, removed, oo⟩ := res
      simp only [] at h
      apply ih _ h hstep
      simp only [] at f1 ⊢
      rcases hx with ⟨e', he', hx⟩ | hx
      · rcases List.mem_cons.mp he' with rfl | he'
        · right; rw [← hx]; exact List.mem_cons_self
        · left; exact f1 x ⟨e', he', hx⟩
      · right; exact List.mem_cons_of_mem _ hx

/-- the main loop of `sort_shortest_distance` on a graph with exact in-degrees, closed under links,
acyclic, all of whose objects are reachable: it terminates within its fuel and the cycle check passes -/
theorem short_returns_core (G : Graph) (hd : DegExact G) (hcl : LinksHaveNodes G) (hroot : G.indeg G.root = 0)
    (hnop : ∀ p, ¬ IsParent G p G.root)
    (hall : ∀ k ∈ G.objects.keys, Reach G G.root k) (hac : Acyclic G) :
    ∃ st, shortLoop G (G.nodes.length + 2)
        { queue := [⟨0, 0, 0, G.root⟩], removed := [], orderRev := [], nodes := G.nodes, pos := 0, objOrder := 1 } = some st ∧
      cycleCheck G st.removed = true := by
  obtain ⟨rank, hrank⟩ := hac.rank
  have hinit : EnumInv G (([⟨0, 0, 0, G.root⟩] : List QEntry).map (·.id)) [] [] := enum_init G []
  obtain ⟨st, hloop⟩ := shortLoop_fuel G hcl hroot (G.nodes.length + 2)
    { queue := [⟨0, 0, 0, G.root⟩], removed := [], orderRev := [], nodes := G.nodes, pos := 0, objOrder := 1 } hinit (by simp)
  refine ⟨st, hloop, ?_⟩
  have hinv0 : ShortInv G [⟨0, 0, 0, G.root⟩] [] [] := by
    constructor
    · intro id c hc; simp [Map.find?] at hc
    · intro id hid; simp at hid
  obtain ⟨hk, hq, _⟩ := shortLoop_inv G _ _ _ hloop hinv0
  have hti : TopoInv G (([⟨0, 0, 0, G.root⟩] : List QEntry).map (·.id)) [] [] := topo_init G hroot hd.ok hnop
  have ht := shortLoop_topo G hd.ok hroot _ _ _ hloop hti
  have hr := shortLoop_rem G _ _ _ hloop ⟨by intro c k h; simp [Map.find?] at h, by simp [Map.keys]⟩
  have hrootin := shortLoop_keeps G _ _ _ hloop hinv0 G.root (Or.inl ⟨_, List.mem_cons_self, rfl⟩)
  have hnd : st.orderRev.Nodup := (List.nodup_append.mp ht.enum.nodup).2.1
  have hfull : FullIn G st.removed (fun x => x ∈ st.orderRev) := by
    intro x c hc hci
    rcases hk.full x c hc hci with ⟨e, he, _⟩ | h
    · rw [hq] at he; simp at he
    · exact h
  have hproc := all_processed G hd hcl hall rank hrank st.removed st.orderRev hrootin hnd ht.cnt hfull
  unfold cycleCheck
  rw [List.all_eq_true]
  intro kv hkv
  simp only [decide_eq_true_eq]
  have hfind := remInv_mem_find st.removed hr kv hkv
  have hpos := hr.pos kv.1 kv.2 hfind
  have hc := ht.cnt kv.1
  rw [hfind] at hc
  simp only [Option.getD_some] at hc
  have hpos' : 1 ≤ (st.orderRev.map (linksTo G kv.1)).sum := by
    have : Lto G kv.1 st.orderRev = (st.orderRev.map (linksTo G kv.1)).sum := rfl
    omega
  obtain ⟨y, hy, hyne⟩ := exists_of_sum_pos _ hpos'
  obtain ⟨a, ha, rfl⟩ := List.mem_map.mp hy
  obtain ⟨l, hl, hlt⟩ := (linksTo_pos_iff G kv.1 a).mp hyne
  have hkey : hasKey G.nodes kv.1 = true := by rw [← hlt]; exact hcl a l hl
  have hpar : ∀ p, IsParent G p kv.1 → p ∈ st.orderRev :=
    fun p hp => hproc (rank p) p (Nat.le_refl _) (hall p (isParent_key G p kv.1 hp))
  rw [hd.deg, if_pos hkey, hc]
  exact lto_all G kv.1 st.orderRev hnd hd.keys hpar

end FontVerif.Graph
