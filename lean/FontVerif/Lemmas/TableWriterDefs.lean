/-
C04 ⇄ C05 bridge: the reader's view of a value tree (vocabulary shared by the theorems and the driver).
`Tree`, `maskedBytes` are C05's (Lemmas/GraphSer.lean): the bytes of an object with its link fields blanked, and the
subtrees behind its links in link order.
-/
import FontVerif.Model.TableWriter
import FontVerif.Lemmas.GraphSer
namespace FontVerif.TableWriter
open FontVerif FontVerif.Graph

/-- the subtrees behind the non-null offset slots of `fs` (in slot order) as the value says they are: the child's own
bytes (its offset slots blanked; null slots are ordinary zero bytes) and, recursively, its children.  `a` is the
`offset_adjustment` in force when `fs` starts. -/
def treeKids : Fields → Nat → List Tree
  | .nil, _ => []
  | .bytes _ rest, a => treeKids rest a
  | .null _ rest, a => treeKids rest a
  | .link _ _ child rest, a =>
    Tree.node (maskedBytes (skel child a) (flat child 0)) (treeKids child a) :: treeKids rest (adjAfter child a)
  | .adjust n body rest, _ => treeKids body n ++ treeKids rest 0
  | .pad2 rest, a => treeKids rest a

/-- the value tree as a reader is meant to see it -/
def Fields.tree (fs : Fields) (a : Nat) : Tree := Tree.node (maskedBytes (skel fs a) (flat fs 0)) (treeKids fs a)

def Table.tree (t : Table) : Tree := t.fields.tree 0

/-- **the nested reader**: read `out`, guided only by the SHAPE of the value tree (field lengths, where the offset
slots are, their widths and bases).  For the slot at byte `len` of a table that starts at `hd`: the stored offset is the
big-endian number in the `lenOf w` bytes at `hd + len`; the child table starts at `hd + adjustment + offset`; it is read
recursively.  A null slot is not followed (its bytes stay in the parent's byte string). -/
def readKids (out : List Nat) : Nat → Fields → Nat → Nat → List Tree
  | _, .nil, _, _ => []
  | hd, .bytes bs rest, len, a => readKids out hd rest (len + bs.length) a
  | hd, .null w rest, len, a => readKids out hd rest (len + w) a
  | hd, .link w _ child rest, len, a =>
    Tree.node
        (maskedBytes (skel child a)
          (out.drop (hd + adjAfter child a + beValue ((out.drop (hd + len % U32)).take (lenOf w)))))
        (readKids out (hd + adjAfter child a + beValue ((out.drop (hd + len % U32)).take (lenOf w))) child 0 a)
      :: readKids out hd rest (len + min w 4) (adjAfter child a)
  | hd, .adjust n body rest, len, _ =>
    readKids out hd body len n ++ readKids out hd rest (len + (flat body len).length) 0
  | hd, .pad2 rest, len, a => readKids out hd rest (len + (if len % 2 ≠ 0 then 1 else 0)) a

/-- read a whole table that starts at `hd` -/
def readFields (out : List Nat) (hd : Nat) (fs : Fields) (a : Nat) : Tree :=
  Tree.node (maskedBytes (skel fs a) (out.drop hd)) (readKids out hd fs 0 a)

def readTable (out : List Nat) (hd : Nat) (t : Table) : Tree := readFields out hd t.fields 0

end FontVerif.TableWriter
