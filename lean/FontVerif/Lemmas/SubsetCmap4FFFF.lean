/-
C17 — `Cmap4::serialize` on a retained list that CONTAINS U+FFFF (its last pair): no terminating segment is written
(`sentinel`), the last ordinary segment ends at 0xFFFF.  Writer spec + lookup through the no-sentinel reader lemmas.
-/
import FontVerif.Lemmas.SubsetCmap4Top
import FontVerif.Lemmas.Cmap4NoSentinel
set_option linter.unusedVariables false
namespace FontVerif.SubsetCmap
open FontVerif FontVerif.Cmap

/-- ascending BMP list, U+FFFF allowed, glyph ids 1..=0xFFFF -/
structure InDomainF (l : Mapping) : Prop where
  asc : Ascending l
  cp : ∀ p ∈ l, p.1 ≤ 0xFFFF
  gid : ∀ p ∈ l, 1 ≤ p.2 ∧ p.2 ≤ 0xFFFF

theorem mapOkF_of_list (l : Mapping) (hd : InDomainF l) :
    MapOkF (cpAt l.toArray) (gidAt l.toArray) l.length := by
  constructor
  · intro i j hij hj
    obtain ⟨e1, _⟩ := index_view l i (by omega)
    obtain ⟨e2, _⟩ := index_view l j hj
    rw [e1, e2]
    exact (List.pairwise_iff_getElem.1 hd.asc) i j (by omega) hj hij
  · intro k hk
    obtain ⟨e1, _⟩ := index_view l k hk
    rw [e1]
    exact hd.cp _ (List.getElem_mem hk)
  · intro k hk
    obtain ⟨_, e2⟩ := index_view l k hk
    rw [e2]
    exact hd.gid _ (List.getElem_mem hk)

theorem tableOfRows_raw (rows : List Row) (g : List Nat) : tableOfRows rows g = Cmap4.ofRowsRaw rows g := rfl

/-- `Cmap4::serialize` on a list whose last code point is U+FFFF, for ANY heuristic: exactly the rows of a valid
segmentation of the whole list, no terminator -/
theorem build4With_spec_ffff (h : Heur) (l : Mapping) (hd : InDomainF l) (hne : l ≠ [])
    (hlast : cpAt l.toArray (l.length - 1) = 0xFFFF)
    (t : Cmap4) (ht : build4With h l = .ok t) :
    ∃ body rows g, toRangesWith h l = some body ∧
      BodyOk (cpAt l.toArray) (gidAt l.toArray) 0 l.length body ∧ t = Cmap4.ofRowsRaw rows g ∧
      RowsMatchF (cpAt l.toArray) (gidAt l.toArray) (segsOf (cpAt l.toArray) (gidAt l.toArray) 0 body) rows g := by
  have hn : 0 < l.length := List.length_pos_iff.2 hne
  have hm := mapOkF_of_list l hd
  have hb2 : ∀ p ∈ l, p.1 ≤ 0xFFFF ∧ p.2 ≤ 0xFFFF := fun p hp => ⟨hd.cp p hp, (hd.gid p hp).2⟩
  unfold build4With at ht
  cases hr : toRangesWith h l with
  | none => simp [hr] at ht
  | some ranges =>
    simp only [hr] at ht
    obtain ⟨body, hrs, hbody⟩ := toRangesWith_spec h l hb2 hne ranges hr
    have hsent : sentinel (cpAt l.toArray (l.length - 1)) = [] := by
      unfold sentinel; simp [hlast]
    rw [hsent, List.append_nil] at hrs
    subst hrs
    split at ht
    · cases ht
    · rename_i hlen
      cases he : emitRows l.reverse ranges.length 0 0 ranges with
      | none => simp [he] at ht
      | some res =>
        obtain ⟨rows, g⟩ := res
        simp only [he] at ht
        split at ht
        · cases ht
        · rename_i hl4
          cases ht
          have hrl := emitRows_lengths l.reverse _ ranges 0 0 rows g he
          have hbound : (ranges.length + 0 + g.length) * 2 ≤ 65535 := by
            simp only [length4, tableOfRows, List.size_toArray, List.length_map] at hl4
            omega
          have hgl : ∀ k, k < l.length → gidOf l (cpAt l.toArray k) = some (gidAt l.toArray k) := by
            intro k hk
            obtain ⟨e1, e2⟩ := index_view l k hk
            rw [e1, e2]
            exact gidOf_of_mem l hd.asc _ _ (List.getElem_mem hk)
          obtain ⟨s1, s2⟩ := emitRows_body _ _ l.length l hgl (fun k hk => hm.cpLe k hk)
            (fun k hk => (hm.gidOk k hk).2) _ ranges 0 0 0 rows g hbody he hbound (by simp)
          refine ⟨ranges, rows, g, rfl, hbody, tableOfRows_raw rows g, ?_⟩
          refine ⟨by rw [s1, segsOf_length], fun j hj => ?_⟩
          obtain ⟨row, hrow, hspec⟩ := s2 [] rfl j hj
          refine ⟨row, hrow, ?_⟩
          simp only [segsOf_length, Nat.zero_add, List.nil_append] at hspec ⊢
          exact hspec

/-- LOOKUP for a list that contains U+FFFF, any heuristic: the subtable answers exactly the list -/
theorem lookup_ffff (h : Heur) (l : Mapping) (hd : InDomainF l) (hne : l ≠ [])
    (hlast : cpAt l.toArray (l.length - 1) = 0xFFFF)
    (t : Cmap4) (ht : build4With h l = .ok t) (c v : Nat) :
    map4 t c = some v ↔ (c, v) ∈ l := by
  obtain ⟨body, rows, g, _, hbody, rfl, hrm⟩ := build4With_spec_ffff h l hd hne hlast t ht
  have hm := mapOkF_of_list l hd
  have hv := segsTile_of_bodyOk _ _ body 0 l.length hbody
  rw [mem_iff_index' l c v]
  constructor
  · intro hq
    by_cases hex : ∃ k, k < l.length ∧ cpAt l.toArray k = c
    · obtain ⟨k, hk, hck⟩ := hex
      rw [← hck, map4_mappedF hm hv hrm k hk] at hq
      exact ⟨k, hk, hck, Option.some.inj hq⟩
    · rw [map4_unmappedF hm hv hrm c (fun k hk hck => hex ⟨k, hk, hck⟩)] at hq
      cases hq
  · rintro ⟨k, hk, hck, hgk⟩
    rw [← hck, ← hgk]
    exact map4_mappedF hm hv hrm k hk

end FontVerif.SubsetCmap
