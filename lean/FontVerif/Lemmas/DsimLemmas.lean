/-
Helper lemmas for C11: the DeltaSetIndexMap writer (`get_entry_format`, `pack_map_data`) always
chooses a format wide enough for every entry, so `DeltaSetIndexMap::get` reads every entry back.
-/
import FontVerif.Lemmas.MetricsLemmas
namespace FontVerif.Ivs
open FontVerif FontVerif.Tent

/-! ### bit-subset algebra on `Nat` (`a ⊆ b` as `a ||| b = b`) -/

def Sub (a b : Nat) : Prop := a ||| b = b

theorem Sub.le {a b : Nat} (h : Sub a b) : a ≤ b := by
  unfold Sub at h; rw [← h]; exact Nat.left_le_or

theorem Sub.refl (a : Nat) : Sub a a := Nat.or_self a

theorem Sub.trans {a b c : Nat} (h1 : Sub a b) (h2 : Sub b c) : Sub a c := by
  unfold Sub at *; rw [← h2, ← Nat.or_assoc, h1]

theorem Sub.or {a b c : Nat} (h1 : Sub a c) (h2 : Sub b c) : Sub (a ||| b) c := by
  unfold Sub at *; rw [Nat.or_assoc, h2, h1]

theorem sub_or_left (a b : Nat) : Sub a (a ||| b) := by
  unfold Sub; rw [← Nat.or_assoc, Nat.or_self]

theorem sub_or_right (a b : Nat) : Sub b (a ||| b) := by
  unfold Sub; rw [Nat.or_comm a b, ← Nat.or_assoc, Nat.or_self]

theorem Sub.div {a b : Nat} (h : Sub a b) (k : Nat) : Sub (a / 2 ^ k) (b / 2 ^ k) := by
  unfold Sub at *; rw [← Nat.or_div_two_pow, h]

theorem Sub.mod {a b : Nat} (h : Sub a b) (k : Nat) : Sub (a % 2 ^ k) (b % 2 ^ k) := by
  unfold Sub at *; rw [← Nat.or_mod_two_pow, h]

theorem Sub.mul {a b : Nat} (h : Sub a b) (k : Nat) : Sub (a * 2 ^ k) (b * 2 ^ k) := by
  unfold Sub at *
  rw [← Nat.shiftLeft_eq, ← Nat.shiftLeft_eq, ← Nat.shiftLeft_or_distrib, h]

theorem sub_fold (l : List Nat) : ∀ (acc : Nat), Sub acc (l.foldl (· ||| ·) acc) ∧
    ∀ x ∈ l, Sub x (l.foldl (· ||| ·) acc) := by
  induction l with
  | nil => intro acc; exact ⟨Sub.refl acc, fun x hx => by simp at hx⟩
  | cons a l ih =>
    intro acc
    have := ih (acc ||| a)
    simp only [List.foldl_cons]
    refine ⟨(sub_or_left acc a).trans this.1, ?_⟩
    intro x hx
    rcases List.mem_cons.mp hx with rfl | h
    · exact (sub_or_right acc x).trans this.1
    · exact this.2 x h

/-- `2^k·a + b` with `b < 2^k` is a disjoint union of bits. -/
theorem mul_add_eq_or {k b : Nat} (h : b < 2 ^ k) (a : Nat) : a * 2 ^ k + b = a * 2 ^ k ||| b := by
  rw [Nat.mul_comm]; exact Nat.two_pow_add_eq_or_of_lt h a

/-! ### `bitLen` (= `16 − leading_zeros` for a u16) -/

theorem lt_two_pow_bitLen : ∀ (n : Nat), n < 2 ^ bitLen n := by
  intro n
  induction n using Nat.strongRecOn with
  | _ n ih =>
    cases n with
    | zero => simp [bitLen]
    | succ m =>
      rw [bitLen]
      have := ih ((m + 1) / 2) (by omega)
      rw [Nat.pow_succ]
      omega

theorem bitLen_le_16 {n : Nat} (h : n < 65536) : bitLen n ≤ 16 := by
  -- n ≥ 2^(bitLen n − 1) for n > 0
  have key : ∀ (n : Nat), 0 < n → 2 ^ (bitLen n - 1) ≤ n := by
    intro n
    induction n using Nat.strongRecOn with
    | _ n ih =>
      intro hn
      cases n with
      | zero => omega
      | succ m =>
        rw [bitLen]
        simp only [Nat.add_sub_cancel]
        by_cases h0 : (m + 1) / 2 = 0
        · rw [h0]; simp [bitLen]
        · have := ih ((m + 1) / 2) (by omega) (by omega)
          have hb : bitLen ((m + 1) / 2) = (bitLen ((m + 1) / 2) - 1) + 1 := by
            cases hq : (m + 1) / 2 with
            | zero => exact absurd hq h0
            | succ q => rw [bitLen]; simp
          rw [hb, Nat.pow_succ]
          omega
  by_cases h0 : n = 0
  · subst h0; simp [bitLen]
  · have := key n (by omega)
    rcases Nat.lt_or_ge 16 (bitLen n) with hgt | hle
    · have : 2 ^ 16 ≤ 2 ^ (bitLen n - 1) := Nat.pow_le_pow_right (by omega) (by omega)
      omega
    · exact hle

/-! ### the chosen format fits every entry -/

/-- inner-bit count chosen by `get_entry_format`. -/
def innerBitsOf (mapping : List Nat) : Nat := max (bitLen (mapping.foldl (· ||| ·) 0 % 65536)) 1

/-- entry size chosen by `get_entry_format`. -/
def entrySizeOf (mapping : List Nat) : Nat :=
  let ored := mapping.foldl (· ||| ·) 0
  let ib := innerBitsOf mapping
  let ored2 := (ored / 2 ^ (16 - ib)) ||| (ored % 2 ^ ib)
  if ored2 ≤ 0xFF then 1 else if ored2 ≤ 0xFFFF then 2 else if ored2 ≤ 0xFFFFFF then 3 else 4

theorem innerBits_range (mapping : List Nat) : 1 ≤ innerBitsOf mapping ∧ innerBitsOf mapping ≤ 16 := by
  unfold innerBitsOf
  have := bitLen_le_16 (Nat.mod_lt (mapping.foldl (· ||| ·) 0) (by omega : 65536 > 0))
  omega

theorem entrySize_range (mapping : List Nat) :
    entrySizeOf mapping = 1 ∨ entrySizeOf mapping = 2 ∨ entrySizeOf mapping = 3 ∨ entrySizeOf mapping = 4 := by
  unfold entrySizeOf; simp only []; repeat' split
  all_goals simp

theorem entryFormat_eq (mapping : List Nat) :
    entryFormat mapping = (entrySizeOf mapping - 1) * 16 + (innerBitsOf mapping - 1) := by
  have hr := innerBits_range mapping
  unfold entryFormat
  show ((entrySizeOf mapping - 1) * 16) ||| (innerBitsOf mapping - 1) = _
  have : innerBitsOf mapping - 1 < 2 ^ 4 := by omega
  have e : (16 : Nat) = 2 ^ 4 := by decide
  rw [e, ← mul_add_eq_or this]

/-- the value `pack_map_data` writes for `x = outer << 16 | inner`. -/
theorem packed_value (mapping : List Nat) (x : Nat) (hx : x ∈ mapping) (h32 : ∀ y ∈ mapping, y < 4294967296) :
    let ib := innerBitsOf mapping
    ((x / 65536 * 65536) / 2 ^ (16 - ib)) ||| (x % 2 ^ ib) = (x / 65536) * 2 ^ ib + x % 65536 ∧
    x % 65536 < 2 ^ ib ∧ (x / 65536) * 2 ^ ib + x % 65536 < 256 ^ entrySizeOf mapping := by
  intro ib
  have hr : 1 ≤ ib ∧ ib ≤ 16 := innerBits_range mapping
  let ored := mapping.foldl (· ||| ·) 0
  have hsub : Sub x ored := (sub_fold mapping 0).2 x hx
  have e16 : (65536 : Nat) = 2 ^ 16 := by decide
  -- inner part fits
  have hin_o : ored % 65536 < 2 ^ ib := by
    have h1 := lt_two_pow_bitLen (ored % 65536)
    have h2 : 2 ^ bitLen (ored % 65536) ≤ 2 ^ ib :=
      Nat.pow_le_pow_right (by omega) (Nat.le_max_left _ _)
    omega
  have hin : x % 65536 < 2 ^ ib := by
    have := (hsub.mod 16).le
    rw [← e16] at this; omega
  have hpow : 2 ^ ib ≤ 65536 := by rw [e16]; exact Nat.pow_le_pow_right (by omega) hr.2
  have hsplit : (65536 : Nat) = 2 ^ ib * 2 ^ (16 - ib) := by
    rw [← Nat.pow_add, e16]; congr 1; omega
  have hp1 : 0 < 2 ^ (16 - ib) := Nat.pos_of_ne_zero (by simp)
  have hp2 : 0 < 2 ^ ib := Nat.pos_of_ne_zero (by simp)
  -- outer part shifted
  have hout : ∀ y : Nat, (y / 65536 * 65536) / 2 ^ (16 - ib) = (y / 65536) * 2 ^ ib := by
    intro y
    rw [hsplit, ← Nat.mul_assoc, Nat.mul_div_cancel _ hp1, ← hsplit]
  have hmod : ∀ y : Nat, y % 65536 < 2 ^ ib → y % 2 ^ ib = y % 65536 := by
    intro y hy
    have : y % 65536 % 2 ^ ib = y % 2 ^ ib := by
      rw [hsplit]; exact Nat.mod_mul_right_mod y (2 ^ ib) (2 ^ (16 - ib))
    rw [← this, Nat.mod_eq_of_lt hy]
  have hv : ((x / 65536 * 65536) / 2 ^ (16 - ib)) ||| (x % 2 ^ ib) =
      (x / 65536) * 2 ^ ib + x % 65536 := by
    rw [hout, hmod x hin, mul_add_eq_or hin]
  refine ⟨hv, hin, ?_⟩
  -- size: the packed value is a bit-subset of `ored2`
  have hsubv : Sub ((x / 65536) * 2 ^ ib + x % 65536)
      ((ored / 2 ^ (16 - ib)) ||| (ored % 2 ^ ib)) := by
    rw [mul_add_eq_or hin]
    apply Sub.or
    · -- outer bits
      have h1 : Sub (x / 65536) (ored / 65536) := by rw [e16]; exact hsub.div 16
      have h2 := h1.mul ib
      have h3 : ored / 2 ^ (16 - ib) = (ored / 65536) * 2 ^ ib + (ored % 65536) / 2 ^ (16 - ib) := by
        have hdm := Nat.div_add_mod ored 65536
        have : ored = (ored / 65536) * 2 ^ ib * 2 ^ (16 - ib) + ored % 65536 := by
          rw [Nat.mul_assoc, ← hsplit]; omega
        conv => lhs; rw [this]
        rw [Nat.add_comm, Nat.add_mul_div_right _ _ hp1, Nat.add_comm]
      have h4 : (ored % 65536) / 2 ^ (16 - ib) < 2 ^ ib := by
        apply Nat.div_lt_of_lt_mul
        rw [Nat.mul_comm, ← hsplit]; exact Nat.mod_lt _ (by omega)
      have h5 : Sub ((ored / 65536) * 2 ^ ib) (ored / 2 ^ (16 - ib)) := by
        rw [h3, mul_add_eq_or h4]; exact sub_or_left _ _
      exact (h2.trans h5).trans (sub_or_left _ _)
    · have h1 : Sub (x % 2 ^ ib) (ored % 2 ^ ib) := hsub.mod ib
      rw [hmod x hin] at h1
      exact h1.trans (sub_or_right _ _)
  have hle := hsubv.le
  have hored : ored < 4294967296 := by
    -- every entry is below 2^32, so is their union
    have : ∀ (l : List Nat) (acc : Nat), acc < 2 ^ 32 → (∀ y ∈ l, y < 2 ^ 32) →
        l.foldl (· ||| ·) acc < 2 ^ 32 := by
      intro l
      induction l with
      | nil => intro acc h _; exact h
      | cons a l ih =>
        intro acc h hl
        exact ih (acc ||| a) (Nat.or_lt_two_pow h (hl a (by simp))) (fun y hy => hl y (by simp [hy]))
    exact this mapping 0 (by decide) (fun y hy => by have := h32 y hy; omega)
  have hored2 : (ored / 2 ^ (16 - ib)) ||| (ored % 2 ^ ib) < 2 ^ 32 := by
    apply Nat.or_lt_two_pow
    · have : ored / 2 ^ (16 - ib) ≤ ored := Nat.div_le_self _ _
      omega
    · have := Nat.mod_lt ored hp2
      omega
  show _ < 256 ^ entrySizeOf mapping
  unfold entrySizeOf
  simp only []
  show _ < 256 ^ (if (ored / 2 ^ (16 - ib)) ||| (ored % 2 ^ ib) ≤ 0xFF then 1
    else if (ored / 2 ^ (16 - ib)) ||| (ored % 2 ^ ib) ≤ 0xFFFF then 2
    else if (ored / 2 ^ (16 - ib)) ||| (ored % 2 ^ ib) ≤ 0xFFFFFF then 3 else 4)
  generalize (ored / 2 ^ (16 - ib)) ||| (ored % 2 ^ ib) = o2 at *
  repeat' split
  all_goals omega

/-! ### trailing-duplicate trimming -/

theorem takeWhile_all {α} (p : α → Bool) (l : List α) : ∀ x ∈ l.takeWhile p, p x = true := by
  intro x hx
  have := List.all_takeWhile (l := l) (p := p)
  rw [List.all_eq_true] at this
  exact this x hx

/-- `map_count`: at least 1, and every dropped entry (and the last kept one) equals the last. -/
theorem trimmedCount_spec (l : List Nat) (hne : l ≠ []) :
    1 ≤ trimmedCount l ∧ trimmedCount l ≤ l.length ∧
    ∀ i, trimmedCount l - 1 ≤ i → i < l.length → l[i]? = l[l.length - 1]? := by
  match l, hne with
  | [a], _ => simp [trimmedCount]
  | a :: b :: rest, _ =>
    have hlen : 2 ≤ (a :: b :: rest).length := by simp
    generalize hL : a :: b :: rest = L at *
    have hcnt : trimmedCount L =
        L.length - (L.reverse.tail.takeWhile (· = L.reverse.head!)).length := by
      rw [← hL]; rfl
    have hrne : L.reverse ≠ [] := by
      intro h; rw [List.reverse_eq_nil_iff] at h; rw [h] at hlen; simp at hlen
    have hhead : L.reverse.head! = L[L.length - 1]'(by omega) := by
      cases hr : L.reverse with
      | nil => exact absurd hr hrne
      | cons x xs =>
        have h0 : L.reverse[0]? = some x := by rw [hr]; rfl
        rw [List.getElem?_reverse (by omega)] at h0
        rw [List.getElem?_eq_getElem (by omega)] at h0
        simp at h0
        simp [List.head!]; exact h0.symm
    have hpre := List.takeWhile_prefix (l := L.reverse.tail) (· = L.reverse.head!)
    obtain ⟨rest', hrest⟩ := hpre
    have htl : L.reverse.tail.length = L.length - 1 := by simp
    have hdl : (L.reverse.tail.takeWhile (· = L.reverse.head!)).length ≤ L.length - 1 := by
      have : (L.reverse.tail.takeWhile (· = L.reverse.head!)).length + rest'.length =
          L.reverse.tail.length := by rw [← List.length_append, hrest]
      omega
    have hall := takeWhile_all (· = L.reverse.head!) L.reverse.tail
    have hget : ∀ k, k < (L.reverse.tail.takeWhile (· = L.reverse.head!)).length →
        L.reverse.tail[k]? = (L.reverse.tail.takeWhile (· = L.reverse.head!))[k]? := by
      intro k hk
      conv => lhs; rw [← hrest]
      exact List.getElem?_append_left hk
    generalize hd : (L.reverse.tail.takeWhile (· = L.reverse.head!)).length = d at *
    rw [hcnt]
    refine ⟨by omega, by omega, ?_⟩
    intro i h1 h2
    by_cases hi : i = L.length - 1
    · rw [hi]
    · -- position in the reversed tail
      have hk : L.length - 2 - i < d := by omega
      have hk' : L.length - 2 - i < (L.reverse.tail.takeWhile (· = L.reverse.head!)).length := by
        rw [hd]; exact hk
      have hmem := List.getElem_mem hk'
      have hp := hall _ hmem
      simp only [decide_eq_true_eq] at hp
      have hidx := hget _ hk
      rw [List.getElem?_eq_getElem hk'] at hidx
      have htail : L.reverse.tail[L.length - 2 - i]? = L.reverse[L.length - 2 - i + 1]? := by
        cases hr : L.reverse with
        | nil => exact absurd hr hrne
        | cons x xs => simp
      rw [htail, List.getElem?_reverse (by omega)] at hidx
      have e : L.length - 1 - (L.length - 2 - i + 1) = i := by omega
      rw [e] at hidx
      rw [hidx, hp, hhead, List.getElem?_eq_getElem (by omega : L.length - 1 < L.length)]

theorem flatMap_congr' {α β} (f g : α → List β) : ∀ (l : List α), (∀ x ∈ l, f x = g x) →
    l.flatMap f = l.flatMap g := by
  intro l
  induction l with
  | nil => intro _; rfl
  | cons a l ih =>
    intro h
    simp only [List.flatMap_cons]
    rw [h a (by simp), ih (fun x hx => h x (by simp [hx]))]

/-! ### write ∘ read -/

/-- **DeltaSetIndexMap round trip**: for every non-empty mapping of `outer << 16 | inner` values,
reading entry `gid` of the map written by `pack_map_data` gives `(outer, inner)` of entry
`min(gid, len − 1)` of the *original* mapping — whatever entry format and trailing trimming the
writer chose. -/
theorem packMap_get (mapping : List Nat) (hne : mapping ≠ []) (h32 : ∀ y ∈ mapping, y < 4294967296)
    (gid : Nat) :
    dsimGet (packMap mapping).1 (packMap mapping).2.1 (packMap mapping).2.2 gid =
      (mapping[min gid (mapping.length - 1)]?).map fun x => (x / 65536, x % 65536) := by
  have hib := innerBits_range mapping
  have hes := entrySize_range mapping
  have hts := trimmedCount_spec mapping hne
  have hfmt := entryFormat_eq mapping
  have e1 : entryFormat mapping % 16 + 1 = innerBitsOf mapping := by rw [hfmt]; omega
  have e2 : entryFormat mapping / 16 % 4 + 1 = entrySizeOf mapping := by
    rw [hfmt]; rcases hes with h | h | h | h <;> rw [h] <;> omega
  -- the packed entries as (outer, inner) pairs
  let entries := (mapping.take (trimmedCount mapping)).map fun x => (x / 65536, x % 65536)
  have hdata : (packMap mapping).2.2 =
      entries.flatMap fun e => beBytes (entrySizeOf mapping) (e.1 * 2 ^ innerBitsOf mapping + e.2) := by
    unfold packMap
    dsimp only
    rw [e1, e2]
    simp only [entries, List.flatMap_map]
    apply flatMap_congr'
    intro x hx
    have hxm : x ∈ mapping := List.mem_of_mem_take hx
    have hp := packed_value mapping x hxm h32
    simp only [] at hp
    rw [hp.1]
    have : x / 65536 * 2 ^ innerBitsOf mapping + x % 65536 < 4294967296 := by
      have h1 := hp.2.2
      have h2 : 256 ^ entrySizeOf mapping ≤ 256 ^ 4 :=
        Nat.pow_le_pow_right (by omega) (by rcases hes with h | h | h | h <;> omega)
      have : (256 : Nat) ^ 4 = 4294967296 := by decide
      omega
    rw [Nat.mod_eq_of_lt this]
  have hcnt : (packMap mapping).2.1 = entries.length := by
    unfold packMap; simp [entries]; omega
  have hf : (packMap mapping).1 = (entrySizeOf mapping - 1) * 16 + (innerBitsOf mapping - 1) := by
    unfold packMap; exact hfmt
  rw [hf, hcnt, hdata]
  have hlen : entries.length = trimmedCount mapping := by simp [entries]; omega
  rw [dsimGet_packed (entrySizeOf mapping) (innerBitsOf mapping) hes hib.1 hib.2 entries ?_ gid (by omega)]
  · simp only [entries, List.getElem?_map, hlen]
    have hmin : min gid (trimmedCount mapping - 1) < trimmedCount mapping := by omega
    rw [List.getElem?_take_of_lt hmin]
    congr 1
    -- entry min(gid, cnt−1) equals entry min(gid, len−1)
    by_cases hg : gid ≤ trimmedCount mapping - 1
    · rw [Nat.min_eq_left hg, Nat.min_eq_left (by omega)]
    · rw [Nat.min_eq_right (by omega)]
      rw [hts.2.2 (trimmedCount mapping - 1) (Nat.le_refl _) (by omega)]
      by_cases hg2 : gid ≤ mapping.length - 1
      · rw [Nat.min_eq_left hg2, hts.2.2 gid (by omega) (by omega)]
      · rw [Nat.min_eq_right (by omega)]
  · intro e he
    simp only [entries, List.mem_map] at he
    obtain ⟨x, hx, rfl⟩ := he
    have hxm : x ∈ mapping := List.mem_of_mem_take hx
    have hp := packed_value mapping x hxm h32
    simp only [] at hp
    have := h32 x hxm
    exact ⟨hp.2.1, by omega, hp.2.2⟩

end FontVerif.Ivs
