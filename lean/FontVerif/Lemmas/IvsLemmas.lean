/-
Helper lemmas for C11 (ItemVariationStore builder ⇄ reader round trip):
byte-level read∘write, row decode, shape facts, region remap, chunking.
-/
import FontVerif.Model.Ivs
import FontVerif.Model.Tent
import FontVerif.Lemmas.DeltaLemmas
namespace FontVerif.Ivs
open FontVerif FontVerif.Tent

/-! ### A. big-endian scalar round trips -/

theorem readS1_cons (b : Nat) (rest : List Nat) : readS1 (b :: rest) =
    some ((if b < 128 then (b : Int) else (b : Int) - 256), rest) := rfl
theorem readS2_cons (a b : Nat) (rest : List Nat) : readS2 (a :: b :: rest) =
    some ((if (a : Int) * 256 + b < 32768 then (a : Int) * 256 + b
      else (a : Int) * 256 + b - 65536), rest) := rfl
theorem readS4_cons (a b c d : Nat) (rest : List Nat) : readS4 (a :: b :: c :: d :: rest) =
    some ((if (((a : Int) * 256 + b) * 256 + c) * 256 + d < 2147483648
      then (((a : Int) * 256 + b) * 256 + c) * 256 + d
      else (((a : Int) * 256 + b) * 256 + c) * 256 + d - 4294967296), rest) := rfl
theorem be1_eq (x : Int) (rest : List Nat) : be1 x ++ rest = (x % 256).toNat :: rest := rfl
theorem be2_eq (x : Int) (rest : List Nat) :
    be2 x ++ rest = (x % 65536).toNat / 256 :: (x % 65536).toNat % 256 :: rest := rfl
theorem be4_eq (x : Int) (rest : List Nat) :
    be4 x ++ rest = (x % 4294967296).toNat / 16777216 :: (x % 4294967296).toNat / 65536 % 256 ::
      (x % 4294967296).toNat / 256 % 256 :: (x % 4294967296).toNat % 256 :: rest := rfl

theorem readS1_be1 {x : Int} (h : inI8 x) (rest : List Nat) :
    readS1 (be1 x ++ rest) = some (x, rest) := by
  unfold inI8 at h
  rw [be1_eq, readS1_cons]
  simp only [Option.some.injEq, Prod.mk.injEq, and_true]
  split <;> omega

theorem readS2_be2 {x : Int} (h : inI16 x) (rest : List Nat) :
    readS2 (be2 x ++ rest) = some (x, rest) := by
  unfold inI16 at h
  rw [be2_eq, readS2_cons]
  simp only [Option.some.injEq, Prod.mk.injEq, and_true]
  split <;> omega

theorem readS4_be4 {x : Int} (h : inI32 x) (rest : List Nat) :
    readS4 (be4 x ++ rest) = some (x, rest) := by
  unfold inI32 at h
  rw [be4_eq, readS4_cons]
  simp only [Option.some.injEq, Prod.mk.injEq, and_true]
  split <;> omega

/-- value written in a column of `w` bytes (`x as i8` / `x as i16` / `x`). -/
def enc (w : Nat) (x : Int) : List Nat := if w = 1 then be1 x else if w = 2 then be2 x else be4 x

/-- the truncation to `w` bytes is lossless. -/
def FitsW (w : Nat) (x : Int) : Prop := if w = 1 then inI8 x else if w = 2 then inI16 x else inI32 x

theorem readW_enc {w : Nat} {x : Int} (h : FitsW w x) (rest : List Nat) :
    readW w (enc w x ++ rest) = some (x, rest) := by
  unfold readW enc; unfold FitsW at h
  by_cases h1 : w = 1
  · simp only [h1, if_true] at h ⊢; exact readS1_be1 h rest
  · by_cases h2 : w = 2
    · simp only [h2, if_true] at h ⊢; simp; exact readS2_be2 h rest
    · simp only [h1, h2, if_false] at h ⊢; exact readS4_be4 h rest

theorem enc_length (w : Nat) (hw : w = 1 ∨ w = 2 ∨ w = 4) (x : Int) : (enc w x).length = w := by
  unfold enc
  rcases hw with rfl | rfl | rfl <;> simp [be1, be2, be4]

/-! ### B. `ItemDeltas` over a written row -/

def wideW (long : Bool) : Nat := if long then 4 else 2
def narrowW (long : Bool) : Nat := if long then 2 else 1

theorem colWidth_eq (nL : Nat) (long : Bool) (pos : Nat) :
    colWidth nL long pos = if pos < nL then wideW long else narrowW long := by
  unfold colWidth wideW narrowW
  by_cases h : pos < nL
  · have : decide (pos ≥ nL) = false := by simp; omega
    cases long <;> simp [this, h]
  · have : decide (pos ≥ nL) = true := by simp; omega
    cases long <;> simp [this, h]

theorem itemDeltas_narrow (nL : Nat) (long : Bool) :
    ∀ (xs : List Int) (pos : Nat) (tail : List Nat), nL ≤ pos →
      (∀ x ∈ xs, FitsW (narrowW long) x) →
      itemDeltas nL long (pos + xs.length) pos (xs.flatMap (enc (narrowW long)) ++ tail) = xs := by
  intro xs
  induction xs with
  | nil => intro pos tail _ _; rw [itemDeltas]; simp
  | cons x xs ih =>
    intro pos tail hp hf
    rw [itemDeltas]
    have e : ¬ pos ≥ pos + (x :: xs).length := by simp
    simp only [e, dite_false]
    rw [colWidth_eq]
    have e2 : ¬ pos < nL := by omega
    simp only [e2, if_false, List.flatMap_cons, List.append_assoc]
    rw [readW_enc (hf x (by simp))]
    simp only []
    have := ih (pos + 1) tail (by omega) (fun y hy => hf y (by simp [hy]))
    have e3 : pos + (x :: xs).length = pos + 1 + xs.length := by simp; omega
    rw [e3, this]

theorem itemDeltas_wide (nL : Nat) (long : Bool) (L : Nat) :
    ∀ (ws : List Int) (pos : Nat) (rest : List Nat), pos + ws.length ≤ nL → nL ≤ L →
      (∀ x ∈ ws, FitsW (wideW long) x) →
      itemDeltas nL long L pos (ws.flatMap (enc (wideW long)) ++ rest) =
        ws ++ itemDeltas nL long L (pos + ws.length) rest := by
  intro ws
  induction ws with
  | nil => intro pos rest _ _ _; simp
  | cons x ws ih =>
    intro pos rest hp hL hf
    rw [itemDeltas]
    have hlen : pos + (ws.length + 1) ≤ nL := by simpa using hp
    have e : ¬ pos ≥ L := by omega
    simp only [e, dite_false]
    rw [colWidth_eq]
    have e2 : pos < nL := by omega
    simp only [e2, if_true, List.flatMap_cons, List.append_assoc]
    rw [readW_enc (hf x (by simp))]
    simp only []
    rw [ih (pos + 1) rest (by omega) hL (fun y hy => hf y (by simp [hy]))]
    have e3 : pos + 1 + ws.length = pos + (x :: ws).length := by simp; omega
    rw [e3]; simp

theorem encodeWords_eq (long : Bool) (nL : Nat) (raw : List Int) :
    encodeWords long nL raw =
      (raw.take nL).flatMap (enc (wideW long)) ++ (raw.drop nL).flatMap (enc (narrowW long)) := by
  unfold encodeWords wideW narrowW enc
  cases long <;> simp

/-- **row round trip (words)**: reading `raw.length` columns from a written row gives it back. -/
theorem itemDeltas_encodeWords (long : Bool) (nL : Nat) (raw : List Int) (tail : List Nat)
    (hn : nL ≤ raw.length) (hw : ∀ x ∈ raw.take nL, FitsW (wideW long) x)
    (hs : ∀ x ∈ raw.drop nL, FitsW (narrowW long) x) :
    itemDeltas nL long raw.length 0 (encodeWords long nL raw ++ tail) = raw := by
  rw [encodeWords_eq, List.append_assoc]
  rw [itemDeltas_wide nL long raw.length (raw.take nL) 0 _ (by simp; omega) hn hw]
  have hl : (raw.take nL).length = nL := by simp; omega
  have hd : raw.length = nL + (raw.drop nL).length := by simp; omega
  rw [Nat.zero_add, hl]
  have := itemDeltas_narrow nL long (raw.drop nL) nL tail (Nat.le_refl nL) hs
  rw [← hd] at this
  rw [this, List.take_append_drop]

theorem encodeWords_length (long : Bool) (nL : Nat) (raw : List Int) (hn : nL ≤ raw.length) :
    (encodeWords long nL raw).length = nL * wideW long + (raw.length - nL) * narrowW long := by
  rw [encodeWords_eq]
  have key : ∀ (w : Nat) (hw : w = 1 ∨ w = 2 ∨ w = 4) (l : List Int),
      (l.flatMap (enc w)).length = l.length * w := by
    intro w hw l
    induction l with
    | nil => simp
    | cons a l ih => simp only [List.flatMap_cons, List.length_append, ih, enc_length w hw,
                       List.length_cons]; rw [Nat.add_mul]; omega
  have h1 : wideW long = 1 ∨ wideW long = 2 ∨ wideW long = 4 := by unfold wideW; cases long <;> simp
  have h2 : narrowW long = 1 ∨ narrowW long = 2 ∨ narrowW long = 4 := by
    unfold narrowW; cases long <;> simp
  rw [List.length_append, key _ h1, key _ h2]
  simp only [List.length_take, List.length_drop]
  rw [Nat.min_eq_left hn]

/-! ### C. shapes and the column order -/

/-- every entry is a `ColumnBits` discriminant. -/
def ShapeOk (s : List Nat) : Prop := ∀ b ∈ s, b = 0 ∨ b = 1 ∨ b = 2 ∨ b = 4

/-- the shape can hold the dense row: same length, each column at least as wide as the value needs. -/
def Covers (s : List Nat) (row : List Int) : Prop :=
  row.length = s.length ∧ ∀ r, forVal (row.getD r 0) ≤ s.getD r 0

def RowI32 (row : List Int) : Prop := ∀ x ∈ row, inI32 x

theorem forVal_cases (v : Int) : forVal v = 0 ∨ forVal v = 1 ∨ forVal v = 2 ∨ forVal v = 4 := by
  unfold forVal; repeat' split
  all_goals simp

theorem forVal_le_zero {v : Int} (h : forVal v ≤ 0) : v = 0 := by
  unfold forVal at h; repeat' split at h
  all_goals first | assumption | omega

theorem forVal_le_one {v : Int} (h : forVal v ≤ 1) : inI8 v := by
  unfold forVal at h; repeat' split at h
  all_goals first | assumption | (unfold inI8; omega) | omega

theorem forVal_le_two {v : Int} (h : forVal v ≤ 2) : inI16 v := by
  unfold forVal at h; repeat' split at h
  all_goals first | assumption | (unfold inI16; omega) | (unfold inI8 at *; unfold inI16; omega) | omega

theorem mem_idxWith {b r : Nat} {s : List Nat} : r ∈ idxWith b s ↔ s[r]? = some b := by
  unfold idxWith
  rw [List.mem_filterMap]
  constructor
  · rintro ⟨p, hp, hf⟩
    have := List.mem_zipIdx_iff_getElem?.mp hp
    split at hf
    · rename_i hb
      simp at hf
      rw [← hf, ← hb]; exact this
    · simp at hf
  · intro h
    exact ⟨(b, r), List.mem_zipIdx_iff_getElem?.mpr h, by simp⟩

theorem idxWith_length (b : Nat) (s : List Nat) : (idxWith b s).length = count b s := by
  unfold idxWith count
  have : ∀ (k : Nat), ((s.zipIdx k).filterMap
      (fun p => if p.1 = b then some p.2 else none)).length = (s.filter (· = b)).length := by
    induction s with
    | nil => intro k; simp
    | cons a s ih =>
      intro k
      rw [List.zipIdx_cons, List.filterMap_cons, List.filter_cons]
      by_cases h : a = b
      · simp [h, ih (k + 1)]
      · simp [h, ih (k + 1)]
  exact this 0

theorem indices_length (s : List Nat) : (indices s).length = count 4 s + count 2 s + count 1 s := by
  unfold indices; simp [idxWith_length]; omega

theorem nLong_le (s : List Nat) : nLong s ≤ (indices s).length := by
  rw [indices_length]; unfold nLong; split <;> omega

theorem mem_indices {r : Nat} {s : List Nat} :
    r ∈ indices s ↔ (s[r]? = some 4 ∨ s[r]? = some 2 ∨ s[r]? = some 1) := by
  unfold indices
  simp only [List.mem_append, mem_idxWith]
  constructor
  · rintro ((h | h) | h) <;> simp [h]
  · rintro (h | h | h) <;> simp [h]

theorem indices_take (s : List Nat) :
    (indices s).take (nLong s) = if longWords s then idxWith 4 s else idxWith 2 s := by
  unfold indices nLong
  by_cases h : longWords s
  · simp only [h, if_true]
    rw [List.append_assoc, List.take_left' (idxWith_length 4 s)]
  · simp only [h]
    have h0 : count 4 s = 0 := by unfold longWords at h; simp at h; exact h
    have e : idxWith 4 s = [] := List.eq_nil_of_length_eq_zero (by rw [idxWith_length]; exact h0)
    rw [e, List.nil_append]
    simp only [Bool.false_eq_true, if_false]
    rw [List.take_left' (idxWith_length 2 s)]

theorem indices_drop (s : List Nat) :
    (indices s).drop (nLong s) = if longWords s then idxWith 2 s ++ idxWith 1 s else idxWith 1 s := by
  unfold indices nLong
  by_cases h : longWords s
  · simp only [h, if_true]
    rw [List.append_assoc, List.drop_left' (idxWith_length 4 s)]
  · simp only [h]
    have h0 : count 4 s = 0 := by unfold longWords at h; simp at h; exact h
    have e : idxWith 4 s = [] := List.eq_nil_of_length_eq_zero (by rw [idxWith_length]; exact h0)
    rw [e, List.nil_append]
    simp only [Bool.false_eq_true, if_false]
    rw [List.drop_left' (idxWith_length 2 s)]

theorem getD_inI32 {row : List Int} (h : RowI32 row) (r : Nat) : inI32 (row.getD r 0) := by
  rw [List.getD_eq_getElem?_getD]
  cases hr : row[r]? with
  | none => simp [inI32]
  | some v => exact h v (List.mem_of_getElem? hr)

theorem getD_of_getElem? {s : List Nat} {r b : Nat} (h : s[r]? = some b) : s.getD r 0 = b := by
  rw [List.getD_eq_getElem?_getD, h]; rfl

/-- **row round trip**: the reader's `ItemDeltas` over a row written by
`encode_raw_delta_values` gives back the value of every active column. -/
theorem row_decode (s : List Nat) (row : List Int) (tail : List Nat) (hc : Covers s row)
    (hi : RowI32 row) :
    itemDeltas (nLong s) (longWords s) (indices s).length 0 (encodeRow s row ++ tail) =
      rawRow s row := by
  have hlen : (rawRow s row).length = (indices s).length := by simp [rawRow]
  unfold encodeRow
  rw [← hlen]
  apply itemDeltas_encodeWords
  · rw [hlen]; exact nLong_le s
  · intro x hx
    unfold rawRow at hx
    rw [← List.map_take, indices_take] at hx
    obtain ⟨r, hr, rfl⟩ := List.mem_map.mp hx
    unfold FitsW wideW
    by_cases hl : longWords s
    · simp only [hl, if_true]; exact getD_inI32 hi r
    · simp only [hl, Bool.false_eq_true, if_false] at hr ⊢
      simp
      have := hc.2 r
      rw [getD_of_getElem? (mem_idxWith.mp hr)] at this
      exact forVal_le_two this
  · intro x hx
    unfold rawRow at hx
    rw [← List.map_drop, indices_drop] at hx
    obtain ⟨r, hr, rfl⟩ := List.mem_map.mp hx
    unfold FitsW narrowW
    by_cases hl : longWords s
    · simp only [hl, if_true] at hr ⊢
      simp
      have := hc.2 r
      rcases List.mem_append.mp hr with h2 | h1
      · rw [getD_of_getElem? (mem_idxWith.mp h2)] at this; exact forVal_le_two this
      · rw [getD_of_getElem? (mem_idxWith.mp h1)] at this
        exact forVal_le_two (Nat.le_trans this (by omega))
    · simp only [hl, Bool.false_eq_true, if_false] at hr ⊢
      simp
      have := hc.2 r
      rw [getD_of_getElem? (mem_idxWith.mp hr)] at this
      exact forVal_le_one this

/-! ### D. `word_delta_count` / `delta_row_len` -/

theorem wdc_low {s : List Nat} (h : nLong s < 32768) : wordDeltaCount s % 32768 = nLong s := by
  unfold wordDeltaCount
  have e : (32768 : Nat) = 2 ^ 15 := by decide
  rw [e, Nat.or_mod_two_pow]
  split
  · simp; exact h
  · simp; exact h

theorem wdc_long {s : List Nat} (h : nLong s < 32768) :
    decide (wordDeltaCount s / 32768 % 2 = 1) = longWords s := by
  unfold wordDeltaCount
  have e : (32768 : Nat) = 2 ^ 15 := by decide
  have h0 : nLong s / 2 ^ 15 = 0 := by rw [← e]; omega
  rw [e, Nat.or_div_two_pow, h0]
  by_cases hl : longWords s
  · simp [hl]
  · simp [hl]

theorem encodeRow_length (s : List Nat) (row : List Int) :
    (encodeRow s row).length =
      nLong s * wideW (longWords s) + ((indices s).length - nLong s) * narrowW (longWords s) := by
  unfold encodeRow
  rw [encodeWords_length _ _ _ (by simp [rawRow]; exact nLong_le s)]
  simp [rawRow]

theorem deltaRowLen_eq {s : List Nat} (h : nLong s < 32768) (row : List Int) :
    deltaRowLen (wordDeltaCount s) (indices s).length = (encodeRow s row).length := by
  rw [encodeRow_length]
  unfold deltaRowLen
  simp only []
  rw [wdc_low h]
  have := wdc_long h
  unfold wideW narrowW
  by_cases hl : longWords s
  · rw [hl] at this; simp at this; simp [hl, this]
  · simp only [hl] at this; simp at this; simp [hl, this]

/-! ### E. a whole subtable -/

theorem flatMap_uniform_length {α β} (f : α → List β) (L : Nat) :
    ∀ (rows : List α), (∀ r ∈ rows, (f r).length = L) → (rows.flatMap f).length = L * rows.length := by
  intro rows
  induction rows with
  | nil => intro _; simp
  | cons r rows ih =>
    intro h
    simp only [List.flatMap_cons, List.length_append, List.length_cons]
    rw [h r (by simp), ih (fun x hx => h x (by simp [hx])), Nat.mul_add]; omega

theorem flatMap_uniform_drop {α β} (f : α → List β) (L : Nat) :
    ∀ (rows : List α) (i : Nat) (hi : i < rows.length), (∀ r ∈ rows, (f r).length = L) →
      (rows.flatMap f).drop (L * i) = f rows[i] ++ (rows.drop (i + 1)).flatMap f := by
  intro rows
  induction rows with
  | nil => intro i hi; simp at hi
  | cons r rows ih =>
    intro i hi h
    cases i with
    | zero => simp
    | succ k =>
      have hk : k < rows.length := by simpa using hi
      simp only [List.flatMap_cons, List.getElem_cons_succ, List.drop_succ_cons]
      have e : L * (k + 1) = (f r).length + L * k := by rw [h r (by simp), Nat.mul_add]; omega
      rw [e, ← List.drop_drop, List.drop_left]
      exact ih k hk (fun x hx => h x (by simp [hx]))

/-- **subtable round trip**: `delta_set(inner)` on an encoded subtable is the raw row of member
`inner`. -/
theorem deltaSet_encoded (s : List Nat) (rows : List (List Int)) (inner : Nat)
    (hin : inner < rows.length) (hcov : ∀ row ∈ rows, Covers s row ∧ RowI32 row)
    (hn : nLong s < 32768) :
    deltaSet (wordDeltaCount s) (indices s).length
      ((rows.flatMap (encodeRow s)).take
        (deltaRowLen (wordDeltaCount s) (indices s).length * rows.length)) inner =
      rawRow s rows[inner] := by
  have hL : ∀ r ∈ rows, (encodeRow s r).length = deltaRowLen (wordDeltaCount s) (indices s).length :=
    fun r _ => (deltaRowLen_eq hn r).symm
  have hlen := flatMap_uniform_length (encodeRow s) _ rows hL
  rw [List.take_of_length_le (by omega)]
  unfold deltaSet
  simp only []
  rw [wdc_low hn, wdc_long hn]
  have hle : deltaRowLen (wordDeltaCount s) (indices s).length * inner ≤
      (rows.flatMap (encodeRow s)).length := by
    rw [hlen]; exact Nat.mul_le_mul_left _ (by omega)
  simp only [hle, if_true]
  rw [flatMap_uniform_drop (encodeRow s) _ rows inner hin hL]
  have := hcov rows[inner] (List.getElem_mem hin)
  exact row_decode s rows[inner] _ this.1 this.2

/-! ### F. scattering decoded columns back onto canonical region indices -/

theorem foldl_set_getElem? (f : Nat → Int) :
    ∀ (l : List Nat) (base : List Int) (k : Nat),
      (l.foldl (fun acc r => acc.set r (f r)) base)[k]? =
        if k ∈ l then (if k < base.length then some (f k) else none) else base[k]? := by
  intro l
  induction l with
  | nil => intro base k; simp
  | cons r l ih =>
    intro base k
    rw [List.foldl_cons, ih]
    simp only [List.length_set, List.mem_cons]
    by_cases h1 : k ∈ l
    · simp [h1]
    · simp only [h1, if_false, or_false]
      rw [List.getElem?_set]
      by_cases h2 : r = k
      · subst h2; simp
      · have h3 : ¬ k = r := fun h => h2 h.symm
        simp [h2, h3]

theorem zip_map_self {α β} (g : α → β) : ∀ (l : List α), l.zip (l.map g) = l.map (fun r => (r, g r)) := by
  intro l; induction l with
  | nil => rfl
  | cons a l ih => simp [ih]

theorem dense_of_map (l : List Nat) (g : Nat → Int) (n : Nat) :
    dense (l.map fun r => (r, g r)) n = l.foldl (fun acc r => acc.set r (g r)) (List.replicate n 0) := by
  unfold dense; rw [List.foldl_map]

theorem shape_zero_of_not_active {s : List Nat} (hs : ShapeOk s) {k : Nat} (hk : k < s.length)
    (h : k ∉ indices s) : s.getD k 0 = 0 := by
  have hm := List.getElem_mem hk
  have e : s[k]? = some s[k] := List.getElem?_eq_getElem hk
  rw [List.getD_eq_getElem?_getD, e]
  simp only [Option.getD_some]
  rcases hs _ hm with h0 | h1 | h2 | h4
  · exact h0
  · exact absurd (mem_indices.mpr (by rw [e, h1]; simp)) h
  · exact absurd (mem_indices.mpr (by rw [e, h2]; simp)) h
  · exact absurd (mem_indices.mpr (by rw [e, h4]; simp)) h

/-- **scatter**: putting the decoded active columns back at their canonical region indices
(all other regions 0) rebuilds the dense row. -/
theorem scatter_eq (s : List Nat) (row : List Int) (n : Nat) (hs : ShapeOk s) (hn : s.length = n)
    (hc : Covers s row) : dense ((indices s).zip (rawRow s row)) n = row := by
  unfold rawRow
  rw [zip_map_self, dense_of_map]
  apply List.ext_getElem?
  intro k
  rw [foldl_set_getElem?]
  have hrl : row.length = n := by rw [hc.1, hn]
  simp only [List.length_replicate]
  by_cases hk : k < n
  · have e : row[k]? = some row[k] := List.getElem?_eq_getElem (by omega)
    have eg : row.getD k 0 = row[k] := by rw [List.getD_eq_getElem?_getD, e]; rfl
    by_cases hm : k ∈ indices s
    · simp [hm, hk, e]
    · simp only [hm, if_false, List.getElem?_replicate, hk, if_true, e]
      have := hc.2 k
      rw [shape_zero_of_not_active hs (by omega) hm, eg] at this
      rw [forVal_le_zero this]
  · have e : row[k]? = none := List.getElem?_eq_none (by omega)
    by_cases hm : k ∈ indices s
    · simp [hm, hk, e]
    · simp [hm, hk, e]

/-! ### G. region pruning / renumbering (`make_region_list`) -/

theorem mem_usedRegions {n r : Nat} {subs : List (Option Tent.SubTable)} :
    r ∈ usedRegions n subs ↔ r < n ∧ ∃ st, some st ∈ subs ∧ r ∈ st.regionIndexes := by
  unfold usedRegions
  rw [List.mem_filter, List.mem_range, List.any_eq_true]
  constructor
  · rintro ⟨h1, x, hx, hp⟩
    refine ⟨h1, ?_⟩
    cases x with
    | none => simp at hp
    | some st => exact ⟨st, hx, by simpa using hp⟩
  · rintro ⟨h1, st, hst, hr⟩
    exact ⟨h1, some st, hst, by simpa using hr⟩

theorem unmap_regions (used l : List Nat) (h : ∀ r ∈ l, r ∈ used) :
    (l.map (fun r => used.idxOf r)).map (fun i => used.getD i 0) = l := by
  rw [List.map_map]
  conv => rhs; rw [← List.map_id l]
  apply List.map_congr_left
  intro r hr
  have hlt := List.idxOf_lt_length_iff.mpr (h r hr)
  simp only [Function.comp, id]
  rw [List.getD_eq_getElem?_getD, List.getElem?_eq_getElem hlt, List.getElem_idxOf hlt]; rfl

/-! ### H. splitting into ≤ 0xFFFF-row chunks -/

theorem chunks_flatten {α} (k : Nat) (xs : List α) : (chunks k xs).flatten = xs := by
  fun_induction chunks k xs with
  | case1 xs h => simp
  | case2 xs h ih => simp [ih]

theorem chunks_length_le {α} (k : Nat) (xs : List α) (hk : 0 < k) :
    ∀ c ∈ chunks k xs, c.length ≤ k := by
  fun_induction chunks k xs with
  | case1 xs h => intro c hc; simp at hc; subst hc; omega
  | case2 xs h ih =>
    intro c hc
    rcases List.mem_cons.mp hc with rfl | hc'
    · simp; omega
    · exact ih c hc'

theorem chunks_subset {α} (k : Nat) (xs : List α) : ∀ c ∈ chunks k xs, ∀ x ∈ c, x ∈ xs := by
  intro c hc x hx
  have : x ∈ (chunks k xs).flatten := List.mem_flatten.mpr ⟨c, hc, hx⟩
  rwa [chunks_flatten] at this

/-! ### I. shapes cover their members -/

theorem reuse_eq_map_dense (ds : List (Nat × Int)) (n : Nat) :
    reuse ds n = (dense ds n).map forVal := by
  unfold reuse dense
  have : ∀ (base : List Int), ds.foldl (fun sh rd => sh.set rd.1 (forVal rd.2)) (base.map forVal) =
      (ds.foldl (fun row rd => row.set rd.1 rd.2) base).map forVal := by
    induction ds with
    | nil => intro base; rfl
    | cons d ds ih =>
      intro base
      simp only [List.foldl_cons]
      rw [← ih, List.map_set]
  have e : List.replicate n 0 = (List.replicate n (0 : Int)).map forVal := by
    simp [forVal]
  rw [e]; exact this _

theorem dense_length (ds : List (Nat × Int)) (n : Nat) : (dense ds n).length = n := by
  unfold dense
  have : ∀ (base : List Int), (ds.foldl (fun row rd => row.set rd.1 rd.2) base).length = base.length := by
    induction ds with
    | nil => intro base; rfl
    | cons d ds ih => intro base; simp only [List.foldl_cons]; rw [ih]; simp
  rw [this]; simp

theorem reuse_length (ds : List (Nat × Int)) (n : Nat) : (reuse ds n).length = n := by
  rw [reuse_eq_map_dense]; simp [dense_length]

theorem reuse_getD (ds : List (Nat × Int)) (n r : Nat) :
    (reuse ds n).getD r 0 = forVal ((dense ds n).getD r 0) := by
  rw [reuse_eq_map_dense, List.getD_eq_getElem?_getD, List.getD_eq_getElem?_getD, List.getElem?_map]
  cases (dense ds n)[r]? with
  | none => simp [forVal]
  | some v => rfl

theorem reuse_shapeOk (ds : List (Nat × Int)) (n : Nat) : ShapeOk (reuse ds n) := by
  rw [reuse_eq_map_dense]
  intro b hb
  obtain ⟨v, _, rfl⟩ := List.mem_map.mp hb
  exact forVal_cases v

theorem merge_length (a b : List Nat) (h : a.length = b.length) : (merge a b).length = a.length := by
  unfold merge; simp [h]

theorem merge_getD (a b : List Nat) (h : a.length = b.length) (r : Nat) :
    (merge a b).getD r 0 = max (a.getD r 0) (b.getD r 0) := by
  unfold merge
  simp only [List.getD_eq_getElem?_getD, List.getElem?_zipWith]
  by_cases hr : r < a.length
  · rw [List.getElem?_eq_getElem hr, List.getElem?_eq_getElem (by omega : r < b.length)]; rfl
  · rw [List.getElem?_eq_none (by omega), List.getElem?_eq_none (by omega : b.length ≤ r)]; rfl

theorem merge_shapeOk (a b : List Nat) (ha : ShapeOk a) (hb : ShapeOk b) : ShapeOk (merge a b) := by
  unfold merge
  intro x hx
  obtain ⟨i, hi⟩ := List.mem_iff_getElem?.mp hx
  rw [List.getElem?_zipWith] at hi
  cases ha' : a[i]? with
  | none => rw [ha'] at hi; simp at hi
  | some u =>
    cases hb' : b[i]? with
    | none => rw [ha', hb'] at hi; simp at hi
    | some v =>
      rw [ha', hb'] at hi
      simp at hi
      have h1 := ha u (List.mem_of_getElem? ha')
      have h2 := hb v (List.mem_of_getElem? hb')
      rw [← hi]
      rcases Nat.le_total u v with h | h
      · rw [Nat.max_eq_right h]; exact h2
      · rw [Nat.max_eq_left h]; exact h1

/-- what any sequence of `merge`s starting from `sh0` gives: right length, valid discriminants,
an upper bound of `sh0` and of every member's own shape. -/
theorem joinFold_spec (n : Nat) :
    ∀ (sets : List (List (Nat × Int))) (sh0 : List Nat), sh0.length = n → ShapeOk sh0 →
      let j := sets.foldl (fun sh ds => merge sh (reuse ds n)) sh0
      j.length = n ∧ ShapeOk j ∧ (∀ r, sh0.getD r 0 ≤ j.getD r 0) ∧
      (∀ ds ∈ sets, ∀ r, (reuse ds n).getD r 0 ≤ j.getD r 0) := by
  intro sets
  induction sets with
  | nil => intro sh0 h0 hs; simp [h0, hs]
  | cons d sets ih =>
    intro sh0 h0 hs
    have hl : sh0.length = (reuse d n).length := by rw [reuse_length]; exact h0
    have hm := ih (merge sh0 (reuse d n)) (by rw [merge_length _ _ hl]; exact h0)
      (merge_shapeOk _ _ hs (reuse_shapeOk d n))
    simp only [List.foldl_cons] at hm ⊢
    refine ⟨hm.1, hm.2.1, ?_, ?_⟩
    · intro r
      have := hm.2.2.1 r
      rw [merge_getD _ _ hl] at this
      have := Nat.le_max_left (sh0.getD r 0) ((reuse d n).getD r 0)
      omega
    · intro ds hds r
      rcases List.mem_cons.mp hds with rfl | h'
      · have := hm.2.2.1 r
        rw [merge_getD _ _ hl] at this
        have := Nat.le_max_right (sh0.getD r 0) ((reuse ds n).getD r 0)
        omega
      · exact hm.2.2.2 ds h' r

theorem joinShape_spec (n : Nat) (sets : List (List (Nat × Int))) :
    (joinShape n sets).length = n ∧ ShapeOk (joinShape n sets) ∧
    ∀ ds ∈ sets, Covers (joinShape n sets) (dense ds n) := by
  have := joinFold_spec n sets (List.replicate n 0) (by simp)
    (by intro b hb; simp at hb; left; exact hb.2)
  simp only [] at this
  refine ⟨this.1, this.2.1, ?_⟩
  intro ds hds
  refine ⟨by rw [dense_length]; exact this.1.symm, ?_⟩
  intro r
  have := this.2.2.2 ds hds r
  rw [reuse_getD] at this
  exact this

theorem foldl_set_rowI32 : ∀ (ds : List (Nat × Int)) (base : List Int), RowI32 base →
    (∀ rd ∈ ds, inI32 rd.2) → RowI32 (ds.foldl (fun row rd => row.set rd.1 rd.2) base) := by
  intro ds
  induction ds with
  | nil => intro base hb _; exact hb
  | cons d ds ih =>
    intro base hb hd
    simp only [List.foldl_cons]
    apply ih _ _ (fun x hx => hd x (by simp [hx]))
    intro x hx
    rcases List.mem_or_eq_of_mem_set hx with h1 | h1
    · exact hb x h1
    · rw [h1]; exact hd d (by simp)

theorem dense_rowI32 (ds : List (Nat × Int)) (n : Nat) (h : ∀ rd ∈ ds, inI32 rd.2) :
    RowI32 (dense ds n) := by
  unfold dense
  apply foldl_set_rowI32 _ _ _ h
  intro x hx; simp at hx; rw [hx.2]; simp [inI32]

theorem normalize_mem {ds : List (Nat × Int)} {rd : Nat × Int} (h : rd ∈ normalizeDeltaSet ds) :
    rd ∈ ds := by
  unfold normalizeDeltaSet at h
  simp only [] at h
  split at h
  · simp at h
  · exact List.mem_mergeSort.mp h

/-! ### J. the whole `Encoder::encode` + `make_region_list`, read back -/

abbrev Member := List (Nat × Int) × Nat
abbrev Enc := List Nat × List Member

/-- encodings after `iter_split_into_table_size_chunks`. -/
def chunked (encs : List Enc) : List Enc :=
  encs.flatMap fun e => (chunks 65535 e.2).map fun c => (e.1, c)

/-- subtables before region renumbering. -/
def rawSubs (n : Nat) (encs : List Enc) : List (Option Tent.SubTable) :=
  (chunked encs).map fun e => encodeSub e.1 (e.2.map fun m => dense m.1 n)

theorem encodeAll_subtables (n : Nat) (encs : List Enc) : (encodeAll n encs).subtables =
    remapRegions (usedRegions n (rawSubs n encs)) (rawSubs n encs) := rfl
theorem encodeAll_used (n : Nat) (encs : List Enc) :
    (encodeAll n encs).usedRegions = usedRegions n (rawSubs n encs) := rfl
theorem encodeAll_remap (n : Nat) (encs : List Enc) : (encodeAll n encs).remap =
    (chunked encs).zipIdx.flatMap fun ei =>
      ei.1.2.zipIdx.map fun mi => (mi.1.2, ei.2 % 65536, mi.2 % 65536) := rfl

/-- **retrieval**: what a reader gets for `(outer, inner)` from a built store, as a dense row over
the builder's canonical regions: the decoded columns of row `inner` of subtable `outer`
(`ItemVariationData::delta_set`), each attributed to the region its (renumbered) region index
names in the pruned region list; regions the subtable does not mention get 0. -/
def retrieve (b : Built) (n outer inner : Nat) : Option (List Int) :=
  match b.subtables[outer]? with
  | some (some st) =>
    if inner < st.itemCount then
      some (dense ((st.regionIndexes.map fun i => b.usedRegions.getD i 0).zip (decodedRow st inner)) n)
    else none
  | _ => none

/-- the model's well-formedness condition on an encoding list: every shape has one column per
canonical region, holds `ColumnBits` discriminants, and covers each of its members' rows. -/
def EncsWf (n : Nat) (encs : List Enc) : Prop :=
  ∀ e ∈ encs, e.1.length = n ∧ ShapeOk e.1 ∧
    ∀ m ∈ e.2, Covers e.1 (dense m.1 n) ∧ RowI32 (dense m.1 n)

theorem counts_le (s : List Nat) : count 4 s + count 2 s + count 1 s ≤ s.length := by
  induction s with
  | nil => simp [count]
  | cons a s ih =>
    simp only [count, List.filter_cons, List.length_cons] at *
    repeat' split
    all_goals simp_all
    all_goals omega

theorem mem_chunked {encs : List Enc} {e' : Enc} (h : e' ∈ chunked encs) :
    ∃ e ∈ encs, e'.1 = e.1 ∧ e'.2 ∈ chunks 65535 e.2 := by
  unfold chunked at h
  obtain ⟨e, he, hc⟩ := List.mem_flatMap.mp h
  obtain ⟨c, hc1, rfl⟩ := List.mem_map.mp hc
  exact ⟨e, he, rfl, hc1⟩

theorem chunked_wf {n : Nat} {encs : List Enc} (hwf : EncsWf n encs) : EncsWf n (chunked encs) := by
  intro e' he'
  obtain ⟨e, he, h1, h2⟩ := mem_chunked he'
  have := hwf e he
  rw [h1]
  exact ⟨this.1, this.2.1, fun m hm => this.2.2 m (chunks_subset _ _ _ h2 m hm)⟩

theorem chunked_len {encs : List Enc} {e' : Enc} (h : e' ∈ chunked encs) : e'.2.length ≤ 65535 := by
  obtain ⟨e, _, _, h2⟩ := mem_chunked h
  exact chunks_length_le 65535 e.2 (by omega) _ h2

/-- **positional retrieval**: member `mi` of chunk `ei` is read back exactly. -/
theorem pos_retrieve (n : Nat) (encs : List Enc) (hwf : EncsWf n encs) (hn : n < 32768)
    (ei mi : Nat) (e' : Enc) (m : Member) (he : (chunked encs)[ei]? = some e')
    (hm : e'.2[mi]? = some m) :
    retrieve (encodeAll n encs) n ei mi = some (dense m.1 n) := by
  have hmem : e' ∈ chunked encs := List.mem_of_getElem? he
  have hw := chunked_wf hwf e' hmem
  obtain ⟨s, members⟩ := e'
  simp only at hw hm
  have hmi : mi < members.length := by
    rcases Nat.lt_or_ge mi members.length with h | h
    · exact h
    · rw [List.getElem?_eq_none h] at hm; cases hm
  have hmget : members[mi] = m := by
    rw [List.getElem?_eq_getElem hmi] at hm; exact Option.some.inj hm
  -- the raw subtable
  let rows := members.map fun m => dense m.1 n
  have hrows : rows.length = members.length := by simp [rows]
  have hne : rows.isEmpty = false := by
    cases hr : rows with
    | nil => rw [hr] at hrows; simp at hrows; omega
    | cons _ _ => rfl
  let st0 : Tent.SubTable :=
    ⟨rows.length, wordDeltaCount s, indices s, rows.flatMap (encodeRow s)⟩
  have hsub0 : (rawSubs n encs)[ei]? = some (some st0) := by
    unfold rawSubs
    rw [List.getElem?_map, he]
    simp only [Option.map_some, encodeSub]
    rw [hne]; rfl
  let used := usedRegions n (rawSubs n encs)
  have hsub : (encodeAll n encs).subtables[ei]? =
      some (some { st0 with regionIndexes := (indices s).map fun r => used.idxOf r }) := by
    rw [encodeAll_subtables]
    unfold remapRegions
    rw [List.getElem?_map, hsub0]; rfl
  unfold retrieve
  rw [hsub]
  simp only
  have hic : mi < st0.itemCount := by simp only [st0]; omega
  simp only [hic, if_true]
  -- region indices map back to the canonical ones
  have hused : ∀ r ∈ indices s, r ∈ used := by
    intro r hr
    refine mem_usedRegions.mpr ⟨?_, st0, List.mem_of_getElem? hsub0, hr⟩
    rcases mem_indices.mp hr with h | h | h
    all_goals
      rcases Nat.lt_or_ge r s.length with hl | hl
      · rw [← hw.1]; exact hl
      · rw [List.getElem?_eq_none hl] at h; cases h
  rw [encodeAll_used]
  have hun := unmap_regions used (indices s) hused
  simp only [used] at hun
  rw [hun]
  -- the decoded row
  have hnl : nLong s < 32768 := by
    have := nLong_le s
    rw [indices_length] at this
    have := counts_le s
    rw [hw.1] at this
    omega
  have hdec : decodedRow { st0 with regionIndexes := (indices s).map fun r => used.idxOf r } mi =
      rawRow s rows[mi] := by
    unfold decodedRow
    simp only [List.length_map, st0]
    exact deltaSet_encoded s rows mi (by omega) (by
      intro row hrow
      obtain ⟨m', hm', rfl⟩ := List.mem_map.mp hrow
      exact hw.2.2 m' hm') hnl
  simp only [used] at hdec
  rw [hdec]
  have hrow : rows[mi] = dense m.1 n := by simp [rows, hmget]
  rw [hrow, scatter_eq s (dense m.1 n) n hw.2.1 hw.1 (hw.2.2 m (hmget ▸ List.getElem_mem hmi)).1]

theorem remap_of_pos (n : Nat) (encs : List Enc) (ei mi : Nat) (e' : Enc) (m : Member)
    (he : (chunked encs)[ei]? = some e') (hm : e'.2[mi]? = some m) (h1 : ei < 65536)
    (h2 : mi < 65536) : (m.2, ei, mi) ∈ (encodeAll n encs).remap := by
  rw [encodeAll_remap]
  refine List.mem_flatMap.mpr ⟨(e', ei), List.mem_zipIdx_iff_getElem?.mpr he, ?_⟩
  refine List.mem_map.mpr ⟨(m, mi), List.mem_zipIdx_iff_getElem?.mpr hm, ?_⟩
  simp only [Nat.mod_eq_of_lt h1, Nat.mod_eq_of_lt h2]

theorem pos_of_remap (n : Nat) (encs : List Enc) (id o i : Nat)
    (h : (id, o, i) ∈ (encodeAll n encs).remap) :
    ∃ (ei mi : Nat) (e' : Enc) (m : Member),
      (chunked encs)[ei]? = some e' ∧ e'.2[mi]? = some m ∧ m.2 = id ∧
      o = ei % 65536 ∧ i = mi % 65536 := by
  rw [encodeAll_remap] at h
  obtain ⟨p, hp, hx⟩ := List.mem_flatMap.mp h
  obtain ⟨q, hq, hxq⟩ := List.mem_map.mp hx
  have hp' := List.mem_zipIdx_iff_getElem?.mp hp
  have hq' := List.mem_zipIdx_iff_getElem?.mp hq
  simp only [Prod.mk.injEq] at hxq
  exact ⟨p.2, q.2, p.1, q.1, hp', hq', hxq.1, hxq.2.1.symm, hxq.2.2.symm⟩

theorem pos_of_member (encs : List Enc) (e : Enc) (he : e ∈ encs) (m : Member) (hm : m ∈ e.2) :
    ∃ (ei mi : Nat) (e' : Enc), (chunked encs)[ei]? = some e' ∧ e'.2[mi]? = some m := by
  have : m ∈ (chunks 65535 e.2).flatten := by rw [chunks_flatten]; exact hm
  obtain ⟨c, hc, hmc⟩ := List.mem_flatten.mp this
  have hin : (e.1, c) ∈ chunked encs := by
    unfold chunked
    exact List.mem_flatMap.mpr ⟨e, he, List.mem_map.mpr ⟨c, hc, rfl⟩⟩
  obtain ⟨ei, hei⟩ := List.mem_iff_getElem?.mp hin
  obtain ⟨mi, hmi⟩ := List.mem_iff_getElem?.mp hmc
  exact ⟨ei, mi, (e.1, c), hei, hmi⟩

theorem subtables_length (n : Nat) (encs : List Enc) :
    (encodeAll n encs).subtables.length = (chunked encs).length := by
  rw [encodeAll_subtables]; simp [remapRegions, rawSubs]

/-- **core retrieval theorem** for `Encoder::encode` + `make_region_list` on any well-formed
list of encodings. -/
theorem encodeAll_retrievable (n : Nat) (encs : List Enc) (hwf : EncsWf n encs) (hn : n < 32768)
    (hsub : (encodeAll n encs).subtables.length ≤ 65536) :
    (∀ e ∈ encs, ∀ m ∈ e.2, ∃ o i, (m.2, o, i) ∈ (encodeAll n encs).remap ∧
        retrieve (encodeAll n encs) n o i = some (dense m.1 n)) ∧
    (∀ id o i, (id, o, i) ∈ (encodeAll n encs).remap → ∃ e ∈ encs, ∃ m ∈ e.2, m.2 = id ∧
        retrieve (encodeAll n encs) n o i = some (dense m.1 n)) := by
  rw [subtables_length] at hsub
  have bounds : ∀ ei mi e' (m : Member), (chunked encs)[ei]? = some e' → e'.2[mi]? = some m →
      ei < 65536 ∧ mi < 65536 := by
    intro ei mi e' m he hm
    have h1 : ei < (chunked encs).length := by
      rcases Nat.lt_or_ge ei (chunked encs).length with h | h
      · exact h
      · rw [List.getElem?_eq_none h] at he; cases he
    have h2 : mi < e'.2.length := by
      rcases Nat.lt_or_ge mi e'.2.length with h | h
      · exact h
      · rw [List.getElem?_eq_none h] at hm; cases hm
    have := chunked_len (List.mem_of_getElem? he)
    omega
  constructor
  · intro e he m hm
    obtain ⟨ei, mi, e', hei, hmi⟩ := pos_of_member encs e he m hm
    have b := bounds ei mi e' m hei hmi
    exact ⟨ei, mi, remap_of_pos n encs ei mi e' m hei hmi b.1 b.2,
      pos_retrieve n encs hwf hn _ _ e' m hei hmi⟩
  · intro id o i h
    obtain ⟨ei, mi, e', m, hei, hmi, hid, ho, hi⟩ := pos_of_remap n encs id o i h
    have b := bounds ei mi e' m hei hmi
    rw [Nat.mod_eq_of_lt b.1] at ho
    rw [Nat.mod_eq_of_lt b.2] at hi
    subst ho hi
    obtain ⟨e, he, h1, h2⟩ := mem_chunked (List.mem_of_getElem? hei)
    exact ⟨e, he, m, chunks_subset _ _ _ h2 m (List.mem_of_getElem? hmi), hid,
      pos_retrieve n encs hwf hn _ _ e' m hei hmi⟩

theorem chunks_small {α} (k : Nat) (xs : List α) (h : xs.length ≤ k) : chunks k xs = [xs] := by
  rw [chunks]; simp [h]

theorem chunked_length_small (encs : List Enc) (h : ∀ e ∈ encs, e.2.length ≤ 65535) :
    (chunked encs).length = encs.length := by
  unfold chunked
  induction encs with
  | nil => rfl
  | cons e encs ih =>
    simp only [List.flatMap_cons, List.length_append, List.length_cons]
    rw [chunks_small _ _ (h e (by simp)), ih (fun x hx => h x (by simp [hx]))]
    simp; omega

/-! ### K. `build_unoptimized` (implicit indices) as a one-encoding `encodeAll` -/

theorem retrieve_congr {b b' : Built} (h1 : b.subtables = b'.subtables)
    (h2 : b.usedRegions = b'.usedRegions) (n o i : Nat) : retrieve b n o i = retrieve b' n o i := by
  unfold retrieve; rw [h1, h2]

theorem buildDirect_fields (n : Nat) (sets : List (List (Nat × Int))) (h : sets.length ≤ 65535) :
    let sets' := sets.map normalizeDeltaSet
    (buildDirect n sets).subtables = (encodeAll n [(joinShape n sets', sets'.zipIdx)]).subtables ∧
    (buildDirect n sets).usedRegions = (encodeAll n [(joinShape n sets', sets'.zipIdx)]).usedRegions := by
  intro sets'
  have hraw : rawSubs n [(joinShape n sets', sets'.zipIdx)] =
      [encodeSub (joinShape n sets') (sets'.map fun ds => dense ds n)] := by
    unfold rawSubs chunked
    simp only [List.flatMap_cons, List.flatMap_nil, List.append_nil]
    rw [chunks_small _ _ (by simp [sets']; exact h)]
    simp only [List.map_cons, List.map_nil]
    congr 2
    have : (sets'.zipIdx.map fun m => dense m.1 n) = (sets'.zipIdx.map Prod.fst).map (fun ds => dense ds n) := by
      rw [List.map_map]; rfl
    rw [this, List.zipIdx_map_fst]
  rw [encodeAll_subtables, encodeAll_used, hraw]
  exact ⟨rfl, rfl⟩

/-- **direct storage**: item `k` is stored under the implicit index `(0, k)` and read back exactly. -/
theorem buildDirect_retrievable (n : Nat) (sets : List (List (Nat × Int)))
    (hd : ∀ ds ∈ sets, ∀ rd ∈ ds, inI32 rd.2) (hn : n < 32768) (hlen : sets.length ≤ 65535)
    (k : Nat) (hk : k < sets.length) :
    (k, 0, k) ∈ (buildDirect n sets).remap ∧
    retrieve (buildDirect n sets) n 0 k = some (dense (normalizeDeltaSet sets[k]) n) := by
  have hk' : k < (sets.map normalizeDeltaSet).length := by simpa using hk
  have hget : (sets.map normalizeDeltaSet).zipIdx[k]? = some (normalizeDeltaSet sets[k], k) := by
    rw [List.getElem?_zipIdx, List.getElem?_eq_getElem hk']; simp
  constructor
  · unfold buildDirect
    simp only []
    have hne : (sets.map normalizeDeltaSet).isEmpty = false := by
      cases hs : sets with
      | nil => rw [hs] at hk; simp at hk
      | cons _ _ => rfl
    rw [hne]
    simp only [Bool.false_eq_true, if_false]
    refine List.mem_map.mpr ⟨(normalizeDeltaSet sets[k], k), List.mem_of_getElem? hget, ?_⟩
    simp only [Nat.mod_eq_of_lt (by omega : k < 65536)]
  · have hf := buildDirect_fields n sets hlen
    simp only [] at hf
    rw [retrieve_congr hf.1 hf.2]
    have hwf : EncsWf n [(joinShape n (sets.map normalizeDeltaSet), (sets.map normalizeDeltaSet).zipIdx)] := by
      intro e he
      simp at he; subst he
      have hj := joinShape_spec n (sets.map normalizeDeltaSet)
      refine ⟨hj.1, hj.2.1, ?_⟩
      intro m hm
      have hm1 : m.1 ∈ sets.map normalizeDeltaSet := by
        have := List.mem_map_of_mem (f := Prod.fst) hm
        rwa [List.zipIdx_map_fst] at this
      refine ⟨hj.2.2 m.1 hm1, ?_⟩
      obtain ⟨ds, hds, hmd⟩ := List.mem_map.mp hm1
      rw [← hmd]
      exact dense_rowI32 _ n (fun rd hrd => hd ds hds rd (normalize_mem hrd))
    have hch : (chunked [(joinShape n (sets.map normalizeDeltaSet), (sets.map normalizeDeltaSet).zipIdx)])[0]? =
        some (joinShape n (sets.map normalizeDeltaSet), (sets.map normalizeDeltaSet).zipIdx) := by
      unfold chunked
      simp only [List.flatMap_cons, List.flatMap_nil, List.append_nil]
      rw [chunks_small _ _ (by simp; exact hlen)]
      rfl
    exact pos_retrieve n _ hwf hn 0 k _ (normalizeDeltaSet sets[k], k) hch hget

/-! ### L. `add_deltas`: de-duplication and normalisation -/

/-- invariant of the de-duplicating storage: the id of an entry is its position, keys are unique. -/
def StoreInv (entries : List Member) : Prop :=
  (∀ (k : Nat) (e : Member), entries[k]? = some e → e.2 = k) ∧ (entries.map (·.1)).Nodup

theorem dedupAdd_spec (entries : List Member) (ds : List (Nat × Int)) (hinv : StoreInv entries)
    (hlen : entries.length < 4294967296) :
    StoreInv (dedupAdd entries ds).1 ∧ (∃ suffix, (dedupAdd entries ds).1 = entries ++ suffix) ∧
    (dedupAdd entries ds).1[(dedupAdd entries ds).2]? = some (ds, (dedupAdd entries ds).2) ∧
    (dedupAdd entries ds).1.length ≤ entries.length + 1 := by
  unfold dedupAdd
  cases hf : entries.find? (fun e => e.1 == ds) with
  | some e =>
    simp only []
    have hmem := List.mem_of_find?_eq_some hf
    have heq : e.1 = ds := by have := List.find?_some hf; simpa using this
    obtain ⟨k, hk⟩ := List.mem_iff_getElem?.mp hmem
    have hk2 := hinv.1 k e hk
    refine ⟨hinv, ⟨[], by simp⟩, ?_, by omega⟩
    rw [hk2, hk, ← heq, ← hk2]
  | none =>
    simp only []
    have hnone := List.find?_eq_none.mp hf
    rw [Nat.mod_eq_of_lt hlen]
    refine ⟨⟨?_, ?_⟩, ⟨_, rfl⟩, ?_, by simp⟩
    · intro k e hk
      rcases Nat.lt_or_ge k entries.length with h | h
      · rw [List.getElem?_append_left h] at hk; exact hinv.1 k e hk
      · rw [List.getElem?_append_right h] at hk
        cases hd : k - entries.length with
        | zero => rw [hd] at hk; simp at hk; rw [← hk]; simp; omega
        | succ j => rw [hd] at hk; simp at hk
    · rw [List.map_append, List.nodup_append]
      refine ⟨hinv.2, by simp, ?_⟩
      intro a ha b hb
      simp at hb; subst hb
      obtain ⟨x, hx, rfl⟩ := List.mem_map.mp ha
      intro h
      exact hnone x hx (by simp [h])
    · rw [List.getElem?_append_right (Nat.le_refl _)]; simp

theorem addAllDedup_spec : ∀ (sets : List (List (Nat × Int))) (entries : List Member),
    StoreInv entries → entries.length + sets.length ≤ 4294967296 →
    StoreInv (addAllDedup entries sets).1 ∧
    (∃ suffix, (addAllDedup entries sets).1 = entries ++ suffix) ∧
    (addAllDedup entries sets).2.length = sets.length ∧
    ∀ (i : Nat) (ds : List (Nat × Int)) (id : Nat), sets[i]? = some ds →
      (addAllDedup entries sets).2[i]? = some id →
      (addAllDedup entries sets).1[id]? = some (normalizeDeltaSet ds, id) := by
  intro sets
  induction sets with
  | nil => intro entries hinv _; simp [addAllDedup, hinv]
  | cons ds rest ih =>
    intro entries hinv hlen
    have h1 := dedupAdd_spec entries (normalizeDeltaSet ds) hinv (by simp at hlen; omega)
    have h2 := ih (dedupAdd entries (normalizeDeltaSet ds)).1 h1.1 (by
      have := h1.2.2.2; simp at hlen; omega)
    simp only [addAllDedup]
    obtain ⟨suf1, hs1⟩ := h1.2.1
    obtain ⟨suf2, hs2⟩ := h2.2.1
    refine ⟨h2.1, ⟨suf1 ++ suf2, by rw [hs2, hs1, List.append_assoc]⟩, by simp [h2.2.2.1], ?_⟩
    intro i d id hi hid
    cases i with
    | zero =>
      simp at hi hid; subst hi; subst hid
      rw [hs2]
      have hlt : (dedupAdd entries (normalizeDeltaSet ds)).2 <
          (dedupAdd entries (normalizeDeltaSet ds)).1.length := by
        rcases Nat.lt_or_ge (dedupAdd entries (normalizeDeltaSet ds)).2
          (dedupAdd entries (normalizeDeltaSet ds)).1.length with h | h
        · exact h
        · have := h1.2.2.1; rw [List.getElem?_eq_none h] at this; cases this
      rw [List.getElem?_append_left hlt]
      exact h1.2.2.1
    | succ j =>
      simp at hi hid
      exact h2.2.2.2 j d id hi hid

theorem storeInv_nil : StoreInv [] := by
  refine ⟨?_, by simp⟩
  intro k e h; simp at h

/-- **dedup**: two `add_deltas` calls return the same temporary id iff their delta sets are equal
after normalisation (sorted; all-zero = empty). -/
theorem addAllDedup_ids_eq_iff (sets : List (List (Nat × Int))) (hlen : sets.length ≤ 4294967296)
    (i j : Nat) (a b : List (Nat × Int)) (ia ib : Nat) (hi : sets[i]? = some a) (hj : sets[j]? = some b)
    (hia : (addAllDedup [] sets).2[i]? = some ia) (hib : (addAllDedup [] sets).2[j]? = some ib) :
    ia = ib ↔ normalizeDeltaSet a = normalizeDeltaSet b := by
  have hs := addAllDedup_spec sets [] storeInv_nil (by simpa using hlen)
  have ea := hs.2.2.2 i a ia hi hia
  have eb := hs.2.2.2 j b ib hj hib
  constructor
  · intro h; subst h
    rw [ea] at eb
    simp at eb; exact eb
  · intro h
    -- equal keys sit at equal positions (keys are unique)
    have hka : ((addAllDedup [] sets).1.map (·.1))[ia]? = some (normalizeDeltaSet a) := by
      rw [List.getElem?_map, ea]; rfl
    have hkb : ((addAllDedup [] sets).1.map (·.1))[ib]? = some (normalizeDeltaSet a) := by
      rw [List.getElem?_map, eb, h]; rfl
    have hlt : ia < ((addAllDedup [] sets).1.map (·.1)).length := by
      rcases Nat.lt_or_ge ia ((addAllDedup [] sets).1.map (·.1)).length with h' | h'
      · exact h'
      · rw [List.getElem?_eq_none h'] at hka; cases hka
    exact (List.getElem?_inj hlt hs.1.2).mp (by rw [hka, hkb])

theorem pairLe_trans (a b c : Nat × Int) : pairLe a b = true → pairLe b c = true → pairLe a c = true := by
  unfold pairLe; simp only [Bool.or_eq_true, Bool.and_eq_true, decide_eq_true_eq]; omega

theorem pairLe_total (a b : Nat × Int) : (pairLe a b || pairLe b a) = true := by
  unfold pairLe; simp only [Bool.or_eq_true, Bool.and_eq_true, decide_eq_true_eq]; omega

/-- `add_deltas`' normalisation is idempotent (the builder stores normalised sets). -/
theorem normalizeDeltaSet_idem (ds : List (Nat × Int)) :
    normalizeDeltaSet (normalizeDeltaSet ds) = normalizeDeltaSet ds := by
  unfold normalizeDeltaSet
  simp only []
  by_cases h : (ds.mergeSort pairLe).all (fun rd => rd.2 = 0)
  · simp only [h, if_true]; simp
  · simp only [h]
    have hs := List.pairwise_mergeSort (le := pairLe) pairLe_trans pairLe_total ds
    simp only [Bool.false_eq_true, if_false]
    rw [List.mergeSort_of_pairwise hs]
    simp only [h, Bool.false_eq_true, if_false]

/-- `canonical_index_for_region`: the returned index names the region, known regions keep theirs. -/
theorem canonIndex_spec {R} [BEq R] [LawfulBEq R] (all : List R) (r : R) :
    (canonIndex all r).1[(canonIndex all r).2]? = some r ∧
    (∃ suffix, (canonIndex all r).1 = all ++ suffix) ∧
    (all.Nodup → (canonIndex all r).1.Nodup) := by
  unfold canonIndex
  by_cases h : all.contains r
  · simp only [h, if_true]
    have hm : r ∈ all := List.contains_iff_mem.mp h
    have hlt := List.idxOf_lt_length_iff.mpr hm
    refine ⟨?_, ⟨[], by simp⟩, id⟩
    rw [List.getElem?_eq_getElem hlt, List.getElem_idxOf hlt]
  · simp only [h, Bool.false_eq_true, if_false]
    have hm : r ∉ all := fun hh => h (List.contains_iff_mem.mpr hh)
    refine ⟨?_, ⟨_, rfl⟩, ?_⟩
    · simp
    · intro hn
      rw [List.nodup_append]
      refine ⟨hn, by simp, ?_⟩
      intro a ha b hb
      simp at hb; subst hb
      intro hab; subst hab; exact hm ha

theorem dedupAdd_mem (entries : List Member) (ds : List (Nat × Int)) :
    ∀ e ∈ (dedupAdd entries ds).1, e ∈ entries ∨ e.1 = ds := by
  unfold dedupAdd
  cases hf : entries.find? (fun e => e.1 == ds) with
  | some e0 => intro e he; left; exact he
  | none =>
    intro e he
    simp only [] at he
    rcases List.mem_append.mp he with h | h
    · left; exact h
    · right; simp at h; rw [h]

/-- every stored key is the normalisation of some added set. -/
theorem addAllDedup_keys : ∀ (sets : List (List (Nat × Int))) (entries : List Member),
    ∀ e ∈ (addAllDedup entries sets).1, e ∈ entries ∨ ∃ ds ∈ sets, e.1 = normalizeDeltaSet ds := by
  intro sets
  induction sets with
  | nil => intro entries e he; left; simpa [addAllDedup] using he
  | cons ds rest ih =>
    intro entries e he
    simp only [addAllDedup] at he
    rcases ih _ e he with h | ⟨d, hd, hk⟩
    · rcases dedupAdd_mem entries _ e h with h' | h'
      · left; exact h'
      · right; exact ⟨ds, by simp, h'⟩
    · right; exact ⟨d, by simp [hd], hk⟩

end FontVerif.Ivs
