/-
Helper lemmas for C07 (Props/C07.lean): the id-consuming functions of the model commute with renamings that are
strictly monotone on the ids in use.
-/
import FontVerif.Model.Determinism
import FontVerif.Lemmas.Determinism
namespace FontVerif.Determinism
set_option linter.unusedSimpArgs false
set_option linter.unusedVariables false

/-- `ρ` is strictly monotone on the ids satisfying `U` -/
def MonoOnP (ρ : Nat → Nat) (U : Nat → Prop) : Prop := ∀ a b, U a → U b → a < b → ρ a < ρ b

theorem MonoOnP.lt_iff {ρ U} (h : MonoOnP ρ U) {a b : Nat} (ha : U a) (hb : U b) : ρ a < ρ b ↔ a < b := by
  constructor
  · intro hlt
    rcases Nat.lt_trichotomy a b with h1 | h1 | h1
    · exact h1
    · subst h1; omega
    · have := h b a hb ha h1; omega
  · exact h a b ha hb

theorem MonoOnP.eq_iff {ρ U} (h : MonoOnP ρ U) {a b : Nat} (ha : U a) (hb : U b) : ρ a = ρ b ↔ a = b := by
  constructor
  · intro heq
    rcases Nat.lt_trichotomy a b with h1 | h1 | h1
    · have := h a b ha hb h1; omega
    · exact h1
    · have := h b a hb ha h1; omega
  · intro h1; rw [h1]

theorem MonoOnP.le_iff {ρ U} (h : MonoOnP ρ U) {a b : Nat} (ha : U a) (hb : U b) : ρ a ≤ ρ b ↔ a ≤ b := by
  have h1 := h.lt_iff hb ha
  omega

/-- all keys and link targets of `m` satisfy `U` -/
def Closed (U : Nat → Prop) (m : OMap Obj) : Prop := ∀ e ∈ m, U e.1 ∧ ∀ l ∈ e.2.links, U l.target

theorem get?_rename {ρ U} (h : MonoOnP ρ U) (m : OMap Obj) (hm : ∀ e ∈ m, U e.1) (k : Nat) (hk : U k) :
    OMap.get? (ρ k) (renameMap ρ m) = (OMap.get? k m).map (Obj.rename ρ) := by
  induction m with
  | nil => rfl
  | cons e rest ih =>
    obtain ⟨k', o⟩ := e
    have hk' : U k' := hm (k', o) (by simp)
    simp only [renameMap, List.map_cons, OMap.get?]
    by_cases c : k = k'
    · subst c; simp
    · have : ρ k ≠ ρ k' := fun hc => c ((h.eq_iff hk hk').mp hc)
      simp only [if_neg c, if_neg this]
      exact ih (fun e he => hm e (by simp [he]))

theorem popMin_mem (q : List Nat) (a : Nat) (r : List Nat) (hp : popMin q = some (a, r)) :
    a ∈ q ∧ ∀ x ∈ r, x ∈ q := by
  induction q generalizing a r with
  | nil => simp [popMin] at hp
  | cons x xs ih =>
    simp only [popMin] at hp
    cases hx : popMin xs with
    | none => rw [hx] at hp; simp at hp; obtain ⟨rfl, rfl⟩ := hp; simp
    | some p =>
      obtain ⟨m, rest⟩ := p
      rw [hx] at hp
      have := ih m rest hx
      simp only at hp
      split at hp
      · simp at hp; obtain ⟨rfl, rfl⟩ := hp
        exact ⟨by simp, fun y hy => by simp [hy]⟩
      · simp at hp; obtain ⟨rfl, rfl⟩ := hp
        refine ⟨by simp [this.1], ?_⟩
        intro y hy; simp only [List.mem_cons] at hy ⊢
        rcases hy with rfl | hy
        · exact Or.inl rfl
        · exact Or.inr (this.2 y hy)

theorem popMin_map {ρ U} (h : MonoOnP ρ U) (q : List Nat) (hq : ∀ x ∈ q, U x) :
    popMin (q.map ρ) = (popMin q).map (fun p => (ρ p.1, p.2.map ρ)) := by
  induction q with
  | nil => rfl
  | cons x xs ih =>
    have ihx := ih (fun y hy => hq y (by simp [hy]))
    simp only [List.map_cons, popMin, ihx]
    cases hx : popMin xs with
    | none => simp
    | some p =>
      obtain ⟨m, rest⟩ := p
      have hm : U m := hq m (by simp [(popMin_mem xs m rest hx).1])
      have hxU : U x := hq x (by simp)
      simp only [Option.map_some]
      by_cases c : x ≤ m
      · have : ρ x ≤ ρ m := (h.le_iff hxU hm).mpr c
        simp [c, this]
      · have : ¬ ρ x ≤ ρ m := fun hc => c ((h.le_iff hxU hm).mp hc)
        simp [c, this]

theorem filter_links_rename {ρ U} (h : MonoOnP ρ U) (ls : List Link) (hl : ∀ l ∈ ls, U l.target) (id : Nat) (hid : U id) :
    ((ls.map (Link.rename ρ)).filter (fun l => l.target == ρ id)).length =
      (ls.filter (fun l => l.target == id)).length := by
  induction ls with
  | nil => rfl
  | cons l rest ih =>
    have ht : U l.target := hl l (by simp)
    have ihr := ih (fun x hx => hl x (by simp [hx]))
    simp only [List.map_cons, List.filter_cons, Link.rename]
    by_cases c : l.target = id
    · have : ρ l.target = ρ id := by rw [c]
      simp [c, this] at ihr ⊢; exact ihr
    · have : ρ l.target ≠ ρ id := fun hc => c ((h.eq_iff ht hid).mp hc)
      simp [c, this] at ihr ⊢; exact ihr

theorem inDegree_rename {ρ U} (h : MonoOnP ρ U) (m : OMap Obj) (hm : Closed U m) (id : Nat) (hid : U id) :
    inDegree (renameMap ρ m) (ρ id) = inDegree m id := by
  unfold inDegree renameMap
  induction m with
  | nil => rfl
  | cons e rest ih =>
    have := ih (fun x hx => hm x (by simp [hx]))
    simp only [List.map_cons, List.sum_cons, Obj.rename] at this ⊢
    rw [this, filter_links_rename h e.2.links (hm e (by simp)).2 id hid]

def renSeen (ρ : Nat → Nat) (seen : List (Nat × Nat)) : List (Nat × Nat) := seen.map (fun e => (ρ e.1, e.2))

theorem bump_rename {ρ U} (h : MonoOnP ρ U) (seen : List (Nat × Nat)) (hs : ∀ e ∈ seen, U e.1) (k : Nat) (hk : U k) :
    bump (ρ k) (renSeen ρ seen) = renSeen ρ (bump k seen) := by
  induction seen with
  | nil => rfl
  | cons e rest ih =>
    obtain ⟨k', n⟩ := e
    have hk' : U k' := hs (k', n) (by simp)
    have ihr := ih (fun x hx => hs x (by simp [hx]))
    simp only [renSeen, List.map_cons, bump] at ihr ⊢
    by_cases c : k = k'
    · subst c; simp
    · have : ρ k ≠ ρ k' := fun hc => c ((h.eq_iff hk hk').mp hc)
      simp only [if_neg c, if_neg this, List.map_cons, ihr]

theorem bump_keys (seen : List (Nat × Nat)) (k : Nat) (U : Nat → Prop) (hs : ∀ e ∈ seen, U e.1) (hk : U k) :
    ∀ e ∈ bump k seen, U e.1 := by
  induction seen with
  | nil => intro e he; simp [bump] at he; subst he; exact hk
  | cons e rest ih =>
    obtain ⟨k', n⟩ := e
    simp only [bump]
    split
    · intro e he; simp only [List.mem_cons] at he
      rcases he with rfl | he
      · exact hs (k', n) (by simp)
      · exact hs e (by simp [he])
    · intro e he; simp only [List.mem_cons] at he
      rcases he with rfl | he
      · exact hs (k', n) (by simp)
      · exact ih (fun x hx => hs x (by simp [hx])) e he

theorem seenOf_rename {ρ U} (h : MonoOnP ρ U) (seen : List (Nat × Nat)) (hs : ∀ e ∈ seen, U e.1) (k : Nat) (hk : U k) :
    seenOf (ρ k) (renSeen ρ seen) = seenOf k seen := by
  induction seen with
  | nil => rfl
  | cons e rest ih =>
    obtain ⟨k', n⟩ := e
    have hk' : U k' := hs (k', n) (by simp)
    have ihr := ih (fun x hx => hs x (by simp [hx]))
    simp only [renSeen, List.map_cons, seenOf] at ihr ⊢
    by_cases c : k = k'
    · subst c; simp
    · have : ρ k ≠ ρ k' := fun hc => c ((h.eq_iff hk hk').mp hc)
      simp only [if_neg c, if_neg this, ihr]

theorem kahnLinks_rename {ρ U} (h : MonoOnP ρ U) (m : OMap Obj) (hm : Closed U m) (ls : List Link)
    (hl : ∀ l ∈ ls, U l.target) : ∀ (q : List Nat) (seen : List (Nat × Nat)), (∀ x ∈ q, U x) → (∀ e ∈ seen, U e.1) →
    kahnLinks (renameMap ρ m) (ls.map (Link.rename ρ)) (q.map ρ) (renSeen ρ seen) =
      (((kahnLinks m ls q seen).1.map ρ, renSeen ρ (kahnLinks m ls q seen).2)) ∧
    (∀ x ∈ (kahnLinks m ls q seen).1, U x) ∧ (∀ e ∈ (kahnLinks m ls q seen).2, U e.1) := by
  induction ls with
  | nil => intro q seen hq hs; exact ⟨rfl, hq, hs⟩
  | cons l rest ih =>
    intro q seen hq hs
    have ht : U l.target := hl l (by simp)
    have hrest : ∀ l ∈ rest, U l.target := fun x hx => hl x (by simp [hx])
    have hb := bump_keys seen l.target U hs ht
    simp only [List.map_cons, kahnLinks, Link.rename, bump_rename h seen hs l.target ht,
      seenOf_rename h _ hb l.target ht, inDegree_rename h m hm l.target ht]
    split
    · have hq' : ∀ x ∈ l.target :: q, U x := by
        intro x hx; simp only [List.mem_cons] at hx; rcases hx with rfl | hx
        · exact ht
        · exact hq x hx
      have := ih hrest (l.target :: q) (bump l.target seen) hq' hb
      simpa using this
    · exact ih hrest q (bump l.target seen) hq hb

theorem get?_mem {α : Type} (m : OMap α) (k : Nat) (v : α) (h : OMap.get? k m = some v) : (k, v) ∈ m := by
  induction m with
  | nil => simp [OMap.get?] at h
  | cons e rest ih =>
    obtain ⟨k', v'⟩ := e
    simp only [OMap.get?] at h
    split at h
    · simp at h; subst_vars; simp
    · simp [ih h]

theorem kahnLoop_rename {ρ U} (h : MonoOnP ρ U) (m : OMap Obj) (hm : Closed U m) (fuel : Nat) :
    ∀ (q : List Nat) (seen : List (Nat × Nat)) (order : List Nat), (∀ x ∈ q, U x) → (∀ e ∈ seen, U e.1) →
    kahnLoop (renameMap ρ m) fuel (q.map ρ) (renSeen ρ seen) (order.map ρ) =
      ((kahnLoop m fuel q seen order).1.map ρ, renSeen ρ (kahnLoop m fuel q seen order).2) := by
  induction fuel with
  | zero => intro q seen order _ _; simp [kahnLoop, List.map_reverse]
  | succ fuel ih =>
    intro q seen order hq hs
    simp only [kahnLoop, popMin_map h q hq]
    cases hp : popMin q with
    | none => simp [List.map_reverse]
    | some p =>
      obtain ⟨id, q'⟩ := p
      have hmem := popMin_mem q id q' hp
      have hid : U id := hq id hmem.1
      have hq' : ∀ x ∈ q', U x := fun x hx => hq x (hmem.2 x hx)
      simp only [Option.map_some, get?_rename h m (fun e he => (hm e he).1) id hid]
      cases hg : OMap.get? id m with
      | none => simp [List.map_reverse]
      | some o =>
        have ho := (hm (id, o) (get?_mem m id o hg)).2
        obtain ⟨e1, e2, e3⟩ := kahnLinks_rename h m hm o.links ho q' seen hq' hs
        simp only [Option.map_some, Obj.rename, e1]
        have := ih (kahnLinks m o.links q' seen).1 (kahnLinks m o.links q' seen).2 (id :: order) e2 e3
        simpa using this

theorem renameMap_length (ρ : Nat → Nat) (m : OMap Obj) : (renameMap ρ m).length = m.length := by
  simp [renameMap]

theorem kahnFuel_rename (ρ : Nat → Nat) (m : OMap Obj) : kahnFuel (renameMap ρ m) = kahnFuel m := by
  unfold kahnFuel renameMap
  simp only [List.length_map, List.map_map]
  congr 3
  apply List.map_congr_left
  intro e _
  simp [Obj.rename]

theorem sortKahn_rename {ρ U} (h : MonoOnP ρ U) (m : OMap Obj) (hm : Closed U m) (root : Nat) (hr : U root) :
    sortKahn (renameMap ρ m) (ρ root) = (sortKahn m root).map ρ := by
  unfold sortKahn
  rw [renameMap_length, kahnFuel_rename]
  split
  · simp [OMap.keys, renameMap, List.map_map]
  · have := kahnLoop_rename h m hm (kahnFuel m) [root] [] []
      (by intro x hx; simp at hx; subst hx; exact hr) (by intro e he; simp at he)
    simp only [List.map_cons, List.map_nil, renSeen] at this
    rw [this]

theorem kahnLoop_order_closed {ρ U} (h : MonoOnP ρ U) (m : OMap Obj) (hm : Closed U m) (fuel : Nat) :
    ∀ (q : List Nat) (seen : List (Nat × Nat)) (order : List Nat), (∀ x ∈ q, U x) → (∀ e ∈ seen, U e.1) →
    (∀ x ∈ order, U x) → ∀ x ∈ (kahnLoop m fuel q seen order).1, U x := by
  induction fuel with
  | zero => intro q seen order _ _ ho x hx; simp [kahnLoop] at hx; exact ho x hx
  | succ fuel ih =>
    intro q seen order hq hs ho
    simp only [kahnLoop]
    cases hp : popMin q with
    | none => intro x hx; simp at hx; exact ho x hx
    | some p =>
      obtain ⟨id, q'⟩ := p
      have hmem := popMin_mem q id q' hp
      have hid : U id := hq id hmem.1
      have hq' : ∀ x ∈ q', U x := fun x hx => hq x (hmem.2 x hx)
      simp only
      cases hg : OMap.get? id m with
      | none => intro x hx; simp at hx; exact ho x hx
      | some o =>
        have hol := (hm (id, o) (get?_mem m id o hg)).2
        obtain ⟨_, e2, e3⟩ := kahnLinks_rename h m hm o.links hol q' seen hq' hs
        simp only
        apply ih _ _ _ e2 e3
        intro x hx; simp only [List.mem_cons] at hx; rcases hx with rfl | hx
        · exact hid
        · exact ho x hx

theorem sortKahn_closed {ρ U} (h : MonoOnP ρ U) (m : OMap Obj) (hm : Closed U m) (root : Nat) (hr : U root) :
    ∀ x ∈ sortKahn m root, U x := by
  unfold sortKahn
  split
  · intro x hx; simp only [OMap.keys, List.mem_map] at hx; obtain ⟨e, he, rfl⟩ := hx; exact (hm e he).1
  · exact kahnLoop_order_closed h m hm _ [root] [] [] (by intro x hx; simp at hx; subst hx; exact hr)
      (by intro e he; simp at he) (by intro x hx; simp at hx)

theorem positions_rename {ρ U} (h : MonoOnP ρ U) (m : OMap Obj) (hm : Closed U m) (order : List Nat)
    (ho : ∀ x ∈ order, U x) : ∀ off, positions (renameMap ρ m) (order.map ρ) off =
      (positions m order off).map (fun e => (ρ e.1, e.2)) := by
  induction order with
  | nil => intro off; rfl
  | cons id rest ih =>
    intro off
    have hid : U id := ho id (by simp)
    simp only [List.map_cons, positions, get?_rename h m (fun e he => (hm e he).1) id hid]
    rw [ih (fun x hx => ho x (by simp [hx]))]
    cases OMap.get? id m <;> simp [Obj.rename]

theorem positions_keys (m : OMap Obj) (order : List Nat) (U : Nat → Prop) (ho : ∀ x ∈ order, U x) :
    ∀ off, ∀ e ∈ positions m order off, U e.1 := by
  induction order with
  | nil => intro off e he; simp [positions] at he
  | cons id rest ih =>
    intro off e he
    simp only [positions, List.mem_cons] at he
    rcases he with rfl | he
    · exact ho id (by simp)
    · exact ih (fun x hx => ho x (by simp [hx])) _ e he

theorem posOf_rename {ρ U} (h : MonoOnP ρ U) (ps : List (Nat × Nat)) (hps : ∀ e ∈ ps, U e.1) (id : Nat) (hid : U id) :
    posOf (ps.map (fun e => (ρ e.1, e.2))) (ρ id) = posOf ps id := by
  unfold posOf
  induction ps with
  | nil => rfl
  | cons e rest ih =>
    obtain ⟨k, v⟩ := e
    have hk : U k := hps (k, v) (by simp)
    have ihr := ih (fun x hx => hps x (by simp [hx]))
    simp only [List.map_cons, List.find?_cons]
    by_cases c : k = id
    · subst c; simp
    · have hne : ρ k ≠ ρ id := fun hc => c ((h.eq_iff hk hid).mp hc)
      have e1 : (ρ k == ρ id) = false := by simpa using hne
      have e2 : (k == id) = false := by simpa using c
      simp only [e1, e2]
      exact ihr

theorem resolveObj_rename {ρ U} (h : MonoOnP ρ U) (ps : List (Nat × Nat)) (hps : ∀ e ∈ ps, U e.1) (head : Nat)
    (o : Obj) (ho : ∀ l ∈ o.links, U l.target) :
    resolveObj (ps.map (fun e => (ρ e.1, e.2))) head (o.rename ρ) = resolveObj ps head o := by
  unfold resolveObj
  simp only [Obj.rename]
  have key : ∀ (ls : List Link), (∀ l ∈ ls, U l.target) → ∀ bs : List Nat,
      List.foldl (fun bs l => writeAt bs l.pos (beBytes l.width
        (posOf (ps.map (fun e => (ρ e.1, e.2))) l.target - (head + l.adj)))) bs (ls.map (Link.rename ρ)) =
      List.foldl (fun bs l => writeAt bs l.pos (beBytes l.width (posOf ps l.target - (head + l.adj)))) bs ls := by
    intro ls
    induction ls with
    | nil => intro _ bs; rfl
    | cons l rest ih =>
      intro hl bs
      simp only [List.map_cons, List.foldl_cons, Link.rename, posOf_rename h ps hps l.target (hl l (by simp))]
      exact ih (fun x hx => hl x (by simp [hx])) _
  exact key o.links ho o.bytes

theorem serialize_rename {ρ U} (h : MonoOnP ρ U) (m : OMap Obj) (hm : Closed U m) (order : List Nat)
    (ho : ∀ x ∈ order, U x) : serialize (renameMap ρ m) (order.map ρ) = serialize m order := by
  unfold serialize
  simp only [positions_rename h m hm order ho 0, List.map_map]
  congr 1
  apply List.map_congr_left
  intro id hid
  have hU := ho id hid
  have hps := positions_keys m order U ho 0
  simp only [Function.comp, get?_rename h m (fun e he => (hm e he).1) id hU, posOf_rename h _ hps id hU]
  cases hg : OMap.get? id m with
  | none => rfl
  | some o =>
    simp only [Option.map_some]
    exact resolveObj_rename h _ hps _ o (hm (id, o) (get?_mem m id o hg)).2

theorem insert_rename {ρ U} (h : MonoOnP ρ U) (m : OMap Obj) (hm : ∀ e ∈ m, U e.1) (k : Nat) (hk : U k) (o : Obj) :
    OMap.insert (ρ k) (o.rename ρ) (renameMap ρ m) = renameMap ρ (OMap.insert k o m) := by
  induction m with
  | nil => rfl
  | cons e rest ih =>
    obtain ⟨k', o'⟩ := e
    have hk' : U k' := hm (k', o') (by simp)
    have ihr := ih (fun x hx => hm x (by simp [hx]))
    simp only [renameMap, List.map_cons, OMap.insert] at ihr ⊢
    by_cases c1 : k < k'
    · have : ρ k < ρ k' := (h.lt_iff hk hk').mpr c1
      simp [c1, this]
    · have n1 : ¬ ρ k < ρ k' := fun hc => c1 ((h.lt_iff hk hk').mp hc)
      by_cases c2 : k = k'
      · subst c2; simp
      · have n2 : ρ k ≠ ρ k' := fun hc => c2 ((h.eq_iff hk hk').mp hc)
        simp only [if_neg c1, if_neg n1, if_neg c2, if_neg n2, List.map_cons, ihr]

theorem insert_keys {α : Type} (m : OMap α) (k : Nat) (v : α) (U : Nat → Prop) (hm : ∀ e ∈ m, U e.1) (hk : U k) :
    ∀ e ∈ OMap.insert k v m, U e.1 := by
  induction m with
  | nil => intro e he; simp [OMap.insert] at he; subst he; exact hk
  | cons e' rest ih =>
    obtain ⟨k', v'⟩ := e'
    simp only [OMap.insert]
    split
    · intro e he; simp only [List.mem_cons] at he
      rcases he with rfl | rfl | he
      · exact hk
      · exact hm _ (by simp)
      · exact hm e (by simp [he])
    · split
      · intro e he; simp only [List.mem_cons] at he
        rcases he with rfl | he
        · exact hk
        · exact hm e (by simp [he])
      · intro e he; simp only [List.mem_cons] at he
        rcases he with rfl | he
        · exact hm _ (by simp)
        · exact ih (fun x hx => hm x (by simp [hx])) e he

/-- renaming of the entries of an object store -/
def renameEntries (ρ : Nat → Nat) (es : List (Obj × Nat)) : List (Obj × Nat) := es.map (fun e => (e.1.rename ρ, ρ e.2))

theorem fromObjStore_rename {ρ U} (h : MonoOnP ρ U) (es : List (Obj × Nat)) (hes : ∀ e ∈ es, U e.2) :
    fromObjStore (renameEntries ρ es) = renameMap ρ (fromObjStore es) := by
  unfold fromObjStore OMap.ofList renameEntries
  have key : ∀ (l : List (Obj × Nat)) (acc : OMap Obj), (∀ e ∈ l, U e.2) → (∀ e ∈ acc, U e.1) →
      List.foldl (fun m e => OMap.insert e.1 e.2 m) (renameMap ρ acc)
        ((l.map (fun e => (e.1.rename ρ, ρ e.2))).map (fun e => (e.2, e.1))) =
      renameMap ρ (List.foldl (fun m e => OMap.insert e.1 e.2 m) acc (l.map (fun e => (e.2, e.1)))) := by
    intro l
    induction l with
    | nil => intro acc _ _; rfl
    | cons e rest ih =>
      intro acc hl hacc
      have he : U e.2 := hl e (by simp)
      simp only [List.map_cons, List.foldl_cons]
      rw [insert_rename h acc hacc e.2 he e.1]
      exact ih _ (fun x hx => hl x (by simp [hx])) (insert_keys acc e.2 e.1 U hacc he)
  exact key es [] hes (by intro e he; simp at he)

theorem omap_mem_insert {α : Type} (m : OMap α) (k : Nat) (v : α) (x : Nat × α) (hx : x ∈ OMap.insert k v m) :
    x = (k, v) ∨ x ∈ m := by
  induction m with
  | nil => simp [OMap.insert] at hx; exact Or.inl hx
  | cons a as iha =>
    obtain ⟨k', v'⟩ := a
    simp only [OMap.insert] at hx
    split at hx
    · simp only [List.mem_cons] at hx ⊢; rcases hx with h1 | h1 | h1
      · exact Or.inl h1
      · exact Or.inr (Or.inl h1)
      · exact Or.inr (Or.inr h1)
    · split at hx
      · simp only [List.mem_cons] at hx ⊢; rcases hx with h1 | h1
        · exact Or.inl h1
        · exact Or.inr (Or.inr h1)
      · simp only [List.mem_cons] at hx ⊢; rcases hx with h1 | h1
        · exact Or.inr (Or.inl h1)
        · rcases iha h1 with h2 | h2
          · exact Or.inl h2
          · exact Or.inr (Or.inr h2)

theorem fromObjStore_closed (U : Nat → Prop) (es : List (Obj × Nat))
    (hes : ∀ e ∈ es, U e.2 ∧ ∀ l ∈ e.1.links, U l.target) : Closed U (fromObjStore es) := by
  unfold fromObjStore OMap.ofList
  have key : ∀ (l : List (Obj × Nat)) (acc : OMap Obj), (∀ e ∈ l, U e.2 ∧ ∀ l ∈ e.1.links, U l.target) →
      Closed U acc → Closed U (List.foldl (fun m e => OMap.insert e.1 e.2 m) acc (l.map (fun e => (e.2, e.1)))) := by
    intro l
    induction l with
    | nil => intro acc _ h; exact h
    | cons e rest ih =>
      intro acc hl hacc
      simp only [List.map_cons, List.foldl_cons]
      apply ih _ (fun x hx => hl x (by simp [hx]))
      intro x hx
      rcases omap_mem_insert acc e.2 e.1 x hx with rfl | h2
      · exact hl e (by simp)
      · exact hacc x h2
  exact key es [] hes (by intro e he; simp at he)

end FontVerif.Determinism
