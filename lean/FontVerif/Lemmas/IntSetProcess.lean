/- C14 / IntSet helper lemmas, part 3: `BitSet::process` (union / intersect / subtract /
reversed subtract) as a page-wise merge. -/
import FontVerif.Lemmas.IntSetBits
set_option linter.unusedVariables false
set_option linter.unusedSimpArgs false
namespace FontVerif.IntSet

/-- a page operator that acts bitwise through the Boolean function `f` and keeps 512-bit storage -/
structure BitwiseOp (op : Nat → Nat → Nat) (f : Bool → Bool → Bool) : Prop where
  bit : ∀ a b i, (op a b).testBit i = f (a.testBit i) (b.testBit i)
  ff : f false false = false

theorem BitwiseOp.lt {op f} (h : BitwiseOp op f) {a b : Nat} (ha : a < 2 ^ 512) (hb : b < 2 ^ 512) :
    op a b < 2 ^ 512 := by
  apply Nat.lt_pow_two_of_testBit
  intro i hi
  rw [h.bit]
  have h1 : a.testBit i = false :=
    Nat.testBit_lt_two_pow (Nat.lt_of_lt_of_le ha (Nat.pow_le_pow_right (by omega) hi))
  have h2 : b.testBit i = false :=
    Nat.testBit_lt_two_pow (Nat.lt_of_lt_of_le hb (Nat.pow_le_pow_right (by omega) hi))
  rw [h1, h2, h.ff]

theorem BitwiseOp.passthrough {op f} (h : BitwiseOp op f) :
    passthrough op = (f true false, f false true) := by
  unfold IntSet.passthrough
  rw [h.bit, h.bit]
  simp

theorem bitwise_union : BitwiseOp opUnion (fun a b => a || b) := ⟨testBit_opUnion, rfl⟩
theorem bitwise_intersect : BitwiseOp opIntersect (fun a b => a && b) := ⟨testBit_opIntersect, rfl⟩
theorem bitwise_subtract : BitwiseOp opSubtract (fun a b => a && !b) := ⟨testBit_opSubtract, rfl⟩
theorem bitwise_revSubtract : BitwiseOp opRevSubtract (fun a b => !a && b) :=
  ⟨testBit_opRevSubtract, rfl⟩

/-! ### keys, sortedness and page invariant of the merge -/

theorem processPages_mem (op : Nat → Nat → Nat) (ptl ptr : Bool) (as bs : Pages)
    (kp : Nat × Page) (h : kp ∈ processPages op ptl ptr as bs) :
    kp ∈ as ∨ kp ∈ bs ∨
      ∃ pa pb, (kp.1, pa) ∈ as ∧ (kp.1, pb) ∈ bs ∧ kp.2 = Page.ofBits (op pa.bits pb.bits) := by
  fun_induction processPages op ptl ptr as bs with
  | case1 bs hptr => exact Or.inr (Or.inl h)
  | case2 bs hptr => simp at h
  | case3 a as hptl => exact Or.inl h
  | case4 a as hptl => simp at h
  | case5 pa as kb pb bs ih =>
    simp only [List.mem_cons] at h
    rcases h with h | h
    · subst h
      exact Or.inr (Or.inr ⟨pa, pb, by simp, by simp, rfl⟩)
    · rcases ih h with h | h | ⟨qa, qb, h1, h2, h3⟩
      · exact Or.inl (by simp [h])
      · exact Or.inr (Or.inl (by simp [h]))
      · exact Or.inr (Or.inr ⟨qa, qb, by simp [h1], by simp [h2], h3⟩)
  | case6 ka pa as kb pb bs hne hlt rest hptl ih =>
    simp only [List.mem_cons] at h
    rcases h with h | h
    · subst h; exact Or.inl (by simp)
    · rcases ih h with h | h | ⟨qa, qb, h1, h2, h3⟩
      · exact Or.inl (by simp [h])
      · exact Or.inr (Or.inl h)
      · exact Or.inr (Or.inr ⟨qa, qb, by simp [h1], h2, h3⟩)
  | case7 ka pa as kb pb bs hne hlt rest hptl ih =>
    rcases ih h with h | h | ⟨qa, qb, h1, h2, h3⟩
    · exact Or.inl (by simp [h])
    · exact Or.inr (Or.inl h)
    · exact Or.inr (Or.inr ⟨qa, qb, by simp [h1], h2, h3⟩)
  | case8 ka pa as kb pb bs hne hlt rest hptr ih =>
    simp only [List.mem_cons] at h
    rcases h with h | h
    · subst h; exact Or.inr (Or.inl (by simp))
    · rcases ih h with h | h | ⟨qa, qb, h1, h2, h3⟩
      · exact Or.inl h
      · exact Or.inr (Or.inl (by simp [h]))
      · exact Or.inr (Or.inr ⟨qa, qb, h1, by simp [h2], h3⟩)
  | case9 ka pa as kb pb bs hne hlt rest hptr ih =>
    rcases ih h with h | h | ⟨qa, qb, h1, h2, h3⟩
    · exact Or.inl h
    · exact Or.inr (Or.inl (by simp [h]))
    · exact Or.inr (Or.inr ⟨qa, qb, h1, by simp [h2], h3⟩)

theorem processPages_key_gt (op : Nat → Nat → Nat) (ptl ptr : Bool) (as bs : Pages) (k0 : Nat)
    (ha : ∀ q ∈ as, k0 < q.1) (hb : ∀ q ∈ bs, k0 < q.1) :
    ∀ q ∈ processPages op ptl ptr as bs, k0 < q.1 := by
  intro q hq
  rcases processPages_mem op ptl ptr as bs q hq with h | h | ⟨qa, qb, h1, h2, h3⟩
  · exact ha q h
  · exact hb q h
  · exact ha (q.1, qa) h1

theorem processPages_inv {op f} (hop : BitwiseOp op f) (ptl ptr : Bool) (as bs : Pages)
    (ha : PagesInv as) (hb : PagesInv bs) : PagesInv (processPages op ptl ptr as bs) := by
  fun_induction processPages op ptl ptr as bs with
  | case1 bs hptr => exact hb
  | case2 bs hptr => exact pagesInv_nil
  | case3 a as hptl => exact ha
  | case4 a as hptl => exact pagesInv_nil
  | case5 pa as kb pb bs ih =>
    rw [pagesInv_cons] at ha hb ⊢
    refine ⟨processPages_key_gt _ _ _ _ _ _ ha.1 hb.1, ?_, ih ha.2.2 hb.2.2⟩
    exact pageOk_ofBits (hop.lt ha.2.1.1 hb.2.1.1)
  | case6 ka pa as kb pb bs hne hlt rest hptl ih =>
    have ha' := pagesInv_cons.1 ha
    have hb' := pagesInv_cons.1 hb
    rw [pagesInv_cons]
    refine ⟨?_, ha'.2.1, ih ha'.2.2 hb⟩
    apply processPages_key_gt _ _ _ _ _ _ ha'.1
    intro q hq
    simp only [List.mem_cons] at hq
    rcases hq with rfl | hq
    · exact hlt
    · have := hb'.1 q hq; simp only at this ⊢; omega
  | case7 ka pa as kb pb bs hne hlt rest hptl ih =>
    exact ih (pagesInv_cons.1 ha).2.2 hb
  | case8 ka pa as kb pb bs hne hlt rest hptr ih =>
    have ha' := pagesInv_cons.1 ha
    have hb' := pagesInv_cons.1 hb
    have hlt' : kb < ka := by omega
    rw [pagesInv_cons]
    refine ⟨?_, hb'.2.1, ih ha hb'.2.2⟩
    apply processPages_key_gt _ _ _ _ _ _ _ hb'.1
    intro q hq
    simp only [List.mem_cons] at hq
    rcases hq with rfl | hq
    · exact hlt'
    · have := ha'.1 q hq; simp only at this ⊢; omega
  | case9 ka pa as kb pb bs hne hlt rest hptr ih =>
    exact ih ha (pagesInv_cons.1 hb).2.2

/-! ### lookup in the merge -/

/-- the page stored for major `k` after `process` -/
def mergePage (op : Nat → Nat → Nat) (ptl ptr : Bool) : Option Page → Option Page → Option Page
  | some a, some b => some (Page.ofBits (op a.bits b.bits))
  | some a, none => if ptl then some a else none
  | none, some b => if ptr then some b else none
  | none, none => none

theorem lookup_cons_lt {k : Nat} {p : Page} {ps : Pages} {m : Nat}
    (hs : Sorted ((k, p) :: ps)) (h : m < k) : lookup ((k, p) :: ps) m = none := by
  apply lookup_none_of_lt
  intro q hq
  simp only [List.mem_cons] at hq
  rcases hq with rfl | hq
  · exact h
  · have := (sorted_cons.1 hs).1 q hq; simp only at this; omega

theorem lookup_tail_self {k : Nat} {p : Page} {ps : Pages} (hs : Sorted ((k, p) :: ps)) :
    lookup ps k = none := by
  apply lookup_none_of_lt
  intro q hq
  exact (sorted_cons.1 hs).1 q hq

theorem lookup_processPages (op : Nat → Nat → Nat) (ptl ptr : Bool) (as bs : Pages)
    (ha : Sorted as) (hb : Sorted bs) (k : Nat) :
    lookup (processPages op ptl ptr as bs) k = mergePage op ptl ptr (lookup as k) (lookup bs k) := by
  fun_induction processPages op ptl ptr as bs with
  | case1 bs hptr => cases h : lookup bs k <;> simp [mergePage, lookup, hptr]
  | case2 bs hptr => cases h : lookup bs k <;> simp [mergePage, lookup, hptr]
  | case3 a as hptl => cases h : lookup (a :: as) k <;> simp [mergePage, lookup, hptl]
  | case4 a as hptl => cases h : lookup (a :: as) k <;> simp [mergePage, lookup, hptl]
  | case5 pa as kb pb bs ih =>
    simp only [lookup]
    by_cases hk : kb = k
    · simp [hk, mergePage]
    · rw [if_neg hk, if_neg hk, if_neg hk]
      exact ih (sorted_cons.1 ha).2 (sorted_cons.1 hb).2
  | case6 ka pa as kb pb bs hne hlt rest hptl ih =>
    have hrest : lookup rest k = _ := ih (sorted_cons.1 ha).2 hb
    by_cases hk : ka = k
    · subst hk
      have h1 : lookup ((kb, pb) :: bs) ka = none := lookup_cons_lt hb hlt
      rw [h1]
      simp [lookup, mergePage, hptl]
    · have h1 : lookup ((ka, pa) :: as) k = lookup as k := by simp [lookup, hk]
      rw [h1, ← hrest]
      simp [lookup, hk]
  | case7 ka pa as kb pb bs hne hlt rest hptl ih =>
    have hrest : lookup rest k = _ := ih (sorted_cons.1 ha).2 hb
    by_cases hk : ka = k
    · subst hk
      have h1 : lookup ((kb, pb) :: bs) ka = none := lookup_cons_lt hb hlt
      have h2 : lookup as ka = none := lookup_tail_self ha
      rw [hrest, h1, h2]
      simp [lookup, mergePage, hptl]
    · have h1 : lookup ((ka, pa) :: as) k = lookup as k := by simp [lookup, hk]
      rw [h1, ← hrest]
  | case8 ka pa as kb pb bs hne hlt rest hptr ih =>
    have hrest : lookup rest k = _ := ih ha (sorted_cons.1 hb).2
    have hlt' : kb < ka := by omega
    by_cases hk : kb = k
    · subst hk
      have h1 : lookup ((ka, pa) :: as) kb = none := lookup_cons_lt ha hlt'
      rw [h1]
      simp [lookup, mergePage, hptr]
    · have h1 : lookup ((kb, pb) :: bs) k = lookup bs k := by simp [lookup, hk]
      rw [h1, ← hrest]
      simp [lookup, hk]
  | case9 ka pa as kb pb bs hne hlt rest hptr ih =>
    have hrest : lookup rest k = _ := ih ha (sorted_cons.1 hb).2
    have hlt' : kb < ka := by omega
    by_cases hk : kb = k
    · subst hk
      have h1 : lookup ((ka, pa) :: as) kb = none := lookup_cons_lt ha hlt'
      have h2 : lookup bs kb = none := lookup_tail_self hb
      rw [hrest, h1, h2]
      simp [lookup, mergePage, hptr]
    · have h1 : lookup ((kb, pb) :: bs) k = lookup bs k := by simp [lookup, hk]
      rw [h1, ← hrest]

/-! ### the four set operations -/

theorem BitSet.process_inv {op f} (hop : BitwiseOp op f) (s o : BitSet) (hs : BInv s) (ho : BInv o) :
    BInv (BitSet.process op s o) :=
  ⟨processPages_inv hop _ _ _ _ hs.1 ho.1, rfl⟩

theorem BitSet.process_contains {op f} (hop : BitwiseOp op f) (s o : BitSet) (hs : BInv s)
    (ho : BInv o) (x : Nat) :
    (BitSet.process op s o).contains x = f (s.contains x) (o.contains x) := by
  unfold BitSet.process
  simp only [BitSet.contains_eq, containsP]
  rw [lookup_processPages _ _ _ _ _ hs.1.1 ho.1.1, hop.passthrough]
  have hff := hop.ff
  cases h1 : lookup s.pages (majorOf x) <;> cases h2 : lookup o.pages (majorOf x) <;>
    simp only [mergePage]
  · exact hff.symm
  · rename_i b
    cases hb : pageContains b x <;> cases hpt : f false true <;> simp [hff, hpt, hb]
  · rename_i a
    cases ha : pageContains a x <;> cases hpt : f true false <;> simp [hff, hpt, ha]
  · rename_i a b
    simp only [pageContains, Page.ofBits, hop.bit]

end FontVerif.IntSet
