/-
Helper lemmas for C08: `Cmap14::map_variant` on well-formed tables (uses the proven binary-search
transcription of Lemmas/Layout.lean).
-/
import FontVerif.Model.Cmap
import FontVerif.Lemmas.Layout
set_option linter.unusedVariables false
namespace FontVerif.Cmap
open FontVerif FontVerif.Layout

/-- binary search over a list whose comparison results are `Less* Equal? Greater*`:
finds the unique `Equal` element, fails when there is none -/
theorem bs_list {α : Type} (l : List α) (d : α) (cmp : α → Ordering)
    (hm : Mono l.length (fun i => cmp (l[i]?.getD d)))
    (huniq : ∀ i j (hi : i < l.length) (hj : j < l.length), cmp l[i] = .eq → cmp l[j] = .eq → i = j) :
    (∀ j (hj : j < l.length), cmp l[j] = .eq →
      binarySearchBy l.length (fun i => cmp (l[i]?.getD d)) = .ok j) ∧
    ((∀ x ∈ l, cmp x ≠ .eq) → ∃ i, binarySearchBy l.length (fun i => cmp (l[i]?.getD d)) = .err i) := by
  have hat : ∀ i (hi : i < l.length), cmp (l[i]?.getD d) = cmp l[i] := by
    intro i hi; simp [List.getElem?_eq_getElem hi]
  constructor
  · intro j hj hje
    cases hr : binarySearchBy l.length (fun i => cmp (l[i]?.getD d)) with
    | ok i =>
      obtain ⟨hi, hie⟩ := bs_ok hm hr
      rw [hat i hi] at hie
      rw [huniq i j hi hj hie hje]
    | err i =>
      have := bs_err_no_eq hm hr j hj
      rw [hat j hj] at this
      exact absurd hje this
  · intro hno
    cases hr : binarySearchBy l.length (fun i => cmp (l[i]?.getD d)) with
    | ok i =>
      obtain ⟨hi, hie⟩ := bs_ok hm hr
      rw [hat i hi] at hie
      exact absurd hie (hno _ (List.getElem_mem hi))
    | err i => exact ⟨i, rfl⟩

theorem natCmp_eq_iff (a b : Nat) : natCmp a b = .eq ↔ a = b := by
  unfold natCmp
  by_cases h1 : a < b <;> by_cases h2 : a = b <;> simp [h1, h2] <;> omega

/-- strictly ascending keys give monotone comparison results -/
theorem mono_natCmp {α : Type} (l : List α) (d : α) (key : α → Nat) (x : Nat)
    (hs : l.Pairwise (fun a b => key a < key b)) :
    Mono l.length (fun i => natCmp (key (l[i]?.getD d)) x) := by
  intro i j hij hj
  have hi : i < l.length := by omega
  simp only [List.getElem?_eq_getElem hi, List.getElem?_eq_getElem hj, Option.getD_some]
  rcases Nat.lt_or_ge i j with h | h
  · have := List.pairwise_iff_getElem.1 hs i j hi hj h
    by_cases a1 : key l[i] < x <;> by_cases a2 : key l[i] = x <;>
      by_cases b1 : key l[j] < x <;> by_cases b2 : key l[j] = x <;>
      simp [natCmp, a1, a2, b1, b2, rank] <;> omega
  · have : i = j := by omega
    subst this
    exact Nat.le_refl _

theorem uvsRangeCmp_eq_iff (r : Nat × Nat) (c : Nat) : uvsRangeCmp r c = .eq ↔ r.1 ≤ c ∧ c ≤ r.1 + r.2 := by
  unfold uvsRangeCmp
  by_cases h1 : c < r.1 <;> by_cases h2 : c > r.1 + r.2 <;> simp [h1, h2] <;> omega

theorem mono_uvsRangeCmp (l : List (Nat × Nat)) (c : Nat)
    (hs : l.Pairwise (fun a b => a.1 + a.2 < b.1)) :
    Mono l.length (fun i => uvsRangeCmp (l[i]?.getD (0, 0)) c) := by
  intro i j hij hj
  have hi : i < l.length := by omega
  simp only [List.getElem?_eq_getElem hi, List.getElem?_eq_getElem hj, Option.getD_some]
  rcases Nat.lt_or_ge i j with h | h
  · have := List.pairwise_iff_getElem.1 hs i j hi hj h
    by_cases a1 : c < l[i].1 <;> by_cases a2 : c > l[i].1 + l[i].2 <;>
      by_cases b1 : c < l[j].1 <;> by_cases b2 : c > l[j].1 + l[j].2 <;>
      simp [uvsRangeCmp, a1, a2, b1, b2, rank] <;> omega
  · have : i = j := by omega
    subst this
    exact Nat.le_refl _

/-! ## what a format-14 table encodes -/

/-- `c` lies in a default-UVS range of the record -/
def InDefaults (rec : VarSel) (c : Nat) : Prop :=
  ∃ ranges, rec.defaults = some ranges ∧ ∃ r ∈ ranges, r.1 ≤ c ∧ c ≤ r.1 + r.2

/-- `(c, g)` is a non-default mapping of the record -/
def InNonDefaults (rec : VarSel) (c g : Nat) : Prop :=
  ∃ maps, rec.nonDefaults = some maps ∧ (c, g) ∈ maps

/-- arrays sorted as the format requires -/
structure Wf14 (t : List VarSel) : Prop where
  sel : t.Pairwise (fun a b => a.selector < b.selector)
  defs : ∀ rec ∈ t, ∀ ranges, rec.defaults = some ranges → ranges.Pairwise (fun a b => a.1 + a.2 < b.1)
  nons : ∀ rec ∈ t, ∀ maps, rec.nonDefaults = some maps → maps.Pairwise (fun a b => a.1 < b.1)

/-- the per-record part of `map_variant` -/
def recVariant (rec : VarSel) (codepoint : Nat) : Option MapVariant :=
  if foundDefaultUvs rec codepoint then some .useDefault else lookupNonDefaultUvs rec codepoint

theorem mapVariant_of_mem (t : List VarSel) (hw : Wf14 t) (rec : VarSel) (hrec : rec ∈ t)
    (c : Nat) : mapVariant t c rec.selector = recVariant rec c := by
  obtain ⟨j, hj, rfl⟩ := List.getElem_of_mem hrec
  have hb := (bs_list t ⟨0, none, none⟩ (fun r => natCmp r.selector t[j].selector)
    (mono_natCmp t _ (fun r => r.selector) _ hw.sel)
    (by
      intro i k hi hk h1 h2
      rw [natCmp_eq_iff] at h1 h2
      have hp := List.pairwise_iff_getElem.1 hw.sel
      rcases Nat.lt_trichotomy i k with h | h | h
      · have := hp i k hi hk h; omega
      · exact h
      · have := hp k i hk hi h; omega)).1 j hj ((natCmp_eq_iff _ _).2 rfl)
  unfold mapVariant
  rw [hb]
  simp only [List.getElem?_eq_getElem hj]
  rfl

theorem mapVariant_no_selector (t : List VarSel) (hw : Wf14 t) (c sel : Nat)
    (hno : ∀ rec ∈ t, rec.selector ≠ sel) : mapVariant t c sel = none := by
  obtain ⟨i, hi⟩ := (bs_list t ⟨0, none, none⟩ (fun r => natCmp r.selector sel)
    (mono_natCmp t _ (fun r => r.selector) _ hw.sel)
    (by
      intro i k hi hk h1 h2
      rw [natCmp_eq_iff] at h1 h2
      have hp := List.pairwise_iff_getElem.1 hw.sel
      rcases Nat.lt_trichotomy i k with h | h | h
      · have := hp i k hi hk h; omega
      · exact h
      · have := hp k i hk hi h; omega)).2 (fun x hx h => hno x hx ((natCmp_eq_iff _ _).1 h))
  unfold mapVariant
  rw [hi]

theorem foundDefaultUvs_iff (rec : VarSel) (c : Nat)
    (hdefs : ∀ ranges, rec.defaults = some ranges → ranges.Pairwise (fun a b => a.1 + a.2 < b.1)) :
    foundDefaultUvs rec c = true ↔ InDefaults rec c := by
  unfold InDefaults foundDefaultUvs
  cases hd : rec.defaults with
  | none => simp
  | some ranges =>
    have hp := hdefs ranges hd
    have hb := bs_list ranges (0, 0) (fun r => uvsRangeCmp r c) (mono_uvsRangeCmp ranges c hp)
      (by
        intro i k hi hk h1 h2
        rw [uvsRangeCmp_eq_iff] at h1 h2
        have hq := List.pairwise_iff_getElem.1 hp
        rcases Nat.lt_trichotomy i k with h | h | h
        · have := hq i k hi hk h; omega
        · exact h
        · have := hq k i hk hi h; omega)
    simp only [Option.some.injEq, exists_eq_left']
    constructor
    · intro h
      cases hr : binarySearchBy ranges.length (fun i => uvsRangeCmp (ranges[i]?.getD (0, 0)) c) with
      | err i => simp [hr] at h
      | ok i =>
        obtain ⟨hi, hie⟩ := bs_ok (mono_uvsRangeCmp ranges c hp) hr
        simp only [List.getElem?_eq_getElem hi, Option.getD_some] at hie
        exact ⟨ranges[i], List.getElem_mem hi, (uvsRangeCmp_eq_iff _ _).1 hie⟩
    · rintro ⟨r, hr, h1, h2⟩
      obtain ⟨j, hj, rfl⟩ := List.getElem_of_mem hr
      rw [hb.1 j hj ((uvsRangeCmp_eq_iff _ _).2 ⟨h1, h2⟩)]

theorem lookupNonDefaultUvs_ne_default (rec : VarSel) (c : Nat) :
    lookupNonDefaultUvs rec c ≠ some .useDefault := by
  unfold lookupNonDefaultUvs
  cases rec.nonDefaults with
  | none => simp
  | some maps =>
    simp only
    cases binarySearchBy maps.length (fun i => natCmp (maps[i]?.getD (0, 0)).1 c) with
    | err i => simp
    | ok ix =>
      simp only
      cases maps[ix]? <;> simp

theorem lookupNonDefaultUvs_iff (rec : VarSel) (c g : Nat)
    (hnons : ∀ maps, rec.nonDefaults = some maps → maps.Pairwise (fun a b => a.1 < b.1)) :
    lookupNonDefaultUvs rec c = some (.variant g) ↔ InNonDefaults rec c g := by
  unfold InNonDefaults lookupNonDefaultUvs
  cases hd : rec.nonDefaults with
  | none => simp
  | some maps =>
    have hp := hnons maps hd
    have hm := mono_natCmp maps (0, 0) (fun p => p.1) c hp
    have hb := bs_list maps (0, 0) (fun p => natCmp p.1 c) hm
      (by
        intro i k hi hk h1 h2
        rw [natCmp_eq_iff] at h1 h2
        have hq := List.pairwise_iff_getElem.1 hp
        rcases Nat.lt_trichotomy i k with h | h | h
        · have := hq i k hi hk h; omega
        · exact h
        · have := hq k i hk hi h; omega)
    simp only [Option.some.injEq, exists_eq_left']
    constructor
    · intro h
      cases hr : binarySearchBy maps.length (fun i => natCmp (maps[i]?.getD (0, 0)).1 c) with
      | err i => simp [hr] at h
      | ok i =>
        obtain ⟨hi, hie⟩ := bs_ok hm hr
        simp only [List.getElem?_eq_getElem hi, Option.getD_some] at hie
        rw [natCmp_eq_iff] at hie
        simp only [hr, List.getElem?_eq_getElem hi, Option.some.injEq, MapVariant.variant.injEq] at h
        have : maps[i] = (c, g) := Prod.ext hie h
        rw [← this]
        exact List.getElem_mem hi
    · intro hmem
      obtain ⟨j, hj, hjeq⟩ := List.getElem_of_mem hmem
      have : natCmp maps[j].1 c = .eq := by rw [hjeq]; exact (natCmp_eq_iff _ _).2 rfl
      rw [hb.1 j hj this]
      simp [List.getElem?_eq_getElem hj, hjeq]

theorem recVariant_spec (rec : VarSel) (c : Nat)
    (hdefs : ∀ ranges, rec.defaults = some ranges → ranges.Pairwise (fun a b => a.1 + a.2 < b.1))
    (hnons : ∀ maps, rec.nonDefaults = some maps → maps.Pairwise (fun a b => a.1 < b.1)) :
    (recVariant rec c = some .useDefault ↔ InDefaults rec c) ∧
    (∀ g, recVariant rec c = some (.variant g) ↔ ¬ InDefaults rec c ∧ InNonDefaults rec c g) := by
  have hdef := foundDefaultUvs_iff rec c hdefs
  unfold recVariant
  constructor
  · constructor
    · intro h
      by_cases hf : foundDefaultUvs rec c = true
      · exact hdef.1 hf
      · rw [if_neg hf] at h
        exact absurd h (lookupNonDefaultUvs_ne_default rec c)
    · intro h
      rw [if_pos (hdef.2 h)]
  · intro g
    constructor
    · intro h
      by_cases hf : foundDefaultUvs rec c = true
      · rw [if_pos hf] at h; cases h
      · rw [if_neg hf] at h
        exact ⟨fun hin => hf (hdef.2 hin), (lookupNonDefaultUvs_iff rec c g hnons).1 h⟩
    · rintro ⟨h1, h2⟩
      rw [if_neg (fun hf => h1 (hdef.1 hf))]
      exact (lookupNonDefaultUvs_iff rec c g hnons).2 h2

theorem selector_unique (t : List VarSel) (hw : Wf14 t) (a b : VarSel) (ha : a ∈ t) (hb : b ∈ t)
    (h : a.selector = b.selector) : a = b := by
  obtain ⟨i, hi, rfl⟩ := List.getElem_of_mem ha
  obtain ⟨j, hj, rfl⟩ := List.getElem_of_mem hb
  have hp := List.pairwise_iff_getElem.1 hw.sel
  rcases Nat.lt_trichotomy i j with h' | h' | h'
  · have := hp i j hi hj h'; omega
  · subst h'; rfl
  · have := hp j i hj hi h'; omega

/-- `Cmap14::map_variant` on a well-formed table answers exactly what the table encodes -/
theorem mapVariant_iff (t : List VarSel) (hw : Wf14 t) (c sel : Nat) :
    (mapVariant t c sel = some .useDefault ↔ ∃ rec ∈ t, rec.selector = sel ∧ InDefaults rec c) ∧
    (∀ g, mapVariant t c sel = some (.variant g) ↔
      ∃ rec ∈ t, rec.selector = sel ∧ ¬ InDefaults rec c ∧ InNonDefaults rec c g) := by
  by_cases hex : ∃ rec ∈ t, rec.selector = sel
  · obtain ⟨rec, hrec, rfl⟩ := hex
    obtain ⟨s1, s2⟩ := recVariant_spec rec c (hw.defs rec hrec) (hw.nons rec hrec)
    rw [mapVariant_of_mem t hw rec hrec c]
    constructor
    · rw [s1]
      constructor
      · intro h; exact ⟨rec, hrec, rfl, h⟩
      · rintro ⟨rec', h1, h2, h3⟩
        rw [selector_unique t hw rec' rec h1 hrec h2] at h3; exact h3
    · intro g
      rw [s2 g]
      constructor
      · intro h; exact ⟨rec, hrec, rfl, h⟩
      · rintro ⟨rec', h1, h2, h3⟩
        rw [selector_unique t hw rec' rec h1 hrec h2] at h3; exact h3
  · rw [mapVariant_no_selector t hw c sel (fun rec hr h => hex ⟨rec, hr, h⟩)]
    constructor
    · constructor
      · intro h; cases h
      · rintro ⟨rec, h1, h2, _⟩; exact absurd ⟨rec, h1, h2⟩ hex
    · intro g
      constructor
      · intro h; cases h
      · rintro ⟨rec, h1, h2, _⟩; exact absurd ⟨rec, h1, h2⟩ hex

/-- membership in the output of `Cmap14Iter` -/
theorem mem_iter14 (t : List VarSel) (c sel : Nat) (v : MapVariant) :
    (c, sel, v) ∈ iter14 t ↔ ∃ rec ∈ t, rec.selector = sel ∧
      ((v = .useDefault ∧ InDefaults rec c) ∨ (∃ g, v = .variant g ∧ InNonDefaults rec c g)) := by
  unfold iter14
  simp only [List.mem_flatMap, List.mem_append]
  constructor
  · rintro ⟨rec, hrec, h | h⟩
    · cases hd : rec.defaults with
      | none => simp [hd] at h
      | some ranges =>
        simp only [hd, List.mem_flatMap, List.mem_map, List.mem_range'_1, Prod.mk.injEq] at h
        obtain ⟨r, hr, k, ⟨hk1, hk2⟩, rfl, rfl, rfl⟩ := h
        exact ⟨rec, hrec, rfl, Or.inl ⟨rfl, ranges, hd, r, hr, hk1, by omega⟩⟩
    · cases hd : rec.nonDefaults with
      | none => simp [hd] at h
      | some maps =>
        simp only [hd, List.mem_map, Prod.mk.injEq] at h
        obtain ⟨p, hp, rfl, rfl, rfl⟩ := h
        exact ⟨rec, hrec, rfl, Or.inr ⟨p.2, rfl, maps, hd, hp⟩⟩
  · rintro ⟨rec, hrec, rfl, ⟨rfl, ranges, hd, r, hr, h1, h2⟩ | ⟨g, rfl, maps, hd, hp⟩⟩
    · refine ⟨rec, hrec, Or.inl ?_⟩
      rw [hd]
      exact List.mem_flatMap.2 ⟨r, hr, List.mem_map.2 ⟨c, List.mem_range'_1.2 ⟨h1, by omega⟩, rfl⟩⟩
    · refine ⟨rec, hrec, Or.inr ?_⟩
      rw [hd]
      exact List.mem_map.2 ⟨(c, g), hp, rfl⟩

end FontVerif.Cmap
