/-
Lemmas for C17 — the instruction tail of a rewritten composite glyph: the component walk of `subset_composite_glyph` writes
only inside the component records, so everything from the end of the last component on is the source's bytes.
-/
import FontVerif.Lemmas.SubsetOutline11
set_option linter.unusedVariables false
set_option linter.unusedSimpArgs false
namespace FontVerif.SubsetOutline
open FontVerif FontVerif.Subset

/-- the walk never writes at or behind the position where it ends -/
theorem compLoop_tail (flags : Nat) (gmap : Nat → Option Nat) (len : Nat) :
    ∀ (fuel : Nat) (out : Bytes) (i : Nat) (whi : Bool) (res : Bytes × Nat × Bool),
      compLoop flags gmap len fuel out i whi = some res → ∀ j, res.2.1 ≤ j → res.1.getD j 0 = out.getD j 0 := by
  intro fuel
  induction fuel with
  | zero => intro out i whi res h; simp [compLoop] at h
  | succ n ih =>
    intro out i whi res h j hj
    have hiend := compLoop_iend flags gmap len (n + 1) out i whi res h
    unfold compLoop at h
    split at h
    · cases h
    simp only at h
    generalize hf0 : u16At out i &&& COMPOSITE_KNOWN_BITS = f0 at h
    generalize hout2 : compWriteFlags flags i f0 out = out2 at h
    split at h
    · cases h
    rename_i new hnew
    generalize hout3 : putU16 out2 (i + 2) (new % 65536) = out3 at h
    have h3 : out3.getD j 0 = out.getD j 0 := by
      rw [← hout3, putU16_getD_ne _ _ _ _ (by omega) (by omega), ← hout2,
        compWriteFlags_getD_ne _ _ _ _ _ (by omega) (by omega)]
    split at h
    · rw [ih _ _ _ _ h j hj, h3]
    · simp only [Option.some.injEq] at h
      subst h
      exact h3

theorem drop_take_congr (X Y : Bytes) (i n : Nat) (hl : X.length = Y.length)
    (h : ∀ j, i ≤ j → X.getD j 0 = Y.getD j 0) : (X.take (i + n)).drop i = (Y.drop i).take n := by
  rw [List.drop_take]
  have : i + n - i = n := by omega
  rw [this, drop_congr X Y i hl h]

/-- **the instruction tail of a kept composite glyph** -/
theorem composite_tail (flags : Nat) (gmap : Nat → Option Nat) (d out : Bytes)
    (h : subsetComposite flags gmap d = out) (hne : out ≠ []) :
    ∃ full i whi, compLoop flags gmap d.length (d.length + 1) d 10 false = some (full, i, whi) ∧
      full.length = d.length ∧ (∀ j, i ≤ j → full.getD j 0 = d.getD j 0) ∧
      (hasFlag flags F_NO_HINTING = true → out = full.take i) ∧
      (whi = false → out = full.take i) ∧
      (hasFlag flags F_NO_HINTING = false → whi = true → i + 1 < d.length →
        out.take i = full.take i ∧ out.drop i = (d.drop i).take (2 + u16At d i)) ∧
      (hasFlag flags F_NO_HINTING = false → whi = true → ¬ (i + 1 < d.length) → out = full.take i) := by
  unfold subsetComposite at h
  simp only at h
  split at h
  · exact absurd h.symm hne
  rename_i full i whi hloop
  obtain ⟨hfl, _, _⟩ := compLoop_spec flags gmap d.length (d.length + 1) d 10 false _ (Nat.le_refl _) hloop
  have htail := compLoop_tail flags gmap d.length (d.length + 1) d 10 false _ hloop
  simp only at hfl htail
  refine ⟨full, i, whi, hloop, hfl, htail, ?_, ?_, ?_, ?_⟩
  · intro hnh
    have : ¬ (whi = true ∧ (!hasFlag flags F_NO_HINTING) = true) := by simp [hnh]
    simp only [this, if_false] at h
    exact h.symm
  · intro hw
    have : ¬ (whi = true ∧ (!hasFlag flags F_NO_HINTING) = true) := by simp [hw]
    simp only [this, if_false] at h
    exact h.symm
  · intro hnh hw hlt
    have hc : (whi = true ∧ (!hasFlag flags F_NO_HINTING) = true) := by simp [hw, hnh]
    have hge : ¬ (i + 1 ≥ d.length) := by omega
    simp only [hc, and_self, if_true, hge, if_false] at h
    have hu : u16At full i = u16At d i := u16At_congr _ _ _ (htail i (Nat.le_refl _)) (htail (i + 1) (by omega))
    rw [hu] at h
    subst h
    constructor
    · rw [List.take_take]; congr 1; omega
    · have e : i + 2 + u16At d i = i + (2 + u16At d i) := by omega
      rw [e]
      exact drop_take_congr full d i _ hfl htail
  · intro hnh hw hlt
    have hc : (whi = true ∧ (!hasFlag flags F_NO_HINTING) = true) := by simp [hw, hnh]
    have hge : i + 1 ≥ d.length := by omega
    simp only [hc, and_self, if_true, hge] at h
    exact h.symm

end FontVerif.SubsetOutline
