/-
Lemmas for C17 drawn-outline preservation, part 7: what a glyph record decodes to (through the read-fonts reader model
Model/Glyf.lean) and the combined statement for `subset_glyph`.
-/
import FontVerif.Lemmas.SubsetOutline6
set_option linter.unusedVariables false
set_option linter.unusedSimpArgs false
namespace FontVerif.SubsetOutline
open FontVerif FontVerif.Subset

/-- what drawing looks at in a glyph record: contour structure, bounding box, points with their on-curve flags
(simple glyph) / components with flags, glyph id, anchor and transform (composite glyph) -/
inductive Decoded where
  | simple (nContours xMin yMin xMax yMax : Int) (endPts : List Nat) (points : List Glyf.Point)
  | composite (xMin yMin xMax yMax : Int) (components : List Glyf.RComponent)
deriving DecidableEq, Repr

/-- `Glyph::read` (dispatch on the sign of numberOfContours, as `subset_glyph`'s caller sees it) followed by the
accessors `end_pts_of_contours`, `points()` / `components()` of the read-fonts reader model -/
def decodeGlyph (d : Bytes) : Option Decoded :=
  if u16At d 0 < 32768 then
    (Glyf.readSimple d).map (fun v => .simple v.nContours v.xMin v.yMin v.xMax v.yMax v.endPts v.points)
  else
    (Glyf.readComposite d).map (fun v => .composite v.xMin v.yMin v.xMax v.yMax v.components)

/-- the glyph-id renaming of a decoded glyph (`none`: a component glyph without image) -/
def renameDecoded (flags : Nat) (gmap : Nat → Option Nat) : Decoded → Option Decoded
  | .simple nc a b c e eps pts => some (.simple nc a b c e eps pts)
  | .composite a b c e comps => (mapComps flags gmap true comps).map (fun cs => .composite a b c e cs)

theorem u16At_head (X Y : Bytes) (h : ∀ j, j < 10 → X.getD j 0 = Y.getD j 0) : u16At X 0 = u16At Y 0 := by
  unfold u16At; rw [h 0 (by omega), h 1 (by omega)]

theorem glyph_decodes_equal (flags : Nat) (gmap : Nat → Option Nat) (d out : Bytes)
    (hb : ∀ b ∈ d, b < 256) (h : subsetGlyphBytes flags gmap d = .bytes out) (hne : out ≠ []) :
    ∃ g g', decodeGlyph d = some g ∧ decodeGlyph out = some g' ∧ renameDecoded flags gmap g = some g' := by
  by_cases hs : u16At d 0 < 32768
  · obtain ⟨v, v', h1, h2, e1, e2, e3, e4, e5, e6, _, e8, _, hh⟩ := simple_decodes_equal flags gmap d out [] hb hs h hne
    rw [List.append_nil] at h2
    have hs' : u16At out 0 < 32768 := by rw [u16At_head out d hh]; exact hs
    refine ⟨.simple v.nContours v.xMin v.yMin v.xMax v.yMax v.endPts v.points,
      .simple v'.nContours v'.xMin v'.yMin v'.xMax v'.yMax v'.endPts v'.points, ?_, ?_, ?_⟩
    · unfold decodeGlyph; simp only [hs, if_true, h1, Option.map_some]
    · unfold decodeGlyph; simp only [hs', if_true, h2, Option.map_some]
    · simp only [renameDecoded, e1, e2, e3, e4, e5, e6, e8]
  · obtain ⟨v, v', h1, h2, e2, e3, e4, e5, hm, hh, _⟩ := composite_decodes_equal flags gmap d out hs h hne
    have hs' : ¬ (u16At out 0 < 32768) := by rw [u16At_head out d hh]; exact hs
    refine ⟨.composite v.xMin v.yMin v.xMax v.yMax v.components,
      .composite v'.xMin v'.yMin v'.xMax v'.yMax v'.components, ?_, ?_, ?_⟩
    · unfold decodeGlyph; simp only [hs, if_false, h1, Option.map_some]
    · unfold decodeGlyph; simp only [hs', if_false, h2, Option.map_some]
    · simp only [renameDecoded, hm, Option.map_some, e2, e3, e4, e5]

/-- `mapComps` component by component -/
theorem mapComps_spec (flags : Nat) (gmap : Nat → Option Nat) :
    ∀ (first : Bool) (cs cs' : List Glyf.RComponent), mapComps flags gmap first cs = some cs' →
      cs'.length = cs.length ∧
      ∀ k, k < cs.length → ∃ c n, cs[k]? = some c ∧ gmap c.glyph = some n ∧
        cs'[k]? = some { c with flags := compFlags flags (if first && k == 0 then 10 else 0) c.flags, glyph := n % 65536 }
  | _, [], cs', h => by
    simp only [mapComps, Option.some.injEq] at h
    subst h
    exact ⟨rfl, fun k hk => by simp at hk⟩
  | first, c :: cs, cs', h => by
    unfold mapComps at h
    split at h
    · rename_i n rest hn hrest
      simp only [Option.some.injEq] at h
      subst h
      obtain ⟨hl, hk⟩ := mapComps_spec flags gmap false cs rest hrest
      refine ⟨by simp [hl], ?_⟩
      intro k hklt
      cases k with
      | zero =>
        refine ⟨c, n, rfl, hn, ?_⟩
        cases first <;> simp
      | succ k =>
        obtain ⟨c', n', h1, h2, h3⟩ := hk k (by simp at hklt; omega)
        refine ⟨c', n', by simpa using h1, h2, ?_⟩
        simp only [List.getElem?_cons_succ, h3]
        simp
    · cases h

end FontVerif.SubsetOutline
