/-
Helper lemmas for C05 (Model/Graph.lean): extension promotion preserves every lookup as a reader
sees it through extension indirection, for ANY selection of lookups to promote.
-/
import FontVerif.Model.Graph
import FontVerif.Lemmas.GraphPromo
set_option linter.unusedVariables false
set_option linter.unusedSimpArgs false
namespace FontVerif.Graph
open FontVerif

/-! ### vocabulary: a lookup as a reader sees it -/

/-- read an object as an extension subtable `{u16 format = 1, u16 extensionLookupType, Offset32}`:
the lookup type it announces and the object behind its offset -/
def extView (o : Obj) : Option (Nat × Nat) :=
  match o.bytes, o.links with
  | [0, 1, hi, lo, _, _, _, _], [el] =>
    if el.pos = 4 ∧ el.width = 4 ∧ el.adj = 0 then some (hi * 256 + lo, el.target) else none
  | _, _ => none

/-- resolve one subtable offset of a lookup whose lookup type is `t` in a table whose extension lookup
type is `ext`: `(effective lookup type, subtable object)` -/
def subtableOf (g : Graph) (ext t : Nat) (l : Link) : Option (Nat × Nat) :=
  if t ≠ ext then some (t, l.target) else extView (g.obj l.target)

/-- a lookup as a reader sees it: its table (GPOS/GSUB, via the extension type), its bytes after the
lookup type field, and per subtable offset (position, width, adjustment) the effective lookup type
and the unfolding of the subtable, extension subtables being looked through -/
def lookupView (tg : TGraph) (fuel : Nat) (id : Nat) :
    Option (Nat × List Nat × List (Nat × Nat × Nat × Option (Nat × Tree))) :=
  match (tg.typeOf id).raw? with
  | none => none
  | some t =>
    let ext := (tg.typeOf id).extRaw
    some (ext, (tg.g.obj id).bytes.drop 2,
      (tg.g.obj id).links.map (fun l => (l.pos, l.width, l.adj,
        (subtableOf tg.g ext t l).map (fun p => (p.1, unfold tg.g fuel p.2)))))

theorem extView_makeExtension (r t : Nat) (hr : r < 65536) : extView (makeExtension r t) = some (r, t) := by
  unfold extView makeExtension
  simp only [and_self, ↓reduceIte, Option.some.injEq, Prod.mk.injEq, and_true]
  omega

theorem unfold_congr_reach (g' g : Graph) (fuel : Nat) (s : Nat) (h : ∀ y, Reach g s y → g'.obj y = g.obj y) :
    unfold g' fuel s = unfold g fuel s := by
  induction fuel generalizing s with
  | zero => rfl
  | succ n ih =>
    simp only [unfold]
    rw [h s (Reach.refl s)]
    congr 1
    apply List.map_congr_left
    intro l hl
    apply ih
    intro y hy
    apply h
    -- s → l.target →* y
    have : ∀ a b, Reach g a b → Reach g s a → Reach g s b := by
      intro a b hab
      induction hab with
      | refl => exact fun h => h
      | step l' _ hl' ih' => exact fun h => Reach.step l' (ih' h) hl'
    exact this l.target y hy (Reach.step l (Reach.refl s) hl)

theorem unfold_objects_congr (g' g : Graph) (h : g'.objects = g.objects) (fuel x : Nat) :
    unfold g' fuel x = unfold g fuel x :=
  unfold_congr_reach g' g fuel x (fun y _ => obj_congr g g' h y)

theorem lookupView_congr (a b : TGraph) (ho : a.g.objects = b.g.objects) (ht : a.types = b.types) (fuel id : Nat) :
    lookupView a fuel id = lookupView b fuel id := by
  unfold lookupView
  have hty : a.typeOf id = b.typeOf id := by unfold TGraph.typeOf; rw [ht]
  rw [hty]
  cases (b.typeOf id).raw? with
  | none => rfl
  | some t =>
    simp only []
    rw [obj_congr b.g a.g ho id]
    congr 3
    apply List.map_congr_left
    intro l _
    have : subtableOf a.g (b.typeOf id).extRaw t l = subtableOf b.g (b.typeOf id).extRaw t l := by
      unfold subtableOf
      rw [obj_congr b.g a.g ho l.target]
    rw [this]
    cases subtableOf b.g (b.typeOf id).extRaw t l with
    | none => rfl
    | some p => simp only [Option.map_some, unfold_objects_congr a.g b.g ho fuel p.2]

/-- **Promotion preserves every lookup as seen through extension indirection, for any selection.** -/
theorem promote_preserves_views (tg tg' : TGraph) (sel fresh fresh' : List Nat)
    (hh : PromoHyp tg fresh)
    (hu16 : ∀ x r, (tg.typeOf x).raw? = some r → r < 65536)
    (hsub : ∀ id, tg.typeOf id ≠ TType.other → ∀ l ∈ (tg.g.obj id).links, ∀ y, Reach tg.g l.target y →
      tg.typeOf y = TType.other)
    (h : actuallyPromote tg sel fresh = some (tg', fresh')) :
    (∀ id fuel, tg.typeOf id ≠ TType.other → lookupView tg' fuel id = lookupView tg fuel id) ∧
    (∀ x, tg.typeOf x = TType.other → x ∉ fresh → tg'.g.obj x = tg.g.obj x) ∧
    tg'.g.root = tg.g.root ∧ fresh' <:+ fresh := by
  unfold actuallyPromote at h
  split at h
  · simp at h
  · rename_i tg1 fr1 hfold
    simp only [Option.some.injEq, Prod.mk.injEq] at h
    obtain ⟨rfl, rfl⟩ := h
    obtain ⟨done, hinv, hdone⟩ := promoFold_inv tg fresh hh sel [] tg fresh tg1 fr1 (promoInv_init tg fresh) hfold
    have hdsel : ∀ x, x ∈ done → x ∈ sel := fun x hx => (hdone x hx).resolve_left (by simp)
    -- objects, types of the final graph are those of tg1
    have hobj : ∀ x, ({ tg1 with g := { tg1.g with parentsInvalid := true } } : TGraph).g.obj x = tg1.g.obj x := fun _ => rfl
    -- anything reachable from a subtable of a typed lookup is untouched
    have hdone_typed : ∀ y, y ∈ done → tg.typeOf y ≠ TType.other := by
      intro y hd he
      obtain ⟨r, r1, _⟩ := (hinv.doneOK y hd).raw
      rw [he] at r1
      simp [TType.raw?] at r1
    have htrans : ∀ a b c, Reach tg.g a b → Reach tg.g b c → Reach tg.g a c := by
      intro a b c hab hbc
      induction hbc with
      | refl => exact hab
      | step l' _ hl' ih' => exact Reach.step l' ih' hl'
    have hstable : ∀ y, tg.typeOf y = TType.other → (∃ x, ∃ l ∈ (tg.g.obj x).links, l.target = y) →
        tg1.g.obj y = tg.g.obj y := by
      intro y hy ⟨x, l, hl, hlt⟩
      have hnf : y ∉ fresh := fun hm => (hh.unused y hm).2.1 x l hl hlt
      exact (hinv.frame y (fun hd => hdone_typed y hd hy) (Or.inl hnf)).1
    have hreach_target : ∀ s y, Reach tg.g s y → y = s ∨ ∃ x, ∃ l ∈ (tg.g.obj x).links, l.target = y := by
      intro s y hr
      cases hr with
      | refl => left; rfl
      | step l _ hl => right; exact ⟨_, l, hl, rfl⟩
    have hunf : ∀ id, tg.typeOf id ≠ TType.other → ∀ l ∈ (tg.g.obj id).links, ∀ fuel,
        unfold tg1.g fuel l.target = unfold tg.g fuel l.target := by
      intro id hty l hl fuel
      apply unfold_congr_reach
      intro y hy
      apply hstable y (hsub id hty l hl y hy)
      rcases hreach_target l.target y hy with rfl | h
      · exact ⟨id, l, hl, rfl⟩
      · exact h
    refine ⟨?_, ?_, hinv.root, hinv.suffix⟩
    · intro id fuel hty
      rw [lookupView_congr ({ tg1 with g := { tg1.g with parentsInvalid := true } } : TGraph) tg1 rfl rfl fuel id]
      by_cases hd : id ∈ done
      · -- promoted
        have hp := hinv.doneOK id hd
        obtain ⟨r, r1, r2, r3, r4, r5⟩ := hp.raw
        have hr16 := hu16 id r r1
        have hext := sameKind_extRaw _ _ r4
        unfold lookupView
        rw [r3, r1]
        simp only [← hext]
        rw [hp.bytes]
        congr 3
        -- the links
        have e1 : (tg1.g.obj id).links.map (fun l => (l.pos, l.width, l.adj,
              (subtableOf tg1.g (tg.typeOf id).extRaw (tg.typeOf id).extRaw l).map
                (fun p => (p.1, unfold tg1.g fuel p.2))))
            = ((tg1.g.obj id).links.map (fun l' => (l'.pos, l'.width, l'.adj, tg1.g.obj l'.target))).map
                (fun q => (q.1, q.2.1, q.2.2.1, (extView q.2.2.2).map (fun p => (p.1, unfold tg1.g fuel p.2)))) := by
          rw [List.map_map]
          apply List.map_congr_left
          intro l _
          simp only [Function.comp, subtableOf, ne_eq, not_true_eq_false, ↓reduceIte]
        rw [e1, r5, List.map_map]
        apply List.map_congr_left
        intro l hl
        simp only [Function.comp, subtableOf, ne_eq, r2, not_false_eq_true, ↓reduceIte, Option.map_some,
          extView_makeExtension r l.target hr16]
        rw [hunf id hty l hl fuel]
      · -- not promoted: the lookup object and everything below it are untouched
        have hidf : id ∉ fresh := by
          intro hm
          have := hh.typed id hty
          exact this (hh.unused id hm).1
        obtain ⟨f1, _, _, f4⟩ := hinv.frame id hd (Or.inl hidf)
        unfold lookupView
        rw [f4]
        cases hraw : (tg.typeOf id).raw? with
        | none => rfl
        | some t =>
          simp only []
          rw [f1]
          congr 3
          apply List.map_congr_left
          intro l hl
          have hsame : subtableOf tg1.g (tg.typeOf id).extRaw t l = subtableOf tg.g (tg.typeOf id).extRaw t l := by
            unfold subtableOf
            split
            · rfl
            · rw [hstable l.target (hsub id hty l hl l.target (Reach.refl _)) ⟨id, l, hl, rfl⟩]
          rw [hsame]
          cases hst : subtableOf tg.g (tg.typeOf id).extRaw t l with
          | none => rfl
          | some p =>
            simp only [Option.map_some, Prod.mk.injEq, Option.some.injEq, true_and]
            -- p.2 is l.target or the target of the extension object behind it
            show unfold tg1.g fuel p.2 = unfold tg.g fuel p.2
            unfold subtableOf at hst
            split at hst
            · simp only [Option.some.injEq] at hst
              rw [← hst]
              exact hunf id hty l hl fuel
            · -- through an existing extension object
              apply unfold_congr_reach
              intro y hy
              have hlt : ∃ el ∈ (tg.g.obj l.target).links, el.target = p.2 := by
                unfold extView at hst
                split at hst
                · rename_i hi lo b1 b2 b3 b4 el hb hl1
                  split at hst
                  · simp only [Option.some.injEq] at hst
                    exact ⟨el, by rw [hl1]; simp, by rw [← hst]⟩
                  · simp at hst
                · simp at hst
              obtain ⟨el, hel, helt⟩ := hlt
              have hz := hsub id hty l hl y
                (htrans l.target p.2 y (by rw [← helt]; exact Reach.step el (Reach.refl _) hel) hy)
              apply hstable y hz
              rcases hreach_target p.2 y hy with rfl | h
              · exact ⟨l.target, el, hel, helt⟩
              · exact h
    · intro x hx hxf
      have hxd : x ∉ done := by
        intro hd
        obtain ⟨r, r1, _⟩ := (hinv.doneOK x hd).raw
        rw [hx] at r1
        simp [TType.raw?] at r1
      exact (hinv.frame x hxd (Or.inl hxf)).1

end FontVerif.Graph
