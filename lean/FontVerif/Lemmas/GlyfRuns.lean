import FontVerif.Lemmas.GlyfBytes
/-! # flag arrays in ANY legal run-length coding (not only the writer's shortest one)

`read_points_fast` (since `fix:` d12a1b2: flag window of two bytes per point) and `points()` agree on
every well-formed glyph record, whatever the run lengths: REPEAT with count 0 (two bytes for one
point), count 1, runs cut in pieces, no repeats at all, non-minimal coordinate forms. -/
set_option linter.unusedVariables false
namespace FontVerif.Glyf
open FontVerif

/-- bytes one coordinate takes, from its two flag bits -/
def dSize (sh sa : Bool) : Nat := if sh then 1 else if sa then 0 else 2

theorem xSize_eq (f : Nat) : xSize f = dSize (hasBit f X_SHORT) (hasBit f X_SAME) := by
  unfold xSize dSize
  have := and_or_zero f X_SHORT X_SAME
  cases h1 : hasBit f X_SHORT <;> cases h2 : hasBit f X_SAME <;> simp_all

theorem ySize_eq (f : Nat) : ySize f = dSize (hasBit f Y_SHORT) (hasBit f Y_SAME) := by
  unfold ySize dSize
  have := and_or_zero f Y_SHORT Y_SAME
  cases h1 : hasBit f Y_SHORT <;> cases h2 : hasBit f Y_SAME <;> simp_all

theorem readI16_cons2 (x y : Nat) (r : List Nat) :
    readI16 (x :: y :: r) = (some (wrapI16 (x * 256 + y)), r) := rfl
theorem fastDelta_long (x y : Nat) (r : List Nat) :
    fastDelta false false (x :: y :: r) = some (wrapI16 (x * 256 + y), r) := rfl
theorem readDelta_long (x y : Nat) (r : List Nat) (w : Int) (h1 : readI16 (x :: y :: r) = (some w, r)) :
    readDelta false false (x :: y :: r) = (w, r) := by
  simp only [readDelta, h1, Option.getD_some]
theorem delta_long (x y : Nat) : ∃ d : Int, ∀ r : List Nat,
    readDelta false false (x :: y :: r) = (d, r) ∧ fastDelta false false (x :: y :: r) = some (d, r) :=
  ⟨wrapI16 (x * 256 + y), fun r => ⟨readDelta_long x y r _ (readI16_cons2 x y r), fastDelta_long x y r⟩⟩

/-- one coordinate: given exactly the bytes its flag bits announce, the slow reader (`readDelta`,
failed reads default to 0) and the fast reader (`fastDelta`, failed reads are errors) obtain the same
delta and leave the same cursor, whatever follows -/
theorem delta_step (sh sa : Bool) (a : List Nat) (ha : a.length = dSize sh sa) :
    ∃ d : Int, ∀ r : List Nat,
      readDelta sh sa (a ++ r) = (d, r) ∧ fastDelta sh sa (a ++ r) = some (d, r) := by
  cases sh <;> cases sa
  · -- long form: two bytes
    have h2 : a.length = 2 := by simpa [dSize] using ha
    cases a with
    | nil => simp at h2
    | cons x t =>
      cases t with
      | nil => simp at h2
      | cons y t2 =>
        have : t2 = [] := List.eq_nil_of_length_eq_zero (by simpa using h2)
        subst this
        exact delta_long x y
  · -- same as before: no bytes
    have : a = [] := List.eq_nil_of_length_eq_zero (by simpa [dSize] using ha)
    subst this
    exact ⟨0, fun r => ⟨rfl, rfl⟩⟩
  · have h1 : a.length = 1 := by simpa [dSize] using ha
    cases a with
    | nil => simp at h1
    | cons x t =>
      have : t = [] := List.eq_nil_of_length_eq_zero (by simpa using h1)
      subst this
      exact ⟨-(x : Int), fun r => ⟨rfl, rfl⟩⟩
  · have h1 : a.length = 1 := by simpa [dSize] using ha
    cases a with
    | nil => simp at h1
    | cons x t =>
      have : t = [] := List.eq_nil_of_length_eq_zero (by simpa using h1)
      subst this
      exact ⟨(x : Int), fun r => ⟨rfl, rfl⟩⟩

theorem wrap16_32 (a d : Int) : wrapI16 (wrapI32 (a + d)) = wrapI16 (wrapI16 a + d) := by
  unfold wrapI16 wrapI32
  simp only []
  split <;> split <;> split <;> split <;> omega

/-- both coordinate passes of the fast reader against the lock-step slow decoder, over any flags -/
theorem coords_agree (fl : List Nat) :
    ∀ (px py tx ty sx sy : List Nat) (ax ay : Int),
      px.length = (fl.map xSize).sum → py.length = (fl.map ySize).sum →
      ∃ X Y : List Int,
        fastCoords X_SHORT X_SAME fl (px ++ tx) ax = some (X, tx) ∧
        fastCoords Y_SHORT Y_SAME fl (py ++ ty) ay = some (Y, ty) ∧
        X.length = fl.length ∧ Y.length = fl.length ∧
        (decodeRun fl ⟨px ++ sx, py ++ sy, wrapI16 ax, wrapI16 ay⟩).1 =
          (X.zip (Y.zip fl)).map
            (fun t => (⟨wrapI16 t.1, wrapI16 t.2.1, hasBit t.2.2 ON_CURVE⟩ : Point)) := by
  induction fl with
  | nil =>
    intro px py tx ty sx sy ax ay hx hy
    have : px = [] := List.eq_nil_of_length_eq_zero (by simpa using hx)
    have : py = [] := List.eq_nil_of_length_eq_zero (by simpa using hy)
    subst_vars
    exact ⟨[], [], by simp [fastCoords], by simp [fastCoords], rfl, rfl, by simp [decodeRun]⟩
  | cons f fs ih =>
    intro px py tx ty sx sy ax ay hx hy
    simp only [List.map_cons, List.sum_cons] at hx hy
    -- split off this point's bytes
    have hax : (px.take (xSize f)).length = dSize (hasBit f X_SHORT) (hasBit f X_SAME) := by
      rw [List.length_take, ← xSize_eq]; omega
    have hay : (py.take (ySize f)).length = dSize (hasBit f Y_SHORT) (hasBit f Y_SAME) := by
      rw [List.length_take, ← ySize_eq]; omega
    obtain ⟨dx, hdx⟩ := delta_step _ _ _ hax
    obtain ⟨dy, hdy⟩ := delta_step _ _ _ hay
    have epx : ∀ r, px ++ r = px.take (xSize f) ++ (px.drop (xSize f) ++ r) := by
      intro r; rw [← List.append_assoc, List.take_append_drop]
    have epy : ∀ r, py ++ r = py.take (ySize f) ++ (py.drop (ySize f) ++ r) := by
      intro r; rw [← List.append_assoc, List.take_append_drop]
    have hlx : (px.drop (xSize f)).length = (fs.map xSize).sum := by
      rw [List.length_drop]; omega
    have hly : (py.drop (ySize f)).length = (fs.map ySize).sum := by
      rw [List.length_drop]; omega
    obtain ⟨X, Y, h1, h2, h3, h4, h5⟩ :=
      ih (px.drop (xSize f)) (py.drop (ySize f)) tx ty sx sy (wrapI32 (ax + dx)) (wrapI32 (ay + dy)) hlx hly
    refine ⟨wrapI32 (ax + dx) :: X, wrapI32 (ay + dy) :: Y, ?_, ?_, by simp [h3], by simp [h4], ?_⟩
    · rw [epx tx]; simp only [fastCoords, (hdx _).2, h1, Option.map_some]
    · rw [epy ty]; simp only [fastCoords, (hdy _).2, h2, Option.map_some]
    · rw [epx sx, epy sy]
      simp only [decodeRun, stepCS, (hdx _).1, (hdy _).1, List.zip_cons_cons, List.map_cons]
      rw [← wrap16_32 ax dx, ← wrap16_32 ay dy, h5]

/-! ## the flag loops on arbitrary items -/

theorem resolve_items_any (items : List RepeatableFlag) :
    ∀ (more : List Nat) (pos xl yl : Nat),
      resolveCoordsLen (items.flatMap RepeatableFlag.bytes ++ more) pos (expandRaw items).length xl yl
        = some (pos + rleCost items, xl + ((expandRaw items).map xSize).sum,
                yl + ((expandRaw items).map ySize).sum) := by
  induction items with
  | nil => intro more pos xl yl; simp [expandRaw, rleCost, resolve_nil]
  | cons i rest ih =>
    intro more pos xl yl
    have hcp := count_pos i
    rw [expandRaw_cons]
    simp only [List.flatMap_cons, List.length_append, List.length_replicate, List.append_assoc,
      List.map_append, List.map_replicate, List.sum_append, sum_replicate]
    have hne : ¬ (i.count + (expandRaw rest).length = 0) := by omega
    by_cases hb : hasBit i.flag REPEAT = true
    · have hc : i.count = i.rep + 1 := by simp [RepeatableFlag.count, hb]
      have hcost : i.cost = 2 := by simp [RepeatableFlag.cost, hb]
      simp only [RepeatableFlag.bytes, hb, ↓reduceIte, List.cons_append, List.nil_append,
        resolveCoordsLen, hne]
      have hgt : ¬ (i.rep + 1 > i.count + (expandRaw rest).length) := by omega
      simp only [hgt, ↓reduceIte]
      have e1 : i.count + (expandRaw rest).length - (i.rep + 1) = (expandRaw rest).length := by omega
      rw [e1, ih more _ _ _]
      simp only [rleCost, List.map_cons, List.sum_cons, hcost, xSize, ySize, hc]
      congr 1
      refine Prod.ext ?_ (Prod.ext ?_ ?_) <;> simp only [] <;> (repeat' split) <;> omega
    · have hb' : hasBit i.flag REPEAT = false := by simpa using hb
      have hc : i.count = 1 := by simp [RepeatableFlag.count, hb']
      have hcost : i.cost = 1 := by simp [RepeatableFlag.cost, hb']
      simp only [RepeatableFlag.bytes, hb', Bool.false_eq_true, ↓reduceIte, List.cons_append,
        List.nil_append, resolveCoordsLen, hne]
      have e1 : i.count + (expandRaw rest).length - 1 = (expandRaw rest).length := by omega
      rw [e1, ih more _ _ _]
      simp only [rleCost, List.map_cons, List.sum_cons, hcost, xSize, ySize, hc]
      congr 1
      refine Prod.ext ?_ (Prod.ext ?_ ?_) <;> simp only [] <;> (repeat' split) <;> omega

theorem fastFlags_items_any (items : List RepeatableFlag) :
    ∀ (more : List Nat), items ≠ [] →
      fastFlags (items.flatMap RepeatableFlag.bytes ++ more) (expandRaw items).length
        = some (expandRaw items, rleCost items) := by
  induction items with
  | nil => intro more h; exact absurd rfl h
  | cons i rest ih =>
    intro more _
    rw [expandRaw_cons]
    simp only [List.flatMap_cons, List.length_append, List.length_replicate, List.append_assoc]
    by_cases hb : hasBit i.flag REPEAT = true
    · have hc : i.count = i.rep + 1 := by simp [RepeatableFlag.count, hb]
      have hcost : i.cost = 2 := by simp [RepeatableFlag.cost, hb]
      simp only [RepeatableFlag.bytes, hb, ↓reduceIte, List.cons_append, List.nil_append, fastFlags]
      have hmin : min (i.rep + 1) (i.count + (expandRaw rest).length) = i.count := by omega
      rw [hmin]
      by_cases hz : (expandRaw rest).length = 0
      · have := expandRaw_length_zero rest hz
        subst this
        simp [hz, expandRaw, rleCost, hcost]
      · have hne : rest ≠ [] := by intro e; subst e; simp [expandRaw] at hz
        have e1 : i.count + (expandRaw rest).length - i.count = (expandRaw rest).length := by omega
        simp only [e1, hz, ↓reduceIte]
        rw [ih more hne]
        simp [rleCost, hcost]; omega
    · have hb' : hasBit i.flag REPEAT = false := by simpa using hb
      have hc : i.count = 1 := by simp [RepeatableFlag.count, hb']
      have hcost : i.cost = 1 := by simp [RepeatableFlag.cost, hb']
      simp only [RepeatableFlag.bytes, hb', Bool.false_eq_true, ↓reduceIte, List.cons_append,
        List.nil_append, hc]
      unfold fastFlags
      simp only [hb', Bool.false_eq_true, ↓reduceIte]
      by_cases hz : (expandRaw rest).length = 0
      · have := expandRaw_length_zero rest hz
        subst this
        simp [expandRaw, rleCost, hcost]
      · have hne : rest ≠ [] := by intro e; subst e; simp [expandRaw] at hz
        have e1 : 1 + (expandRaw rest).length - 1 = (expandRaw rest).length := by omega
        simp only [e1, hz, ↓reduceIte]
        rw [ih more hne]
        simp [rleCost, hcost, List.replicate]; omega

/-- a flag array never takes more than two bytes per point (this is the window of the fixed
`read_points_fast`); the writer's own arrays take at most one (`wf_cost_le`) -/
theorem cost_le_two (items : List RepeatableFlag) : rleCost items ≤ 2 * (expandRaw items).length := by
  induction items with
  | nil => simp [rleCost, expandRaw]
  | cons a l ih =>
    rw [expandRaw_cons]
    simp only [rleCost, List.map_cons, List.sum_cons, List.length_append, List.length_replicate] at ih ⊢
    have h1 : a.cost ≤ 2 := by unfold RepeatableFlag.cost; split <;> omega
    have h2 := count_pos a
    omega

theorem length_le_256_cost (items : List RepeatableFlag) (h : ∀ i ∈ items, i.rep ≤ 255) :
    (expandRaw items).length ≤ 256 * rleCost items := by
  induction items with
  | nil => simp [rleCost, expandRaw]
  | cons a l ih =>
    have := ih (fun i hi => h i (by simp [hi]))
    have hr := h a (by simp)
    rw [expandRaw_cons]
    simp only [rleCost, List.map_cons, List.sum_cons, List.length_append, List.length_replicate] at this ⊢
    have : a.count ≤ 256 * a.cost := by
      unfold RepeatableFlag.cost RepeatableFlag.count
      split <;> omega
    omega

end FontVerif.Glyf
