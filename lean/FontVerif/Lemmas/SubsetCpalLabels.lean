/-
Lemmas for C17 CPAL version 1 arrays (klippa/src/cpal.rs `subset_v1`, `&[BigEndian<NameId>]::subset`; model
`SubsetCpal.subsetV1`, `keptLabels`): which object hangs behind each of the three offsets, and what the pruned entry-label
array holds.
-/
import FontVerif.Lemmas.SubsetCpal
set_option linter.unusedVariables false
namespace FontVerif.SubsetCpal
open FontVerif FontVerif.ColrSer
open FontVerif.SubsetHvar (Err R)

/-- one optional array: absent ⇒ nothing changes; present ⇒ the source slice exists and a link at `pos` points at an
object holding exactly `f slice` -/
theorem optLeaf_bytes (present : Bool) (src : Option (List Nat)) (f : List Nat → List Nat) (pos : Nat)
    (packed : List Obj) (links : List Link) (pk : List Obj) (ls : List Link)
    (h : optLeaf present src f pos packed links = .ok (pk, ls)) :
    (∃ extra, pk = packed ++ extra) ∧
    (present = false → pk = packed ∧ ls = links) ∧
    (present = true → ∃ s i, src = some s ∧ ls = links ++ [⟨pos, 4, i⟩] ∧ pk[i]? = some ⟨f s, []⟩) := by
  unfold optLeaf at h
  cases present with
  | true =>
    simp only [if_true] at h
    cases src with
    | none => cases h
    | some s =>
      obtain ⟨i, extra, hls, hpk, _, hget, _⟩ := packLeaf_spec _ _ _ _ _ _ h
      exact ⟨⟨extra, hpk⟩, ⟨fun hh => (by cases hh), fun _ => ⟨s, i, rfl, hls, hget⟩⟩⟩
  | false =>
    simp only [Bool.false_eq_true, if_false, pure, Except.pure] at h
    cases h
    exact ⟨⟨[], by simp⟩, ⟨fun _ => ⟨rfl, rfl⟩, fun hh => (by cases hh)⟩⟩

theorem getElem?_append_keep {α} (a e : List α) (i : Nat) (o : α) (h : a[i]? = some o) : (a ++ e)[i]? = some o := by
  have hi : i < a.length := by
    by_cases hh : i < a.length
    · exact hh
    · rw [List.getElem?_eq_none (by omega)] at h; cases h
  rw [List.getElem?_append_left hi]; exact h

/-- what `subset_v1` hangs behind the three offsets -/
structure V1Leaves (b : List Nat) (h : Header) (palettes : List (Nat × Nat)) (typesPos : Nat)
    (links : List Link) (pk : List Obj) (ls : List Link) : Prop where
  types : ∀ p off, h.v1Pos = some p → rd32 b p = some off →
    (off = 0 → ∀ l ∈ ls, l ∉ links → l.pos ≠ typesPos) ∧
    (off ≠ 0 → ∃ s i, slice b off (4 * h.numPalettes) = some s ∧ (⟨typesPos, 4, i⟩ : Link) ∈ ls ∧ pk[i]? = some ⟨s, []⟩)
  labels : ∀ p off, h.v1Pos = some p → rd32 b (p + 4) = some off →
    (off = 0 → ∀ l ∈ ls, l ∉ links → l.pos ≠ typesPos + 4) ∧
    (off ≠ 0 → ∃ s i, slice b off (2 * h.numPalettes) = some s ∧ (⟨typesPos + 4, 4, i⟩ : Link) ∈ ls ∧ pk[i]? = some ⟨s, []⟩)
  entryLabels : ∀ p off, h.v1Pos = some p → rd32 b (p + 8) = some off →
    (off = 0 → ∀ l ∈ ls, l ∉ links → l.pos ≠ typesPos + 8) ∧
    (off ≠ 0 → ∃ s i, slice b off (2 * h.numEntries) = some s ∧ (⟨typesPos + 8, 4, i⟩ : Link) ∈ ls ∧
      pk[i]? = some ⟨keptLabels h.numEntries palettes s, []⟩)

theorem subsetV1_leaves (b : List Nat) (h : Header) (palettes : List (Nat × Nat)) (typesPos : Nat)
    (packed : List Obj) (links : List Link) (pk : List Obj) (ls : List Link)
    (hok : subsetV1 b h palettes typesPos packed links = .ok (pk, ls)) :
    V1Leaves b h palettes typesPos links pk ls := by
  unfold subsetV1 at hok
  cases hp : h.v1Pos with
  | none => rw [hp] at hok; cases hok
  | some p =>
  rw [hp] at hok
  simp only [] at hok
  cases h1 : rd32 b p with
  | none => rw [h1] at hok; cases hok
  | some typesOff =>
  cases h2 : rd32 b (p + 4) with
  | none => rw [h1, h2] at hok; cases hok
  | some labelsOff =>
  cases h3 : rd32 b (p + 8) with
  | none => rw [h1, h2, h3] at hok; cases hok
  | some entryLabelsOff =>
  rw [h1, h2, h3] at hok
  simp only [] at hok
  obtain ⟨⟨pk1, ls1⟩, hs1, hok⟩ := bind_ok hok
  obtain ⟨⟨pk2, ls2⟩, hs2, hok⟩ := bind_ok hok
  obtain ⟨⟨e1, hpk1⟩, a1, b1⟩ := optLeaf_bytes _ _ _ _ _ _ _ _ hs1
  obtain ⟨⟨e2, hpk2⟩, a2, b2⟩ := optLeaf_bytes _ _ _ _ _ _ _ _ hs2
  obtain ⟨⟨e3, hpk3⟩, a3, b3⟩ := optLeaf_bytes _ _ _ _ _ _ _ _ hok
  simp only [] at hpk2 hpk3 a2 b2 a3 b3
  -- every link added has one of the three positions, in order
  have hls : ∃ l1 l2 l3, ls = links ++ l1 ++ l2 ++ l3 ∧ (∀ l ∈ l1, l.pos = typesPos) ∧ (∀ l ∈ l2, l.pos = typesPos + 4) ∧
      (∀ l ∈ l3, l.pos = typesPos + 8) ∧ ls1 = links ++ l1 ∧ ls2 = links ++ l1 ++ l2 ∧
      ((typesOff != 0) = false → l1 = []) ∧ ((labelsOff != 0) = false → l2 = []) ∧ ((entryLabelsOff != 0) = false → l3 = []) := by
    have q1 : ∃ l1, ls1 = links ++ l1 ∧ (∀ l ∈ l1, l.pos = typesPos) ∧ ((typesOff != 0) = false → l1 = []) := by
      cases hc : (typesOff != 0) with
      | false => exact ⟨[], by rw [(a1 hc).2]; simp, by simp, fun _ => rfl⟩
      | true => obtain ⟨s, i, _, hl, _⟩ := b1 hc; exact ⟨[⟨typesPos, 4, i⟩], hl, by simp, fun hh => by cases hh⟩
    have q2 : ∃ l2, ls2 = ls1 ++ l2 ∧ (∀ l ∈ l2, l.pos = typesPos + 4) ∧ ((labelsOff != 0) = false → l2 = []) := by
      cases hc : (labelsOff != 0) with
      | false => exact ⟨[], by rw [(a2 hc).2]; simp, by simp, fun _ => rfl⟩
      | true => obtain ⟨s, i, _, hl, _⟩ := b2 hc; exact ⟨[⟨typesPos + 4, 4, i⟩], hl, by simp, fun hh => by cases hh⟩
    have q3 : ∃ l3, ls = ls2 ++ l3 ∧ (∀ l ∈ l3, l.pos = typesPos + 8) ∧ ((entryLabelsOff != 0) = false → l3 = []) := by
      cases hc : (entryLabelsOff != 0) with
      | false => exact ⟨[], by rw [(a3 hc).2]; simp, by simp, fun _ => rfl⟩
      | true => obtain ⟨s, i, _, hl, _⟩ := b3 hc; exact ⟨[⟨typesPos + 8, 4, i⟩], hl, by simp, fun hh => by cases hh⟩
    obtain ⟨l1, e1', p1, z1⟩ := q1
    obtain ⟨l2, e2', p2, z2⟩ := q2
    obtain ⟨l3, e3', p3, z3⟩ := q3
    exact ⟨l1, l2, l3, by rw [e3', e2', e1'], p1, p2, p3, e1', by rw [e2', e1'], z1, z2, z3⟩
  obtain ⟨l1, l2, l3, hlsEq, p1, p2, p3, hls1, hls2, z1, z2, z3⟩ := hls
  have nolink : ∀ (l : Link), l ∈ ls → l ∉ links → l ∈ l1 ∨ l ∈ l2 ∨ l ∈ l3 := by
    intro l hl hn
    rw [hlsEq] at hl
    simp only [List.mem_append] at hl
    rcases hl with ((hl | hl) | hl) | hl
    · exact absurd hl hn
    · exact Or.inl hl
    · exact Or.inr (Or.inl hl)
    · exact Or.inr (Or.inr hl)
  refine ⟨?_, ?_, ?_⟩
  · intro p' off hp' hoff
    have e : p' = p := by
      have := hp.symm.trans hp'
      exact (Option.some.inj this).symm
    subst e
    rw [h1] at hoff; cases hoff
    constructor
    · intro h0 l hl hn
      have : l1 = [] := z1 (by simp [h0])
      rcases nolink l hl hn with h' | h' | h'
      · rw [this] at h'; cases h'
      · rw [p2 l h']; omega
      · rw [p3 l h']; omega
    · intro hne
      obtain ⟨s, i, hs, hl, hg⟩ := b1 (by simp [hne])
      refine ⟨s, i, hs, ?_, ?_⟩
      · rw [hlsEq, ← hls1, hl]; simp
      · rw [hpk3, hpk2]
        exact getElem?_append_keep _ _ _ _ (getElem?_append_keep _ _ _ _ hg)
  · intro p' off hp' hoff
    have e : p' = p := by
      have := hp.symm.trans hp'
      exact (Option.some.inj this).symm
    subst e
    rw [h2] at hoff; cases hoff
    constructor
    · intro h0 l hl hn
      have : l2 = [] := z2 (by simp [h0])
      rcases nolink l hl hn with h' | h' | h'
      · rw [p1 l h']; omega
      · rw [this] at h'; cases h'
      · rw [p3 l h']; omega
    · intro hne
      obtain ⟨s, i, hs, hl, hg⟩ := b2 (by simp [hne])
      refine ⟨s, i, hs, ?_, ?_⟩
      · rw [hlsEq, ← hls2, hl]; simp
      · rw [hpk3]
        exact getElem?_append_keep _ _ _ _ hg
  · intro p' off hp' hoff
    have e : p' = p := by
      have := hp.symm.trans hp'
      exact (Option.some.inj this).symm
    subst e
    rw [h3] at hoff; cases hoff
    constructor
    · intro h0 l hl hn
      have : l3 = [] := z3 (by simp [h0])
      rcases nolink l hl hn with h' | h' | h'
      · rw [p1 l h']; omega
      · rw [p2 l h']; omega
      · rw [this] at h'; cases h'
    · intro hne
      obtain ⟨s, i, hs, hl, hg⟩ := b3 (by simp [hne])
      exact ⟨s, i, hs, by rw [hl]; simp, hg⟩


/-- a successful `Cpal::subset` of a version 1 table: the three arrays behind the header extension -/
theorem cpalObjects_v1_leaves (b : List Nat) (palettes : List (Nat × Nat)) (packed : List Obj) (root : Obj)
    (h : cpalObjects b palettes = .ok (packed, root)) (hd : Header) (hhd : readHeader b = some hd)
    (hv : hd.version = 1) :
    ∃ typesPos links0, V1Leaves b hd palettes typesPos links0 packed root.links := by
  unfold cpalObjects at h
  rw [hhd] at h
  simp only [] at h
  split at h
  · cases h
  split at h
  · cases h
  split at h
  · cases h
  obtain ⟨⟨map, recBytes⟩, hgo, h⟩ := bind_ok h
  obtain ⟨⟨pk0, ls0⟩, hpl, h⟩ := bind_ok h
  simp only [] at h
  split at h
  · cases h
  have hv' : ¬ (hd.version ≠ 1) := by simp [hv]
  simp only [hv', if_false] at h
  obtain ⟨⟨pk1, ls1⟩, hs, h⟩ := bind_ok h
  simp only [pure, Except.pure] at h
  cases h
  exact ⟨_, _, subsetV1_leaves _ _ _ _ _ _ _ _ hs⟩

/-! ### the pruned entry-label array -/

theorem flatMap_chunk {α} (f : Nat → List α) : ∀ (l : List Nat) (j e : Nat), (∀ x ∈ l, (f x).length = 2) →
    l[j]? = some e → ((l.flatMap f).drop (2 * j)).take 2 = f e
  | [], j, e, _, h => by simp at h
  | x :: xs, 0, e, hl, h => by
    simp at h; subst h
    have := hl x (List.mem_cons_self ..)
    simp only [List.flatMap_cons, Nat.mul_zero, List.drop_zero]
    rw [List.take_append_of_le_length (by omega), List.take_of_length_le (by omega)]
  | x :: xs, j + 1, e, hl, h => by
    have hx := hl x (List.mem_cons_self ..)
    simp only [List.getElem?_cons_succ] at h
    have ih := flatMap_chunk f xs j e (fun y hy => hl y (List.mem_cons_of_mem _ hy)) h
    simp only [List.flatMap_cons]
    have : 2 * (j + 1) = (f x).length + 2 * j := by omega
    rw [this, List.drop_append]
    have d1 : List.drop ((f x).length + 2 * j) (f x) = [] := List.drop_of_length_le (by omega)
    have d2 : (f x).length + 2 * j - (f x).length = 2 * j := by omega
    rw [d1, d2, List.nil_append]
    exact ih

/-- the entries `&[BigEndian<NameId>]::subset` keeps a label for: source entry indices that are keys of `colr_palettes` -/
def keptEntries (numEntries : Nat) (palettes : List (Nat × Nat)) : List Nat :=
  (List.range numEntries).filter fun e => (palettes.lookup e).isSome

theorem keptLabels_get (n : Nat) (palettes : List (Nat × Nat)) (src : List Nat) (hlen : src.length = 2 * n)
    (j e : Nat) (hj : (keptEntries n palettes)[j]? = some e) :
    rdN 2 (keptLabels n palettes src) (2 * j) = rdN 2 src (2 * e) ∧
    (keptLabels n palettes src).length = 2 * (keptEntries n palettes).length := by
  have hchunk : ∀ x ∈ keptEntries n palettes, ((src.drop (2 * x)).take 2).length = 2 := by
    intro x hx
    have : x < n := by
      have := (List.mem_filter.mp hx).1
      exact List.mem_range.mp this
    simp; omega
  have hlenK : (keptLabels n palettes src).length = 2 * (keptEntries n palettes).length := by
    unfold keptLabels
    have : ∀ (l : List Nat), (∀ x ∈ l, ((src.drop (2 * x)).take 2).length = 2) →
        (l.flatMap fun e => (src.drop (2 * e)).take 2).length = 2 * l.length := by
      intro l
      induction l with
      | nil => intro _; rfl
      | cons a t ih =>
        intro hh
        simp only [List.flatMap_cons, List.length_append, List.length_cons]
        rw [ih (fun y hy => hh y (List.mem_cons_of_mem _ hy)), hh a (List.mem_cons_self ..)]
        omega
    exact this _ hchunk
  refine ⟨?_, hlenK⟩
  have he : e < n := by
    have hm : e ∈ keptEntries n palettes := List.mem_of_getElem? hj
    exact List.mem_range.mp (List.mem_filter.mp hm).1
  have hjl : j < (keptEntries n palettes).length := by
    by_cases hh : j < (keptEntries n palettes).length
    · exact hh
    · rw [List.getElem?_eq_none (by omega)] at hj; cases hj
  have hc := flatMap_chunk (fun e => (src.drop (2 * e)).take 2) (keptEntries n palettes) j e hchunk hj
  unfold rdN
  have c1 : 2 * j + 2 ≤ (keptLabels n palettes src).length := by omega
  have c2 : 2 * e + 2 ≤ src.length := by omega
  simp only [c1, c2, if_true]
  congr 1
  exact congrArg beValue hc

end FontVerif.SubsetCpal
