/-
Helper lemmas for C16: the device-offset bookkeeping of `split_off_ppf2` / `copy_value_rec`
(per-record re-slicing of the subtable's offset list, `seen_offsets`, `next_device_offset`)
re-links every device offset of every copied value record to the object it pointed to.
-/
import FontVerif.Lemmas.LayoutSplit2
set_option linter.unusedVariables false
namespace FontVerif.Layout

theorem copyDevs_drop (offs : List Nat) (a : Nat) :
    ∀ (fl : List Bool) (s : Nat), a + s + countDevs fl ≤ offs.length →
      copyDevs (offs.drop a) s fl = some (resolveDevs offs (a + s) fl, s + countDevs fl) := by
  intro fl
  induction fl with
  | nil => intro s _; simp [copyDevs, resolveDevs, countDevs]
  | cons f fs ih =>
    intro s h
    cases f with
    | true =>
      have hc : countDevs (true :: fs) = countDevs fs + 1 := by simp [countDevs]
      rw [hc] at h
      have hlt : a + s < offs.length := by omega
      have hget : (offs.drop a)[s]? = some offs[a + s] := by
        rw [List.getElem?_drop, List.getElem?_eq_getElem hlt]
      have := ih (s + 1) (by omega)
      simp only [copyDevs, hget, this, resolveDevs, hc]
      rw [List.getElem?_eq_getElem hlt]
      have e1 : a + (s + 1) = a + s + 1 := by omega
      have e2 : s + 1 + countDevs fs = s + (countDevs fs + 1) := by omega
      rw [e1, e2]
    | false =>
      have hc : countDevs (false :: fs) = countDevs fs := by simp [countDevs]
      rw [hc] at h
      have := ih s h
      simp only [copyDevs, this, resolveDevs, hc]

theorem copyClass2Rec_eq {S : Type} (offs : List Nat) (first seen : Nat) (c : RawVR S × RawVR S)
    (h : first + seen + cellDevs c ≤ offs.length) :
    copyClass2Rec offs first seen c = some (resolveCell offs (first + seen) c, seen + cellDevs c) := by
  unfold cellDevs at h
  have h1 : first + seen ≤ offs.length := by omega
  have hd1 := copyDevs_drop offs (first + seen) c.1.devs 0 (by omega)
  have hlen : (offs.drop (first + seen)).length = offs.length - (first + seen) := List.length_drop
  have h2 : 0 + countDevs c.1.devs ≤ (offs.drop (first + seen)).length := by omega
  have hdd : (offs.drop (first + seen)).drop (0 + countDevs c.1.devs) =
      offs.drop (first + seen + countDevs c.1.devs) := by
    rw [List.drop_drop]; congr 1; omega
  have hd2 := copyDevs_drop offs (first + seen + countDevs c.1.devs) c.2.devs 0 (by omega)
  simp only [Nat.add_zero, Nat.zero_add] at hd1 h2 hdd hd2
  simp only [copyClass2Rec, sliceFrom, h1, ↓reduceIte, copyValueRec, hd1, h2, hdd, hd2, resolveCell,
    cellDevs]
  congr 2
  omega

theorem copyCells_eq {S : Type} (offs : List Nat) (first : Nat) :
    ∀ (cs : List (RawVR S × RawVR S)) (seen : Nat), first + seen + rowDevs cs ≤ offs.length →
      copyCells offs first seen cs = some (resolveCells offs (first + seen) cs, seen + rowDevs cs) := by
  intro cs
  induction cs with
  | nil => intro seen _; simp [copyCells, resolveCells, rowDevs]
  | cons c cs ih =>
    intro seen h
    have hr : rowDevs (c :: cs) = cellDevs c + rowDevs cs := by simp [rowDevs]
    rw [hr] at h
    have h1 := copyClass2Rec_eq offs first seen c (by omega)
    have h2 := ih (seen + cellDevs c) (by omega)
    simp only [copyCells, h1, h2, resolveCells, hr]
    have e1 : first + (seen + cellDevs c) = first + seen + cellDevs c := by omega
    have e2 : seen + cellDevs c + rowDevs cs = seen + (cellDevs c + rowDevs cs) := by omega
    rw [e1, e2]

theorem copyRows_eq {S : Type} (offs : List Nat) (first : Nat) :
    ∀ (rows : List (List (RawVR S × RawVR S))) (seen : Nat),
      first + seen + rowsDevs rows ≤ offs.length →
      copyRows offs first seen rows =
        some (resolveRows offs (first + seen) rows, seen + rowsDevs rows) := by
  intro rows
  induction rows with
  | nil => intro seen _; simp [copyRows, resolveRows, rowsDevs]
  | cons r rs ih =>
    intro seen h
    have hr : rowsDevs (r :: rs) = rowDevs r + rowsDevs rs := by simp [rowsDevs]
    rw [hr] at h
    have h1 := copyCells_eq offs first r seen (by omega)
    have h2 := ih (seen + rowDevs r) (by omega)
    simp only [copyRows, h1, h2, resolveRows, hr]
    have e1 : first + (seen + rowDevs r) = first + seen + rowDevs r := by omega
    have e2 : seen + rowDevs r + rowsDevs rs = seen + (rowDevs r + rowsDevs rs) := by omega
    rw [e1, e2]

theorem rowsDevs_append {S : Type} (a b : List (List (RawVR S × RawVR S))) :
    rowsDevs (a ++ b) = rowsDevs a + rowsDevs b := by
  simp [rowsDevs]

theorem resolveRows_append {S : Type} (offs : List Nat) :
    ∀ (a b : List (List (RawVR S × RawVR S))) (k : Nat),
      resolveRows offs k (a ++ b) = resolveRows offs k a ++ resolveRows offs (k + rowsDevs a) b := by
  intro a
  induction a with
  | nil => intro b k; simp [resolveRows, rowsDevs]
  | cons r rs ih =>
    intro b k
    have hr : rowsDevs (r :: rs) = rowDevs r + rowsDevs rs := by simp [rowsDevs]
    simp only [List.cons_append, resolveRows, ih, hr]
    have : k + rowDevs r + rowsDevs rs = k + (rowDevs r + rowsDevs rs) := by omega
    rw [this]

theorem resolveRows_length {S : Type} (offs : List Nat) :
    ∀ (a : List (List (RawVR S × RawVR S))) (k : Nat), (resolveRows offs k a).length = a.length := by
  intro a
  induction a with
  | nil => intro k; rfl
  | cons r rs ih => intro k; simp [resolveRows, ih]

/-- a slice of the resolved matrix is the resolution of the slice, started at the number of
device offsets before it -/
theorem resolveRows_slice {S : Type} (offs : List Nat) (rows : List (List (RawVR S × RawVR S)))
    (k lo n : Nat) :
    ((resolveRows offs k rows).drop lo).take n =
      resolveRows offs (k + rowsDevs (rows.take lo)) ((rows.drop lo).take n) := by
  have e1 : rows = rows.take lo ++ ((rows.drop lo).take n ++ (rows.drop lo).drop n) := by
    rw [List.take_append_drop, List.take_append_drop]
  generalize hA : rows.take lo = A at e1
  generalize hB : (rows.drop lo).take n = B at e1
  generalize hC : (rows.drop lo).drop n = C at e1
  have hAl : A.length = min lo rows.length := by rw [← hA]; simp
  have hBl : B.length = min n (rows.length - lo) := by rw [← hB]; simp
  rw [e1, resolveRows_append, resolveRows_append]
  by_cases hlo : lo ≤ rows.length
  · have hAlen : (resolveRows offs k A).length = lo := by
      rw [resolveRows_length, hAl]; omega
    rw [List.drop_left' hAlen]
    by_cases hn : n ≤ rows.length - lo
    · have hBlen : (resolveRows offs (k + rowsDevs A) B).length = n := by
        rw [resolveRows_length, hBl]; omega
      rw [List.take_left' hBlen]
    · -- the slice runs to the end: C is empty
      have hCe : C = [] := by
        rw [← hC]; apply List.drop_eq_nil_of_le; simp; omega
      subst hCe
      simp only [resolveRows, List.append_nil]
      apply List.take_of_length_le
      rw [resolveRows_length, hBl]; omega
  · -- `lo` beyond the matrix: everything empty
    have hBe : B = [] := by
      rw [← hB]; simp; right; omega
    have hCe : C = [] := by
      rw [← hC]; simp; omega
    subst hBe; subst hCe
    simp only [resolveRows, List.append_nil, List.take_eq_nil_iff, List.drop_eq_nil_iff]
    right
    rw [resolveRows_length, hAl]; omega

theorem rowsDevs_take_le {S : Type} (rows : List (List (RawVR S × RawVR S))) (n : Nat) :
    rowsDevs (rows.take n) ≤ rowsDevs rows := by
  have : rowsDevs rows = rowsDevs (rows.take n) + rowsDevs (rows.drop n) := by
    rw [← rowsDevs_append, List.take_append_drop]
  omega

theorem rowsDevs_take_add {S : Type} (rows : List (List (RawVR S × RawVR S))) {lo hi : Nat}
    (h : lo ≤ hi) :
    rowsDevs (rows.take lo) + rowsDevs ((rows.drop lo).take (hi - lo)) = rowsDevs (rows.take hi) := by
  rw [← rowsDevs_append]
  congr 1
  have : hi = lo + (hi - lo) := by omega
  rw [this, List.take_add]
  simp

/-- one `split_off_ppf2` call with the `next_device_offset` the loop hands it re-links every device
offset exactly as the unsplit subtable has it -/
theorem splitOffPpf2G_eq {S : Type} (t : PairPos2G S) (hwf : t.WF) {lo hi : Nat} (hlh : lo ≤ hi) :
    ∃ a, splitOffPpf2 t.resolved lo hi = some a ∧
      splitOffPpf2G t lo hi (3 + rowsDevs (t.tbl.rows.take lo)) =
        some (a, rowsDevs ((t.tbl.rows.drop lo).take (hi - lo))) := by
  have hnl : ¬ hi < lo := by omega
  unfold PairPos2G.WF at hwf
  have hle : rowsDevs (t.tbl.rows.take hi) ≤ rowsDevs t.tbl.rows := rowsDevs_take_le _ _
  have hadd := rowsDevs_take_add t.tbl.rows hlh
  have hcopy := copyRows_eq t.offsets (3 + rowsDevs (t.tbl.rows.take lo))
    ((t.tbl.rows.drop lo).take (hi - lo)) 0 (by omega)
  simp only [Nat.add_zero, Nat.zero_add] at hcopy
  simp only [splitOffPpf2G, splitOffPpf2, if_neg hnl]
  refine ⟨_, rfl, ?_⟩
  simp only [hcopy, PairPos2G.resolved, resolveRows_slice]
  first | done | rfl

theorem splitPpf2GGo_eq {S : Type} (t : PairPos2G S) (hwf : t.WF) :
    ∀ (pts : List Nat) (prev : Nat), (prev :: pts).Pairwise (· ≤ ·) →
      splitPpf2GGo t prev (3 + rowsDevs (t.tbl.rows.take prev)) pts =
        splitLoop (splitOffPpf2 t.resolved) prev pts := by
  intro pts
  induction pts with
  | nil => intro prev _; rfl
  | cons p ps ih =>
    intro prev hpw
    have hpw' := List.pairwise_cons.mp hpw
    have hle : prev ≤ p := hpw'.1 p (List.mem_cons_self ..)
    obtain ⟨a, ha, hg⟩ := splitOffPpf2G_eq t hwf hle
    have hadd := rowsDevs_take_add t.tbl.rows hle
    have e : 3 + rowsDevs (t.tbl.rows.take prev) + rowsDevs ((t.tbl.rows.drop prev).take (p - prev)) =
        3 + rowsDevs (t.tbl.rows.take p) := by omega
    simp only [splitPpf2GGo, hg, e, ih p hpw'.2, splitLoop, ha]
    cases splitLoop (splitOffPpf2 t.resolved) p ps <;> rfl

end FontVerif.Layout
