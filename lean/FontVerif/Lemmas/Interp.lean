/-
C02 core 1 — lemmas about Model/Interp.lean: the decoder always advances, the scan loops never run out of fuel,
and what one dispatch / one run-loop iteration can do to the control state.
-/
import FontVerif.Model.Interp
namespace FontVerif.InterpLemmas
open FontVerif FontVerif.Interp
set_option linter.unusedVariables false

theorem opcodeLen_pos_or_neg (op : Nat) : 1 ≤ opcodeLen op ∨ opcodeLen op = -1 ∨ opcodeLen op = -2 := by
  unfold opcodeLen; repeat' split
  all_goals omega

theorem insLen_pos {code : Array Nat} {pc op len : Nat} (h : insLen code pc op = some len) : 1 ≤ len := by
  unfold insLen at h
  simp only [] at h
  rcases opcodeLen_pos_or_neg op with h1 | h1 | h1
  · rw [if_neg (by omega)] at h; simp at h; omega
  · rw [if_pos (by omega)] at h; split at h <;> simp at h; omega
  · rw [if_pos (by omega)] at h; split at h <;> simp at h; omega

theorem decode_advances {code : Array Nat} {pc op ipc next : Nat} {ops : List Nat}
    (h : decode code pc = .ins op ops ipc next) : ipc = pc ∧ pc < next ∧ next ≤ code.size := by
  unfold decode at h
  split at h
  · simp at h
  · split at h
    · simp at h
    · rename_i len hl
      have := insLen_pos hl
      simp only [] at h
      split at h
      · simp at h; omega
      · simp at h

theorem scanIf_fuel (code : Array Nat) : ∀ (fuel pc depth : Nat), code.size < fuel + pc → 0 < fuel →
    scanIf code fuel pc depth ≠ none := by
  intro fuel
  induction fuel with
  | zero => intro pc depth h hf; omega
  | succ n ih =>
    intro pc depth h hf
    unfold scanIf
    split
    · simp
    · simp
    · rename_i op ops ipc next hd
      have ⟨_, h1, h2⟩ := decode_advances hd
      have ih' := fun d => ih next d (by omega) (by omega)
      repeat' split
      all_goals first | exact ih' _ | simp

theorem scanElse_fuel (code : Array Nat) : ∀ (fuel pc depth : Nat), code.size < fuel + pc → 0 < fuel →
    scanElse code fuel pc depth ≠ none := by
  intro fuel
  induction fuel with
  | zero => intro pc depth h hf; omega
  | succ n ih =>
    intro pc depth h hf
    unfold scanElse
    split
    · simp
    · simp
    · rename_i op ops ipc next hd
      have ⟨_, h1, h2⟩ := decode_advances hd
      have ih' := fun d => ih next d (by omega) (by omega)
      repeat' split
      all_goals first | exact ih' _ | simp

theorem scanDef_fuel (code : Array Nat) : ∀ (fuel pc : Nat), code.size < fuel + pc → 0 < fuel →
    scanDef code fuel pc ≠ none := by
  intro fuel
  induction fuel with
  | zero => intro pc h hf; omega
  | succ n ih =>
    intro pc h hf
    unfold scanDef
    split
    · simp
    · simp
    · rename_i op ops ipc next hd
      have ⟨_, h1, h2⟩ := decode_advances hd
      have ih' := ih next (by omega) (by omega)
      repeat' split
      all_goals first | exact ih' | simp

/-- the safety invariant of the control state -/
def CtlInv {D} (c : Cfg D) (s : St D) : Prop :=
  s.calls.length ≤ MAX_DEPTH ∧ s.backJumps ≤ c.limit ∧ s.loopCalls ≤ c.limit

/-- what one dispatch may change -/
def Rel {D} (c : Cfg D) (s s2 : St D) : Prop :=
  s2.count = s.count ∧ s2.status = s.status ∧ s2.initial = s.initial ∧ (CtlInv c s → CtlInv c s2)

theorem Rel.refl {D} (c : Cfg D) (s : St D) : Rel c s s := ⟨rfl, rfl, rfl, id⟩
theorem Rel.trans {D} {c : Cfg D} {a b d : St D} (h1 : Rel c a b) (h2 : Rel c b d) : Rel c a d :=
  ⟨h2.1.trans h1.1, h2.2.1.trans h1.2.1, h2.2.2.1.trans h1.2.2.1, fun h => h2.2.2.2 (h1.2.2.2 h)⟩

theorem Rel.vs {D} (c : Cfg D) (s : St D) (vs : List Int) : Rel c s { s with vs := vs } :=
  ⟨rfl, rfl, rfl, id⟩

theorem doJump_rel {D} {c : Cfg D} {s s2 : St D} {t : Bool} (h : doJump c s t = .ok s2) : Rel c s s2 := by
  unfold doJump at h
  simp only [] at h
  split at h
  · simp at h
  · iterate 4 (all_goals try split at h)
    all_goals try (simp at h)
    all_goals subst h
    all_goals refine ⟨rfl, rfl, rfl, ?_⟩
    all_goals (intro hi; unfold CtlInv at *; simp only []; omega)

theorem enter_rel {D} {c : Cfg D} {s s2 : St D} {d : Def} {n : Nat} (h : enter s d n = .ok s2) : Rel c s s2 := by
  unfold enter at h
  split at h
  · simp at h; subst h
    refine ⟨rfl, rfl, rfl, ?_⟩
    intro hi; unfold CtlInv at *; simp only [List.length_cons]; unfold MAX_DEPTH at *; omega
  · simp at h

theorem doCall_rel {D} {c : Cfg D} {s s2 : St D} {f : Bool} {n : Nat} {k : Int}
    (h : doCall s f n k = .ok s2) : Rel c s s2 := by
  unfold doCall at h
  split at h
  · simp at h; subst h; exact Rel.refl c _
  · split at h
    · simp at h
    · exact enter_rel h

theorem leave_rel {D} {c : Cfg D} {s s2 : St D} (h : leave s = .ok s2) : Rel c s s2 := by
  unfold leave at h
  split at h
  · simp at h
  · rename_i f rest hc
    split at h <;> (simp at h; subst h; refine ⟨rfl, rfl, rfl, ?_⟩; intro hi; unfold CtlInv at *; simp only [hc, List.length_cons] at *; omega)

theorem doDef_rel {D} {c : Cfg D} {s s2 : St D} {f : Bool} {k : Int}
    (h : doDef c s f k = some (.ok s2)) : Rel c s s2 := by
  unfold doDef at h
  simp only [] at h
  iterate 6 (all_goals try split at h)
  all_goals try (simp at h)
  all_goals subst h
  all_goals refine ⟨?_, ?_, ?_, ?_⟩
  all_goals first | rfl | (split <;> rfl) | (intro hi; exact hi) | (intro hi; split <;> exact hi)

theorem doDef_ne_none {D} (c : Cfg D) (s : St D) (f : Bool) (k : Int) : doDef c s f k ≠ none := by
  intro h
  unfold doDef at h
  simp only [] at h
  iterate 6 (all_goals try split at h)
  all_goals try (simp at h)
  all_goals (rename_i hq; exact absurd hq (scanDef_fuel _ _ _ (by omega) (by omega)))

theorem opIf_ne_none {D} (c : Cfg D) (s : St D) : opIf c s ≠ none := by
  intro h
  unfold opIf at h
  simp only [] at h
  iterate 4 (all_goals try split at h)
  all_goals try (simp at h)
  all_goals (rename_i hq; exact absurd hq (scanIf_fuel _ _ _ _ (by omega) (by omega)))

theorem opIf_rel {D} {c : Cfg D} {s s2 : St D} (h : opIf c s = some (.ok s2)) : Rel c s s2 := by
  unfold opIf at h
  simp only [] at h
  iterate 4 (all_goals try split at h)
  all_goals try (simp at h)
  all_goals (subst h; exact ⟨rfl, rfl, rfl, id⟩)

theorem opElse_ne_none {D} (c : Cfg D) (s : St D) : opElse c s ≠ none := by
  intro h
  unfold opElse at h
  simp only [] at h
  iterate 2 (all_goals try split at h)
  all_goals try (simp at h)
  all_goals (rename_i hq; exact absurd hq (scanElse_fuel _ _ _ _ (by omega) (by omega)))

theorem opElse_rel {D} {c : Cfg D} {s s2 : St D} (h : opElse c s = some (.ok s2)) : Rel c s s2 := by
  unfold opElse at h
  simp only [] at h
  iterate 2 (all_goals try split at h)
  all_goals try (simp at h)
  all_goals (subst h; exact ⟨rfl, rfl, rfl, id⟩)

theorem opJr_rel {D} {c : Cfg D} {s s2 : St D} {t : Bool} (h : opJr c s t = .ok s2) : Rel c s s2 := by
  unfold opJr at h
  split at h
  · simp at h
  · exact (Rel.vs c s _).trans (doJump_rel h)

theorem opCall_rel {D} {c : Cfg D} {s s2 : St D} (h : opCall c s = .ok s2) : Rel c s s2 := by
  unfold opCall at h
  split at h
  · simp at h
  · exact (Rel.vs c s _).trans (doCall_rel h)

theorem opLoopcall_rel {D} {c : Cfg D} {s s2 : St D} (h : opLoopcall c s = .ok s2) : Rel c s s2 := by
  unfold opLoopcall at h
  simp only [] at h
  split at h
  · simp at h
  · split at h
    · simp at h
    · split at h
      · split at h
        · simp at h
        · rename_i hlc
          refine Rel.trans ?_ (doCall_rel h)
          refine ⟨rfl, rfl, rfl, ?_⟩
          intro hi; unfold CtlInv at *; simp only []; omega
      · simp at h; subst h; exact ⟨rfl, rfl, rfl, id⟩

theorem opDef_ne_none {D} (c : Cfg D) (s : St D) (f : Bool) : opDef c s f ≠ none := by
  unfold opDef
  split
  · simp
  · exact doDef_ne_none _ _ _ _

theorem opDef_rel {D} {c : Cfg D} {s s2 : St D} {f : Bool} (h : opDef c s f = some (.ok s2)) : Rel c s s2 := by
  unfold opDef at h
  split at h
  · simp at h
  · exact (Rel.vs c s _).trans (doDef_rel h)

theorem opData_rel {D} {c : Cfg D} {s s2 : St D} {op : Nat} {ops : List Nat}
    (h : opData c s op ops = .ok s2) : Rel c s s2 := by
  unfold opData at h
  split at h
  · simp at h
  · simp at h; subst h; exact ⟨rfl, rfl, rfl, id⟩

theorem dispatch_ne_none {D} (c : Cfg D) (s : St D) (op : Nat) (ops : List Nat) : dispatch c s op ops ≠ none := by
  intro h
  unfold dispatch at h
  by_cases h1 : op = 0x58
  · rw [if_pos h1] at h; exact opIf_ne_none _ _ h
  rw [if_neg h1] at h
  by_cases h2 : op = 0x1B
  · rw [if_pos h2] at h; exact opElse_ne_none _ _ h
  rw [if_neg h2] at h
  by_cases h3 : op = 0x59
  · rw [if_pos h3] at h; exact absurd h (Option.some_ne_none _)
  rw [if_neg h3] at h
  by_cases h4 : op = 0x1C
  · rw [if_pos h4] at h; exact absurd h (Option.some_ne_none _)
  rw [if_neg h4] at h
  by_cases h5 : op = 0x78
  · rw [if_pos h5] at h; exact absurd h (Option.some_ne_none _)
  rw [if_neg h5] at h
  by_cases h6 : op = 0x79
  · rw [if_pos h6] at h; exact absurd h (Option.some_ne_none _)
  rw [if_neg h6] at h
  by_cases h7 : op = 0x2B
  · rw [if_pos h7] at h; exact absurd h (Option.some_ne_none _)
  rw [if_neg h7] at h
  by_cases h8 : op = 0x2A
  · rw [if_pos h8] at h; exact absurd h (Option.some_ne_none _)
  rw [if_neg h8] at h
  by_cases h9 : op = 0x2C
  · rw [if_pos h9] at h; exact opDef_ne_none _ _ _ h
  rw [if_neg h9] at h
  by_cases h10 : op = 0x89
  · rw [if_pos h10] at h; exact opDef_ne_none _ _ _ h
  rw [if_neg h10] at h
  by_cases h11 : op = 0x2D
  · rw [if_pos h11] at h; exact absurd h (Option.some_ne_none _)
  rw [if_neg h11] at h
  by_cases h12 : isUnknownFor c.axisCount op = true
  · rw [if_pos h12] at h; exact absurd h (Option.some_ne_none _)
  rw [if_neg h12] at h
  exact absurd h (Option.some_ne_none _)

theorem dispatch_rel {D} {c : Cfg D} {s s2 : St D} {op : Nat} {ops : List Nat}
    (h : dispatch c s op ops = some (.ok s2)) : Rel c s s2 := by
  unfold dispatch at h
  by_cases h1 : op = 0x58
  · rw [if_pos h1] at h; exact opIf_rel h
  rw [if_neg h1] at h
  by_cases h2 : op = 0x1B
  · rw [if_pos h2] at h; exact opElse_rel h
  rw [if_neg h2] at h
  by_cases h3 : op = 0x59
  · rw [if_pos h3] at h
    have := Except.ok.inj (Option.some.inj h); subst this; exact Rel.refl c _
  rw [if_neg h3] at h
  by_cases h4 : op = 0x1C
  · rw [if_pos h4] at h; exact doJump_rel (Option.some.inj h)
  rw [if_neg h4] at h
  by_cases h5 : op = 0x78
  · rw [if_pos h5] at h; exact opJr_rel (Option.some.inj h)
  rw [if_neg h5] at h
  by_cases h6 : op = 0x79
  · rw [if_pos h6] at h; exact opJr_rel (Option.some.inj h)
  rw [if_neg h6] at h
  by_cases h7 : op = 0x2B
  · rw [if_pos h7] at h; exact opCall_rel (Option.some.inj h)
  rw [if_neg h7] at h
  by_cases h8 : op = 0x2A
  · rw [if_pos h8] at h; exact opLoopcall_rel (Option.some.inj h)
  rw [if_neg h8] at h
  by_cases h9 : op = 0x2C
  · rw [if_pos h9] at h; exact opDef_rel h
  rw [if_neg h9] at h
  by_cases h10 : op = 0x89
  · rw [if_pos h10] at h; exact opDef_rel h
  rw [if_neg h10] at h
  by_cases h11 : op = 0x2D
  · rw [if_pos h11] at h; exact leave_rel (Option.some.inj h)
  rw [if_neg h11] at h
  by_cases h12 : isUnknownFor c.axisCount op = true
  · rw [if_pos h12] at h; exact doCall_rel (Option.some.inj h)
  rw [if_neg h12] at h
  exact opData_rel (Option.some.inj h)

theorem step_halted {D} (c : Cfg D) (s : St D) (h : s.status ≠ .running) : step c s = s := by
  unfold step
  split
  · rename_i hr; exact absurd hr h
  · rfl

/-- everything one loop iteration of `run` can do to the control state -/
theorem step_running {D} (c : Cfg D) (s : St D) (hr : s.status = .running) :
    (step c s).status ≠ .stuck ∧ (step c s).initial = s.initial ∧ (CtlInv c s → CtlInv c (step c s)) ∧
    ((step c s).status = .running → (step c s).count = s.count + 1 ∧ (step c s).count ≤ MAX_RUN_INSTRUCTIONS) ∧
    (step c s).count ≤ s.count + 1 ∧ s.count ≤ (step c s).count := by
  unfold step
  simp only [hr]
  split
  · refine ⟨by simp, rfl, id, by simp, by simp, by simp⟩
  · refine ⟨by simp, rfl, id, by simp, by simp, by simp⟩
  · rename_i op ops ipc next hd
    split
    · rename_i hn; exact absurd hn (dispatch_ne_none _ _ _ _)
    · refine ⟨by simp, rfl, id, by simp, by simp, by simp⟩
    · rename_i s2 hs2
      have hrel := dispatch_rel hs2
      obtain ⟨hc, hst, hin, hinv⟩ := hrel
      simp only [] at hc hst hin
      have hinv' : CtlInv c s → CtlInv c s2 := fun h => hinv (by unfold CtlInv at *; exact h)
      split
      · refine ⟨by simp, hin, fun h => by have := hinv' h; unfold CtlInv at *; exact this, by simp, by simp; omega, by simp; omega⟩
      · rename_i hle
        refine ⟨by simp [hst], hin, fun h => by have := hinv' h; unfold CtlInv at *; exact this, ?_, by simp; omega, by simp; omega⟩
        intro _; simp; omega

/-- reachable-state invariant -/
def Good {D} (c : Cfg D) (s : St D) : Prop :=
  CtlInv c s ∧ s.status ≠ .stuck ∧ (s.status = .running → s.count ≤ MAX_RUN_INSTRUCTIONS) ∧
  s.count ≤ MAX_RUN_INSTRUCTIONS + 1

theorem step_good {D} (c : Cfg D) (s : St D) (h : Good c s) : Good c (step c s) := by
  by_cases hr : s.status = .running
  · obtain ⟨h1, h2, h3, h4, h5, h6⟩ := step_running c s hr
    obtain ⟨g1, g2, g3, g4⟩ := h
    have := g3 hr
    exact ⟨h3 g1, h1, fun hh => (h4 hh).2, by omega⟩
  · rw [step_halted c s hr]; exact h

theorem iter_good {D} (c : Cfg D) (n : Nat) (s : St D) (h : Good c s) : Good c (iter c n s) := by
  induction n generalizing s with
  | zero => exact h
  | succ n ih => exact ih _ (step_good c s h)

/-- while the machine is still running after `n` iterations, its counter has advanced by exactly `n` -/
theorem iter_running_count {D} (c : Cfg D) (n : Nat) (s : St D)
    (h : (iter c n s).status = .running) : (iter c n s).count = s.count + n ∧ s.status = .running := by
  induction n generalizing s with
  | zero => exact ⟨rfl, h⟩
  | succ n ih =>
    have ⟨h1, h2⟩ := ih (step c s) h
    by_cases hr : s.status = .running
    · have := (step_running c s hr).2.2.2.1 h2
      simp only [iter] at *
      exact ⟨by omega, hr⟩
    · rw [step_halted c s hr] at h2; exact absurd h2 hr
end FontVerif.InterpLemmas
