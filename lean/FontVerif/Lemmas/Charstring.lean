/-
C02 core 3 — lemmas about Model/Charstring.lean: the loops inside one operator make progress, one operator is a
bounded amount of work that keeps the operand-stack invariant, and the token loop consumes its input.
-/
import FontVerif.Model.Charstring
namespace FontVerif.CharstringLemmas
open FontVerif FontVerif.Charstring
set_option linter.unusedVariables false

/-! ## invariant of the operand stack -/

/-- at most `MAX_STACK` entries; every integer entry came from `parse_int` (16-bit range) -/
def Inv (st : St) : Prop :=
  st.stack.length ≤ 513 ∧ ∀ v : Int, some v ∈ st.stack → -32768 ≤ v ∧ v ≤ 32767

theorem inv_nil (st : St) (h : st.stack = []) : Inv st := by
  unfold Inv; rw [h]; simp

theorem bias_range (c : Nat) : 107 ≤ bias c ∧ bias c ≤ 32768 := by
  unfold bias; repeat' split
  all_goals omega

theorem wrapI16_range (x : Int) : -32768 ≤ wrapI16 x ∧ wrapI16 x ≤ 32767 := by
  unfold wrapI16; simp only []; split <;> omega

theorem parseInt_spec {b0 : Nat} {rest rest' : List Nat} {v : Int}
    (h : parseInt b0 rest = .ok (v, rest')) :
    -32768 ≤ v ∧ v ≤ 32767 ∧ rest'.length ≤ rest.length := by
  unfold parseInt at h
  split at h
  · simp at h
    obtain ⟨h1, h2⟩ := h
    subst h2
    refine ⟨by omega, by omega, Nat.le_refl _⟩
  · split at h
    · split at h
      · rename_i b1 r
        simp at h
        obtain ⟨h1, h2⟩ := h
        subst h2
        have : (↑(b1 % 256) : Int) < 256 := by omega
        refine ⟨by omega, by omega, by simp⟩
      · simp at h
    · split at h
      · split at h
        · rename_i b1 r
          simp at h
          obtain ⟨h1, h2⟩ := h
          subst h2
          have : (↑(b1 % 256) : Int) < 256 := by omega
          refine ⟨by omega, by omega, by simp⟩
        · simp at h
      · split at h
        · rename_i b1 b2 r
          simp only [Except.ok.injEq, Prod.mk.injEq] at h
          obtain ⟨h1, h2⟩ := h
          subst h2
          have := wrapI16_range (((b1 % 256) * 256 + b2 % 256 : Nat) : Int)
          rw [h1] at this
          refine ⟨this.1, this.2, by simp; omega⟩
        · simp at h

theorem readOperator_len {b0 : Nat} {rest rest' : List Nat} {op : Op}
    (h : readOperator b0 rest = .ok (op, rest')) : rest'.length ≤ rest.length := by
  unfold readOperator at h
  split at h
  · split at h
    · simp at h
    · split at h
      · simp at h; obtain ⟨_, h2⟩ := h; subst h2; simp
      · simp at h
  · split at h
    · simp at h; obtain ⟨_, h2⟩ := h; subst h2; exact Nat.le_refl _
    · simp at h

theorem popI32_spec {stack rest : List (Option Int)} {v : Int} (h : popI32 stack = .ok (v, rest)) :
    stack = some v :: rest := by
  unfold popI32 at h
  split at h <;> simp at h
  obtain ⟨h1, h2⟩ := h; subst h1; subst h2; rfl

theorem inv_pop {st : St} {v : Int} {rest : List (Option Int)} (hi : Inv st) (h : popI32 st.stack = .ok (v, rest)) :
    Inv { st with stack := rest } ∧ -32768 ≤ v ∧ v ≤ 32767 := by
  have hs := popI32_spec h
  unfold Inv at *
  rw [hs] at hi
  obtain ⟨h1, h2⟩ := hi
  refine ⟨⟨?_, ?_⟩, ?_⟩
  · simp at h1 ⊢; omega
  · intro w hw; exact h2 w (List.mem_cons_of_mem _ hw)
  · exact h2 v (List.mem_cons_self ..)

/-! ## loops inside one operator -/

/-- every loop body moves the index forward (below a bound) and emits at most one command per iteration:
    the loop needs at most `bound - ix` iterations and `out.length + (bound - ix)` never grows -/
theorem whileFuel_progress (body : LoopSt → Option (Except Err LoopSt)) (bound : Nat)
    (h : ∀ s s', body s = some (.ok s') → s.ix < bound ∧ s.ix < s'.ix ∧ s'.out.length ≤ s.out.length + 1) :
    ∀ fuel s, bound - s.ix < fuel →
      match whileFuel body fuel s with
      | .ok l => l.out.length + (bound - l.ix) ≤ s.out.length + (bound - s.ix)
      | .error .stuck => False
      | .error (.err _) => True := by
  intro fuel
  induction fuel with
  | zero => intro s hf; omega
  | succ f ih =>
    intro s hf
    unfold whileFuel
    cases hb : body s with
    | none => simp
    | some r =>
      cases r with
      | error e => simp
      | ok s' =>
        simp only []
        have ⟨h1, h2, h3⟩ := h s s' hb
        have := ih s' (by omega)
        revert this
        generalize whileFuel body f s' = r
        intro this
        match r, this with
        | .ok l, this => simp only [] at this ⊢; omega
        | .error .stuck, this => exact this
        | .error (.err e), _ => trivial

theorem getFixed_ok {i : Nat} {u : Unit} (h : getFixed i = .ok u) : i < 513 := by
  unfold getFixed MAX_STACK at h; split at h <;> simp_all

/-- `emit_curves`: consumes the sum of the modes and emits one curve per three modes -/
theorem emitCurves_ok : ∀ (modes : List Nat) (c : Nat) (s s' : LoopSt), c ≤ 2 →
    emitCurves modes c s = .ok s' →
    s'.ix = s.ix + modes.sum ∧ s'.out.length = s.out.length + (c + modes.length) / 3 := by
  intro modes
  induction modes with
  | nil => intro c s s' hc h; simp [emitCurves] at h; subst h; simp; omega
  | cons u ms ih =>
    intro c s s' hc h
    unfold emitCurves at h
    split at h
    · simp at h
    · split at h
      · simp at h
      · simp only [] at h
        split at h
        · rename_i hc2
          have := ih 0 _ s' (by omega) h
          simp at this ⊢
          omega
        · have := ih (c + 1) _ s' (by omega) h
          simp at this ⊢
          omega

theorem pairBody_progress (n kind : Nat) (s s' : LoopSt) (h : pairBody n kind s = some (.ok s')) :
    s.ix < n ∧ s.ix < s'.ix ∧ s'.out.length ≤ s.out.length + 1 := by
  unfold pairBody at h
  split at h
  · simp at h
    split at h
    · simp at h
    · simp at h; subst h; simp; omega
  · simp at h

theorem singleBody_progress (n : Nat) (s s' : LoopSt) (h : singleBody n s = some (.ok s')) :
    s.ix < n ∧ s.ix < s'.ix ∧ s'.out.length ≤ s.out.length + 1 := by
  unfold singleBody at h
  split at h
  · simp at h
    split at h
    · simp at h
    · simp at h; subst h; simp; omega
  · simp at h

theorem lineBody_progress (n : Nat) (s s' : LoopSt) (h : lineBody n s = some (.ok s')) :
    s.ix < n ∧ s.ix < s'.ix ∧ s'.out.length ≤ s.out.length + 1 := by
  unfold lineBody at h
  split at h
  · simp at h
    split at h
    · simp at h
    · simp at h; subst h; simp; omega
  · simp at h

theorem curveBody_progress (n need : Nat) (modes : List Nat) (hn : 1 ≤ need) (hm : modes.length = 3)
    (hs : 1 ≤ modes.sum) (s s' : LoopSt) (h : curveBody n need modes s = some (.ok s')) :
    s.ix < n ∧ s.ix < s'.ix ∧ s'.out.length ≤ s.out.length + 1 := by
  unfold curveBody at h
  split at h
  · simp at h
    have := emitCurves_ok modes 0 s s' (by omega) h
    rw [hm] at this
    omega
  · simp at h

theorem hvBody_progress (count : Nat) (s s' : LoopSt) (h : hvBody count s = some (.ok s')) :
    s.ix < count ∧ s.ix < s'.ix ∧ s'.out.length ≤ s.out.length + 1 := by
  unfold hvBody at h
  split at h
  · simp at h
    have := emitCurves_ok _ 0 s s' (by omega) h
    simp at this
    omega
  · simp at h

/-! ## one operator

`LocalOk st rest r`: what every operator other than a subroutine call does — it returns an error VALUE with the
state untouched, or consumes none or some of the remaining bytes, leaves a stack satisfying the invariant, and emits
at most 515 commands. -/

def LocalOk (st : St) (rest : List Nat) (r : OpRes) : Prop :=
  match r with
  | .ok (_, rest', st') =>
    rest'.length ≤ rest.length ∧ Inv st' ∧ st'.steps = st.steps ∧ st'.out.length ≤ st.out.length + 515
  | .error (f, stE) => (∃ e, f = .err e) ∧ stE = st

theorem finishOp_inv (st : St) (l : LoopSt) : Inv (finishOp st l) := inv_nil _ rfl

theorem opCurves_ok (modes : List Nat) (hm : modes.length ≤ 6) (rest : List Nat) (st : St) :
    LocalOk st rest (opCurves modes rest st) := by
  unfold opCurves
  split
  · exact ⟨⟨_, rfl⟩, rfl⟩
  · rename_i l hl
    have := emitCurves_ok modes 0 _ l (by omega) hl
    refine ⟨Nat.le_refl _, finishOp_inv _ _, rfl, ?_⟩
    simp [finishOp, St.loopSt] at this ⊢
    omega

theorem opVsindex_ok (b : Option VsLookup) (rest : List Nat) (st : St) (hi : Inv st) :
    LocalOk st rest (opVsindex b rest st) := by
  unfold opVsindex
  split
  · exact ⟨⟨_, rfl⟩, rfl⟩
  · split
    · exact ⟨⟨_, rfl⟩, rfl⟩
    · rename_i v stack hp
      have ⟨hi', _⟩ := inv_pop hi hp
      simp only []
      split
      · exact ⟨Nat.le_refl _, hi', rfl, by simp⟩
      · split
        · exact ⟨⟨_, rfl⟩, rfl⟩
        · exact ⟨Nat.le_refl _, hi', rfl, by simp⟩

theorem opBlend_ok (b : Option VsLookup) (rest : List Nat) (st : St) (hi : Inv st) :
    LocalOk st rest (opBlend b rest st) := by
  unfold opBlend
  split
  · exact ⟨⟨_, rfl⟩, rfl⟩
  · split
    · exact ⟨⟨_, rfl⟩, rfl⟩
    · rename_i v stack hp
      have ⟨hi', _⟩ := inv_pop hi hp
      split
      · exact ⟨⟨_, rfl⟩, rfl⟩
      · simp only []
        split
        · exact ⟨⟨_, rfl⟩, rfl⟩
        · rename_i hlen
          split
          · exact ⟨⟨_, rfl⟩, rfl⟩
          · refine ⟨Nat.le_refl _, ?_, rfl, by simp⟩
            unfold Inv at hi' ⊢
            obtain ⟨h1, h2⟩ := hi'
            simp only [] at h1 h2
            constructor
            · simp only [List.length_append, List.length_replicate, List.length_drop]
              generalize hr : st.regions = r at *
              have : v.toNat * (r + 1) = v.toNat * r + v.toNat := by rw [Nat.mul_succ]
              omega
            · intro w hw
              simp only [List.mem_append, List.mem_replicate] at hw
              rcases hw with hw | hw
              · simp at hw
              · exact h2 w (List.mem_of_mem_drop hw)

theorem opEndchar_ok (rest : List Nat) (st : St) (hi : Inv st) : LocalOk st rest (opEndchar rest st) := by
  unfold opEndchar
  simp only []
  refine ⟨Nat.le_refl _, ?_, ?_, ?_⟩
  · split <;> split <;> first | exact hi | exact inv_nil _ rfl
  · split <;> split <;> rfl
  · split <;> split <;> simp <;> omega

/-- shared by the operators that run one `whileFuel` loop over at most `n ≤ 513` entries and then reset the stack -/
theorem loop_then_finish (body : LoopSt → Option (Except Err LoopSt)) (bound n : Nat) (hb : bound ≤ n)
    (hp : ∀ s s', body s = some (.ok s') → s.ix < bound ∧ s.ix < s'.ix ∧ s'.out.length ≤ s.out.length + 1)
    (s : LoopSt) :
    match whileFuel body (n + 1) s with
    | .ok l => l.out.length ≤ s.out.length + n
    | .error .stuck => False
    | .error (.err _) => True := by
  have := whileFuel_progress body bound hp (n + 1) s (by omega)
  split at this
  · omega
  · exact this
  · trivial

theorem opStem_ok (kind : Nat) (rest : List Nat) (st : St) (hi : Inv st) : LocalOk st rest (opStem kind rest st) := by
  unfold opStem
  simp only []
  have := loop_then_finish (pairBody st.stack.length kind) _ _ (Nat.le_refl _) (pairBody_progress _ _)
    { ix := (stemStart st.stack.length st.haveWidth).1, out := st.out }
  split
  · rename_i f hf
    rw [hf] at this
    cases f with
    | stuck => exact this.elim
    | err e => exact ⟨⟨_, rfl⟩, rfl⟩
  · rename_i l hl
    rw [hl] at this
    refine ⟨Nat.le_refl _, finishOp_inv _ _, rfl, ?_⟩
    have := hi.1
    simp [finishOp] at *
    omega

theorem opMask_ok (isHint : Bool) (rest : List Nat) (st : St) (hi : Inv st) :
    LocalOk st rest (opMask isHint rest st) := by
  unfold opMask
  simp only []
  have := loop_then_finish (pairBody st.stack.length K_VSTEM) _ _ (Nat.le_refl _) (pairBody_progress _ _)
    { ix := (stemStart st.stack.length st.haveWidth).1, out := st.out }
  split
  · rename_i f hf
    rw [hf] at this
    cases f with
    | stuck => exact this.elim
    | err e => exact ⟨⟨_, rfl⟩, rfl⟩
  · rename_i l hl
    rw [hl] at this
    split
    · exact ⟨⟨_, rfl⟩, rfl⟩
    · refine ⟨by simp, finishOp_inv _ _, rfl, ?_⟩
      have := hi.1
      simp [finishOp] at *
      omega

theorem opMove_ok (rel : Bool) (rest : List Nat) (st : St) : LocalOk st rest (opMove rel rest st) := by
  unfold opMove
  simp only []
  split
  · exact ⟨⟨_, rfl⟩, rfl⟩
  · refine ⟨Nat.le_refl _, finishOp_inv _ _, rfl, ?_⟩
    simp [finishOp]
    split <;> simp <;> omega

theorem opRline_ok (rest : List Nat) (st : St) (hi : Inv st) : LocalOk st rest (opRline rest st) := by
  unfold opRline
  simp only []
  have := loop_then_finish (pairBody st.stack.length K_LINE) _ _ (Nat.le_refl _) (pairBody_progress _ _)
    { ix := 0, out := st.out }
  split
  · rename_i f hf
    rw [hf] at this
    cases f with
    | stuck => exact this.elim
    | err e => exact ⟨⟨_, rfl⟩, rfl⟩
  · rename_i l hl
    rw [hl] at this
    refine ⟨Nat.le_refl _, finishOp_inv _ _, rfl, ?_⟩
    have := hi.1
    simp [finishOp] at *
    omega

theorem opHVline_ok (rest : List Nat) (st : St) (hi : Inv st) : LocalOk st rest (opHVline rest st) := by
  unfold opHVline
  simp only []
  have := loop_then_finish (singleBody st.stack.length) _ _ (Nat.le_refl _) (singleBody_progress _)
    { ix := 0, out := st.out }
  split
  · rename_i f hf
    rw [hf] at this
    cases f with
    | stuck => exact this.elim
    | err e => exact ⟨⟨_, rfl⟩, rfl⟩
  · rename_i l hl
    rw [hl] at this
    refine ⟨Nat.le_refl _, finishOp_inv _ _, rfl, ?_⟩
    have := hi.1
    simp [finishOp] at *
    omega

theorem opHhVv_ok (need : Nat) (hn : 1 ≤ need) (rest : List Nat) (st : St) (hi : Inv st) :
    LocalOk st rest (opHhVv need rest st) := by
  have hgen : ∀ l0 : LoopSt, l0.out = st.out →
      LocalOk st rest (match whileFuel (curveBody st.stack.length need [1, 2, 1]) (st.stack.length + 1) l0 with
        | .error f => liftL st (.error f)
        | .ok l => .ok (true, rest, finishOp st l)) := by
    intro l0 hl0
    have := loop_then_finish (curveBody st.stack.length need [1, 2, 1]) _ _ (Nat.le_refl _)
      (curveBody_progress _ _ _ hn rfl (by simp)) l0
    split
    · rename_i f hf
      rw [hf] at this
      cases f with
      | stuck => exact this.elim
      | err e => exact ⟨⟨_, rfl⟩, rfl⟩
    · rename_i l hl
      rw [hl] at this
      refine ⟨Nat.le_refl _, finishOp_inv _ _, rfl, ?_⟩
      have := hi.1
      have := congrArg List.length hl0
      simp [finishOp] at *
      omega
  unfold opHhVv
  simp only []
  by_cases hodd : st.stack.length % 2 = 1
  · simp only [if_pos hodd]
    cases hg : getFixed 0 with
    | error e => exact ⟨⟨_, rfl⟩, rfl⟩
    | ok u => exact hgen { st.loopSt with ix := 1 } rfl
  · simp only [if_neg hodd]
    exact hgen st.loopSt rfl

theorem opHvVh_ok (rest : List Nat) (st : St) (hi : Inv st) : LocalOk st rest (opHvVh rest st) := by
  unfold opHvVh
  simp only []
  have := loop_then_finish (hvBody (if (st.stack.length / 2) % 2 = 1 then st.stack.length - 2 else st.stack.length))
    _ st.stack.length (by split <;> omega) (hvBody_progress _)
    { ix := st.stack.length - (if (st.stack.length / 2) % 2 = 1 then st.stack.length - 2 else st.stack.length),
      out := st.out }
  split
  · rename_i f hf
    rw [hf] at this
    cases f with
    | stuck => exact this.elim
    | err e => exact ⟨⟨_, rfl⟩, rfl⟩
  · rename_i l hl
    rw [hl] at this
    refine ⟨Nat.le_refl _, finishOp_inv _ _, rfl, ?_⟩
    have := hi.1
    simp [finishOp] at *
    omega

theorem opRrcurve_ok (thenLine : Bool) (rest : List Nat) (st : St) (hi : Inv st) :
    LocalOk st rest (opRrcurve thenLine rest st) := by
  unfold opRrcurve
  simp only []
  have := loop_then_finish (curveBody st.stack.length 6 [2, 2, 2]) _ _ (Nat.le_refl _)
    (curveBody_progress _ _ _ (by omega) rfl (by simp)) st.loopSt
  split
  · rename_i f hf
    rw [hf] at this
    cases f with
    | stuck => exact this.elim
    | err e => exact ⟨⟨_, rfl⟩, rfl⟩
  · rename_i l hl
    rw [hl] at this
    have := hi.1
    split
    · split
      · exact ⟨⟨_, rfl⟩, rfl⟩
      · refine ⟨Nat.le_refl _, finishOp_inv _ _, rfl, ?_⟩
        simp [finishOp, St.loopSt] at *
        omega
    · refine ⟨Nat.le_refl _, finishOp_inv _ _, rfl, ?_⟩
      simp [finishOp, St.loopSt] at *
      omega

theorem opRlinecurve_ok (rest : List Nat) (st : St) (hi : Inv st) : LocalOk st rest (opRlinecurve rest st) := by
  unfold opRlinecurve
  simp only []
  have := loop_then_finish (lineBody st.stack.length) _ _ (Nat.le_refl _) (lineBody_progress _) st.loopSt
  split
  · rename_i f hf
    rw [hf] at this
    cases f with
    | stuck => exact this.elim
    | err e => exact ⟨⟨_, rfl⟩, rfl⟩
  · rename_i l hl
    rw [hl] at this
    have := hi.1
    split
    · exact ⟨⟨_, rfl⟩, rfl⟩
    · rename_i l2 hl2
      have h2 := emitCurves_ok _ 0 l l2 (by omega) hl2
      refine ⟨Nat.le_refl _, finishOp_inv _ _, rfl, ?_⟩
      simp [finishOp, St.loopSt] at *
      omega

/-- the subroutine number never overflows `i32` for a stack that satisfies the invariant -/
theorem biasedIndex_some (v : Int) (c : Nat) (h : -32768 ≤ v ∧ v ≤ 32767) : ∃ k, biasedIndex v c = some k := by
  unfold biasedIndex
  have := bias_range c
  simp only []
  rw [if_neg (by omega)]
  exact ⟨_, rfl⟩

/-! ## operators, the token loop, `evaluate` -/

/-- `st'` is reachable from `st` with at most `C` more loop iterations, and at most 515 commands per iteration -/
def Within (C : Nat) (st st' : St) : Prop :=
  st.steps ≤ st'.steps ∧ st'.steps ≤ st.steps + C ∧ st'.out.length + 515 * st.steps ≤ st.out.length + 515 * st'.steps

/-- an evaluation result: `Ok` with the invariant, or an error VALUE (never `stuck`, never `panic`) -/
def EvalOk (C : Nat) (st : St) (r : Res St) : Prop :=
  match r with
  | .ok st' => Inv st' ∧ Within C st st'
  | .error (f, stE) => (∃ e, f = .err e) ∧ Within C st stE

def CalleeOk (M C : Nat) (callee : List Nat → St → Res St) : Prop :=
  ∀ data st, data.length ≤ M → Inv st → EvalOk C st (callee data st)

/-- every subroutine either index can return is at most `M` bytes long -/
def SubrsBounded (env : Env) (M : Nat) : Prop :=
  (∀ i d, env.gsubrs.get i = .ok d → d.length ≤ M) ∧
  (∀ idx, env.subrs = some idx → ∀ i d, idx.get i = .ok d → d.length ≤ M)

/-- one operator (the current loop iteration has already been counted in `st.steps`) -/
def OpOk (C : Nat) (st : St) (rest : List Nat) (r : OpRes) : Prop :=
  match r with
  | .ok (_, rest', st') =>
    rest'.length ≤ rest.length ∧ Inv st' ∧ st.steps ≤ st'.steps ∧ st'.steps ≤ st.steps + C ∧
      st'.out.length + 515 * st.steps ≤ st.out.length + 515 + 515 * st'.steps
  | .error (f, stE) =>
    (∃ e, f = .err e) ∧ st.steps ≤ stE.steps ∧ stE.steps ≤ st.steps + C ∧
      stE.out.length + 515 * st.steps ≤ st.out.length + 515 + 515 * stE.steps

theorem OpOk_of_local {C : Nat} {st : St} {rest : List Nat} {r : OpRes} (h : LocalOk st rest r) : OpOk C st rest r := by
  unfold LocalOk at h
  unfold OpOk
  split
  · rename_i c rest' st'
    simp only [] at h
    obtain ⟨h1, h2, h3, h4⟩ := h
    refine ⟨h1, h2, by omega, by omega, by omega⟩
  · rename_i f stE
    simp only [] at h
    obtain ⟨h1, h2⟩ := h
    subst h2
    refine ⟨h1, by omega, by omega, by omega⟩

theorem opCall_ok {M C : Nat} (idx : Option SubrIndex) (callee : List Nat → St → Res St) (rest : List Nat) (st : St)
    (hi : Inv st) (hc : CalleeOk M C callee)
    (hb : ∀ ix, idx = some ix → ∀ i d, ix.get i = .ok d → d.length ≤ M) :
    OpOk C st rest (opCall idx callee rest st) := by
  unfold opCall
  split
  · exact ⟨⟨_, rfl⟩, by omega, by omega, by omega⟩
  · rename_i ix
    split
    · exact ⟨⟨_, rfl⟩, by omega, by omega, by omega⟩
    · rename_i v stack hp
      have ⟨hi', hv⟩ := inv_pop hi hp
      have ⟨k, hk⟩ := biasedIndex_some v ix.count hv
      rw [hk]
      simp only []
      split
      · exact ⟨⟨_, rfl⟩, by omega, by omega, by omega⟩
      · rename_i data hd
        have hlen := hb ix rfl _ _ hd
        have := hc data { st with stack := stack } hlen hi'
        unfold EvalOk at this
        split
        · rename_i f hf
          rw [hf] at this
          obtain ⟨f, stE⟩ := f
          simp only [] at this
          obtain ⟨h1, h2, h3, h4⟩ := this
          simp only [] at h2 h3 h4
          exact ⟨h1, h2, h3, by omega⟩
        · rename_i st' hs
          rw [hs] at this
          simp only [] at this
          obtain ⟨h0, h2, h3, h4⟩ := this
          simp only [] at h2 h3 h4
          exact ⟨Nat.le_refl _, h0, h2, h3, by omega⟩

theorem evalOperator_ok {M C : Nat} (env : Env) (callee : List Nat → St → Res St) (op : Op) (rest : List Nat) (st : St)
    (hi : Inv st) (hc : CalleeOk M C callee) (hb : SubrsBounded env M) :
    OpOk C st rest (evalOperator env callee op rest st) := by
  unfold evalOperator
  cases op <;> simp only []
  case ret => exact ⟨Nat.le_refl _, hi, by omega, by omega, by omega⟩
  case callsubr => exact opCall_ok _ _ _ _ hi hc hb.2
  case callgsubr =>
    apply opCall_ok _ _ _ _ hi hc
    intro ix hix i d hd
    simp at hix; subst hix
    exact hb.1 i d hd
  all_goals apply OpOk_of_local
  case hstem => exact opStem_ok _ _ _ hi
  case vstem => exact opStem_ok _ _ _ hi
  case hstemhm => exact opStem_ok _ _ _ hi
  case vstemhm => exact opStem_ok _ _ _ hi
  case vmoveto => exact opMove_ok _ _ _
  case hmoveto => exact opMove_ok _ _ _
  case rmoveto => exact opMove_ok _ _ _
  case rlineto => exact opRline_ok _ _ hi
  case hlineto => exact opHVline_ok _ _ hi
  case vlineto => exact opHVline_ok _ _ hi
  case rrcurveto => exact opRrcurve_ok _ _ _ hi
  case rcurveline => exact opRrcurve_ok _ _ _ hi
  case endchar => exact opEndchar_ok _ _ hi
  case vsindex => exact opVsindex_ok _ _ _ hi
  case blend => exact opBlend_ok _ _ _ hi
  case hintmask => exact opMask_ok _ _ _ hi
  case cntrmask => exact opMask_ok _ _ _ hi
  case rlinecurve => exact opRlinecurve_ok _ _ hi
  case vvcurveto => exact opHhVv_ok _ (by omega) _ _ hi
  case hhcurveto => exact opHhVv_ok _ (by omega) _ _ hi
  case vhcurveto => exact opHvVh_ok _ _ hi
  case hvcurveto => exact opHvVh_ok _ _ hi
  case hflex => exact opCurves_ok _ (by simp) _ _
  case flex => exact opCurves_ok _ (by simp) _ _
  case hflex1 => exact opCurves_ok _ (by simp) _ _
  case flex1 => exact opCurves_ok _ (by simp) _ _

theorem push_spec (st : St) (v : Option Int) (hi : Inv st)
    (hv : ∀ w, v = some w → -32768 ≤ w ∧ w ≤ 32767) :
    match push st v with
    | .ok st' => Inv st' ∧ st'.steps = st.steps ∧ st'.out = st.out
    | .error (f, stE) => f = .err .stackOverflow ∧ stE = st := by
  unfold push MAX_STACK failE
  have := hi.1
  by_cases h1 : st.stack.length = 513
  · rw [if_pos h1]; exact ⟨rfl, rfl⟩
  · rw [if_neg h1, if_neg (by omega)]
    refine ⟨⟨by simp; omega, ?_⟩, rfl, rfl⟩
    intro w hw
    simp at hw
    rcases hw with hw | hw
    · exact hv w hw.symm
    · exact hi.2 w hw

theorem within_fail (st : St) (B : Nat) (h : 1 ≤ B) : Within B st { st with steps := st.steps + 1 } :=
  ⟨Nat.le_succ _, by show st.steps + 1 ≤ st.steps + B; omega,
   by show st.out.length + 515 * st.steps ≤ st.out.length + 515 * (st.steps + 1); omega⟩

theorem EvalOk_mono {C C' : Nat} {st : St} {r : Res St} (h : EvalOk C st r) (hc : C ≤ C') : EvalOk C' st r := by
  unfold EvalOk Within at *
  split <;> simp only [] at h ⊢
  · obtain ⟨h0, h1, h2, h3⟩ := h; exact ⟨h0, h1, by omega, h3⟩
  · obtain ⟨h0, h1, h2, h3⟩ := h; exact ⟨h0, h1, by omega, h3⟩

/-- continuing from `st2` (reached from `st` by one token worth `1 + C` iterations) -/
theorem EvalOk_step {C K rest rest' : Nat} {st st2 : St} {r : Res St}
    (hK : K = 1 + C) (hr : rest' ≤ rest)
    (h1 : st.steps + 1 ≤ st2.steps) (h2 : st2.steps ≤ st.steps + 1 + C)
    (h3 : st2.out.length + 515 * st.steps ≤ st.out.length + 515 * st2.steps)
    (h : EvalOk (rest' * K) st2 r) : EvalOk ((rest + 1) * K) st r := by
  have hm : rest' * K ≤ rest * K := Nat.mul_le_mul_right _ hr
  have hs : (rest + 1) * K = rest * K + K := Nat.succ_mul _ _
  generalize rest' * K = a at *
  generalize rest * K = b at *
  unfold EvalOk Within at *
  split <;> simp only [] at h ⊢
  · obtain ⟨h0, h4, h5, h6⟩ := h; exact ⟨h0, by omega, by omega, by omega⟩
  · obtain ⟨h0, h4, h5, h6⟩ := h; exact ⟨h0, by omega, by omega, by omega⟩

theorem loop_ok {M C : Nat} (env : Env) (callee : List Nat → St → Res St)
    (hc : CalleeOk M C callee) (hb : SubrsBounded env M) :
    ∀ (fuel : Nat) (bytes : List Nat) (st : St), bytes.length < fuel → Inv st →
      EvalOk (bytes.length * (1 + C)) st (loop env callee fuel bytes st) := by
  intro fuel
  induction fuel with
  | zero => intro bytes st h; omega
  | succ f ih =>
    intro bytes st hf hi
    cases bytes with
    | nil =>
      unfold loop
      exact ⟨hi, by omega, by omega, by omega⟩
    | cons b0 rest =>
      unfold loop
      simp only []
      have hi1 : Inv { st with steps := st.steps + 1 } := hi
      have hK : (rest.length + 1) * (1 + C) = rest.length * (1 + C) + (1 + C) := Nat.succ_mul _ _
      have hfail : ∀ e, EvalOk ((b0 :: rest).length * (1 + C)) st (failE { st with steps := st.steps + 1 } e) := by
        intro e
        simp only [List.length_cons]
        rw [hK]
        exact ⟨⟨_, rfl⟩, within_fail st _ (by omega)⟩
      split
      · -- integer operand
        split
        · exact hfail _
        · rename_i v rest' hp
          have ⟨hv1, hv2, hlen⟩ := parseInt_spec hp
          have hpush := push_spec { st with steps := st.steps + 1 } (some v) hi1
            (by intro w hw; simp at hw; subst hw; exact ⟨hv1, hv2⟩)
          split
          · rename_i f hf2
            rw [hf2] at hpush
            obtain ⟨f, stE⟩ := f
            simp only [] at hpush
            obtain ⟨h1, h2⟩ := hpush
            subst h1; subst h2
            exact hfail _
          · rename_i st2 hs2
            rw [hs2] at hpush
            simp only [] at hpush
            obtain ⟨hi2, hst, hout⟩ := hpush
            try simp only [] at hst hout
            have := ih rest' st2 (by simp at hf; omega) hi2
            simp only [List.length_cons]
            exact EvalOk_step rfl hlen (by omega) (by omega) (by have ho := congrArg List.length hout; (try simp only [] at ho hst ⊢); omega) this
      · split
        · -- 16.16 operand
          split
          · rename_i b1 b2 b3 b4 rest'
            have hpush := push_spec { st with steps := st.steps + 1 } none hi1 (by intro w hw; simp at hw)
            split
            · rename_i f hf2
              rw [hf2] at hpush
              obtain ⟨f, stE⟩ := f
              simp only [] at hpush
              obtain ⟨h1, h2⟩ := hpush
              subst h1; subst h2
              exact hfail _
            · rename_i st2 hs2
              rw [hs2] at hpush
              simp only [] at hpush
              obtain ⟨hi2, hst, hout⟩ := hpush
              try simp only [] at hst hout
              have := ih rest' st2 (by simp at hf; omega) hi2
              simp only [List.length_cons]
              refine EvalOk_step (rest := rest'.length + 4) rfl (by omega) (by omega) (by omega)
                (by have ho := congrArg List.length hout; (try simp only [] at ho hst ⊢); omega) this
          · exact hfail _
        · -- operator
          split
          · exact hfail _
          · rename_i op rest' hro
            have hlen := readOperator_len hro
            have hop := evalOperator_ok env callee op rest' { st with steps := st.steps + 1 } hi1 hc hb
            unfold OpOk at hop
            split
            · rename_i f hf2
              rw [hf2] at hop
              obtain ⟨f, stE⟩ := f
              simp only [] at hop
              obtain ⟨h0, h1, h2, h3⟩ := hop
              try simp only [] at h1 h2 h3
              simp only [List.length_cons]
              rw [hK]
              exact ⟨h0, by omega, by omega, by omega⟩
            · rename_i cont rest2 st2 hs2
              rw [hs2] at hop
              simp only [] at hop
              obtain ⟨hl2, hi2, h1, h2, h3⟩ := hop
              try simp only [] at h1 h2 h3
              split
              · have := ih rest2 st2 (by simp at hf; omega) hi2
                simp only [List.length_cons]
                exact EvalOk_step rfl (Nat.le_trans hl2 hlen) (by omega) (by omega) (by omega) this
              · simp only [List.length_cons]
                rw [hK]
                exact ⟨hi2, by omega, by omega, by omega⟩

/-- `maxSteps M levels`: iterations of the token loop available to an evaluation that may nest `levels` deep when no
    charstring or subroutine is longer than `M` bytes: `M + M² + … + M^levels` -/
def maxSteps (M : Nat) : Nat → Nat
  | 0 => 0
  | n + 1 => M * (1 + maxSteps M n)

theorem evalN_ok {M : Nat} (env : Env) (hb : SubrsBounded env M) :
    ∀ levels, CalleeOk M (maxSteps M levels) (evalN env levels) := by
  intro levels
  induction levels with
  | zero =>
    intro data st hl hi
    unfold evalN
    exact ⟨⟨_, rfl⟩, by omega, by omega, by omega⟩
  | succ n ih =>
    intro data st hl hi
    unfold evalN
    have := loop_ok env (evalN env n) ih hb (data.length + 1) data st (by omega) hi
    apply EvalOk_mono this
    show data.length * (1 + maxSteps M n) ≤ M * (1 + maxSteps M n)
    exact Nat.mul_le_mul_right _ hl

end FontVerif.CharstringLemmas
