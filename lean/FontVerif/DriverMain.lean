/-
Shared main loop of the per-property line-protocol drivers.
One request per line: `<cmd> <args…>`; one response line per request.
Unknown or malformed requests answer `bad-op` (never a default value).
-/
namespace FontVerif

abbrev Handler := String → List String → Option String

def dispatch (handlers : List Handler) (cmd : String) (args : List String) : String :=
  match handlers with
  | [] => "bad-op"
  | h :: hs => match h cmd args with
    | some r => r
    | none => dispatch hs cmd args

partial def driverLoop (handlers : List Handler) (h : IO.FS.Stream) (out : IO.FS.Stream) : IO Unit := do
  let line ← h.getLine
  if line.isEmpty then
    out.flush
    return ()
  let toks := (line.trimAscii.toString.splitOn " ").filter (· ≠ "")
  match toks with
  | [] => out.putStrLn "bad-op"
  | cmd :: args => out.putStrLn (dispatch handlers cmd args)
  driverLoop handlers h out

def driverMain (handlers : List Handler) : IO Unit := do
  let stdin ← IO.getStdin
  let stdout ← IO.getStdout
  driverLoop handlers stdin stdout

end FontVerif
