/- line-protocol handlers for the C11 models (Model/Tent, Normalize, Ivs, Metrics) -/
import FontVerif.Model.Base
import FontVerif.Model.Fixed
import FontVerif.Model.Tent
import FontVerif.Model.Normalize
import FontVerif.Model.Ivs
import FontVerif.Model.Metrics
import FontVerif.Model.Ieee
import FontVerif.Model.IeeeArith
import FontVerif.Model.FixedConv
import FontVerif.Model.FloatDelta
namespace FontVerif.Drv.C11
open FontVerif

/-! small token-stream parser (every structure is length-prefixed) -/

abbrev P (α : Type) := List Int → Option (α × List Int)

def pInt : P Int
  | x :: r => some (x, r)
  | [] => none

def pNat : P Nat
  | x :: r => if x < 0 then none else some (x.toNat, r)
  | [] => none

def pMany {α} (p : P α) : Nat → P (List α)
  | 0, r => some ([], r)
  | n + 1, r => match p r with
    | none => none
    | some (a, r) => match pMany p n r with
      | none => none
      | some (as, r) => some (a :: as, r)

/-- `<k> item*k` -/
def pList {α} (p : P α) : P (List α) := fun r =>
  match pNat r with
  | none => none
  | some (k, r) => pMany p k r

def pPairNI : P (Nat × Int) := fun r =>
  match pNat r with
  | none => none
  | some (a, r) => match pInt r with
    | none => none
    | some (b, r) => some ((a, b), r)

def pPairII : P (Int × Int) := fun r =>
  match pInt r with
  | none => none
  | some (a, r) => match pInt r with
    | none => none
    | some (b, r) => some ((a, b), r)

def pTriple : P (Int × Int × Int) := fun r =>
  match r with
  | a :: b :: c :: r => some ((a, b, c), r)
  | _ => none

/-- member of an encoding: `<id> <k> (region delta)*k` -/
def pMember : P (List (Nat × Int) × Nat) := fun r =>
  match pNat r with
  | none => none
  | some (id, r) => match pList pPairNI r with
    | none => none
    | some (ds, r) => some ((ds, id), r)

def showSub : Option Tent.SubTable → String
  | none => "null"
  | some st => s!"{st.itemCount},{st.wordDeltaCount},{joinNats st.regionIndexes},{toHex st.data}"

def showBuilt (b : Ivs.Built) : String :=
  let subs := ";".intercalate (b.subtables.map showSub)
  let remap := " ".intercalate (b.remap.map fun t => s!"{t.1}:{t.2.1}:{t.2.2}")
  s!"subs={subs}|remap={remap}|used={joinNats b.usedRegions}"

def showDelta : Tent.DeltaResult → String
  | .ok v => toString v
  | .err => "err"

/-- a store: `<nRegions> { <nAxes> (s p e)* }* <nSub> { 0 | 1 itemCount wdc <k> ri* <hex-as-bytes k> b* }*`
(bytes as decimal ints, length-prefixed) -/
def pSub : P (Option Tent.SubTable) := fun r =>
  match pNat r with
  | some (0, r) => some (none, r)
  | some (1, r) =>
    match pNat r with
    | none => none
    | some (ic, r) => match pNat r with
      | none => none
      | some (wdc, r) => match pList pNat r with
        | none => none
        | some (ris, r) => match pList pNat r with
          | none => none
          | some (bytes, r) =>
            some (some { itemCount := ic, wordDeltaCount := wdc, regionIndexes := ris, data := bytes }, r)
  | _ => none

def optNat : Option Int → String
  | none => "none"
  | some v => toString v

def handleInts (cmd : String) (xs : List Int) : Option String :=
  match cmd, xs with
  | "ivs.forval", [v] => some (toString (Ivs.forVal v))
  | "ivs.shape", _ =>
    match pNat xs with
    | some (n, r) => match pList pPairNI r with
      | some (ds, []) => some (joinNats (Ivs.reuse ds n))
      | _ => none
    | none => none
  | "ivs.merge", _ =>
    match pList pNat xs with
    | some (a, r) => match pList pNat r with
      | some (b, []) => some (s!"{joinNats (Ivs.merge a b)} | {Ivs.canCover a b}")
      | _ => none
    | none => none
  | "ivs.regionmap", _ =>
    match pList pNat xs with
    | some (s, []) => some (s!"{joinNats (Ivs.indices s)} | {Ivs.wordDeltaCount s} | {Ivs.nActive s} {Ivs.nLong s} {Ivs.longWords s} | {Ivs.rowCost s}")
    | _ => none
  | "ivs.encrow", _ =>
    -- shape, dense row
    match pList pNat xs with
    | some (s, r) => match pList pInt r with
      | some (row, []) => some (toHex (Ivs.encodeRow s row))
      | _ => none
    | none => none
  | "ivs.cmp", _ =>
    match pList pPairNI xs with
    | some (a, r) => match pList pPairNI r with
      | some (b, []) => some (match Ivs.deltaSetCmp a b with | .lt => "lt" | .eq => "eq" | .gt => "gt")
      | _ => none
    | none => none
  | "ivs.norm", _ =>
    match pList pPairNI xs with
    | some (a, []) => some (" ".intercalate ((Ivs.normalizeDeltaSet a).map fun p => s!"{p.1}:{p.2}") |> fun s => if s.isEmpty then "-" else s)
    | _ => none
  | "ivs.build", _ =>
    -- nRegions, groups: <g> { <m> member*m }*g
    match pNat xs with
    | some (n, r) => match pList (pList pMember) r with
      | some (groups, []) => some (showBuilt (Ivs.buildOptimized n groups))
      | _ => none
    | none => none
  | "ivs.addall", _ =>
    -- `<k> set*k`: temporary ids returned by add_deltas on the de-duplicating builder
    match pList (pList pPairNI) xs with
    | some (sets, []) => some (joinNats (Ivs.addAllDedup [] sets).2)
    | _ => none
  | "ivs.direct", _ =>
    match pNat xs with
    | some (n, r) => match pList (pList pPairNI) r with
      | some (sets, []) => some (showBuilt (Ivs.buildDirect n sets))
      | _ => none
    | none => none
  | "ivs.deltaset", _ =>
    -- wdc regionCount inner bytes
    match xs with
    | wdc :: rc :: inner :: r =>
      if wdc < 0 ∨ rc < 0 ∨ inner < 0 then none else
      match pList pNat r with
      | some (bytes, []) => some (joinInts (Tent.deltaSet wdc.toNat rc.toNat bytes inner.toNat))
      | _ => none
    | _ => none
  | "ivs.rowlen", [wdc, rc] =>
    if wdc < 0 ∨ rc < 0 then none else some (toString (Tent.deltaRowLen wdc.toNat rc.toNat))
  | "tent.scalar", _ =>
    match pList pTriple xs with
    | some (axes, r) => match pList pInt r with
      | some (coords, []) => some (toString (Tent.computeScalar axes coords))
      | _ => none
    | none => none
  | "tent.round", [acc] => some (toString (Tent.roundAccum acc))
  | "ivs.delta", _ =>
    match pList (pList pTriple) xs with
    | some (regions, r) => match pList pSub r with
      | some (subs, r) => match r with
        | outer :: inner :: r =>
          if outer < 0 ∨ inner < 0 then none else
          match pList pInt r with
          | some (coords, []) => some (showDelta (Tent.computeDelta regions subs outer.toNat inner.toNat coords))
          | _ => none
        | _ => none
      | none => none
    | none => none
  | "dsim.get", _ =>
    match xs with
    | fmt :: cnt :: idx :: r =>
      if fmt < 0 ∨ cnt < 0 ∨ idx < 0 then none else
      match pList pNat r with
      | some (bytes, []) => some (match Tent.dsimGet fmt.toNat cnt.toNat bytes idx.toNat with
          | some (o, i) => s!"{o} {i}"
          | none => "err")
      | _ => none
    | _ => none
  | "dsim.pack", _ =>
    match pList pNat xs with
    | some (m, []) => let p := Ivs.packMap m; some s!"{p.1} {p.2.1} {toHex p.2.2}"
    | _ => none
  | "norm.axis", [mn, df, mx, v] => some (toString (Normalize.normalize mn df mx v))
  | "avar.apply", _ =>
    match pList pPairII xs with
    | some (maps, [c]) => some (toString (Normalize.avarApply maps c))
    | _ => none
  | "norm.user", _ =>
    -- min def max value hasMap [maps]
    match xs with
    | mn :: df :: mx :: v :: 0 :: [] => some (toString (Normalize.userToNormalized mn df mx none v))
    | mn :: df :: mx :: v :: 1 :: r =>
      match pList pPairII r with
      | some (maps, []) => some (toString (Normalize.userToNormalized mn df mx (some maps) v))
      | _ => none
    | _ => none
  | "met.adv", _ =>
    -- glyphCount gid hasAdvDelta advDelta hasLsbDelta lsbDelta <k> (adv lsb)* <k> lsb*
    -- response: advance and lsb after the unscaled FixedScaleFactor (0x10000 * 64), as 16.16 bits
    match xs with
    | gc :: gid :: ha :: da :: hl :: dl :: r =>
      if gc < 0 ∨ gid < 0 then none else
      match pList pPairII r with
      | some (hm, r) => match pList pInt r with
        | some (lsbs, []) =>
          let adv := (Metrics.advanceUnits gc.toNat hm gid.toNat (if ha = 1 then some da else none)).map (Metrics.applyScale 4194304)
          let lsb := (Metrics.lsbUnits gc.toNat hm lsbs gid.toNat (if hl = 1 then some dl else none)).map (Metrics.applyScale 4194304)
          some s!"{optNat adv} {optNat lsb}"
        | _ => none
      | none => none
    | _ => none
  | "met.scaled", [ppem64, upem, base, delta] =>
    -- Size::fixed_linear_scale: Fixed(ppem*64) / Fixed(upem); then apply to base + delta
    let scale := if upem > 0 then Fixed.div ppem64 upem else 4194304
    some (toString (Metrics.applyScale scale (base + Metrics.deltaInt delta)))
  | "met.scale", [sc, v] => some (toString (Metrics.applyScale sc v))
  | _, _ => none

/-! handlers for the settings loop, avar 2 and the f32 / f64 path (Model/FloatDelta.lean) -/

def pAxisRec : P Normalize.AxisRec := fun r =>
  match r with
  | t :: a :: b :: c :: r => if t < 0 then none else some (⟨t.toNat, a, b, c⟩, r)
  | _ => none

def pStore : P (List (List (Int × Int × Int)) × List (Option Tent.SubTable)) := fun r =>
  match pList (pList pTriple) r with
  | none => none
  | some (regions, r) => match pList pSub r with
    | none => none
    | some (subs, r) => some ((regions, subs), r)

/-- `0` | `1 <x>` -/
def pOpt {α} (p : P α) : P (Option α) := fun r =>
  match r with
  | 0 :: r => some (none, r)
  | 1 :: r => match p r with
    | some (a, r) => some (some a, r)
    | none => none
  | _ => none

def pDsim : P (Nat × Nat × List Nat) := fun r =>
  match pNat r with
  | none => none
  | some (fmt, r) => match pNat r with
    | none => none
    | some (cnt, r) => match pList pNat r with
      | none => none
      | some (bytes, r) => some ((fmt, cnt, bytes), r)

def pAvar2 : P FloatDelta.Avar2 := fun r =>
  match pOpt pDsim r with
  | none => none
  | some (m, r) => match pOpt pStore r with
    | none => none
    | some (st, r) => some (⟨m, st⟩, r)

def showOptF : Option Ieee.FVal → String
  | none => "err"
  | some v => v.show

def handleInts2 (cmd : String) (xs : List Int) : Option String :=
  match cmd with
  | "norm.all" =>
    -- <nAxes> {tag min def max}* <0 | 1 <nMaps> {<k> (f t)*}*> <0 | 1 avar2> <nSettings> {tag value}* <outLen>
    match pList pAxisRec xs with
    | none => none
    | some (axes, r) => match pOpt (pList (pList pPairII)) r with
      | none => none
      | some (maps, r) => match pOpt pAvar2 r with
        | none => none
        | some (a2, r) => match pList pPairNI r with
          | none => none
          | some (settings, r) => match r with
            | [n] => if n < 0 then none else
              some (joinInts (FloatDelta.userToNormalizedFull axes maps a2 settings n.toNat))
            | _ => none
  | "f32.scalar" =>
    match pList pTriple xs with
    | some (axes, r) => match pList pInt r with
      | some (coords, []) => some (FloatDelta.computeScalarF32 axes coords).show
      | _ => none
    | none => none
  | "f32.delta" =>
    match pStore xs with
    | some ((regions, subs), r) => match r with
      | outer :: inner :: r =>
        if outer < 0 ∨ inner < 0 then none else
        match pList pInt r with
        | some (coords, []) =>
          some (showOptF (FloatDelta.computeFloatDelta regions subs outer.toNat inner.toNat coords))
        | _ => none
      | _ => none
    | none => none
  | "f32.apply" =>
    -- kind (0 F2Dot14, 1 Fixed, 2 FWord/UfWord) raw <f64 bits of the delta>
    match xs with
    | [kind, raw, bits] =>
      if bits < 0 then none else
      let d := Ieee.decode Ieee.f64 bits.toNat
      if kind = 0 then some (FloatDelta.applyF2Dot14 raw d).show
      else if kind = 1 then some (FloatDelta.applyFixed raw d).show
      else if kind = 2 then some (FloatDelta.applyWord raw d).show
      else none
    | _ => none
  | "f32.op" =>
    -- op (0 mul32, 1 div32, 2 mul64, 3 div64, 4 cvt→f32 of an f64, 5 cvt→f64 of an f32) a b (bit patterns)
    match xs with
    | [op, a, b] =>
      if a < 0 ∨ b < 0 then none else
      let d32 := Ieee.decode Ieee.f32
      let d64 := Ieee.decode Ieee.f64
      if op = 0 then some (toString (Ieee.encode Ieee.f32 (Ieee.mul Ieee.f32 (d32 a.toNat) (d32 b.toNat))))
      else if op = 1 then some (toString (Ieee.encode Ieee.f32 (Ieee.div Ieee.f32 (d32 a.toNat) (d32 b.toNat))))
      else if op = 2 then some (toString (Ieee.encode Ieee.f64 (Ieee.mul Ieee.f64 (d64 a.toNat) (d64 b.toNat))))
      else if op = 3 then some (toString (Ieee.encode Ieee.f64 (Ieee.div Ieee.f64 (d64 a.toNat) (d64 b.toNat))))
      else if op = 4 then some (toString (Ieee.encode Ieee.f32 (Ieee.cvt Ieee.f32 (d64 a.toNat))))
      else if op = 5 then some (toString (Ieee.encode Ieee.f64 (Ieee.cvt Ieee.f64 (d32 a.toNat))))
      else none
    | _ => none
  | _ => none

def handle (cmd : String) (args : List String) : Option String :=
  match parseInts? args with
  | none => none
  | some xs =>
    match handleInts cmd xs with
    | some r => some r
    | none => handleInts2 cmd xs

end FontVerif.Drv.C11
