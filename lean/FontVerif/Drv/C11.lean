/- line-protocol handlers for the C11 models (Model/Tent, Normalize, Ivs, Metrics) -/
import FontVerif.Model.Base
import FontVerif.Model.Fixed
import FontVerif.Model.Tent
import FontVerif.Model.Normalize
import FontVerif.Model.Ivs
import FontVerif.Model.Metrics
import FontVerif.Model.Ieee
import FontVerif.Model.IeeeArith
import FontVerif.Model.FixedConv
import FontVerif.Model.FloatDelta
namespace FontVerif.Drv.C11
open FontVerif

/-! small token-stream parser (every structure is length-prefixed) -/

abbrev P (α : Type) := List Int → Option (α × List Int)

def pInt : P Int
  | x :: r => some (x, r)
  | [] => none

def pNat : P Nat
  | x :: r => if x < 0 then none else some (x.toNat, r)
  | [] => none

def pMany {α} (p : P α) : Nat → P (List α)
  | 0, r => some ([], r)
  | n + 1, r => match p r with
    | none => none
    | some (a, r) => match pMany p n r with
      | none => none
      | some (as, r) => some (a :: as, r)

/-- `<k> item*k` -/
def pList {α} (p : P α) : P (List α) := fun r =>
  match pNat r with
  | none => none
  | some (k, r) => pMany p k r

def pPairNI : P (Nat × Int) := fun r =>
  match pNat r with
  | none => none
  | some (a, r) => match pInt r with
    | none => none
    | some (b, r) => some ((a, b), r)

def pPairII : P (Int × Int) := fun r =>
  match pInt r with
  | none => none
  | some (a, r) => match pInt r with
    | none => none
    | some (b, r) => some ((a, b), r)

def pTriple : P (Int × Int × Int) := fun r =>
  match r with
  | a :: b :: c :: r => some ((a, b, c), r)
  | _ => none

/-- member of an encoding: `<id> <k> (region delta)*k` -/
def pMember : P (List (Nat × Int) × Nat) := fun r =>
  match pNat r with
  | none => none
  | some (id, r) => match pList pPairNI r with
    | none => none
    | some (ds, r) => some ((ds, id), r)

def showSub : Option Tent.SubTable → String
  | none => "null"
  | some st => s!"{st.itemCount},{st.wordDeltaCount},{joinNats st.regionIndexes},{toHex st.data}"

def showBuilt (b : Ivs.Built) : String :=
  let subs := ";".intercalate (b.subtables.map showSub)
  let remap := " ".intercalate (b.remap.map fun t => s!"{t.1}:{t.2.1}:{t.2.2}")
  s!"subs={subs}|remap={remap}|used={joinNats b.usedRegions}"

def showDelta : Tent.DeltaResult → String
  | .ok v => toString v
  | .err => "err"

/-- a store: `<nRegions> { <nAxes> (s p e)* }* <nSub> { 0 | 1 itemCount wdc <k> ri* <hex-as-bytes k> b* }*`
(bytes as decimal ints, length-prefixed) -/
def pSub : P (Option Tent.SubTable) := fun r =>
  match pNat r with
  | some (0, r) => some (none, r)
  | some (1, r) =>
    match pNat r with
    | none => none
    | some (ic, r) => match pNat r with
      | none => none
      | some (wdc, r) => match pList pNat r with
        | none => none
        | some (ris, r) => match pList pNat r with
          | none => none
          | some (bytes, r) =>
            some (some { itemCount := ic, wordDeltaCount := wdc, regionIndexes := ris, data := bytes }, r)
  | _ => none

def optNat : Option Int → String
  | none => "none"
  | some v => toString v

def handleInts (cmd : String) (xs : List Int) : Option String :=
  match cmd, xs with
  | "ivs.forval", [v] => some (toString (Ivs.forVal v))
  | "ivs.shape", _ =>
    match pNat xs with
    | some (n, r) => match pList pPairNI r with
      | some (ds, []) => some (joinNats (Ivs.reuse ds n))
      | _ => none
    | none => none
  | "ivs.merge", _ =>
    match pList pNat xs with
    | some (a, r) => match pList pNat r with
      | some (b, []) => some (s!"{joinNats (Ivs.merge a b)} | {Ivs.canCover a b}")
      | _ => none
    | none => none
  | "ivs.regionmap", _ =>
    match pList pNat xs with
    | some (s, []) => some (s!"{joinNats (Ivs.indices s)} | {Ivs.wordDeltaCount s} | {Ivs.nActive s} {Ivs.nLong s} {Ivs.longWords s} | {Ivs.rowCost s}")
    | _ => none
  | "ivs.encrow", _ =>
    -- shape, dense row
    match pList pNat xs with
    | some (s, r) => match pList pInt r with
      | some (row, []) => some (toHex (Ivs.encodeRow s row))
      | _ => none
    | none => none
  | "ivs.cmp", _ =>
    match pList pPairNI xs with
    | some (a, r) => match pList pPairNI r with
      | some (b, []) => some (match Ivs.deltaSetCmp a b with | .lt => "lt" | .eq => "eq" | .gt => "gt")
      | _ => none
    | none => none
  | "ivs.norm", _ =>
    match pList pPairNI xs with
    | some (a, []) => some (" ".intercalate ((Ivs.normalizeDeltaSet a).map fun p => s!"{p.1}:{p.2}") |> fun s => if s.isEmpty then "-" else s)
    | _ => none
  | "ivs.build", _ =>
    -- nRegions, groups: <g> { <m> member*m }*g
    match pNat xs with
    | some (n, r) => match pList (pList pMember) r with
      | some (groups, []) => some (showBuilt (Ivs.buildOptimized n groups))
      | _ => none
    | none => none
  | "ivs.addall", _ =>
    -- `<k> set*k`: temporary ids returned by add_deltas on the de-duplicating builder
    match pList (pList pPairNI) xs with
    | some (sets, []) => some (joinNats (Ivs.addAllDedup [] sets).2)
    | _ => none
  | "ivs.direct", _ =>
    match pNat xs with
    | some (n, r) => match pList (pList pPairNI) r with
      | some (sets, []) => some (showBuilt (Ivs.buildDirect n sets))
      | _ => none
    | none => none
  | "ivs.deltaset", _ =>
    -- wdc regionCount inner bytes
    match xs with
    | wdc :: rc :: inner :: r =>
      if wdc < 0 ∨ rc < 0 ∨ inner < 0 then none else
      match pList pNat r with
      | some (bytes, []) => some (joinInts (Tent.deltaSet wdc.toNat rc.toNat bytes inner.toNat))
      | _ => none
    | _ => none
  | "ivs.rowlen", [wdc, rc] =>
    if wdc < 0 ∨ rc < 0 then none else some (toString (Tent.deltaRowLen wdc.toNat rc.toNat))
  | "tent.scalar", _ =>
    match pList pTriple xs with
    | some (axes, r) => match pList pInt r with
      | some (coords, []) => some (toString (Tent.computeScalar axes coords))
      | _ => none
    | none => none
  | "tent.round", [acc] => some (toString (Tent.roundAccum acc))
  | "ivs.delta", _ =>
    match pList (pList pTriple) xs with
    | some (regions, r) => match pList pSub r with
      | some (subs, r) => match r with
        | outer :: inner :: r =>
          if outer < 0 ∨ inner < 0 then none else
          match pList pInt r with
          | some (coords, []) => some (showDelta (Tent.computeDelta regions subs outer.toNat inner.toNat coords))
          | _ => none
        | _ => none
      | none => none
    | none => none
  | "dsim.get", _ =>
    match xs with
    | fmt :: cnt :: idx :: r =>
      if fmt < 0 ∨ cnt < 0 ∨ idx < 0 then none else
      match pList pNat r with
      | some (bytes, []) => some (match Tent.dsimGet fmt.toNat cnt.toNat bytes idx.toNat with
          | some (o, i) => s!"{o} {i}"
          | none => "err")
      | _ => none
    | _ => none
  | "dsim.pack", _ =>
    match pList pNat xs with
    | some (m, []) => let p := Ivs.packMap m; some s!"{p.1} {p.2.1} {toHex p.2.2}"
    | _ => none
  | "norm.axis", [mn, df, mx, v] => some (toString (Normalize.normalize mn df mx v))
  | "avar.apply", _ =>
    match pList pPairII xs with
    | some (maps, [c]) => some (toString (Normalize.avarApply maps c))
    | _ => none
  | "norm.user", _ =>
    -- min def max value hasMap [maps]
    match xs with
    | mn :: df :: mx :: v :: 0 :: [] => some (toString (Normalize.userToNormalized mn df mx none v))
    | mn :: df :: mx :: v :: 1 :: r =>
      match pList pPairII r with
      | some (maps, []) => some (toString (Normalize.userToNormalized mn df mx (some maps) v))
      | _ => none
    | _ => none
  | "met.adv", _ =>
    -- glyphCount gid hasAdvDelta advDelta hasLsbDelta lsbDelta <k> (adv lsb)* <k> lsb*
    -- response: advance and lsb after the unscaled FixedScaleFactor (0x10000 * 64), as 16.16 bits
    match xs with
    | gc :: gid :: ha :: da :: hl :: dl :: r =>
      if gc < 0 ∨ gid < 0 then none else
      match pList pPairII r with
      | some (hm, r) => match pList pInt r with
        | some (lsbs, []) =>
          let adv := (Metrics.advanceUnits gc.toNat hm gid.toNat (if ha = 1 then some da else none)).map (Metrics.applyScale 4194304)
          let lsb := (Metrics.lsbUnits gc.toNat hm lsbs gid.toNat (if hl = 1 then some dl else none)).map (Metrics.applyScale 4194304)
          some s!"{optNat adv} {optNat lsb}"
        | _ => none
      | none => none
    | _ => none
  | "met.scaled", [ppem64, upem, base, delta] =>
    -- Size::fixed_linear_scale: Fixed(ppem*64) / Fixed(upem); then apply to base + delta
    let scale := if upem > 0 then Fixed.div ppem64 upem else 4194304
    some (toString (Metrics.applyScale scale (base + Metrics.deltaInt delta)))
  | "met.scale", [sc, v] => some (toString (Metrics.applyScale sc v))
  | _, _ => none

/-! handlers for the settings loop, avar 2 and the f32 / f64 path (Model/FloatDelta.lean) -/

def pAxisRec : P Normalize.AxisRec := fun r =>
  match r with
  | t :: a :: b :: c :: r => if t < 0 then none else some (⟨t.toNat, a, b, c⟩, r)
  | _ => none

def pStore : P (List (List (Int × Int × Int)) × List (Option Tent.SubTable)) := fun r =>
  match pList (pList pTriple) r with
  | none => none
  | some (regions, r) => match pList pSub r with
    | none => none
    | some (subs, r) => some ((regions, subs), r)

/-- `0` | `1 <x>` -/
def pOpt {α} (p : P α) : P (Option α) := fun r =>
  match r with
  | 0 :: r => some (none, r)
  | 1 :: r => match p r with
    | some (a, r) => some (some a, r)
    | none => none
  | _ => none

def pDsim : P (Nat × Nat × List Nat) := fun r =>
  match pNat r with
  | none => none
  | some (fmt, r) => match pNat r with
    | none => none
    | some (cnt, r) => match pList pNat r with
      | none => none
      | some (bytes, r) => some ((fmt, cnt, bytes), r)

def pAvar2 : P FloatDelta.Avar2 := fun r =>
  match pOpt pDsim r with
  | none => none
  | some (m, r) => match pOpt pStore r with
    | none => none
    | some (st, r) => some (⟨m, st⟩, r)

def showOptF : Option Ieee.FVal → String
  | none => "err"
  | some v => v.show

def handleInts2 (cmd : String) (xs : List Int) : Option String :=
  match cmd with
  | "norm.all" =>
    -- <nAxes> {tag min def max}* <0 | 1 <nMaps> {<k> (f t)*}*> <0 | 1 avar2> <nSettings> {tag value}* <outLen>
    match pList pAxisRec xs with
    | none => none
    | some (axes, r) => match pOpt (pList (pList pPairII)) r with
      | none => none
      | some (maps, r) => match pOpt pAvar2 r with
        | none => none
        | some (a2, r) => match pList pPairNI r with
          | none => none
          | some (settings, r) => match r with
            | [n] => if n < 0 then none else
              some (joinInts (FloatDelta.userToNormalizedFull axes maps a2 settings n.toNat))
            | _ => none
  | "f32.scalar" =>
    match pList pTriple xs with
    | some (axes, r) => match pList pInt r with
      | some (coords, []) => some (FloatDelta.computeScalarF32 axes coords).show
      | _ => none
    | none => none
  | "f32.delta" =>
    match pStore xs with
    | some ((regions, subs), r) => match r with
      | outer :: inner :: r =>
        if outer < 0 ∨ inner < 0 then none else
        match pList pInt r with
        | some (coords, []) =>
          some (showOptF (FloatDelta.computeFloatDelta regions subs outer.toNat inner.toNat coords))
        | _ => none
      | _ => none
    | none => none
  | "f32.apply" =>
    -- kind (0 F2Dot14, 1 Fixed, 2 FWord/UfWord) raw <f64 bits of the delta>
    match xs with
    | [kind, raw, bits] =>
      if bits < 0 then none else
      let d := Ieee.decode Ieee.f64 bits.toNat
      if kind = 0 then some (FloatDelta.applyF2Dot14 raw d).show
      else if kind = 1 then some (FloatDelta.applyFixed raw d).show
      else if kind = 2 then some (FloatDelta.applyWord raw d).show
      else none
    | _ => none
  | "f32.op" =>
    -- op (0 mul32, 1 div32, 2 mul64, 3 div64, 4 cvt→f32 of an f64, 5 cvt→f64 of an f32) a b (bit patterns)
    match xs with
    | [op, a, b] =>
      if a < 0 ∨ b < 0 then none else
      let d32 := Ieee.decode Ieee.f32
      let d64 := Ieee.decode Ieee.f64
      if op = 0 then some (toString (Ieee.encode Ieee.f32 (Ieee.mul Ieee.f32 (d32 a.toNat) (d32 b.toNat))))
      else if op = 1 then some (toString (Ieee.encode Ieee.f32 (Ieee.div Ieee.f32 (d32 a.toNat) (d32 b.toNat))))
      else if op = 2 then some (toString (Ieee.encode Ieee.f64 (Ieee.mul Ieee.f64 (d64 a.toNat) (d64 b.toNat))))
      else if op = 3 then some (toString (Ieee.encode Ieee.f64 (Ieee.div Ieee.f64 (d64 a.toNat) (d64 b.toNat))))
      else if op = 4 then some (toString (Ieee.encode Ieee.f32 (Ieee.cvt Ieee.f32 (d64 a.toNat))))
      else if op = 5 then some (toString (Ieee.encode Ieee.f64 (Ieee.cvt Ieee.f64 (d32 a.toNat))))
      else none
    | _ => none
  | _ => none

/-! handlers for scaled metrics, gvar fallback, HVAR/VVAR/MVAR lookup, vertical metrics, store bytes -/

def pGlyphKind : P Metrics.GlyphKind := fun r =>
  match r with
  | 0 :: r => some (.empty, r)
  | 1 :: n :: r => if n < 0 then none else some (.simple n.toNat, r)
  | 2 :: r => match pList pPairNI r with
    | some (cs, r) => some (.composite (cs.map fun c => (c.1, c.2 != 0)), r)
    | none => none
  | 3 :: r => some (.unreadable, r)
  | _ => none

def pTupleX : P Metrics.TupleX := fun r =>
  match pInt r with
  | none => none
  | some (sc, r) => match pList pPairNI r with
    | none => none
    | some (ds, r) => some ((sc, ds), r)

def pRec3 : P (Nat × Nat × Nat) := fun r =>
  match r with
  | a :: b :: c :: r => if a < 0 ∨ b < 0 ∨ c < 0 then none else some ((a.toNat, b.toNat, c.toNat), r)
  | _ => none

def showFixedResult : Metrics.FixedResult → String
  | .ok b => toString b
  | .err => "err"

def showOptFV : Option Ieee.FVal → String
  | none => "none"
  | some v => v.show

def showOptInt : Option Int → String
  | none => "none"
  | some v => toString v

def showRegions (rs : List (List (Int × Int × Int))) : String :=
  ";".intercalate (rs.map fun r => " ".intercalate (r.map fun a => s!"{a.1},{a.2.1},{a.2.2}"))

def handleInts3 (cmd : String) (xs : List Int) : Option String :=
  match cmd with
  | "met.scale32" =>
    match xs with
    | [has, bits, upem] =>
      if bits < 0 ∨ upem < 0 then none else
      some (toString (Metrics.fixedLinearScale (if has = 1 then some (Ieee.decode Ieee.f32 bits.toNat) else none) upem.toNat))
    | _ => none
  | "met.full" =>
    -- hasPpem ppemBits upem glyphCount gid src a b c d <k>(adv lsb)* <k> lsb*
    match xs with
    | has :: bits :: upem :: gc :: gid :: src :: a :: b :: c :: d :: r =>
      if gc < 0 ∨ gid < 0 ∨ bits < 0 ∨ upem < 0 then none else
      let scale := Metrics.fixedLinearScale (if has = 1 then some (Ieee.decode Ieee.f32 bits.toNat) else none) upem.toNat
      match pList pPairII r with
      | some (hm, r) => match pList pInt r with
        | some (lsbs, []) =>
          let (sa, sl) : Metrics.DeltaSrc × Metrics.DeltaSrc :=
            if src = 1 then (.hvar (if a = 1 then some b else none), .hvar (if c = 1 then some d else none))
            else if src = 2 then (.gvar (if a = 1 then some (b, c) else none), .gvar (if a = 1 then some (b, c) else none))
            else (.none, .none)
          some s!"{showOptFV (Metrics.advanceWidth scale gc.toNat hm gid.toNat sa)} {showOptFV (Metrics.leftSideBearing scale gc.toNat hm lsbs gid.toNat sl)}"
        | _ => none
      | none => none
    | _ => none
  | "gvar.find" =>
    match pList pGlyphKind xs with
    | some (gs, [gid]) => if gid < 0 then none else
      some (match Metrics.findGlyphAndPointCount gs 70 gid.toNat 0 with
        | some (g, n) => s!"{g} {n}"
        | none => "err")
    | _ => none
  | "gvar.px" =>
    match xs with
    | start :: r => if start < 0 then none else
      match pList pTupleX r with
      | some (ts, []) =>
        let p0 := Metrics.phantomX ts start.toNat 0
        let p1 := Metrics.phantomX ts start.toNat 1
        let d := Metrics.gvarMetricDeltas p0 p1
        some s!"{p0} {p1} {d.1} {d.2}"
      | _ => none
    | _ => none
  | "var.delta" =>
    -- kind (0 advance_delta, 1 item_delta) <0|1 dsim> <0|1 store> gid coords
    match xs with
    | kind :: r =>
      match pOpt pDsim r with
      | none => none
      | some (dsim, r) => match pOpt pStore r with
        | none => none
        | some (store, r) => match r with
          | gid :: r => if gid < 0 then none else
            match pList pInt r with
            | some (coords, []) =>
              if kind = 0 then some (showFixedResult (Metrics.advanceDelta dsim store gid.toNat coords))
              else if kind = 1 then some (showFixedResult (Metrics.itemDelta dsim store gid.toNat coords))
              else none
            | _ => none
          | _ => none
    | _ => none
  | "mvar.delta" =>
    match pList pRec3 xs with
    | none => none
    | some (recs, r) => match pOpt pStore r with
      | none => none
      | some (store, r) => match r with
        | tag :: r => if tag < 0 then none else
          match pList pInt r with
          | some (coords, []) => some (showFixedResult (Metrics.mvarMetricDelta recs store tag.toNat coords))
          | _ => none
        | _ => none
  | "vmtx.get" =>
    match pList pPairII xs with
    | some (ms, r) => match pList pInt r with
      | some (bs, [gid]) => if gid < 0 then none else
        some s!"{showOptInt (Metrics.longAdvance ms gid.toNat)} {showOptInt (Metrics.longSideBearing ms bs gid.toNat)}"
      | _ => none
    | none => none
  | "vorg.y" =>
    match xs with
    | dflt :: r => match pList pPairNI r with
      | some (recs, [gid]) => if gid < 0 then none else some (toString (Metrics.vorgY dflt recs gid.toNat))
      | _ => none
    | _ => none
  | "ivs.bytes" =>
    -- axisCount store <k> order*  (order: child indices, 0 = region list, k+1 = subtable k, in file order)
    match xs with
    | ac :: r => if ac < 0 then none else
      match pStore r with
      | some ((regions, subs), r) => match pList pNat r with
        | some (order, []) =>
          let child (i : Nat) : Option (List Nat) :=
            if i = 0 then some (Ivs.regionListBytes ac.toNat regions)
            else match subs[i - 1]? with
              | some (some st) => some (Ivs.ivdBytes st)
              | _ => none
          match order.mapM child with
          | some objs => some (toHex (Ivs.storeBytes ac.toNat regions subs objs.eraseDups))
          | none => none
        | _ => none
      | none => none
    | _ => none
  | "ivs.parse" =>
    match pList pNat xs with
    | some (bytes, []) =>
      some (match Ivs.parseStore bytes with
        | none => "err"
        | some (ac, regions, subs) =>
          let subs' := subs.map fun st => st.map fun st =>
            { st with data := st.data.take (Tent.deltaRowLen st.wordDeltaCount st.regionIndexes.length * st.itemCount) }
          s!"{ac}|{showRegions regions}|{";".intercalate (subs'.map showSub)}")
    | _ => none
  | "ivs.directchk" =>
    match pNat xs with
    | some (n, r) => match pList (pList pPairNI) r with
      | some (sets, []) => some (match Ivs.buildDirectChecked n sets with
          | some b => showBuilt b
          | none => "trap")
      | _ => none
    | none => none
  | _ => none

def handle (cmd : String) (args : List String) : Option String :=
  match parseInts? args with
  | none => none
  | some xs =>
    match handleInts cmd xs with
    | some r => some r
    | none => match handleInts2 cmd xs with
      | some r => some r
      | none => handleInts3 cmd xs

end FontVerif.Drv.C11
