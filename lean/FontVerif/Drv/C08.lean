/- line-protocol handlers for the C08 models (Model/Cmap.lean)

Sections of a request are separated by a `|` token.  A mapping is a list of run tokens
`c,g,n,d` = pairs `(c + k, g + d·k)` for `k < n` (in that order); `-` = empty section.
-/
import FontVerif.Model.Cmap
namespace FontVerif.Drv.C08
open FontVerif FontVerif.Cmap

def splitSections (args : List String) : List (List String) :=
  let rec go : List String → List String → List (List String) → List (List String)
    | [], cur, acc => (cur.reverse :: acc).reverse
    | "|" :: rest, cur, acc => go rest [] (cur.reverse :: acc)
    | "-" :: rest, cur, acc => go rest cur acc
    | a :: rest, cur, acc => go rest (a :: cur) acc
  go args [] []

def commaInts? (s : String) : Option (List Int) := parseInts? (s.splitOn ",")
def commaNats? (s : String) : Option (List Nat) := parseNats? (s.splitOn ",")

def expandRun (c g : Nat) (n : Nat) (d : Int) : Mapping :=
  (List.range n).map (fun k => (c + k, ((g : Int) + d * (k : Int)).toNat))

def parseMapping? (toks : List String) : Option Mapping := do
  let runs ← toks.mapM (fun t => do
    match ← commaInts? t with
    | [c, g, n, d] => if c < 0 ∨ g < 0 ∨ n < 0 then none else some (expandRun c.toNat g.toNat n.toNat d)
    | _ => none)
  pure runs.flatten

def parseTriples? (toks : List String) : Option (List (Nat × Nat × Nat)) :=
  toks.mapM (fun t => do
    match ← commaNats? t with
    | [a, b, c] => some (a, b, c)
    | _ => none)

def parsePairs? (toks : List String) : Option (List (Nat × Nat)) :=
  toks.mapM (fun t => do
    match ← commaNats? t with
    | [a, b] => some (a, b)
    | _ => none)

/-- code points: comma separated, `a..b` = inclusive range -/
def parseCps? (toks : List String) : Option (List Nat) := do
  let parts ← (toks.flatMap (·.splitOn ",")).mapM (fun t =>
    match t.splitOn ".." with
    | [a] => do let a ← parseNat? a; pure [a]
    | [a, b] => do
      let a ← parseNat? a; let b ← parseNat? b
      pure (List.range' a (b + 1 - a))
    | _ => none)
  pure parts.flatten

def optNat : Option Nat → String
  | none => "none"
  | some v => toString v

def showOpts (xs : List (Option Nat)) : String :=
  if xs.isEmpty then "-" else " ".intercalate (xs.map optNat)

def showPairs (xs : List (Nat × Nat)) : String :=
  if xs.isEmpty then "-" else " ".intercalate (xs.map (fun p => s!"{p.1}:{p.2}"))

def showGroups (xs : List Group) : String :=
  if xs.isEmpty then "-" else " ".intercalate (xs.map (fun p => s!"{p.1},{p.2.1},{p.2.2}"))

def showCmap4 (t : Cmap4) : String :=
  s!"{joinNats t.endCode.toList} | {joinNats t.startCode.toList} | {joinInts t.idDelta.toList} | {joinNats t.idRangeOffsets.toList} | {joinNats t.glyphIdArray.toList}"

/-- run `k` on the built table, or print the failure -/
def withBuilt (raw : Mapping) (k : Built → String) : String :=
  match fromMappings raw with
  | .conflict c a b => s!"conflict {c} {a} {b}"
  | .trap => "trap"
  | .ok b => k b

def parseCmap4? (secs : List (List String)) : Option Cmap4 :=
  match secs with
  | [e, s, d, r, g] => do
    let e ← parseNats? e; let s ← parseNats? s; let d ← parseInts? d
    let r ← parseNats? r; let g ← parseNats? g
    pure { endCode := e.toArray, startCode := s.toArray, idDelta := d.toArray,
           idRangeOffsets := r.toArray, glyphIdArray := g.toArray }
  | _ => none

def parseLimits? (toks : List String) : Option Limits :=
  match toks with
  | [] => some none
  | [a, b] => do let a ← parseNat? a; let b ← parseNat? b; pure (some (a, b))
  | _ => none

def parseKind? : String → Option SubKind
  | "f4" => some .f4
  | "f12" => some .f12
  | "f14" => some .f14
  | "x" => some .unsupported
  | _ => none

def parseRecords? (toks : List String) : Option (List Record) :=
  toks.mapM (fun t =>
    match t.splitOn "," with
    | [p, e, k] => do let p ← parseNat? p; let e ← parseNat? e; let k ← parseKind? k; pure (p, e, k)
    | _ => none)

def showSel (s : Selection) : String :=
  s!"{optNat s.codepointIx} {s.isSymbol} {optNat s.variantIx}"

/-- `sel;d:a+n,...;n:c>g,...` (`d`/`n` parts optional, `~` = table absent) -/
def parseVarSel? (tok : String) : Option VarSel :=
  match tok.splitOn ";" with
  | [sel, d, n] => do
    let sel ← parseNat? sel
    let d ← if d = "~" then pure none else
      (do let xs ← ((d.splitOn ",").filter (· ≠ "")).mapM (fun t =>
            match t.splitOn "+" with
            | [a, b] => do let a ← parseNat? a; let b ← parseNat? b; pure (a, b)
            | _ => none)
          pure (some xs))
    let n ← if n = "~" then pure none else
      (do let xs ← ((n.splitOn ",").filter (· ≠ "")).mapM (fun t =>
            match t.splitOn ">" with
            | [a, b] => do let a ← parseNat? a; let b ← parseNat? b; pure (a, b)
            | _ => none)
          pure (some xs))
    pure { selector := sel, defaults := d, nonDefaults := n }
  | _ => none

def showVariant : Option MapVariant → String
  | none => "none"
  | some .useDefault => "default"
  | some (.variant g) => s!"v{g}"

def handle (cmd : String) (args : List String) : Option String :=
  let secs := splitSections args
  match cmd, secs with
  -- builder: compiled arrays
  | "b4", [m] => do
    let m ← parseMapping? m
    pure (withBuilt m fun b => match b.fmt4 with | none => "none" | some t => showCmap4 t)
  | "b12", [m] => do
    let m ← parseMapping? m
    pure (withBuilt m fun b => match b.fmt12 with | none => "none" | some g => showGroups g.toList)
  -- builder + reader, end to end
  | "l4", [cps, m] => do
    let cps ← parseCps? cps; let m ← parseMapping? m
    pure (withBuilt m fun b => match b.fmt4 with
      | none => "none" | some t => showOpts (cps.map (map4 t)))
  | "l12", [cps, m] => do
    let cps ← parseCps? cps; let m ← parseMapping? m
    pure (withBuilt m fun b => match b.fmt12 with
      | none => "none" | some g => showOpts (cps.map (map12 g)))
  | "lt", [cps, m] => do
    let cps ← parseCps? cps; let m ← parseMapping? m
    pure (withBuilt m fun b => showOpts (cps.map (cmapMap b.subtables)))
  -- skrifa Charmap on the built table (selection + notdef filtering + cmap12 limits)
  | "lc", [cps, m] => do
    let cps ← parseCps? cps; let m ← parseMapping? m
    pure (withBuilt m fun b => showOpts (cps.map b.skMap))
  | "ic", [ng, m] => do
    let ng ← parseNats? ng; let m ← parseMapping? m
    match ng with
    | [n] => pure (withBuilt m fun b => showPairs (b.skMappings (0x10FFFF, n)))
    | _ => none
  | "i4", [m] => do
    let m ← parseMapping? m
    pure (withBuilt m fun b => match b.fmt4 with | none => "none" | some t => showPairs (iter4 t))
  | "i12", [lim, m] => do
    let lim ← parseLimits? lim; let m ← parseMapping? m
    pure (withBuilt m fun b => match b.fmt12 with
      | none => "none" | some g => showPairs (iter12 g lim))
  -- is the model's segmentation valid?  (sampled check of `segments_valid`)
  | "segs", [m] => do
    let m ← parseMapping? m
    let m := normalize m
    pure (" ".intercalate ((segments m).map fun s =>
      s!"{s.startIx},{s.endIx},{match s.idDelta with | some d => toString d | none => "r"}"))
  -- reader on arbitrary arrays
  | "r4.map", cps :: rest => do
    let cps ← parseCps? cps; let t ← parseCmap4? rest
    pure (showOpts (cps.map (map4 t)))
  | "r4.iter", rest => do
    let t ← parseCmap4? rest
    pure (showPairs (iter4 t))
  | "r12.map", [cps, gs] => do
    let cps ← parseCps? cps; let gs ← parseTriples? gs
    pure (showOpts (cps.map (map12 gs.toArray)))
  | "r12.iter", [take, lim, gs] => do
    let take ← parseNats? take; let lim ← parseLimits? lim; let gs ← parseTriples? gs
    match take with
    | [n] => pure (showPairs (iter12N gs.toArray lim n))
    | _ => none
  -- table level on arbitrary subtables is covered by `lt`; skrifa selection
  | "sk.sel", [recs] => do
    let recs ← parseRecords? recs
    pure (showSel (select recs))
  | "sk.map4", cps :: sym :: rest => do
    let cps ← parseCps? cps; let t ← parseCmap4? rest
    match sym with
    | [b] => pure (showOpts (cps.map (charmapMap (.f4 t) (b = "1"))))
    | _ => none
  | "sk.map12", [cps, sym, gs] => do
    let cps ← parseCps? cps; let gs ← parseTriples? gs
    match sym with
    | [b] => pure (showOpts (cps.map (charmapMap (.f12 gs.toArray) (b = "1"))))
    | _ => none
  | "sk.iter4", rest => do
    let t ← parseCmap4? rest
    pure (showPairs (charmapMappings (.f4 t) (0, 0)))
  | "sk.iter12", [lim, gs] => do
    let gs ← parseTriples? gs
    match ← parseLimits? lim with
    | some l => pure (showPairs (charmapMappings (.f12 gs.toArray) l))
    | none => none
  -- format 14
  | "r14.map", [qs, t] => do
    let qs ← parsePairs? qs; let t ← t.mapM parseVarSel?
    pure (" ".intercalate (qs.map fun q => showVariant (mapVariant t q.1 q.2)))
  | "r14.iter", [t] => do
    let t ← t.mapM parseVarSel?
    let items := iter14 t
    pure (if items.isEmpty then "-" else
      " ".intercalate (items.map fun x => s!"{x.1},{x.2.1},{showVariant (some x.2.2)}"))
  | _, _ => none

end FontVerif.Drv.C08
