/- line-protocol handlers for the C19 models (Model/PatchMap*.lean, UriTemplate.lean, PatchGroup.lean) -/
import FontVerif.Model.PatchGroup
import FontVerif.Model.PatchMapBytes
namespace FontVerif.Drv.C19
open FontVerif FontVerif.PatchMap FontVerif.UriTemplate FontVerif.PatchGroup FontVerif.PatchMapBytes

/-! ## token parser -/

abbrev P := StateT (List String) Option

def tok : P String := do
  match (← get) with
  | [] => failure
  | t :: ts => set ts; pure t

def pNat : P Nat := do
  match (← tok).toNat? with
  | some n => pure n
  | none => failure

def pInt : P Int := do
  match (← tok).toInt? with
  | some n => pure n
  | none => failure

def pBool : P Bool := do
  match (← tok) with
  | "0" => pure false
  | "1" => pure true
  | _ => failure

def pHex : P (List Nat) := do
  match parseHex? (← tok) with
  | some b => pure b
  | none => failure

def pMany {α : Type} (p : P α) : Nat → P (List α)
  | 0 => pure []
  | n + 1 => do
    let x ← p
    let xs ← pMany p n
    pure (x :: xs)

def pList {α : Type} (p : P α) : P (List α) := do
  let n ← pNat
  pMany p n

def pRange : P (Int × Int) := do
  let lo ← pInt
  let hi ← pInt
  pure (lo, hi)

def pAxis : P (Nat × Ranges) := do
  let tag ← pNat
  let segs ← pList pRange
  pure (tag, segs)

/-- `D <ncp> (lo hi)* <featAll> <nf> tag* <dsAll> <nax> (tag nseg (s e)*)*` -/
def pDef : P SubsetDef := do
  let t ← tok
  if t ≠ "D" then failure
  let cps ← pList pRange
  let fAll ← pBool
  let tags ← pList pNat
  let dAll ← pBool
  let axes ← pList pAxis
  pure { cps := cps, feats := if fAll then .all else .set tags,
         ds := if dAll then .all else .ranges axes }

def pSeg : P (Nat × Int × Int) := do
  let tag ← pNat
  let s ← pInt
  let e ← pInt
  pure (tag, s, e)

def pRaw : P RawEntry := do
  let flags ← pNat
  let feats ← pList pNat
  let segs ← pList pSeg
  let childByte ← pNat
  let children ← pList pNat
  let delta ← pInt
  let fmt ← pNat
  let bias ← pNat
  let cpsOk ← pBool
  let cps ← pList pRange
  let size ← pNat
  pure { flags, feats, segs, childByte, children, delta, fmt, bias,
         cps := if cpsOk then some cps else none, size }

def pFeatRec : P FeatRec := do
  let tag ← pNat
  let firstNew ← pNat
  let count ← pNat
  pure { tag, firstNew, count }

def pPair : P (Nat × Nat) := do
  let a ← pNat
  let b ← pNat
  pure (a, b)

def pTable : P MapTable := do
  match (← tok) with
  | "N" => pure .none
  | "F2" =>
    let compat ← pNat
    let defaultFormat ← pNat
    let entriesOffset ← pNat
    let hasIdStrings ← pBool
    let idData ← pHex
    let template ← pHex
    let utf8Ok ← pBool
    let raws ← pList pRaw
    pure (.f2 { compat, defaultFormat, entriesOffset, hasIdStrings, idData, template, utf8Ok, raws })
  | "F1" =>
    let compat ← pNat
    let maxEntry ← pNat
    let maxGm ← pNat
    let glyphCount ← pNat
    let maxpGlyphs ← pNat
    let bitmapStart ← pNat
    let bitmap ← pHex
    let template ← pHex
    let utf8Ok ← pBool
    let patchFormat ← pNat
    let firstGid ← pNat
    let entryIndex ← pList pNat
    let hasFeatureMap ← pBool
    let featRecs ← pList pFeatRec
    let entryMaps ← pList pPair
    let entryMapBytes ← pNat
    let cmap ← pList pPair
    pure (.f1 { compat, maxEntry, maxGm, glyphCount, maxpGlyphs, bitmapStart, bitmap, template, utf8Ok,
                patchFormat, firstGid, entryIndex, hasFeatureMap, featRecs, entryMaps,
                entryMapBytes, cmap })
  | _ => failure

def runP {α : Type} (p : P α) (args : List String) : Option α :=
  match p.run args with
  | some (a, []) => some a
  | _ => none

/-! ## rendering -/

def showRanges (r : Ranges) : String :=
  if r.isEmpty then "-" else ",".intercalate (r.map fun p => s!"{p.1}..{p.2}")

def showNats (r : List Nat) : String :=
  if r.isEmpty then "-" else ",".intercalate (r.map toString)

def showAxes (a : List (Nat × Ranges)) : String :=
  if a.isEmpty then "-" else ";".intercalate (a.map fun p => s!"{p.1}={showRanges p.2}")

def showDef (d : SubsetDef) : String :=
  let f := match d.feats with | .all => "*" | .set s => showNats s
  let ds := match d.ds with | .all => "*" | .ranges a => showAxes a
  s!"cp[{showRanges d.cps}]ft[{f}]ds[{ds}]"

def showId : PatchId → String
  | .num n => s!"n{n}"
  | .str b => s!"s{toHex b}"

def showInfo (i : IntersectionInfo) : String :=
  let ds := if i.ds.isEmpty then "-" else ",".intercalate (i.ds.map fun p => s!"{p.1}:{p.2}")
  s!"{i.cps}/{i.tags}/{ds}/{i.order}"

def showTag : TableTag → String
  | .ift => "IFT" | .iftx => "IFTX"

def showUriStr : Option (List Nat) → String
  | none => "!"
  | some s => toHex s

def showPatchUri (u : PatchUri) : String :=
  s!"{showTag u.table}:{showId u.id}:f{u.enc.number}:b{u.bit}:i{showInfo u.info}:u{showUriStr (uriString u)}"

def showEntry (e : Entry) : String :=
  s!"<{showDef e.sd}|ch[{showNats e.children}]{if e.conj then "&" else "|"}|{if e.ignored then "ign" else "live"}|{showId e.uri.id}|f{e.uri.enc.number}|b{e.uri.bit}>"

def showList (xs : List String) : String := if xs.isEmpty then "-" else " ".intercalate xs

def showPatchInfo (p : PatchInfo) : String := s!"{showTag p.table}:b{p.bit}:u{toHex p.uri}"

def showScoped : Scoped → String
  | .partialInv p => s!"P({showPatchInfo p})"
  | .noInv m => s!"N({",".intercalate (m.map fun q => showPatchInfo q.2)})"

def showGroup : Option Group → String
  | none => "none"
  | some (.full p) => s!"Full({showPatchInfo p})"
  | some (.mixed a b) => s!"Mixed[{showScoped a}][{showScoped b}]"

/-! ## scripted extension runs -/

/-- one patch the scripted server can deliver -/
structure ServerPatch where
  uri : Uri
  /-- 0 = table keyed, 1 = glyph keyed -/
  kind : Nat
  compat : Nat
  /-- table-keyed effect: index into the pool of table states (`none` = keep the table) -/
  newIft : Option Nat
  newIftx : Option Nat
  deriving Inhabited

def pOptIdx : P (Option Nat) := do
  let i ← pInt
  pure (if i < 0 then none else some i.toNat)

def pServerPatch : P ServerPatch := do
  let uri ← pHex
  let kind ← pNat
  let compat ← pNat
  let newIft ← pOptIdx
  let newIftx ← pOptIdx
  pure { uri, kind, compat, newIft, newIftx }

abbrev FontState := MapTable × MapTable

def tableOf (f : FontState) : TableTag → MapTable
  | .ift => f.1
  | .iftx => f.2

/-- set the application bit `bit` of a mapping table (what `apply_glyph_keyed_patches` does to the
table bytes), at the level of parsed fields -/
def setAppliedBit (bit : Nat) : MapTable → MapTable
  | .none => .none
  | .f1 t =>
    let idx := bit - t.bitmapStart * 8
    .f1 { t with bitmap := (List.range t.bitmap.length).map fun i =>
            let b := t.bitmap.getD i 0
            if i = idx / 8 ∧ b / 2 ^ (idx % 8) % 2 = 0 then b + 2 ^ (idx % 8) else b }
  | .f2 t =>
    let rec go (start : Nat) : List RawEntry → List RawEntry
      | [] => []
      | r :: rs =>
        (if start * 8 + 6 = bit ∧ !r.isIgnored then { r with flags := r.flags + 64 } else r)
          :: go (start + r.size) rs
    .f2 { t with raws := go t.entriesOffset t.raws }

def withTable (f : FontState) (tag : TableTag) (t : MapTable) : FontState :=
  match tag with
  | .ift => (t, f.2)
  | .iftx => (f.1, t)

def fontCompat (f : FontState) (tag : TableTag) : Option Nat := MapTable.compatId (tableOf f tag)

def applyTkScript (pool : List MapTable) (server : List ServerPatch) (f : FontState)
    (p : PatchInfo) (data : List Nat) : Except String FontState :=
  match fontCompat f p.table with
  | none => .error "err:FontParsingFailed"
  | some fc =>
    if fc ≠ p.compat then .error "err:IncompatiblePatch" else
    match server[data.headD 0]? with
    | none => .error "err:bad-script"
    | some sp =>
      -- a glyph-keyed patch handed to `apply_table_keyed_patch`: `TableKeyedPatch::read` does not
      -- look at the format tag, and the bytes where it expects the compat id are the glyph-keyed
      -- header shifted by one byte (never equal: the harness's compat ids start with a non-zero byte)
      if sp.kind ≠ 0 then .error "err:IncompatiblePatch" else
      if sp.compat ≠ fc then .error "err:IncompatiblePatch" else
      let f1 := match sp.newIft with | some i => (pool.getD i .none, f.2) | none => f
      let f2 := match sp.newIftx with | some i => (f1.1, pool.getD i .none) | none => f1
      .ok f2

def applyGkScript (server : List ServerPatch) (f : FontState)
    (ps : List (PatchInfo × List Nat)) : Except String FontState :=
  let rec check : List (PatchInfo × List Nat) → Option String
    | [] => none
    | (p, data) :: rest =>
      match fontCompat f p.table with
      | none => some "err:FontParsingFailed"
      | some fc =>
        if fc ≠ p.compat then some "err:IncompatiblePatch" else
        match server[data.headD 0]? with
        | none => some "err:bad-script"
        | some sp =>
          -- a table-keyed patch handed to `apply_glyph_keyed_patches`: `GlyphKeyedPatch::read` does
          -- not look at the format tag either; its compat id field is the table-keyed one shifted
          if sp.kind ≠ 1 then some "err:IncompatiblePatch" else
          if sp.compat ≠ fc then some "err:IncompatiblePatch" else check rest
  match check ps with
  | some e => .error e
  | none =>
    .ok (ps.foldl (fun f (q : PatchInfo × List Nat) =>
      withTable f q.1.table (setAppliedBit q.1.bit (tableOf f q.1.table))) f)

/-- a run, rendered round by round.  A uri the server does not know ends the run (`fetch-failed`). -/
def runScript (d : SubsetDef) (pool : List MapTable) (server : List ServerPatch) :
    Nat → FontState → PatchData → List String → String
  | 0, _, _, acc => showList (acc ++ ["fuel"])
  | fuel + 1, f, pd, acc =>
    match selectNext f.1 f.2 d with
    | .error e => showList (acc ++ [s!"select:{e}"])
    | .ok g =>
      if !hasUris g then
        showList (acc ++ [s!"done:{appliedCount pd}"])
      else
        let uris := optUris g
        let idxOf := fun (u : Uri) => (server.findIdx? fun sp => sp.uri = u)
        -- one iteration of `extendF` (the binary's loop): fetch what has no status yet, then apply
        match fetchMissingOpt (fun u => (idxOf u).map fun i => [i]) pd uris with
        | none => showList (acc ++ [s!"[{",".intercalate (uris.map toHex)}]", "fetch-failed"])
        | some pd1 =>
          match applyNext g (applyTkScript pool server f) (applyGkScript server f) pd1 with
          | .error e => showList (acc ++ [s!"[{",".intercalate (uris.map toHex)}]", s!"apply:{e}"])
          | .ok (f', pd') =>
            runScript d pool server fuel f' pd'
              (acc ++ [s!"[{",".intercalate (uris.map toHex)}]+{appliedCount pd'}"])

/-! ## commands -/

def exceptStr {α : Type} (f : α → String) : Except String α → String
  | .error e => e
  | .ok a => f a

def pInfo : P IntersectionInfo := do
  let cps ← pNat
  let tags ← pNat
  let ds ← pList (do let t ← pNat; let v ← pInt; pure (t, v))
  let order ← pNat
  pure { cps, tags, ds, order }

def showOrdering : Ordering → String
  | .lt => "lt" | .eq => "eq" | .gt => "gt"

/-- `N` = the font has no such table, `B <hex>` = its bytes -/
def pRawTable : P RawTable := do
  match (← tok) with
  | "N" => pure .absent
  | "B" => do let b ← pHex; pure (.bytes b)
  | _ => failure

def brStr {α : Type} (f : α → String) : BR α → String
  | .trap => "trap"
  | .err e => e
  | .ok a => f a

def handle (cmd : String) (args : List String) : Option String :=
  match cmd with
  | "f2b" =>
    -- the hook `format2_entries(font, iftx)` on raw table bytes: absent / unreadable header =
    -- NullOffset, a format-1 table = InvalidFormat
    runP (do
      let iftx ← pBool
      let d ← pHex
      if !tablePresent (.bytes d) then pure "err:NullOffset" else
      if HandRead.readAt d 0 1 = some 1 then pure "err:InvalidFormat" else
      pure (brStr (fun es => showList (es.map showEntry)) (decodeF2Bytes (if iftx then .iftx else .ift) d))) args
  | "isectb" =>
    runP (do
      let d ← pDef
      let maxp ← pNat
      let cmap ← pList pPair
      let a ← pRawTable
      let b ← pRawTable
      pure (brStr (fun us => showList (us.map showPatchUri)) (intersectingPatchesBytes a b maxp cmap d))) args
  | "f2dec" =>
    runP (do
      let iftx ← pBool
      let t ← pTable
      match t with
      | .f2 t => pure (exceptStr (fun es => showList (es.map showEntry))
                    (decodeF2 (if iftx then .iftx else .ift) t))
      | _ => failure) args
  | "isect" =>
    runP (do
      let d ← pDef
      let a ← pTable
      let b ← pTable
      pure (exceptStr (fun us => showList (us.map showPatchUri)) (intersectingPatches a b d))) args
  | "select" =>
    runP (do
      let d ← pDef
      let a ← pTable
      let b ← pTable
      pure (exceptStr (fun g => s!"{showGroup g} has={if hasUris g then 1 else 0} uris={showList ((optUris g).map toHex)}")
        (selectNext a b d))) args
  | "uri" =>
    runP (do
      let template ← pHex
      let kind ← tok
      let id ← (if kind = "n" then (do let n ← pNat; pure (PatchId.num n))
                else if kind = "s" then (do let b ← pHex; pure (PatchId.str b)) else failure)
      pure (match expandTemplate template id with
        | none => "err"
        | some s => toHex s)) args
  | "cmpinfo" =>
    runP (do
      let a ← pInfo
      let b ← pInfo
      pure (showOrdering (a.cmp b))) args
  | "defop" =>
    runP (do
      let a ← pDef
      let b ← pDef
      pure s!"{showDef (a.union b)} {showDef (a.intersection b)} {if localIntersects a b then 1 else 0}") args
  | "run" =>
    runP (do
      let d ← pDef
      let a ← pTable
      let b ← pTable
      let pool ← pList pTable
      let server ← pList pServerPatch
      let fuel ← pNat
      pure (runScript d pool server fuel (a, b) [] [])) args
  | _ => none

end FontVerif.Drv.C19
