/- line-protocol handlers for the C18 models (Model/TableKeyed, GlyphKeyed, PatchRound)

requests (one line, space separated):
  tk    <dec> <info> <patchhex> <table>…
  gk    <dec> <n> (<info> <patchhex>)×n <table>…
  round <dec> <ninv> <info>×ninv <nnon> <info>×nnon <nst> (<uri> <A|P:hex>)×nst <table>…
  splice <S|L|1|2|3|4> <maxGid> <datahex> <noffs> <off>×noffs <nrepl> (<gid> <hex>)×nrepl
  gvar  <maxGid> <gvarhex|none> <n> (<wide 0|1> <decoded payload hex>)×n     → ok <digest of new gvar> | err …
  cff   <v2 0|1> <maxGid> <IFT hex|none> <CFF/CFF2 hex|none> <n> (<wide 0|1> <decoded payload hex>)×n
                                                                          → ok <digest of new table> | err …
where
  <dec>   = n | <k>:<Init|Stream|Dict|Max|Excess|Io>   scripted decoder: identity (base ++ stream when a
            base is given), MaxSizeExceeded if longer than maxLen, fault on call k
  <info>  = <I|X>,<compat hex>,<bit>,<uri>
  <table> = <tag as 8 hex digits>=<hex>
responses
  ok [calls=N] <tag>=<len>:<fnv1a64>[:<hex> if len ≤ 48]…   (head.checksumAdjustment zeroed)
  err <PatchingError>
  round appends ` | <uri>=A|P:<len>:<fnv>…`
-/
import FontVerif.Model.PatchRound
import FontVerif.Model.GvarKeyed
import FontVerif.Model.CffKeyed
namespace FontVerif.Drv.C18
open FontVerif FontVerif.Ift

def us (s : String) : String := s.map (fun c => if c = ' ' then '_' else c)

def hex8 (t : Nat) : String := toHex (beBytes 4 t)

def rerrStr : RErr → String
  | .outOfBounds => "OutOfBounds"
  | .nullOffset => "NullOffset"
  | .invalidArrayLen => "InvalidArrayLen"
  | .tableIsMissing t => s!"TableIsMissing({hex8 t})"
  | .malformedData m => s!"MalformedData({us m})"

def perrStr : PErr → String
  | .patchParsingFailed e => s!"PatchParsingFailed({rerrStr e})"
  | .fontParsingFailed e => s!"FontParsingFailed({rerrStr e})"
  | .serializationError f => s!"SerializationError({f})"
  | .incompatiblePatch => "IncompatiblePatch"
  | .nonIncrementalFont => "NonIncrementalFont"
  | .invalidPatch m => s!"InvalidPatch({us m})"
  | .emptyPatchList => "EmptyPatchList"
  | .internalError => "InternalError"
  | .missingPatches => "MissingPatches"

def fnv (bs : Bytes) : String :=
  let h : UInt64 := bs.foldl (fun h b => (h ^^^ UInt64.ofNat b) * 0x100000001b3) 0xcbf29ce484222325
  toHex (beBytes 8 h.toNat)

def canonHead (t : Tag) (d : Bytes) : Bytes :=
  if t = TAG_head ∧ d.length ≥ 12 then d.take 8 ++ [0, 0, 0, 0] ++ d.drop 12 else d

def digest (d : Bytes) : String :=
  let base := s!"{d.length}:{fnv d}"
  if d.length ≤ 48 then s!"{base}:{toHex d}" else base

def tableStr (td : Tag × Bytes) : String :=
  s!"{hex8 td.1}={digest (canonHead td.1 td.2)}"

def fontStr (f : Font) : String := " ".intercalate (f.map tableStr)

def parseDErr : String → Option DErr
  | "Init" => some .initFailure | "Stream" => some .invalidStream | "Dict" => some .invalidDictionary
  | "Max" => some .maxSizeExceeded | "Excess" => some .excessInputData | "Io" => some .ioError
  | _ => none

/-- the scripted decoder shared with the harness (`ScriptedDecoder` in c18.rs) -/
def scripted (fault : Option (Nat × DErr)) : Decoder := fun i stream base maxLen =>
  let body : Except DErr Bytes :=
    let out := match base with | none => stream | some b => b ++ stream
    if out.length > maxLen then .error .maxSizeExceeded else .ok out
  match fault with
  | some (k, e) => if i = k then .error e else body
  | none => body

def parseDec (s : String) : Option Decoder :=
  if s = "n" then some (scripted none) else
  match s.splitOn ":" with
  | [k, kind] => do
    let k ← k.toNat?
    let e ← parseDErr kind
    some (scripted (some (k, e)))
  | _ => none

def parseInfo (s : String) : Option PatchInfo :=
  match s.splitOn "," with
  | [t, c, b, u] => do
    let iftx ← (if t = "I" then some false else if t = "X" then some true else none)
    let compat ← parseHex? c
    let bit ← b.toNat?
    some { uri := u, iftx := iftx, compat := compat, bit := bit }
  | _ => none

def parseTable (s : String) : Option (Tag × Bytes) :=
  match s.splitOn "=" with
  | [t, d] => do
    let tb ← parseHex? t
    if tb.length ≠ 4 then none else
    let db ← parseHex? d
    some (beValue tb, db)
  | _ => none

def parseFont (ss : List String) : Option Font := ss.mapM parseTable

/-- take `n` (info, patch) pairs -/
def takePairs : Nat → List String → Option (List (PatchInfo × Bytes) × List String)
  | 0, rest => some ([], rest)
  | n + 1, i :: p :: rest => do
    let info ← parseInfo i
    let pb ← parseHex? p
    let (more, rest') ← takePairs n rest
    some ((info, pb) :: more, rest')
  | _, _ => none

def takeInfos : Nat → List String → Option (List PatchInfo × List String)
  | 0, rest => some ([], rest)
  | n + 1, i :: rest => do
    let info ← parseInfo i
    let (more, rest') ← takeInfos n rest
    some (info :: more, rest')
  | _, _ => none

def parseStatus (s : String) : Option UriStatus :=
  if s = "A" then some .applied else
  match s.splitOn ":" with
  | ["P", h] => (parseHex? h).map .pending
  | _ => none

def takeStatus : Nat → List String → Option (StatusMap × List String)
  | 0, rest => some ([], rest)
  | n + 1, u :: s :: rest => do
    let st ← parseStatus s
    let (more, rest') ← takeStatus n rest
    some ((u, st) :: more, rest')
  | _, _ => none

def statusStr (kv : String × UriStatus) : String :=
  match kv.2 with
  | .applied => s!"{kv.1}=A"
  | .pending d => s!"{kv.1}=P:{d.length}:{fnv d}"

def resultStr : Except PErr Font → String
  | .ok f => s!"ok {fontStr f}"
  | .error e => s!"err {perrStr e}"

def parseOffsetType : String → Option OffsetType
  | "S" => some .shortDivByTwo | "L" => some .long | "1" => some .cffOne | "2" => some .cffTwo
  | "3" => some .cffThree | "4" => some .cffFour | _ => none

def takeRepl : Nat → List String → Option (List (Nat × Bytes) × List String)
  | 0, rest => some ([], rest)
  | n + 1, g :: h :: rest => do
    let g ← g.toNat?
    let d ← parseHex? h
    let (more, rest') ← takeRepl n rest
    some ((g, d) :: more, rest')
  | _, _ => none

/-- take `n` (wide, payload) pairs and parse them with `GlyphPatches::read` -/
def takePayloads : Nat → List String → Option (List (Except RErr GlyphPatches) × List String)
  | 0, rest => some ([], rest)
  | n + 1, w :: p :: rest => do
    let wide ← (if w = "1" then some true else if w = "0" then some false else none)
    let pb ← parseHex? p
    let (more, rest') ← takePayloads n rest
    some (gpRead pb wide :: more, rest')
  | _, _ => none

def allOk : List (Except RErr GlyphPatches) → Except RErr (List GlyphPatches)
  | [] => .ok []
  | .error e :: _ => .error e
  | .ok g :: rest => match allOk rest with | .error e => .error e | .ok gs => .ok (g :: gs)

def handle (cmd : String) (args : List String) : Option String :=
  match cmd, args with
  | "gvar", mg :: g :: n :: rest => do
    let mg ← mg.toNat?
    let gv ← (if g = "none" then some none else (parseHex? g).map some)
    let n ← n.toNat?
    let (ps, tail) ← takePayloads n rest
    if !tail.isEmpty then none else
    match allOk ps with
    | .error e => some s!"err {perrStr (.patchParsingFailed e)}"
    | .ok gps =>
      match gvarPatch gv gps mg with
      | .ok out => some s!"ok {digest out}"
      | .error e => some s!"err {perrStr e}"
  | "cff", v :: mg :: i :: c :: n :: rest => do
    let v2 ← (if v = "1" then some true else if v = "0" then some false else none)
    let mg ← mg.toNat?
    let ift ← (if i = "none" then some none else (parseHex? i).map some)
    let tb ← (if c = "none" then some none else (parseHex? c).map some)
    let n ← n.toNat?
    let (ps, tail) ← takePayloads n rest
    if !tail.isEmpty then none else
    match allOk ps with
    | .error e => some s!"err {perrStr (.patchParsingFailed e)}"
    | .ok gps =>
      match cffPatch v2 ift tb gps mg with
      | .ok out => some s!"ok {digest out}"
      | .error e => some s!"err {perrStr e}"
  | "tk", d :: i :: p :: font => do
    let dec ← parseDec d
    let info ← parseInfo i
    let pb ← parseHex? p
    let f ← parseFont font
    match applyTableKeyed info pb f dec with
    | .ok (out, calls) => some s!"ok calls={calls} {fontStr out}"
    | .error e => some s!"err {perrStr e}"
  | "gk", d :: n :: rest => do
    let dec ← parseDec d
    let n ← n.toNat?
    let (pairs, rest') ← takePairs n rest
    let f ← parseFont rest'
    some (resultStr (applyGlyphKeyed pairs f dec))
  | "round", d :: ninv :: rest => do
    let dec ← parseDec d
    let ninv ← ninv.toNat?
    let (inv, rest1) ← takeInfos ninv rest
    match rest1 with
    | nnon :: rest2 => do
      let nnon ← nnon.toNat?
      let (noninv, rest3) ← takeInfos nnon rest2
      match rest3 with
      | nst :: rest4 => do
        let nst ← nst.toNat?
        let (st, rest5) ← takeStatus nst rest4
        let f ← parseFont rest5
        let (r, st') := applyRound f inv noninv st dec
        some s!"{resultStr r} | {" ".intercalate (st'.map statusStr)}"
      | [] => none
    | [] => none
  | "splice", t :: mg :: dh :: noffs :: rest => do
    let t ← parseOffsetType t
    let mg ← mg.toNat?
    let data ← parseHex? dh
    let noffs ← noffs.toNat?
    let offs ← parseNats? (rest.take noffs)
    if (rest.take noffs).length ≠ noffs then none else
    match rest.drop noffs with
    | nr :: rest' => do
      let nr ← nr.toNat?
      let (repl, tail) ← takeRepl nr rest'
      if !tail.isEmpty then none else
      let avail : List OffsetType :=
        match t with
        | .shortDivByTwo | .long => [.shortDivByTwo, .long]
        | _ => [.cffOne, .cffTwo, .cffThree, .cffFour]
      let a : OffsetArray := { offsetType := t, available := avail, offsets := offs, data := data,
                               missing := .internalError, getErr := .fontParsingFailed .outOfBounds,
                               ascOk := ascending offs, unreadable := [] }
      match patchOffsetArray a repl mg with
      | .ok (t', nd, no) => some s!"ok {repr t'} {digest nd} {digest no}"
      | .error e => some s!"err {perrStr e}"
    | [] => none
  | _, _ => none

end FontVerif.Drv.C18
