/- line-protocol handlers for the C01 hand-written-code models (Model/HandRead.lean,
Model/HandIter.lean).  All commands are prefixed `hd.`. -/
import FontVerif.Model.HandRead
import FontVerif.Model.HandIter
import FontVerif.Drv.C01Iter
namespace FontVerif.Drv.C01Hand
open FontVerif FontVerif.HandRead FontVerif.HandIter FontVerif.ReadIter

def optStr : Option Nat → String
  | some v => toString v
  | none => "none"

def readStr : Option Nat → String
  | some v => toString v
  | none => "eO"

def arrStr : Except RErr Nat → String
  | .ok k => s!"ok{k}"
  | .error .oob => "eO"
  | .error .invalidArrayLen => "eL"

def parseOp (s : String) : Option Op :=
  match s.toList with
  | ['r', c] => (hexDigit? c).bind (fun w => if 1 ≤ w ∧ w ≤ 4 then some (.read w) else none)
  | ['s', c] => (hexDigit? c).bind (fun w => if 1 ≤ w ∧ w ≤ 4 then some (.adv w) else none)
  | ['v'] => some .var
  | 'a' :: rest => (String.ofList rest).toNat?.map .advBy
  | 'A' :: w :: ':' :: rest =>
    match hexDigit? w, (String.ofList rest).toNat? with
    | some w, some n => if 1 ≤ w ∧ w ≤ 4 then some (.arr w n) else none
    | _, _ => none
  | _ => none

def joinStrs (xs : List String) : String := if xs.isEmpty then "-" else " ".intercalate xs

def ierrStr : IErr → String
  | .oob => "eO"
  | .zeroOffset => "e:ZeroOffsetInIndex"
  | .badOffSize n => s!"e:InvalidIndexOffsetSize({n})"

def serrStr : SErr → String
  | .overflow => "eSO"
  | .underflow => "eSU"
  | .expectedI32 i => s!"eI{i}"
  | .invalidAccess i => s!"eSA{i}"
  | .oob => "eO"

def derrStr : DErr → String
  | .oob => "eO"
  | .invalidNumber => "eN"
  | .invalidOperator b => s!"eOp{b}"
  | .stack e => serrStr e
  | .missingBlendState => "eMB"

def erStr : ER → String
  | .ok s => s
  | .err e => derrStr e
  | .trap => "trap"

/-- split a list at the first "|" -/
def splitBar (xs : List String) : List String × List String :=
  (xs.takeWhile (· ≠ "|"), (xs.dropWhile (· ≠ "|")).drop 1)

def natsOrEmpty (xs : List String) : Option (List Nat) := if xs = ["-"] then some [] else parseNats? xs

def pairs : List Nat → Option (List (Nat × Nat))
  | [] => some []
  | a :: b :: r => (pairs r).map ((a, b) :: ·)
  | _ => none

def triples : List Nat → Option (List (Nat × Nat × Nat))
  | [] => some []
  | a :: b :: c :: r => (triples r).map ((a, b, c) :: ·)
  | _ => none

def handleIter (cmd : String) (args : List String) : Option String :=
  match cmd, args with
  | "hd.varc", hex :: counts =>
    match parseHex? hex, natsOrEmpty counts with
    | some d, some cs =>
      match varcTrace (fun i => cs[i]?) d with
      | none => some "fuel"
      | some evs =>
        if trapped evs then some "trap"
        else
          let s := String.ofList ((items evs).map (fun b => if b then 'o' else 'e'))
          some (if s.isEmpty then "-" else s)
    | _, _ => none
  | "hd.index", [f, hex, i] =>
    match parseHex? hex, i.toNat? with
    | some d, some i =>
      if f ≠ "1" ∧ f ≠ "2" then none else
      match indexNew d (f = "2") with
      | .err => some "eO"
      | .empty => some "empty 0 0 0 eO eO"
      | .fmt ix =>
        let size := match idxSize ix with | some v => toString v | none => "eO"
        let off := match readOffset ix i with | .ok v => toString v | .error e => ierrStr e
        let get := match idxGet ix i with | .ok (a, b) => s!"ok{b - a}" | .error e => ierrStr e
        some s!"{if f = "2" then "f2" else "f1"} {ix.count} {ix.offSize} {size} {off} {get}"
    | _, _ => none
  | "hd.dict", [hex] =>
    match parseHex? hex with
    | none => none
    | some d =>
      match dictTrace d with
      | none => some "fuel"
      | some evs => if trapped evs then some "trap" else some (joinStrs ((items evs).map erStr))
  | "hd.blues", [n] =>
    match n.toNat? with
    | none => none
    | some n => match bluesNew n with
      | some len => some s!"{len} 1"
      | none => some "trap"
  | "hd.charset", ng :: rest =>
    let (gidsS, specS) := splitBar rest
    match ng.toNat?, natsOrEmpty gidsS, specS with
    | some ng, some gids, fmt :: spec =>
      match fmt.toNat?, natsOrEmpty spec with
      | some fmt, some xs =>
        let k? : Option CharsetK := if fmt = 0 then some (.f0 xs) else (pairs xs).map .ranges
        match k? with
        | none => none
        | some k =>
          let ids := gids.map (fun g => match charsetSid k ng g with | some s => toString s | none => "e")
          match charsetTrace k ng with
          | none => some "fuel"
          | some evs =>
            let its := items evs
            let h := Drv.C01Iter.fnv (its.flatMap (fun p => [p.1, p.2]))
            let last := match its.getLast? with | some p => s!"{p.1}:{p.2}" | none => "0:0"
            some s!"{joinStrs ids} | {its.length} {h} {last}"
      | _, _ => none
    | _, _, _ => none
  | "hd.fdsel", fmt :: rest =>
    let (gidsS, rangesS) := splitBar rest
    match fmt.toNat?, natsOrEmpty gidsS, natsOrEmpty rangesS with
    | some fmt, some gids, some xs =>
      match pairs xs with
      | none => none
      | some rs =>
        let look := fun g => if fmt = 0 then fdSelect0 (rs.map (·.2)) g else fdSelectRanges rs g
        some (joinStrs (gids.map (fun g => match look g with | some v => toString v | none => "n")))
    | _, _, _ => none
  | "hd.aat", fmt :: size :: rest =>
    let (gidsS, ps) := splitBar rest
    match fmt.toNat?, size.toNat?, natsOrEmpty gidsS with
    | some fmt, some size, some gids =>
      let render := fun (look : Nat → Option Nat) =>
        some (joinStrs (gids.map (fun g => match look g with | some v => toString v | none => "e")))
      if size ≠ 2 ∧ size ≠ 4 then none else
      let trunc := fun (v : Nat) => if size = 2 then v % 65536 else v
      match fmt, ps with
      | 0, [hex] => (parseHex? hex).bind (fun d => render (lookup0 d size))
      | 2, xs => ((natsOrEmpty xs).bind triples).bind (fun segs => render (lookup2 segs))
      | 6, xs => ((natsOrEmpty xs).bind pairs).bind (fun es => render (lookup6 es))
      | 4, hex :: xs =>
        match parseHex? hex, (natsOrEmpty (if xs.isEmpty then ["-"] else xs)).bind triples with
        | some d, some segs => render (fun g => lookup4 d segs g size)
        | _, _ => none
      | 8, xs =>
        match natsOrEmpty xs with
        | some (first :: vals) => render (lookup8 first vals)
        | _ => none
      | 10, [first, unit, hex] =>
        match first.toNat?, unit.toNat?, parseHex? hex with
        | some first, some unit, some d => render (fun g => (lookup10 first unit d g).map trunc)
        | _, _, _ => none
      | _, _ => none
    | _, _, _ => none
  | _, _ => none

def handle (cmd : String) (args : List String) : Option String :=
  match cmd, args with
  | "hd.cur", hex :: ops =>
    match parseHex? hex with
    | none => none
    | some d =>
      let ops := if ops = ["-"] then [] else ops
      match ops.mapM parseOp with
      | none => none
      | some ops =>
        let r := runOps d Cur.init ops
        let c := r.2
        some (joinStrs r.1 ++ s!" | {c.pos} {readStr (c.position d)} {c.remainingBytes d} {optStr (c.remaining d)} {if c.isEmpty d then 1 else 0} {if c.finish d then "ok" else "eO"}")
  | "hd.comp", [dl, il] =>
    match dl.toNat?, il.toNat? with
    | some dl, some il =>
      let idxs := [0, 1, 2, 5, 6, 7, 12, 13, MAXU / 2, MAXU]
      let marks := idxs.map (fun i => if (compGet dl il i).isSome then "o" else "e")
      -- value records of the empty value format: item size 0
      let vr := s!"{compLen dl 0}{if (compGet dl 0 0).isSome then "o" else "e"}"
      some (" ".intercalate ([toString (compLen dl il)] ++ marks ++ [vr]))
    | _, _ => none
  | "hd.trav", [dl, il] =>
    -- number of items the traversal of a computed-size record array yields
    match dl.toNat?, il.toNat? with
    | some dl, some il =>
      match travTrace dl il with
      | none => some "fuel"
      | some evs => some (toString (items evs).length)
    | _, _ => none
  | "hd.fd.read", [hex, o, w] =>
    match parseHex? hex, o.toNat?, w.toNat? with
    | some d, some o, some w =>
      let r := readStr (readAt d o w)
      some s!"{r} {r} {r}"
    | _, _, _ => none
  | "hd.fd.split", [hex, o] =>
    match parseHex? hex, o.toNat? with
    | some d, some o => some (optStr (splitOff d o))
    | _, _ => none
  | "hd.fd.take", [hex, o] =>
    match parseHex? hex, o.toNat? with
    | some d, some o => let r := takeUpTo d o; some s!"{optStr r.1} {r.2}"
    | _, _ => none
  | "hd.fd.slice", [hex, o, e] =>
    match parseHex? hex, o.toNat?, e.toNat? with
    | some d, some o, some e =>
      some s!"{optStr (sliceExcl d o e)} {optStr (sliceIncl d o e)} {optStr (splitOff d o)} {optStr (sliceTo d e)}"
    | _, _, _ => none
  | "hd.fd.array", [hex, o, e] =>
    match parseHex? hex, o.toNat?, e.toNat? with
    | some d, some o, some e =>
      some s!"{arrStr (readArray d o e 1)} {arrStr (readArray d o e 2)} {arrStr (readArray d o e 3)} {arrStr (readArray d o e 4)}"
    | _, _, _ => none
  | _, _ => handleIter cmd args

end FontVerif.Drv.C01Hand
