/- line-protocol handlers for Model/HandLayout.lean.  All commands are prefixed `hl.`. -/
import FontVerif.Model.HandLayout
import FontVerif.Drv.C01Iter
namespace FontVerif.Drv.C01HandLayout
open FontVerif FontVerif.ReadIter FontVerif.HandRead FontVerif.HandLayout FontVerif.Layout

def errStr : LErr → String
  | .oob => "e:O"
  | .invalidFormat n => s!"e:F{n}"
  | .nullOffset => "e:N"
  | .badIndex n => s!"e:C{n}"

def resNat : Res Nat → String
  | .val v => toString v
  | .trap => "trap"

def resOpt : Res (Option Nat) → String
  | .val (some v) => toString v
  | .val none => "n"
  | .trap => "trap"

def resBool : Res Bool → String
  | .val true => "1"
  | .val false => "0"
  | .trap => "trap"

def joinStrs (xs : List String) : String := if xs.isEmpty then "-" else " ".intercalate xs

/-- split a list at the first "|" -/
def splitBar (xs : List String) : List String × List String :=
  (xs.takeWhile (· ≠ "|"), (xs.dropWhile (· ≠ "|")).drop 1)

def natsOrEmpty (xs : List String) : Option (List Nat) :=
  if xs = ["-"] ∨ xs = [] then some [] else parseNats? xs

/-- `<count> <fnv>` of a list; for more than 2100 items the hash covers the first 2000 and the last 100 -/
def digest (xs : List Nat) : String :=
  let n := xs.length
  let ys := if n > 2100 then xs.take 2000 ++ xs.drop (n - 100) else xs
  s!"{n} {Drv.C01Iter.fnv ys}"

def u8OfInt (v : Int) : Nat := (v % 256).toNat

def devStr (v : Dev) : String :=
  match devIter v with
  | .trap => "trap"
  | .val xs => digest (xs.map u8OfInt) ++ " " ++ joinStrs ((xs.take 12).map toString)

/-- the "|"-separated number lists of a request -/
def barLists (xs : List String) : Nat → Option (List (List Nat))
  | 0 => none
  | fuel + 1 =>
    if xs.isEmpty then some []
    else
      let (a, b) := splitBar xs
      match natsOrEmpty a, barLists b fuel with
      | some s, some r => some (s :: r)
      | _, _ => none

def closureStr : Option (CR G16) → String
  | none => "fuel"
  | some (.ok gs) => s!"ok {digest gs}"
  | some (.err e) => errStr e
  | some .trap => "trap"

def handle (cmd : String) (args : List String) : Option String :=
  match cmd, args with
  | "hl.cov", hex :: gids =>
    match parseHex? hex, natsOrEmpty gids with
    | some d, some gs =>
      match covRead d with
      | .error e => some (errStr e)
      | .ok c =>
        let f := match c with | .fmt1 _ => "f1" | .fmt2 _ => "f2"
        some s!"{f} {resNat (covPop c)} {digest (covIter c)} | {joinStrs (gs.map (fun g => resOpt (covGet c g)))}"
    | _, _ => none
  | "hl.covx", hex :: rest =>
    -- `rest` = the glyph sets, separated by "|"
    match parseHex? hex with
    | none => none
    | some d =>
      let rec sets (xs : List String) (fuel : Nat) : Option (List (List Nat)) :=
        match fuel with
        | 0 => none
        | fuel + 1 =>
          if xs.isEmpty then some []
          else
            let (a, b) := splitBar xs
            match natsOrEmpty a, sets b fuel with
            | some s, some r => some (s :: r)
            | _, _ => none
      match sets rest (rest.length + 1) with
      | none => none
      | some ss =>
        match covRead d with
        | .error e => some (errStr e)
        | .ok c =>
          let whole := "".intercalate (ss.map (fun s => resBool (covIntersects c s)))
          let recs := match c with
            | .fmt1 _ => []
            | .fmt2 rs => (rs.take 4).map (fun r =>
                let ints := "".intercalate (ss.map (fun s => if rangeIntersects r s then "1" else "0"))
                s!"{resNat (rangePop r.start r.end_)}:{digest (rangeIter r)}:{ints}")
          some s!"{whole} {joinStrs recs}"
  | "hl.cls", hex :: gids =>
    match parseHex? hex, natsOrEmpty gids with
    | some d, some gs =>
      match clsRead d with
      | .error e => some (errStr e)
      | .ok c =>
        let f := match c with | .fmt1 _ _ => "f1" | .fmt2 _ => "f2"
        let it := (clsIter c).flatMap (fun p => [p.1, p.2])
        let recs := match c with
          | .fmt1 _ _ => []
          | .fmt2 rs => (rs.take 4).map (fun r => resNat (rangePop r.start r.end_))
        some s!"{f} {resNat (clsPop c)} {digest it} {joinStrs recs} | {joinStrs (gs.map (fun g => resNat (clsGet c g)))}"
    | _, _ => none
  | "hl.dev", [hex] =>
    match parseHex? hex with
    | none => none
    | some d =>
      let a := match devRead d with
        | .error e => errStr e
        | .ok v => s!"{v.start} {v.end_} {v.words.length} {devStr v}"
      let b := match devOrVarRead d with
        | .error e => errStr e
        | .ok (.device v) => s!"D {devStr v}"
        | .ok (.varIdx o i) => s!"V {o} {i}"
      some s!"{a} | {b}"
  | "hl.closure", hex :: rest =>
    match parseHex? hex, barLists rest (rest.length + 1) with
    | some d, some sets =>
      match gsubRead d with
      | .error e => some (errStr e)
      | .ok g =>
        some (" | ".intercalate (sets.map (fun s => closureStr (closureGlyphs g (G16.ofList s)))))
    | _, _ => none
  | "hl.collect", hex :: rest =>
    -- three "|"-separated tag sets (scripts, languages, features): `<inverted 0/1> <tag…>`
    match parseHex? hex, barLists rest (rest.length + 1) with
    | some d, some [s, l, f] =>
      let mk := fun (xs : List Nat) => match xs with
        | inv :: ts => some (TagSet.mk (inv = 1) ts)
        | [] => none
      match mk s, mk l, mk f with
      | some ss, some ls, some fs =>
        (match gsubRead d with
        | .error e => some (errStr e)
        | .ok _ =>
          match collectRead d with
          | .error e => some (errStr e)
          | .ok (ftags, recs) =>
            match collectFeatures 0 ftags recs ss ls fs with
            | .trap => some "trap"
            | .val (.error e) => some (errStr e)
            | .val (.ok out) => some s!"ok {joinStrs (out.map toString)}")
      | _, _, _ => none
    | _, _ => none
  | "hl.lookup", [hex] =>
    match parseHex? hex with
    | none => none
    | some d =>
      match lookupAt d 0 with
      | .error e => some (errStr e)
      | .ok (.error e) => some s!"S:{errStr e}"
      | .ok (.ok subs) =>
        let tag := fun (s : PR Sub) => match s with
          | .error e => errStr e
          | .ok (.single1 _ _) => "s1"
          | .ok (.single2 _ _) => "s2"
          | .ok (.multiple _ _) => "m"
          | .ok (.ligature _ _) => "l"
          | .ok (.reverse _ _ _) => "r"
          | .ok (.ctx1 _ _) => "c1"
          | .ok (.ctx2 _ _ _) => "c2"
          | .ok (.ctx3 _ _ _) => "c3"
        some s!"{subs.length} {joinStrs (subs.map tag)} | {errStr (.badIndex subs.length)}"
  | "hl.slist", hex :: rest =>
    -- `rest` = tags for `index_for_tag` | tags for `select`
    match parseHex? hex with
    | none => none
    | some d =>
      let (a, b) := splitBar rest
      match natsOrEmpty a, natsOrEmpty b with
      | some ts, some sel =>
        match scriptListRead d with
        | .error e => some (errStr e)
        | .ok recs =>
          let tags := recs.map (·.1)
          let ix := ts.map (fun t => match indexForTag tags t with | some i => toString i | none => "n")
          let s := match select tags sel with
            | some (t, i, fb) => s!"{t} {i} {if fb then 1 else 0}"
            | none => "n"
          some s!"{recs.length} | {joinStrs ix} | {s}"
      | _, _ => none
  | "hl.script", hex :: ts =>
    match parseHex? hex, natsOrEmpty ts with
    | some d, some ts =>
      match scriptRead d with
      | .error e => some (errStr e)
      | .ok recs =>
        let tags := recs.map (·.1)
        some s!"{recs.length} | {joinStrs (ts.map (fun t => match indexForTag tags t with | some i => toString i | none => "n"))}"
    | _, _ => none
  | "hl.stags", tags =>
    match natsOrEmpty tags with
    | none => none
    | some ts =>
      some (joinStrs (ts.map (fun u => match scriptTagsFromUnicode u with
        | .trap => "trap"
        | .val xs => ",".intercalate (xs.map toString))))
  | _, _ => none

end FontVerif.Drv.C01HandLayout
