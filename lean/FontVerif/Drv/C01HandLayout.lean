/- line-protocol handlers for Model/HandLayout.lean.  All commands are prefixed `hl.`. -/
import FontVerif.Model.HandLayout
namespace FontVerif.Drv.C01HandLayout
open FontVerif FontVerif.ReadIter FontVerif.HandRead FontVerif.HandLayout

def handle (cmd : String) (args : List String) : Option String :=
  match cmd, args with
  | _, _ => none

end FontVerif.Drv.C01HandLayout
