/- line-protocol handlers for Model/HandBitmap.lean.  All commands are prefixed `hb.`.

  hb.list <off> <size> <n> <hex d>                          BitmapSize::index_subtable_list + records
  hb.sub  <last> <first> <hex sd>                           IndexSubtable::read_with_args + accessors
  hb.loc  <off> <size> <n> <start> <end> <depth> <hex d> <gid>…   BitmapSize::location per glyph id
  hb.data <color> <format> <offset> <size> <depth> <metrics hex|-> <hex d>   bitmap_data
  hb.sbix <num_glyphs> <hex strike> <gid>…                  Strike::read + Strike::glyph_data per glyph id
-/
import FontVerif.Model.HandBitmap
namespace FontVerif.Drv.C01HandBitmap
open FontVerif FontVerif.HandRead FontVerif.HandBitmap

def errStr : BErr → String
  | .oob => "e:OutOfBounds"
  | .invalidArrayLen => "e:InvalidArrayLen"
  | .nullOffset => "e:NullOffset"
  | .invalidFormat f => s!"e:InvalidFormat({f})"
  | .invalidIndex g => s!"e:InvalidCollectionIndex({g})"
  | .noMetrics => "e:Malformed:metrics"
  | .badFormat => "e:Malformed:format"

def resStr {α : Type} (f : α → String) : Res α → String
  | .ok a => f a
  | .err e => errStr e
  | .trap => "trap"

def locStr (l : Loc) : String :=
  let m := match l.metrics with | some m => toHex m | none => "none"
  s!"ok:{l.format}:{l.dataOffset}:{l.dataSize}:{l.bitDepth}:{m}:{if l.isEmpty then 1 else 0}"

def subStr (sd : List Nat) (sub : Sub) : String :=
  let v := match sub with
    | .f1 c => s!"1:{c}" | .f2 => "2:1" | .f3 c => s!"3:{c}" | .f4 c => s!"4:{c}" | .f5 c => s!"5:{c}"
  s!"ok:{v}:{subIndexFormat sd}:{subImageFormat sd}:{subImageDataOffset sd}:{subMinEnd sub}:{sd.length}"

def kindStr : Kind → String
  | .byteAligned => "byte" | .bitAligned => "bit" | .png => "png" | .composite => "comp"

def dataStr (b : BData) : String :=
  let pos := if b.count = 0 then "-" else toString b.start
  s!"ok:{if b.small then "S" else "B"}:{toHex b.metrics}:{kindStr b.kind}:{b.count}:{pos}"

def joinStrs (xs : List String) : String := if xs.isEmpty then "-" else " ".intercalate xs

def glyphStr (sd : List Nat) : Option (Nat × Nat) → String
  | none => "none"
  | some (s, e) => s!"ok:{s}:{e}:{beAt sd s 2}:{beAt sd (s + 2) 2}:{beAt sd (s + 4) 4}:{e - s - 8}"

def handle (cmd : String) (args : List String) : Option String :=
  match cmd, args with
  | "hb.list", [off, size, n, hex] =>
    match off.toNat?, size.toNat?, n.toNat?, parseHex? hex with
    | some off, some size, some n, some d =>
      match indexSubtableList d off size n with
      | .error e => some (errStr e)
      | .ok ld =>
        let rs := (records ld n).map (fun r => s!"{r.1},{r.2.1},{r.2.2}")
        some s!"ok:{ld.length}:{joinStrs rs}"
    | _, _, _, _ => none
  | "hb.sub", [last, first, hex] =>
    match last.toNat?, first.toNat?, parseHex? hex with
    | some last, some first, some sd =>
      match readSubtable sd last first with
      | .error e => some (errStr e)
      | .ok sub => some (subStr sd sub)
    | _, _, _ => none
  | "hb.loc", off :: size :: n :: start :: end_ :: depth :: hex :: gids =>
    match parseNats? [off, size, n, start, end_, depth], parseHex? hex, parseNats? gids with
    | some [off, size, n, start, end_, depth], some d, some gids =>
      let sz : Size := { listOffset := off, listSize := size, numSubtables := n, startGlyph := start,
                         endGlyph := end_, bitDepth := depth }
      some (joinStrs (gids.map (fun g => resStr locStr (location d sz g))))
    | _, _, _ => none
  | "hb.data", [color, format, off, size, depth, mhex, hex] =>
    match parseNats? [color, format, off, size, depth], parseHex? hex with
    | some [color, format, off, size, depth], some d =>
      let metrics : Option (Option (List Nat)) :=
        if mhex = "-" then some none
        else match parseHex? mhex with
          | some m => if m.length = 8 then some (some m) else none
          | none => none
      match metrics with
      | none => none
      | some metrics =>
        if color > 1 then none else
        let loc : Loc := { format := format, dataOffset := off, dataSize := size, bitDepth := depth, metrics := metrics }
        some (resStr dataStr (bitmapData d loc (color = 1)))
    | _, _ => none
  | "hb.sbix", ng :: hex :: gids =>
    match ng.toNat?, parseHex? hex, parseNats? gids with
    | some ng, some sd, some gids =>
      match strikeRead sd ng with
      | .error e => some (errStr e)
      | .ok count => some (joinStrs (gids.map (fun g => resStr (glyphStr sd) (glyphData sd count g))))
    | _, _, _ => none
  | _, _ => none

end FontVerif.Drv.C01HandBitmap
