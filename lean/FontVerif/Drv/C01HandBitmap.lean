/- line-protocol handlers for Model/HandBitmap.lean.  All commands are prefixed `hb.`. -/
import FontVerif.Model.HandBitmap
namespace FontVerif.Drv.C01HandBitmap
open FontVerif FontVerif.ReadIter FontVerif.HandRead FontVerif.HandBitmap

def handle (cmd : String) (args : List String) : Option String :=
  match cmd, args with
  | _, _ => none

end FontVerif.Drv.C01HandBitmap
