/- line-protocol handlers for the C17 Layout models (stub; see Props/C17Layout.lean) -/
import FontVerif.Model.Base
namespace FontVerif.Drv.C17Layout
open FontVerif

def handle (cmd : String) (args : List String) : Option String :=
  match cmd with
  | _ => none

end FontVerif.Drv.C17Layout
