/- line-protocol handlers for the C17 layout models (Model/SubsetLayout.lean, Model/SubsetGdef.lean)

plan prefix of every request:   <numGlyphs> S <glyphset…|-> M <old new …|-> ;
tables (token grammar, counts explicit):
  coverage   := b | 1 <n> <g>*n | 2 <n> (<start> <end> <startCoverageIndex>)*n
  classdef   := 1 <startGlyph> <n> <class>*n | 2 <n> (<start> <end> <class>)*n
  sub(x)     := a | b | o x                       (absent / unreadable / ok)
  attachlist := <coverage> <glyphCount> <n> (b | <hex AttachPoint bytes>)*n
  caret      := b | 1 <hex> | 2 <hex> | 3 <coordinate u16> (b | d <hex Device bytes> | v <outer> <inner>)
  lig        := b | l <k> caret*k
  ligcarets  := <coverage> <ligGlyphCount> <n> lig*n
  marksets   := <format> <n> coverage*n           (coverage `b` = unreadable)
  store      := <format> (b | r <axisCount> <nRegions> <start peak end>*(nRegions*axisCount))
                <nSubs> (n | b | o <itemCount> <wordDeltaCount> <ric> <ri>*ric <hex delta sets>)*nSubs

  c17.cov      <plan> ; <coverage>                          -> ok <hex> | empty | soft | hard | trap
  c17.covser   <g>… | -                                     -> (CoverageTable::serialize) ok <hex> | …
  c17.classdef <plan> ; <remap> <keepEmpty> <useClassZero> (n | f <coverage>) <classdef>
                                                            -> ok <hex> map=<old:new,…|none> | empty | …
  c17.cdser    <g c>… | -                                   -> (ClassDef::serialize) ok <hex> | trap
  c17.gdef     <plan> ; <major> <minor> sub(classdef) sub(attachlist) sub(ligcarets) sub(classdef)
               sub(marksets) sub(store)                     -> ok <hex> | dropped | fail | trap
  c17.gdefsem  same request -> ok <the written GDEF in the request's token grammar> | dropped | fail | trap
  c17.gdefplan same request -> vmap=<old:new,…|-> inner=<a b|…,…> sets=<old:new,…|->
  c17.covget   <coverage> <g>…  -> C16's reader `Coverage.get` per glyph (`-` = none)
  c17.cdget    <classdef> <g>…  -> C16's reader `ClassDef.get` per glyph
-/
import FontVerif.Model.SubsetGdef
namespace FontVerif.Drv.C17Layout
open FontVerif FontVerif.Layout FontVerif.SubsetLayout FontVerif.SubsetGdef

/-- a parser consumes tokens from the front -/
abbrev P (α : Type) := List String → Option (α × List String)

def pNat : P Nat
  | t :: rest => (parseNat? t).map (·, rest)
  | [] => none

def pInt : P Int
  | t :: rest => (parseInt? t).map (·, rest)
  | [] => none

def pHex : P (List Nat)
  | t :: rest => (parseHex? t).map (·, rest)
  | [] => none

def pTimes {α : Type} (p : P α) : Nat → P (List α)
  | 0, ts => some ([], ts)
  | n + 1, ts =>
    match p ts with
    | none => none
    | some (x, rest) =>
      match pTimes p n rest with
      | none => none
      | some (xs, rest') => some (x :: xs, rest')

def pCounted {α : Type} (p : P α) : P (List α) := fun ts =>
  match pNat ts with
  | none => none
  | some (n, rest) => pTimes p n rest

def pRange : P RangeRec := fun ts =>
  match pTimes pNat 3 ts with
  | some ([a, b, c], rest) => some (⟨a, b, c⟩, rest)
  | _ => none

def pClassRange : P ClassRangeRec := fun ts =>
  match pTimes pNat 3 ts with
  | some ([a, b, c], rest) => some (⟨a, b, c⟩, rest)
  | _ => none

/-- `none` inside = unreadable -/
def pCoverage : P (Option Coverage)
  | "b" :: rest => some (none, rest)
  | "1" :: rest => (pCounted pNat rest).map fun (xs, r) => (some (.fmt1 xs), r)
  | "2" :: rest => (pCounted pRange rest).map fun (xs, r) => (some (.fmt2 xs), r)
  | _ => none

def pClassDef : P ClassDef
  | "1" :: rest =>
    match pNat rest with
    | none => none
    | some (s, rest) => (pCounted pNat rest).map fun (xs, r) => (.fmt1 s xs, r)
  | "2" :: rest => (pCounted pClassRange rest).map fun (xs, r) => (.fmt2 xs, r)
  | _ => none

def pSub {α : Type} (p : P α) : P (Tbl α)
  | "a" :: rest => some (.absent, rest)
  | "b" :: rest => some (.bad, rest)
  | "o" :: rest => (p rest).map fun (x, r) => (.ok x, r)
  | _ => none

def pPoint : P (Option (List Nat))
  | "b" :: rest => some (none, rest)
  | ts => (pHex ts).map fun (x, r) => (some x, r)

def pAttachList : P AttachListIn := fun ts => do
  let (cov, ts) ← pCoverage ts
  let (gc, ts) ← pNat ts
  let (pts, ts) ← pCounted pPoint ts
  some ({ cov, glyphCount := gc, points := pts }, ts)

def pCaret : P CaretIn
  | "b" :: rest => some (.bad, rest)
  | "1" :: rest => (pHex rest).map fun (x, r) => (.f1 x, r)
  | "2" :: rest => (pHex rest).map fun (x, r) => (.f2 x, r)
  | "3" :: rest =>
    match pNat rest with
    | none => none
    | some (c, rest) =>
      match rest with
      | "b" :: rest => some (.f3 c none, rest)
      | "d" :: rest => (pHex rest).map fun (x, r) => (.f3 c (some (.device x)), r)
      | "v" :: rest =>
        match pTimes pNat 2 rest with
        | some ([o, i], r) => some (.f3 c (some (.varIdx o i)), r)
        | _ => none
      | _ => none
  | _ => none

def pLig : P LigIn
  | "b" :: rest => some (.bad, rest)
  | "l" :: rest => (pCounted pCaret rest).map fun (x, r) => (.ok x, r)
  | _ => none

def pLigCarets : P LigCaretListIn := fun ts => do
  let (cov, ts) ← pCoverage ts
  let (n, ts) ← pNat ts
  let (ligs, ts) ← pCounted pLig ts
  some ({ cov, count := n, ligs }, ts)

def pMarkSets : P MarkSetsIn := fun ts => do
  let (f, ts) ← pNat ts
  let (sets, ts) ← pCounted pCoverage ts
  some ({ format := f, sets }, ts)

def chunk {α} (k : Nat) : Nat → List α → List (List α)
  | 0, _ => []
  | n + 1, xs => xs.take k :: chunk k n (xs.drop k)

def triples : List Int → List (Int × Int × Int)
  | a :: b :: c :: rest => (a, b, c) :: triples rest
  | _ => []

def pSubTable : P SubsetHvar.SubIn
  | "n" :: rest => some (.null, rest)
  | "b" :: rest => some (.bad, rest)
  | "o" :: rest => do
    let (hd, rest) ← pTimes pNat 3 rest
    let [ic, wdc, ric] := hd | none
    let (ris, rest) ← pTimes pNat ric rest
    let (data, rest) ← pHex rest
    some (.ok { itemCount := ic, wordDeltaCount := wdc, regionIndexes := ris, data }, rest)
  | _ => none

def pStore : P StoreIn := fun ts => do
  let (f, ts) ← pNat ts
  let (regions, ts) ←
    match ts with
    | "b" :: rest => some (none, rest)
    | "r" :: rest => do
      let (ac, rest) ← pNat rest
      let (nr, rest) ← pNat rest
      let (vals, rest) ← pTimes pInt (nr * ac * 3) rest
      some (some (ac, chunk ac nr (triples vals)), rest)
    | _ => none
  let (subs, ts) ← pCounted pSubTable ts
  some ({ format := f, regions, subs }, ts)

def pairs : List Nat → Option (List (Nat × Nat))
  | [] => some []
  | [_] => none
  | a :: b :: rest => (pairs rest).map ((a, b) :: ·)

def natList (ts : List String) : Option (List Nat) :=
  if ts = ["-"] then some [] else parseNats? ts

/-- `<numGlyphs> S … M … ;` -/
def pPlan : P LPlan := fun ts => do
  let (n, ts) ← pNat ts
  let "S" :: ts := ts | none
  let s := ts.takeWhile (· ≠ "M")
  let "M" :: ts := ts.dropWhile (· ≠ "M") | none
  let m := ts.takeWhile (· ≠ ";")
  let ";" :: ts := ts.dropWhile (· ≠ ";") | none
  let glyphset ← natList s
  let gmap ← pairs (← natList m)
  some ({ glyphset, gmap, numGlyphs := n }, ts)

def pBool : P Bool
  | "0" :: rest => some (false, rest)
  | "1" :: rest => some (true, rest)
  | _ => none

def pGdef : P GdefIn := fun ts => do
  let (major, ts) ← pNat ts
  let (minor, ts) ← pNat ts
  let (gc, ts) ← pSub pClassDef ts
  let (al, ts) ← pSub pAttachList ts
  let (lc, ts) ← pSub pLigCarets ts
  let (ma, ts) ← pSub pClassDef ts
  let (ms, ts) ← pSub pMarkSets ts
  let (vs, ts) ← pSub pStore ts
  some ({ major, minor, glyphClassDef := gc, attachList := al, ligCaretList := lc,
          markAttachClassDef := ma, markGlyphSets := ms, varStore := vs }, ts)

def errStr : E → String
  | .empty => "empty"
  | .soft => "soft"
  | .hard => "hard"
  | .trap => "trap"

def fmtM (r : M (List Nat)) : String :=
  match r with
  | .ok bs => s!"ok {toHex bs}"
  | .error e => errStr e

def fmtPairs (ps : List (Nat × Nat)) : String :=
  if ps.isEmpty then "-" else ",".intercalate (ps.map fun p => s!"{p.1}:{p.2}")

def fmtOpt (o : Option Nat) : String :=
  match o with
  | some v => toString v
  | none => "-"

/-! ### the written GDEF in the token grammar of the requests (what read-fonts parses from the real
output is printed in the same grammar by the harness) -/

def tokCov : Coverage → String
  | .fmt1 xs => if xs.isEmpty then "1 0" else s!"1 {xs.length} {joinNats xs}"
  | .fmt2 rs => rs.foldl (fun acc r => acc ++ s!" {r.start} {r.end_} {r.startCov}") s!"2 {rs.length}"

def tokClassDef : ClassDef → String
  | .fmt1 st cs => if cs.isEmpty then s!"1 {st} 0" else s!"1 {st} {cs.length} {joinNats cs}"
  | .fmt2 rs => rs.foldl (fun acc r => acc ++ s!" {r.start} {r.end_} {r.cls}") s!"2 {rs.length}"

def tokOpt {α : Type} (o : Option α) (f : α → String) : String :=
  match o with
  | none => "a"
  | some x => "o " ++ f x

def tokCaret : CaretOut → String
  | .plain bs => s!"{bs.getD 1 0} {toHex bs}"
  | .f3 coord dev =>
    if dev.length = 6 ∧ dev.getD 4 0 = 128 ∧ dev.getD 5 0 = 0 then
      s!"3 {coord} v {dev.getD 0 0 * 256 + dev.getD 1 0} {dev.getD 2 0 * 256 + dev.getD 3 0}"
    else s!"3 {coord} d {toHex dev}"

def tokAttach (a : AttachOut) : String :=
  a.points.foldl (fun acc p => acc ++ " " ++ toHex p)
    s!"{tokCov a.cov.toCoverage} {a.points.length} {a.points.length}"

def tokLig (l : LigOut) : String :=
  l.ligs.foldl (fun acc cs => cs.foldl (fun acc c => acc ++ " " ++ tokCaret c) (acc ++ s!" l {cs.length}"))
    s!"{tokCov l.cov.toCoverage} {l.ligs.length} {l.ligs.length}"

def tokSets (m : Nat × List CovW) : String :=
  m.2.foldl (fun acc w => acc ++ " " ++ tokCov w.toCoverage) s!"{m.1} {m.2.length}"

def tokStore (st : Nat × SubsetHvar.StoreOut) : String :=
  let regs := st.2.regions.foldl (fun acc r => r.foldl (fun acc a => acc ++ s!" {a.1} {a.2.1} {a.2.2}") acc)
    s!"{st.1} r {st.2.axisCount} {st.2.regions.length}"
  st.2.subs.foldl (fun acc t =>
    acc ++ s!" o {t.itemCount} {t.wordDeltaCount} {t.regionIndexes.length}" ++
      t.regionIndexes.foldl (fun a r => a ++ s!" {r}") "" ++ " " ++ toHex t.data)
    (regs ++ s!" {st.2.subs.length}")

def tokGdef (o : GdefOut) : String :=
  s!"{o.major} {o.minor} {tokOpt o.glyphClassDef tokClassDef} {tokOpt o.attachList tokAttach} " ++
  s!"{tokOpt o.ligCaretList tokLig} {tokOpt o.markAttachClassDef tokClassDef} " ++
  s!"{tokOpt o.markGlyphSets tokSets} {tokOpt o.varStore tokStore}"

def handle (cmd : String) (args : List String) : Option String :=
  match cmd with
  | "c17.cov" => do
    let (p, ts) ← pPlan args
    let (some c, []) ← pCoverage ts | none
    some (fmtM ((subsetCoverage p c).map CovW.bytes))
  | "c17.covser" => do
    let gs ← natList args
    some (fmtM ((serializeCoverage gs).map CovW.bytes))
  | "c17.classdef" => do
    let (p, ts) ← pPlan args
    let (flags, ts) ← pTimes pBool 3 ts
    let [remap, keep, zero] := flags | none
    let (filter, ts) ←
      match ts with
      | "n" :: rest => some (none, rest)
      | "f" :: rest =>
        match pCoverage rest with
        | some (some c, r) => some (some c, r)
        | _ => none
      | _ => none
    let (cd, []) ← pClassDef ts | none
    match subsetClassDef p { remapClass := remap, keepEmpty := keep, useClassZero := zero, filter } cd with
    | .error e => some (errStr e)
    | .ok (out, cm) =>
      let m := match cm with
        | none => "none"
        | some cm => fmtPairs cm
      some s!"ok {toHex (classDefBytes out)} map={m}"
  | "c17.cdser" => do
    let ps ← pairs (← natList args)
    some (fmtM ((serializeClassDef ps).map classDefBytes))
  | "c17.gdef" => do
    let (p, ts) ← pPlan args
    let (g, []) ← pGdef ts | none
    match subsetGdef p g with
    | .ok bs => some s!"ok {toHex bs}"
    | .dropped => some "dropped"
    | .fail => some "fail"
    | .trap => some "trap"
  | "c17.gdefsem" => do
    -- the structured output the theorems speak about; "dropped" also when the layout overflows
    let (p, ts) ← pPlan args
    let (g, []) ← pGdef ts | none
    match subsetGdefSem p g with
    | .error .hard => some "fail"
    | .error .trap => some "trap"
    | .error _ => some "dropped"
    | .ok o =>
      match encodeGdef o with
      | none => some "dropped"
      | some _ => some s!"ok {tokGdef o}"
  | "c17.gdefplan" => do
    let (p, ts) ← pPlan args
    let (g, []) ← pGdef ts | none
    let vp := varPlan p g
    let inner := if vp.inner.isEmpty then "-" else ",".intercalate (vp.inner.map joinNats)
    some s!"vmap={fmtPairs vp.vmap} inner={inner} sets={fmtPairs (usedMarkSetsMap p g)}"
  | "c17.covget" => do
    let (some c, ts) ← pCoverage args | none
    let gs ← natList ts
    some (" ".intercalate (gs.map fun g => fmtOpt (c.get g)))
  | "c17.cdget" => do
    let (cd, ts) ← pClassDef args
    let gs ← natList ts
    some (joinNats (gs.map fun g => cd.get g))
  | _ => none

end FontVerif.Drv.C17Layout
