/- line-protocol handlers for the C20 kernels (Model/Checked.lean).
Every response is `trap` (the kernel is `none`) or the kernel's value. -/
import FontVerif.Model.Base
import FontVerif.Model.Checked
namespace FontVerif.Drv.C20
open FontVerif FontVerif.Checked

def optInt : Option Int → String
  | none => "trap"
  | some v => toString v

def optOptInt : Option (Option Int) → String
  | none => "trap"
  | some none => "none"
  | some (some v) => toString v

def tyOf (bits : Int) : Option IntTy :=
  if bits = 16 then some i16 else if bits = 32 then some i32 else none

/-- split `n` leading items off a list -/
def takeN (n : Int) (xs : List Int) : Option (List Int × List Int) :=
  if n < 0 then none else
  let t := xs.take n.toNat
  if t.length < n.toNat then none else some (t, xs.drop n.toNat)

def pairs : List Int → Option (List (Int × Int))
  | [] => some []
  | a :: b :: rest => (pairs rest).map ((a, b) :: ·)
  | _ => none

def triples : List Int → Option (List (Int × Int × Int))
  | [] => some []
  | a :: b :: c :: rest => (triples rest).map ((a, b, c) :: ·)
  | _ => none

/-- `nCols (nAxes (s p e)* delta)*` -/
def parseCols : Nat → List Int → Option (List (List (Int × Int × Int) × Int) × List Int)
  | 0, xs => some ([], xs)
  | k + 1, nAxes :: xs => do
    let (ax, r) ← takeN (3 * nAxes) xs
    let axes ← triples ax
    match r with
    | d :: r' => do
      let (cols, r'') ← parseCols k r'
      pure ((axes, d) :: cols, r'')
    | [] => none
  | _, _ => none

def optList : Option (List Int) → String
  | none => "trap"
  | some l => joinInts l

def boolOf (x : Int) : Bool := x ≠ 0

/-- `(short same raw)*` -/
def axisTriples : List Int → Option (List (Bool × Bool × Int))
  | [] => some []
  | a :: b :: c :: rest => (axisTriples rest).map ((boolOf a, boolOf b, c) :: ·)
  | _ => none

def handle (cmd : String) (args : List String) : Option String :=
  match parseInts? args with
  | none => none
  | some xs =>
    match cmd, xs with
    | "fx.round", [b, f, a] => (tyOf b).map fun t => optInt (fxRound t f.toNat a)
    | "fx.abs", [b, a] => (tyOf b).map fun t => optInt (fxAbs t a)
    | "fx.floor", [b, f, a] => (tyOf b).map fun t => optInt (fxFloor t f.toNat a)
    | "fx.fract", [b, f, a] => (tyOf b).map fun t => optInt (fxFract t f.toNat a)
    | "fx.neg", [a] => some (optInt (fxNeg a))
    | "fx.add", [a, b] => some (toString (fxAdd a b))
    | "fx.sub", [a, b] => some (toString (fxSub a b))
    | "fx.mul", [a, b] => some (optInt (fxMul a b))
    | "fx.div", [a, b] => some (optInt (fxDiv a b))
    | "fx.muldiv", [s, a, b] => some (optInt (fxMulDiv s a b))
    | "fx.fromi32", [a] => some (optInt (fxFromI32 a))
    | "fx.toi32", [a] => some (optInt (fxToI32 a))
    | "fx.tof26", [a] => some (optInt (fxToF26Dot6 a))
    | "fx.tof2", [a] => some (optInt (fxToF2Dot14 a))
    | "f26.fromi32", [a] => some (optInt (f26FromI32 a))
    | "f26.toi32", [a] => some (optInt (f26ToI32 a))
    | "f2.tofixed", [a] => some (optInt (f2ToFixed a))
    | "h.floor", [a] => some (optInt (hFloor a))
    | "h.round", [a] => some (optInt (hRound a))
    | "h.ceil", [a] => some (optInt (hCeil a))
    | "h.roundpad", [a, n] => some (optInt (hRoundPad a n))
    | "h.mul", [a, b] => some (optInt (hMul a b))
    | "h.div", [a, b] => some (optInt (hDiv a b))
    | "h.muldiv", [a, b, c] => some (optInt (hMulDiv a b c))
    | "h.mdnr", [a, b, c] => some (optInt (hMulDivNoRound a b c))
    | "h.mul14", [a, b] => some (optInt (hMul14 a b))
    | "rs.round", [m, t, p, per, d] => some (optInt (roundStateRound m t p per d))
    | "avar.apply", coord :: rest => (pairs rest).map fun ms => optInt (avarApply ms coord)
    | "region.scalar", n :: rest => do
      let (ax, coords) ← takeN (3 * n) rest
      let axes ← triples ax
      pure (optInt (regionScalar axes coords))
    | "tuple.scalar", n :: rest => do
      let (peaks, r) ← takeN n rest
      match r with
      | 0 :: coords => pure (optOptInt (tupleScalar peaks none coords))
      | 1 :: r' => do
        let (starts, r'') ← takeN n r'
        let (ends, coords) ← takeN n r''
        pure (optOptInt (tupleScalar peaks (some (starts, ends)) coords))
      | _ => none
    | "norm.axis", [mn, df, mx, v] => some (optInt (normalizeAxis mn df mx v))
    | "norm.f2", [mn, df, mx, v] => some (optInt (axisNormalize mn df mx v))
    | "cmap4.map", cp :: sc2 :: n :: rest => do
      let (starts, r1) ← takeN n rest
      let (ends, r2) ← takeN n r1
      let (deltas, r3) ← takeN n r2
      let (ros, r4) ← takeN n r3
      match r4 with
      | m :: gids => if gids.length = m.toNat then
          pure (optOptInt (cmap4Map sc2 starts ends deltas ros gids cp)) else none
      | [] => none
    | "glyf.iteraxis", rest => (axisTriples rest).map fun ts => optList (decodeAxis pointIterAxis ts 0)
    | "glyf.fastaxis", rest => (axisTriples rest).map fun ts => optList (decodeAxis readFastAxis ts 0)
    | "glyf.lens", total :: bytes => some (match resolveCoordsLen bytes total with
        | none => "trap"
        | some none => "err"
        | some (some (a, b, c)) => s!"{a} {b} {c}")
    | "cvar.delta", coord :: rest => (pairs rest).map fun ts => optInt (cvarDelta ts coord)
    | "cvt.setup", [b, a, sc] => some (optInt (cvtSetup b a sc))
    | "pad.size", [l] => some (optInt (paddedSize l))
    | "loca.short", lens => some (optList (locaShort lens 0))
    | "loca.long", lens => some (optList (locaLong lens 0))
    | "ivs.delta", nc :: rest => do
      let (coords, r) ← takeN nc rest
      match r with
      | k :: r' => do
        let (cols, left) ← parseCols k.toNat r'
        if left.isEmpty ∧ k ≥ 0 then pure (optInt (computeDelta cols coords)) else none
      | [] => none
    | "ivs.itemdelta", nc :: rest => do
      let (coords, r) ← takeN nc rest
      match r with
      | k :: r' => do
        let (cols, left) ← parseCols k.toNat r'
        if left.isEmpty ∧ k ≥ 0 then pure (optInt (itemDelta cols coords)) else none
      | [] => none
    -- `glyf.points total nDataBytes flagBytes…`: the number of points `SimpleGlyph::points()` yields
    -- (0 = rejected: resolve_coords_len returned Err or the data is shorter than the resolved lengths)
    | "glyf.points", total :: nData :: bytes => some (match resolveCoordsLen bytes total with
        | none => "trap"
        | some none => "0"
        | some (some (f, x, y)) => if f + x + y > nData then "0" else toString total)
    -- `dsim.get entryFormat mapCount index nBytes b0 b1 …`
    | "dsim.get", ef :: mc :: ix :: n :: bytes =>
      if bytes.length = n.toNat ∧ n ≥ 0 then
        some (match dsimGet ef mc ix bytes with
          | none => "trap"
          | some none => "err"
          | some (some (o, i)) => s!"{o} {i}")
      else none
    -- `delta.prog ppem hasSdb sdb hasSds sds variant arg`
    | "delta.prog", [ppem, hb, sdb, hs, sds, variant, arg] =>
      if (hb = 0 ∨ hb = 1) ∧ (hs = 0 ∨ hs = 1) ∧ (variant = 0 ∨ variant = 16 ∨ variant = 32) then
        some (match deltaProgram ppem (if hb = 1 then some sdb else none) (if hs = 1 then some sds else none) variant arg with
          | none => "trap"
          | some none => "err"
          | some (some none) => "none"
          | some (some (some v)) => toString v)
      else none
    -- `ift.f2ids d1 d2 …` (99999999 = entry without an id delta)
    | "ift.f2ids", ds =>
      some (match f2EntryIds (ds.map fun d => if d = 99999999 then none else some d) with
        | none => "trap"
        | some (_, true) => "err"
        | some (ids, false) => joinInts ids)
    | _, _ => none

end FontVerif.Drv.C20
