/- line-protocol handler for Model/HandBlend.lean.
  hz.blend <coords> <axisCount> <regionListOk 0/1> <regions> <datas> <op>…
    coords: `a,b,…` F2Dot14 bits or `-`; regions: `;`-separated, each `s,p,e,s,p,e,…` or `_` (no axes), `-` = none;
    datas: `;`-separated `N` (None) / `E` (Some(Err)) / `i,i,…` / `_` (no region indexes), `-` = none;
    ops: `n<idx>` BlendState::new, `s<idx>` set_store_index, `q` region_count + scalars
  → one token per op: `k` / `eI<idx>` / `eR`; `q` → `<rc>:<bits|e,…|->`; `x` = no state. -/
import FontVerif.Model.HandBlend
namespace FontVerif.Drv.C01HandBlend
open FontVerif FontVerif.HandBlend

def ints (s : String) : Option (List Int) :=
  if s = "-" ∨ s = "_" then some [] else (s.splitOn ",").mapM String.toInt?

def triples : List Int → Option (List (Int × Int × Int))
  | [] => some []
  | a :: b :: c :: r => (triples r).map ((a, b, c) :: ·)
  | _ => none

def parseRegions (s : String) : Option (List (List (Int × Int × Int))) :=
  if s = "-" then some [] else (s.splitOn ";").mapM (fun r => (ints r).bind triples)

def parseData (s : String) : Option DataAt :=
  if s = "N" then some .absent
  else if s = "E" then some .bad
  else (ints s).map (fun xs => .ok (xs.map Int.toNat))

def parseDatas (s : String) : Option (List DataAt) :=
  if s = "-" then some [] else (s.splitOn ";").mapM parseData

def errStr : BErr → String
  | .invalidStoreIndex i => s!"eI{i}"
  | .read => "eR"

def unitStr : Except BErr Unit → String
  | .ok () => "k"
  | .error e => errStr e

def runOps (s : Store) (coords : List Int) : Option BSt → List String → Option (List String)
  | _, [] => some []
  | st, op :: rest =>
    match op.toList with
    | 'n' :: ds =>
      match (String.ofList ds).toNat? with
      | none => none
      | some i =>
        let r := HandBlend.new s coords i
        let st' := match r.1 with | .ok () => some r.2 | .error _ => none
        (runOps s coords st' rest).map (unitStr r.1 :: ·)
    | 's' :: ds =>
      match (String.ofList ds).toNat?, st with
      | none, _ => none
      | some _, none => (runOps s coords none rest).map ("x" :: ·)
      | some i, some b =>
        let r := setStoreIndex s coords b i
        (runOps s coords (some r.2) rest).map (unitStr r.1 :: ·)
    | ['q'] =>
      match st with
      | none => (runOps s coords none rest).map ("x" :: ·)
      | some b =>
        let t := match scalars s coords b with
          | none => "trap"
          | some xs =>
            let its := xs.map (fun x => match x with | .ok v => toString v | .error _ => "e")
            s!"{regionCount b}:{if its.isEmpty then "-" else ",".intercalate its}"
        (runOps s coords st rest).map (t :: ·)
    | _ => none

def handle (cmd : String) (args : List String) : Option String :=
  match cmd, args with
  | "hz.blend", coords :: ac :: rl :: regions :: datas :: ops =>
    match ints coords, ac.toNat?, parseRegions regions, parseDatas datas with
    | some coords, some ac, some regions, some datas =>
      if rl ≠ "0" ∧ rl ≠ "1" then none else
      let s : Store := ⟨datas, rl = "1", ac, regions⟩
      (runOps s coords none ops).map (fun ts => if ts.isEmpty then "-" else " ".intercalate ts)
    | _, _, _, _ => none
  | _, _ => none

end FontVerif.Drv.C01HandBlend
