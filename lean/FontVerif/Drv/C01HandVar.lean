/- line-protocol handlers for Model/HandVar.lean.  All commands are prefixed `hv.`. -/
import FontVerif.Model.HandVar
import FontVerif.Drv.C01Iter
namespace FontVerif.Drv.C01HandVar
open FontVerif FontVerif.ReadIter FontVerif.HandRead FontVerif.HandVar

def fnv := Drv.C01Iter.fnv
def u16OfInt (v : Int) : Nat := (v % 65536).toNat
def u32OfInt (v : Int) : Nat := (v % 4294967296).toNat

def errStr : VErr → String
  | .oob => "eO"
  | .nullOffset => "eN"
  | .invalidFormat n => s!"eF{n}"
  | .malformed => "eM"
  | .invalidIndex i => s!"eI{i}"
  | .metricMissing => "eT"

def optStr : Option Nat → String
  | some v => toString v
  | none => "trap"

def tupDigest (v : List Int) : String := s!"{v.length}.{fnv (v.map u16OfInt)}"

def tupRStr : TupR → String
  | .none => "n"
  | .trap => "trap"
  | .some v => tupDigest v

def tup2RStr : Tup2R → String
  | .none => "n"
  | .trap => "trap"
  | .some a b => s!"{tupDigest a}+{tupDigest b}"

def joinStrs (xs : List String) : String := if xs.isEmpty then "-" else " ".intercalate xs

def joinBar (xs : List String) : String := " | ".intercalate xs

/-- one `TupleVariation` as the harness renders it -/
def renderTuple (p : TVD) (isPoint : Bool) (coords : List Int) (t : TV) : String :=
  let pk := match t.peak p with | none => "trap" | some v => tupDigest v
  let is_ := tupRStr t.hdr.interStartTuple
  let ie := tupRStr t.hdr.interEndTuple
  let sc := match t.computeScalar p coords with
    | .trap => "trap" | .err e => errStr e | .ok none => "n" | .ok (some v) => toString v
  let f32 := match t.computeScalarF32 p coords with
    | .trap => "trap" | .err e => errStr e | .ok b => if b then "s" else "n"
  let all := match t.hasDeltasForAllPoints p with | none => "trap" | some b => if b then "1" else "0"
  let pts := match t.pointsAndDeltas p with
    | none => "trap"
    | some (pd, _) => s!"{pointCount pd}.{fnv ((runTake (ptNext pd) ptFuel 300 (ptInit pd)).getD [])}"
  let ds := match t.deltasTrace p isPoint with
    | none => "fuel"
    | some evs =>
      if trapped evs then "trap"
      else
        let its := items evs
        s!"{its.length}.{fnv (its.flatMap (fun (x : Nat × Int × Int) => [x.1, u32OfInt x.2.1, u32OfInt x.2.2]))}"
  s!"{pk}:{is_}:{ie}:{sc}:{f32}:{all}:{pts}:{ds}"

/-- a `TupleVariationData`: count bits, shared points, the tuples, `active_tuples_at` -/
def renderTvd (p : TVD) (isPoint : Bool) (coords : List Int) : String :=
  let sp := match p.sharedPts with | none => "-" | some d => toString (pointCount d)
  match tvTrace p with
  | none => "fuel"
  | some evs =>
    if trapped evs then "trap"
    else
      let ts := items evs
      let act := match activeTuples p coords with
        | some (.ok l) => let a := l.map (fun (x : TV × Int) => u32OfInt x.2); s!"a{a.length}.{fnv a}"
        | some .trap => "trap"
        | some (.err e) => errStr e
        | none => "fuel"
      joinBar ([s!"{p.countBits} {sp} {ts.length} {act}"] ++ ts.map (renderTuple p isPoint coords))

def rIntStr : R Int → String
  | .ok v => toString v
  | .err e => errStr e
  | .trap => "trap"

/-- `<k> x1 … xk rest…` -/
def takeCounted (xs : List String) : Option (List String × List String) :=
  match xs with
  | [] => none
  | k :: rest =>
    match k.toNat? with
    | none => none
    | some k => if k ≤ rest.length then some (rest.take k, rest.drop k) else none

def pairsOf : List Nat → Option (List (Nat × Nat))
  | [] => some []
  | a :: b :: r => (pairsOf r).map ((a, b) :: ·)
  | _ => none

/-- a glyph spec token: `eO` … (error), `n` (empty), `s<points>`, `c` + `flag:gid` pairs joined by `,` -/
def parseGR (s : String) : Option GR :=
  if s = "n" then some .none
  else if s = "eO" then some (.err .oob)
  else if s = "eN" then some (.err .nullOffset)
  else if s = "eM" then some (.err .malformed)
  else
    match s.toList with
    | 's' :: rest => (String.ofList rest).toNat?.map GR.simple
    | 'c' :: rest =>
      let body := String.ofList rest
      if body = "" then some (.composite [])
      else
        (body.splitOn ",").mapM (fun (part : String) =>
          match part.splitOn ":" with
          | [f, g] =>
            match f.toNat?, g.toNat? with
            | some f, some g => if f ≤ 1 then some (decide (f = 1), g) else none
            | _, _ => none
          | _ => none) |>.map GR.composite
    | _ => none

def handle3 (cmd : String) (args : List String) : Option String :=
  match cmd, args with
  | "hv.dsim", hex :: idxs =>
    match parseHex? hex, parseNats? idxs with
    | some d, some idxs =>
      match dsimRead d with
      | .err e => some (errStr e)
      | .trap => some "trap"
      | .ok m =>
        let ef := m.entryFormat
        let per := idxs.map (fun i => match m.get i with
          | .ok (o, n) => s!"{o}:{n}"
          | .err e => errStr e
          | .trap => "trap")
        let dl := match m.mapData with | some x => toString x.length | none => "trap"
        some s!"{m.format} {optStr ef} {optStr (ef.map entrySize)} {optStr (ef.map bitCount)} {optStr m.mapCount} {dl} | {" ".intercalate per}"
    | _, _ => none
  | "hv.ivs", hex :: rest =>
    match parseHex? hex, takeCounted rest with
    | some d, some (ps, coords) =>
      match parseNats? ps, parseInts? coords with
      | some ps, some cs =>
        match pairsOf ps with
        | none => none
        | some pairs =>
          match ivsRead d with
          | none => some "eO"
          | some s =>
            let per := pairs.map (fun (p : Nat × Nat) =>
              let f := match s.computeFloatDelta p.1 p.2 cs with | .ok _ => "ok" | .err e => errStr e | .trap => "trap"
              s!"{rIntStr (s.computeDelta p.1 p.2 cs)}/{f}")
            some (joinStrs per)
      | _, _ => none
    | _, _ => none
  | "hv.metrics", tbl :: which :: hex :: rest =>
    match which.toNat?, parseHex? hex, takeCounted rest with
    | some which, some d, some (gids, coords) =>
      match parseNats? gids, parseInts? coords with
      | some gids, some cs =>
        if tbl ≠ "h" ∧ tbl ≠ "v" then none
        else if which > (if tbl = "v" then 3 else 2) then none
        else some (joinStrs (gids.map (fun g => rIntStr (metricsDelta d (tbl = "v") which g cs))))
      | _, _ => none
    | _, _, _ => none
  | "hv.mvar", hex :: rest =>
    match parseHex? hex, takeCounted rest with
    | some d, some (tags, coords) =>
      match parseNats? tags, parseInts? coords with
      | some tags, some cs => some (joinStrs (tags.map (fun t => rIntStr (mvarMetricDelta d t cs))))
      | _, _ => none
    | _, _ => none
  | "hv.acc", [mode, kind, scalar, n, nf, gid, k, hex] =>
    match parseInt? scalar, n.toNat?, nf.toNat?, gid.toNat?, k.toNat?, parseHex? hex with
    | some scalar, some n, some nf, some gid, some k, some d =>
      let kind? : Option DKind := if kind = "f" then some .fixed else if kind = "s" then some .f26dot6
        else if kind = "i" then some .int else none
      match kind? with
      | none => none
      | some kind =>
        if mode ≠ "d" ∧ mode ≠ "s" then none else
        match gvarRead d with
        | none => some "eO"
        | some g =>
          match g.glyphVariationData gid with
          | .err e => some (errStr e)
          | .trap => some "trap"
          | .ok none => some "none"
          | .ok (some p) =>
            match tvTrace p with
            | none => some "fuel"
            | some evs =>
              match (items evs)[k]? with
              | none => some "notuple"
              | some t =>
                match t.pointsAndDeltas p with
                | none => some "trap"
                | some (pd, dd) =>
                  let xs : List Int := List.replicate n 7
                  let dig := fun (l : List Int) => fnv (l.map u32OfInt)
                  if mode = "d" then
                    match accumulateDense kind scalar dd xs xs with
                    | .err e => some (errStr e)
                    | .trap => some "trap"
                    | .ok (x, y) => some s!"ok {dig x} {dig y}"
                  else
                    match accumulateSparse kind scalar pd dd xs xs (List.replicate nf false) with
                    | .err e => some (errStr e)
                    | .trap => some "trap"
                    | .ok (x, y, fl) => some s!"ok {dig x} {dig y} {fnv (fl.map (fun b => if b then 1 else 0))}"
    | _, _, _, _, _, _ => none
  | "hv.phantom", gid :: hex :: dflt :: rest =>
    -- `<gid> <gvar hex> <spec of every glyph id beyond the list> <n> <spec 0> … <spec n-1> <coords…>`
    match gid.toNat?, parseHex? hex, parseGR dflt, takeCounted rest with
    | some gid, some d, some dflt, some (specs, coords) =>
      match specs.mapM parseGR, parseInts? coords with
      | some specs, some cs =>
        match gvarRead d with
        | none => some "eO"
        | some g =>
          match g.phantomPointDeltas (fun i => specs.getD i dflt) cs gid with
          | .err e => some (errStr e)
          | .trap => some "trap"
          | .ok none => some "none"
          | .ok (some ph) => some (" ".intercalate (ph.map (fun (p : Int × Int) => s!"{p.1},{p.2}")))
      | _, _ => none
    | _, _, _, _ => none
  | "hv.avar", hex :: coords =>
    match parseHex? hex, parseInts? coords with
    | some d, some cs => some (joinStrs (cs.map (fun c => rIntStr (segmentMapsApply d c))))
    | _, _ => none
  | _, _ => none

def handle (cmd : String) (args : List String) : Option String :=
  match cmd, args with
  | "hv.tvhdr", [ac, hex] =>
    match ac.toNat?, parseHex? hex with
    | some ac, some d =>
      match tvhRead d ac with
      | none => some "eO"
      | some h =>
        some s!"{optStr h.size} {optStr h.ti} {tupRStr h.peakTuple} {tupRStr h.interStartTuple} {tupRStr h.interEndTuple} {tup2RStr h.interTuples}"
    | _, _ => none
  | "hv.cvar", ac :: hex :: coords =>
    match ac.toNat?, parseHex? hex, parseInts? coords with
    | some ac, some d, some cs =>
      match cvarVariationData d ac with
      | .err e => some (errStr e)
      | .trap => some "trap"
      | .ok p => some (renderTvd p false cs)
    | _, _, _ => none
  | "hv.cvard", ac :: n :: hex :: coords =>
    match ac.toNat?, n.toNat?, parseHex? hex, parseInts? coords with
    | some ac, some n, some d, some cs =>
      -- the caller's buffer: `[i32::MAX, i32::MIN, 0, 0, …]`
      let buf : List Int := (List.range n).map (fun i => if i = 0 then 2147483647 else if i = 1 then -2147483648 else 0)
      match cvarDeltas d ac cs buf with
      | .err e => some (errStr e)
      | .trap => some "trap"
      | .ok out => some s!"{out.length}.{fnv (out.map u32OfInt)} {joinInts (out.take 4)}"
    | _, _, _, _ => none
  | "hv.gvarhdr", hex :: gids =>
    match parseHex? hex, parseNats? gids with
    | some d, some gids =>
      match gvarRead d with
      | none => some "eO"
      | some g =>
        let st := match g.sharedTuples with
          | .err e => errStr e
          | .trap => "trap"
          | .ok sd => s!"{sd.length}.{fnv sd}"
        let per := gids.map (fun gid => match g.dataForGid gid with
          | .err e => errStr e
          | .trap => "trap"
          | .ok none => "n"
          | .ok (some b) => s!"{b.length}.{fnv b}")
        some s!"{optStr g.axisCount} {optStr g.sharedTupleCount} {optStr g.glyphCount} {optStr g.flags} {optStr g.dao} {g.offsLen} {st} | {" ".intercalate per}"
    | _, _ => none
  | "hv.gvar", gid :: hex :: coords =>
    match gid.toNat?, parseHex? hex, parseInts? coords with
    | some gid, some d, some cs =>
      match gvarRead d with
      | none => some "eO"
      | some g =>
        match g.glyphVariationData gid with
        | .err e => some (errStr e)
        | .trap => some "trap"
        | .ok none => some "none"
        | .ok (some p) => some (renderTvd p true cs)
    | _, _, _ => none
  | _, _ => handle3 cmd args

end FontVerif.Drv.C01HandVar
