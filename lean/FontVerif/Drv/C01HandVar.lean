/- line-protocol handlers for Model/HandVar.lean.  All commands are prefixed `hv.`. -/
import FontVerif.Model.HandVar
namespace FontVerif.Drv.C01HandVar
open FontVerif FontVerif.ReadIter FontVerif.HandRead FontVerif.HandVar

def handle (cmd : String) (args : List String) : Option String :=
  match cmd, args with
  | _, _ => none

end FontVerif.Drv.C01HandVar
