/- line-protocol handlers for Model/HandVar.lean.  All commands are prefixed `hv.`. -/
import FontVerif.Model.HandVar
import FontVerif.Drv.C01Iter
namespace FontVerif.Drv.C01HandVar
open FontVerif FontVerif.ReadIter FontVerif.HandRead FontVerif.HandVar

def fnv := Drv.C01Iter.fnv
def u16OfInt (v : Int) : Nat := (v % 65536).toNat
def u32OfInt (v : Int) : Nat := (v % 4294967296).toNat

def errStr : VErr → String
  | .oob => "eO"
  | .nullOffset => "eN"
  | .invalidFormat n => s!"eF{n}"
  | .malformed => "eM"
  | .invalidIndex i => s!"eI{i}"
  | .metricMissing => "eT"

def optStr : Option Nat → String
  | some v => toString v
  | none => "trap"

def tupDigest (v : List Int) : String := s!"{v.length}.{fnv (v.map u16OfInt)}"

def tupRStr : TupR → String
  | .none => "n"
  | .trap => "trap"
  | .some v => tupDigest v

def tup2RStr : Tup2R → String
  | .none => "n"
  | .trap => "trap"
  | .some a b => s!"{tupDigest a}+{tupDigest b}"

def joinBar (xs : List String) : String := " | ".intercalate xs

/-- one `TupleVariation` as the harness renders it -/
def renderTuple (p : TVD) (isPoint : Bool) (coords : List Int) (t : TV) : String :=
  let pk := match t.peak p with | none => "trap" | some v => tupDigest v
  let is_ := tupRStr t.hdr.interStartTuple
  let ie := tupRStr t.hdr.interEndTuple
  let sc := match t.computeScalar p coords with
    | .trap => "trap" | .err e => errStr e | .ok none => "n" | .ok (some v) => toString v
  let f32 := match t.computeScalarF32 p coords with
    | .trap => "trap" | .err e => errStr e | .ok b => if b then "s" else "n"
  let all := match t.hasDeltasForAllPoints p with | none => "trap" | some b => if b then "1" else "0"
  let pts := match t.pointsAndDeltas p with
    | none => "trap"
    | some (pd, _) => s!"{pointCount pd}.{fnv ((runTake (ptNext pd) ptFuel 300 (ptInit pd)).getD [])}"
  let ds := match t.deltasTrace p isPoint with
    | none => "fuel"
    | some evs =>
      if trapped evs then "trap"
      else
        let its := items evs
        s!"{its.length}.{fnv (its.flatMap (fun (x : Nat × Int × Int) => [x.1, u32OfInt x.2.1, u32OfInt x.2.2]))}"
  s!"{pk}:{is_}:{ie}:{sc}:{f32}:{all}:{pts}:{ds}"

/-- a `TupleVariationData`: count bits, shared points, the tuples, `active_tuples_at` -/
def renderTvd (p : TVD) (isPoint : Bool) (coords : List Int) : String :=
  let sp := match p.sharedPts with | none => "-" | some d => toString (pointCount d)
  match tvTrace p with
  | none => "fuel"
  | some evs =>
    if trapped evs then "trap"
    else
      let ts := items evs
      let act := match activeTuples p coords with
        | some (.ok l) => let a := l.map (fun (x : TV × Int) => u32OfInt x.2); s!"a{a.length}.{fnv a}"
        | some .trap => "trap"
        | some (.err e) => errStr e
        | none => "fuel"
      joinBar ([s!"{p.countBits} {sp} {ts.length} {act}"] ++ ts.map (renderTuple p isPoint coords))

def handle (cmd : String) (args : List String) : Option String :=
  match cmd, args with
  | "hv.tvhdr", [ac, hex] =>
    match ac.toNat?, parseHex? hex with
    | some ac, some d =>
      match tvhRead d ac with
      | none => some "eO"
      | some h =>
        some s!"{optStr h.size} {optStr h.ti} {tupRStr h.peakTuple} {tupRStr h.interStartTuple} {tupRStr h.interEndTuple} {tup2RStr h.interTuples}"
    | _, _ => none
  | "hv.cvar", ac :: hex :: coords =>
    match ac.toNat?, parseHex? hex, parseInts? coords with
    | some ac, some d, some cs =>
      match cvarVariationData d ac with
      | .err e => some (errStr e)
      | .trap => some "trap"
      | .ok p => some (renderTvd p false cs)
    | _, _, _ => none
  | "hv.cvard", ac :: n :: hex :: coords =>
    match ac.toNat?, n.toNat?, parseHex? hex, parseInts? coords with
    | some ac, some n, some d, some cs =>
      -- the caller's buffer: `[i32::MAX, i32::MIN, 0, 0, …]`
      let buf : List Int := (List.range n).map (fun i => if i = 0 then 2147483647 else if i = 1 then -2147483648 else 0)
      match cvarDeltas d ac cs buf with
      | .err e => some (errStr e)
      | .trap => some "trap"
      | .ok out => some s!"{out.length}.{fnv (out.map u32OfInt)} {joinInts (out.take 4)}"
    | _, _, _, _ => none
  | "hv.gvarhdr", hex :: gids =>
    match parseHex? hex, parseNats? gids with
    | some d, some gids =>
      match gvarRead d with
      | none => some "eO"
      | some g =>
        let st := match g.sharedTuples with
          | .err e => errStr e
          | .trap => "trap"
          | .ok sd => s!"{sd.length}.{fnv sd}"
        let per := gids.map (fun gid => match g.dataForGid gid with
          | .err e => errStr e
          | .trap => "trap"
          | .ok none => "n"
          | .ok (some b) => s!"{b.length}.{fnv b}")
        some s!"{optStr g.axisCount} {optStr g.sharedTupleCount} {optStr g.glyphCount} {optStr g.flags} {optStr g.dao} {g.offsLen} {st} | {" ".intercalate per}"
    | _, _ => none
  | "hv.gvar", gid :: hex :: coords =>
    match gid.toNat?, parseHex? hex, parseInts? coords with
    | some gid, some d, some cs =>
      match gvarRead d with
      | none => some "eO"
      | some g =>
        match g.glyphVariationData gid with
        | .err e => some (errStr e)
        | .trap => some "trap"
        | .ok none => some "none"
        | .ok (some p) => some (renderTvd p true cs)
    | _, _, _ => none
  | _, _ => none

end FontVerif.Drv.C01HandVar
