/- line-protocol handlers for the C17 COLR / CPAL subsetting models
(Model/SubsetCpal.lean, Model/SubsetColr*.lean; see Props/C17Colr.lean)

requests:
  c17.cpal <hex CPAL table> <old new>… | -
       response: ok <hex subset table> | dropped | fail | trap
  c17.cpal.read <hex CPAL table> <nPalettes> <nEntries>
       response: the colours the reader model sees, `p:e=bbggrraa` joined by spaces (`-` = none readable),
       followed by ` T<types>` ` L<labels>` ` E<entry labels>` (`x` = unreadable)
  c17.palmap <index>… | -
       response: old new … (remap_palette_indices)
  c17.colr <hex COLR table> G <glyphset_colred…> M <glyph_map old new…> P <colr_palettes old new…>
       L <colrv1_layers old new…> V <colr_varidx_delta_map old new…> I <n> {<len> <key>…}… D <new ds idx, new var idx…>
       (every list `-` when empty)
       response: ok <hex subset table> | dropped | fail | trap
  c17.colrplan <hex COLR table> L <layer indices…> K <collected variation indices…>
       response: L <old new…> V <old new…> I <n> {<len> <key>…}… D <new ds idx, new var idx…>
       (remap_indices + the variation part of Plan::colr_closure)
  c17.colr.tree <hex COLR table> G <gid> | Y <layer index>
       response: the paint tree of the COLRv1 base glyph / layer as the reader model unfolds it
       (`(bytes[blob]kids…)`, offsets masked) | none
  c17.colr.expect <hex COLR table> G <gid> | Y <layer index>, then the plan as in c17.colr (G M P L V I D)
       response: the tree the theorems promise for that glyph / layer in the subset (`expectTree`) | none
-/
import FontVerif.Model.SubsetCpal
import FontVerif.Model.SubsetColr
import FontVerif.Model.SubsetColrTree
namespace FontVerif.Drv.C17Colr
open FontVerif FontVerif.ColrSer
open FontVerif.SubsetHvar (Err R)

def natList (ts : List String) : Option (List Nat) :=
  if ts = ["-"] then some [] else parseNats? ts

def pairs : List Nat → Option (List (Nat × Nat))
  | [] => some []
  | [_] => none
  | a :: b :: rest => (pairs rest).map ((a, b) :: ·)

def showR (r : R (List Nat)) : String :=
  match r with
  | .ok b => "ok " ++ toHex b
  | .error .dropped => "dropped"
  | .error .fail => "fail"
  | .error .trap => "trap"

def splitAt (marker : String) (args : List String) : Option (List String × List String) :=
  let pre := args.takeWhile (· ≠ marker)
  match args.dropWhile (· ≠ marker) with
  | [] => none
  | _ :: rest => some (pre, rest)

/-- `<n> {<len> <key>…}…` -/
def parseInner : Nat → List Nat → Option (List (List Nat))
  | 0, [] => some []
  | 0, _ => none
  | n + 1, len :: rest =>
    if rest.length < len then none
    else (parseInner n (rest.drop len)).map (rest.take len :: ·)
  | _, _ => none

def showPairs (ps : List (Nat × Nat)) : String := joinNats (ps.flatMap fun (a, b) => [a, b])

def showInner (im : List (List Nat)) : String :=
  " ".intercalate (toString im.length :: im.map fun m => " ".intercalate (toString m.length :: m.map toString))

def parsePlan (rest : List String) : Option SubsetColr.PlanIn := do
  let (g, rest) ← splitAt "M" rest
  let (m, rest) ← splitAt "P" rest
  let (pp, rest) ← splitAt "L" rest
  let (l, rest) ← splitAt "V" rest
  let (v, rest) ← splitAt "I" rest
  let (i, d) ← splitAt "D" rest
  let colred ← natList g
  let glyphMap ← natList m >>= pairs
  let palettes ← natList pp >>= pairs
  let layers ← natList l >>= pairs
  let varIdx ← natList v >>= pairs
  let inner ← match ← natList i with
    | n :: xs => parseInner n xs
    | [] => none
  let newDs ← natList d >>= pairs
  some { colred, glyphMap, palettes, layers, varIdx, innerMaps := inner, newDs }

def optNat (o : Option Nat) : String :=
  match o with
  | some v => toString v
  | none => "x"

def handle (cmd : String) (args : List String) : Option String :=
  match cmd, args with
  | "c17.cpal", hex :: rest => do
    let b ← parseHex? hex
    let ps ← natList rest >>= pairs
    some (showR (SubsetCpal.subsetCpal b ps))
  | "c17.cpal.read", [hex, np, ne] => do
    let b ← parseHex? hex
    let np ← parseNat? np
    let ne ← parseNat? ne
    let cols := (List.range np).flatMap fun p => (List.range ne).filterMap fun e =>
      (SubsetCpal.color b p e).map fun c => s!"{p}:{e}={toHex c}"
    let t := " ".intercalate ((List.range np).map fun p => optNat (SubsetCpal.paletteType b p))
    let l := " ".intercalate ((List.range np).map fun p => optNat (SubsetCpal.paletteLabel b p))
    let e := " ".intercalate ((List.range ne).map fun e => optNat (SubsetCpal.entryLabel b e))
    some ((if cols.isEmpty then "-" else " ".intercalate cols) ++ " T " ++ t ++ " L " ++ l ++ " E " ++ e)
  | "c17.palmap", rest => do
    let xs ← natList rest
    some (joinNats ((SubsetCpal.remapPaletteIndices xs).flatMap fun (a, b) => [a, b]))
  | "c17.colr", hex :: "G" :: rest => do
    let b ← parseHex? hex
    let p ← parsePlan rest
    some (showR (SubsetColr.subsetColr b.toArray p))
  | "c17.colrplan", hex :: "L" :: rest => do
    let b := (← parseHex? hex).toArray
    let (l, k) ← splitAt "K" rest
    let layers ← natList l
    let collected ← natList k
    let (storeCount, dsim) : Option Nat × SubsetColr.DsimIn :=
      match SubsetColr.readHeader b with
      | some { v1 := some (_, _, _, mOff, sOff), .. } =>
        (if sOff = 0 then none else (SubsetColr.readStore b sOff).map (·.subs.length),
         if mOff = 0 then SubsetColr.DsimIn.null else SubsetColr.readDsim b mOff)
      | _ => (none, SubsetColr.DsimIn.null)
    let (v, im, d) := SubsetColr.varPlan storeCount dsim collected
    some s!"L {showPairs (SubsetColr.remapIndices layers)} V {showPairs v} I {showInner im} D {showPairs d}"
  | "c17.colr.tree", [hex, kind, n] => do
    let b := (← parseHex? hex).toArray
    let n ← parseNat? n
    let pos ← match kind with
      | "G" => some (SubsetColr.v1BasePaint b n)
      | "Y" => some (SubsetColr.v1LayerPaint b n)
      | _ => none
    some (match pos with
      | none => "none"
      | some q => SubsetColr.renderOpt (SubsetColr.srcTree b (SubsetColr.paintFuel b) q))
  | "c17.colr.expect", hex :: kind :: n :: "G" :: rest => do
    let b := (← parseHex? hex).toArray
    let n ← parseNat? n
    let p ← parsePlan rest
    let pos ← match kind with
      | "G" => some (SubsetColr.v1BasePaint b n)
      | "Y" => some (SubsetColr.v1LayerPaint b n)
      | _ => none
    some (match pos with
      | none => "none"
      | some q => SubsetColr.renderOpt (SubsetColr.expectTree p b (SubsetColr.paintFuel b) q))
  | _, _ => none

end FontVerif.Drv.C17Colr
