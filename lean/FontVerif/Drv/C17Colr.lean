/- line-protocol handlers for the C17 Colr models (stub; see Props/C17Colr.lean) -/
import FontVerif.Model.Base
namespace FontVerif.Drv.C17Colr
open FontVerif

def handle (cmd : String) (args : List String) : Option String :=
  match cmd with
  | _ => none

end FontVerif.Drv.C17Colr
