/- line-protocol handlers for the C17 Post models (stub; see Props/C17Post.lean) -/
import FontVerif.Model.Base
namespace FontVerif.Drv.C17Post
open FontVerif

def handle (cmd : String) (args : List String) : Option String :=
  match cmd with
  | _ => none

end FontVerif.Drv.C17Post
