/- line-protocol handlers for the C17 "post part" models (Model/SubsetPost.lean; see Props/C17Post.lean)

requests (space separated; `-` = empty; sections introduced by single capital letters):
  c17.post2.stdnames                       -> the 258 standard names, hex, space separated
  c17.post2 <flags> <nout> <maxOld | -> <srcGlyphs> M <new old>… T <hex post table>
      -> `ok <hex of the emitted table>` | `dropped` | `trap` | `err` | `unmodelled`
  c17.post2.name <gid> <hex post table>    read-fonts `Post::glyph_name`      -> `none` | `some <hex>`
  c17.post2.iter <hex string data>         `VarLenArray<PString>::iter()`     -> items: hex | `-` (empty) | `E`; `.` if no item
  c17.post2.get <idx> <hex string data>    `VarLenArray<PString>::get(idx)` collapsed  -> `none` | `some <hex>`
  c17.head <locaFormat> <hex head>         `subset_head`                       -> hex | `none`
  c17.head.noglyf <hex head>               `Head::subset`                      -> hex | `none`
  c17.hhea <newNumHMetrics> <hex hhea>     hhea tail of `Hmtx::subset`         -> hex | `none`
  c17.maxp2 <flags> <nout> <hex maxp>      = `c17.maxp` plus the read-back fields  -> `<hex> numGlyphs=<n>` | `none`
  c17.vorg <srcGlyphs> <nout> M <new old>… T <hex VORG>   -> `ok <hex>` | `dropped` | `err`
  c17.vorg.read <gid> <hex VORG>           `Vorg::vertical_origin_y` (raw u16) -> `none` | `<n>`
  c17.vmtx <hex>                           pass-through                        -> hex
-/
import FontVerif.Model.SubsetPost
import FontVerif.Drv.C17Gvar
namespace FontVerif.Drv.C17Post
open FontVerif FontVerif.Subset FontVerif.SubsetPost
open FontVerif.Drv.C17Gvar (sections pairList)

def fmtItem : Option Bytes → String
  | none => "E"
  | some b => toHex b

def fmtOpt : Option Bytes → String
  | none => "none"
  | some b => s!"some {toHex b}"

def handle (cmd : String) (args : List String) : Option String :=
  match cmd with
  | "c17.post2.stdnames" =>
    if args.isEmpty then some (" ".intercalate (stdNames.map toHex)) else none
  | "c17.post2" => do
    let [hd, m, t] ← sections ["M", "T"] args | none
    let [f, n, mo, sg] := hd | none
    let [tt] := t | none
    let maxOld ← if mo = "-" then some none else (parseNat? mo).map some
    let inp : PostIn := { flags := ← parseNat? f, nout := ← parseNat? n, maxOld, n2o := ← pairList m,
                          srcGlyphs := ← parseNat? sg, t := ← parseHex? tt }
    match subsetPost inp with
    | .error e => some e
    | .ok b => some s!"ok {toHex b}"
  | "c17.post2.name" => do
    let [g, h] := args | none
    some (fmtOpt (glyphName (← parseHex? h) (← parseNat? g)))
  | "c17.post2.iter" => do
    let [h] := args | none
    let items := pstrAll (← parseHex? h)
    some (if items.isEmpty then "." else " ".intercalate (items.map fmtItem))
  | "c17.post2.get" => do
    let [i, h] := args | none
    some (fmtOpt (pstrGet (← parseHex? h) (← parseNat? i)))
  | "c17.head" => do
    let [f, h] := args | none
    match subsetHead (← parseHex? h) (← parseNat? f) with
    | none => some "none"
    | some b => some (toHex b)
  | "c17.head.noglyf" => do
    let [h] := args | none
    match subsetHeadNoGlyf (← parseHex? h) with
    | none => some "none"
    | some b => some (toHex b)
  | "c17.hhea" => do
    let [n, h] := args | none
    match subsetHhea (← parseHex? h) (← parseNat? n) with
    | none => some "none"
    | some b => some (toHex b)
  | "c17.maxp2" => do
    let [f, n, h] := args | none
    match subsetMaxp (← parseNat? f) (← parseNat? n) (← parseHex? h) with
    | none => some "none"
    | some b => some s!"{toHex b} numGlyphs={maxpNumGlyphs b}"
  | "c17.vorg" => do
    let [hd, m, t] ← sections ["M", "T"] args | none
    let [sg, n] ← parseNats? hd | none
    let [tt] := t | none
    match subsetVorg (← pairList m) sg n (← parseHex? tt) with
    | .error e => some e
    | .ok b => some s!"ok {toHex b}"
  | "c17.vorg.read" => do
    let [g, h] := args | none
    match vorgOriginY (← parseHex? h) (← parseNat? g) with
    | none => some "none"
    | some v => some (toString v)
  | "c17.vmtx" => do
    let [h] := args | none
    some (toHex (passthrough (← parseHex? h)))
  | _ => none

end FontVerif.Drv.C17Post
