/- line-protocol handlers for Model/IupF64.lean (f64 arithmetic of the IUP optimiser) -/
import FontVerif.Model.IupF64
namespace FontVerif.Drv.C10F64
open FontVerif FontVerif.Ieee FontVerif.IupF64

def bits? (s : String) : Option FVal := (parseNat? s).map (decode f64)

def parseP? (s : String) : Option P :=
  match (s.splitOn ",").mapM bits? with
  | some [a, b] => some (a, b)
  | _ => none

def splitBar (xs : List String) : List (List String) :=
  xs.foldr (fun x acc => if x = "|" then [] :: acc else
    match acc with
    | [] => [[x]]
    | a :: rest => (x :: a) :: rest) [[]]

def handle (cmd : String) (args : List String) : Option String :=
  match cmd, splitBar args with
  | "f64.seg", [[c1, d1, c2, d2, c]] =>
    match bits? c1, bits? d1, bits? c2, bits? d2, bits? c with
    | some c1, some d1, some c2, some d2, some c => some (segAxis c1 d1 c2 d2 c).show
    | _, _, _, _, _ => none
  | "f64.can", [[tol, frm, to], cs, ds] =>
    match bits? tol, parseInt? frm, parseNat? to, cs.mapM parseP?, ds.mapM parseP? with
    | some tol, some frm, some to, some cs, some ds =>
      if cs.length ≠ ds.length ∨ frm < -1 ∨ (to : Int) < frm + 2 ∨ to ≥ ds.length then none else
      some (if canIup tol ds cs frm to then "1" else "0")
    | _, _, _, _, _ => none
  | "f64.round", [[x, y]] =>
    match bits? x, bits? y with
    | some x, some y => let r := writtenValue x y; some s!"{r.1} {r.2}"
    | _, _ => none
  | _, _ => none

end FontVerif.Drv.C10F64
