/- line-protocol handlers for the C04 ⇄ C05 bridge (Model/TableWriter.lean); shared by drv_c04 and drv_c05.

value tree (prefix tokens; a field list ends with `.` or with the end of the request):
  b<bytes>       `write_slice`; bytes = `.`-joined segments `r<hh>x<count>` / `h<hex>` joined by `,` here (`-` = none)
  n<width>       null offset of <width> bytes
  l<width>:<ty>  non-null offset: the child's fields follow, closed by `.`   ty = o | p<lookup type> | s<lookup type>
  a<adj>         `adjust_offsets(adj, …)`: the body follows, closed by `.`
  p              `pad_to_2byte_aligned`
requests:
  tw.store <ty> <tree>        → `root=<i> | <i>:<ty>:<bytes>:<pos>/<width>/<target>/<adj>;… | …`  objects by id; ids are
                                 ranks in allocation order (the model draws 0, 1, 2 …)
  tw.dump <ty> <tree>         → `bytes <bytes>` | `fail` | `trap`         (typed pipeline, `select_promotions_hb`)
  tw.read <bytes> <ty> <tree> → rendering of `readTable bytes 0 tree` and whether it equals `tree.tree`
-/
import FontVerif.Lemmas.TableWriterDefs
namespace FontVerif.Drv.TableWriter
open FontVerif FontVerif.Graph FontVerif.TableWriter

/-! ### byte-run codec (as in Drv/C05.lean, segments joined by `,`) -/

def parseSeg (s : String) : Option (List Nat) :=
  match s.toList with
  | 'h' :: rest => parseHex? (String.ofList rest)
  | 'r' :: a :: b :: 'x' :: cnt =>
    match hexDigit? a, hexDigit? b, (String.ofList cnt).toNat? with
    | some x, some y, some n => some (List.replicate n (x * 16 + y))
    | _, _, _ => none
  | _ => none

def parseBytes (s : String) : Option (List Nat) :=
  if s = "-" then some [] else
  (s.splitOn ",").foldl (fun acc seg =>
    match acc, parseSeg seg with
    | some bs, some more => some (bs ++ more)
    | _, _ => none) (some [])

def runLen (b : Nat) : List Nat → Nat → Nat
  | x :: rest, n => if x = b then runLen b rest (n + 1) else n
  | [], n => n

def hex2 (b : Nat) : List Char := [hexChar (b / 16 % 16), hexChar (b % 16)]

def rleGo : Nat → List Nat → List Char → List String → List String
  | 0, _, _, segs => segs.reverse
  | fuel + 1, bs, lit, segs =>
    let flush (lit : List Char) (segs : List String) : List String :=
      if lit.isEmpty then segs else (String.ofList ('h' :: lit.reverse)) :: segs
    match bs with
    | [] => (flush lit segs).reverse
    | b :: _ =>
      let n := runLen b bs 0
      if n ≥ 8 then
        rleGo fuel (bs.drop n) [] ((String.ofList (['r'] ++ hex2 b ++ ['x'] ++ (toString n).toList)) :: flush lit segs)
      else
        rleGo fuel (bs.drop n) ((List.replicate n (hex2 b).reverse).flatten ++ lit) segs

def rle (bs : List Nat) : String :=
  if bs.isEmpty then "-" else ",".intercalate (rleGo (bs.length + 1) bs [] [])

/-! ### value trees -/

def parseType (s : String) : Option TType :=
  match s.toList with
  | ['o'] => some TType.other
  | 'p' :: rest => (String.ofList rest).toNat?.map TType.gpos
  | 's' :: rest => (String.ofList rest).toNat?.map TType.gsub
  | _ => none

def showType : TType → String
  | .other => "o"
  | .gpos t => s!"p{t}"
  | .gsub t => s!"s{t}"

/-- one field list: up to the closing `.` (consumed) or the end of the tokens -/
def parseFields : Nat → List String → Option (Fields × List String)
  | 0, _ => none
  | fuel + 1, toks =>
    match toks with
    | [] => some (.nil, [])
    | "." :: rest => some (.nil, rest)
    | "p" :: rest =>
      match parseFields fuel rest with
      | some (r, rest') => some (.pad2 r, rest')
      | none => none
    | tok :: rest =>
      match tok.toList with
      | 'b' :: bs =>
        match parseBytes (String.ofList bs), parseFields fuel rest with
        | some bs, some (r, rest') => some (.bytes bs r, rest')
        | _, _ => none
      | 'n' :: w =>
        match (String.ofList w).toNat?, parseFields fuel rest with
        | some w, some (r, rest') => some (.null w r, rest')
        | _, _ => none
      | 'a' :: a =>
        match (String.ofList a).toNat?, parseFields fuel rest with
        | some a, some (body, rest') =>
          match parseFields fuel rest' with
          | some (r, rest'') => some (.adjust a body r, rest'')
          | none => none
        | _, _ => none
      | 'l' :: spec =>
        match (String.ofList spec).splitOn ":" with
        | [w, ty] =>
          match w.toNat?, parseType ty, parseFields fuel rest with
          | some w, some ty, some (child, rest') =>
            match parseFields fuel rest' with
            | some (r, rest'') => some (.link w ty child r, rest'')
            | none => none
          | _, _, _ => none
        | _ => none
      | _ => none

def parseTable (ty : String) (toks : List String) : Option Table :=
  match parseType ty, parseFields (toks.length + 1) toks with
  | some ty, some (fs, []) => some ⟨ty, fs⟩
  | _, _ => none

def showLink (l : Link) : String := s!"{l.pos}/{l.width}/{l.target}/{l.adj}"

def showEntry (e : TData × Nat) : String :=
  s!"{e.2}:{showType e.1.ty}:{rle e.1.bytes}:" ++ (if e.1.offsets.isEmpty then "-" else ";".intercalate (e.1.offsets.map showLink))

partial def showTree : Tree → String
  | .node bs kids => "(" ++ rle bs ++ (String.join (kids.map (fun k => " " ++ showTree k))) ++ ")"

def freshAfter (n : Nat) : List Nat := (List.range 256).map (· + n)

def handle (cmd : String) (args : List String) : Option String :=
  match cmd, args with
  | "tw.store", ty :: toks =>
    match parseTable ty toks with
    | some t =>
      let r := addTable id t (Writer.init 0)
      -- the store in id order (ids are drawn in increasing order, so this is insertion order)
      some (s!"root={r.1} | " ++ " | ".intercalate (r.2.tables.map showEntry))
    | none => none
  | "tw.dump", ty :: toks =>
    match parseTable ty toks with
    | some t =>
      let n := (addTable id t (Writer.init 0)).2.next
      match dumpTableT id t (freshAfter n) with
      | none => some "trap"
      | some none => some "fail"
      | some (some out) => some ("bytes " ++ rle out)
    | none => none
  | "tw.read", out :: ty :: toks =>
    match parseBytes out, parseTable ty toks with
    | some out, some t =>
      let got := showTree (readTable out 0 t)
      let want := showTree t.tree
      some (got ++ (if got == want then " same" else " DIFFERENT " ++ want))
    | _, _ => none
  | _, _ => none

end FontVerif.Drv.TableWriter
