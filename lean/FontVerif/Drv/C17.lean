/- line-protocol handlers for the C17 models (Model/Subset.lean)

requests (space separated; `-` = empty list; sections introduced by single capital letters):
  c17.plan  <flags> <num> C <cp gid>… G <per-gid: 0 | k c1…ck>… I <gid>… U <cp>… X <gid>… Y <gid>…
  c17.hmtx  <nout> L <adv lsb>… S <lsb>… M <new old>…
  c17.maxp  <flags> <nout> <hex>
  c17.glyf  <flags> <nout> M <new old>… D <per kept glyph: - | hex | E>…
  c17.glyph <flags> M <old new>… D <hex>
  c17.trim  <numCoords> <hex>
  c17.comps <hex>            component glyph ids read-fonts reports for one glyph record
  c17.closure <rem> <ops> <gid> G <comps> S <set>…
responses: see the `fmt*` functions (identical strings are produced by harness/src/bin/c17.rs)
-/
import FontVerif.Model.Subset
import FontVerif.Drv.C17Cmap
import FontVerif.Drv.C17Hvar
import FontVerif.Drv.C17Gvar
import FontVerif.Drv.C17Outline
import FontVerif.Drv.C17Post
import FontVerif.Drv.C17Colr
import FontVerif.Drv.C17Layout
import FontVerif.Drv.C17ColrPal
namespace FontVerif.Drv.C17
open FontVerif FontVerif.Subset

/-- split `args` into sections at the given marker tokens, in order; the part before the first
marker is returned first -/
def sections (markers : List String) (args : List String) : Option (List (List String)) :=
  match markers with
  | [] => some [args]
  | m :: ms =>
    let pre := args.takeWhile (· ≠ m)
    match args.dropWhile (· ≠ m) with
    | [] => none
    | _ :: rest => (sections ms rest).map (pre :: ·)

def natList (ts : List String) : Option (List Nat) :=
  if ts = ["-"] then some [] else parseNats? ts

def pairList (ts : List String) : Option (List (Nat × Nat)) := do
  let ns ← natList ts
  let rec go : List Nat → Option (List (Nat × Nat))
    | [] => some []
    | [_] => none
    | a :: b :: rest => (go rest).map ((a, b) :: ·)
  go ns

def compsList (ts : List String) : Option (List (List Nat)) := do
  let ns ← natList ts
  let rec go : Nat → List Nat → Option (List (List Nat))
    | _, [] => some []
    | 0, _ => none
    | fuel + 1, k :: rest =>
      if rest.length < k then none else (go fuel (rest.drop k)).map (rest.take k :: ·)
  go (ns.length + 1) ns

def fmtPairs (ps : List (Nat × Nat)) : String :=
  if ps.isEmpty then "-" else " ".intercalate (ps.map (fun p => s!"{p.1} {p.2}"))

def fmtPlan (p : Plan) : String :=
  s!"gsub:{joinNats p.gsub}|colred:{joinNats p.colred}|set:{joinNats p.glyphset}|n2o:{fmtPairs p.n2o}|u2g:{fmtPairs p.u2g}|nout:{p.nout}"

def fmtGlyph : GlyphRes → String
  | .bytes b => toHex b
  | .readErr => "readerr"
  | .trap => "trap"

def parseSlot (t : String) : Option Slot :=
  if t = "-" then some .empty else if t = "E" then some .err else (parseHex? t).map .data

def handle (cmd : String) (args : List String) : Option String :=
  match cmd with
  | "c17.plan" => do
    let [hd, c, g, i, u, x, y] ← sections ["C", "G", "I", "U", "X", "Y"] args | none
    let [flags, num] ← parseNats? hd | none
    let p : PlanIn := { flags, num, cmap := ← pairList c, comps := ← compsList g, gids := ← natList i,
                        unicodes := ← natList u, extraGsub := ← natList x, extraColred := ← natList y }
    match makePlan p with
    | none => some "trap"
    | some pl => some (fmtPlan pl)
  | "c17.hmtx" => do
    let [hd, l, s, m] ← sections ["L", "S", "M"] args | none
    let [nout] ← parseNats? hd | none
    match subsetHmtx (← pairList l) (← natList s) (← pairList m) nout with
    | .error e => some e
    | .ok o => some s!"ok {o.numH} {toHex o.bytes}"
  | "c17.maxp" => do
    let [flags, nout, h] := args | none
    match subsetMaxp (← parseNat? flags) (← parseNat? nout) (← parseHex? h) with
    | none => some "unmodelled"
    | some b => some (toHex b)
  | "c17.glyf" => do
    let [hd, m, d] ← sections ["M", "D"] args | none
    let [flags, nout] ← parseNats? hd | none
    let n2o ← pairList m
    let slots ← if n2o.isEmpty then (if d = ["-"] then some [] else none) else d.mapM parseSlot
    if slots.length ≠ n2o.length then none else
    match subsetGlyf flags nout n2o slots with
    | .error e => some e
    | .ok o => some s!"fmt={o.fmt} loca={toHex o.loca} glyf={toHex o.glyf}"
  | "c17.glyph" => do
    let [hd, m, d] ← sections ["M", "D"] args | none
    let [flags] ← parseNats? hd | none
    let map ← pairList m
    let [h] := d | none
    some (fmtGlyph (subsetGlyphBytes flags (fun old => lookupNat old map) (← parseHex? h)))
  | "c17.comps" => do
    let [h] := args | none
    some (joinNats (componentsOfRecord (← parseHex? h)))
  | "c17.trim" => do
    let [n, h] := args | none
    some (toString (trimSimpleGlyphPadding (← parseHex? h) (← parseNat? n)))
  | "c17.closure" => do
    let [hd, g, s] ← sections ["G", "S"] args | none
    let [rem, ops, gid] ← parseInts? hd | none
    if rem < 0 ∨ gid < 0 then none else
    let r := closureGo (← compsList g) rem.toNat gid.toNat (← natList s, ops)
    some s!"{joinNats (r.1.toArray.qsort (· < ·)).toList} {r.2}"
  | _ =>
    match C17Cmap.handle cmd args with
    | some r => some r
    | none =>
      match C17Hvar.handle cmd args with
      | some r => some r
      | none =>
        match C17Gvar.handle cmd args with
        | some r => some r
        | none =>
          match C17Outline.handle cmd args with
          | some r => some r
          | none =>
            match C17Post.handle cmd args with
            | some r => some r
            | none =>
              match C17Colr.handle cmd args with
              | some r => some r
              | none =>
                match C17Layout.handle cmd args with
                | some r => some r
                | none => C17ColrPal.handle cmd args

end FontVerif.Drv.C17
