/- line-protocol handlers for the C17 models (stub: nothing modelled yet) -/
import FontVerif.Model.Base
namespace FontVerif.Drv.C17
open FontVerif

def handle (_cmd : String) (_args : List String) : Option String := none

end FontVerif.Drv.C17
