/- line-protocol handlers for the C09 models (Model/Glyf.lean) -/
import FontVerif.Model.Glyf
import FontVerif.Model.GlyfPath
namespace FontVerif.Drv.C09
open FontVerif FontVerif.Glyf

/-! token parser: every spec is self-delimiting -/
abbrev P := StateT (List String) Option

def tok : P String := fun s => match s with
  | [] => none
  | t :: r => some (t, r)

def pInt : P Int := do let t ← tok; match parseInt? t with | some v => pure v | none => failure
def pNat : P Nat := do let t ← tok; match parseNat? t with | some v => pure v | none => failure
def pHex : P (List Nat) := do let t ← tok; match parseHex? t with | some v => pure v | none => failure

def pMany {α} (p : P α) : Nat → P (List α)
  | 0 => pure []
  | n + 1 => do let a ← p; let r ← pMany p n; pure (a :: r)

def pPoint : P Point := do
  let x ← pInt; let y ← pInt; let o ← pNat
  if o > 1 then failure else pure ⟨x, y, o == 1⟩

/-- `<xMin> <yMin> <xMax> <yMax> <instrhex> <k> <len_1>..<len_k> <x y on>*` -/
def pSimple : P SimpleGlyph := do
  let a ← pInt; let b ← pInt; let c ← pInt; let d ← pInt
  let ins ← pHex
  let k ← pNat
  let lens ← pMany pNat k
  let contours ← lens.mapM (fun n => pMany pPoint n)
  pure ⟨a, b, c, d, contours, ins⟩

def pAnchor : P Anchor := do
  let k ← tok
  match k with
  | "o" => do let x ← pInt; let y ← pInt; pure (.offset x y)
  | "p" => do let x ← pNat; let y ← pNat; pure (.point x y)
  | _ => failure

/-- `<glyph> <o x y | p base comp> <userflags 0..31> <xx> <yx> <xy> <yy>` -/
def pComponent : P Component := do
  let g ← pNat
  let a ← pAnchor
  let uf ← pNat
  if uf > 31 then failure else
  let xx ← pInt; let yx ← pInt; let xy ← pInt; let yy ← pInt
  pure ⟨g, a, ⟨uf % 2 == 1, uf / 2 % 2 == 1, uf / 4 % 2 == 1, uf / 8 % 2 == 1, uf / 16 % 2 == 1⟩,
        ⟨xx, yx, xy, yy⟩⟩

/-- `<xMin> <yMin> <xMax> <yMax> <instrhex> <n> <component>*` -/
def pComposite : P CompositeGlyph := do
  let a ← pInt; let b ← pInt; let c ← pInt; let d ← pInt
  let ins ← pHex
  let n ← pNat
  let cs ← pMany pComponent n
  pure ⟨a, b, c, d, cs, ins⟩

def pGlyph : P Glyph := do
  let k ← tok
  match k with
  | "E" => pure .empty
  | "S" => do let g ← pSimple; pure (.simple g)
  | "C" => do let g ← pComposite; pure (.composite g)
  | _ => failure

def runAll {α} (p : P α) (args : List String) : Option α :=
  match p args with
  | some (a, []) => some a
  | _ => none

partial def pGlyphs : P (List Glyph) := fun s =>
  match s with
  | [] => some ([], [])
  | _ => match pGlyph s with
    | none => none
    | some (g, r) => match pGlyphs r with
      | none => none
      | some (gs, r') => some (g :: gs, r')

/-! rendering -/

def showWrite : WriteResult → String
  | .ok b => toHex b
  | .invalid => "invalid"
  | .trap => "trap"

def showPoints (ps : List Point) : String :=
  joinInts (ps.flatMap (fun p => [p.x, p.y, if p.on then 1 else 0]))

def showFast : Option (List (Int × Int × Nat)) → String
  | none => "err"
  | some l => joinInts (l.flatMap (fun t => [t.1, t.2.1, (t.2.2 : Int)]))

def showSimple (v : SimpleView) : String :=
  s!"{v.nContours} {v.xMin} {v.yMin} {v.xMax} {v.yMax} | {joinNats v.endPts} | {toHex v.instructions} | {showPoints v.points} | {showFast v.readPointsFast}"

def showAnchor : Anchor → String
  | .offset x y => s!"o {x} {y}"
  | .point b c => s!"p {b} {c}"

def showRComponent (c : RComponent) : String :=
  s!"{c.flags} {c.glyph} {showAnchor c.anchor} {c.transform.xx} {c.transform.yx} {c.transform.xy} {c.transform.yy}"

def showComposite (v : CompositeView) : String :=
  let cs := if v.components.isEmpty then "-" else " ; ".intercalate (v.components.map showRComponent)
  let ins := match v.instructions with | none => "none" | some b => toHex b
  s!"{v.xMin} {v.yMin} {v.xMax} {v.yMax} | {cs} | {v.count} | {ins}"

/-- `Glyph::read`: dispatch on the sign of the first i16. -/
def showGlyphRead (data : List Nat) : String :=
  match i16At data 0 with
  | none => "err"
  | some nc =>
    if nc ≥ 0 then
      match readSimple data with
      | none => "err"
      | some v => "S " ++ showSimple v
    else
      match readComposite data with
      | none => "err"
      | some v => "C " ++ showComposite v

/-- write-fonts `SimpleGlyph::from_table_ref` on a parsed simple glyph: the contours -/
def showOwned (data : List Nat) : String :=
  match i16At data 0 with
  | none => "err"
  | some nc =>
    if nc < 0 then (if (readComposite data).isSome then "n/a" else "err") else
    match readSimple data with
    | none => "err"
    | some v =>
      match contoursOf 0 v.endPts v.points with
      | none => "trap"
      | some cs => s!"{joinNats (cs.map List.length)} | {showPoints cs.flatten}"

/-- path elements: `M x y`, `L x y`, `Q cx cy x y`, `C`, `Z` -/
partial def pEls : P (List GlyfPath.El) := fun s =>
  match s with
  | [] => some ([], [])
  | _ =>
    let one : P GlyfPath.El := do
      let k ← tok
      match k with
      | "M" => do let x ← pInt; let y ← pInt; pure (.move x y)
      | "L" => do let x ← pInt; let y ← pInt; pure (.line x y)
      | "Q" => do let a ← pInt; let b ← pInt; let x ← pInt; let y ← pInt; pure (.quad a b x y)
      | "C" => pure .cubic
      | "Z" => pure .close
      | _ => failure
    match one s with
    | none => none
    | some (e, r) => match pEls r with
      | none => none
      | some (es, r') => some (e :: es, r')

def showFromBezpath (els : List GlyfPath.El) : String :=
  match GlyfPath.fromBezpath els with
  | .error .hasCubic => "err:HasCubic"
  | .error .missingMove => "err:MissingMove"
  | .ok g =>
    s!"{g.xMin} {g.yMin} {g.xMax} {g.yMax} | {joinNats (g.contours.map List.length)} | {showPoints g.contours.flatten}"

/-- skrifa unscaled draw of a simple glyph given by its bytes: pen calls in 26.6 units -/
def showDraw (data : List Nat) : String :=
  match readSimple data with
  | none => "err:read"
  | some v =>
    match v.readPointsFast with
    | none => "err:points"
    | some pts =>
      let r := GlyfPath.drawUnscaled pts v.endPts
      let cs := " ".intercalate (r.1.map ToPath.Cmd.render)
      let e := match r.2 with | none => "ok" | some _ => "err"
      if r.1.isEmpty then e else s!"{cs} {e}"

def handle (cmd : String) (args : List String) : Option String :=
  match cmd with
  | "draw" =>
    match args with
    | [h] => (parseHex? h).map showDraw
    | _ => none
  | "path.glyph" => (runAll pEls (if args = ["-"] then [] else args)).map showFromBezpath
  | "g.owned" =>
    match args with
    | [h] => (parseHex? h).map showOwned
    | _ => none
  | "g.write" => (runAll pGlyph args).map (fun g => showWrite (writeGlyph g))
  | "g.read" =>
    match args with
    | [h] => (parseHex? h).map showGlyphRead
    | _ => none
  | "loca.write" =>
    (if args = ["-"] then some [] else parseNats? args).map (fun offs =>
      (if locaIsLong offs then "L " else "S ") ++ toHex (writeLoca offs))
  | "loca.get" =>
    match args with
    | [l, lh, gh, gid] =>
      match parseNat? l, parseHex? lh, parseHex? gh, parseNat? gid with
      | some l, some lb, some glyf, some gid =>
        if l > 1 then none else
        some (match readLoca lb (l == 1) with
          | none => "err"
          | some raw =>
            match getGlyf raw glyf gid with
            | .err => "err"
            | .none => "none"
            | .bytes s d => if showGlyphRead d = "err" then "err" else s!"{s} {d.length}")
      | _, _, _, _ => none
    | _ => none
  | "build" =>
    (runAll pGlyphs args).map (fun gs =>
      match build gs with
      | none => "fail"
      | some (glyf, loca) =>
        (if locaIsLong loca then "L " else "S ") ++ toHex (writeLoca loca) ++ " " ++ toHex glyf)
  | "hist" =>
    -- a builder history whose `Err`s the caller ignores: the per-call outcomes (up to the first panic),
    -- then the built tables
    (runAll pGlyphs args).map (fun gs =>
      let outs := String.intercalate "" ((histOutcomes gs).map (fun o =>
        match o with | .ok => "o" | .err => "e" | .trap => "t"))
      match buildHist gs with
      | none => outs ++ " | trap"
      | some (glyf, loca) =>
        outs ++ " | " ++ (if locaIsLong loca then "L " else "S ") ++ toHex (writeLoca loca) ++ " " ++ toHex glyf)
  | _ => none

end FontVerif.Drv.C09
