/- line-protocol handlers for the C01 hand-written iterator models (Model/ReadIter.lean).
All commands are prefixed `it.`. -/
import FontVerif.Model.ReadIter
namespace FontVerif.Drv.C01Iter
open FontVerif FontVerif.ReadIter

/-- FNV-1a style 64-bit fold over a list of naturals (each reduced mod 2^64 first) -/
def fnv (xs : List Nat) : Nat :=
  xs.foldl (fun h x => ((h ^^^ (x % 18446744073709551616)) * 1099511628211) % 18446744073709551616)
    14695981039346656037

/-- two's complement view of an i32 -/
def u32OfInt (v : Int) : Nat := (v % 4294967296).toNat

/-- `<count> <hash> <first> <last>`; an item is rendered as its components joined by `:` -/
def summary (rows : List (List Nat)) : String :=
  let render := fun (r : List Nat) => ":".intercalate (r.map toString)
  let first := match rows.head? with | some r => render r | none => "-"
  let last := match rows.getLast? with | some r => render r | none => "-"
  s!"{rows.length} {fnv rows.flatten} {first} {last}"

def pairRows (xs : List (Nat × Nat)) : List (List Nat) := xs.map (fun p => [p.1, p.2])

def splitAtN (n : Nat) (xs : List Int) : Option (List Int × List Int) :=
  if n ≤ xs.length then some (xs.take n, xs.drop n) else none

def parseCmap4 (xs : List Int) : Option Cmap4 :=
  match xs with
  | [] => none
  | n :: rest =>
    if n < 0 then none else
    let n := n.toNat
    match splitAtN n rest with
    | none => none
    | some (e, r1) =>
    match splitAtN n r1 with
    | none => none
    | some (s, r2) =>
    match splitAtN n r2 with
    | none => none
    | some (dl, r3) =>
    match splitAtN n r3 with
    | none => none
    | some (ro, g) =>
      if (e ++ s ++ ro ++ g).all (fun v => decide (0 ≤ v)) then
        let t : Cmap4 := { endCode := e.map Int.toNat, startCode := s.map Int.toNat, idDelta := dl,
                           idRangeOffset := ro.map Int.toNat, glyphIdArray := g.map Int.toNat }
        if t.wf then some t else none
      else none

def parseGroups : List Int → Option (List Group)
  | [] => some []
  | a :: b :: c :: r =>
    if 0 ≤ a ∧ 0 ≤ b ∧ 0 ≤ c then
      let g : Group := { startChar := a.toNat, endChar := b.toNat, startGlyph := c.toNat }
      if g.wf then (parseGroups r).map (g :: ·) else none
    else none
  | _ => none

def parseKind (s : String) : Option VarKind :=
  if s = "1" then some (.plain 1) else if s = "2" then some (.plain 2)
  else if s = "4" then some (.plain 4) else if s = "sm" then some .segmentMaps
  else if s = "slt" then some .scriptLangTag else none

def kindDataOk (k : VarKind) (d : List Nat) : Bool :=
  match k with
  | .scriptLangTag => d.all (· < 128)
  | _ => true

def renderItem : Option Nat → String
  | some n => s!"o{n}"
  | none => "e"

def renderOut {α : Type} (f : α → String) : Out α → String
  | .yield a => f a
  | .cont => "c"
  | .done => "n"
  | .trap => "trap"

/-- the results of the first `k` calls of a loop-free `next` -/
def calls {σ α : Type} (step : σ → Out α × σ) : Nat → σ → List (Out α)
  | 0, _ => []
  | k + 1, s => let r := step s; r.1 :: calls step k r.2

def joinStrs (xs : List String) : String := if xs.isEmpty then "-" else " ".intercalate xs

def traceSummary {α : Type} (rows : α → List Nat) (t : Option (List (Out α))) : String :=
  match t with
  | none => "fuel"
  | some evs => if trapped evs then "trap" else summary ((items evs).map rows)

def handle (cmd : String) (args : List String) : Option String :=
  match cmd, args with
  | "it.cmap4", _ =>
    match parseInts? args with
    | none => none
    | some xs =>
      match parseCmap4 xs with
      | none => none
      | some t => some (traceSummary (fun p => [p.1, p.2]) t.trace)
  | "it.cmap4.steps", _ =>
    -- number of trips round the loop of `next` over a whole traversal (incl. the final one)
    match parseInts? args with
    | none => none
    | some xs =>
      match parseCmap4 xs with
      | none => none
      | some t => match t.trace with
        | none => some "fuel"
        | some evs => some (toString (evs.length + 1))
  | "it.cmap12", _ =>
    match parseInts? args with
    | some (limFlag :: maxChar :: glyphCount :: cap :: rest) =>
      if limFlag < 0 ∨ limFlag > 1 ∨ maxChar < 0 ∨ glyphCount < 0 ∨ cap < 0 then none else
      match parseGroups rest with
      | none => none
      | some gs =>
        let l : Limits := { maxChar := maxChar.toNat, glyphCount := glyphCount.toNat }
        if !l.wf then none else
        let lim := if limFlag = 1 then some l else none
        match runTake (step12 gs lim) (fuel12 gs lim) cap.toNat (init12 gs lim) with
        | none => some "fuel"
        | some its => some (summary (pairRows its))
    | _ => none
  | "it.cmap12.bound", _ =>
    match parseInts? args with
    | some (limFlag :: maxChar :: glyphCount :: rest) =>
      if limFlag < 0 ∨ limFlag > 1 ∨ maxChar < 0 ∨ glyphCount < 0 then none else
      match parseGroups rest with
      | none => none
      | some gs =>
        let l : Limits := { maxChar := maxChar.toNat, glyphCount := glyphCount.toNat }
        let lim := if limFlag = 1 then some l else none
        some (toString (groupLenSum gs lim))
    | _ => none
  | "it.pt.count", [h] => (parseHex? h).map (fun d => toString (pointCount d))
  | "it.pt.split", [h] =>
    (parseHex? h).map (fun d => match splitOffFrontRemainder d with
      | none => "trap" | some r => toString r)
  | "it.pt.iter", [h] => (parseHex? h).map (fun d => traceSummary (fun v => [v]) (ptTrace d))
  | "it.pt.calls", [h, k] =>
    match parseHex? h, parseNat? k with
    | some d, some k => some (joinStrs ((calls (ptNext d) k (ptInit d)).map (renderOut toString)))
    | _, _ => none
  | "it.dl.count", [h] =>
    (parseHex? h).map (fun d => match countAllDeltas d with | none => "fuel" | some c => toString c)
  | "it.dl.all", [h] =>
    (parseHex? h).map (fun d => traceSummary (fun v => [u32OfInt v]) (consumeAllIter d))
  | "it.dl.calls", [h, k] =>
    match parseHex? h, parseNat? k with
    | some d, some k =>
      match countAllDeltas d with
      | none => some "fuel"
      | some c => some (joinStrs ((calls (dlNext d) k (dlInit (some c))).map (renderOut toString)))
    | _, _ => none
  | "it.td", [p, h] =>
    match parseNat? p, parseHex? h with
    | some p, some d =>
      if p > 1 then none else
      some (traceSummary (fun r => [r.1, u32OfInt r.2.1, u32OfInt r.2.2]) (tdTrace d (p == 1)))
    | _, _ => none
  | "it.var.len", [k, pos, h] =>
    match parseKind k, parseNat? pos, parseHex? h with
    | some k, some pos, some d =>
      if !kindDataOk k d then none else
      some (match readLenAt k d pos with | none => "none" | some l => toString l)
    | _, _, _ => none
  | "it.var.total", [k, n, h] =>
    match parseKind k, parseNat? n, parseHex? h with
    | some k, some n, some d =>
      if !kindDataOk k d then none else
      some (match totalLenForCount k d n 0 with | none => "err" | some l => toString l)
    | _, _, _ => none
  | "it.var.iter", [k, h] =>
    match parseKind k, parseHex? h with
    | some k, some d =>
      if !kindDataOk k d then none else
      some (match varIterTrace k d with
        | none => "fuel"
        | some evs => joinStrs ((items evs).map renderItem))
    | _, _ => none
  | "it.var.get", [k, idx, h] =>
    match parseKind k, parseNat? idx, parseHex? h with
    | some k, some idx, some d =>
      if !kindDataOk k d then none else
      some (match varGet k d idx with | none => "none" | some r => renderItem r)
    | _, _, _ => none
  | "it.comp.iter", [dl, il] =>
    match parseNat? dl, parseNat? il with
    | some dl, some il =>
      some (match run (computedIterStep dl il) (dl + 2) 0 with
        | none => "fuel"
        | some evs => summary ((items evs).map (fun v => [v])))
    | _, _ => none
  | "it.comp.get", [dl, il, idx] =>
    match parseNat? dl, parseNat? il, parseNat? idx with
    | some dl, some il, some idx =>
      some (match computedGet dl il idx with | none => "err" | some o => toString o)
    | _, _, _ => none
  | _, _ => none

end FontVerif.Drv.C01Iter
