/- line-protocol handlers for the C03 control-flow models (all-integer protocol of drv_c03):

   `sk.ctl  <pedantic> <nPts> <nCvt> <nSto> <maxStack> <nF> <nI> <numGlyphs> x0 … x(nPts+3)  Lf fpgm…  Lp prep…  Lg glyph…`
   `ft.ctl  <pedantic> <same>`         `cmp.ctl <pedantic> <same>`

   sk.ctl: skrifa `HintInstance::reconfigure` (font program, then control value program on the same engine: the
           storage carries over, the value stack is cleared) and `HintInstance::hint` of one glyph with the given x coordinates (26.6;
           the last four are the phantom points), Target::Mono, static font → `ok x…`, `err:new:<Kind>`, `err:draw:<Kind>`
   ft.ctl: FreeType `tt_size_init_bytecode` (fpgm) / `tt_size_ready_bytecode` (storage cleared, prep) / `TT_Hint_Glyph`
           → `ok x…` (non-pedantic: also after a glyph-program error, with the points as they were at the abort) or
           `err:<FT_Error>`
   cmp.ctl: both machines in lock step, non-pedantic: `same`, or `diff:<stage>:<clause of CtlCompare.sideCond>` -/
import FontVerif.Model.CtlCompare
namespace FontVerif.Drv.C03Control
open FontVerif

structure Req where
  nPts : Nat
  nCvt : Nat
  nSto : Nat
  maxStack : Nat
  nF : Nat
  nI : Nat
  numGlyphs : Nat
  xs : List Int
  fpgm : List Nat
  prep : List Nat
  glyph : List Nat

def takeNats (n : Nat) (l : List Int) : Option (List Nat × List Int) :=
  if l.length < n then none
  else
    let h := l.take n
    if h.all (fun v => 0 ≤ v ∧ v < 256) then some (h.map Int.toNat, l.drop n) else none

def parseReq (xs : List Int) : Option Req :=
  match xs with
  | nPts :: nCvt :: nSto :: maxStack :: nF :: nI :: ng :: rest =>
    if nPts < 0 ∨ nCvt < 0 ∨ nSto < 0 ∨ maxStack < 0 ∨ nF < 0 ∨ nI < 0 ∨ ng < 0 then none else
    let n := nPts.toNat + 4
    if rest.length < n then none else
    let coords := rest.take n
    match rest.drop n with
    | lf :: r1 =>
      if lf < 0 then none else
      match takeNats lf.toNat r1 with
      | none => none
      | some (f, r2) =>
        match r2 with
        | lp :: r3 =>
          if lp < 0 then none else
          match takeNats lp.toNat r3 with
          | none => none
          | some (p, r4) =>
            match r4 with
            | lg :: r5 =>
              if lg < 0 then none else
              match takeNats lg.toNat r5 with
              | some (g, []) => some ⟨nPts.toNat, nCvt.toNat, nSto.toNat, maxStack.toNat, nF.toNat, nI.toNat, ng.toNat, coords, f, p, g⟩
              | _ => none
            | [] => none
        | [] => none
    | [] => none
  | _ => none

def zeros (n : Nat) : List Int := List.replicate n 0

def skCfg (r : Req) (glyph : Bool) (ped : Bool := false) : Interp.Cfg FtControl.Dat :=
  { font := r.fpgm.toArray, cv := r.prep.toArray, glyph := if glyph then r.glyph.toArray else #[],
    limit := if glyph then HintControl.skLimit (some (r.nPts + 4)) r.nCvt else HintControl.skLimit none r.nCvt,
    pedantic := ped, sem := HintControl.semSubset, axisCount := 0 }

def ftCfg (r : Req) (ped : Bool) (glyph : Bool) : FtControl.Cfg FtControl.Dat :=
  let m := FtControl.loopMax (if glyph then r.nPts + 4 else 0) r.nCvt r.numGlyphs
  { font := r.fpgm.toArray, cvt := r.prep.toArray, glyph := if glyph then r.glyph.toArray else #[],
    stackSize := r.maxStack + 32, maxFDefs := FtControl.maxFDefsOf r.nF, maxIDefs := r.nI, loopcallMax := m, negJumpMax := m,
    pedantic := ped, sem := FtControl.semSubset }

def dat0 (r : Req) (ped : Bool) : FtControl.Dat := { xs := [], store := zeros r.nSto, stackSize := r.maxStack + 32, pedantic := ped }

def renderXs (r : Req) (xs : List Int) : String := "ok " ++ joinInts (xs.take r.nPts)

def skTaint (e : Interp.Err) : Bool := match e with | .data n => n ≥ 1000 | _ => false
def ftTaint (e : FtControl.Err) : Bool := match e with | .data n => n ≥ 1000 | _ => false

def skRun (r : Req) (ped : Bool) : String :=
  let blank (n : Nat) : List Interp.Def := (List.range n).map (fun _ => {})
  let s1 := Interp.run (skCfg r false) (Interp.initSt 0 (blank (Interp.functionSlots r.nF)) (blank r.nI) [] (dat0 r false))
  match s1.status with
  | .failed e => if skTaint e then "tainted" else s!"err:new:{e.name}"
  | .stuck => "stuck"
  | .running => "running"
  | .done =>
    let s2 := Interp.run (skCfg r false) (Interp.initSt 1 s1.funcs s1.idefs (HintControl.prepStack s1.vs) s1.data)
    match s2.status with
    | .failed e => if skTaint e then "tainted" else s!"err:new:{e.name}"
    | .stuck => "stuck"
    | .running => "running"
    | .done =>
      let s3 := Interp.run (skCfg r true ped) (Interp.initSt 2 s2.funcs s2.idefs [] { s2.data with xs := r.xs, pedantic := ped })
      match s3.status with
      | .failed e => if skTaint e then "tainted" else if ped then s!"err:draw:{e.name}" else renderXs r s3.data.xs
      | .stuck => "stuck"
      | .running => "running"
      | .done => renderXs r s3.data.xs

/-- a stage that is skipped when its program is empty (`font_program_size > 0`, `cvt_program_size > 0`, `n_ins > 0`) -/
def ftStage (c : FtControl.Cfg FtControl.Dat) (range : Nat) (t : FtControl.St FtControl.Dat) : FtControl.St FtControl.Dat :=
  if (c.code range).size = 0 then { t with status := .done } else FtControl.run c t

def ftRun (r : Req) (ped : Bool) : String :=
  let t1 := ftStage (ftCfg r ped false) 1 (FtControl.initSt 1 [] [] 0 0 [] (dat0 r ped))
  match t1.status with
  | .failed e => if ftTaint e then "tainted" else s!"err:{e.code}"
  | .stuck => "stuck"
  | .running => "running"
  | .done =>
    -- `tt_size_ready_bytecode`: storage cleared; `tt_size_run_prep`: `top = 0`
    let t2 := ftStage (ftCfg r ped false) 2 (FtControl.initSt 2 t1.fdefs t1.idefs t1.maxFunc t1.maxIns [] (dat0 r ped))
    match t2.status with
    | .failed e => if ftTaint e then "tainted" else s!"err:{e.code}"
    | .stuck => "stuck"
    | .running => "running"
    | .done =>
      let t3 := ftStage (ftCfg r ped true) 3
        (FtControl.initSt 3 t2.fdefs t2.idefs t2.maxFunc t2.maxIns [] { t2.data with xs := r.xs })
      match t3.status with
      | .failed e => if ftTaint e then "tainted" else if ped then s!"err:{e.code}" else renderXs r t3.data.xs
      | .stuck => "stuck"
      | .running => "running"
      | .done => renderXs r t3.data.xs

/-- lock step of one stage: the first side-condition clause that fires, else the two final states -/
def lockStep (c : Interp.Cfg FtControl.Dat) (fc : FtControl.Cfg FtControl.Dat) :
    Nat → Interp.St FtControl.Dat → FtControl.St FtControl.Dat → Except String (Interp.St FtControl.Dat × FtControl.St FtControl.Dat)
  | 0, s, t => .ok (s, t)
  | n + 1, s, t =>
    match s.status, t.status with
    | .running, .running =>
      match CtlCompare.sideCond c fc s t with
      | some clause => .error clause
      | none => lockStep c fc n (Interp.step c s) (FtControl.step fc t)
    | _, _ => .ok (s, t)

def outcomeSame (s : Interp.St FtControl.Dat) (t : FtControl.St FtControl.Dat) : Bool :=
  match s.status, t.status with
  | .done, .done => s.vs == t.stack && s.data == t.data
  | .failed e, .failed f => CtlCompare.errRel e f
  | _, _ => false

def cmpRun (r : Req) (ped : Bool) : String :=
  let blank (n : Nat) : List Interp.Def := (List.range n).map (fun _ => {})
  let fuel := Interp.MAX_RUN_INSTRUCTIONS + 3
  let c := skCfg r false
  let fc := ftCfg r false false
  let stage (name : String) (c : Interp.Cfg FtControl.Dat) (fc : FtControl.Cfg FtControl.Dat) (range : Nat)
      (s : Interp.St FtControl.Dat) (t : FtControl.St FtControl.Dat)
      (k : Interp.St FtControl.Dat → FtControl.St FtControl.Dat → String) : String :=
    if (fc.code range).size = 0 then k { s with status := .done } { t with status := .done }
    else
      match lockStep c fc fuel s t with
      | .error clause => s!"diff:{name}:{clause}"
      | .ok (s, t) =>
        if (match s.status with | .failed e => skTaint e | _ => false) || (match t.status with | .failed e => ftTaint e | _ => false) then "tainted"
        else if ¬ outcomeSame s t then s!"UNEXPLAINED:{name}"
        else match s.status with
          | .done => k s t
          | _ => s!"same:err:{name}"
  -- FreeType runs fpgm / prep in the mode of the load, skrifa always non-pedantic: the pedantic comparison is only
  -- meaningful when that makes no difference
  let pedChanges : Bool :=
    ped && (
      let a := ftStage (ftCfg r true false) 1 (FtControl.initSt 1 [] [] 0 0 [] (dat0 r true))
      let b := ftStage (ftCfg r false false) 1 (FtControl.initSt 1 [] [] 0 0 [] (dat0 r false))
      a.status != b.status ||
      (let a2 := ftStage (ftCfg r true false) 2 (FtControl.initSt 2 a.fdefs a.idefs a.maxFunc a.maxIns [] (dat0 r true))
       let b2 := ftStage (ftCfg r false false) 2 (FtControl.initSt 2 b.fdefs b.idefs b.maxFunc b.maxIns [] (dat0 r false))
       a2.status != b2.status || a2.data.store != b2.data.store || a2.fdefs != b2.fdefs || a2.idefs != b2.idefs))
  if pedChanges then "diff:fpgm:pedantic-load-changes-fpgm-or-prep" else
  stage "fpgm" c fc 1 (Interp.initSt 0 (blank (Interp.functionSlots r.nF)) (blank r.nI) [] (dat0 r false))
      (FtControl.initSt 1 [] [] 0 0 [] (dat0 r false)) fun s1 t1 =>
    if s1.data.store ≠ zeros r.nSto then "diff:prep:storage-written-by-fpgm"
    else
    stage "prep" c fc 2 (Interp.initSt 1 s1.funcs s1.idefs (HintControl.prepStack s1.vs) s1.data)
        (FtControl.initSt 2 t1.fdefs t1.idefs t1.maxFunc t1.maxIns [] (dat0 r false)) fun s2 t2 =>
      stage "glyph" (skCfg r true ped) (ftCfg r ped true) 3
          (Interp.initSt 2 s2.funcs s2.idefs [] { s2.data with xs := r.xs, pedantic := ped })
          (FtControl.initSt 3 t2.fdefs t2.idefs t2.maxFunc t2.maxIns [] { t2.data with xs := r.xs, pedantic := ped }) fun _ _ => "same"

def handle (cmd : String) (xs : List Int) : Option String :=
  match cmd, xs with
  | "sk.ctl", ped :: xs => if ped = 0 ∨ ped = 1 then (parseReq xs).map (fun r => skRun r (ped = 1)) else none
  | "ft.ctl", ped :: xs => if ped = 0 ∨ ped = 1 then (parseReq xs).map (fun r => ftRun r (ped = 1)) else none
  | "cmp.ctl", ped :: xs => if ped = 0 ∨ ped = 1 then (parseReq xs).map (fun r => cmpRun r (ped = 1)) else none
  | _, _ => none

end FontVerif.Drv.C03Control
