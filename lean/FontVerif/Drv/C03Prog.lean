/- line-protocol handlers `sk.run` / `ft.run`: a generated TrueType glyph program executed by the two
   interpreter models (Model/HintStep.lean, Model/FtStep.lean) on a given initial zone state.
   Request (all integers):
     <side>.run bc target ppem scale composite nOut
                nG (ox oy cx cy ux uy on)*nG   nT (ox oy cx cy)*nT   nE e*nE   nC c*nC   nOps (op imm)*nOps
   `target`: 0 mono, 1 normal, 2 light, 3 lcd, 4 vertical lcd (read by GETINFO only).
   Response: `x y on` of the first nOut glyph-zone points, or an error word. -/
import FontVerif.Model.HintStep
import FontVerif.Model.FtStep
namespace FontVerif.Drv.C03Prog
open FontVerif FontVerif.Tt

def take (n : Nat) (xs : List Int) : Option (List Int × List Int) :=
  if xs.length < n then none else some (xs.take n, xs.drop n)

def counted (k : Nat) (xs : List Int) : Option (List (List Int) × List Int) :=
  match xs with
  | [] => none
  | n :: rest =>
    if n < 0 then none else
    let rec go : Nat → List Int → List (List Int) → Option (List (List Int) × List Int)
      | 0, xs, acc => some (acc.reverse, xs)
      | m + 1, xs, acc =>
        match take k xs with
        | none => none
        | some (a, r) => go m r (a :: acc)
    go n.toNat rest []

def mkG : List Int → Option ZPt
  | [ox, oy, cx, cy, ux, uy, on] => some ⟨⟨ox, oy⟩, ⟨cx, cy⟩, ⟨ux, uy⟩, false, false, on ≠ 0⟩
  | _ => none

def mkT : List Int → Option ZPt
  | [ox, oy, cx, cy] => some ⟨⟨ox, oy⟩, ⟨cx, cy⟩, ⟨0, 0⟩, false, false, false⟩
  | _ => none

def mkOp : List Int → Option (Int × Int)
  | [a, b] => some (a, b)
  | _ => none

def one : List Int → Option Int
  | [a] => some a
  | _ => none

/-- the state at the start of a glyph program (`GraphicsState::default()` / `tt_default_graphics_state`,
retained state as left by an empty prep). -/
def initial (bc target ppem scale composite : Int) (g t : List ZPt) (ends : List Nat) (cvt : List Int) : St :=
  { glyph := g, twi := t, ends := ends, stack := [],
    pv := ⟨16384, 0⟩, dv := ⟨16384, 0⟩, fv := ⟨16384, 0⟩,
    rp0 := 0, rp1 := 0, rp2 := 0, zp0 := 1, zp1 := 1, zp2 := 1, loop := 1,
    rmode := 0, rthr := 0, rph := 0, rper := 64,
    cutin := 68, sw := 0, swci := 0, md := 64, autoFlip := true,
    deltaBase := 9, deltaShift := 3, instructControl := 0, scanControl := false, scanType := target,
    bc := bc ≠ 0, iupx := false, iupy := false, composite := composite ≠ 0,
    scale := scale, ppem := ppem, cvt := cvt, store := [] }

def parse (xs : List Int) : Option (St × Nat × List (Int × Int)) :=
  match xs with
  | bc :: target :: ppem :: scale :: composite :: nOut :: rest =>
    (counted 7 rest).bind fun (gs, rest) =>
    (counted 4 rest).bind fun (ts, rest) =>
    (counted 1 rest).bind fun (es, rest) =>
    (counted 1 rest).bind fun (cs, rest) =>
    (counted 2 rest).bind fun (os, rest) =>
    if rest ≠ [] ∨ nOut < 0 then none else
    (gs.mapM mkG).bind fun g =>
    (ts.mapM mkT).bind fun t =>
    (es.mapM one).bind fun e =>
    (cs.mapM one).bind fun c =>
    (os.mapM mkOp).bind fun o =>
    if e.any (· < 0) then none else
    some (initial bc target ppem scale composite g t (e.map Int.toNat) c, nOut.toNat, o)
  | _ => none

def render (n : Nat) (r : R St) : String :=
  match r with
  | .error e => e
  | .ok s => joinInts ((s.glyph.take n).flatMap fun p => [p.cur.x, p.cur.y, if p.on then 1 else 0])

/-- largest magnitude among the current coordinates of both zones and the stack cells. -/
def maxAbs (s : St) : Int :=
  let f (m : Int) (v : Int) : Int := if iabs v > m then iabs v else m
  let m := (s.glyph ++ s.twi).foldl (fun m p => f (f m p.cur.x) p.cur.y) 0
  s.stack.foldl f m

def view (s : St) : List Int :=
  ((s.glyph ++ s.twi).flatMap fun p => [p.org.x, p.org.y, p.cur.x, p.cur.y, if p.on then 1 else 0,
      if p.tx then 1 else 0, if p.ty then 1 else 0]) ++ s.stack ++ s.cvt ++
    [s.pv.x, s.pv.y, s.dv.x, s.dv.y, s.fv.x, s.fv.y]

/-- `rng.run`: run both machines in lock step; `same`, or `<k> <opcode> <maxabs>`: index and opcode of
the first instruction after which the two model states differ (or one side stops), and the largest
coordinate / stack magnitude in FreeType's state before it.  Used by the harness only to label a real
difference between the two interpreters as "operands beyond the 32-bit range of skrifa". -/
def lockstep : Nat → List (Int × Int) → St → St → String
  | _, [], _, _ => "same"
  | k, (op, imm) :: rest, a, b =>
    match HintStep.step op imm a, FtStep.step op imm b with
    | .ok a', .ok b' =>
      if view a' = view b' then lockstep (k + 1) rest a' b' else s!"{k} {op} {maxAbs b}"
    | .error e1, .error e2 => if e1 = e2 then "same" else s!"{k} {op} {maxAbs b}"
    | _, _ => s!"{k} {op} {maxAbs b}"

def handle (cmd : String) (xs : List Int) : Option String :=
  match cmd with
  | "rng.run" => (parse xs).map fun (s, _, ops) => lockstep 0 ops s s
  | "sk.run" => (parse xs).map fun (s, n, ops) => render n (HintStep.run ops s)
  | "ft.run" => (parse xs).map fun (s, n, ops) => render n (FtStep.run ops s)
  | _ => none

end FontVerif.Drv.C03Prog
