/- line-protocol handlers `sk.run` / `ft.run`: a generated TrueType glyph program executed by the two
   interpreter models (Model/HintStep.lean, Model/FtStep.lean) on a given initial zone state.
   Request (all integers):
     <side>.run bc target ppem scale composite nOut
                nG (ox oy cx cy ux uy on)*nG   nT (ox oy cx cy)*nT   nE e*nE   nC c*nC   nOps (op imm)*nOps
                [nPrep (op imm)*nPrep]
   The cvt list holds FONT UNITS: each machine scales it the way its code base does at size setup
   (`HintStep.cvtSetup`, `FtStep.cvtSetup`).
   With a prep list the prep runs first (empty glyph zone, `bc` ignored) and the glyph program starts in
   the state `startGlyph` derives from the prep's final state and the target.
   `target`: 0 mono, 1 normal, 2 light, 3 lcd, 4 vertical lcd (read by GETINFO only).
   Response: `x y on` of the first nOut glyph-zone points, or an error word. -/
import FontVerif.Model.HintStep
import FontVerif.Model.FtStep
import FontVerif.Model.HintLoad
import FontVerif.Model.FtLoad
namespace FontVerif.Drv.C03Prog
open FontVerif FontVerif.Tt

def take (n : Nat) (xs : List Int) : Option (List Int × List Int) :=
  if xs.length < n then none else some (xs.take n, xs.drop n)

def counted (k : Nat) (xs : List Int) : Option (List (List Int) × List Int) :=
  match xs with
  | [] => none
  | n :: rest =>
    if n < 0 then none else
    let rec go : Nat → List Int → List (List Int) → Option (List (List Int) × List Int)
      | 0, xs, acc => some (acc.reverse, xs)
      | m + 1, xs, acc =>
        match take k xs with
        | none => none
        | some (a, r) => go m r (a :: acc)
    go n.toNat rest []

def mkG : List Int → Option ZPt
  | [ox, oy, cx, cy, ux, uy, on] => some ⟨⟨ox, oy⟩, ⟨cx, cy⟩, ⟨ux, uy⟩, false, false, on ≠ 0⟩
  | _ => none

def mkT : List Int → Option ZPt
  | [ox, oy, cx, cy] => some ⟨⟨ox, oy⟩, ⟨cx, cy⟩, ⟨0, 0⟩, false, false, false⟩
  | _ => none

def mkOp : List Int → Option (Int × Int)
  | [a, b] => some (a, b)
  | _ => none

def one : List Int → Option Int
  | [a] => some a
  | _ => none

/-- the state at the start of a glyph program (`GraphicsState::default()` / `tt_default_graphics_state`,
retained state as left by an empty prep). -/
def initial (bc target ppem scale composite : Int) (g t : List ZPt) (ends : List Nat) (cvt : List Int) : St :=
  { glyph := g, twi := t, ends := ends, stack := [],
    pv := ⟨16384, 0⟩, dv := ⟨16384, 0⟩, fv := ⟨16384, 0⟩,
    rp0 := 0, rp1 := 0, rp2 := 0, zp0 := 1, zp1 := 1, zp2 := 1, loop := 1,
    rmode := 0, rthr := 0, rph := 0, rper := 64,
    cutin := 68, sw := 0, swci := 0, md := 64, autoFlip := true,
    deltaBase := 9, deltaShift := 3, instructControl := 0, scanControl := false, scanType := target,
    bc := bc ≠ 0, iupx := false, iupy := false, composite := composite ≠ 0, inPrep := false,
    scale := scale, ppem := ppem, cvt := cvt, store := [] }

structure Job where
  st : St
  nOut : Nat
  ops : List (Int × Int)
  prep : Option (List (Int × Int))
  target : Int

def parse (xs : List Int) : Option Job :=
  match xs with
  | bc :: target :: ppem :: scale :: composite :: nOut :: rest =>
    (counted 7 rest).bind fun (gs, rest) =>
    (counted 4 rest).bind fun (ts, rest) =>
    (counted 1 rest).bind fun (es, rest) =>
    (counted 1 rest).bind fun (cs, rest) =>
    (counted 2 rest).bind fun (os, rest) =>
    (if rest = [] then some (none, []) else (counted 2 rest).map fun (ps, r) => (some ps, r)).bind fun (ps, rest) =>
    if rest ≠ [] ∨ nOut < 0 then none else
    (gs.mapM mkG).bind fun g =>
    (ts.mapM mkT).bind fun t =>
    (es.mapM one).bind fun e =>
    (cs.mapM one).bind fun c =>
    (os.mapM mkOp).bind fun o =>
    (match ps with | none => some none | some l => (l.mapM mkOp).map some).bind fun pr =>
    if e.any (· < 0) then none else
    some ⟨initial bc target ppem scale composite g t (e.map Int.toNat) c, nOut.toNat, o, pr, target⟩
  | _ => none

/-- the last four points of the glyph zone are the phantom points, given as scaled, unrounded values: each
side derives the (original, current) pair the interpreter starts with (`hintPhantom`). -/
def phInit (f : List Vec → List Vec × List Vec) (g : List ZPt) : List ZPt :=
  if g.length < 4 then g else
  let body := g.take (g.length - 4)
  let ph := g.drop (g.length - 4)
  let (o, c) := f (ph.map fun p => p.cur)
  body ++ (ph.zip (o.zip c)).map fun (p, oc) => { p with org := oc.1, cur := oc.2 }

def skCvt (s : St) : R St := do
  let c ← ofOpt (s.cvt.mapM fun u => HintStep.cvtSetup u s.scale)
  pure { s with cvt := c, glyph := phInit HintLoad.hintPhantom s.glyph }

def ftCvt (s : St) : St :=
  { s with cvt := s.cvt.map fun u => FtStep.cvtSetup u s.scale, glyph := phInit FtLoad.hintPhantom s.glyph }

/-- prep (if any) then the glyph program, skrifa. -/
def runSk (j0 : Job) : R St := do
  let st ← skCvt j0.st
  let j := { j0 with st := st }
  match j.prep with
  | none => HintStep.run j.ops j.st
  | some pr => do
    let p ← HintStep.run pr { j.st with glyph := [], ends := [], bc := false, inPrep := true }
    HintStep.run j.ops (HintStep.startGlyph p (j.target ≠ 0) j.st.glyph j.st.ends)

/-- prep (if any) then the glyph program, FreeType. -/
def runFt (j0 : Job) : R St :=
  let j := { j0 with st := ftCvt j0.st }
  match j.prep with
  | none => FtStep.run j.ops j.st
  | some pr => do
    let p ← FtStep.run pr { j.st with glyph := [], ends := [], bc := false, inPrep := true }
    FtStep.run j.ops (FtStep.startGlyph p (j.target ≠ 0) j.st.glyph j.st.ends)

def render (n : Nat) (r : R St) : String :=
  match r with
  | .error e => e
  | .ok s => joinInts ((s.glyph.take n).flatMap fun p => [p.cur.x, p.cur.y, if p.on then 1 else 0])

/-- largest magnitude among the current coordinates of both zones and the stack cells. -/
def maxAbs (s : St) : Int :=
  let f (m : Int) (v : Int) : Int := if iabs v > m then iabs v else m
  let m := (s.glyph ++ s.twi).foldl (fun m p => f (f m p.cur.x) p.cur.y) 0
  s.stack.foldl f m

def view (s : St) : List Int :=
  ((s.glyph ++ s.twi).flatMap fun p => [p.org.x, p.org.y, p.cur.x, p.cur.y, if p.on then 1 else 0,
      if p.tx then 1 else 0, if p.ty then 1 else 0]) ++ s.stack ++ s.cvt ++
    [s.pv.x, s.pv.y, s.dv.x, s.dv.y, s.fv.x, s.fv.y]

/-- `rng.run`: run both machines in lock step; `same`, or `<k> <opcode> <maxabs>`: index and opcode of
the first instruction after which the two model states differ (or one side stops), and the largest
coordinate / stack magnitude in FreeType's state before it.  Used by the harness only to label a real
difference between the two interpreters as "operands beyond the 32-bit range of skrifa". -/
def lockstep : Nat → List (Int × Int) → St → St → String
  | _, [], _, _ => "same"
  | k, (op, imm) :: rest, a, b =>
    match HintStep.step op imm a, FtStep.step op imm b with
    | .ok a', .ok b' =>
      if view a' = view b' then lockstep (k + 1) rest a' b' else s!"{k} {op} {maxAbs b}"
    | .error e1, .error e2 => if e1 = e2 then "same" else s!"{k} {op} {maxAbs b}"
    | _, _ => s!"{k} {op} {maxAbs b}"

/-- `sk.norm x y`: math.rs `normalize14`; `ft.normlen x y`: ftcalc.c `FT_Vector_NormLen` (the vector it
leaves; operands may exceed 32 bits). -/
def handleNorm (cmd : String) (xs : List Int) : Option String :=
  match cmd, xs with
  | "sk.norm", [x, y] => some (match HintVec.normalize14 x y with
      | some v => s!"{v.x} {v.y}"
      | none => "trap")
  | "ft.normlen", [x, y] => some (match FtVec.normLen x y with
      | some (a, b) => s!"{a} {b}"
      | none => "fuel")
  | _, _ => none

def handle (cmd : String) (xs : List Int) : Option String :=
  match handleNorm cmd xs with
  | some r => some r
  | none =>
  match cmd with
  | "rng.run" => (parse xs).map fun j0 =>
      let j := { j0 with st := ftCvt j0.st }
      match j.prep with
      | none => lockstep 0 j.ops j.st j.st
      | some pr =>
        let p0 := { j.st with glyph := [], ends := [], bc := false, inPrep := true }
        match HintStep.run pr p0, FtStep.run pr p0 with
        | .ok a, .ok b =>
          if view a = view b then
            lockstep 0 j.ops (HintStep.startGlyph a (j.target ≠ 0) j.st.glyph j.st.ends)
              (FtStep.startGlyph b (j.target ≠ 0) j.st.glyph j.st.ends)
          else "prep 0 0"
        | _, _ => "prep 0 0"
  -- the scan-control flag after the run (`1` / `0`): observable as `FT_OUTLINE_IGNORE_DROPOUTS` on the
  -- FreeType side, in the retained graphics state of the hinting instance on the skrifa side
  | "sk.scan" => (parse xs).map fun j => match runSk j with
      | .ok s => if s.scanControl then "1" else "0"
      | .error e => e
  | "ft.scan" => (parse xs).map fun j => match runFt j with
      | .ok s => if s.scanControl then "1" else "0"
      | .error e => e
  | "sk.run" => (parse xs).map fun j => render j.nOut (runSk j)
  | "ft.run" => (parse xs).map fun j => render j.nOut (runFt j)
  | _ => none

end FontVerif.Drv.C03Prog
