/- line-protocol handlers for the C03 models:
   `ft.*`  FreeType side  (Model/FtCalc.lean, Model/FtRound.lean)
   `sk.*`  skrifa side    (Model/Fixed.lean, Model/HintMath.lean, Model/HintRound.lean) -/
import FontVerif.Model.Fixed
import FontVerif.Model.FtCalc
import FontVerif.Model.FtRound
import FontVerif.Model.HintMath
import FontVerif.Model.HintRound
import FontVerif.Model.Scale
import FontVerif.Model.HintMove
import FontVerif.Model.FtMove
import FontVerif.Drv.C03Prog
import FontVerif.Drv.C03Load
import FontVerif.Drv.C03Control
namespace FontVerif.Drv.C03
open FontVerif

def optInt : Option Int → String
  | none => "trap"
  | some v => toString v

def triple (p : Int × Int × Int) : String := s!"{p.1} {p.2.1} {p.2.2}"

/-- the round state an opcode handler leaves behind, starting from the default state
(`RoundState::default()`: Grid, threshold 0, phase 0, period 64): `(mode, period, phase, threshold)`.
Opcodes: 0x18 RTG, 0x19 RTHG, 0x3D RTDG, 0x7D RDTG, 0x7C RUTG, 0x7A ROFF, 0x76 SROUND, 0x77 S45ROUND. -/
def skStateAfter (opcode sel : Int) : Option (Option (Int × Int × Int × Int)) :=
  if opcode = 0x18 then some (some (0, 64, 0, 0))
  else if opcode = 0x19 then some (some (1, 64, 0, 0))
  else if opcode = 0x3D then some (some (2, 64, 0, 0))
  else if opcode = 0x7D then some (some (3, 64, 0, 0))
  else if opcode = 0x7C then some (some (4, 64, 0, 0))
  else if opcode = 0x7A then some (some (5, 64, 0, 0))
  else if opcode = 0x76 then some ((HintRound.superRound 0x4000 sel).map fun (p, ph, t) => (6, p, ph, t))
  else if opcode = 0x77 then some ((HintRound.superRound 0x2D41 sel).map fun (p, ph, t) => (7, p, ph, t))
  else none

/-- same for FreeType (`Ins_RTG` …, `Ins_SROUND`, `Ins_S45ROUND`; default GS: period 64, phase 0,
threshold 0 set by `TT_Run_Context`… the harness program always runs the state opcode first). -/
def ftStateAfter (opcode sel : Int) : Option (Int × Int × Int × Int) :=
  if opcode = 0x18 then some (0, 64, 0, 0)
  else if opcode = 0x19 then some (1, 64, 0, 0)
  else if opcode = 0x3D then some (2, 64, 0, 0)
  else if opcode = 0x7D then some (3, 64, 0, 0)
  else if opcode = 0x7C then some (4, 64, 0, 0)
  else if opcode = 0x7A then some (5, 64, 0, 0)
  else if opcode = 0x76 then let (p, ph, t) := FtRound.setSuperRound 0x4000 sel; some (6, p, ph, t)
  else if opcode = 0x77 then let (p, ph, t) := FtRound.setSuperRound 0x2D41 sel; some (7, p, ph, t)
  else none

/-- graphics state for the MIRP/MIAP/MDRP commands: round state left by `opcode sel` (as above), then
`cutin sw swci md flip`. -/
def mkGs (st : Int × Int × Int × Int) (cutin sw swci md flip : Int) : HintMove.Gs :=
  let (m, p, ph, t) := st
  { mode := m, thr := t, ph := ph, per := p, cutin := cutin, sw := sw, swci := swci, md := md, autoFlip := flip ≠ 0 }

def bit (flags k : Int) : Bool := flags / k % 2 = 1

def pairs : List Int → Option (List (Int × Int))
  | [] => some []
  | [_] => none
  | x :: y :: rest => (pairs rest).map ((x, y) :: ·)

def renderSimple (r : List (Int × Int) × Int) : String :=
  joinInts (r.2 :: r.1.flatMap fun q => [q.1, q.2])

def handle (cmd : String) (args : List String) : Option String :=
  match parseInts? args with
  | none => none
  | some xs =>
    match C03Prog.handle cmd xs with
    | some r => some r
    | none =>
    match C03Control.handle cmd xs with
    | some r => some r
    | none =>
    match (if cmd = "sk.load" ∨ cmd = "ft.load" then C03Load.handle cmd xs else C03Load.handleCff cmd xs) with
    | some r => some r
    | none =>
    match cmd, xs with
    -- FreeType side
    | "ft.mulfix", [a, b] => some (toString (FtCalc.mulFix a b))
    | "ft.divfix", [a, b] => some (toString (FtCalc.divFix a b))
    | "ft.muldiv", [a, b, c] => some (toString (FtCalc.mulDiv a b c))
    | "ft.muldivnr", [a, b, c] => some (toString (FtCalc.mulDivNoRound a b c))
    | "ft.roundfix", [a] => some (toString (FtCalc.roundFix a))
    | "ft.ceilfix", [a] => some (toString (FtCalc.ceilFix a))
    | "ft.floorfix", [a] => some (toString (FtCalc.floorFix a))
    | "ft.mul14", [a, b] => some (toString (FtCalc.mulFix14 a b))
    | "ft.dot14", [a, b, c, d] => some (toString (FtCalc.dotFix14 a b c d))
    | "ft.round", [m, t, ph, p, d] =>
      if 0 ≤ m ∧ m ≤ 7 ∧ ¬ (m = 7 ∧ p = 0) then some (toString (FtRound.round m t ph p 0 d)) else none
    | "ft.ssr", [g, sel] => some (triple (FtRound.setSuperRound g sel))
    | "ft.rops", [op, sel, d] =>
      (ftStateAfter op sel).map fun (m, p, ph, t) => s!"{p} {ph} {t} {FtRound.round m t ph p 0 d}"
    | "ft.ropsr", [op, sel, d] =>
      (ftStateAfter op sel).map fun (m, p, ph, t) => toString (FtRound.round m t ph p 0 d)
    -- skrifa side
    | "sk.mul", [a, b] => some (toString (HintMath.mul a b))
    | "sk.div", [a, b] => some (toString (HintMath.div a b))
    | "sk.muldiv", [a, b, c] => some (toString (HintMath.mulDiv a b c))
    | "sk.muldivnr", [a, b, c] => some (toString (HintMath.mulDivNoRound a b c))
    | "sk.mul14", [a, b] => some (toString (HintMath.mul14 a b))
    | "sk.dot14", [a, b, c, d] => some (optInt (HintMath.dot14 a b c d))
    | "sk.floor", [a] => some (toString (HintMath.floor a))
    | "sk.round", [a] => some (toString (HintMath.round a))
    | "sk.ceil", [a] => some (toString (HintMath.ceil a))
    | "sk.roundpad", [a, n] => some (optInt (HintMath.roundPad a n))
    | "sk.rs", [m, t, ph, p, d] =>
      if 0 ≤ m ∧ m ≤ 7 then some (optInt (HintRound.round m t ph p d)) else none
    | "sk.ssr", [g, sel] => some (match HintRound.superRound g sel with
        | none => "trap" | some p => triple p)
    | "sk.rops", [op, sel, d] =>
      (skStateAfter op sel).map fun st => match st with
        | none => "trap"
        | some (m, p, ph, t) => match HintRound.round m t ph p d with
          | none => "trap"
          | some r => s!"{p} {ph} {t} {r}"
    -- MIRP / MIAP / MDRP value computation; the response is the point's final coordinate `cur + move`
    -- (for MIAP the reference is the origin)
    | "sk.mirp", [op, sel, cutin, sw, swci, md, flip, flags, same, c, org, cur] =>
      (skStateAfter op sel).map fun st => match st with
        | none => "trap"
        | some st => optInt ((HintMove.mirp (mkGs st cutin sw swci md flip) (bit flags 4) (bit flags 8) (same ≠ 0) c org cur).map
            fun mv => wrapI32 (cur + mv))
    | "ft.mirp", [op, sel, cutin, sw, swci, md, flip, flags, same, c, org, cur] =>
      (ftStateAfter op sel).map fun st =>
        toString (cur + FtMove.mirp (mkGs st cutin sw swci md flip) (bit flags 4) (bit flags 8) (same ≠ 0) c org cur)
    | "sk.miap", [op, sel, cutin, flags, c, cur] =>
      (skStateAfter op sel).map fun st => match st with
        | none => "trap"
        | some st => optInt ((HintMove.miap (mkGs st cutin 0 0 0 0) (bit flags 1) c cur).map fun mv => wrapI32 (cur + mv))
    | "ft.miap", [op, sel, cutin, flags, c, cur] =>
      (ftStateAfter op sel).map fun st => toString (cur + FtMove.miap (mkGs st cutin 0 0 0 0) (bit flags 1) c cur)
    | "sk.mdrp", [op, sel, sw, swci, md, flags, org, cur] =>
      (skStateAfter op sel).map fun st => match st with
        | none => "trap"
        | some st => optInt ((HintMove.mdrp (mkGs st 0 sw swci md 0) (bit flags 4) (bit flags 8) org cur).map
            fun mv => wrapI32 (cur + mv))
    | "ft.mdrp", [op, sel, sw, swci, md, flags, org, cur] =>
      (ftStateAfter op sel).map fun st =>
        toString (cur + FtMove.mdrp (mkGs st 0 sw swci md 0) (bit flags 4) (bit flags 8) org cur)
    -- unhinted simple-glyph scaling: p u xMin lsb adv x0 y0 x1 y1 …  →  advance x0 y0 …
    | "sk.simple", p :: u :: xMin :: lsb :: adv :: rest =>
      (pairs rest).map fun pts => renderSimple (Scale.skSimple (Scale.skScale p u) ⟨pts, xMin, lsb, adv⟩)
    | "ft.simple", p :: u :: xMin :: lsb :: adv :: rest =>
      (pairs rest).map fun pts => renderSimple (Scale.ftSimple (Scale.ftScale p u) ⟨pts, xMin, lsb, adv⟩)
    | _, _ => none

end FontVerif.Drv.C03
