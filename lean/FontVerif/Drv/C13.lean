/- line-protocol handlers for the C13 model (Model/Paint.lean)

`paint  fg cm gid  nN (id kind a b c)*  nL (idx pid|-1)*  nB (gid pid|-1)*  nC gid*`
   → `<result> <events…>`   (clip boxes / brushes without payload)   result ∈ ok | err:Parse | err:GlyphNotFound | err:Cycle | err:Depth | err:Client | noglyph
`visits …same…` → number of paint nodes visited by the model
`v0 fg first num nL (idx gid|-1)*` → `<result> <events…>`
`enter id n p0 … p(n-1)` → `ok` | `err:Cycle` | `err:Depth`
`paint.bytes <colr hex> fg cm gid`  → as `paint`, the whole model evaluated from the COLR table BYTES, with
   payloads: `B:xmin:ymin:xmax:ymax` (clip box, font units), `F:<brush>` / `g<gid>:<0|1>:<brush>` with
   `<brush>` = `0:palette:alpha·2^14` (solid) | `kind:extend:#stops` (kind 1 linear, 2 radial, 3 sweep)
`visits.bytes <colr hex> fg cm gid` → as `visits`
`v0.bytes <colr hex> fg gid`        → as `v0` (`noglyph` when there is no v0 base glyph)
`node.bytes <colr hex> pos`         → `none` | node kind and fields as in `paint` (`resolve_paint` from bytes)
`bbox.bytes <colr hex> gid v0`      → `noglyph` | `none` | `B:xmin:ymin:xmax:ymax` (`ColorGlyph::bounding_box`, unscaled)
`grad.bytes <colr hex> pos`         → `none` | the case the gradient arm at `pos` takes (GCase)
node kinds: 0 colrLayers(first,num) 1 leaf(fills) 2 glyph(gid,child) 3 colrGlyph(gid) 4 transform(child)
            5 composite(src,mode,backdrop)
-/
import FontVerif.Model.Paint
import FontVerif.Model.PaintBytes
namespace FontVerif.Drv.C13
open FontVerif FontVerif.Paint

/-- `:a:b:c` -/
def payload (xs : List Int) : String := String.join (xs.map (fun x => ":" ++ toString x))

/-- transform words are not printed (the real matrices are floats computed with `sin`/`cos`): only
whether a brush transform is present -/
def evTok : Event → String
  | .pushT _ => "T"
  | .popT => "t"
  | .pushClipGlyph g => s!"G{g}"
  | .pushClipBox b => "B" ++ payload b
  | .popClip => "c"
  | .pushLayer m => s!"L{m}"
  | .popLayer m => s!"l{m}"
  | .fill b => "F" ++ payload b
  | .fillGlyph g bt b => s!"g{g}:{if bt.isSome then 1 else 0}" ++ payload b
  | .cached g => s!"C{g}"

/-- the stream without clip-box / brush payloads (the `paint` / `v0` commands, whose instance is
decompiled by the harness without them) -/
def evTokBare : Event → String
  | .pushClipBox _ => "B"
  | .fill _ => "F"
  | .fillGlyph g bt _ => s!"g{g}:{if bt.isSome then 1 else 0}"
  | e => evTok e

def errTok : Option PErr → String
  | none => "ok"
  | some .parse => "err:Parse"
  | some .glyphNotFound => "err:GlyphNotFound"
  | some .cycle => "err:Cycle"
  | some .depth => "err:Depth"
  | some .client => "err:Client"

def showRes (r : Res) : String :=
  let evs := r.2.evs
  errTok r.1 ++ " " ++ (if evs.isEmpty then "-" else " ".intercalate (evs.map evTok))

def showResBare (r : Res) : String :=
  let evs := r.2.evs
  errTok r.1 ++ " " ++ (if evs.isEmpty then "-" else " ".intercalate (evs.map evTokBare))

/-- split off `n` groups of `k` ints -/
def takeGroups (k : Nat) : Nat → List Int → Option (List (List Int) × List Int)
  | 0, xs => some ([], xs)
  | n + 1, xs =>
    if xs.length < k then none else
    match takeGroups k n (xs.drop k) with
    | none => none
    | some (gs, rest) => some (xs.take k :: gs, rest)

def section? (k : Nat) (xs : List Int) : Option (List (List Int) × List Int) :=
  match xs with
  | [] => none
  | n :: rest => if n < 0 then none else takeGroups k n.toNat rest

def nodeOf : List Int → Option (Nat × Node)
  | [id, kind, a, b, c] =>
    if id < 0 ∨ a < 0 ∨ b < 0 ∨ c < 0 then none else
    match kind with
    | 0 => some (id.toNat, .colrLayers a.toNat b.toNat)
    | 1 => some (id.toNat, .leaf (if a ≠ 0 then some [] else none))
    | 2 => some (id.toNat, .glyph a.toNat b.toNat)
    | 3 => some (id.toNat, .colrGlyph a.toNat)
    | 4 => some (id.toNat, .transform id.toNat a.toNat)
    | 5 => some (id.toNat, .composite a.toNat b.toNat c.toNat)
    | _ => none
  | _ => none

def pairOf : List Int → Option (Nat × Option Nat)
  | [k, v] => if k < 0 then none else some (k.toNat, if v < 0 then none else some v.toNat)
  | _ => none

structure Req where
  client : Client
  gid : Nat
  inst : Instance

def parseReq (xs : List Int) : Option Req :=
  match xs with
  | fg :: cm :: gid :: rest =>
    if fg < 0 ∨ cm < 0 ∨ gid < 0 then none else
    match section? 5 rest with
    | none => none
    | some (ns, rest) =>
      match ns.mapM nodeOf, section? 2 rest with
      | some nodes, some (ls, rest) =>
        match ls.mapM pairOf, section? 2 rest with
        | some layers, some (bs, rest) =>
          match bs.mapM pairOf, section? 1 rest with
          | some bases, some (cs, []) =>
            if cs.any (fun g => g.any (· < 0)) then none else
            some { client := Client.ofModes fg.toNat cm.toNat, gid := gid.toNat,
                   inst := Instance.ofTables nodes layers bases (cs.map (fun g => ((g.headD 0).toNat, []))) }
          | _, _ => none
        | _, _ => none
      | _, _ => none
  | _ => none

def nodeTok : Node → String
  | .colrLayers a b => s!"0 {a} {b} 0"
  | .leaf f => s!"1 {if f.isSome then 1 else 0} 0 0"
  | .glyph g ch => s!"2 {g} {ch} 0"
  | .colrGlyph g => s!"3 {g} 0 0"
  | .transform _ ch => s!"4 {ch} 0 0"
  | .composite s m b => s!"5 {s} {m} {b}"

def gcaseTok : PaintBytes.GCase → String
  | .degenerateSolid => "degenerateSolid"
  | .degenerateEmpty => "degenerateEmpty"
  | .noStops => "noStops"
  | .zeroRangeNotPad => "zeroRangeNotPad"
  | .zeroRangePad => "zeroRangePad"
  | .sweepEmptySector => "sweepEmptySector"
  | .gradient => "gradient"

/-- the `*.bytes` commands: first argument is the COLR table as hex, the rest are naturals -/
def handleBytes (cmd : String) (args : List String) : Option String :=
  match args with
  | [] => none
  | hx :: rest =>
    match parseHex? hx, parseNats? rest with
    | some d, some xs =>
      match cmd, xs with
      | "paint.bytes", [fg, cm, gid] =>
        match PaintBytes.paintBytes d (Client.ofModes fg cm) gid with
        | none => some "noglyph"
        | some res => some (showRes res)
      | "visits.bytes", [fg, cm, gid] =>
        match PaintBytes.paintBytes d (Client.ofModes fg cm) gid with
        | none => some "noglyph"
        | some res => some (toString res.2.visits)
      | "v0.bytes", [fg, gid] =>
        match PaintBytes.paintV0Bytes d (Client.ofModes fg 0) gid with
        | none => some "noglyph"
        | some res => some (showRes res)
      | "node.bytes", [pos] =>
        match PaintBytes.nodeOfBytes d pos with
        | none => some "none"
        | some n => some (nodeTok n)
      | "bbox.bytes", [gid, v0] =>
        match PaintBytes.boundingBoxBytes d gid (v0 ≠ 0) with
        | none => some "noglyph"
        | some none => some "none"
        | some (some b) => some ("B" ++ payload b)
      | "grad.bytes", [pos] =>
        match HandColr.paintRead d pos with
        | .ok fmt =>
          if 4 ≤ fmt ∧ fmt ≤ 9 then
            match PaintBytes.gradientCase d pos fmt with
            | none => some "none"
            | some g => some (gcaseTok g)
          else some "none"
        | .error _ => some "none"
      | _, _ => none
    | _, _ => none

def handle (cmd : String) (args : List String) : Option String :=
  if cmd.endsWith ".bytes" then handleBytes cmd args else
  match parseInts? args with
  | none => none
  | some xs =>
    match cmd with
    | "paint" =>
      match parseReq xs with
      | none => none
      | some r => match paintV1 r.inst r.client r.gid with
        | none => some "noglyph"
        | some res => some (showResBare res)
    | "visits" =>
      match parseReq xs with
      | none => none
      | some r => match paintV1 r.inst r.client r.gid with
        | none => some "noglyph"
        | some res => some (toString res.2.visits)
    | "v0" =>
      match xs with
      | fg :: first :: num :: rest =>
        if fg < 0 ∨ first < 0 ∨ num < 0 then none else
        match section? 2 rest with
        | some (ls, []) =>
          match ls.mapM pairOf with
          | none => none
          | some layers =>
            some (showResBare (paintV0 (Client.ofModes fg.toNat 0)
              (fun i => ((lookup layers i).bind id).map (fun g => (g, 0))) first.toNat num.toNat))
        | _ => none
      | _ => none
    | "enter" =>
      match xs with
      | id :: n :: path =>
        if id < 0 ∨ n < 0 ∨ path.length ≠ n.toNat ∨ path.any (· < 0) then none else
        match enter (path.map Int.toNat) id.toNat with
        | .ok _ => some "ok"
        | .error e => some (errTok (some e))
      | _ => none
    | _ => none

end FontVerif.Drv.C13
