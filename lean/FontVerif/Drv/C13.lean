/- line-protocol handlers for the C13 model (Model/Paint.lean)

`paint  fg cm gid  nN (id kind a b c)*  nL (idx pid|-1)*  nB (gid pid|-1)*  nC gid*`
   → `<result> <events…>`   result ∈ ok | err:Parse | err:GlyphNotFound | err:Cycle | err:Depth | err:Client | noglyph
`visits …same…` → number of paint nodes visited by the model
`v0 fg first num nL (idx gid|-1)*` → `<result> <events…>`
`enter id n p0 … p(n-1)` → `ok` | `err:Cycle` | `err:Depth`
node kinds: 0 colrLayers(first,num) 1 leaf(fills) 2 glyph(gid,child) 3 colrGlyph(gid) 4 transform(child)
            5 composite(src,mode,backdrop)
-/
import FontVerif.Model.Paint
namespace FontVerif.Drv.C13
open FontVerif FontVerif.Paint

def evTok : Event → String
  | .pushT => "T"
  | .popT => "t"
  | .pushClipGlyph g => s!"G{g}"
  | .pushClipBox => "B"
  | .popClip => "c"
  | .pushLayer m => s!"L{m}"
  | .popLayer m => s!"l{m}"
  | .fill => "F"
  | .fillGlyph g ht => s!"g{g}:{if ht then 1 else 0}"
  | .cached g => s!"C{g}"

def errTok : Option PErr → String
  | none => "ok"
  | some .parse => "err:Parse"
  | some .glyphNotFound => "err:GlyphNotFound"
  | some .cycle => "err:Cycle"
  | some .depth => "err:Depth"
  | some .client => "err:Client"

def showRes (r : Res) : String :=
  let evs := r.2.evs
  errTok r.1 ++ " " ++ (if evs.isEmpty then "-" else " ".intercalate (evs.map evTok))

/-- split off `n` groups of `k` ints -/
def takeGroups (k : Nat) : Nat → List Int → Option (List (List Int) × List Int)
  | 0, xs => some ([], xs)
  | n + 1, xs =>
    if xs.length < k then none else
    match takeGroups k n (xs.drop k) with
    | none => none
    | some (gs, rest) => some (xs.take k :: gs, rest)

def section? (k : Nat) (xs : List Int) : Option (List (List Int) × List Int) :=
  match xs with
  | [] => none
  | n :: rest => if n < 0 then none else takeGroups k n.toNat rest

def nodeOf : List Int → Option (Nat × Node)
  | [id, kind, a, b, c] =>
    if id < 0 ∨ a < 0 ∨ b < 0 ∨ c < 0 then none else
    match kind with
    | 0 => some (id.toNat, .colrLayers a.toNat b.toNat)
    | 1 => some (id.toNat, .leaf (a ≠ 0))
    | 2 => some (id.toNat, .glyph a.toNat b.toNat)
    | 3 => some (id.toNat, .colrGlyph a.toNat)
    | 4 => some (id.toNat, .transform a.toNat)
    | 5 => some (id.toNat, .composite a.toNat b.toNat c.toNat)
    | _ => none
  | _ => none

def pairOf : List Int → Option (Nat × Option Nat)
  | [k, v] => if k < 0 then none else some (k.toNat, if v < 0 then none else some v.toNat)
  | _ => none

structure Req where
  client : Client
  gid : Nat
  inst : Instance

def parseReq (xs : List Int) : Option Req :=
  match xs with
  | fg :: cm :: gid :: rest =>
    if fg < 0 ∨ cm < 0 ∨ gid < 0 then none else
    match section? 5 rest with
    | none => none
    | some (ns, rest) =>
      match ns.mapM nodeOf, section? 2 rest with
      | some nodes, some (ls, rest) =>
        match ls.mapM pairOf, section? 2 rest with
        | some layers, some (bs, rest) =>
          match bs.mapM pairOf, section? 1 rest with
          | some bases, some (cs, []) =>
            if cs.any (fun g => g.any (· < 0)) then none else
            some { client := Client.ofModes fg.toNat cm.toNat, gid := gid.toNat,
                   inst := Instance.ofTables nodes layers bases (cs.map (fun g => (g.headD 0).toNat)) }
          | _, _ => none
        | _, _ => none
      | _, _ => none
  | _ => none

def handle (cmd : String) (args : List String) : Option String :=
  match parseInts? args with
  | none => none
  | some xs =>
    match cmd with
    | "paint" =>
      match parseReq xs with
      | none => none
      | some r => match paintV1 r.inst r.client r.gid with
        | none => some "noglyph"
        | some res => some (showRes res)
    | "visits" =>
      match parseReq xs with
      | none => none
      | some r => match paintV1 r.inst r.client r.gid with
        | none => some "noglyph"
        | some res => some (toString res.2.visits)
    | "v0" =>
      match xs with
      | fg :: first :: num :: rest =>
        if fg < 0 ∨ first < 0 ∨ num < 0 then none else
        match section? 2 rest with
        | some (ls, []) =>
          match ls.mapM pairOf with
          | none => none
          | some layers =>
            some (showRes (paintV0 (Client.ofModes fg.toNat 0) (fun i => (lookup layers i).bind id)
              first.toNat num.toNat))
        | _ => none
      | _ => none
    | "enter" =>
      match xs with
      | id :: n :: path =>
        if id < 0 ∨ n < 0 ∨ path.length ≠ n.toNat ∨ path.any (· < 0) then none else
        match enter (path.map Int.toNat) id.toNat with
        | .ok _ => some "ok"
        | .error e => some (errTok (some e))
      | _ => none
    | _ => none

end FontVerif.Drv.C13
