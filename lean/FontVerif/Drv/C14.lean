/- line-protocol handlers for the C14 models (RangeSet, SparseBitSet, IntSet) -/
import FontVerif.Model.Base
import FontVerif.Model.RangeSet
import FontVerif.Model.SparseBitSet
import FontVerif.Model.IntSet
import FontVerif.Model.BitSetConc
import FontVerif.Model.IntSetIterConc
namespace FontVerif.Drv.C14
open FontVerif

/-! ### small parsers / printers -/

def splitNats? (sep : String) (s : String) : Option (List Nat) :=
  if s = "-" then some [] else (s.splitOn sep).mapM (fun t => t.toNat?)

def parsePairInt? (s : String) : Option (Int × Int) :=
  match s.splitOn ":" with
  | [a, b] => do let x ← a.toInt?; let y ← b.toInt?; pure (x, y)
  | _ => none

def parsePairNat? (s : String) : Option (Nat × Nat) :=
  match s.splitOn ":" with
  | [a, b] => do let x ← a.toNat?; let y ← b.toNat?; pure (x, y)
  | _ => none

def showPairsInt (rs : List (Int × Int)) : String :=
  if rs.isEmpty then "-" else ",".intercalate (rs.map (fun p => s!"{p.1}:{p.2}"))

def showPairs (rs : List (Nat × Nat)) : String :=
  if rs.isEmpty then "-" else ",".intercalate (rs.map (fun p => s!"{p.1}:{p.2}"))

def showNats (xs : List Nat) : String :=
  if xs.isEmpty then "-" else ",".intercalate (xs.map toString)

def showOptNat : Option Nat → String
  | some v => toString v
  | none => "n"

def bit (b : Bool) : String := if b then "1" else "0"

/-! ### RangeSet -/

/-- `rs.run s:e s:e …` → the entry list after every insert -/
def rsRun (args : List String) : Option String := do
  let ops ← args.mapM parsePairInt?
  let (_, outs) := ops.foldl (fun (st : RangeSet.Ranges × List String) op =>
    let rs := RangeSet.insert st.1 op.1 op.2
    (rs, showPairsInt rs :: st.2)) ([], [])
  pure (if outs.isEmpty then "-" else "|".intercalate outs.reverse)

/-- `rs.int opsA / opsB` → intersection of the two built sets -/
def rsInt (args : List String) : Option String := do
  let (a, b) := args.span (· ≠ "/")
  let opsA ← a.mapM parsePairInt?
  let opsB ← (b.drop 1).mapM parsePairInt?
  let ra := RangeSet.insertAll [] opsA
  let rb := RangeSet.insertAll [] opsB
  pure (showPairsInt (RangeSet.intersection ra rb))

/-! ### sparse bit set -/

def showDecode (r : SparseBitSet.DecodeResult) : String :=
  match r with
  | .error => "err"
  | .outOfFuel => "fuel"
  | .ok ins rest => s!"ok {showPairsInt (SparseBitSet.normalize ins)} {toHex rest}"

def sbsDec (args : List String) : Option String :=
  match args with
  | [bias, maxv, hex] => do
    let b ← bias.toNat?; let m ← maxv.toNat?; let data ← parseHex? hex
    pure (showDecode (SparseBitSet.decode data b m))
  | _ => none

/-- the specification decoder (no height limit, bias/max applied to the denoted set) -/
def sbsSpec (args : List String) : Option String :=
  match args with
  | [bias, maxv, hex] => do
    let b ← bias.toNat?; let m ← maxv.toNat?; let data ← parseHex? hex
    match SparseBitSet.specDecode data with
    | none => pure "err"
    | some (ivs, rest) =>
      pure s!"ok {showPairsInt (SparseBitSet.normalize (SparseBitSet.specClip ivs b m))} {toHex rest}"
  | _ => none

def sbsEnc (args : List String) : Option String :=
  match args with
  | bf :: ranges => do
    let bf ← bf.toNat?
    let rs ← ranges.mapM parsePairNat?
    let members := IntSet.expand rs
    if bf = 0 then pure (toHex (SparseBitSet.encode members))
    else if bf = 2 ∨ bf = 4 ∨ bf = 8 ∨ bf = 32 then
      match SparseBitSet.encodeBf bf members with
      | some bytes => pure (toHex bytes)
      | none => pure "panic"
    else none
  | _ => none

/-! ### IntSet op-sequence interpreter -/

open IntSet in
def discDomain : IntSet.Domain :=
  ⟨[(2, 5), (8, 16), (510, 513), (1022, 1030), (65530, 65536), (4294967294, 4294967295)], false, 35⟩

def parseDomain? (s : String) : Option IntSet.Domain :=
  match s with
  | "u32" => some IntSet.Domain.u32
  | "u16" => some IntSet.Domain.u16
  | "gid16" => some IntSet.Domain.u16
  | "u8" => some IntSet.Domain.u8
  | "disc" => some discDomain
  | _ => none

structure Regs where
  r0 : IntSet.IntSet
  r1 : IntSet.IntSet
  r2 : IntSet.IntSet

def Regs.get (r : Regs) (i : Nat) : IntSet.IntSet :=
  if i = 0 then r.r0 else if i = 1 then r.r1 else r.r2

def Regs.set (r : Regs) (i : Nat) (s : IntSet.IntSet) : Regs :=
  if i = 0 then { r with r0 := s } else if i = 1 then { r with r1 := s } else { r with r2 := s }

def showOrd : Ordering → String
  | .lt => "l"
  | .eq => "e"
  | .gt => "g"

def ITER_CAP : Nat := 6

/-- the observation vector of register `i` -/
def observe (d : IntSet.Domain) (probes : List Nat) (regs : Regs) (i : Nat) (ret : String) : String :=
  let s := regs.get i
  let len := match s.len d with
    | some n => toString n
    | none => "trap"
  let fwd := s.iterTake d ITER_CAP
  let back := s.iterBackTake d ITER_CAP
  let ranges := s.ranges d
  let ex := s.excludedRanges d
  let contains := String.join (probes.map (fun p => bit (s.contains p)))
  let afters := "/".intercalate ((probes.take 4).map (fun p => showNats (s.iterAfterTake d p 3)))
  let pairs := (probes.zip (probes.drop 1)).take 6
  let ir := String.join (pairs.map (fun (a, b) =>
    bit (s.intersectsRange d a b) ++ bit (s.intersectsRange d b a)))
  let others := ([0, 1, 2].filter (· ≠ i)).map (fun q =>
    let t := regs.get q
    s!"e{bit (s.beq d t)}c{showOrd (s.cmp d t)}h{bit (s.hashKey d == t.hashKey d)}x{bit (s.intersectsSet d t)}")
  ";".intercalate [ret, bit s.inverted, len, showOptNat (fwd.head?), showOptNat (back.head?),
    showNats fwd, showNats back, showPairs (ranges.take ITER_CAP), showPairs (ex.take ITER_CAP),
    contains, afters, ir, String.join others]

def boolStr (b : Bool) : String := if b then "t" else "f"

/-- apply one op token; returns the new registers, the target register and the op's return value -/
def applyOp (d : IntSet.Domain) (regs : Regs) (tok : String) : Option (Regs × Nat × String) :=
  match tok.splitOn ":" with
  | [] => none
  | head :: params =>
    match head.toList with
    | [c, rc] => do
      let r ← (String.singleton rc).toNat?
      if r > 2 then none else
      let s := regs.get r
      match c, params with
      | 'i', [v] => do let v ← v.toNat?; let x := s.insert v; pure (regs.set r x.1, r, boolStr x.2)
      | 'd', [v] => do let v ← v.toNat?; let x := s.remove v; pure (regs.set r x.1, r, boolStr x.2)
      | 'I', [a, b] => do
        let a ← a.toNat?; let b ← b.toNat?
        pure (regs.set r (s.insertRange d a b), r, "-")
      | 'D', [a, b] => do
        let a ← a.toNat?; let b ← b.toNat?
        pure (regs.set r (s.removeRange d a b), r, "-")
      | 'x', [vs] => do let vs ← splitNats? "," vs; pure (regs.set r (s.extend vs), r, "-")
      | 'X', [vs] => do let vs ← splitNats? "," vs; pure (regs.set r (s.removeAll vs), r, "-")
      | 'u', [q] => do let q ← q.toNat?; if q > 2 then none else pure (regs.set r (s.union (regs.get q)), r, "-")
      | 'n', [q] => do let q ← q.toNat?; if q > 2 then none else pure (regs.set r (s.intersect (regs.get q)), r, "-")
      | 's', [q] => do let q ← q.toNat?; if q > 2 then none else pure (regs.set r (s.subtract (regs.get q)), r, "-")
      | 'k', [q] => do let q ← q.toNat?; if q > 2 then none else pure (regs.set r (regs.get q), r, "-")
      | 'v', [] => pure (regs.set r s.invert, r, "-")
      | 'c', [] => pure (regs.set r s.clear, r, "-")
      | 'a', [] => pure (regs.set r IntSet.IntSet.all, r, "-")
      | 'e', [] => pure (regs.set r IntSet.IntSet.empty, r, "-")
      | _, _ => none
    | _ => none

/-- `is.run <domain> <probes> <op> <op> …` -/
def isRun (args : List String) : Option String :=
  match args with
  | dom :: probes :: ops => do
    let d ← parseDomain? dom
    let probes ← splitNats? "," probes
    let init : Regs := ⟨IntSet.IntSet.empty, IntSet.IntSet.empty, IntSet.IntSet.empty⟩
    let rec go (regs : Regs) (ops : List String) (acc : List String) : Option (List String) :=
      match ops with
      | [] => some acc.reverse
      | tok :: rest =>
        match applyOp d regs tok with
        | none => none
        | some (regs', r, ret) => go regs' rest (observe d probes regs' r ret :: acc)
    let outs ← go init ops []
    pure (if outs.isEmpty then "-" else " | ".intercalate outs)
  | _ => none

/-! ### the same op sequences on the CONCRETE representation (Model/BitSetConc.lean) -/

structure CRegs where
  c0 : IntSet.CIntSet
  c1 : IntSet.CIntSet
  c2 : IntSet.CIntSet

def CRegs.get (r : CRegs) (i : Nat) : IntSet.CIntSet :=
  if i = 0 then r.c0 else if i = 1 then r.c1 else r.c2

def CRegs.set (r : CRegs) (i : Nat) (s : IntSet.CIntSet) : CRegs :=
  if i = 0 then { r with c0 := s } else if i = 1 then { r with c1 := s } else { r with c2 := s }

/-- order-sensitive checksum of a sequence of naturals (mod the Mersenne prime 2^61 - 1) -/
def layoutHash (xs : List Nat) : Nat :=
  xs.foldl (fun h x => (h * 1000003 + x % 2305843009213693951 + 1) % 2305843009213693951) 7

/-- the numbers `Serialize` shows for `Membership::{Inclusive,Exclusive}(BitSet { pages, page_map, length })` -/
def layoutNumbers (s : IntSet.CIntSet) : List Nat :=
  [if s.inverted then 1 else 0, s.set.len, s.set.pages.length, s.set.pageMap.length] ++
  s.set.pageMap.flatMap (fun e => [e.1, e.2]) ++
  s.set.pages.flatMap (fun p => p.elems ++ [p.len])

def LAYOUT_FULL_CAP : Nat := 8
def CONC_ITER_CAP : Nat := 5000

def showLayoutFull (s : IntSet.CIntSet) : String :=
  if s.set.pages.length > LAYOUT_FULL_CAP then "-" else
  let pm := if s.set.pageMap.isEmpty then "-" else
    ",".intercalate (s.set.pageMap.map (fun e => s!"{e.1}:{e.2}"))
  let pg := if s.set.pages.isEmpty then "-" else
    ",".intercalate (s.set.pages.map (fun p => ".".intercalate (p.elems.map toString) ++ s!":{p.len}"))
  pm ++ "/" ++ pg

/-- observation of a concrete register: the exact layout, and what the transcribed state machines
(`BitSetRangeIter`, `BitSet::iter` both ways) and `contains` compute FROM that layout -/
def observeC (d : IntSet.Domain) (probes : List Nat) (s : IntSet.CIntSet) (absOk : Bool) (ret : String) : String :=
  let small := s.set.len ≤ CONC_ITER_CAP && s.set.pages.length ≤ CONC_ITER_CAP
  -- the stored BitSet's ranges are observable (iter_ranges / iter_excluded_ranges) on continuous
  -- domains, its members (iter, both ways) on inclusive sets
  let ranges := if small && d.continuous then showPairs (s.set.iterRanges.take ITER_CAP) else "-"
  let fwd := if small && !s.inverted then showNats (s.set.iter.take ITER_CAP) else "-"
  let back := if small && !s.inverted then showNats (s.set.iterRev.take ITER_CAP) else "-"
  let contains := String.join (probes.map (fun p => bit (s.contains p)))
  ";".intercalate [ret, bit s.inverted, toString s.set.len, toString s.set.numPages,
    toString (layoutHash (layoutNumbers s)), showLayoutFull s, ranges, fwd, back, contains,
    if absOk then "A1" else "A0"]

def applyOpC (d : IntSet.Domain) (regs : CRegs) (tok : String) : Option (CRegs × Nat × String) :=
  match tok.splitOn ":" with
  | [] => none
  | head :: params =>
    match head.toList with
    | [c, rc] => do
      let r ← (String.singleton rc).toNat?
      if r > 2 then none else
      let s := regs.get r
      match c, params with
      | 'i', [v] => do let v ← v.toNat?; let x := s.insert v; pure (regs.set r x.1, r, boolStr x.2)
      | 'd', [v] => do let v ← v.toNat?; let x := s.remove v; pure (regs.set r x.1, r, boolStr x.2)
      | 'I', [a, b] => do
        let a ← a.toNat?; let b ← b.toNat?
        pure (regs.set r (s.insertRange d a b), r, "-")
      | 'D', [a, b] => do
        let a ← a.toNat?; let b ← b.toNat?
        pure (regs.set r (s.removeRange d a b), r, "-")
      -- the harness calls `extend` for an even number of values, `extend_unsorted` for an odd one
      | 'x', [vs] => do
        let vs ← splitNats? "," vs
        pure (regs.set r (if vs.length % 2 = 0 then s.extend vs else s.extendUnsorted vs), r, "-")
      | 'X', [vs] => do let vs ← splitNats? "," vs; pure (regs.set r (s.removeAll vs), r, "-")
      | 'u', [q] => do let q ← q.toNat?; if q > 2 then none else pure (regs.set r (s.union (regs.get q)), r, "-")
      | 'n', [q] => do let q ← q.toNat?; if q > 2 then none else pure (regs.set r (s.intersect (regs.get q)), r, "-")
      | 's', [q] => do let q ← q.toNat?; if q > 2 then none else pure (regs.set r (s.subtract (regs.get q)), r, "-")
      | 'k', [q] => do let q ← q.toNat?; if q > 2 then none else pure (regs.set r (regs.get q), r, "-")
      | 'v', [] => pure (regs.set r s.invert, r, "-")
      | 'c', [] => pure (regs.set r s.clear, r, "-")
      | 'a', [] => pure (regs.set r IntSet.CIntSet.all, r, "-")
      | 'e', [] => pure (regs.set r IntSet.CIntSet.empty, r, "-")
      | _, _ => none
    | _ => none

/-- `isc.run <domain> <probes> <op> <op> …`: run the ops on the concrete AND the abstract model;
per op the concrete observation plus `A1` iff `abs (concrete register) = abstract register` -/
def iscRun (args : List String) : Option String :=
  match args with
  | dom :: probes :: ops => do
    let d ← parseDomain? dom
    let probes ← splitNats? "," probes
    let init : Regs := ⟨IntSet.IntSet.empty, IntSet.IntSet.empty, IntSet.IntSet.empty⟩
    let initC : CRegs := ⟨IntSet.CIntSet.empty, IntSet.CIntSet.empty, IntSet.CIntSet.empty⟩
    let rec go (regs : Regs) (cregs : CRegs) (ops : List String) (acc : List String) : Option (List String) :=
      match ops with
      | [] => some acc.reverse
      | tok :: rest =>
        match applyOp d regs tok, applyOpC d cregs tok with
        | some (regs', r, _), some (cregs', _, ret) =>
          let absOk := decide ((cregs'.get r).abs = regs'.get r)
          go regs' cregs' rest (observeC d probes (cregs'.get r) absOk ret :: acc)
        | _, _ => none
    let outs ← go init initC ops []
    pure (if outs.isEmpty then "-" else " | ".intercalate outs)
  | _ => none

def handle (cmd : String) (args : List String) : Option String :=
  match cmd with
  | "rs.run" => rsRun args
  | "rs.int" => rsInt args
  | "sbs.dec" => sbsDec args
  | "sbs.spec" => sbsSpec args
  | "sbs.enc" => sbsEnc args
  | "is.run" => isRun args
  | "isc.run" => iscRun args
  | _ => none

end FontVerif.Drv.C14
