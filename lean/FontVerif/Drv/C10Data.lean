/- line-protocol handlers for Model/GvarData.lean (glyph variation data writer / reader) -/
import FontVerif.Model.GvarData
import FontVerif.Model.GvarLayout
namespace FontVerif.Drv.C10Data
open FontVerif FontVerif.PackedDeltas FontVerif.GvarData

def parseTent? (s : String) : Option Tent :=
  match (s.splitOn ":").mapM parseInt? with
  | some [p] => some (Tent.new p none)
  | some [p, a, b] => some (Tent.new p (some (a, b)))
  | _ => none

def parseDelta? (s : String) : Option GDelta :=
  match (s.splitOn ",").mapM parseInt? with
  | some [x, y, r] => if r = 0 then some (x, y, false) else if r = 1 then some (x, y, true) else none
  | _ => none

/-- tokens of one tuple (after its `T`): `t<tent>`… `d<delta>`… -/
def parseTuple? (toks : List String) : Option (List Tent × List GDelta) :=
  let ts := toks.filter (·.startsWith "t")
  let ds := toks.filter (·.startsWith "d")
  if ts.length + ds.length ≠ toks.length then none else
  match ts.mapM (fun s => parseTent? (s.drop 1).toString), ds.mapM (fun s => parseDelta? (s.drop 1).toString) with
  | some ts, some ds => some (ts, ds)
  | _, _ => none

/-- split a token list into groups, each starting with a token satisfying `p` (kept as the group's
head); `none` when tokens precede the first such token -/
def splitAt (p : String → Bool) (toks : List String) : Option (List (List String)) :=
  let r := toks.foldr (fun x (acc : List String × List (List String)) =>
    if p x then ([], (x :: acc.1) :: acc.2) else (x :: acc.1, acc.2)) ([], [])
  if r.1.isEmpty then some r.2 else none

/-- a glyph: `G<gid> T … T …` -/
def parseGlyph? (toks : List String) : Option (Nat × List (List Tent × List GDelta)) :=
  match toks with
  | g :: rest =>
    if !g.startsWith "G" then none else
    match parseNat? (g.drop 1).toString with
    | none => none
    | some gid =>
      match splitAt (· = "T") rest with
      | none => none
      | some grps =>
        match grps.mapM (fun grp =>
            match grp with
            | "T" :: body => parseTuple? body
            | _ => none) with
        | some tuples => some (gid, tuples)
        | none => none
  | [] => none

def hexOrDash (bs : List Nat) : String := if bs.isEmpty then "-" else toHex bs

def showInts (l : List Int) : String := if l.isEmpty then "-" else ",".intercalate (l.map toString)

def showTriples (l : List (Nat × Int × Int)) : String :=
  if l.isEmpty then "-" else ",".intercalate (l.map fun (p, x, y) => s!"{p}:{x}:{y}")

/-- chunk a flat list into tuples of `n` -/
def chunk (n : Nat) : Nat → List Int → List (List Int)
  | 0, _ => []
  | fuel + 1, l => if l.isEmpty ∨ n = 0 then [] else l.take n :: chunk n fuel (l.drop n)

def showRead (shared : List (List Int)) (g : GlyphRead) : String :=
  let ts := g.tuples.map fun t =>
    let inter := match t.inter with
      | some (s, e) => s!"{showInts s}/{showInts e}"
      | none => "-"
    s!"{showInts (t.peakOf shared)} {inter} {if t.allPoints g.sharedPts then 1 else 0} {showTriples (t.deltas g.sharedPts)}"
  s!"{g.tuples.length}" ++ String.join (ts.map (" ; " ++ ·))

open FontVerif.GvarLayout in
/-- the complete `gvar` table as write-fonts dumps it: header, offsets, glyph data, and (when there
are shared tuples) the `SharedTuples` object after it -/
def fullTable (axisCount : Nat) (shared : List (List Int)) (blobs : List (List Nat)) : List Nat :=
  let long := useLong blobs
  let dao := dataArrayOffset long blobs.length
  let offs := (storedOffsets long blobs).flatMap (fun o => if long then be32 o else be16 o)
  let data := writeData long dao blobs
  let sharedOff := dao + data.length
  gvarHeader axisCount shared.length sharedOff blobs.length long dao ++ offs ++ data ++
    shared.flatMap tupleBytes

def handle (cmd : String) (args : List String) : Option String :=
  match cmd, args with
  | "gd.build", ax :: toks =>
    match parseNat? ax, (splitAt (·.startsWith "G") toks).bind (·.mapM parseGlyph?) with
    | some ax, some glyphs =>
      -- `GlyphDeltas::new` for every tuple first (the caller constructs them before `Gvar::new`)
      match glyphs.mapM (fun g => (g.2.mapM fun t => glyphDeltasNew t.1 t.2).map fun ts => (g.1, ts)) with
      | none => some "panic"
      | some gs =>
        some (match gvarNew gs ax with
          | .err e => "err:" ++ e
          | .panic => "panic"
          | .ok shared blobs =>
            s!"ok {hexOrDash (shared.flatMap tupleBytes)} | {" ".intercalate (blobs.map hexOrDash)} | {toHex (fullTable ax shared blobs)}")
    | _, _ => none
  | "gd.tent", [p, a, b] =>
    match parseInt? p, parseInt? a, parseInt? b with
    | some p, some a, some b => some (if (Tent.new p (some (a, b))).requiresIntermediate then "1" else "0")
    | _, _, _ => none
  | "gd.best", ds =>
    (ds.mapM parseDelta?).map fun ds =>
      match pickBest ds with
      | none => "panic"
      | some none => "all"
      | some (some pts) => joinNats pts
  | "gd.read", [ax, sh, data] =>
    match parseNat? ax, (if sh = "-" then some [] else parseHex? sh), parseHex? data with
    | some ax, some sh, some data =>
      match readTuple (sh.length / 2) sh with
      | none => none
      | some (flat, _) =>
        let shared := chunk ax (flat.length + 1) flat
        some (match readGlyph ax data with
          | none => "err"
          | some g => showRead shared g)
    | _, _, _ => none
  | _, _ => none

end FontVerif.Drv.C10Data
