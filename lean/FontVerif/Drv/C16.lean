/- line-protocol handlers for the C16 models (Model/Layout.lean) -/
import FontVerif.Model.Layout
namespace FontVerif.Drv.C16
open FontVerif FontVerif.Layout

/-- split an argument list at `|` tokens -/
def splitBar (args : List String) : List (List String) :=
  let rec go : List String → List String → List (List String) → List (List String)
    | [], cur, acc => (cur.reverse :: acc).reverse
    | a :: rest, cur, acc => if a = "|" then go rest [] (cur.reverse :: acc) else go rest (a :: cur) acc
  go args [] []

def nats? (ss : List String) : Option (List Nat) :=
  parseNats? (ss.filter (· ≠ "-"))

def triples : List Nat → Option (List (Nat × Nat × Nat))
  | [] => some []
  | a :: b :: c :: rest => (triples rest).map ((a, b, c) :: ·)
  | _ => none

def pairs : List Nat → Option (List (Nat × Nat))
  | [] => some []
  | a :: b :: rest => (pairs rest).map ((a, b) :: ·)
  | _ => none

def parseCoverage? (xs : List Nat) : Option Coverage :=
  match xs with
  | 1 :: gs => some (.fmt1 gs)
  | 2 :: rest => (triples rest).map (fun ts => .fmt2 (ts.map (fun t => ⟨t.1, t.2.1, t.2.2⟩)))
  | _ => none

def showCoverage : Coverage → String
  | .fmt1 gs => "1 " ++ joinNats gs
  | .fmt2 rs => "2 " ++ joinNats (rs.flatMap (fun r => [r.start, r.end_, r.startCov]))

def parseClassDef? (xs : List Nat) : Option ClassDef :=
  match xs with
  | 1 :: s :: cs => some (.fmt1 s cs)
  | 2 :: rest => (triples rest).map (fun ts => .fmt2 (ts.map (fun t => ⟨t.1, t.2.1, t.2.2⟩)))
  | _ => none

def showClassDef : ClassDef → String
  | .fmt1 s cs => "1 " ++ toString s ++ " " ++ joinNats cs
  | .fmt2 rs => "2 " ++ joinNats (rs.flatMap (fun r => [r.start, r.end_, r.cls]))

def showOpt : Option Nat → String
  | none => "n"
  | some i => toString i

def showGets (c : Coverage) (probes : List Nat) : String :=
  if probes.isEmpty then "-" else " ".intercalate (probes.map (fun g => showOpt (c.get g)))

def showClasses (c : ClassDef) (probes : List Nat) : String :=
  joinNats (probes.map c.get)

def addAll (b : ClassDefBuilder) : List (List Nat) → ClassDefBuilder × List Bool
  | [] => (b, [])
  | c :: cs =>
    let (b', ok) := b.checkedAdd c
    let (b'', oks) := addAll b' cs
    (b'', ok :: oks)

/-- chunk a list into rows of `n` -/
def chunks {α : Type} (n : Nat) (xs : List α) : List (List α) :=
  if n = 0 then [] else
  let rec go (fuel : Nat) (xs : List α) (acc : List (List α)) : List (List α) :=
    match fuel, xs with
    | 0, _ => acc.reverse
    | _, [] => acc.reverse
    | fuel + 1, xs => go fuel (xs.drop n) (xs.take n :: acc)
  go xs.length xs []

def bits4 (x : Nat) : List Bool := [x % 2 == 1, x / 2 % 2 == 1, x / 4 % 2 == 1, x / 8 % 2 == 1]

def showDevVR (r : DevVR Nat) : String := joinNats (r.devs.map (fun d => d.getD 0))

def handle (cmd : String) (args : List String) : Option String :=
  match cmd, (splitBar args).mapM nats? with
  | _, none => none
  | "cov.build", some [gs, probes] =>
    let c := buildCoverage gs
    some (showCoverage c ++ " | " ++ showGets c probes)
  | "cov.ranges", some [gs] =>
    some (joinNats ((iterForGlyphs gs).flatMap (fun r => [r.start, r.end_, r.startCov])))
  | "cov.get", some [tbl, probes] =>
    (parseCoverage? tbl).map (fun c => showGets c probes)
  | "cov.iter", some [tbl] =>
    (parseCoverage? tbl).map (fun c => joinNats c.glyphs)
  | "cov.split", some [tbl, [s, e], probes] =>
    (parseCoverage? tbl).map (fun c =>
      match splitCoverage c s e with
      | none => "trap"
      | some c' => showCoverage c' ++ " | " ++ showGets c' probes)
  | "cd.build", some [ps, probes] =>
    (pairs ps).map (fun ps =>
      let c := buildClassDef ps
      showClassDef c ++ " | " ++ showClasses c probes)
  | "cd.get", some [tbl, probes] =>
    (parseClassDef? tbl).map (fun c => showClasses c probes)
  | "cdb.build", some ([use0] :: probes :: classes) =>
    if use0 > 1 then none else
    let classes := classes.map sortDedup
    let (b, oks) := addAll ⟨[], use0 == 1⟩ classes
    let (cd, mapping) := b.buildWithMapping
    let ids := classes.map (fun c => match mapping.find? (fun p => p.1 == c) with
      | some p => toString p.2 | none => "x")
    some (" ".intercalate (oks.map (fun b => if b then "t" else "f")) ++ " | " ++
      " ".intercalate ids ++ " | " ++ showClassDef cd ++ " | " ++ showClasses cd probes)
  | "ppf1.points", some [[covSize], ps] =>
    (pairs ps).map (fun ps => match ppf1SplitPoints covSize ps with
      | none => "none"
      | some pts => joinNats pts)
  | "ppf1.split", some [tbl, pts] =>
    -- pair sets carry their own index as value so that slices are observable
    (parseCoverage? tbl).map (fun c =>
      let t : PairPos1 Nat := ⟨c, (List.range c.glyphs.length).map (fun i => [(0, i)])⟩
      match splitPpf1Go t 0 pts with
      | none => "trap"
      | some ts => " | ".intercalate (ts.map (fun t =>
          showCoverage t.cov ++ " ; " ++ joinNats (t.pairSets.map (fun ps => (ps.head?.map (·.2)).getD 0)))))
  | "ppf1.run", some [tbl, [covSize], ps] =>
    -- whole of `split_pair_pos_format_1`: heuristic, then the split loop; pair set `i` carries its
    -- object id as value so that the slices are observable
    match parseCoverage? tbl, pairs ps with
    | some c, some ps =>
      match ppf1SplitPoints covSize ps with
      | none => some "none"
      | some pts =>
        let t : PairPos1 Nat := ⟨c, ps.map (fun p => [(0, p.1)])⟩
        match splitPpf1Go t 0 pts with
        | none => some "trap"
        | some ts => some (joinNats pts ++ " | " ++ " | ".intercalate (ts.map (fun t =>
            showCoverage t.cov ++ " ; " ++ joinNats (t.pairSets.map (fun ps => (ps.head?.map (·.2)).getD 0)))))
    | _, _ => none
  | "ppf2.run", some [ctbl, cdtbl, [class1Count, recSize, cd2Size]] =>
    -- whole of `split_pair_pos_format_2` (no device tables): heuristic, then `split_off_ppf2` for
    -- every range; row `i` of the matrix carries `i` so that the row slices are observable
    match parseCoverage? ctbl, parseClassDef? cdtbl with
    | some c, some cd =>
      let gc := c.glyphs.map (fun g => (g, cd.get g))
      match ppf2SplitPoints gc class1Count recSize cd2Size with
      | none => some "none"
      | some pts =>
        let t : PairPos2 Nat := ⟨c, cd, .fmt2 [], (List.range class1Count).map (fun i => [i])⟩
        match splitPpf2Go t 0 pts with
        | none => some "trap"
        | some ts => some (joinNats pts ++ " | " ++ " | ".intercalate (ts.map (fun t =>
            showCoverage t.cov ++ " ; " ++ showClassDef t.classDef1 ++ " ; " ++
              joinNats (t.rows.map (fun r => r.headD 0)))))
    | _, _ => none
  | "pairs.build", some [rules] =>
    -- `insert_pair` for every rule `(g1, g2, value-format key, rule id)` in order, then
    -- `GlyphPairPosBuilder::build`: the format 1 subtables with their pair sets `(g2, rule id)`
    let rec quads : List Nat → Option (List ((Nat × Nat) × (Nat × Nat)))
      | [] => some []
      | a :: b :: c :: d :: rest => (quads rest).map (((a, b), (c, d)) :: ·)
      | _ => none
    (quads rules).map (fun rs =>
      let ts := buildGlyphPairs (·.1) (GlyphPairs.ofRules rs)
      if ts.isEmpty then "-" else
      " | ".intercalate (ts.map (fun t => showCoverage t.cov ++ " ; " ++
        " , ".intercalate (t.pairSets.map (fun ps => joinNats (ps.flatMap (fun p => [p.1, p.2.2])))))))
  | "ppf2.devs", some [ctbl, cdtbl, [k2], pts, devIds, flags] =>
    -- the split loop of `split_pair_pos_format_2` with the device-offset bookkeeping of
    -- `split_off_ppf2` / `copy_value_rec` at the real run's split points: cell `n` (row-major) has
    -- scalar `n`; `flags[n]` bits 0-3 / 4-7 = non-null device offsets of value record 1 / 2;
    -- `devIds` = the subtable's offset list after coverage and the two class definitions
    match parseCoverage? ctbl, parseClassDef? cdtbl with
    | some c, some cd =>
      if k2 = 0 then none else
      let cells : List (RawVR Nat × RawVR Nat) :=
        (List.range flags.length).zipWith (fun n f => (⟨n, bits4 (f % 16)⟩, ⟨n, bits4 (f / 16)⟩)) flags
      let t : PairPos2G Nat := ⟨⟨c, cd, .fmt2 [], chunks k2 cells⟩, 0 :: 0 :: 0 :: devIds⟩
      match splitPpf2GGo t 0 3 pts with
      | none => some "trap"
      | some ts => some (" | ".intercalate (ts.map (fun t =>
          showCoverage t.cov ++ " ; " ++ showClassDef t.classDef1 ++ " ; " ++
            " , ".intercalate (t.rows.map (fun r => " ".intercalate (r.map (fun c =>
              toString c.1.scalars ++ " " ++ showDevVR c.1 ++ " " ++ showDevVR c.2)))))))
    | _, _ => none
  | "mb.split", some (mctbl :: [classCount] :: pts :: marks :: rows) =>
    -- `split_off_mark_pos` for every range of the given split points; mark record `i` = (class,
    -- anchor id), base row = anchor ids per class with 0 = null
    match parseCoverage? mctbl, pairs marks with
    | some c, some marks =>
      let t : MarkBase Nat := ⟨c, .fmt1 [], classCount, marks,
        rows.map (fun r => r.map (fun a => if a = 0 then none else some a))⟩
      match splitMarkBaseGo t 0 pts with
      | none => some "trap"
      | some ts => some (" | ".intercalate (ts.map (fun t =>
          showCoverage t.markCov ++ " ; " ++ toString t.classCount ++ " ; " ++
            joinNats (t.marks.flatMap (fun p => [p.1, p.2])) ++ " ; " ++
            " , ".intercalate (t.bases.map (fun r => joinNats (r.map (fun a => a.getD 0)))))))
    | _, _ => none
  | _, _ => none

end FontVerif.Drv.C16
