/- line-protocol handlers for the C16 models (Model/Layout.lean) -/
import FontVerif.Model.Layout
import FontVerif.Model.LayoutLookup
import FontVerif.Model.LayoutDevice
import FontVerif.Model.LayoutMarkLig
import Std.Data.HashMap
namespace FontVerif.Drv.C16
open FontVerif FontVerif.Layout FontVerif.HandLayout

/-- split an argument list at `|` tokens -/
def splitBar (args : List String) : List (List String) :=
  let rec go : List String → List String → List (List String) → List (List String)
    | [], cur, acc => (cur.reverse :: acc).reverse
    | a :: rest, cur, acc => if a = "|" then go rest [] (cur.reverse :: acc) else go rest (a :: cur) acc
  go args [] []

def nats? (ss : List String) : Option (List Nat) :=
  parseNats? (ss.filter (· ≠ "-"))

def triples : List Nat → Option (List (Nat × Nat × Nat))
  | [] => some []
  | a :: b :: c :: rest => (triples rest).map ((a, b, c) :: ·)
  | _ => none

def pairs : List Nat → Option (List (Nat × Nat))
  | [] => some []
  | a :: b :: rest => (pairs rest).map ((a, b) :: ·)
  | _ => none

def parseCoverage? (xs : List Nat) : Option Coverage :=
  match xs with
  | 1 :: gs => some (.fmt1 gs)
  | 2 :: rest => (triples rest).map (fun ts => .fmt2 (ts.map (fun t => ⟨t.1, t.2.1, t.2.2⟩)))
  | _ => none

def showCoverage : Coverage → String
  | .fmt1 gs => "1 " ++ joinNats gs
  | .fmt2 rs => "2 " ++ joinNats (rs.flatMap (fun r => [r.start, r.end_, r.startCov]))

def parseClassDef? (xs : List Nat) : Option ClassDef :=
  match xs with
  | 1 :: s :: cs => some (.fmt1 s cs)
  | 2 :: rest => (triples rest).map (fun ts => .fmt2 (ts.map (fun t => ⟨t.1, t.2.1, t.2.2⟩)))
  | _ => none

def showClassDef : ClassDef → String
  | .fmt1 s cs => "1 " ++ toString s ++ " " ++ joinNats cs
  | .fmt2 rs => "2 " ++ joinNats (rs.flatMap (fun r => [r.start, r.end_, r.cls]))

def showOpt : Option Nat → String
  | none => "n"
  | some i => toString i

def showGets (c : Coverage) (probes : List Nat) : String :=
  if probes.isEmpty then "-" else " ".intercalate (probes.map (fun g => showOpt (c.get g)))

def showClasses (c : ClassDef) (probes : List Nat) : String :=
  joinNats (probes.map c.get)

def addAll (b : ClassDefBuilder) : List (List Nat) → ClassDefBuilder × List Bool
  | [] => (b, [])
  | c :: cs =>
    let (b', ok) := b.checkedAdd c
    let (b'', oks) := addAll b' cs
    (b'', ok :: oks)

/-- chunk a list into rows of `n` -/
def chunks {α : Type} (n : Nat) (xs : List α) : List (List α) :=
  if n = 0 then [] else
  let rec go (fuel : Nat) (xs : List α) (acc : List (List α)) : List (List α) :=
    match fuel, xs with
    | 0, _ => acc.reverse
    | _, [] => acc.reverse
    | fuel + 1, xs => go fuel (xs.drop n) (xs.take n :: acc)
  go xs.length xs []

def bits4 (x : Nat) : List Bool := [x % 2 == 1, x / 2 % 2 == 1, x / 4 % 2 == 1, x / 8 % 2 == 1]

def showDevVR (r : DevVR Nat) : String := joinNats (r.devs.map (fun d => d.getD 0))


/-- `n x₁ … xₙ rest` -/
def takeCounted : List Nat → Option (List Nat × List Nat)
  | [] => none
  | n :: rest => if n ≤ rest.length then some (rest.take n, rest.drop n) else none

/-- a class rule `n1 g… n2 g… f1 f2 id` -/
def parseClassRule (xs : List Nat) : Option (ClassRule (Nat × Nat × Nat)) := do
  let (c1, r1) ← takeCounted xs
  let (c2, r2) ← takeCounted r1
  match r2 with
  | [f1, f2, id] => some ⟨c1, c2, (f1, f2, id)⟩
  | _ => none

def quads : List Nat → Option (List (Nat × Nat × Nat × Nat))
  | [] => some []
  | a :: b :: c :: d :: rest => (quads rest).map ((a, b, c, d) :: ·)
  | _ => none

/-- `id size n (cid csize)…` repeated -/
def parseObjs (fuel : Nat) (xs : List Nat) : Option (List (Nat × AnchorObj)) :=
  match fuel, xs with
  | _, [] => some []
  | 0, _ => none
  | fuel + 1, id :: size :: n :: rest =>
    if 2 * n ≤ rest.length then
      match pairs (rest.take (2 * n)), parseObjs fuel (rest.drop (2 * n)) with
      | some ch, some more => some ((id, ⟨size, ch⟩) :: more)
      | _, _ => none
    else none
  | _, _ => none

def showMarkBase (t : MarkBase Nat) : String :=
  showCoverage t.markCov ++ " ; " ++ showCoverage t.baseCov ++ " ; " ++ toString t.classCount ++ " ; " ++
    joinNats (t.marks.flatMap (fun p => [p.1, p.2])) ++ " ; " ++
    " , ".intercalate (t.bases.map (fun r => joinNats (r.map (fun a => a.getD 0))))

/-- components of `add_ligature_components_directly`: `cnt (name anchor)…` repeated -/
def parseComps (fuel : Nat) (xs : List Nat) : Option (List (List (Nat × Nat))) :=
  match fuel, xs with
  | _, [] => some []
  | 0, _ => none
  | fuel + 1, cnt :: rest =>
    if 2 * cnt ≤ rest.length then
      match pairs (rest.take (2 * cnt)), parseComps fuel (rest.drop (2 * cnt)) with
      | some m, some more => some (m.foldl (fun acc e => bmInsert e.1 e.2 acc) [] :: more)
      | _, _ => none
    else none

def parseMlOp (xs : List Nat) : Option (MlOp Nat) :=
  match xs with
  | [0, g, n, a] => some (.mark g n a)
  | 1 :: g :: n :: k :: rest =>
    if rest.length = k then some (.lig g n (rest.map (fun a => if a = 0 then none else some a))) else none
  | 2 :: g :: rest => (parseComps (rest.length + 1) rest).map (.direct g)
  | _ => none

def handle (cmd : String) (args : List String) : Option String :=
  match cmd, (splitBar args).mapM nats? with
  | _, none => none
  | "cov.build", some [gs, probes] =>
    let c := buildCoverage gs
    some (showCoverage c ++ " | " ++ showGets c probes)
  | "cov.ranges", some [gs] =>
    some (joinNats ((iterForGlyphs gs).flatMap (fun r => [r.start, r.end_, r.startCov])))
  | "cov.get", some [tbl, probes] =>
    (parseCoverage? tbl).map (fun c => showGets c probes)
  | "cov.iter", some [tbl] =>
    (parseCoverage? tbl).map (fun c => joinNats c.glyphs)
  | "cov.split", some [tbl, [s, e], probes] =>
    (parseCoverage? tbl).map (fun c =>
      match splitCoverage c s e with
      | none => "trap"
      | some c' => showCoverage c' ++ " | " ++ showGets c' probes)
  | "cd.build", some [ps, probes] =>
    (pairs ps).map (fun ps =>
      let c := buildClassDef ps
      showClassDef c ++ " | " ++ showClasses c probes)
  | "cd.get", some [tbl, probes] =>
    (parseClassDef? tbl).map (fun c => showClasses c probes)
  | "cdb.build", some ([use0] :: probes :: classes) =>
    if use0 > 1 then none else
    let classes := classes.map sortDedup
    let (b, oks) := addAll ⟨[], use0 == 1⟩ classes
    let (cd, mapping) := b.buildWithMapping
    let ids := classes.map (fun c => match mapping.find? (fun p => p.1 == c) with
      | some p => toString p.2 | none => "x")
    some (" ".intercalate (oks.map (fun b => if b then "t" else "f")) ++ " | " ++
      " ".intercalate ids ++ " | " ++ showClassDef cd ++ " | " ++ showClasses cd probes)
  | "ppf1.points", some [[covSize], ps] =>
    (pairs ps).map (fun ps => match ppf1SplitPoints covSize ps with
      | none => "none"
      | some pts => joinNats pts)
  | "ppf1.split", some [tbl, pts] =>
    -- pair sets carry their own index as value so that slices are observable
    (parseCoverage? tbl).map (fun c =>
      let t : PairPos1 Nat := ⟨c, (List.range c.glyphs.length).map (fun i => [(0, i)])⟩
      match splitPpf1Go t 0 pts with
      | none => "trap"
      | some ts => " | ".intercalate (ts.map (fun t =>
          showCoverage t.cov ++ " ; " ++ joinNats (t.pairSets.map (fun ps => (ps.head?.map (·.2)).getD 0)))))
  | "ppf1.run", some [tbl, [covSize], ps] =>
    -- whole of `split_pair_pos_format_1`: heuristic, then the split loop; pair set `i` carries its
    -- object id as value so that the slices are observable
    match parseCoverage? tbl, pairs ps with
    | some c, some ps =>
      match ppf1SplitPoints covSize ps with
      | none => some "none"
      | some pts =>
        let t : PairPos1 Nat := ⟨c, ps.map (fun p => [(0, p.1)])⟩
        match splitPpf1Go t 0 pts with
        | none => some "trap"
        | some ts => some (joinNats pts ++ " | " ++ " | ".intercalate (ts.map (fun t =>
            showCoverage t.cov ++ " ; " ++ joinNats (t.pairSets.map (fun ps => (ps.head?.map (·.2)).getD 0)))))
    | _, _ => none
  | "ppf2.run", some [ctbl, cdtbl, [class1Count, recSize, cd2Size]] =>
    -- whole of `split_pair_pos_format_2` (no device tables): heuristic, then `split_off_ppf2` for
    -- every range; row `i` of the matrix carries `i` so that the row slices are observable
    match parseCoverage? ctbl, parseClassDef? cdtbl with
    | some c, some cd =>
      let gc := c.glyphs.map (fun g => (g, cd.get g))
      match ppf2SplitPoints gc class1Count recSize cd2Size with
      | none => some "none"
      | some pts =>
        let t : PairPos2 Nat := ⟨c, cd, .fmt2 [], (List.range class1Count).map (fun i => [i])⟩
        match splitPpf2Go t 0 pts with
        | none => some "trap"
        | some ts => some (joinNats pts ++ " | " ++ " | ".intercalate (ts.map (fun t =>
            showCoverage t.cov ++ " ; " ++ showClassDef t.classDef1 ++ " ; " ++
              joinNats (t.rows.map (fun r => r.headD 0)))))
    | _, _ => none
  | "pairs.build", some [rules] =>
    -- `insert_pair` for every rule `(g1, g2, value-format key, rule id)` in order, then
    -- `GlyphPairPosBuilder::build`: the format 1 subtables with their pair sets `(g2, rule id)`
    let rec quads : List Nat → Option (List ((Nat × Nat) × (Nat × Nat)))
      | [] => some []
      | a :: b :: c :: d :: rest => (quads rest).map (((a, b), (c, d)) :: ·)
      | _ => none
    (quads rules).map (fun rs =>
      let ts := buildGlyphPairs (·.1) (GlyphPairs.ofRules rs)
      if ts.isEmpty then "-" else
      " | ".intercalate (ts.map (fun t => showCoverage t.cov ++ " ; " ++
        " , ".intercalate (t.pairSets.map (fun ps => joinNats (ps.flatMap (fun p => [p.1, p.2.2])))))))
  | "ppf2.devs", some [ctbl, cdtbl, [k2], pts, devIds, flags] =>
    -- the split loop of `split_pair_pos_format_2` with the device-offset bookkeeping of
    -- `split_off_ppf2` / `copy_value_rec` at the real run's split points: cell `n` (row-major) has
    -- scalar `n`; `flags[n]` bits 0-3 / 4-7 = non-null device offsets of value record 1 / 2;
    -- `devIds` = the subtable's offset list after coverage and the two class definitions
    match parseCoverage? ctbl, parseClassDef? cdtbl with
    | some c, some cd =>
      if k2 = 0 then none else
      let cells : List (RawVR Nat × RawVR Nat) :=
        (List.range flags.length).zipWith (fun n f => (⟨n, bits4 (f % 16)⟩, ⟨n, bits4 (f / 16)⟩)) flags
      let t : PairPos2G Nat := ⟨⟨c, cd, .fmt2 [], chunks k2 cells⟩, 0 :: 0 :: 0 :: devIds⟩
      match splitPpf2GGo t 0 3 pts with
      | none => some "trap"
      | some ts => some (" | ".intercalate (ts.map (fun t =>
          showCoverage t.cov ++ " ; " ++ showClassDef t.classDef1 ++ " ; " ++
            " , ".intercalate (t.rows.map (fun r => " ".intercalate (r.map (fun c =>
              toString c.1.scalars ++ " " ++ showDevVR c.1 ++ " " ++ showDevVR c.2)))))))
    | _, _ => none
  | "lk.split", some [[ty, flag], mfs, offsets, ks] =>
    -- `split_subtables`: the lookup's offsets name the ORIGINAL subtables by small numbers (a number
    -- may repeat = shared object); `ks[o]` = number of pieces the split function returns for
    -- original `o` (0 = `None`).  The pieces of the `i`-th call are `100000 * (i + 1) + 100 * o + j`.
    if mfs.length > 1 then none else
    let lk : LookupG := ⟨ty, flag, offsets, mfs.head?⟩
    let splitFn := fun (i o : Nat) =>
      match ks[o]? with
      | some k => if k = 0 then none else some ((List.range k).map (fun j => 100000 * (i + 1) + 100 * o + j))
      | none => none
    (match splitSubtables lk splitFn with
    | none => some "trap"
    | some out =>
      some (joinNats [out.lookupType, out.flag, out.subtableCount] ++ " | " ++
        joinNats out.markFilteringSet.toList ++ " | " ++
        (if out.offsets.isEmpty then "-" else " ".intercalate (out.offsets.map (fun id =>
          if id ≥ 100000 then toString (id % 100000 / 100) ++ "." ++ toString (id % 100)
          else toString id)))))
  | "classpairs.build", some rules =>
    -- `insert_classes` for every rule `n1 g… n2 g… f1 f2 id` in order, then
    -- `ClassPairPosBuilder::build`: per subtable coverage, the two class definitions, the two value
    -- formats and the matrix (cell = rule id + 1, 0 = empty record)
    (rules.mapM parseClassRule).map (fun rs =>
      let rs := rs.map (fun r => (⟨sortDedup r.c1, sortDedup r.c2, r.v⟩ : ClassRule (Nat × Nat × Nat)))
      match buildClassPairs (fun v => (v.1, v.2.1)) (ClassPairs.ofRules rs) with
      | none => "trap"
      | some ts => if ts.isEmpty then "-" else
        " | ".intercalate (ts.map (fun t =>
          showCoverage t.tbl.cov ++ " ; " ++ showClassDef t.tbl.classDef1 ++ " ; " ++
          showClassDef t.tbl.classDef2 ++ " ; " ++ joinNats [t.vf1, t.vf2] ++ " ; " ++
          " , ".intercalate (t.tbl.rows.map (fun r => joinNats (r.map (fun c =>
            match c with | some v => v.2.2 + 1 | none => 0)))))))
  | "mb.build", some [ops] =>
    -- `insert_mark` (`0 g name anchor`) / `insert_base` (`1 g name anchor`) in order, then
    -- `MarkToBaseBuilder::build`; second part: the results of the `insert_mark` calls
    (quads ops).bind (fun qs =>
      if qs.any (fun q => q.1 > 1) then none else
      let step := fun (st : Option (MarkToBase Nat) × List String) (q : Nat × Nat × Nat × Nat) =>
        match st.1 with
        | none => st
        | some b =>
          if q.1 = 0 then
            let r := b.marks.insert q.2.1 q.2.2.1 q.2.2.2
            (some { b with marks := r.1 }, st.2 ++ [match r.2 with | .inl id => "o" ++ toString id | .inr n => "e" ++ toString n])
          else (b.insertBase q.2.1 q.2.2.1 q.2.2.2, st.2)
      let (b, res) := qs.foldl step (some MarkToBase.empty, [])
      match b.bind MarkToBase.build with
      | none => some "trap"
      | some t => some (showMarkBase t ++ " | " ++ (if res.isEmpty then "-" else " ".intercalate res)))
  | "mb.points", some [[classCount, baseCovSize, baseCount], marks, baseOffsets, objs] =>
    -- `get_class_info` + the size loop of `split_mark_to_base_subtable`: mark records `(class, anchor
    -- object)`, the base array's offset list (NON-NULL anchors only), the anchor objects
    match pairs marks, parseObjs (objs.length + 1) objs with
    | some marks, some table =>
      let hm : Std.HashMap Nat AnchorObj := Std.HashMap.ofList table
      let obj := fun id => (hm.get? id).getD ⟨0, []⟩
      some (match mbSplitPoints obj baseCovSize baseCount (getClassInfo classCount marks baseOffsets) with
        | none => "none"
        | some pts => joinNats pts)
    | _, _ => none
  | "device.build", some [[start], ds] =>
    -- `Device::new(start, start + n - 1, deltas)` (deltas sent as `d + 128`): the header, the packed
    -- words and what `Device::iter` decodes from them
    if ds.isEmpty || ds.any (· > 255) then none else
    let vs : List Int := ds.map (fun (d : Nat) => Int.ofNat d - 128)
    let dev := deviceNew start (start + vs.length - 1) vs
    some (joinNats [dev.start, dev.end_, dev.fmt] ++ " | " ++ joinNats dev.words ++ " | " ++
      (match devIter dev with
       | .val out => joinNats (out.map (fun x => (x + 128).toNat))
       | .trap => "trap"))
  | "ml.build", some ops =>
    -- `MarkToLigBuilder`: `0 g name anchor` = insert_mark, `1 g name k a…` = insert_ligature (0 = None),
    -- `2 g (cnt (name anchor)…)…` = add_ligature_components_directly; then `build`
    (ops.mapM parseMlOp).map (fun ops =>
      let step := fun (st : Option (MarkToLig Nat) × List String) (op : MlOp Nat) =>
        match st.1 with
        | none => st
        | some b =>
          match op with
          | .mark g n a =>
            let r := b.marks.insert g n a
            (some { b with marks := r.1 }, st.2 ++ [match r.2 with | .inl id => "o" ++ toString id | .inr n => "e" ++ toString n])
          | op => (b.apply op, st.2)
      let (b, res) := ops.foldl step (some MarkToLig.empty, [])
      match b.bind MarkToLig.build with
      | none => "trap"
      | some t =>
        showCoverage t.markCov ++ " ; " ++ showCoverage t.ligCov ++ " ; " ++ toString t.classCount ++ " ; " ++
          joinNats (t.marks.flatMap (fun p => [p.1, p.2])) ++ " ; " ++
          (if t.ligs.isEmpty then "-" else " / ".intercalate (t.ligs.map (fun comps =>
            if comps.isEmpty then "-" else " , ".intercalate (comps.map (fun r => joinNats (r.map (fun a => a.getD 0))))))) ++
          " | " ++ (if res.isEmpty then "-" else " ".intercalate res))
  | "ppf2.dpoints", some [ctbl, cdtbl, [k2, recSize, cd2Size], flags, devIds, devSizes] =>
    -- the size loop of `split_pair_pos_format_2` with device tables: cell `n` (row-major) has
    -- popcount(flags[n]) non-null device offsets, `devIds` / `devSizes` = the subtable's offset list
    -- after coverage + class defs (object ids, byte lengths); answers the piece ends and the
    -- estimated size of every piece
    match parseCoverage? ctbl, parseClassDef? cdtbl with
    | some c, some cd =>
      if k2 = 0 || devIds.length ≠ devSizes.length then none else
      let gc := c.glyphs.map (fun g => (g, cd.get g))
      let pop := fun (f : Nat) => ((bits4 (f % 16)) ++ (bits4 (f / 16 % 16))).count true
      let rowCounts := (chunks k2 flags).map (fun r => (r.map pop).sum)
      let devs := devIds.zip devSizes
      let rows := (rowCounts.foldl (fun (acc : List (List (Nat × Nat)) × List (Nat × Nat)) n =>
        (acc.1 ++ [acc.2.take n], acc.2.drop n)) ([], devs)).1
      some (match ppf2DPieces true gc recSize cd2Size rows with
        | none => "none"
        | some ps =>
          -- per piece also: emitted coverage / class-def-1 bytes and the loop's two estimates
          let tbl : PairPos2 Nat := ⟨c, cd, .fmt2 [], []⟩
          let act := ps.map (fun p => match splitOffPpf2 tbl p.1 p.2.1 with
            | some t => (t.cov.byteSize, t.classDef1.byteSize)
            | none => (0, 0))
          joinNats (ps.map (·.2.1)) ++ " | " ++ joinNats (ps.map (·.2.2)) ++ " | " ++
            joinNats (act.map (·.1)) ++ " | " ++ joinNats (act.map (·.2)) ++ " | " ++
            joinNats (ps.map (fun p => ppf2CovEstimate ⟨gc⟩ p.1 p.2.1)) ++ " | " ++
            joinNats (ps.map (fun p => ppf2Cd1Estimate ⟨gc⟩ p.1 p.2.1)))
    | _, _ => none
  | "mb.split", some (mctbl :: [classCount] :: pts :: marks :: rows) =>
    -- `split_off_mark_pos` for every range of the given split points; mark record `i` = (class,
    -- anchor id), base row = anchor ids per class with 0 = null
    match parseCoverage? mctbl, pairs marks with
    | some c, some marks =>
      let t : MarkBase Nat := ⟨c, .fmt1 [], classCount, marks,
        rows.map (fun r => r.map (fun a => if a = 0 then none else some a))⟩
      match splitMarkBaseGo t 0 pts with
      | none => some "trap"
      | some ts => some (" | ".intercalate (ts.map (fun t =>
          showCoverage t.markCov ++ " ; " ++ toString t.classCount ++ " ; " ++
            joinNats (t.marks.flatMap (fun p => [p.1, p.2])) ++ " ; " ++
            " , ".intercalate (t.bases.map (fun r => joinNats (r.map (fun a => a.getD 0)))))))
    | _, _ => none
  | _, _ => none

end FontVerif.Drv.C16
