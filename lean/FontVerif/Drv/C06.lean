/- line-protocol handlers for the C06 models (Model/Sfnt.lean) -/
import FontVerif.Model.Sfnt
namespace FontVerif.Drv.C06
open FontVerif FontVerif.Sfnt

/-- a tag is written as exactly 8 hex digits -/
def parseTag? (s : String) : Option Nat :=
  if s.length ≠ 8 then none else
  match parseHex? s with
  | some [a, b, c, d] => some (be32 a b c d)
  | _ => none

def tagHex (t : Nat) : String := toHex (be4 t)

/-- `A<tag8>:<hex>` = add_raw, `C<hex>` = copy_missing_tables(FontRef::new(hex)) -/
def parseOp? (s : String) : Option Op :=
  match s.toList with
  | 'A' :: rest =>
    match (String.ofList rest).splitOn ":" with
    | [t, d] =>
      match parseTag? t, parseHex? d with
      | some t, some d => some (.add t d)
      | _, _ => none
    | _ => none
  | 'C' :: rest =>
    match parseHex? (String.ofList rest) with
    | some d => some (.copy d)
    | none => none
  | _ => none

def parseOps? (ss : List String) : Option (List Op) := ss.mapM parseOp?

def optHex : Option Bytes → String
  | none => "none"
  | some d => toHex d

def recStr (r : Rec) : String := s!"{tagHex r.tag}:{r.checksum}:{r.offset}:{r.length}"

def joinStrs (xs : List String) : String :=
  if xs.isEmpty then "-" else " ".intercalate xs

def handle (cmd : String) (args : List String) : Option String :=
  match cmd with
  | "sfnt.build" =>
    match parseOps? args with
    | none => none
    | some ops =>
      match build (runOps ops) with
      | none => some "trap"
      | some bs => some (toHex bs)
  | "sfnt.order" =>
    match parseOps? args with
    | none => none
    | some ops => some (joinStrs ((orderedTags (runOps ops)).map tagHex))
  | "sfnt.keys" =>
    -- the builder's map after the history: `tag:len` ascending
    match parseOps? args with
    | none => none
    | some ops => some (joinStrs ((runOps ops).map (fun e => s!"{tagHex e.1}:{e.2.length}")))
  | "sfnt.checksum" =>
    match args with
    | [h] => (parseHex? h).map (fun bs => toString (checksum bs))
    | _ => none
  | "sfnt.searchrange" =>
    match parseNats? args with
    | some [n, sz] =>
      let (a, b, c) := searchRange n sz
      some s!"{a} {b} {c}"
    | _ => none
  | "sfnt.open" =>
    match args with
    | [h] =>
      match parseHex? h with
      | none => none
      | some bs =>
        match openFont bs with
        | .error .outOfBounds => some "err:OutOfBounds"
        | .error .invalidSfnt => some "err:InvalidSfnt"
        | .ok f => some (s!"ok {f.numTables} " ++ joinStrs ((records f).map recStr))
    | _ => none
  | "sfnt.read" =>
    -- sfnt.read <fonthex> <tag8>… : table_data for each tag
    match args with
    | h :: tags =>
      match parseHex? h, tags.mapM parseTag? with
      | some bs, some ts =>
        match openFont bs with
        | .error .outOfBounds => some "err:OutOfBounds"
        | .error .invalidSfnt => some "err:InvalidSfnt"
        | .ok f =>
          let recs := records f
          some (joinStrs (ts.map (fun t => optHex (tableDataIn recs f.data t))))
      | _, _ => none
    | _ => none
  | _ => none

end FontVerif.Drv.C06
