/- line-protocol handlers for the C10 models (Model/PackedDeltas.lean, Model/Iup.lean) -/
import FontVerif.Model.PackedDeltas
import FontVerif.Model.Iup
import FontVerif.Model.GvarLayout
import FontVerif.Drv.C10Data
import FontVerif.Drv.C10Apply
import FontVerif.Drv.C10F64
namespace FontVerif.Drv.C10
open FontVerif FontVerif.PackedDeltas

def optHex : Option (List Nat) → String
  | none => "trap"
  | some bs => toHex bs

def optNat : Option Nat → String
  | none => "trap"
  | some n => toString n

def showTriples (l : List (Nat × Int × Int)) : String :=
  if l.isEmpty then "-" else " ".intercalate (l.map fun (p, x, y) => s!"{p}:{x}:{y}")

def handlePacked (cmd : String) (args : List String) : Option String :=
  match cmd, args with
  | "pd.enc", xs => (parseInts? (xs.filter (· ≠ "-"))).map fun ds => toHex (encodeDeltas ds)
  | "pd.size", xs => (parseInts? (xs.filter (· ≠ "-"))).map fun ds => optNat (computeSize ds)
  | "pd.dec", [n, h] =>
    match parseNat? n, parseHex? h with
    | some n, some bs => some (joinInts (decodeDeltas bs n))
    | _, _ => none
  | "pd.decall", [h] => (parseHex? h).map fun bs => joinInts (decodeAll bs)
  | "pd.xy", [n, h] =>
    match parseNat? n, parseHex? h with
    | some n, some bs => some (joinInts (xDeltas bs n) ++ " | " ++ joinInts (yDeltas bs n))
    | _, _ => none
  | "pp.enc", xs => (parseNats? (xs.filter (· ≠ "-"))).map fun ps => optHex (encodePoints ps)
  | "pp.size", xs => (parseNats? (xs.filter (· ≠ "-"))).map fun ps => optNat (ptComputeSize ps)
  | "pp.dec", [h] =>
    (parseHex? h).map fun bs =>
      let c := (countAndCountBytes bs).1
      let rem := (splitRemainder bs).length
      match decodePoints bs with
      | none => s!"{c} {rem} all"
      | some l => s!"{c} {rem} {joinNats l}"
  | "td.priv", [h] =>
    (parseHex? h).map fun ser => showTriples (tupleDeltas ser (splitRemainder ser))
  | "td.shared", [n, h] =>
    match parseNat? n, parseHex? h with
    | some size, some data =>
      let rest := splitRemainder data
      some (if size > rest.length then "-" else showTriples (tupleDeltas data (rest.take size)))
    | _, _ => none
  | "rd.dense", [n, h] =>
    match parseNat? n, parseHex? h with
    | some n, some bs =>
      some (match readDense (n + 1) 0 n bs with
        | none => "err"
        | some (vs, rest) => s!"{joinInts vs} | {rest.length}")
    | _, _ => none
  | _, _ => none

/-- `a,b` pairs -/
def parsePt? (s : String) : Option (Int × Int) :=
  match s.splitOn "," with
  | [a, b] => match parseInt? a, parseInt? b with
    | some x, some y => some (x, y)
    | _, _ => none
  | _ => none

/-- split the argument list at the `|` separators -/
def splitBar (xs : List String) : List (List String) :=
  xs.foldr (fun x acc => if x = "|" then [] :: acc else
    match acc with
    | [] => [[x]]
    | a :: rest => (x :: a) :: rest) [[]]

def showFlags (l : List (Int × Int × Bool)) : String :=
  if l.isEmpty then "-" else
  " ".intercalate (l.map fun (x, y, r) => s!"{x},{y},{if r then 1 else 0}")

open FontVerif.Iup in
/-- `iup.opt <tn> <td> | <ends…> | <coords x,y …> | <deltas x,y …>` -/
def handleIup (cmd : String) (args : List String) : Option String :=
  match cmd, splitBar args with
  | "iup.opt", [[tn, td], ends, cs, ds] =>
    match parseInt? tn, parseInt? td, parseNats? (ends.filter (· ≠ "-")),
        (cs.filter (· ≠ "-")).mapM parsePt?, (ds.filter (· ≠ "-")).mapM parsePt? with
    | some tn, some td, some ends, some cs, some ds =>
      if td ≤ 0 then none else
      some (match deltaOptimize { n := tn, d := td } ds cs ends with
        | .ok l => showFlags l
        | .err e => "err:" ++ e)
    | _, _, _, _, _ => none
  | _, _ => none

def showPts (l : List (Int × Int)) : String :=
  if l.isEmpty then "-" else " ".intercalate (l.map fun (x, y) => s!"{x},{y}")

def parseBools? (xs : List String) : Option (List Bool) :=
  xs.mapM fun s => if s = "1" then some true else if s = "0" then some false else none

/-- reduce a fraction with positive denominator to lowest terms -/
def showFrac (f : Int × Int) : String :=
  let g := Int.gcd f.1 f.2
  if g = 0 then s!"{f.1}/{f.2}" else s!"{f.1 / g}/{f.2 / g}"

open FontVerif.Iup in
/-- `iup.read | <ends…> | <points x,y …> | <has 0/1 …> | <working points, Fixed bits x,y …>`
    `iup.infer | <coords x,y …> | <deltas x,y …> | <kept 0/1 …>`  (one contour) -/
def handleReader (cmd : String) (args : List String) : Option String :=
  match cmd, splitBar args with
  | "iup.read", [[], ends, pts, has, out] =>
    match parseNats? (ends.filter (· ≠ "-")), (pts.filter (· ≠ "-")).mapM parsePt?,
        parseBools? (has.filter (· ≠ "-")), (out.filter (· ≠ "-")).mapM parsePt? with
    | some ends, some pts, some has, some out =>
      if pts.length ≠ has.length ∨ pts.length ≠ out.length then none else
      some (match readerInterpolate pts has ends out with
        | none => "none"
        | some r => showPts r)
    | _, _, _, _ => none
  | "iup.infer", [[], cs, ds, keep] =>
    match (cs.filter (· ≠ "-")).mapM parsePt?, (ds.filter (· ≠ "-")).mapM parsePt?,
        parseBools? (keep.filter (· ≠ "-")) with
    | some cs, some ds, some keep =>
      if cs.length ≠ ds.length ∨ keep.length ≠ ds.length then none else
      some (if ds.isEmpty then "-" else " ".intercalate ((List.range ds.length).map fun k =>
        let i := inferSpec cs ds keep k
        s!"{showFrac i.1},{showFrac i.2}"))
    | _, _, _ => none
  | _, _ => none

open FontVerif.GvarLayout in
/-- `gv.write <blob hex …>`  →  `L|S | stored offsets | data hex`
    `gv.range <long 0/1> <data array offset> <table length> <gid> | <stored offsets …>` -/
def handleGvar (cmd : String) (args : List String) : Option String :=
  match cmd with
  | "gv.write" =>
    (args.mapM parseHex?).map fun blobs =>
      let long := useLong blobs
      let dao := dataArrayOffset long blobs.length
      s!"{if long then "L" else "S"} {dao} | {joinNats (storedOffsets long blobs)} | {toHex (writeData long dao blobs)}"
  | "gv.range" =>
    match splitBar args with
    | [[l, dao, tl, gid], offs] =>
      match parseNat? l, parseNat? dao, parseNat? tl, parseNat? gid, parseNats? (offs.filter (· ≠ "-")) with
      | some l, some dao, some tl, some gid, some offs =>
        if l > 1 then none else
        let long := l == 1
        some (match dataRange long dao offs gid with
          | none => "err"
          | some (s, e) => if s ≥ e then "none" else if e ≤ tl then s!"{s} {e}" else "err")
      | _, _, _, _, _ => none
    | _ => none
  | _ => none

def handle (cmd : String) (args : List String) : Option String :=
  match handlePacked cmd args with
  | some r => some r
  | none =>
    match handleIup cmd args with
    | some r => some r
    | none =>
      match handleReader cmd args with
      | some r => some r
      | none =>
        match handleGvar cmd args with
        | some r => some r
        | none =>
          match C10Data.handle cmd args with
          | some r => some r
          | none =>
            match C10Apply.handle cmd args with
            | some r => some r
            | none => C10F64.handle cmd args

end FontVerif.Drv.C10
