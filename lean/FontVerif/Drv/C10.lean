/- line-protocol handlers for the C10 models (Model/PackedDeltas.lean, Model/Iup.lean) -/
import FontVerif.Model.PackedDeltas
namespace FontVerif.Drv.C10
open FontVerif FontVerif.PackedDeltas

def optHex : Option (List Nat) → String
  | none => "trap"
  | some bs => toHex bs

def optNat : Option Nat → String
  | none => "trap"
  | some n => toString n

def showTriples (l : List (Nat × Int × Int)) : String :=
  if l.isEmpty then "-" else " ".intercalate (l.map fun (p, x, y) => s!"{p}:{x}:{y}")

def handlePacked (cmd : String) (args : List String) : Option String :=
  match cmd, args with
  | "pd.enc", xs => (parseInts? (xs.filter (· ≠ "-"))).map fun ds => toHex (encodeDeltas ds)
  | "pd.size", xs => (parseInts? (xs.filter (· ≠ "-"))).map fun ds => optNat (computeSize ds)
  | "pd.dec", [n, h] =>
    match parseNat? n, parseHex? h with
    | some n, some bs => some (joinInts (decodeDeltas bs n))
    | _, _ => none
  | "pd.decall", [h] => (parseHex? h).map fun bs => joinInts (decodeAll bs)
  | "pd.xy", [n, h] =>
    match parseNat? n, parseHex? h with
    | some n, some bs => some (joinInts (xDeltas bs n) ++ " | " ++ joinInts (yDeltas bs n))
    | _, _ => none
  | "pp.enc", xs => (parseNats? (xs.filter (· ≠ "-"))).map fun ps => optHex (encodePoints ps)
  | "pp.size", xs => (parseNats? (xs.filter (· ≠ "-"))).map fun ps => optNat (ptComputeSize ps)
  | "pp.dec", [h] =>
    (parseHex? h).map fun bs =>
      let c := (countAndCountBytes bs).1
      let rem := (splitRemainder bs).length
      match decodePoints bs with
      | none => s!"{c} {rem} all"
      | some l => s!"{c} {rem} {joinNats l}"
  | "td.priv", [h] =>
    (parseHex? h).map fun ser => showTriples (tupleDeltas ser (splitRemainder ser))
  | "td.shared", [n, h] =>
    match parseNat? n, parseHex? h with
    | some size, some data =>
      let rest := splitRemainder data
      some (if size > rest.length then "-" else showTriples (tupleDeltas data (rest.take size)))
    | _, _ => none
  | "rd.dense", [n, h] =>
    match parseNat? n, parseHex? h with
    | some n, some bs =>
      some (match readDense (n + 1) 0 n bs with
        | none => "err"
        | some (vs, rest) => s!"{joinInts vs} | {rest.length}")
    | _, _ => none
  | _, _ => none

def handle (cmd : String) (args : List String) : Option String :=
  handlePacked cmd args

end FontVerif.Drv.C10
