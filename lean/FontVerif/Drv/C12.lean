/- line-protocol handlers for the C12 models (Model/ToPath.lean, Model/Carve.lean, Model/DrawInst.lean) -/
import FontVerif.Model.Base
import FontVerif.Model.ToPath
import FontVerif.Model.Carve
import FontVerif.Model.DrawInst
import FontVerif.Model.ScratchModels
namespace FontVerif.Drv.C12
open FontVerif

def pairs : List Int → Option (List (Int × Int))
  | [] => some []
  | x :: y :: r => (pairs r).map ((x, y) :: ·)
  | _ => none

def style? : Int → Option ToPath.Style
  | 0 => some .freeType
  | 1 => some .harfBuzz
  | _ => none

def coord? : Int → Option ToPath.Coord
  | 0 => some ToPath.fixedCoord
  | 1 => some ToPath.exactCoord
  | _ => none

def bool? : Int → Option Bool
  | 0 => some false
  | 1 => some true
  | _ => none

def nats? (xs : List Int) : Option (List Nat) := xs.mapM fun v => if v < 0 then none else some v.toNat

def counts? (xs : List Int) : Option Carve.Counts :=
  match xs with
  | [a, b, c, d, e, f, g, h, i, j, k] =>
    if a < 0 ∨ b < 0 ∨ c < 0 ∨ d < 0 ∨ e < 0 ∨ f < 0 ∨ g < 0 ∨ h < 0 ∨ i < 0 then none else
    match bool? j, bool? k with
    | some hh, some hv => some ⟨a.toNat, b.toNat, c.toNat, d.toNat, e.toNat, f.toNat, g.toNat, h.toNat, i.toNat, hh, hv⟩
    | _, _ => none
  | _ => none

/-- `tp kind style np nf nc  x y …  f …  e …` -/
def handleToPath (xs : List Int) : Option String :=
  match xs with
  | kind :: st :: np :: nf :: nc :: rest =>
    if np < 0 ∨ nf < 0 ∨ nc < 0 then none else
    let np := np.toNat; let nf := nf.toNat; let nc := nc.toNat
    if rest.length ≠ 2 * np + nf + nc then none else
    match coord? kind, style? st, pairs (rest.take (2 * np)), nats? ((rest.drop (2 * np)).take nf),
          nats? (rest.drop (2 * np + nf)) with
    | some C, some style, some pts, some flags, some contours =>
      some (ToPath.render (ToPath.toPath C style pts flags contours))
    | _, _, _, _, _ => none
  | _ => none

/-- glyph tree for `counts`: prefix encoding
  `0 numPoints numContours instr` = simple, `1 n instr <n components>` = composite, `2` = empty component -/
partial def parseGlyph : List Int → Option (Option Carve.Glyph × List Int)
  | 2 :: r => some (none, r)
  | 0 :: np :: nc :: instr :: r =>
    if np < 0 ∨ nc < 0 then none else
    (bool? instr).map fun i => (some (.simple np.toNat nc.toNat i), r)
  | 1 :: n :: instr :: r =>
    if n < 0 then none else
    match bool? instr with
    | none => none
    | some i =>
      let rec comps (k : Nat) (r : List Int) (acc : List (Option Carve.Glyph)) :
          Option (List (Option Carve.Glyph) × List Int) :=
        match k with
        | 0 => some (acc.reverse, r)
        | k + 1 => match parseGlyph r with
          | none => none
          | some (g, r') => comps k r' (g :: acc)
      match comps n.toNat r [] with
      | none => none
      | some (cs, r') => some (some (.composite cs i), r')
  | _ => none

/-- `(code, arg)` pairs of the `hint_value_stack::run` hook → model operations -/
def vsOps : List Int → Option (List ScratchModels.VOp)
  | [] => some []
  | 0 :: v :: r => (vsOps r).map (.push v :: ·)
  | 1 :: _ :: r => (vsOps r).map (.pop :: ·)
  | 2 :: _ :: r => (vsOps r).map (.peek :: ·)
  | 3 :: _ :: r => (vsOps r).map (.dup :: ·)
  | 4 :: _ :: r => (vsOps r).map (.swap :: ·)
  | 5 :: _ :: r => (vsOps r).map (.clear :: ·)
  | 6 :: _ :: r => (vsOps r).map (.copyIndex :: ·)
  | 7 :: _ :: r => (vsOps r).map (.moveIndex :: ·)
  | 8 :: _ :: r => (vsOps r).map (.roll :: ·)
  | 9 :: _ :: r => (vsOps r).map (.len :: ·)
  | 10 :: _ :: r => (vsOps r).map (.values :: ·)
  | 11 :: n :: r =>
    if n < 0 ∨ r.length < 2 * n.toNat then none else
    match pairs (r.take (2 * n.toNat)) with
    | none => none
    | some ws => (vsOps (r.drop (2 * n.toNat))).map (.pushMany (ws.map (·.2)) :: ·)
  | _ => none
termination_by l => l.length
decreasing_by all_goals simp_wf; all_goals omega

def handle (cmd : String) (args : List String) : Option String :=
  match parseInts? args with
  | none => none
  | some xs =>
    match cmd, xs with
    | "tp", xs => handleToPath xs
    | "wf", xs =>
      -- grammar check on a command-kind string: 0 move 1 line 2 quad 3 cubic 4 close
      let cmds? := xs.mapM fun (k : Int) => match k with
        | 0 => some (ToPath.Cmd.move 0 0) | 1 => some (ToPath.Cmd.line 0 0)
        | 2 => some (ToPath.Cmd.quad 0 0 0 0) | 3 => some (ToPath.Cmd.cubic 0 0 0 0 0 0)
        | 4 => some ToPath.Cmd.close | _ => none
      cmds?.map fun cs => if ToPath.wellFormed cs then "1" else "0"
    | "carve.ft", emb :: base :: len :: cs =>
      if base < 0 ∨ len < 0 then none else
      match bool? emb, counts? cs with
      | some e, some c =>
        some (Carve.renderLayout base.toNat Carve.ftFieldOrder (Carve.ftCarve c e ⟨base.toNat, len.toNat⟩))
      | _, _ => none
    | "carve.hb", base :: len :: cs =>
      if base < 0 ∨ len < 0 then none else
      match counts? cs with
      | some c =>
        some (Carve.renderLayout base.toNat ((Carve.hbProgram c).map (·.name)) (Carve.hbCarve c ⟨base.toNat, len.toNat⟩))
      | none => none
    | "carve.size", emb :: cs =>
      match bool? emb, counts? cs with
      | some e, some c => some (toString (Carve.requiredBufferSize c e))
      | _, _ => none
    | "eff", cs => some (joinInts (DrawInst.effectiveCoords cs))
    | "vstack", cap :: ped :: prefill :: ops =>
      if cap < 0 then none else
      match bool? ped, vsOps ops with
      | some p, some ops =>
        some ("|".intercalate (((ScratchModels.VS.new (List.replicate cap.toNat prefill) p).run ops).map ScratchModels.renderObs))
      | _, _ => none
    | "rpf", n :: px :: py :: pf :: bytes =>
      if n < 0 ∨ pf < 0 then none else
      match nats? bytes with
      | none => none
      | some gd =>
        match ScratchModels.readPointsBuf gd n.toNat (List.replicate n.toNat (px, py)) (List.replicate n.toNat pf.toNat) with
        | none => some "err"
        | some (pts, fl) =>
          some ("ok" ++ String.join ((pts.zip fl).map fun t => s!" {t.1.1} {t.1.2} {t.2}"))
    | "counts", ms :: cvt :: st :: tw :: gv :: rest =>
      if ms < 0 ∨ cvt < 0 ∨ st < 0 ∨ tw < 0 then none else
      match bool? gv, parseGlyph rest with
      | some g, some (glyph, []) =>
        match Carve.outlineCounts (Carve.limitsOfMaxp ms.toNat tw.toNat st.toNat cvt.toNat g) glyph with
        | none => some "err:RecursionLimitExceeded"
        | some c => some (Carve.renderCounts c)
      | _, _ => none
    | _, _ => none

end FontVerif.Drv.C12
