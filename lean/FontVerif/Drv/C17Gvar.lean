/- line-protocol handlers for the C17 gvar subsetting model (Model/SubsetGvar.lean) and the pass-through
table models (Model/SubsetMeta.lean)

requests (space separated; `-` = empty; sections introduced by single capital letters):
  c17.gvar <flags> <nout> <tableLen> <srcGlyphs> H <hex 12 header bytes> T <hex | - | X> M <new old>… D <slot>…
      T: the source bytes [sharedTuplesOffset, +2*axisCount*sharedTupleCount) (`X` = out of bounds)
      D: one slot per M entry: `-` Ok(None), `E` Err, hex = Ok(Some(bytes)) of data_for_gid(old)
      -> `ok <hex of the emitted table>` | `trap` | `dropped` | `err` | `unmodelled`
  c17.gvarread <gid> <hex table>      read-fonts Gvar::read + data_for_gid(gid)
      -> `unreadable` | `err` | `none` | `some <hex>`
  c17.os2 <flags> <os2_info.min> <os2_info.max> U <plan.unicodes>… T <hex OS/2 table>   -> hex | `unmodelled`
  c17.name <flags> I <plan.name_ids>… L <plan.name_languages>… R <pid eid lang nid len off str>…
      str: hex of the record's string bytes, `-` empty, `X` out of bounds; `R -` = no records
      -> `ok <hex>` | `dropped` | `trap` | `unmodelled`
  c17.post <flags> <hex post table>     -> hex | `unmodelled` (GLYPH_NAMES with a version 2.0 table)
-/
import FontVerif.Model.SubsetGvar
import FontVerif.Model.SubsetMeta
namespace FontVerif.Drv.C17Gvar
open FontVerif FontVerif.SubsetGvar FontVerif.SubsetMeta

/-- split `args` into sections at the given marker tokens, in order -/
def sections (markers : List String) (args : List String) : Option (List (List String)) :=
  match markers with
  | [] => some [args]
  | m :: ms =>
    let pre := args.takeWhile (· ≠ m)
    match args.dropWhile (· ≠ m) with
    | [] => none
    | _ :: rest => (sections ms rest).map (pre :: ·)

def natList (ts : List String) : Option (List Nat) :=
  if ts = ["-"] then some [] else parseNats? ts

def pairList (ts : List String) : Option (List (Nat × Nat)) := do
  let ns ← natList ts
  let rec go : List Nat → Option (List (Nat × Nat))
    | [] => some []
    | [_] => none
    | a :: b :: rest => (go rest).map ((a, b) :: ·)
  go ns

def parseSlot (t : String) : Option Slot :=
  if t = "-" then some .none else if t = "E" then some .err else (parseHex? t).map .data

def fmtSlot : Slot → String
  | .none => "none"
  | .err => "err"
  | .data b => s!"some {toHex b}"

def parseNameRecs : List String → Option (List NameRec)
  | [] => some []
  | p :: e :: l :: n :: len :: off :: st :: rest => do
    let str ← if st = "X" then some none else (parseHex? st).map some
    let r : NameRec := { pid := ← parseNat? p, eid := ← parseNat? e, lang := ← parseNat? l, nid := ← parseNat? n,
                         len := ← parseNat? len, off := ← parseNat? off, str }
    (parseNameRecs rest).map (r :: ·)
  | _ => none

def handle (cmd : String) (args : List String) : Option String :=
  match cmd with
  | "c17.os2" => do
    let [hd, u, t] ← sections ["U", "T"] args | none
    let [flags, minCp, maxCp] ← parseNats? hd | none
    let [tt] := t | none
    match subsetOs2 flags minCp maxCp (← natList u) (← parseHex? tt) with
    | .error e => some e
    | .ok b => some (toHex b)
  | "c17.name" => do
    let [hd, i, l, r] ← sections ["I", "L", "R"] args | none
    let [flags] ← parseNats? hd | none
    let recs ← if r = ["-"] then some [] else parseNameRecs r
    match subsetName flags (← natList i) (← natList l) recs with
    | .error e => some e
    | .ok b => some s!"ok {toHex b}"
  | "c17.post" => do
    let [f, h] := args | none
    match subsetPostHeader (← parseNat? f) (← parseHex? h) with
    | none => some "unmodelled"
    | some b => some (toHex b)
  | "c17.gvar" => do
    let [hd, h, t, m, d] ← sections ["H", "T", "M", "D"] args | none
    let [flags, nout, tableLen, srcGlyphs] ← parseNats? hd | none
    let [hh] := h | none
    let [tt] := t | none
    let header ← parseHex? hh
    let sharedSlice ← if tt = "X" then some none else (parseHex? tt).map some
    let n2o ← pairList m
    let slots ← if n2o.isEmpty then (if d = ["-"] then some [] else none) else d.mapM parseSlot
    if slots.length ≠ n2o.length then none else
    match subsetGvar { flags, nout, tableLen, srcGlyphs, header, sharedSlice, n2o, slots } with
    | .error e => some e
    | .ok (_, out) => some s!"ok {toHex out}"
  | "c17.gvarread" => do
    let [g, h] := args | none
    let gid ← parseNat? g
    let t ← parseHex? h
    match readGvar t with
    | none => some "unreadable"
    | some r => some (fmtSlot (dataForGid t r gid))
  | _ => none

end FontVerif.Drv.C17Gvar
