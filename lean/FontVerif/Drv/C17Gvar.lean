/- line-protocol handlers for the C17 Gvar subsetting model -/
import FontVerif.Model.Base
namespace FontVerif.Drv.C17Gvar
open FontVerif

def handle (cmd : String) (args : List String) : Option String :=
  match cmd with
  | _ => none

end FontVerif.Drv.C17Gvar
