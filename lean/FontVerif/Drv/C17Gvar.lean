/- line-protocol handlers for the C17 gvar subsetting model (Model/SubsetGvar.lean) and the pass-through
table models (Model/SubsetMeta.lean)

requests (space separated; `-` = empty; sections introduced by single capital letters):
  c17.gvar <flags> <nout> <tableLen> <srcGlyphs> H <hex 12 header bytes> T <hex | - | X> M <new old>… D <slot>…
      T: the source bytes [sharedTuplesOffset, +2*axisCount*sharedTupleCount) (`X` = out of bounds)
      D: one slot per M entry: `-` Ok(None), `E` Err, hex = Ok(Some(bytes)) of data_for_gid(old)
      -> `ok <hex of the emitted table>` | `trap` | `dropped` | `err` | `unmodelled`
  c17.gvarread <gid> <hex table>      read-fonts Gvar::read + data_for_gid(gid)
      -> `unreadable` | `err` | `none` | `some <hex>`
-/
import FontVerif.Model.SubsetGvar
namespace FontVerif.Drv.C17Gvar
open FontVerif FontVerif.SubsetGvar

/-- split `args` into sections at the given marker tokens, in order -/
def sections (markers : List String) (args : List String) : Option (List (List String)) :=
  match markers with
  | [] => some [args]
  | m :: ms =>
    let pre := args.takeWhile (· ≠ m)
    match args.dropWhile (· ≠ m) with
    | [] => none
    | _ :: rest => (sections ms rest).map (pre :: ·)

def natList (ts : List String) : Option (List Nat) :=
  if ts = ["-"] then some [] else parseNats? ts

def pairList (ts : List String) : Option (List (Nat × Nat)) := do
  let ns ← natList ts
  let rec go : List Nat → Option (List (Nat × Nat))
    | [] => some []
    | [_] => none
    | a :: b :: rest => (go rest).map ((a, b) :: ·)
  go ns

def parseSlot (t : String) : Option Slot :=
  if t = "-" then some .none else if t = "E" then some .err else (parseHex? t).map .data

def fmtSlot : Slot → String
  | .none => "none"
  | .err => "err"
  | .data b => s!"some {toHex b}"

def handle (cmd : String) (args : List String) : Option String :=
  match cmd with
  | "c17.gvar" => do
    let [hd, h, t, m, d] ← sections ["H", "T", "M", "D"] args | none
    let [flags, nout, tableLen, srcGlyphs] ← parseNats? hd | none
    let [hh] := h | none
    let [tt] := t | none
    let header ← parseHex? hh
    let sharedSlice ← if tt = "X" then some none else (parseHex? tt).map some
    let n2o ← pairList m
    let slots ← if n2o.isEmpty then (if d = ["-"] then some [] else none) else d.mapM parseSlot
    if slots.length ≠ n2o.length then none else
    match subsetGvar { flags, nout, tableLen, srcGlyphs, header, sharedSlice, n2o, slots } with
    | .error e => some e
    | .ok (_, out) => some s!"ok {toHex out}"
  | "c17.gvarread" => do
    let [g, h] := args | none
    let gid ← parseNat? g
    let t ← parseHex? h
    match readGvar t with
    | none => some "unreadable"
    | some r => some (fmtSlot (dataForGid t r gid))
  | _ => none

end FontVerif.Drv.C17Gvar
