/- line-protocol handlers for Model/HandAat.lean.  All commands are prefixed `ha.`. -/
import FontVerif.Model.HandAat
namespace FontVerif.Drv.C01HandAat
open FontVerif FontVerif.ReadIter FontVerif.HandRead FontVerif.HandAat

def handle (cmd : String) (args : List String) : Option String :=
  match cmd, args with
  | _, _ => none

end FontVerif.Drv.C01HandAat
