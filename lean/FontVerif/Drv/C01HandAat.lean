/- line-protocol handlers for Model/HandAat.lean.  All commands are prefixed `ha.`. -/
import FontVerif.Model.HandAat
import FontVerif.Drv.C01Iter
namespace FontVerif.Drv.C01HandAat
open FontVerif FontVerif.HandRead FontVerif.HandAat
open FontVerif.ReadIter (Out run items trapped)

def errStr : AErr → String
  | .oob => "eO"
  | .null => "eN"
  | .malformed => "eM"
  | .badFormat n => s!"eF{n}"

def rStr {α : Type} (f : α → String) : R α → String
  | .ok a => f a
  | .err e => errStr e
  | .trap => "trap"

def joinStrs (xs : List String) : String := if xs.isEmpty then "-" else " ".intercalate xs

/-- split a list at every "|" -/
def splitBars (xs : List String) : List (List String) :=
  let r := xs.foldl (fun (acc : List (List String) × List String) x =>
    if x = "|" then (acc.2.reverse :: acc.1, []) else (acc.1, x :: acc.2)) ([], [])
  (r.2.reverse :: r.1).reverse

def natsOrEmpty (xs : List String) : Option (List Nat) := if xs = ["-"] then some [] else parseNats? xs

def hexesOrEmpty (xs : List String) : Option (List (List Nat)) :=
  if xs = ["-"] then some [] else xs.mapM (fun s => if s = "." then some [] else parseHex? s)

def handle (cmd : String) (args : List String) : Option String :=
  match cmd, args with
  | "ha.lk", size :: hex :: "|" :: gs =>
    match size.toNat?, parseHex? hex, natsOrEmpty gs with
    | some size, some d, some gs =>
      if size ≠ 2 ∧ size ≠ 4 then none else
      some (joinStrs (gs.map (fun g => rStr toString (lookupValue d size g))))
    | _, _, _ => none
  | "ha.st", hex :: "|" :: rest =>
    match parseHex? hex, (splitBars rest).mapM natsOrEmpty with
    | some d, some [gs, states, classes] =>
      if !stRead d then some "err" else
      let cs := gs.map (fun g => rStr toString (stClass d g))
      let es := states.flatMap (fun s => classes.map (fun c =>
        rStr (fun (p : Nat × Nat) => s!"{p.1}:{p.2}") (stEntry d s c)))
      some s!"{joinStrs cs} | {joinStrs es}"
    | _, _ => none
  | "ha.stx", psize :: hex :: "|" :: rest =>
    match psize.toNat?, parseHex? hex, (splitBars rest).mapM natsOrEmpty with
    | some psize, some d, some [gs, states, classes] =>
      if !stxRead d then some "err" else
      let cs := gs.map (fun g => rStr toString (stxClass d g))
      let es := states.flatMap (fun s => classes.map (fun c =>
        rStr (fun (p : Nat × Nat × Nat) => s!"{p.1}:{p.2.1}:{p.2.2}") (stxEntry d psize s c)))
      some s!"{joinStrs cs} | {joinStrs es}"
    | _, _, _ => none
  | "ha.sentry", [psize, hex] =>
    match psize.toNat?, parseHex? hex with
    | some psize, some d =>
      some (match stateEntryRead d psize with
        | .ok (a, b, c) => s!"{a}:{b}:{c}"
        | .error e => errStr e)
    | _, _ => none
  | "ha.ankr", hex :: "|" :: gs =>
    match parseHex? hex, natsOrEmpty gs with
    | some d, some gs =>
      if !ankrRead d then some "err" else
      some (joinStrs (gs.map (fun g => rStr (fun (p : Nat × Nat) => if p.2 = 0 then "_:0" else s!"{p.1}:{p.2}") (ankrPoints d g))))
    | _, _ => none
  | "ha.feat", hex :: "|" :: fs =>
    match parseHex? hex, natsOrEmpty fs with
    | some d, some fs =>
      match featRead d with
      | none => some "err"
      | some n =>
        some (joinStrs (fs.map (fun f => match featFind d n f with
          | none => "n"
          | some ix =>
            let p0 := 12 + ix * 12
            let flags := beAt d (p0 + 8) 2
            s!"{beAt d (p0 + 2) 2}.{beAt d (p0 + 4) 4}.{flags}.{beAt d (p0 + 10) 2}:{if featExclusive flags then 1 else 0}:{featDefaultIndex flags}")))
    | _, _ => none
  | "ha.ltag", hex :: "|" :: tags =>
    match parseHex? hex, hexesOrEmpty tags with
    | some d, some tags =>
      match ltagRead d with
      | none => some "err"
      | some n =>
        match ltagTags d n with
        | .trap => some "trap"
        | .err e => some (errStr e)
        | .ok xs =>
          let h := Drv.C01Iter.fnv (xs.flatMap (fun t => [t.1, t.2.1, t.2.2]))
          let ixs := tags.map (fun t => rStr (fun (o : Option Nat) => match o with | some i => toString i | none => "n")
            (ltagIndexFor d n t))
          some s!"{xs.length} {h} | {joinStrs ixs}"
    | _, _ => none
  | "ha.cid", [a, b, c, e] =>
    match a.toNat?, b.toNat?, c.toNat?, e.toNat? with
    | some a, some b, some c, some e =>
      some (match compatFromU32s [a, b, c, e] with | some bs => toHex bs | none => "trap")
    | _, _, _, _ => none
  | "ha.u8or16", [mei, hex] =>
    match mei.toNat?, parseHex? hex with
    | some mei, some d =>
      some s!"{u8or16Size mei} {match u8or16Read d mei with | some v => toString v | none => "eO"}"
    | _, _ => none
  | "ha.fm", mei :: hex :: "|" :: args =>
    match mei.toNat?, parseHex? hex, natsOrEmpty args with
    | some mei, some d, some args =>
      match featureMapRead d mei with
      | .error e => some (errStr e)
      | .ok (n, _) => some s!"{n} | {joinStrs (args.map (fun a => rStr toString (entryRecordsSize d mei a)))}"
    | _, _, _ => none
  | "ha.f1", hex :: "|" :: ixs =>
    match parseHex? hex, natsOrEmpty ixs with
    | some d, some ixs =>
      match f1Read d with
      | none => some "err"
      | some h =>
        let ec := match f1EntryCount h with | some v => toString v | none => "trap"
        let gm := match f1GlyphMap d h with
          | .ok g => s!"{g.first}:{g.data.length}"
          | .error e => errStr e
        let it := match gidTrace d h with
          | none => "fuel"
          | some evs =>
            if trapped evs then "trap" else
            let xs := items evs
            let last := match xs.getLast? with | some p => s!"{p.1}:{p.2}" | none => "-"
            s!"{xs.length} {Drv.C01Iter.fnv (xs.flatMap (fun (p : Nat × Nat) => [p.1, p.2]))} {last}"
        let bits := String.ofList (ixs.map (fun i => if f1IsEntryApplied d h i then '1' else '0'))
        let fm := match f1FeatureMap d h with
          | none => "none"
          | some (.error e) => errStr e
          | some (.ok sub) =>
            ",".intercalate ([h.maxEntry, 0, 255, 256, 65535].map (fun a => rStr toString (entryRecordsSize sub h.maxEntry a)))
        some s!"{ec} {if f1UriOk d h then 1 else 0} | {gm} | {it} | {if bits.isEmpty then "-" else bits} | {fm}"
    | _, _ => none
  | "ha.gp", wide :: hex :: "|" :: tis =>
    match wide.toNat?, parseHex? hex, natsOrEmpty tis with
    | some wide, some d, some tis =>
      if wide > 1 then none else
      match gpRead d (wide = 1) with
      | none => some "err"
      | some h =>
        some (joinStrs (tis.map (fun ti =>
          match gdTrace d h ti with
          | none => "fuel"
          | some evs =>
            if trapped evs then "trap" else
            let xs := items evs
            let enc := fun (x : Except AErr (Nat × Nat × Nat)) => match x with
              | .ok (g, st, ln) => [1, g, st, ln]
              | .error .oob => [2, 1]
              | .error .null => [2, 2]
              | .error .malformed => [2, 3]
              | .error (.badFormat n) => [2, 4, n]
            let last := match xs.getLast? with
              | some (.ok (g, st, ln)) => s!"{g}.{st}.{ln}"
              | some (.error e) => errStr e
              | none => "-"
            s!"{xs.length}:{Drv.C01Iter.fnv (xs.flatMap enc)}:{last}")))
    | _, _, _ => none
  | _, _ => none

end FontVerif.Drv.C01HandAat
