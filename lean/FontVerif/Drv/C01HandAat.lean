/- line-protocol handlers for Model/HandAat.lean.  All commands are prefixed `ha.`. -/
import FontVerif.Model.HandAat
import FontVerif.Drv.C01Iter
namespace FontVerif.Drv.C01HandAat
open FontVerif FontVerif.HandRead FontVerif.HandAat

def errStr : AErr → String
  | .oob => "eO"
  | .null => "eN"
  | .malformed => "eM"
  | .badFormat n => s!"eF{n}"

def rStr {α : Type} (f : α → String) : R α → String
  | .ok a => f a
  | .err e => errStr e
  | .trap => "trap"

def joinStrs (xs : List String) : String := if xs.isEmpty then "-" else " ".intercalate xs

/-- split a list at every "|" -/
def splitBars (xs : List String) : List (List String) :=
  let r := xs.foldl (fun (acc : List (List String) × List String) x =>
    if x = "|" then (acc.2.reverse :: acc.1, []) else (acc.1, x :: acc.2)) ([], [])
  (r.2.reverse :: r.1).reverse

def natsOrEmpty (xs : List String) : Option (List Nat) := if xs = ["-"] then some [] else parseNats? xs

def hexesOrEmpty (xs : List String) : Option (List (List Nat)) :=
  if xs = ["-"] then some [] else xs.mapM (fun s => if s = "." then some [] else parseHex? s)

def handle (cmd : String) (args : List String) : Option String :=
  match cmd, args with
  | "ha.lk", size :: hex :: "|" :: gs =>
    match size.toNat?, parseHex? hex, natsOrEmpty gs with
    | some size, some d, some gs =>
      if size ≠ 2 ∧ size ≠ 4 then none else
      some (joinStrs (gs.map (fun g => rStr toString (lookupValue d size g))))
    | _, _, _ => none
  | "ha.st", hex :: "|" :: rest =>
    match parseHex? hex, (splitBars rest).mapM natsOrEmpty with
    | some d, some [gs, states, classes] =>
      if !stRead d then some "err" else
      let cs := gs.map (fun g => rStr toString (stClass d g))
      let es := states.flatMap (fun s => classes.map (fun c =>
        rStr (fun (p : Nat × Nat) => s!"{p.1}:{p.2}") (stEntry d s c)))
      some s!"{joinStrs cs} | {joinStrs es}"
    | _, _ => none
  | "ha.stx", psize :: hex :: "|" :: rest =>
    match psize.toNat?, parseHex? hex, (splitBars rest).mapM natsOrEmpty with
    | some psize, some d, some [gs, states, classes] =>
      if !stxRead d then some "err" else
      let cs := gs.map (fun g => rStr toString (stxClass d g))
      let es := states.flatMap (fun s => classes.map (fun c =>
        rStr (fun (p : Nat × Nat × Nat) => s!"{p.1}:{p.2.1}:{p.2.2}") (stxEntry d psize s c)))
      some s!"{joinStrs cs} | {joinStrs es}"
    | _, _, _ => none
  | "ha.sentry", [psize, hex] =>
    match psize.toNat?, parseHex? hex with
    | some psize, some d =>
      some (match stateEntryRead d psize with
        | .ok (a, b, c) => s!"{a}:{b}:{c}"
        | .error e => errStr e)
    | _, _ => none
  | "ha.ankr", hex :: "|" :: gs =>
    match parseHex? hex, natsOrEmpty gs with
    | some d, some gs =>
      if !ankrRead d then some "err" else
      some (joinStrs (gs.map (fun g => rStr (fun (p : Nat × Nat) => if p.2 = 0 then "_:0" else s!"{p.1}:{p.2}") (ankrPoints d g))))
    | _, _ => none
  | "ha.feat", hex :: "|" :: fs =>
    match parseHex? hex, natsOrEmpty fs with
    | some d, some fs =>
      match featRead d with
      | none => some "err"
      | some n =>
        some (joinStrs (fs.map (fun f => match featFind d n f with
          | none => "n"
          | some ix =>
            let p0 := 12 + ix * 12
            let flags := beAt d (p0 + 8) 2
            s!"{beAt d (p0 + 2) 2}.{beAt d (p0 + 4) 4}.{flags}.{beAt d (p0 + 10) 2}:{if featExclusive flags then 1 else 0}:{featDefaultIndex flags}")))
    | _, _ => none
  | "ha.ltag", hex :: "|" :: tags =>
    match parseHex? hex, hexesOrEmpty tags with
    | some d, some tags =>
      match ltagRead d with
      | none => some "err"
      | some n =>
        match ltagTags d n with
        | .trap => some "trap"
        | .err e => some (errStr e)
        | .ok xs =>
          let h := Drv.C01Iter.fnv (xs.flatMap (fun t => [t.1, t.2.1, t.2.2]))
          let ixs := tags.map (fun t => rStr (fun (o : Option Nat) => match o with | some i => toString i | none => "n")
            (ltagIndexFor d n t))
          some s!"{xs.length} {h} | {joinStrs ixs}"
    | _, _ => none
  | _, _ => none

end FontVerif.Drv.C01HandAat
