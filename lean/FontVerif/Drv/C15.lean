/- line-protocol handlers for the C15 models (Model/Fixed.lean) -/
import FontVerif.Model.Fixed
namespace FontVerif.Drv.C15
open FontVerif FontVerif.Fixed

def optInt : Option Int → String
  | none => "trap"
  | some v => toString v

def handle (cmd : String) (args : List String) : Option String :=
  match parseInts? args with
  | none => none
  | some xs =>
    match cmd, xs with
    | "fx.mul", [a, b] => some (toString (mul a b))
    | "fx.div", [a, b] => some (toString (div a b))
    | "fx.muldiv", [s, a, b] => some (toString (mulDiv s a b))
    | "fx.round", [f, a] => some (toString (roundBits f.toNat a))
    | "fx.floor", [f, a] => some (toString (floorBits f.toNat a))
    | "fx.fract", [f, a] => some (toString (fractBits f.toNat a))
    | "fx.parts", [f, a] => let p := toFloatParts f.toNat a; some s!"{p.1} {p.2}"
    | "fx.fromi32", [a] => some (toString (fromI32 a))
    | "fx.toi32", [a] => some (toString (toI32 a))
    | "fx.tof26", [a] => some (toString (toF26Dot6 a))
    | "fx.tof2", [a] => some (toString (toF2Dot14 a))
    | "fx.f2tofixed", [a] => some (toString (f2dot14ToFixed a))
    | "f26.fromi32", [a] => some (toString (f26FromI32 a))
    | "f26.toi32", [a] => some (toString (f26ToI32 a))
    | "fx.neg", [a] => some (optInt (neg a))
    | "fx.abs", [a] => some (optInt (Fixed.abs a))
    | "i24.new", [a] => some (toString (int24New a))
    | "u24.new", [a] => some (toString (uint24New a))
    | "i24.frombe", [a, b, c] => some (toString (int24FromBe a b c))
    | "i24.tobe", [a] => some (joinInts (int24ToBe a))
    | "u24.frombe", [a, b, c] => some (toString (uint24FromBe a b c))
    | "u24.tobe", [a] => some (joinInts (uint24ToBe a))
    | "be.u", [n, v] => some (joinInts (toBeU n.toNat v))
    | "be.s", [n, v] => some (joinInts (toBeS n.toNat v))
    | "be.fromu", bs => some (toString (fromBeU bs))
    | "be.froms", n :: bs => some (toString (fromBeS n.toNat bs))
    | _, _ => none

end FontVerif.Drv.C15
