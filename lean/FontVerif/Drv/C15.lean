/- line-protocol handlers for the C15 models (Model/Fixed.lean) -/
import FontVerif.Model.Fixed
import FontVerif.Model.Ieee
import FontVerif.Model.FixedConv
import FontVerif.Model.Scalars
namespace FontVerif.Drv.C15
open FontVerif FontVerif.Fixed FontVerif.Ieee FontVerif.Scalars

def optInt : Option Int → String
  | none => "trap"
  | some v => toString v

/-- type code of the line protocol → fixed-point type (`<int bits><fract bits>`). -/
def fxTy? : Int → Option FixedConv.FxTy
  | 214 => some FixedConv.F2Dot14
  | 412 => some FixedConv.F4Dot12
  | 610 => some FixedConv.F6Dot10
  | 1616 => some FixedConv.Fixed
  | 266 => some FixedConv.F26Dot6
  | _ => none

def fmt? : Int → Option Fmt
  | 32 => some f32
  | 64 => some f64
  | _ => none

def kind? : Int → Nat → Option Kind
  | 0, n => some (.u n)
  | 1, n => some (.s n)
  | 2, 3 => some .i24
  | 3, 3 => some .u24
  | 4, 4 => some .tag
  | 5, 4 => some .mm
  | _, _ => none

def optI : Option Int → String
  | none => "none"
  | some v => toString v

def b01 (b : Bool) : String := if b then "1" else "0"

/-- float conversions, `OtRound`, ordering and the remaining scalar types. -/
def handle2 (cmd : String) (xs : List Int) : Option String :=
  match cmd, xs with
  | "fl.dec", [f, bits] => (fmt? f).map fun f => (decode f bits.toNat).show
  | "fl.le", [f, bx, by'] => (fmt? f).map fun f => b01 (le (decode f bx.toNat) (decode f by'.toNat))
  | "fl.from", [t, bits] => (fxTy? t).map fun t => toString (FixedConv.fromFloat t (decode t.fmt bits.toNat))
  | "fl.to", [t, raw] => (fxTy? t).map fun t => (FixedConv.toFloat t raw).show
  | "fl.tof32", [k, raw] => some (FixedConv.toF32Lossy k.toNat raw).show
  | "otr.i16", [f, bits] => (fmt? f).map fun f =>
      toString (FixedConv.otRoundInt f (-32768) 32767 (decode f bits.toNat))
  | "otr.u16", [f, bits] => (fmt? f).map fun f =>
      toString (FixedConv.otRoundInt f 0 65535 (decode f bits.toNat))
  | "otr.f", [f, bits] => (fmt? f).map fun f => (FixedConv.otRoundF f (decode f bits.toNat)).show
  | "otr.point", [bx, by'] =>
      let r := FixedConv.otRoundPoint (decode f64 bx.toNat) (decode f64 by'.toNat)
      some s!"{r.1} {r.2}"
  | "otr.vec2", [bx, by'] =>
      let r := FixedConv.otRoundVec2 (decode f64 bx.toNat) (decode f64 by'.toNat)
      some s!"{r.1.show} {r.2.show}"
  | "ord.be", kc :: n :: rest =>
      match kind? kc n.toNat with
      | none => none
      | some k =>
        if rest.length ≠ 2 * n.toNat then none else
        let a := rest.take n.toNat
        let b := rest.drop n.toNat
        some s!"{showOrd (beCmp k a b)} {match bePartialCmp k a b with | some o => showOrd o | none => "none"} {b01 (beEq a b)} {b01 (beEqValue k a (key k b))}"
  | "ord.nat", [a, b] => some (showOrd (cmpInt a b))
  | "ord.lex", n :: rest =>
      if rest.length ≠ 2 * n.toNat then none else
      some (showOrd (lexCmp (rest.take n.toNat) (rest.drop n.toNat)))
  | "ord.gidx", [a, b] => some (match gidCrossCmp a b with | some o => showOrd o | none => "none")
  | "i24.checked", [a] => some (optI (int24Checked a))
  | "u24.checked", [a] => some (optI (uint24Checked a))
  | "u24.tryfrom", [a] => some (optI (uint24TryFromUsize a))
  | "ver.new", [ma, mi] => some (optInt (versionNew ma mi))
  | "ver.mm", [v] => let p := versionToMajorMinor v; some s!"{p.1} {p.2}"
  | "ver.compat", [a, b] => some (b01 (versionCompatible a b))
  | "ver.compat2", [a, ma, mi] =>
      some (match versionCompatiblePair a ma mi with | none => "trap" | some b => b01 b)
  | "mm.compat", [a, b, c, d] => some (b01 (mmCompatible a b c d))
  | "u16.compat", [a, b] => some (b01 (u16Compatible a b))
  | "mm.tobe", [a, b] => some (joinInts (mmToBe a b))
  | "mm.fromraw", [a, b, c, d] => let p := mmFromRaw a b c d; some s!"{p.1} {p.2}"
  | "fw.tofixed", [v] => some (toString (fwordToFixed v))
  | "off.null", [v] => some (b01 (offsetIsNull v))
  | "gid.try", [v] => some (match gid16TryFrom v with | .ok g => s!"ok {g}" | .error e => s!"err {e}")
  | "tag.checked", src =>
      some (match tagNewChecked src with | .ok l => "ok " ++ joinInts l | .error e => showTagErr e)
  | "tag.validate", [a, b, c, d] =>
      some (match tagValidate [a, b, c, d] with | .ok _ => "ok" | .error e => showTagErr e)
  | "tag.fromu32", [v] => some (joinInts (tagFromU32 v))
  | "nid.reserved", [v] => some (b01 (nameIdIsReserved v))
  | "nid.add", [a, b] => some (optI (nameIdCheckedAdd a b))
  | _, _ => none

def handle (cmd : String) (args : List String) : Option String :=
  match parseInts? args with
  | none => none
  | some xs =>
    match handle2 cmd xs with
    | some r => some r
    | none =>
    match cmd, xs with
    | "fx.mul", [a, b] => some (toString (mul a b))
    | "fx.div", [a, b] => some (toString (div a b))
    | "fx.muldiv", [s, a, b] => some (toString (mulDiv s a b))
    | "fx.round", [f, a] => some (toString (roundBits f.toNat a))
    | "fx.floor", [f, a] => some (toString (floorBits f.toNat a))
    | "fx.fract", [f, a] => some (toString (fractBits f.toNat a))
    | "fx.parts", [f, a] => let p := toFloatParts f.toNat a; some s!"{p.1} {p.2}"
    | "fx.fromi32", [a] => some (toString (fromI32 a))
    | "fx.toi32", [a] => some (toString (toI32 a))
    | "fx.tof26", [a] => some (toString (toF26Dot6 a))
    | "fx.tof2", [a] => some (toString (toF2Dot14 a))
    | "fx.f2tofixed", [a] => some (toString (f2dot14ToFixed a))
    | "f26.fromi32", [a] => some (toString (f26FromI32 a))
    | "f26.toi32", [a] => some (toString (f26ToI32 a))
    | "fx.neg", [a] => some (optInt (neg a))
    | "fx.abs", [a] => some (optInt (Fixed.abs a))
    | "i24.new", [a] => some (toString (int24New a))
    | "u24.new", [a] => some (toString (uint24New a))
    | "i24.frombe", [a, b, c] => some (toString (int24FromBe a b c))
    | "i24.tobe", [a] => some (joinInts (int24ToBe a))
    | "u24.frombe", [a, b, c] => some (toString (uint24FromBe a b c))
    | "u24.tobe", [a] => some (joinInts (uint24ToBe a))
    | "be.u", [n, v] => some (joinInts (toBeU n.toNat v))
    | "be.s", [n, v] => some (joinInts (toBeS n.toNat v))
    | "be.fromu", bs => some (toString (fromBeU bs))
    | "be.froms", n :: bs => some (toString (fromBeS n.toNat bs))
    | _, _ => none

end FontVerif.Drv.C15
