/- line-protocol handlers for Model/HandColr.lean.  All commands are prefixed `hc.`. -/
import FontVerif.Model.HandColr
import FontVerif.Drv.C01Iter
namespace FontVerif.Drv.C01HandColr
open FontVerif FontVerif.ReadIter FontVerif.HandRead FontVerif.HandColr

def errStr : CErr → String
  | .nullOffset => "eNull"
  | .oob => "eO"
  | .invalidFormat f => s!"eF{f}"
  | .badIndex i => s!"eI{i}"

def resStr {α : Type} (f : α → String) : Res α → String
  | .ok a => f a
  | .err e => errStr e
  | .trap => "trap"

def optStr {α : Type} (f : α → String) : Option α → String
  | none => "N"
  | some a => f a

def rangeStr (p : Nat × Nat) : String := s!"{p.1}-{p.2}"
def atStr (p : Nat × Nat) : String := s!"f{p.1}@{p.2}"

def joinStrs (xs : List String) : String := if xs.isEmpty then "-" else " ".intercalate xs

/-- split a list at the first "|" -/
def splitBar (xs : List String) : List String × List String :=
  (xs.takeWhile (· ≠ "|"), (xs.dropWhile (· ≠ "|")).drop 1)

def natsOrEmpty (xs : List String) : Option (List Nat) := if xs = ["-"] then some [] else parseNats? xs

/-- drop adjacent duplicates of a sorted list -/
def dedupSorted : List Nat → List Nat
  | a :: b :: r => if a = b then dedupSorted (b :: r) else a :: dedupSorted (b :: r)
  | l => l

/-- an `IntSet` as the harness renders it: `<len> <fnv of the members in increasing order>` -/
def setStr (xs : List Nat) : String :=
  let s := dedupSorted (xs.mergeSort (· ≤ ·))
  s!"{s.length} {Drv.C01Iter.fnv s}"

def expand (rs : List (Nat × Nat)) : List Nat :=
  rs.flatMap (fun r => List.range' r.1 (r.2 + 1 - r.1))

def handle (cmd : String) (args : List String) : Option String :=
  match cmd, args with
  | "hc.colr", hex :: rest =>
    -- `<gids> | <layer indices>`: per gid `v0_base_glyph,v1_base_glyph,v1_clip_box`, per index `v0_layer,v1_layer`
    let (gidsS, idxS) := splitBar rest
    match parseHex? hex, natsOrEmpty gidsS, natsOrEmpty idxS with
    | some d, some gids, some idxs =>
      match colrRead d with
      | none => some "rerr"
      | some t =>
        let a := gids.map (fun g =>
          s!"{resStr (optStr rangeStr) (v0BaseGlyph t g)},{resStr (optStr atStr) (v1BaseGlyph t g)},{resStr (optStr atStr) (v1ClipBox t g)}")
        let b := idxs.map (fun i =>
          s!"{resStr (fun (l : Layer) => s!"{l.gid}:{l.pal}") (v0Layer t i)},{resStr atStr (v1Layer t i)}")
        some (joinStrs a ++ " | " ++ joinStrs b)
    | _, _, _ => none
  | "hc.clos", hex :: gids =>
    -- `v0_closure_glyphs | v0_closure_palette_indices | v1_closure: glyphs | layers | palettes | variations`
    match parseHex? hex, natsOrEmpty gids with
    | some d, some gids =>
      match colrRead d with
      | none => some "rerr"
      | some t =>
        let v0 := match v0ClosureGlyphs t gids, v0ClosurePalettes t gids with
          | some g, some p => s!"{setStr g} | {setStr p}"
          | _, _ => "trap"
        let r := v1ClosureOf t gids
        let c := r.1
        let v1 := if c.starved then "fuel"
          else if c.trap then "trap"
          else s!"{setStr r.2} | {setStr (expand c.layers)} | {setStr c.palettes} | {setStr (expand c.vars)}"
        some s!"{v0} | {v1}"
    | _, _ => none
  | "hc.svg", hex :: gids =>
    match parseHex? hex, natsOrEmpty gids with
    | some d, some gids =>
      some (joinStrs (gids.map (fun g =>
        match svgGlyphData d g with
        | none => "rerr"
        | some r => resStr (optStr rangeStr) r)))
    | _, _ => none
  | "hc.hdmx", ng :: hex :: sizes =>
    match ng.toNat?, parseHex? hex, natsOrEmpty sizes with
    | some ng, some d, some sizes =>
      match hdmxRead d ng with
      | none => some "rerr"
      | some a =>
        some (s!"{a.len} " ++ joinStrs (sizes.map (fun s =>
          match hdmxRecordForSize a s with
          | none => "fuel"
          | some (r, _) => resStr (optStr toString) r)))
    | _, _, _ => none
  | "hc.vorg", hex :: gids =>
    match parseHex? hex, natsOrEmpty gids with
    | some d, some gids =>
      match vorgRead d with
      | none => some "rerr"
      | some (recs, dflt) => some (joinStrs (gids.map (fun g => toString (vorgY recs dflt g))))
    | _, _ => none
  | "hc.meta", [hex] =>
    match parseHex? hex with
    | none => none
    | some d =>
      match metaRead d with
      | none => some "rerr"
      | some recs =>
        some (joinStrs (recs.map (fun r =>
          match metaData d.length r.2.1 r.2.2 (isLangTag r.1) with
          | .ok (a, b, l) => s!"{a}-{b}{if l then "L" else "O"}"
          | .error e => errStr e)))
  | "hc.cksum", [hex] =>
    match parseHex? hex with
    | none => none
    | some d => some (toString (computeChecksum d).1)
  | "hc.arr", count :: hex :: idxs =>
    -- `AxisValueArray::read(data, count).axis_values()`: `ArrayOfOffsets<AxisValue, Offset16>`
    match count.toNat?, parseHex? hex, natsOrEmpty idxs with
    | some n, some d, some idxs =>
      if n * 2 ≤ d.length then
        let offs := records (fun p => be d p 2) 0 n 2
        let read := fun (p : Nat) =>
          match readAt d p 2 with
          | none => Except.error CErr.oob
          | some fmt =>
            if fmt = 1 then (if p + 12 ≤ d.length then .ok fmt else .error .oob)
            else if fmt = 2 then (if p + 20 ≤ d.length then .ok fmt else .error .oob)
            else if fmt = 3 then (if p + 16 ≤ d.length then .ok fmt else .error .oob)
            else if fmt = 4 then
              (match readAt d (p + 2) 2 with
               | none => .error .oob
               | some k => if p + 8 + k * 6 ≤ d.length then .ok fmt else .error .oob)
            else .error (.invalidFormat fmt)
        let show_ := fun (r : Except CErr Nat) => match r with | .ok f => s!"f{f}" | .error e => errStr e
        let its := arrIter offs d.length read
        some (s!"{its.length} " ++ joinStrs (its.map show_) ++ " | " ++ joinStrs (idxs.map (fun i => show_ (arrGet offs d.length read i))))
      else some "rerr"
    | _, _, _ => none
  | "hc.arrn", hex :: idxs =>
    -- `SequenceContextFormat1::read(data).seq_rule_sets()`: `ArrayOfNullableOffsets<SequenceRuleSet, Offset16>`
    match parseHex? hex, natsOrEmpty idxs with
    | some d, some idxs =>
      match readAt d 4 2 with
      | none => some "rerr"
      | some n =>
        if 6 + n * 2 ≤ d.length then
          let offs := records (fun p => be d p 2) 6 n 2
          let read := fun (p : Nat) =>
            match readAt d p 2 with
            | none => Except.error CErr.oob
            | some k => if p + 2 + k * 2 ≤ d.length then .ok k else .error .oob
          let show_ := fun (r : Option (Except CErr Nat)) => match r with
            | none => "N" | some (.ok k) => s!"ok{k}" | some (.error e) => errStr e
          let its := arrIterNullable offs d.length read
          some (s!"{its.length} " ++ joinStrs (its.map show_) ++ " | " ++ joinStrs (idxs.map (fun i => show_ (arrGetNullable offs d.length read i))))
        else some "rerr"
    | _, _ => none
  | _, _ => none

end FontVerif.Drv.C01HandColr
