/- line-protocol handlers for Model/HandColr.lean.  All commands are prefixed `hc.`. -/
import FontVerif.Model.HandColr
namespace FontVerif.Drv.C01HandColr
open FontVerif FontVerif.ReadIter FontVerif.HandRead FontVerif.HandColr

def handle (cmd : String) (args : List String) : Option String :=
  match cmd, args with
  | _, _ => none

end FontVerif.Drv.C01HandColr
