/- line-protocol handlers for the C02 models (stub: nothing modelled yet) -/
import FontVerif.Model.Base
namespace FontVerif.Drv.C02
open FontVerif

def handle (_cmd : String) (_args : List String) : Option String := none

end FontVerif.Drv.C02
