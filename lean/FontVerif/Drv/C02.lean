/- line-protocol handlers for the C02 models -/
import FontVerif.Model.Base
import FontVerif.Model.Interp
import FontVerif.Model.Composite
import FontVerif.Model.Charstring
import FontVerif.Model.InterpLoops
import FontVerif.Model.InterpData
import FontVerif.Model.HintRound
import FontVerif.Model.HintMap
import FontVerif.Model.Carve
namespace FontVerif.Drv.C02
open FontVerif FontVerif.Interp

def progName (p : Nat) : String := if p = 0 then "Font" else if p = 1 then "ControlValue" else "Glyph"

open FontVerif.InterpLoops FontVerif.InterpData in
/-- the oracle of the correspondence runs: rounding through Model/HintRound.lean; values computed from point
    coordinates are 0 (a run in which such a value stays live is reported as `tainted`, see `runD`) -/
def drvArith : Arith :=
  { round := fun m t ph pe d => (HintRound.round m t ph pe d).getD 0,
    coord := fun _ => 0, vec := fun _ => (0x4000, 0), touched := fun _ _ => false }

open FontVerif.InterpLoops FontVerif.InterpData in
def mkCfg (font cv glyph : List Nat) (limit : Nat) (ped : Bool) : Cfg F :=
  { font := font.toArray, cv := cv.toArray, glyph := glyph.toArray, limit := limit, pedantic := ped,
    sem := semAll drvArith ped }

/-- `HintErrorKind` names of the data-opcode errors of Model/InterpLoops.lean / Model/InterpData.lean -/
def errName (e : Err) : String :=
  match e with
  | .data 1001 => "InvalidPointIndex"
  | .data 1002 => "InvalidPointRange"
  | .data 1003 => "InvalidContourIndex"
  | .data 1004 => "InvalidZoneIndex"
  | .data 1005 => "NegativeLoopCounter"
  | .data 1006 => "InvalidStackValue"
  | .data 1007 => "InvalidCvtIndex"
  | .data 1008 => "InvalidStorageIndex"
  | .data 1009 => "DivideByZero"
  | .data 1999 => "PANIC"
  | e => e.name

def renderErr {D} (stage : String) (s : St D) (e : Err) : String :=
  s!"{stage}:err:{errName e}:{progName s.current}:{s.pc}"

open FontVerif.InterpData in
/-- the run loop of the driver: `Interp.run`, but it stops (`true`) as soon as an oracle value may influence the rest of
    the run: `taint` is set, or a data opcode left an oracle value on the stack (`pend`) and the next instruction is
    not POP -/
def runD (c : Cfg F) : Nat → St F → St F × Bool
  | 0, s => (s, false)
  | n + 1, s =>
    match s.status with
    | .running =>
      let s1 := step c s
      if s1.data.taint then (s1, true)
      else if s1.data.pend && s1.status == .running then
        match decode (c.code s1.current) s1.pc with
        | .ins op _ _ _ => if op = 0x21 then runD c n s1 else (s1, true)
        | _ => runD c n s1
      else runD c n s1
    | _ => (s, false)

open FontVerif.InterpLoops FontVerif.InterpData in
/-- `interp <limitFontCv> <limitGlyph> <stackCap> <nFuncs> <nIdefs> <glyphPoints> <twilightPoints> <cvtLen> <storageLen> <scale> <fpgm> <prep> <glyph|none>`:
    HintInstance::reconfigure (font program, then control value program on the same engine — `Engine::reset` empties the
    value stack before each; the storage area, the cvt and the retained graphics state carry over, everything else is reset; the glyph zone is
    empty) and, when a glyph program is given and `instruct_control & 1 == 0`, HintInstance::hint in pedantic mode on
    a glyph with `glyphPoints` points (+ 4 phantom points) in one contour, with copy-on-write cvt / storage.
    Target::Mono at 16 ppem; the cvt table is all zeros. -/
def interp (limFC limG cap nF nI nPts nTwi nCvt nSto : Nat) (scale : Int) (font cv : List Nat) (glyph : Option (List Nat)) : String :=
  let c := mkCfg font cv [] limFC false
  let blank : List Def := (List.range (functionSlots nF)).map (fun _ => {})
  let blankI : List Def := (List.range nI).map (fun _ => {})
  let zeros (n : Nat) : List Int := (List.range n).map (fun _ => 0)
  let g0 : G := { cap := cap, twiPts := nTwi, cvtLen := nCvt, ppem := 16 }
  let f0 : F := { g := g0, storage := ⟨[], zeros nSto, true⟩, cvt := ⟨[], zeros nCvt, true⟩, scale := scale }
  let fuel := MAX_RUN_INSTRUCTIONS + 2
  let (s1, t1) := runD c fuel (initSt 0 blank blankI [] (f0.reset 0))
  if t1 then "tainted" else
  match s1.status with
  | .failed e => renderErr "new" s1 e
  | .stuck => "stuck"
  | .running => "running"
  | .done =>
    let (s2, t2) := runD c fuel (initSt 1 s1.funcs s1.idefs [] (s1.data.reset 1))
    if t2 then "tainted" else
    match s2.status with
    | .failed e => renderErr "new" s2 e
    | .stuck => "stuck"
    | .running => "running"
    | .done =>
      match glyph with
      | none => "ok"
      | some g =>
        if s2.data.instructControl % 2 = 1 then "ok"   -- `HintInstance::is_enabled()` is false: drawn unhinted
        else
        let cg := mkCfg font cv g limG true
        let fin := s2.data
        let fg : F := { fin with g := { fin.g with glyphPts := nPts + 4, glyphContours := [nPts - 1] },
                                 storage := ⟨fin.storage.dataMut, zeros nSto, false⟩,
                                 cvt := ⟨fin.cvt.dataMut, zeros nCvt, false⟩ }
        let (s3, t3) := runD cg fuel (initSt 2 s2.funcs s2.idefs [] (fg.reset 2))
        if t3 then "tainted" else
        match s3.status with
        | .failed e => renderErr "draw" s3 e
        | .stuck => "stuck"
        | .running => "running"
        | .done => "ok"

/-! composite graphs -/
open FontVerif.Composite in
def parseGlyph (t : String) : Option GlyphInfo :=
  match t.splitOn ":" with
  | ["E"] => some .empty
  | ["S", n, i] => (parseNat? n).map (fun n => .simple n 1 (i == "1"))
  | ["C", cs] => ((cs.splitOn ".").mapM parseNat?).map (fun cs => .composite cs false)
  | _ => none

open FontVerif.Composite in
/-- `composite <gid> <spec>`: `outline_glyphs().get(gid)` = `Outlines::outline(gid).ok()`, counters as reported by the
    verif hook (points include the 4 phantom points added at the end of `outline`) -/
def composite (gid : Nat) (gs : Array GlyphInfo) : String :=
  let G : Nat → GlyphInfo := fun i => if h : i < gs.size then gs[i] else .readErr
  match Composite.outline G gid with
  | .error _ => "none"
  | .ok o =>
    -- `OutlineGlyph::draw_memory_size(Hinting::None / Embedded)`: `Outline::required_buffer_size` of the counters and
    -- of the limits of the harness font (maxStackElements 16 + 32, maxTwilightPoints 0 + 4, no storage, no cvt, no gvar)
    let cnt : Carve.Counts :=
      { points := o.points + 4, contours := o.contours, maxSimplePoints := o.maxSimple, maxOtherPoints := o.maxOther,
        maxComponentDeltaStack := o.maxDeltaStack, maxStack := 48, cvtCount := 0, storageCount := 0,
        maxTwilightPoints := 4, hasHinting := o.hasHinting, hasVariations := false }
    s!"ok p={o.points + 4} c={o.contours} ms={o.maxSimple} mo={o.maxOther} ds={o.maxDeltaStack} h={if o.hasHinting then 1 else 0} sz={Carve.requiredBufferSize cnt false},{Carve.requiredBufferSize cnt true}"

/-! charstrings (Model/Charstring.lean) -/
namespace CS
open FontVerif.Charstring

def count (k : Nat) (out : List Nat) : Nat := (out.filter (· = k)).length

/-- `ok n=<commands> h=<hash of the kind sequence> m l c z hs vs = per-kind counts, k = masks, kb = mask bytes` -/
def renderOk (st : St) : String :=
  let seq := st.out.reverse
  let h := seq.foldl (fun h k => (h * 31 + k + 1) % 4294967296) 7
  let masks := seq.filter (· ≥ 8)
  let mb := masks.foldl (fun a k => a + (k - 8) / 2) 0
  s!"ok n={seq.length} h={h} m={count 0 seq} l={count 1 seq} c={count 2 seq} z={count 3 seq} hs={count 4 seq} vs={count 5 seq} k={masks.length} kb={mb}"

def parseBlend (t : String) : Option (Option (Nat × List Nat)) :=
  if t = "none" then some none
  else match t.splitOn "@" with
    | [i, rs] =>
      match parseNat? i, (if rs = "-" then some [] else (rs.splitOn ".").mapM parseNat?) with
      | some i, some rs => some (some (i, rs))
      | _, _ => none
    | _ => none

/-- `cs <cff2:0|1> <global subr INDEX hex> <local subr INDEX hex|none> <none | vsindex@r0.r1…> <charstring hex>` -/
def cs (cff2 : Bool) (g : List Nat) (l : Option (List Nat)) (blend : Option (Nat × List Nat)) (data : List Nat) : String :=
  match Charstring.Index.ofBytes cff2 g with
  | .error e => s!"gsubrs-err:{e.name}"
  | .ok gi =>
    let li : Except Charstring.Err (Option Index) :=
      match l with
      | none => .ok none
      | some b => (Index.ofBytes cff2 b).map some
    match li with
    | .error e => s!"subrs-err:{e.name}"
    | .ok li =>
      let lookup (rs : List Nat) : VsLookup := fun i =>
        match rs[i]? with
        | some r => .ok (r, none)
        | none => .error (.invalidCollectionIndex i)
      let env : Env := { gsubrs := gi.toSubrs, subrs := li.map Index.toSubrs, blend := blend.map (fun b => lookup b.2) }
      let st0 : Option St :=
        match blend with
        | none => some {}
        | some (i, rs) => (rs[i]?).map (fun r => initSt i r none)
      match st0 with
      | none => "blend-new-err"
      | some st0 =>
        match evaluate env data st0 with
        | .ok st => renderOk st
        | .error (.err e, _) => s!"err:{e.name}"
        | .error (.panic k, _) => s!"PANIC:{k}"
        | .error (.stuck, _) => "stuck"
end CS

/-- `hintmap <op> <op> ...`, op = `fb:csb:dsb:ft:cst:dst` (flags, cs_coord bits, ds_coord bits of the bottom and the
    top hint): `HintMap::new` followed by one `insert(bottom, top, None)` per op; answer = the active edges. -/
def hintmapOp (s : String) : Option (HintMap.Hint × HintMap.Hint) :=
  match (s.splitOn ":").mapM parseInt? with
  | some [fb, cb, db, ft, ct, dt] =>
    if fb < 0 || ft < 0 then none
    else some ({ flags := fb.toNat, cs := cb, ds := db }, { flags := ft.toNat, cs := ct, ds := dt })
  | _ => none

def hintmap (ops : List String) : String :=
  match ops.mapM hintmapOp with
  | none => "bad-args"
  | some ops =>
    match HintMap.insertAll HintMap.Map.new ops with
    | none => "panic"
    | some m => HintMap.render m

def handle (cmd : String) (args : List String) : Option String :=
  match cmd, args with
  | "interp", [a, b, cp, nf, ni, np, nt, nc, ns, sc, f, p, g] =>
    match parseNats? [a, b, cp, nf, ni, np, nt, nc, ns], parseInt? sc, parseHex? f, parseHex? p with
    | some [a, b, cp, nf, ni, np, nt, nc, ns], some sc, some f, some p =>
      if g = "none" then some (interp a b cp nf ni np nt nc ns sc f p none)
      else match parseHex? g with
        | some g => some (interp a b cp nf ni np nt nc ns sc f p (some g))
        | none => some "bad-args"
    | _, _, _, _ => some "bad-args"
  | "hintmap", ops => some (hintmap (if ops = ["-"] then [] else ops))
  | "composite", [g, spec] =>
    match parseNat? g, (spec.splitOn ",").mapM parseGlyph with
    | some g, some gs => some (composite g gs.toArray)
    | _, _ => some "bad-args"
  | "cs", [v, g, l, b, d] =>
    match parseNat? v, parseHex? g, (if l = "none" then some none else (parseHex? l).map some), CS.parseBlend b, parseHex? d with
    | some v, some g, some l, some b, some d => some (CS.cs (v = 1) g l b d)
    | _, _, _, _, _ => some "bad-args"
  | "cse", [v, g, l, b, d] =>
    -- end to end through skrifa: outcome class only (`Subfont::subrs` reports a bad local subr INDEX as the same error)
    match parseNat? v, parseHex? g, (if l = "none" then some none else (parseHex? l).map some), CS.parseBlend b, parseHex? d with
    | some v, some g, some l, some b, some d =>
      let r := CS.cs (v = 1) g l b d
      if r.startsWith "ok " then some "ok"
      else if r.startsWith "subrs-err:" then some ("err:" ++ (r.drop 10).toString)
      else some r
    | _, _, _, _, _ => some "bad-args"
  | _, _ => none

end FontVerif.Drv.C02
