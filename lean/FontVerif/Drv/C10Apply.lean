/- line-protocol handlers for Model/GvarApply.lean (application of glyph variation deltas) -/
import FontVerif.Model.GvarApply
import FontVerif.Drv.C10Data
namespace FontVerif.Drv.C10Apply
open FontVerif FontVerif.PackedDeltas FontVerif.GvarData FontVerif.GvarApply

def splitBar (xs : List String) : List (List String) :=
  xs.foldr (fun x acc => if x = "|" then [] :: acc else
    match acc with
    | [] => [[x]]
    | a :: rest => (x :: a) :: rest) [[]]

def ints? (xs : List String) : Option (List Int) := parseInts? (xs.filter (· ≠ "-"))
def nats? (xs : List String) : Option (List Nat) := parseNats? (xs.filter (· ≠ "-"))

def parsePt? (s : String) : Option (Int × Int) :=
  match (s.splitOn ",").mapM parseInt? with
  | some [a, b] => some (a, b)
  | _ => none

def pts? (xs : List String) : Option (List (Int × Int)) := (xs.filter (· ≠ "-")).mapM parsePt?

def showPts (l : List (Int × Int)) : String :=
  if l.isEmpty then "-" else " ".intercalate (l.map fun (x, y) => s!"{x},{y}")

def optHex? (s : String) : Option (List Nat) := if s = "-" then some [] else parseHex? s

/-- flat shared-tuple bytes → tuples of `ax` values -/
def sharedOf (ax : Nat) (sh : List Nat) : Option (List (List Int)) :=
  match readTuple (sh.length / 2) sh with
  | none => none
  | some (flat, _) => some (C10Data.chunk ax (flat.length + 1) flat)

def handle (cmd : String) (args : List String) : Option String :=
  match cmd, splitBar args with
  | "ap.scalar", [[ax, hi], peak, starts, ends, coords] =>
    match parseNat? ax, parseNat? hi, ints? peak, ints? starts, ints? ends, ints? coords with
    | some ax, some hi, some peak, some starts, some ends, some coords =>
      if hi > 1 then none else
      some (match tupleScalar ax peak (if hi = 1 then some (starts, ends) else none) coords with
        | none => "none"
        | some s => toString s)
    | _, _, _, _, _, _ => none
  | "ap.sparse", [[sc, n, kind, size, hex]] =>
    match parseInt? sc, parseNat? n, parseNat? size, parseHex? hex with
    | some sc, some n, some size, some data =>
      let zero : List (Int × Int) := (List.range n).map fun _ => (0, 0)
      let flags : List Bool := (List.range n).map fun _ => false
      let rest := splitRemainder data
      let pd : Option (List Nat × List Nat) :=
        if kind = "priv" then some (data, rest)
        else if kind = "shared" then (if size > rest.length then none else some (data, rest.take size))
        else none
      match pd with
      | none => if kind = "shared" then some "notuple" else none
      | some (pt, d) =>
        some (match accSparse pt d sc zero flags with
          | none => "err"
          | some (buf, fl) =>
            if buf.isEmpty then "-" else
            " ".intercalate ((buf.zip fl).map fun (p, f) => s!"{p.1},{p.2},{if f then 1 else 0}"))
    | _, _, _, _ => none
  | "ap.dense", [[sc, n, hex]] =>
    match parseInt? sc, parseNat? n, optHex? hex with
    | some sc, some n, some d =>
      let zero : List (Int × Int) := (List.range n).map fun _ => (0, 0)
      some (match accDense d sc zero with
        | none => "err"
        | some buf => showPts buf)
    | _, _, _ => none
  | "ap.simple", [[ax, sh, data], coords, ends, points] =>
    match parseNat? ax, optHex? sh, optHex? data, ints? coords, nats? ends, pts? points with
    | some ax, some sh, some data, some coords, some ends, some points =>
      match sharedOf ax sh with
      | none => none
      | some shared =>
        some (match simpleGlyph ax shared (if data.isEmpty then none else some data) coords points ends with
          | none => "err"
          | some ds => showPts ds)
    | _, _, _, _, _, _ => none
  | "ap.composite", [[ax, sh, data, count], coords] =>
    match parseNat? ax, optHex? sh, optHex? data, parseNat? count, ints? coords with
    | some ax, some sh, some data, some count, some coords =>
      match sharedOf ax sh with
      | none => none
      | some shared =>
        some (match compositeGlyph ax shared (if data.isEmpty then none else some data) coords count with
          | none => "err"
          | some ds => showPts ds)
    | _, _, _, _, _ => none
  | "ap.adjust", [[], points, deltas] =>
    match pts? points, pts? deltas with
    | some points, some deltas =>
      if points.length ≠ deltas.length ∨ points.length < 4 then none else
      some (showPts (adjustSimple points deltas))
    | _, _ => none
  | "ap.cadjust", [pp0x] :: deltas :: comps =>
    match parseInt? pp0x, pts? deltas with
    | some pp0x, some deltas =>
      match comps.mapM (fun (c : List String) =>
          match c with
          | "C" :: um :: off :: cpp :: rest =>
            match parseNat? um, parsePt? off, parseInt? cpp, pts? rest with
            | some um, some off, some cpp, some ps =>
              if um > 1 then none else
              some ({ pts := ps, pp0x := cpp, useMyMetrics := um == 1, offset := off } : Comp)
            | _, _, _, _ => none
          | _ => none) with
      | some cs => some (showPts (adjustComposite pp0x deltas cs))
      | none => none
    | _, _ => none
  | _, _ => none

end FontVerif.Drv.C10Apply
