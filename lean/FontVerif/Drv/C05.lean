/- line-protocol handlers for the C05 models (Model/Graph.lean)

request:  g.ops <op,op,…> R <root> F <lo-hi,lo-hi,…|-> { N <id> <size> <bytes|-> [T <p|s><type>] { L <pos> <width> <target> <adj> } }
  T     : the object is a GPOS (`p`) / GSUB (`s`) lookup of that lookup type (absent: not a lookup)
  bytes : `.`-joined segments `r<hh>x<count>` (run) / `h<hex>` (literal); `-` = no bytes given
          (then `bytes := []`: only ops that never look at bytes may be requested)
  ops   : kahn short basic gate ovf assign iso pack ser dump | typed: sel promote packt dumpt
          g.key <count> <size> : the f64 sort key of select_promotions_hb
response: one token per op, then `|` and the final state; `trap` (alone) if any op panics.
-/
import FontVerif.Model.Graph
import FontVerif.Drv.TableWriter
namespace FontVerif.Drv.C05
open FontVerif FontVerif.Graph

/-! ### byte-run codec (canonicalisation only; identical in harness/src/bin/c05.rs) -/

def parseSeg (s : String) : Option (List Nat) :=
  match s.toList with
  | 'h' :: rest => parseHex? (String.ofList rest)
  | 'r' :: a :: b :: 'x' :: cnt =>
    match hexDigit? a, hexDigit? b, (String.ofList cnt).toNat? with
    | some x, some y, some n => some (List.replicate n (x * 16 + y))
    | _, _, _ => none
  | _ => none

def parseBytes (s : String) : Option (List Nat) :=
  if s = "-" then some [] else
  (s.splitOn ".").foldl (fun acc seg =>
    match acc, parseSeg seg with
    | some bs, some more => some (bs ++ more)
    | _, _ => none) (some [])

/-- length of the run of `b` at the head of the list -/
def runLen (b : Nat) : List Nat → Nat → Nat
  | x :: rest, n => if x = b then runLen b rest (n + 1) else n
  | [], n => n

def hex2 (b : Nat) : List Char := [hexChar (b / 16 % 16), hexChar (b % 16)]

/-- runs of ≥ 8 equal bytes become `r<hh>x<n>`, everything else literal `h…` segments -/
def rleGo : Nat → List Nat → List Char → List String → List String
  | 0, _, _, segs => segs.reverse
  | fuel + 1, bs, lit, segs =>
    let flush (lit : List Char) (segs : List String) : List String :=
      if lit.isEmpty then segs else (String.ofList ('h' :: lit.reverse)) :: segs
    match bs with
    | [] => (flush lit segs).reverse
    | b :: _ =>
      let n := runLen b bs 0
      if n ≥ 8 then
        rleGo fuel (bs.drop n) [] ((String.ofList (['r'] ++ hex2 b ++ ['x'] ++ (toString n).toList)) :: flush lit segs)
      else
        rleGo fuel (bs.drop n) ((List.replicate n (hex2 b).reverse).flatten ++ lit) segs

def rle (bs : List Nat) : String :=
  if bs.isEmpty then "-" else ".".intercalate (rleGo (bs.length + 1) bs [] [])

/-! ### request parsing -/

def parseRange (s : String) : Option (List Nat) :=
  match s.splitOn "-" with
  | [a, b] => match a.toNat?, b.toNat? with
    | some lo, some hi => some ((List.range (hi + 1 - lo)).map (· + lo))
    | _, _ => none
  | _ => none

def parseFresh (s : String) : Option (List Nat) :=
  if s = "-" then some [] else
  (s.splitOn ",").foldl (fun acc r =>
    match acc, parseRange r with
    | some xs, some more => some (xs ++ more)
    | _, _ => none) (some [])

def validWidth (w : Nat) : Bool := w = 2 || w = 3 || w = 4

/-- parse `{ L pos width target adj }` then the rest -/
def parseLinks : Nat → List String → List Link → Option (List Link × List String)
  | 0, _, _ => none
  | fuel + 1, toks, acc =>
    match toks with
    | "L" :: p :: w :: t :: a :: rest =>
      match p.toNat?, w.toNat?, t.toNat?, a.toNat? with
      | some p, some w, some t, some a =>
        if validWidth w then parseLinks fuel rest (⟨p, w, t, a⟩ :: acc) else none
      | _, _, _, _ => none
    | _ => some (acc.reverse, toks)

def parseType (s : String) : Option TType :=
  match s.toList with
  | 'p' :: rest => (String.ofList rest).toNat?.map TType.gpos
  | 's' :: rest => (String.ofList rest).toNat?.map TType.gsub
  | _ => none

def parseNodes : Nat → List String → Map Obj → Map TType → Option (Map Obj × Map TType)
  | 0, _, _, _ => none
  | fuel + 1, toks, acc, types =>
    match toks with
    | [] => some (acc, types)
    | "N" :: id :: size :: bytes :: rest =>
      match id.toNat?, size.toNat?, parseBytes bytes with
      | some id, some size, some bs =>
        let typed : Option (Option TType × List String) :=
          match rest with
          | "T" :: t :: rest' => match parseType t with
            | some ty => some (some ty, rest')
            | none => none
          | _ => some (none, rest)
        match typed with
        | none => none
        | some (ty, rest) =>
          match parseLinks (rest.length + 1) rest [] with
          | some (links, rest) =>
            if acc.contains id then none
            else if bytes ≠ "-" && bs.length ≠ size then none
            else parseNodes fuel rest (acc.insert id ⟨size, bs, links⟩)
              (match ty with | some t => types.insert id t | none => types)
          | none => none
      | _, _, _ => none
    | _ => none

/-! ### state rendering -/

def joinWith (sep : String) (xs : List String) : String :=
  if xs.isEmpty then "-" else sep.intercalate xs

def showObj (g : Graph) (kv : Nat × Obj) : String :=
  let n := g.node kv.1
  s!"{kv.1}:{n.position}:{n.distance}:{n.space}:" ++
    joinWith "." (kv.2.links.map (fun l => toString l.target)) ++ ":" ++
    joinWith "." (n.parents.map (fun p => s!"{p.1}/{p.2}"))

def showState (g : Graph) : String :=
  "order=" ++ joinWith "," (g.order.map toString) ++ s!" ns={g.nextSpace} roots=" ++
    joinWith "," (g.numRoots.map (fun kv => s!"{kv.1}:{kv.2}")) ++ " " ++
    " ".intercalate (g.objects.map (showObj g))

def showType : TType → String
  | .gpos t => s!"p{t}"
  | .gsub t => s!"s{t}"
  | .other => "o"

/-- the lookup types of the objects still present (nothing for untyped requests) -/
def showTypes (tg : TGraph) : String :=
  let ts := tg.types.filter (fun kv => tg.g.objects.contains kv.1)
  if ts.isEmpty then "" else " types=" ++ ",".intercalate (ts.map (fun kv => s!"{kv.1}:{showType kv.2}"))

def showBool (b : Bool) : String := if b then "t" else "f"

def showOverflows (ovs : List Overflow) : String :=
  "ovf=" ++ joinWith "," (ovs.map (fun o => s!"{o.1}>{o.2.1}:{o.2.2.1}:{o.2.2.2}"))

/-- run one op on `(typed graph, fresh)`; `none` = trap; unknown op = `some none`. -/
def runOp (op : String) (tg : TGraph) (fresh : List Nat) : Option (Option (String × TGraph × List Nat)) :=
  let g := tg.g
  let ret (r : String) (g : Graph) (fresh : List Nat) : Option (Option (String × TGraph × List Nat)) :=
    some (some (r, { tg with g := g }, fresh))
  match op with
  | "kahn" => match sortKahn g with
    | some g => ret "ok" g fresh | none => none
  | "short" => match sortShortest g with
    | some g => ret "ok" g fresh | none => none
  | "basic" => match basicSort g with
    | some (b, g) => ret (showBool b) g fresh | none => none
  | "gate" => match hasOverflows g with
    | some b => ret (showBool b) g fresh | none => none
  | "ovf" => match findOverflows g with
    | some ovs => ret (showOverflows ovs) g fresh | none => none
  | "assign" => match assignSpaces g fresh with
    | some (b, g, fresh) => ret (showBool b) g fresh | none => none
  | "iso" => match findOverflows g with
    | none => none
    | some ovs => match tryIsolating g ovs fresh with
      | some (b, g, fresh) => ret (showBool b) g fresh | none => none
  | "pack" => match packObjects g fresh with
    | some (b, g, fresh) => ret (showBool b) g fresh | none => none
  | "ser" => match serialize g with
    | some out => ret (rle out) g fresh | none => none
  | "dump" => match packObjects g fresh with
    | none => none
    | some (false, g, fresh) => ret "fail" g fresh
    | some (true, g, fresh) => match serialize g with
      | some out => ret (rle out) g fresh | none => none
  -- typed ops
  | "sel" => match getPromotable tg with
    | none => none
    | some none => some (some ("sel=none", tg, fresh))
    | some (some (can, parent)) => match selectPromotions tg can parent with
      | none => none
      | some sel => some (some (s!"sel={parent}:" ++ joinWith "." (can.map toString) ++ ":" ++ joinWith "." (sel.map toString), tg, fresh))
  | "promote" => match tryPromotingWith selectPromotions tg fresh with
    | some (tg, fresh) => some (some ("ok", tg, fresh)) | none => none
  | "packt" => match packObjectsT tg fresh with
    | some (b, tg, fresh) => some (some (showBool b, tg, fresh)) | none => none
  | "dumpt" => match packObjectsT tg fresh with
    | none => none
    | some (false, tg, fresh) => some (some ("fail", tg, fresh))
    | some (true, tg, fresh) => match serialize tg.g with
      | some out => some (some (rle out, tg, fresh)) | none => none
  | _ => some none

def runOps : List String → TGraph → List Nat → List String → Option (Option (List String × TGraph))
  | [], tg, _, acc => some (some (acc.reverse, tg))
  | op :: ops, tg, fresh, acc =>
    match runOp op tg fresh with
    | none => none
    | some none => some none
    | some (some (r, tg, fresh)) => runOps ops tg fresh (r :: acc)

def handle (cmd : String) (args : List String) : Option String :=
  match cmd, args with
  | "g.ops", ops :: "R" :: root :: "F" :: fresh :: rest =>
    match root.toNat?, parseFresh fresh, parseNodes (rest.length + 1) rest [] [] with
    | some root, some fresh, some (objs, types) =>
      if !objs.contains root then none else
      -- every link target must exist (the hook's builder guarantees it)
      if !(objs.all (fun kv => kv.2.links.all (fun l => objs.contains l.target))) then none else
      match runOps (ops.splitOn ",") ⟨Graph.fromObjects objs root, types⟩ fresh [] with
      | none => some "trap"
      | some none => none
      | some (some (rs, tg)) => some (" ".intercalate rs ++ " | " ++ showState tg.g ++ showTypes tg)
    | _, _, _ => none
  | "g.rle", [bytes] =>
    match parseBytes bytes with
    | some bs => some (rle bs)
    | none => none
  | "g.key", [count, size] =>
    match count.toNat?, size.toNat? with
    | some c, some s => some (toString (promotionKey c s))
    | _, _ => none
  | _, _ => FontVerif.Drv.TableWriter.handle cmd args  -- tw.*: the C04 ⇄ C05 bridge (Drv/TableWriter.lean)

end FontVerif.Drv.C05
