/- line-protocol handlers for Model/HandText.lean.  All commands are prefixed `ht.`. -/
import FontVerif.Model.HandText
namespace FontVerif.Drv.C01HandText
open FontVerif FontVerif.ReadIter FontVerif.HandRead FontVerif.HandText

def handle (cmd : String) (args : List String) : Option String :=
  match cmd, args with
  | _, _ => none

end FontVerif.Drv.C01HandText
