/- line-protocol handlers for Model/HandText.lean.  All commands are prefixed `ht.`. -/
import FontVerif.Model.HandText
import FontVerif.Drv.C01Iter
namespace FontVerif.Drv.C01HandText
open FontVerif FontVerif.ReadIter FontVerif.HandRead FontVerif.HandText

def joinStrs (xs : List String) : String := if xs.isEmpty then "-" else " ".intercalate xs

/-- split a token list at every "|" -/
def splitBars (xs : List String) : List (List String) :=
  let r := xs.foldr (fun x (acc : List String × List (List String)) =>
    if x = "|" then ([], acc.1 :: acc.2) else (x :: acc.1, acc.2)) ([], [])
  r.1 :: r.2

def natsOrEmpty (xs : List String) : Option (List Nat) := if xs = ["-"] then some [] else parseNats? xs

/-- a comma separated list of integers in one token (`-` = empty) -/
def commaInts (s : String) : Option (List Int) :=
  if s = "-" then some [] else parseInts? (s.splitOn ",")

def commaNats (s : String) : Option (List Nat) :=
  if s = "-" then some [] else parseNats? (s.splitOn ",")

def pairs : List Nat → Option (List (Nat × Nat))
  | [] => some []
  | a :: b :: r => (pairs r).map ((a, b) :: ·)
  | _ => none

def groups : List Nat → Option (List Group)
  | [] => some []
  | a :: b :: c :: r => (groups r).map (⟨a, b, c⟩ :: ·)
  | _ => none

def mapStr : MapRes → String
  | .gid g => toString g
  | .none => "n"
  | .trap => "trap"
  | .fuel => "fuel"

/-- `x2 end start delta rangeOffset glyphs` (five comma lists) -/
def parse4 : List String → Option (Cmap4 × Nat)
  | [x2, e, s, d, r, g] =>
    match x2.toNat?, commaNats e, commaNats s, commaInts d, commaNats r, commaNats g with
    | some x2, some e, some s, some d, some r, some g =>
      let t : Cmap4 := { endCode := e, startCode := s, idDelta := d, idRangeOffset := r, glyphIdArray := g }
      if t.wf && decide (x2 < 65536) then some (t, x2) else none
    | _, _, _, _, _, _ => none
  | _ => none

def parse12 (xs : List String) : Option (List Group) :=
  match (natsOrEmpty xs).bind groups with
  | some gs => if gs.all Group.wf then some gs else none
  | none => none

def parseSub : List String → Option Sub
  | ["o"] => some .other
  | ["e"] => some .err
  | "4" :: rest => (parse4 rest).map (fun p => .f4 p.1 p.2)
  | "12" :: rest => (parse12 (if rest.isEmpty then ["-"] else rest)).map .f12
  | _ => none

/-- an optional table in one token: `x` = absent / unreadable, else comma separated pairs -/
def optPairs (s : String) : Option (Option (List (Nat × Nat))) :=
  if s = "x" then some none else ((commaNats s).bind pairs).map some

/-- selector records: three tokens each (`selector defaults nonDefaults`); `-` = no record -/
def parseSels : List String → Option (List Cmap.VarSel)
  | [] => some []
  | ["-"] => some []
  | s :: d :: n :: rest =>
    match s.toNat?, optPairs d, optPairs n, parseSels rest with
    | some s, some d, some n, some r => some (⟨s, d, n⟩ :: r)
    | _, _, _, _ => none
  | _ => none

def mvCode : Cmap.MapVariant → Nat
  | .useDefault => 1
  | .variant g => 2 + g

def mvStr : Option Cmap.MapVariant → String
  | none => "n"
  | some .useDefault => "d"
  | some (.variant g) => s!"v{g}"

/-- insertion into a strictly ascending list -/
def insertSorted (x : Nat) : List Nat → List Nat
  | [] => [x]
  | y :: r => if x < y then x :: y :: r else if x = y then y :: r else y :: insertSorted x r

def sortDedup (xs : List Nat) : List Nat := xs.foldl (fun acc x => insertSorted x acc) []

def encOf (p e : Nat) : NameStr.Encoding := NameStr.Encoding.new p e

def encStr : NameStr.Encoding → String
  | .utf16be => "u"
  | .macRoman => "m"
  | .unknown => "x"

def charsStr (enc : NameStr.Encoding) (d : List Nat) : String :=
  match charTrace enc d with
  | none => "fuel"
  | some evs => if trapped evs then "trap" else joinNats (items evs)

def pstrStr : PStr → String
  | .ok s => s!"x{toHex s}"
  | .oob => "eO"
  | .malformed => "eM"
  | .trap => "trap"

def gnameStr : GName → String
  | .std i => s!"s{i}"
  | .str b => s!"x{toHex b}"
  | .none => "n"
  | .trap => "trap"

def handle (cmd : String) (args : List String) : Option String :=
  match cmd with
  | "ht.map4" =>
    match splitBars args with
    | [tab, cps] =>
      match parse4 tab, natsOrEmpty cps with
      | some (t, x2), some cps => some (joinStrs (cps.map (fun c => mapStr (map4 t x2 c))))
      | _, _ => none
    | _ => none
  | "ht.map12" =>
    match splitBars args with
    | [tab, cps] =>
      match parse12 tab, natsOrEmpty cps with
      | some gs, some cps => some (joinStrs (cps.map (fun c => mapStr (map12 gs c))))
      | _, _ => none
    | _ => none
  | "ht.cmap" =>
    match splitBars args with
    | cps :: subs =>
      match natsOrEmpty cps, subs.mapM parseSub with
      | some cps, some subs => some (joinStrs (cps.map (fun c => mapStr (cmapMap subs c))))
      | _, _ => none
    | _ => none
  | "ht.mv14" =>
    match splitBars args with
    | [tab, sels, cps] =>
      match parseSels tab, natsOrEmpty sels, natsOrEmpty cps with
      | some t, some sels, some cps =>
        some (joinStrs (sels.flatMap (fun s => cps.map (fun c => mvStr (Cmap.mapVariant t c s)))))
      | _, _, _ => none
    | _ => none
  | "ht.it14" =>
    match parseSels args with
    | none => none
    | some t =>
      match c14Trace t with
      | none => some "fuel"
      | some evs =>
        if trapped evs then some "trap"
        else some (Drv.C01Iter.summary ((items evs).map (fun x => [x.1, x.2.1, mvCode x.2.2])))
  | "ht.clo14" =>
    match splitBars args with
    | [tab, us] =>
      match parseSels tab, natsOrEmpty us with
      | some t, some us => some (joinNats (sortDedup (closure14 t (fun c => us.contains c))))
      | _, _ => none
    | _ => none
  | "ht.cmapclo" =>
    match splitBars args with
    | us :: subs =>
      let parseOpt := fun (xs : List String) =>
        if xs = ["x"] then some (none : Option (List Cmap.VarSel)) else (parseSels xs).map some
      match natsOrEmpty us, subs.mapM parseOpt with
      | some us, some subs => some (joinNats (sortDedup (cmapClosure subs (fun c => us.contains c))))
      | _, _ => none
    | _ => none
  | "ht.name" =>
    match args with
    | [pid, eid, off, len, hex] =>
      match pid.toNat?, eid.toNat?, off.toNat?, len.toNat?, parseHex? hex with
      | some pid, some eid, some off, some len, some d =>
        match nameSlice d.length off len with
        | .oob => some "oob"
        | .trap => some "trap"
        | .ok a b =>
          let enc := encOf pid eid
          some s!"{a}:{b} {encStr enc} {charsStr enc ((d.drop a).take (b - a))}"
      | _, _, _, _, _ => none
    | _ => none
  | "ht.sdata" =>
    match args with
    | [len, off] =>
      match len.toNat?, off.toNat? with
      | some len, some off => some (toString (stringDataLen (List.replicate len 0) off))
      | _, _ => none
    | _ => none
  | "ht.macdec" =>
    match natsOrEmpty args with
    | some bs =>
      if bs.all (· < 256) then
        some (joinStrs (bs.map (fun b => match macDecodeT b with | some v => toString v | none => "trap")))
      else none
    | none => none
  | "ht.macenc" =>
    match natsOrEmpty args with
    | some cs =>
      some (joinStrs (cs.map (fun c => match macEncodeT c with
        | some (some b) => toString b | some none => "n" | none => "trap")))
    | none => none
  | "ht.enc" =>
    match args with
    | [p, e] =>
      match p.toNat?, e.toNat? with
      | some p, some e => some (encStr (encOf p e))
      | _, _ => none
    | _ => none
  | "ht.pstr" =>
    match args with
    | [hex] => (parseHex? hex).map (fun d => pstrStr (pstringRead d))
    | _ => none
  | "ht.post" =>
    match splitBars args with
    | [[hex], gids] =>
      match parseHex? hex, natsOrEmpty gids with
      | some d, some gids =>
        match postRead d with
        | none => some "err"
        | some t =>
          let nn := match numNames t with | .val n => toString n | .trap => "trap"
          some s!"{nn} {joinStrs (gids.map (fun g => gnameStr (glyphName t g)))}"
      | _, _ => none
    | _ => none
  | _ => none

end FontVerif.Drv.C01HandText
