/- line-protocol handlers `sk.load` / `ft.load`: the glyph loader models (Model/HintLoad.lean,
   Model/FtLoad.lean) on a generated composite glyph.
   Request (integers):
     <side>.load hinted bc fixedPitch scale hdmx xMin lsb adv nComp
                 { flags xx yx xy yy arg1 arg2 hx hy cxMin clsb cadv nPts { x y }*nPts }*nComp
   `hdmx` = -1: no record for this ppem.  Response: `advance x0 y0 x1 y1 …` (26.6) or an error word. -/
import FontVerif.Model.HintLoad
import FontVerif.Model.FtLoad
import FontVerif.Model.CffScale
namespace FontVerif.Drv.C03Load
open FontVerif FontVerif.Tt FontVerif.HintLoad

def pts : Nat → List Int → Option (List Vec × List Int)
  | 0, rest => some ([], rest)
  | n + 1, x :: y :: rest => (pts n rest).map fun (l, r) => (⟨x, y⟩ :: l, r)
  | _, _ => none

def comps : Nat → List Int → Option (List Comp × List Int)
  | 0, rest => some ([], rest)
  | n + 1, flags :: xx :: yx :: xy :: yy :: a1 :: a2 :: hx :: hy :: cx :: cl :: ca :: np :: rest =>
    if np < 0 then none else
    (pts np.toNat rest).bind fun (p, rest) =>
    (comps n rest).map fun (l, r) => (⟨flags, xx, yx, xy, yy, a1, a2, hx, hy, ⟨cx, cl, ca⟩, p⟩ :: l, r)
  | _, _ => none

def render (r : Option (List Vec × Int)) : String :=
  match r with
  | none => "err"
  | some (p, adv) => joinInts (adv :: p.flatMap fun q => [q.x, q.y])

def handleCff (cmd : String) (xs : List Int) : Option String :=
  match cmd, xs with
  | "sk.cffscale", [s] => some (match CffScale.skHintScale s with | some v => toString v | none => "trap")
  | "ft.cffscale", [s] => some (toString (CffScale.ftHintScale s))
  | _, _ => none

def handle (cmd : String) (xs : List Int) : Option String :=
  match xs with
  | hinted :: bc :: fixedPitch :: scale :: hdmx :: xMin :: lsb :: adv :: nComp :: rest =>
    if nComp < 0 then none else
    match comps nComp.toNat rest with
    | some (cs, []) =>
      let h := if hdmx < 0 then none else some hdmx
      match cmd with
      | "sk.load" => some (render (HintLoad.load (hinted ≠ 0) (bc ≠ 0) (fixedPitch ≠ 0) scale h ⟨xMin, lsb, adv⟩ cs))
      | "ft.load" => some (render (FtLoad.load (hinted ≠ 0) (bc ≠ 0) (fixedPitch ≠ 0) scale h ⟨xMin, lsb, adv⟩ cs))
      | _ => none
    | _ => none
  | _ => none

end FontVerif.Drv.C03Load
