/- line-protocol handler for Model/HandBytecode.lean.
  hy.dec <hex> <pc>  → one token per item of `decode_all(bytes, pc)`: `o<opcode>:<pc>:<n>:<fnv of values>` / `e`,
                        then ` | <items>` (`trap` / `fuel` if the model traps / runs out of fuel)
  hy.op <byte>       → `<is_push> <is_push_words>` -/
import FontVerif.Model.HandBytecode
import FontVerif.Drv.C01Iter
namespace FontVerif.Drv.C01HandBytecode
open FontVerif FontVerif.ReadIter FontVerif.HandBytecode

def u32 (v : Int) : Nat := (v % 4294967296).toNat

def tok (d : List Nat) : DRes → String
  | .ok b pc start size words =>
    let vals := operandValues ((d.drop start).take size) words
    s!"o{b}:{pc}:{operandLen size words}:{vals.length}:{Drv.C01Iter.fnv (vals.map u32)}"
  | .err => "e"
  | .none => "n"
  | .trap => "trap"

def handle (cmd : String) (args : List String) : Option String :=
  match cmd, args with
  | "hy.dec", [hex, pc] =>
    match parseHex? hex, pc.toNat? with
    | some d, some pc =>
      match allTrace d pc with
      | none => some "fuel"
      | some evs =>
        if trapped evs then some "trap"
        else
          let its := items evs
          some ((if its.isEmpty then "-" else " ".intercalate (its.map (tok d))) ++ s!" | {its.length}")
    | _, _ => none
  | "hy.op", [b] =>
    match b.toNat? with
    | some b => if b < 256 then some s!"{if isPush b then 1 else 0} {if isPushWords b then 1 else 0}" else none
    | none => none
  | _, _ => none

end FontVerif.Drv.C01HandBytecode
