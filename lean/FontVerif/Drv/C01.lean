/- line-protocol handlers for the C01 generated-reader model (Model/Shape.lean) evaluated on the
shapes that translate/shapes.py extracted from read-fonts/generated/*.rs (Gen/ReadShapes.lean).

  shape <name> <hex> <arg>…      → `err:<Kind>` | `ok <range>…` one `a..b` / `none` / `panic` per field
                                    (what `T::read[_with_args]` returns and what every
                                    `shape.<f>_byte_range()` evaluates to)
  resolve <name> <hex> <off> <arg>… → `null` | `err:<Kind>` | `ok <range>…`: `Offset32(off).resolve[_with_args]::<T>(data)`
  getters <name> <hex> <arg>…    → `err` | `ok all` | `ok except <i>…`: the generated getters whose
                                    unwrapped `Option`/`Result` is not `Some`/`Ok` (`getterOk`, decided)
  recread <record> <n> <arg>…    → `1` / `0`: `R::read_with_args(n bytes, args).is_ok()`
  recsize <record> <arg>…        → `<n>` / `err:…`: `<R as ComputeSize>::compute_size(&args)`
  extcheck                       → `ok` iff every hand-written callee named by a shape is transcribed
  shapes                         → number of translated shapes
-/
import FontVerif.Model.ShapeExt
import FontVerif.Gen.ReadShapes
namespace FontVerif.Drv.C01
open FontVerif FontVerif.Shape

def tables : Tables :=
  ⟨Gen.ReadShapes.sizeNames, Gen.ReadShapes.customNames, Gen.ReadShapes.recSizes⟩

def ext : Ext := concreteExt tables

def mkData (bytes : List Nat) : Data :=
  let arr := bytes.toArray
  ⟨arr.size, fun i => arr.getD i 0⟩

def errStr : RErr → String
  | .oob => "err:OutOfBounds"
  | .invalidArrayLen => "err:InvalidArrayLen"
  | .other n => s!"err:Other{n}"
  | .stuck => "err:STUCK"

def rrStr : RR → String
  | .panic => "panic"
  | .absent => "none"
  | .range a b => s!"{a}..{b}"

def findShape (name : String) : Option Shape := Gen.ReadShapes.allShapes.lookup name

/-- decide `getterOk` for the concrete `Ext` (same case analysis as the `Prop`) -/
def getterOkB (s : Shape) (d : Data) (m : Marker) (g : Getter) : Bool :=
  match rangeById m [] s.fields g.field with
  | none => false
  | some .panic => false
  | some .absent => true
  | some (.range a b) =>
    match g.kind with
    | .readAt sz => (readAt d a sz).isSome
    | .readArray elem => decide (a ≤ b) && decide (b ≤ d.len) && decide (elem ≠ 0) && decide ((b - a) % elem = 0)
    | .readArgsArray r args =>
      decide (a ≤ b) && decide (b ≤ d.len) &&
        (match gargVals s d m args with
         | some vs => (match ext.size r vs with | .ok _ => true | .error _ => false)
         | none => false)
    | .readArgsStruct r args =>
      decide (a ≤ b) && decide (b ≤ d.len) &&
        (match gargVals s d m args with
         | some vs => ext.recRead r vs (b - a)
         | none => false)
    | .varLen => decide (a ≤ d.len)
    | .varLenSlice => decide (a ≤ b) && decide (b ≤ d.len)
    | .rangeOnly => true

def handle (cmd : String) (args : List String) : Option String :=
  match cmd, args with
  | "shapes", [] => some (toString Gen.ReadShapes.allShapes.length)
  | "extcheck", [] =>
    match unmodelled tables with
    | [] => some "ok"
    | l => some ("UNMODELLED " ++ " ".intercalate l)
  | "shape", name :: hex :: rest =>
    match findShape name, parseHex? hex, parseNats? rest with
    | some s, some bytes, some argVals =>
      if argVals.length ≠ s.args.length then none else
      let d := mkData bytes
      match run ext s d argVals with
      | .error e => some (errStr e)
      | .ok m =>
        let rs := s.fields.map (fun f => match rangeById m [] s.fields f.id with
                                         | some r => rrStr r
                                         | none => "missing")
        some ("ok " ++ " ".intercalate rs)
    | _, _, _ => none
  | "resolve", name :: hex :: off :: rest =>
    match findShape name, parseHex? hex, parseNat? off, parseNats? rest with
    | some s, some bytes, some off, some argVals =>
      if argVals.length ≠ s.args.length then none else
      let d := mkData bytes
      match resolve ext s d off argVals with
      | .null => some "null"
      | .err e => some (errStr e)
      | .ok m =>
        let rs := s.fields.map (fun f => match rangeById m [] s.fields f.id with
                                         | some r => rrStr r
                                         | none => "missing")
        some ("ok " ++ " ".intercalate rs)
    | _, _, _, _ => none
  | "getters", name :: hex :: rest =>
    match findShape name, parseHex? hex, parseNats? rest with
    | some s, some bytes, some argVals =>
      if argVals.length ≠ s.args.length then none else
      let d := mkData bytes
      match run ext s d argVals with
      | .error _ => some "err"
      | .ok m =>
        let bad := (s.getters.zipIdx.filter (fun (g, _) => !(getterOkB s d m g))).map (fun (_, i) => toString i)
        some (if bad.isEmpty then "ok all" else "ok except " ++ " ".intercalate bad)
    | _, _, _ => none
  | "recread", name :: n :: rest =>
    match parseNat? n, parseNats? rest with
    | some n, some vs =>
      match tables.sizeNames.idxOf? name with
      | some r => some (if ext.recRead r vs n then "1" else "0")
      | none => none
    | _, _ => none
  | "recsize", name :: rest =>
    match parseNats? rest with
    | some vs =>
      match tables.sizeNames.idxOf? name with
      | some r => some (match ext.size r vs with | .ok n => toString n | .error e => errStr e)
      | none => none
    | none => none
  | _, _ => none

end FontVerif.Drv.C01
