/- line-protocol handlers for the C17 outline part (Props/C17Outline.lean)

  c17.decode <hex>          what the read-fonts reader model (Model/Glyf.lean, through `SubsetOutline.decodeGlyph`'s
                            dispatch) decodes a glyph record to:
      simple     S <nc> <xMin> <yMin> <xMax> <yMax> E <endPts…> P <x y on>… F <x y on>… | F none  I <instructions hex>
      composite  C <xMin> <yMin> <xMax> <yMax> K <flags gid (o x y | p base comp) xx yx xy yy>… I <hex | none>
      unreadable err
  c17.decsub <flags> M <old new>… D <hex>
                            `subset_glyph` (model) followed by the decode of its output, and the glyph-id renaming of
                            the original's decode (the two sides of `subset_glyph_decodes_equal`):
      <decode of the subset | empty | readerr | trap> # <renamed decode of the original | none>
-/
import FontVerif.Lemmas.SubsetOutline7
namespace FontVerif.Drv.C17Outline
open FontVerif FontVerif.Subset FontVerif.SubsetOutline

def fmtPoint (p : Glyf.Point) : String := s!"{p.x} {p.y} {if p.on then 1 else 0}"

def fmtAnchor : Glyf.Anchor → String
  | .offset x y => s!"o {x} {y}"
  | .point b c => s!"p {b} {c}"

def fmtComp (c : Glyf.RComponent) : String :=
  s!"{c.flags} {c.glyph} {fmtAnchor c.anchor} {c.transform.xx} {c.transform.yx} {c.transform.xy} {c.transform.yy}"

def listOr (xs : List String) : String := if xs.isEmpty then "-" else " ".intercalate xs

/-- decode with the fast reader's answer attached (simple glyphs) -/
def fmtSimple (v : Glyf.SimpleView) : String :=
  let fast := match v.readPointsFast with
    | none => "none"
    | some l => listOr (l.map (fun (t : Int × Int × Nat) => s!"{t.1} {t.2.1} {t.2.2}"))
  s!"S {v.nContours} {v.xMin} {v.yMin} {v.xMax} {v.yMax} E {joinNats v.endPts} P {listOr (v.points.map fmtPoint)} F {fast} I {toHex v.instructions}"

def fmtComposite (xMin yMin xMax yMax : Int) (cs : List Glyf.RComponent) (instr : Option (List Nat)) : String :=
  s!"C {xMin} {yMin} {xMax} {yMax} K {listOr (cs.map fmtComp)} I {match instr with | none => "none" | some i => toHex i}"

def decodeStr (d : Bytes) : String :=
  if u16At d 0 < 32768 then
    match Glyf.readSimple d with
    | none => "err"
    | some v => fmtSimple v
  else
    match Glyf.readComposite d with
    | none => "err"
    | some v => fmtComposite v.xMin v.yMin v.xMax v.yMax v.components v.instructions

/-- the renamed decode of the original, printed like `decodeStr` (simple: the original's own decode; instructions:
the original's, none under NO_HINTING) -/
def renamedStr (flags : Nat) (gmap : Nat → Option Nat) (d : Bytes) : String :=
  if u16At d 0 < 32768 then
    match Glyf.readSimple d with
    | none => "none"
    | some v => fmtSimple (if hasFlag flags F_NO_HINTING then { v with instructions := [] } else v)
  else
    match Glyf.readComposite d with
    | none => "none"
    | some v =>
      match mapComps flags gmap true v.components with
      | none => "none"
      | some cs => fmtComposite v.xMin v.yMin v.xMax v.yMax cs (if hasFlag flags F_NO_HINTING then none else v.instructions)

def sections (markers : List String) (args : List String) : Option (List (List String)) :=
  match markers with
  | [] => some [args]
  | m :: ms =>
    let pre := args.takeWhile (· ≠ m)
    match args.dropWhile (· ≠ m) with
    | [] => none
    | _ :: rest => (sections ms rest).map (pre :: ·)

def pairList (ts : List String) : Option (List (Nat × Nat)) := do
  let ns ← if ts = ["-"] then some [] else parseNats? ts
  let rec go : List Nat → Option (List (Nat × Nat))
    | [] => some []
    | [_] => none
    | a :: b :: rest => (go rest).map ((a, b) :: ·)
  go ns

def handle (cmd : String) (args : List String) : Option String :=
  match cmd with
  | "c17.decode" => do
    let [h] := args | none
    some (decodeStr (← parseHex? h))
  | "c17.decsub" => do
    let [hd, m, dd] ← sections ["M", "D"] args | none
    let [fl] := hd | none
    let flags ← parseNat? fl
    let map ← pairList m
    let [h] := dd | none
    let d ← parseHex? h
    let gmap := fun old => lookupNat old map
    let lhs := match subsetGlyphBytes flags gmap d with
      | .readErr => "readerr"
      | .trap => "trap"
      | .bytes [] => "empty"
      | .bytes b => decodeStr b
    some s!"{lhs} # {renamedStr flags gmap d}"
  | _ => none

end FontVerif.Drv.C17Outline
