/- line-protocol handlers for the C17 Outline models (stub; see Props/C17Outline.lean) -/
import FontVerif.Model.Base
namespace FontVerif.Drv.C17Outline
open FontVerif

def handle (cmd : String) (args : List String) : Option String :=
  match cmd with
  | _ => none

end FontVerif.Drv.C17Outline
