/- line-protocol handlers for the C17 cmap subsetting model (Model/SubsetCmap.lean)

requests:
  c17.cmap4  <language> <cp gid>…      `Cmap4::serialize` on a plain list (`-` = empty)
  c17.cmap12 <language> <cp gid>…      `Cmap12::serialize`
  c17.ranges <cp gid>…                 `to_ranges`: the (start end delta) triples
  c17.cmap <numGlyphs> <nU> unicodes… <nM> (cp newgid)… <nQ> requested gids… <nG> (old new)… <nR> records…
     record := <platform> <encoding> f4 <lang> <n> ends… starts… deltas… offsets… <m> glyphIdArray…
             | <platform> <encoding> f12 <lang> <n> (start end gid)…
             | <platform> <encoding> f14 <n> { <selector> <0|1> <k> (start count)… <0|1> <k> (unicode gid)… }…
             | <platform> <encoding> fo <format> <lang>     (readable, other format)
             | <platform> <encoding> fu                      (unreadable)
     `Cmap::subset` + the serializer's packing: the whole cmap table
  c17.unicodes4 / c17.unicodes12 : `collect_unicodes` of one subtable (same subtable syntax, after f4 / f12;
     f12 is preceded by numGlyphs)
responses: `ok <hex>` | `err:<flag>` | `trap`
-/
import FontVerif.Model.SubsetCmap
namespace FontVerif.Drv.C17Cmap
open FontVerif FontVerif.SubsetCmap

def natList (ts : List String) : Option (List Nat) :=
  if ts = ["-"] then some [] else parseNats? ts

def pairs : List Nat → Option (List (Nat × Nat))
  | [] => some []
  | [_] => none
  | a :: b :: rest => (pairs rest).map ((a, b) :: ·)

def fmtOut : Out (List Nat) → String
  | .ok b => s!"ok {toHex b}"
  | .err e => s!"err:{e}"
  | .trap => "trap"

/-- token stream parser -/
abbrev P (α : Type) := List String → Option (α × List String)

def pNat : P Nat
  | [] => none
  | t :: ts => (parseNat? t).map (·, ts)

def pInt : P Int
  | [] => none
  | t :: ts => (parseInt? t).map (·, ts)

def pTok : P String
  | [] => none
  | t :: ts => some (t, ts)

def pMany {α : Type} (p : P α) : Nat → P (List α)
  | 0, ts => some ([], ts)
  | n + 1, ts =>
    match p ts with
    | none => none
    | some (a, ts) =>
      match pMany p n ts with
      | none => none
      | some (as, ts) => some (a :: as, ts)

def pCounted {α : Type} (p : P α) : P (List α) := fun ts =>
  match pNat ts with
  | none => none
  | some (n, ts) => pMany p n ts

def pPair : P (Nat × Nat) := fun ts => do
  let (a, ts) ← pNat ts
  let (b, ts) ← pNat ts
  some ((a, b), ts)

def pTriple : P (Nat × Nat × Nat) := fun ts => do
  let (a, ts) ← pNat ts
  let (b, ts) ← pNat ts
  let (c, ts) ← pNat ts
  some ((a, b, c), ts)

def pF4 : P (Nat × Cmap.Cmap4) := fun ts => do
  let (lang, ts) ← pNat ts
  let (n, ts) ← pNat ts
  let (ends, ts) ← pMany pNat n ts
  let (starts, ts) ← pMany pNat n ts
  let (deltas, ts) ← pMany pInt n ts
  let (offs, ts) ← pMany pNat n ts
  let (arr, ts) ← pCounted pNat ts
  some ((lang, { endCode := ends.toArray, startCode := starts.toArray, idDelta := deltas.toArray,
                 idRangeOffsets := offs.toArray, glyphIdArray := arr.toArray }), ts)

def pOptPairs : P (Option (List (Nat × Nat))) := fun ts => do
  let (flag, ts) ← pNat ts
  let (l, ts) ← pCounted pPair ts
  some (if flag = 0 then none else some l, ts)

def pVarSel : P VarSelIn := fun ts => do
  let (sel, ts) ← pNat ts
  let (d, ts) ← pOptPairs ts
  let (n, ts) ← pOptPairs ts
  some ({ selector := sel, defaults := d, nonDefaults := n }, ts)

def pSub : P SubIn := fun ts => do
  let (kind, ts) ← pTok ts
  match kind with
  | "f4" => do
    let ((lang, t), ts) ← pF4 ts
    some (.f4 lang t, ts)
  | "f12" => do
    let (lang, ts) ← pNat ts
    let (gs, ts) ← pCounted pTriple ts
    some (.f12 lang gs, ts)
  | "f14" => do
    let (rs, ts) ← pCounted pVarSel ts
    some (.f14 rs, ts)
  | "fo" => do
    let (f, ts) ← pNat ts
    let (l, ts) ← pNat ts
    some (.other f l, ts)
  | "fu" => some (.unreadable, ts)
  | _ => none

def pRec : P RecIn := fun ts => do
  let (p, ts) ← pNat ts
  let (e, ts) ← pNat ts
  let (s, ts) ← pSub ts
  some ({ platform := p, encoding := e, sub := s }, ts)

def handle (cmd : String) (args : List String) : Option String :=
  match cmd with
  | "c17.cmap4" => do
    let lang :: rest := args | none
    some (fmtOut (serialize4 (← parseNat? lang) (← pairs (← natList rest))))
  | "c17.cmap12" => do
    let lang :: rest := args | none
    some (fmtOut (serialize12 (← parseNat? lang) (← pairs (← natList rest))))
  | "c17.ranges" => do
    match toRanges (← pairs (← natList args)) with
    | none => some "trap"
    | some rs => some (" ".intercalate (rs.map (fun r => s!"{r.1}:{r.2.1}:{r.2.2}")))
  | "c17.cmap" => do
    let (numGlyphs, ts) ← pNat args
    let (us, ts) ← pCounted pNat ts
    let (u2g, ts) ← pCounted pPair ts
    let (req, ts) ← pCounted pNat ts
    let (gm, ts) ← pCounted pPair ts
    let (recs, ts) ← pCounted pRec ts
    if !ts.isEmpty then none else
    -- an `Err` that set the serializer's error flag makes `subset_font` fail; any other `Err` drops the table
    match subsetCmap recs { unicodes := us, u2g := u2g, glyphsRequested := req, glyphMap := gm,
                            numGlyphs := numGlyphs } with
    | .ok b => some s!"ok {toHex b}"
    | .err "int-overflow" => some "fail"
    | .err _ => some "absent"
    | .trap => some "trap"
  | "c17.unicodes4" => do
    let ((_, t), ts) ← pF4 args
    if !ts.isEmpty then none else
    some (joinNats ((collect4 t).mergeSort (· ≤ ·)).eraseDups)
  | "c17.unicodes12" => do
    let (numGlyphs, ts) ← pNat args
    let (gs, ts) ← pCounted pTriple ts
    if !ts.isEmpty then none else
    some (joinNats ((collect12 gs numGlyphs).mergeSort (· ≤ ·)).eraseDups)
  | _ => none

end FontVerif.Drv.C17Cmap
