/- line-protocol handlers for the C17 cmap subsetting model (Model/SubsetCmap.lean)

requests:
  c17.cmap4  <language> <cp gid>…      `Cmap4::serialize` on a plain list (`-` = empty)
  c17.cmap12 <language> <cp gid>…      `Cmap12::serialize`
  c17.ranges <cp gid>…                 `to_ranges`: the (start end delta) triples
responses: `ok <hex>` | `err:<flag>` | `trap`
-/
import FontVerif.Model.SubsetCmap
namespace FontVerif.Drv.C17Cmap
open FontVerif FontVerif.SubsetCmap

def natList (ts : List String) : Option (List Nat) :=
  if ts = ["-"] then some [] else parseNats? ts

def pairs : List Nat → Option (List (Nat × Nat))
  | [] => some []
  | [_] => none
  | a :: b :: rest => (pairs rest).map ((a, b) :: ·)

def fmtOut : Out (List Nat) → String
  | .ok b => s!"ok {toHex b}"
  | .err e => s!"err:{e}"
  | .trap => "trap"

def handle (cmd : String) (args : List String) : Option String :=
  match cmd with
  | "c17.cmap4" => do
    let lang :: rest := args | none
    some (fmtOut (serialize4 (← parseNat? lang) (← pairs (← natList rest))))
  | "c17.cmap12" => do
    let lang :: rest := args | none
    some (fmtOut (serialize12 (← parseNat? lang) (← pairs (← natList rest))))
  | "c17.ranges" => do
    match toRanges (← pairs (← natList args)) with
    | none => some "trap"
    | some rs => some (" ".intercalate (rs.map (fun r => s!"{r.1}:{r.2.1}:{r.2.2}")))
  | _ => none

end FontVerif.Drv.C17Cmap
