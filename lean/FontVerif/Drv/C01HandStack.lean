/- line-protocol handler for Model/HandStack.lean: `hs.run <op>…` → one token per op, ` | top digest`.
ops: `p<int>` push i32, `P<int>` push Fixed bits, `o` pop_i32, `r` reverse, `n` number_values, `f` fixed_values,
`a<N>:<first>` fixed_array::<N>, `c` clear, `b<rc>:<s,s,…|->` apply_blend (scalars: bits or `e` = Err item). -/
import FontVerif.Model.HandStack
import FontVerif.Drv.C01Iter
namespace FontVerif.Drv.C01HandStack
open FontVerif FontVerif.HandStack

def u32 (v : Int) : Nat := (v % 4294967296).toNat

def errStr : SErr → String
  | .overflow => "eSO"
  | .underflow => "eSU"
  | .expectedI32 i => s!"eI{i}"
  | .invalidAccess i => s!"eSA{i}"
  | .blend => "eB"

def unitStr : Res Unit → String
  | .ok () => "k"
  | .err e => errStr e
  | .trap => "trap"

def parseScalar (s : String) : Option (Option Int) :=
  if s = "e" then some none else s.toInt?.map some

def parseOp (s : String) : Option Op :=
  match s.toList with
  | ['o'] => some .pop
  | ['r'] => some .rev
  | ['n'] => some .nums
  | ['f'] => some .fixeds
  | ['c'] => some .clr
  | 'p' :: rest => (String.ofList rest).toInt?.map .pushI
  | 'P' :: rest => (String.ofList rest).toInt?.map .pushF
  | 'a' :: rest =>
    match (String.ofList rest).splitOn ":" with
    | [n, f] => match n.toNat?, f.toNat? with
      | some n, some f => some (.arr n f)
      | _, _ => none
    | _ => none
  | 'b' :: rest =>
    match (String.ofList rest).splitOn ":" with
    | [rc, ss] => match rc.toNat? with
      | none => none
      | some rc =>
        if ss = "-" then some (.blend rc [])
        else ((ss.splitOn ",").mapM parseScalar).map (.blend rc)
    | _ => none
  | _ => none

def runOp (s : St) : Op → String × St
  | .pushI v => let r := push s v false; (unitStr r.1, r.2)
  | .pushF v => let r := push s v true; (unitStr r.1, r.2)
  | .pop => match popI32 s with
    | (.ok v, s') => (toString v, s')
    | (.err e, s') => (errStr e, s')
    | (.trap, s') => ("trap", s')
  | .rev => let r := reverse s; (unitStr r.1, r.2)
  | .nums => match numberValues s with
    | none => ("trap", s)
    | some xs => (s!"{xs.length}:{Drv.C01Iter.fnv (xs.flatMap (fun p => [if p.1 then 1 else 0, u32 p.2]))}", s)
  | .fixeds => match fixedValues s with
    | none => ("trap", s)
    | some xs => (s!"{xs.length}:{Drv.C01Iter.fnv (xs.map u32)}", s)
  | .arr n first => match fixedArray s n first with
    | .ok xs => (s!"ok{Drv.C01Iter.fnv (xs.map u32)}", s)
    | .err e => (errStr e, s)
    | .trap => ("trap", s)
  | .clr => (".", clear s)
  | .blend rc scalars => let r := applyBlend s rc scalars; (unitStr r.1, r.2)

def runOps : St → List Op → List String × St
  | s, [] => ([], s)
  | s, op :: rest =>
    let r := runOp s op
    let t := runOps r.2 rest
    (r.1 :: t.1, t.2)

/-- every slot as the public API shows it: `get_i32(i)` value, or the `get_fixed(i)` bits of a fixed slot -/
def digest (s : St) : Nat :=
  Drv.C01Iter.fnv ((s.vals.zip s.fx).flatMap (fun p => [if p.2 then 1 else 0, u32 p.1]))

def handle (cmd : String) (args : List String) : Option String :=
  match cmd, args with
  | "hs.run", ops =>
    let ops := if ops = ["-"] then [] else ops
    match ops.mapM parseOp with
    | none => none
    | some ops =>
      let r := runOps St.new ops
      some ((if r.1.isEmpty then "-" else " ".intercalate r.1) ++ s!" | {r.2.top} {digest r.2}")
  | _, _ => none

end FontVerif.Drv.C01HandStack
