/- line-protocol handlers for the C17 HVAR/VVAR subsetting model (Model/SubsetHvar.lean)

requests (space separated; sections introduced by single capital letters):
  c17.hvar.table <retain 0|1> <axisCount>
       R <nRegions> <start peak end>…                 (nRegions * axisCount triples)
       T <nSubtables> { n | b | o <itemCount> <wordDeltaCount> <ric> <ri>… <hex delta sets> }…
       P <nMaps> { n | m <entryFormat> <mapCount> <hex map data> }…
       N <new old>… | -
       G <gid>… | -
  response: ok rl=<hex> subs=<hex>,… maps=<hex | null>,…   |  dropped | fail | trap
  c17.hvar.delta  <table request> D <map index> <gid> C <coord>… | -
       response: ok <Fixed bits of the delta (delta << 16)> | err      (read-fonts advance_delta / item_delta)
  c17.hvar.store  same request; response: the retained old region indices and, per output subtable,
       itemCount/wordDeltaCount/regionIndexes (plain data, for diagnosis)
-/
import FontVerif.Model.SubsetHvar
namespace FontVerif.Drv.C17Hvar
open FontVerif FontVerif.SubsetHvar

def splitAt (marker : String) (args : List String) : Option (List String × List String) :=
  let pre := args.takeWhile (· ≠ marker)
  match args.dropWhile (· ≠ marker) with
  | [] => none
  | _ :: rest => some (pre, rest)

def natList (ts : List String) : Option (List Nat) :=
  if ts = ["-"] then some [] else parseNats? ts

def pairs : List Nat → Option (List (Nat × Nat))
  | [] => some []
  | [_] => none
  | a :: b :: rest => (pairs rest).map ((a, b) :: ·)

def triples : List Int → Option (List (Int × Int × Int))
  | [] => some []
  | a :: b :: c :: rest => (triples rest).map ((a, b, c) :: ·)
  | _ => none

def chunk {α} (k : Nat) : Nat → List α → List (List α)
  | 0, _ => []
  | n + 1, xs => xs.take k :: chunk k n (xs.drop k)

def parseSubs : Nat → List String → Option (List SubIn)
  | 0, [] => some []
  | 0, _ => none
  | n + 1, "n" :: rest => (parseSubs n rest).map (SubIn.null :: ·)
  | n + 1, "b" :: rest => (parseSubs n rest).map (SubIn.bad :: ·)
  | n + 1, "o" :: ic :: wdc :: ric :: rest => do
    let ic ← parseNat? ic
    let wdc ← parseNat? wdc
    let ric ← parseNat? ric
    if rest.length < ric + 1 then none else
    let ris ← parseNats? (rest.take ric)
    let data ← parseHex? ((rest.drop ric).headD "")
    let more ← parseSubs n (rest.drop (ric + 1))
    some (SubIn.ok { itemCount := ic, wordDeltaCount := wdc, regionIndexes := ris, data } :: more)
  | _, _ => none

def parseMaps : Nat → List String → Option (List (Option MapIn))
  | 0, [] => some []
  | 0, _ => none
  | n + 1, "n" :: rest => (parseMaps n rest).map (none :: ·)
  | n + 1, "m" :: ef :: mc :: h :: rest => do
    let ef ← parseNat? ef
    let mc ← parseNat? mc
    let data ← parseHex? h
    let more ← parseMaps n rest
    some (some { entryFormat := ef, mapCount := mc, data } :: more)
  | _, _ => none

def parseTable (args : List String) : Option TableIn := do
  let (hd, rest) ← splitAt "R" args
  let [retain, axisCount] ← parseNats? hd | none
  let (r, rest) ← splitAt "T" rest
  let (t, rest) ← splitAt "P" rest
  let (p, rest) ← splitAt "N" rest
  let (n, g) ← splitAt "G" rest
  let nRegions :: rts := r | none
  let nRegions ← parseNat? nRegions
  let tr ← triples (← parseInts? rts)
  if tr.length ≠ nRegions * axisCount then none else
  let regions := chunk axisCount nRegions tr
  let nSubs :: tts := t | none
  let subs ← parseSubs (← parseNat? nSubs) tts
  let nMaps :: pts := p | none
  let maps ← parseMaps (← parseNat? nMaps) pts
  let n2o ← pairs (← natList n)
  let glyphset ← natList g
  if retain > 1 then none else
  some { axisCount, regions, subs, maps, n2o, glyphset, retainGids := retain = 1 }

def errStr : Err → String
  | .dropped => "dropped"
  | .fail => "fail"
  | .trap => "trap"

def commaJoin (xs : List String) : String := if xs.isEmpty then "-" else ",".intercalate xs

def fmtTable (o : TableOut) : String :=
  let rl := toHex (regionListBytes o.store.axisCount o.store.regions)
  let subs := commaJoin (o.store.subs.map fun st => toHex (subBytes st))
  let maps := commaJoin (o.maps.map fun m => match m with
    | none => "null"
    | some m => toHex (mapBytes m))
  s!"ok rl={rl} subs={subs} maps={maps}"

def fmtStore (o : TableOut) : String :=
  let subs := commaJoin (o.store.subs.map fun st =>
    s!"{st.itemCount}/{st.wordDeltaCount}/{joinNats st.regionIndexes}")
  s!"ok regions={joinNats o.store.regionMap} subs={subs}"

def handle (cmd : String) (args : List String) : Option String :=
  match cmd with
  | "c17.hvar.table" => do
    let t ← parseTable args
    match subsetTable t with
    | .error e => some (errStr e)
    | .ok o => some (fmtTable o)
  | "c17.hvar.store" => do
    let t ← parseTable args
    match subsetTable t with
    | .error e => some (errStr e)
    | .ok o => some (fmtStore o)
  | "c17.hvar.delta" => do
    -- <table request> D <map index> <gid> C <coord>… | -   (the reader of the theorems: readerDelta)
    let (targs, rest) ← splitAt "D" args
    let t ← parseTable targs
    let (kd, cs) ← splitAt "C" rest
    let [k, gid] ← parseNats? kd | none
    let coords ← if cs = ["-"] then some [] else parseInts? cs
    if t.subs.any (fun s => match s with | .bad => true | _ => false) then some "unsupported" else
    match readerDelta t.regions (t.subs.map SubIn.toReader)
        ((t.maps.getD k none).map MapIn.triple) (k == 0) gid coords with
    | none => some "err"
    | some v => some s!"ok {wrapI32 (v * 65536)}"
  | _ => none

end FontVerif.Drv.C17Hvar
