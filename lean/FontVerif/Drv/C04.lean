/- line-protocol handlers for the C04 model (Model/Field.lean) on the translator-emitted programs
(Gen/WriteProgs.lean).

`rt <Type> <hex>`: parse the bytes with the reader layout of `<Type>`; answer every visible field's raw value in
layout order, then whether re-emitting the owned value with the writer program of `<Type>` reproduces the parsed
prefix of the input byte for byte (hand-written `compute_*` fields are re-supplied from the parsed value):
`ok name=v name=[a,b] name=[(a.b),(c.d)] … | 1`; `err:parse` when the layout does not fit the bytes;
`uncovered` when the translator has no pair for the type. -/
import FontVerif.Model.Field
import FontVerif.Gen.WriteProgs
namespace FontVerif.Drv.C04
open FontVerif FontVerif.Field

def renderVal (kind : String) : Val → String
  | .num n => toString n
  | .absent => "absent"
  | .arr xs =>
    if kind == "R" then
      "[" ++ ",".intercalate (xs.map fun r => "(" ++ ".".intercalate (r.map toString) ++ ")") ++ "]"
    else
      "[" ++ ",".intercalate (xs.map fun r => ".".intercalate (r.map toString)) ++ "]"

/-- the statement that writes hand-written computed field `k` -/
def computedId (ws : List WF) (k : Nat) : Option Nat :=
  (ws.find? fun w => match w.item with | .scalar (.computed k') _ => k' == k | _ => false).map (·.id)

def renderFields (names shows : List String) (hidden : List Bool) (rs : List RF) (view : View) : List String :=
  let rec go : List String → List String → List Bool → List RF → List String
    | n :: ns, s :: ss, h :: hs, r :: rs =>
      let tail := go ns ss hs rs
      match view.lookup r.id with
      | some .absent => tail
      | some v => if h then tail else (n ++ "=" ++ renderVal s v) :: tail
      | none => tail
    | _, _, _, _ => []
  go names shows hidden rs

def rt (ty : String) (bytes : Bytes) : String :=
  match Gen.WriteProgs.allPairs.find? (fun p => p.1 == ty) with
  | none => "uncovered"
  | some (_, names, shows, hidden, ws, rs) =>
    match parse rs [] bytes with
    | none => "err:parse"
    | some (view, rest) =>
      let fields := renderFields names shows hidden rs view
      let o := toObj ws view
      let ext : Ext := fun k _ => match computedId ws k with | some i => numAt view i | none => 0
      let again :=
        match emit ext o ws [] with
        | some (bs, view') => bs ++ rest == bytes && view' == view
        | none => false
      let fs := if fields.isEmpty then "-" else " ".intercalate fields
      s!"ok {fs} | {if again then 1 else 0}"

def handle (cmd : String) (args : List String) : Option String :=
  match cmd, args with
  | "rt", [ty, hex] =>
    match parseHex? hex with
    | some bs => some (rt ty bs)
    | none => none
  | _, _ => none

end FontVerif.Drv.C04
