/- line-protocol handlers for the C04 model (Model/Field.lean) on the translator-emitted programs
(Gen/WriteProgs.lean).

`rt <Type> <hex> [<arg> …]`: parse the bytes with the reader layout of `<Type>` (for a reader with external arguments
the request carries their raw values, in `ReadArgs` order); answer every visible field's raw value in layout order, then whether re-emitting the owned value with the writer program of `<Type>` reproduces the parsed
prefix of the input byte for byte (hand-written `compute_*` fields are re-supplied from the parsed value):
`ok name=v name=[a,b] name=[(a.b),(c.d)] … | 1`; `err:parse` when the layout does not fit the bytes;
`uncovered` when the translator has no pair for the type. -/
import FontVerif.Model.Field
import FontVerif.Model.ValueRecord
import FontVerif.Model.NameStr
import FontVerif.Gen.WriteProgs
import FontVerif.Drv.TableWriter
namespace FontVerif.Drv.C04
open FontVerif FontVerif.Field

def renderVal (kind : String) : Val → String
  | .num n => toString n
  | .absent => "absent"
  | .arr xs =>
    if kind == "R" then
      "[" ++ ",".intercalate (xs.map fun r => "(" ++ ".".intercalate (r.map toString) ++ ")") ++ "]"
    else if kind.startsWith "L" then
      -- length-prefixed records: the count the reader finds in front of the items, then the items
      let il := (kind.drop 1).toNat!
      "[" ++ ",".intercalate (xs.map fun r => "(" ++ ".".intercalate ((r.length / il :: r).map toString) ++ ")") ++ "]"
    else if kind == "V1" then
      -- one inline record (`value_record: ValueRecord`)
      ",".intercalate (xs.map fun r => "(" ++ ".".intercalate (r.map toString) ++ ")")
    else
      "[" ++ ",".intercalate (xs.map fun r => ".".intercalate (r.map toString)) ++ "]"

/-- the statement that writes hand-written computed field `k` -/
def computedId (ws : List WF) (k : Nat) : Option Nat :=
  (ws.find? fun w => match w.item with | .scalar (.computed k') _ => k' == k | _ => false).map (·.id)

def renderFields (names shows : List String) (hidden : List Bool) (rs : List RF) (view : View) : List String :=
  let rec go : List String → List String → List Bool → List RF → List String
    | n :: ns, s :: ss, h :: hs, r :: rs =>
      let tail := go ns ss hs rs
      match view.lookup r.id with
      | some .absent => tail
      | some v => if h then tail else (n ++ "=" ++ renderVal s v) :: tail
      | none => tail
    | _, _, _, _ => []
  go names shows hidden rs

/-- the initial view of a reader with arguments: argument `i` is entry `argBase + i` -/
def argView (args : List Nat) : View :=
  let rec go : List Nat → Nat → View
    | [], _ => []
    | a :: as, i => (argBase + i, .num a) :: go as (i + 1)
  go args 0

/-- For the re-emission check only: a `ComputedArray` of zero-sized items reads back empty although its count says `n`
(known finding, `RItem.arrayV … true`); the bytes are those of `n` empty records, so the owned value that is re-emitted
gets `n` empty records back. -/
def restoreZeroSized (rs : List RF) (view : View) : View :=
  let rec go : List RF → View → View → View
    | [], _, acc => acc
    | r :: rs, pre, acc =>
      -- `pre`: what the reader had seen when it reached `r` (entries are most recent first)
      let seen := pre
      match r.item, view.lookup r.id with
      | .arrayV cnt segs true, some (.arr []) =>
        let ws := evalSegs seen segs
        let n := evalCount seen [] ws cnt
        let v := if condHolds seen r.cond && elemSize ws == 0 then Val.arr (List.replicate n []) else .arr []
        go rs ((r.id, .arr []) :: pre) (acc.map fun e => if e.1 == r.id then (e.1, v) else e)
      | _, some v => go rs ((r.id, v) :: pre) acc
      | _, none => go rs pre acc
  go rs (view.filter fun e => e.1 ≥ argBase) view

def rt (ty : String) (bytes : Bytes) (args : List Nat) : String :=
  match Gen.WriteProgs.allPairs.find? (fun p => p.1 == ty) with
  | none => "uncovered"
  | some (_, names, shows, hidden, nargs, ws, rs) =>
    if nargs != args.length then "err:args" else
    let av := argView args
    match parse rs av bytes with
    | none => "err:parse"
    | some (view, rest) =>
      let fields := renderFields names shows hidden rs view
      let viewZ := restoreZeroSized rs view
      let o := toObj ws viewZ
      let ext : Ext := fun k _ => match computedId ws k with | some i => numAt view i | none => 0
      let again :=
        match emit ext o ws av with
        | some (bs, view') => bs ++ rest == bytes && view' == viewZ
        | none => false
      let fs := if fields.isEmpty then "-" else " ".intercalate fields
      s!"ok {fs} | {if again then 1 else 0}"

/-- `-` = `None`, else a decimal number -/
def optNat? (s : String) : Option (Option Nat) :=
  if s == "-" then some none else (parseNat? s).map some

def showOpt : Option Nat → String
  | none => "-"
  | some v => toString v

/-- `vr <explicit|-> <xp> <yp> <xa> <ya> <d1> <d2> <d3> <d4>` (each `-` or a number; a device slot is the offset the
packer assigned): `<format> <written bytes> <encoded size> | <re-read owned record, same nine fields>` -/
def vr (args : List (Option Nat)) : Option String :=
  match args with
  | [e, a, b, c, d, p, q, r, s] =>
    let o : ValueRecord.Owned := { explicitFormat := e, xPlacement := a, yPlacement := b, xAdvance := c, yAdvance := d,
                                   xPlaDev := p, yPlaDev := q, xAdvDev := r, yAdvDev := s }
    let f := ValueRecord.format o
    let bs := ValueRecord.write o
    let back :=
      match ValueRecord.read f bs with
      | some (pr, []) =>
        let w := ValueRecord.toOwned pr
        " ".intercalate ([w.explicitFormat, w.xPlacement, w.yPlacement, w.xAdvance, w.yAdvance, w.xPlaDev, w.yPlaDev,
          w.xAdvDev, w.yAdvDev].map showOpt)
      | some (_, _ :: _) => "err:trailing"
      | none => "err:OutOfBounds"
    some s!"{f} {toHex bs} {ValueRecord.encodedSize f} | {back}"
  | _ => none

def showOwned (w : ValueRecord.Owned) : String :=
  " ".intercalate ([w.explicitFormat, w.xPlacement, w.yPlacement, w.xAdvance, w.yAdvance, w.xPlaDev, w.yPlaDev,
    w.xAdvDev, w.yAdvDev].map showOpt)

/-- `sp <hex>`: a compiled SinglePos subtable (format 1 or 2) parsed with Model/ValueRecord.lean:
`1 <coverage offset> <value format> | <re-read owned record> | <re-emitted bytes == input prefix>` or
`2 <coverage offset> <value format> <value count> | <record>;<record>… | <0/1>` -/
def sp (bs : Bytes) : String :=
  match ValueRecord.readU16 bs with
  | some (1, _) =>
    match ValueRecord.readSP1 bs with
    | some (_, cov, p, rest) =>
      let o := ValueRecord.toOwned p
      let again := ValueRecord.writeSP1 { coverageOffset := cov, record := o } ++ rest == bs
      s!"1 {cov} {p.format} | {showOwned o} | {if again then 1 else 0}"
    | none => "err:OutOfBounds"
  | some (2, _) =>
    match ValueRecord.readSP2 bs with
    | some (_, cov, vf, cnt, ps, rest) =>
      let os := ps.map ValueRecord.toOwned
      let again := match ValueRecord.writeSP2 { coverageOffset := cov, records := os } with
        | some b => b ++ rest == bs
        | none => false
      let recs := if os.isEmpty then "-" else ";".intercalate (os.map showOwned)
      s!"2 {cov} {vf} {cnt} | {recs} | {if again then 1 else 0}"
    | none => "err:OutOfBounds"
  | _ => "err:format"

def showEnc : NameStr.Encoding → String
  | .utf16be => "Utf16Be"
  | .macRoman => "MacRoman"
  | .unknown => "Unknown"

/-- `ns <platform> <encoding> <code points…|->`: `<Encoding> rejected` when
`validate_string_data` reports, else `<Encoding> <compute_length|trap> <string bytes|trap> | <decoded chars>` -/
def ns (platform encoding : Nat) (cps : List Nat) : String :=
  let enc := NameStr.Encoding.new platform encoding
  -- `NameStringAndLenWriter::write_into` computes the length first, then the string object is written: either panic
  -- aborts the compilation
  if !NameStr.validateString enc cps then s!"{showEnc enc} rejected" else
  match NameStr.computeLength enc cps, NameStr.encodeString enc cps with
  | some len, some bs => s!"{showEnc enc} {len} {toHex bs} | {joinInts ((NameStr.decodeString enc bs).map Int.ofNat)}"
  | _, _ => s!"{showEnc enc} trap trap | -"

def handle (cmd : String) (args : List String) : Option String :=
  match cmd, args with
  | "vr", _ =>
    match args.mapM optNat? with
    | some xs => vr xs
    | none => none
  | "sp", [hex] =>
    match parseHex? hex with
    | some bs => some (sp bs)
    | none => none
  | "ns", p :: e :: cps =>
    match parseNat? p, parseNat? e, (if cps == ["-"] then some [] else parseNats? cps) with
    | some p, some e, some cps => some (ns p e cps)
    | _, _, _ => none
  | "rt", ty :: hex :: args =>
    match parseHex? hex, args.mapM parseNat? with
    | some bs, some as => some (rt ty bs as)
    | _, _ => none
  | _, _ => FontVerif.Drv.TableWriter.handle cmd args  -- tw.*: the C04 ⇄ C05 bridge (Drv/TableWriter.lean)

end FontVerif.Drv.C04
