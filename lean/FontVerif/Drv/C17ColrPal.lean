/- line-protocol handler for the COLR palette closure model (Model/SubsetColrPal.lean)
  c17.colr.v0pal R <gid first num>… L <gid pal>… G <gid>…   → ascending palette indices (`-` = none)
  c17.colr.v1pal <COLR table hex> G <gid>…                   → ascending palette indices `v1_closure` collects | rerr | fuel | trap
  c17.colr.pals  V <v1 idx>… R … L … G …                     → `colr_palettes` as `old new` pairs
-/
import FontVerif.Model.SubsetColrPal
import FontVerif.Model.HandColr
namespace FontVerif.Drv.C17ColrPal
open FontVerif FontVerif.SubsetColrPal

def sections (markers : List String) (args : List String) : Option (List (List String)) :=
  match markers with
  | [] => some [args]
  | m :: ms =>
    let pre := args.takeWhile (· ≠ m)
    match args.dropWhile (· ≠ m) with
    | [] => none
    | _ :: rest => (sections ms rest).map (pre :: ·)

def natList (ts : List String) : Option (List Nat) := if ts = ["-"] then some [] else parseNats? ts

def triples : List Nat → Option (List (Nat × Nat × Nat))
  | [] => some []
  | a :: b :: c :: rest => (triples rest).map ((a, b, c) :: ·)
  | _ => none

def pairs : List Nat → Option (List (Nat × Nat))
  | [] => some []
  | a :: b :: rest => (pairs rest).map ((a, b) :: ·)
  | _ => none

def handle (cmd : String) (args : List String) : Option String :=
  match cmd with
  | "c17.colr.v0pal" => do
    let [_, r, l, g] ← sections ["R", "L", "G"] args | none
    let recs ← triples (← natList r)
    let layers ← pairs (← natList l)
    some (joinNats (paletteSet (v0Palettes recs layers (← natList g))))
  | "c17.colr.pals" => do
    let [_, v, r, l, g] ← sections ["V", "R", "L", "G"] args | none
    let recs ← triples (← natList r)
    let layers ← pairs (← natList l)
    let ps := colrPalettes (← natList v) recs layers (← natList g)
    some (joinNats (ps.flatMap (fun p => [p.1, p.2])))
  | "c17.colr.v1pal" => do
    let hex :: rest := args | none
    let [_, g] ← sections ["G"] rest | none
    let d ← parseHex? hex
    let gids ← natList g
    match HandColr.colrRead d with
    | none => some "rerr"
    | some t =>
      let c := (HandColr.v1ClosureOf t gids).1
      if c.starved then some "fuel" else if c.trap then some "trap"
      else some (joinNats (paletteSet c.palettes))
  | _ => none

end FontVerif.Drv.C17ColrPal
