/- line-protocol handlers for Model/HandGlyf.lean.  All commands are prefixed `hg.`.

* `hg.points <glyph hex>`                      generated `SimpleGlyph::read`, then `num_points`,
                                               `has_overlapping_contours`, `points()`
* `hg.fast <glyph hex> <pl> <fl> <p> <mask>`   `read_points_fast::<i32>` on a point buffer of `pl` and a
                                               flag buffer of `fl` entries, each preset to bits `p`
* `hg.comp <glyph hex>`                        generated `CompositeGlyph::read`, then `components()`,
                                               `component_glyphs_and_flags()`, `count_and_instructions()`,
                                               `instructions()`
* `hg.loca <0|1> <loca hex> <glyf hex> | <indices> | <glyph ids>`
                                               `Loca::read`, `len`, `is_empty`,
                                               `all_offsets_are_ascending`, `get_raw`, `get_glyf`
-/
import FontVerif.Model.HandGlyf
import FontVerif.Drv.C01Iter
namespace FontVerif.Drv.C01HandGlyf
open FontVerif FontVerif.ReadIter FontVerif.HandRead FontVerif.HandGlyf

def u16OfInt (v : Int) : Nat := (v % 65536).toNat
def u32OfInt (v : Int) : Nat := (v % 4294967296).toNat

def gerrStr : GErr → String
  | .oob => "eO"
  | .invalidArrayLen => "eL"
  | .malformed => "eM"

/-- the parts of a simple glyph the hand-written functions work on: `end_pts_of_contours()` and
`glyph_data()` of the generated reader (`Glyf.readSimple`) -/
def simpleParts (b : List Nat) : Option (List Nat × List Nat) :=
  (Glyf.readSimple b).map (fun v => (v.endPts, v.glyphData))

/-- generated `CompositeGlyph::read`: ten header bytes, the rest is `component_data()` -/
def compositeData (b : List Nat) : Option (List Nat) :=
  if b.length < 10 then none else some (b.drop 10)

/-- generated `Glyph::read` succeeds (format dispatch on the sign of `numberOfContours`) -/
def glyphReadOk (b : List Nat) : Bool :=
  match Glyf.i16At b 0 with
  | none => false
  | some nc => if nc ≥ 0 then (Glyf.readSimple b).isSome else decide (b.length ≥ 10)

def ptRow (p : Pt) : List Nat := [u16OfInt p.1, u16OfInt p.2.1, if p.2.2 then 1 else 0]

def compRow (c : Comp) : List Nat :=
  let a := match c.anchor with
    | .offset x y => [1, u16OfInt x, u16OfInt y]
    | .point b k => [2, b, k]
  -- … and `Anchor::compute_flags` / `Transform::compute_flags` of the decoded values (Model/Glyf.lean)
  [c.flags, c.gid] ++ a ++ [u16OfInt c.t.xx, u16OfInt c.t.yx, u16OfInt c.t.xy, u16OfInt c.t.yy,
    c.anchor.computeFlags, c.t.computeFlags]

def natsOrEmpty (xs : List String) : Option (List Nat) := if xs = ["-"] then some [] else parseNats? xs

def splitBar (xs : List String) : List String × List String :=
  (xs.takeWhile (· ≠ "|"), (xs.dropWhile (· ≠ "|")).drop 1)

def joinStrs (xs : List String) : String := if xs.isEmpty then "-" else " ".intercalate xs

def handle (cmd : String) (args : List String) : Option String :=
  match cmd, args with
  | "hg.points", [hex] =>
    match parseHex? hex with
    | none => none
    | some b =>
      match simpleParts b with
      | none => some "err"
      | some (ends, gd) =>
        let np := match numPoints ends with | some n => toString n | none => "trap"
        let ov := if hasOverlappingContours gd then 1 else 0
        match points ends gd with
        | none => some s!"{np} {ov} trap"
        | some evs =>
          if trapped evs then some s!"{np} {ov} trap"
          else some s!"{np} {ov} {Drv.C01Iter.summary ((items evs).map ptRow)}"
  | "hg.fast", [hex, pl, fl, p, mask] =>
    match parseHex? hex, pl.toNat?, fl.toNat?, p.toNat?, mask.toNat? with
    | some b, some pl, some fl, some p, some mask =>
      match simpleParts b with
      | none => some "err"
      | some (ends, gd) =>
        match readPointsFast ends gd pl (List.replicate fl p) mask with
        | .err e => some (gerrStr e)
        | .trap => some "trap"
        | .fuel => some "fuel"
        | .ok pts => some s!"ok {Drv.C01Iter.summary (pts.map (fun t => [u32OfInt t.1, u32OfInt t.2.1, t.2.2]))}"
    | _, _, _, _, _ => none
  | "hg.comp", [hex] =>
    match parseHex? hex with
    | none => none
    | some b =>
      match compositeData b with
      | none => some "err"
      | some d =>
        let comps := match components d with
          | none => "fuel"
          | some evs => if trapped evs then "trap" else Drv.C01Iter.summary ((items evs).map compRow)
        let gf := match glyphsAndFlags d with
          | none => "fuel"
          | some evs => if trapped evs then "trap" else Drv.C01Iter.summary ((items evs).map (fun (p : Nat × Nat) => [p.1, p.2]))
        let instrStr := fun (i : Option (Nat × Nat)) => match i with
          | none => "n"
          | some (a, k) => s!"{k}:{Drv.C01Iter.fnv ((d.drop a).take k)}"
        let ci := match countAndInstructions d with
          | .ok (count, instr) => s!"{count} {instrStr instr}"
          | .err e => gerrStr e
          | .trap => "trap"
          | .fuel => "fuel"
        let ins := match instructions d with
          | .ok instr => instrStr instr
          | .err e => gerrStr e
          | .trap => "trap"
          | .fuel => "fuel"
        some s!"{comps} | {gf} | {ci} {ins}"
  | "hg.loca", long :: lhex :: ghex :: rest =>
    let (_, r1) := splitBar rest
    let (idxS, gidS) := splitBar r1
    match parseHex? lhex, parseHex? ghex, natsOrEmpty idxS, natsOrEmpty gidS with
    | some ld, some gd, some idxs, some gids =>
      if long ≠ "0" ∧ long ≠ "1" then none else
      match locaRead ld (long = "1") with
      | .error .oob => some "eO"
      | .error .invalidArrayLen => some "eL"
      | .ok l =>
        let raws := idxs.map (fun i => match l.getRaw i with
          | .ok (some v) => toString v
          | .ok none => "-"
          | .err e => gerrStr e
          | .trap => "trap"
          | .fuel => "fuel")
        let ggs := gids.map (fun g => match l.getGlyf gd.length g with
          | .err e => gerrStr e
          | .trap => "trap"
          | .none => "n"
          | .slice a b => if glyphReadOk ((gd.drop a).take (b - a)) then s!"s{a}:{b}" else "eO")
        some s!"{l.len} {if l.isEmpty then 1 else 0} {if l.allAscending then 1 else 0} | {joinStrs raws} | {joinStrs ggs}"
    | _, _, _, _ => none
  | _, _ => none

end FontVerif.Drv.C01HandGlyf
