/- line-protocol handlers for Model/HandGlyf.lean.  All commands are prefixed `hg.`. -/
import FontVerif.Model.HandGlyf
namespace FontVerif.Drv.C01HandGlyf
open FontVerif FontVerif.ReadIter FontVerif.HandRead FontVerif.HandGlyf

def handle (cmd : String) (args : List String) : Option String :=
  match cmd, args with
  | _, _ => none

end FontVerif.Drv.C01HandGlyf
