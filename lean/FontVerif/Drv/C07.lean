/- line-protocol handlers for the C07 models (Model/Determinism.lean)

  sched <c0> <thread> <thread> …        → `t=id,id,… t=…` (threads ascending): ids each thread obtains
  fromstore <obj> <obj> …               → ids of `Graph::from_obj_store` in BTreeMap order (objects given in the
                                           hash map's iteration order)
  kahn <root> <obj> …                   → write order of `sort_kahn`
  pack <root> <obj> …                   → hex of `serialize` after `sort_kahn` (graphs without overflow)
  roots <roots|-> <old:new> …           → `renameRoots`
  inst <id,id,…> <tmpl obj> …           → object tokens of `instantiate` (template objects: the id field is ignored,
                                           link targets are indices)
  object token: `id:hexbytes:links`, links = `pos.width.target.adj` joined by `,` or `-`
-/
import FontVerif.Model.Base
import FontVerif.Model.Determinism
namespace FontVerif.Drv.C07
open FontVerif FontVerif.Determinism

def joinNats (xs : List Nat) (sep : String := " ") : String :=
  if xs.isEmpty then "-" else sep.intercalate (xs.map toString)

def parseLink? (s : String) : Option Link :=
  match s.splitOn "." with
  | [p, w, t, a] => do
    let p ← parseNat? p; let w ← parseNat? w; let t ← parseNat? t; let a ← parseNat? a
    some { pos := p, width := w, target := t, adj := a }
  | _ => none

def parseObj? (s : String) : Option (Obj × Nat) :=
  match s.splitOn ":" with
  | [id, bytes, links] => do
    let id ← parseNat? id
    let bs ← parseHex? bytes
    let ls ← if links = "-" then some [] else (links.splitOn ",").mapM parseLink?
    some ({ bytes := bs, links := ls }, id)
  | _ => none

def hexOf (bs : List Nat) : String :=
  if bs.isEmpty then "-" else
    String.ofList (bs.flatMap (fun b =>
      let d := fun (n : Nat) => if n < 10 then Char.ofNat (48 + n) else Char.ofNat (87 + n)
      [d (b / 16 % 16), d (b % 16)]))

def objToken (e : Obj × Nat) : String :=
  let ls := if e.1.links.isEmpty then "-" else
    ",".intercalate (e.1.links.map (fun l => s!"{l.pos}.{l.width}.{l.target}.{l.adj}"))
  s!"{e.2}:{hexOf e.1.bytes}:{ls}"

def handle (cmd : String) (args : List String) : Option String :=
  match cmd, args with
  | "sched", c0 :: threads => do
    let c ← parseNat? c0
    let ts ← parseNats? threads
    let tr := runSched c ts
    let names := OSet.ofList ts
    some (if names.isEmpty then "-" else
      " ".intercalate (names.map (fun t => s!"{t}={joinNats (idsOf t tr) ","}")))
  | "fromstore", objs => do
    let es ← objs.mapM parseObj?
    some (joinNats (fromObjStore es).keys)
  | "kahn", root :: objs => do
    let r ← parseNat? root
    let es ← objs.mapM parseObj?
    let m := fromObjStore es
    some (if kahnPanics m r then "panic" else joinNats (sortKahn m r))
  | "pack", root :: objs => do
    let r ← parseNat? root
    let es ← objs.mapM parseObj?
    let m := fromObjStore es
    some (if kahnPanics m r then "panic" else hexOf (packSimple m r))
  | "roots", roots :: pairs => do
    let rs ← if roots = "-" then some [] else parseNats? (roots.splitOn ",")
    let ps ← pairs.mapM (fun p => match p.splitOn ":" with
      | [a, b] => do let a ← parseNat? a; let b ← parseNat? b; some (a, b)
      | _ => none)
    some (joinNats (renameRoots ps (OSet.ofList rs)))
  | "inst", ids :: objs => do
    let ids ← if ids = "-" then some [] else parseNats? (ids.splitOn ",")
    let es ← objs.mapM parseObj?
    let r := instantiate (es.map (·.1)) ids
    some (if r.isEmpty then "-" else " ".intercalate (r.map objToken))
  | _, _ => none

end FontVerif.Drv.C07
