/-
C09 — glyph outlines written to glyf/loca are the outlines read (and drawn) back.
Property theorems only; helper lemmas live in Lemmas/Glyf.lean and Lemmas/GlyfBytes.lean.
Model: Model/Glyf.lean
  writer  write-fonts/src/tables/glyf/simple.rs (compute_point_deltas, flag_and_delta,
          RepeatableFlag::iter_from_flags, SimpleGlyph::write_into), composite.rs, glyf_loca_builder.rs,
          loca.rs (LocaFormat::new, Loca::write_into)
  reader  read-fonts/src/tables/glyf.rs (SimpleGlyph::read, points()/PointIter [the FIXED code, commit
          1fdb446], resolve_coords_len, read_points_fast, ComponentIter, count_and_instructions),
          read-fonts/src/tables/loca.rs (Loca::read, get_raw, get_glyf),
          write-fonts simple.rs `FromObjRef` (contoursOf).
`SimpleGlyph::from_bezpath` is modelled (Model/GlyfPath.lean) for INTEGER-coordinate paths only (f64
rounding and the `isclose` tolerance are not modelled); skrifa's unscaled draw is `drawUnscaled` over
Model/ToPath.lean (C12's model of outline/path.rs).  Non-integer paths are exercised by nobody; integer
paths additionally by the harness oracle `bezpath-draws-back` on the real code.
-/
import FontVerif.Model.Glyf
import FontVerif.Lemmas.Glyf
import FontVerif.Lemmas.GlyfBytes
import FontVerif.Lemmas.GlyfRuns
import FontVerif.Lemmas.GlyfComp
import FontVerif.Lemmas.GlyfPath
set_option linter.unusedVariables false
namespace FontVerif.C09
open FontVerif FontVerif.Glyf FontVerif.GlyfPath

/-! ## flags: run-length coding -/

/-- **flags_rle_roundtrip.**  For every list of point flags (bytes without the repeat bit — what
`compute_point_deltas` produces, see `point_flags_ok`) the items emitted by
`RepeatableFlag::iter_from_flags` expand, as every reader expands them (`repeat + 1` copies when the
repeat bit is set, repeat bit ignored afterwards), to exactly the input flags.  All run lengths:
1, 2 (split into two plain flags), 3…256 (one item), 257+ (several items). -/
theorem flags_rle_roundtrip (fs : List Nat) (h : ∀ f ∈ fs, FlagOk f) :
    expandItems (iterFromFlags none fs) = fs :=
  iterFromFlags_expand fs h

/-- **rle_items_wf.**  Every emitted item has `repeat ≤ 255` (the writer's `u8` counter never
overflows: `last.repeat += 1` is guarded by `< u8::MAX`), its flag is a byte, and the repeat bit is set
iff `repeat > 0` — the writer's `debug_assert_eq!` in `RepeatableFlag::write_into` can never fire. -/
theorem rle_items_wf (fs : List Nat) (h : ∀ f ∈ fs, FlagOk f) :
    ∀ i ∈ iterFromFlags none fs,
      i.rep ≤ 255 ∧ i.flag < 256 ∧ hasBit i.flag REPEAT = decide (0 < i.rep) :=
  iterFromFlags_wf fs h

/-- the flags computed by `compute_point_deltas` never carry the repeat bit and fit a byte -/
theorem point_flags_ok (pts : List Point) (lx ly : Int) (ds : List PointDelta)
    (h : computePointDeltas lx ly pts = some ds) : ∀ f ∈ ds.map (·.flag), FlagOk f :=
  computePointDeltas_flags pts lx ly ds h

/-- **rle_length_optimal.**  The number of flag bytes written equals `optCost fs` — the sum over the
maximal runs of equal flags of `runCost L = 2·⌊L/256⌋ + min (L mod 256) 2` — and NO sequence of flag
items (one byte = one flag, two bytes = up to 256 flags) that expands to the same flags is shorter. -/
theorem rle_length_optimal (fs : List Nat) (h : ∀ f ∈ fs, FlagOk f) :
    ((iterFromFlags none fs).flatMap RepeatableFlag.bytes).length = optCost fs ∧
    ∀ items : List RepeatableFlag, (∀ i ∈ items, i.rep ≤ 255) → expandItems items = fs →
      optCost fs ≤ (items.flatMap RepeatableFlag.bytes).length := by
  refine ⟨?_, ?_⟩
  · rw [flatMap_bytes_length, iterFromFlags_cost fs h]
  · intro items hi he
    rw [flatMap_bytes_length, ← he]
    exact optCost_le_any items hi

/-- `runCost` in closed form (what "canonical shortest" means for one run of `n` equal flags). -/
theorem runCost_closed (n : Nat) : runCost n = 2 * (n / 256) + min (n % 256) 2 := by
  unfold runCost
  repeat' split
  all_goals omega

example : runCost 1 = 1 ∧ runCost 2 = 2 ∧ runCost 3 = 2 ∧ runCost 255 = 2 ∧ runCost 256 = 2
    ∧ runCost 257 = 3 ∧ runCost 258 = 4 ∧ runCost 300 = 4 ∧ runCost 512 = 4 ∧ runCost 513 = 5 := by
  decide

/-! ## coordinates -/

/-- fewest bytes a glyf coordinate delta can occupy -/
def coordCost (v : Int) : Nat := if v = 0 then 0 else if -255 ≤ v ∧ v ≤ 255 then 1 else 2

/-- **coord_bytes_written.**  `flag_and_delta` writes 0 bytes iff the delta is 0, 1 byte iff
0 < |delta| ≤ 255, else 2. -/
theorem coord_bytes_written (v : Int) (S P : Nat) :
    (flagAndDelta v S P).2.bytes.length = coordCost v := by
  unfold flagAndDelta coordCost
  split
  · rfl
  · rename_i h0
    split
    · rename_i hn
      rw [if_pos (by omega : -255 ≤ v ∧ v ≤ 255)]; rfl
    · rename_i hn
      split
      · rename_i hp
        rw [if_pos (by omega : -255 ≤ v ∧ v ≤ 255)]; rfl
      · rename_i hp
        rw [if_neg (by omega : ¬ (-255 ≤ v ∧ v ≤ 255))]
        exact be16_length v

/-- **coord_bytes_minimal.**  Under every (short, same/positive) flag combination, a reader that
decodes the value `v` from a byte stream consumes at least `coordCost v` bytes: together with
`coord_bytes_written`, no glyf encoding of a delta is shorter than the writer's. -/
theorem coord_bytes_minimal (v : Int) (short same : Bool) (cur : List Nat)
    (hb : ∀ b ∈ cur, b < 256) (hv : (readDelta short same cur).1 = v) :
    coordCost v ≤ cur.length - (readDelta short same cur).2.length := by
  have hlen : (readDelta short same cur).2.length ≤ cur.length ∧
      (short = true → (readDelta short same cur).2.length + 1 ≤ cur.length ∨
        (readDelta short same cur).1 = 0) ∧
      (short = false → same = false → (readDelta short same cur).2.length + 2 ≤ cur.length ∨
        (readDelta short same cur).1 = 0) ∧
      (short = true → -255 ≤ (readDelta short same cur).1 ∧ (readDelta short same cur).1 ≤ 255) ∧
      (short = false → same = true → (readDelta short same cur).1 = 0) := by
    cases short <;> cases same
    · cases cur with
      | nil => simp [readDelta, readI16]
      | cons a r =>
        cases r with
        | nil => simp [readDelta, readI16]
        | cons b r' =>
          refine ⟨?_, fun h => (by cases h), fun _ _ => Or.inl ?_, fun h => (by cases h),
            fun _ h => (by cases h)⟩
          · simp only [readDelta, readI16, List.length_cons]; omega
          · simp only [readDelta, readI16, List.length_cons]; omega
    · simp [readDelta]
    · cases cur with
      | nil => simp [readDelta, readU8]
      | cons a r =>
        have := hb a (by simp)
        simp [readDelta, readU8]
        omega
    · cases cur with
      | nil => simp [readDelta, readU8]
      | cons a r =>
        have := hb a (by simp)
        simp [readDelta, readU8]
        omega
  rw [hv] at hlen
  unfold coordCost
  obtain ⟨h1, h2, h3, h4, h5⟩ := hlen
  cases short <;> cases same <;> simp only [forall_const, Bool.false_eq_true, false_implies]
    at h2 h3 h4 h5 <;> (repeat' split) <;> omega

/-! ## whole simple glyphs -/

/-- **simple_glyph_roundtrip.**  Take ANY simple glyph with at least one contour whose bounding
box and coordinates are `i16` values and which has at most 65535 points.  If the writer
(`SimpleGlyph::write_into`) does not panic — i.e. (`write_simple_ok_iff`) fewer than 32767 contours,
at most 65535 instruction bytes (`fix:` 60d64c5), a non-empty first contour and successive deltas representable in
`i16` — then the generated reader parses the bytes, and
* contour count, bounding box and instructions are the glyph's;
* the end points are the format's (`endSpec`: index of each contour's last point);
* the slow decoder `points()` (`resolve_coords_len` + `PointIter`) returns exactly the points
  (coordinates and on-curve flags, in order) — for every flag run length, incl. runs > 256 that are
  written with repeat byte 255;
* the fast decoder `read_points_fast` returns the same coordinates and on-curve bits;
* write-fonts' `FromObjRef` cuts those points back into exactly the original contours. -/
theorem simple_glyph_roundtrip (g : SimpleGlyph) (bytes : List Nat)
    (hbox : inI16 g.xMin ∧ inI16 g.yMin ∧ inI16 g.xMax ∧ inI16 g.yMax)
    (hpts : PointsInRange g.contours.flatten)
    (hmax : g.contours.flatten.length ≤ 65535)
    (hne : g.contours ≠ [])
    (hw : writeSimple g = some bytes) :
    ∃ v, readSimple bytes = some v ∧
      v.nContours = g.contours.length ∧
      v.xMin = g.xMin ∧ v.yMin = g.yMin ∧ v.xMax = g.xMax ∧ v.yMax = g.yMax ∧
      v.endPts = endSpec 0 g.contours ∧
      v.instructions = g.instructions ∧
      v.points = g.contours.flatten ∧
      v.readPointsFast =
        some (g.contours.flatten.map (fun p => (p.x, p.y, if p.on then 1 else 0))) ∧
      contoursOf 0 v.endPts v.points = some g.contours := by
  unfold writeSimple at hw
  split at hw
  · cases hw
  · rename_i hlim
    have hlim' : g.contours.length < 32767 ∧ g.instructions.length < 65536 := by omega
    have hnz : ¬ (g.contours.length = 0) := by
      intro e; exact hne (List.eq_nil_of_length_eq_zero e)
    simp only [hnz, ↓reduceIte] at hw
    split at hw
    · cases hw
    · rename_i eps heps
      split at hw
      · cases hw
      · rename_i ds hds
        simp only [Option.some.injEq] at hw
        obtain ⟨pad, hpad, _⟩ := padEven_cases
          (be16 g.contours.length ++ be16 g.xMin ++ be16 g.yMin ++ be16 g.xMax
          ++ be16 g.yMax ++ eps.flatMap (fun (e : Nat) => be16 (e : Int)) ++ be16 g.instructions.length
          ++ g.instructions ++ flagBytes ds ++ xBytes ds ++ yBytes ds)
        rw [hpad] at hw
        have hel := endPts_length g.contours 0 eps heps
        have hes := endPts_spec g.contours 0 eps heps (by omega)
        have hcanon := readSimple_canon g.contours.length g.xMin g.yMin g.xMax g.yMax eps
          g.instructions (flagBytes ds ++ (xBytes ds ++ (yBytes ds ++ pad)))
          (by omega) hel.1 hel.2 (by omega) hbox.1 hbox.2.1 hbox.2.2.1 hbox.2.2.2
        have hbytes : bytes = be16 (g.contours.length : Int) ++ (be16 g.xMin ++ (be16 g.yMin ++
            (be16 g.xMax ++ (be16 g.yMax ++ (epsBytes eps ++ (be16 (g.instructions.length : Int) ++
            (g.instructions ++ (flagBytes ds ++ (xBytes ds ++ (yBytes ds ++ pad)))))))))) := by
          rw [← hw]; simp only [epsBytes, List.append_assoc]
        rw [← hbytes] at hcanon
        refine ⟨_, hcanon, rfl, rfl, rfl, rfl, rfl, hes.1, rfl, ?_⟩
        have hlast := hes.2 hne
        simp only [Nat.zero_add] at hlast
        have hp := points_of_data
          { nContours := g.contours.length, xMin := g.xMin, yMin := g.yMin, xMax := g.xMax,
            yMax := g.yMax, endPts := eps, instructions := g.instructions,
            glyphData := flagBytes ds ++ (xBytes ds ++ (yBytes ds ++ pad)) }
          g.contours.flatten ds pad (g.contours.flatten.length - 1) hpts hds hlast.1
          (by omega) hmax rfl
        have hf := fast_of_data
          { nContours := g.contours.length, xMin := g.xMin, yMin := g.yMin, xMax := g.xMax,
            yMax := g.yMax, endPts := eps, instructions := g.instructions,
            glyphData := flagBytes ds ++ (xBytes ds ++ (yBytes ds ++ pad)) }
          g.contours.flatten ds pad (g.contours.flatten.length - 1) hpts hds hlast.1
          (by omega) rfl
        refine ⟨hp, hf, ?_⟩
        rw [hp]
        have := contoursOf_spec g.contours 0 eps [] heps (by omega)
        simpa using this

/-- (on-curve, dx, dy) of every point, deltas taken from the previous point (the first from 0,0) -/
def deltaList : Int → Int → List Point → List (Bool × Int × Int)
  | _, _, [] => []
  | lx, ly, p :: ps => (p.on, p.x - lx, p.y - ly) :: deltaList p.x p.y ps

/-- size of the canonical shortest encoding of a simple glyph: 10 header bytes, one u16 end point per
contour, instruction length + instructions, the flags (for every delta the smallest of the three
coordinate forms is chosen, which fixes the flag byte `pointFlag`; then equal flags are run-length
coded optimally, `optCost`), the coordinate bytes (`coordCost`), padded to an even length. -/
def canonicalLen (g : SimpleGlyph) : Nat :=
  let ds := deltaList 0 0 g.contours.flatten
  let n := 12 + 2 * g.contours.length + g.instructions.length
    + optCost (ds.map (fun d => pointFlag d.1 d.2.1 d.2.2))
    + (ds.map (fun d => coordCost d.2.1 + coordCost d.2.2)).sum
  n + n % 2

/-- **simple_glyph_length_canonical.**  Whenever the writer accepts a simple glyph with contours, the
number of bytes written is exactly `canonicalLen` — never longer than the canonical shortest encoding
(`rle_length_optimal` and `coord_bytes_minimal` say that neither the flag run-length coding nor any
single coordinate could be shorter). -/
theorem simple_glyph_length_canonical (g : SimpleGlyph) (bytes : List Nat) (hne : g.contours ≠ [])
    (hw : writeSimple g = some bytes) : bytes.length = canonicalLen g := by
  have hcanon : ∀ (pts : List Point) (lx ly : Int) (ds : List PointDelta),
      computePointDeltas lx ly pts = some ds →
      ds.map (·.flag) = (deltaList lx ly pts).map (fun d => pointFlag d.1 d.2.1 d.2.2) ∧
      (xBytes ds).length + (yBytes ds).length
        = ((deltaList lx ly pts).map (fun d => coordCost d.2.1 + coordCost d.2.2)).sum := by
    intro pts
    induction pts with
    | nil => intro lx ly ds h; simp [computePointDeltas] at h; subst h; simp [deltaList, xBytes, yBytes]
    | cons p ps ih =>
      intro lx ly ds h
      simp only [computePointDeltas] at h
      split at h
      · cases hrec : computePointDeltas p.x p.y ps with
        | none => simp [hrec] at h
        | some rest =>
          simp only [hrec, Option.map_some, Option.some.injEq] at h
          subst h
          have ⟨i1, i2⟩ := ih p.x p.y rest hrec
          simp only [xBytes, yBytes] at i2
          simp only [deltaList, List.map_cons, i1, xBytes, yBytes, List.flatMap_cons,
            List.length_append, List.sum_cons, coord_bytes_written, pointFlag, ← i2, true_and]
          omega
      · simp at h
  unfold writeSimple at hw
  split at hw
  · cases hw
  · have hnz : ¬ (g.contours.length = 0) := by
      intro e; exact hne (List.eq_nil_of_length_eq_zero e)
    simp only [hnz, ↓reduceIte] at hw
    split at hw
    · cases hw
    · rename_i eps heps
      split at hw
      · cases hw
      · rename_i ds hds
        simp only [Option.some.injEq] at hw
        have hel := (endPts_length g.contours 0 eps heps).1
        have ⟨c1, c2⟩ := hcanon _ 0 0 ds hds
        have hfl := computePointDeltas_flags _ 0 0 ds hds
        have hfb : (flagBytes ds).length = optCost (ds.map (·.flag)) := by
          rw [flagBytes_length, iterFromFlags_cost _ hfl]
        have heb := epsBytes_length eps
        unfold epsBytes at heb
        rw [← hw]
        unfold canonicalLen padEven
        simp only []
        rw [← c1, ← c2, ← hfb]
        split
        · rename_i hev
          simp only [List.length_append, be16_length, heb, hel] at hev ⊢
          omega
        · rename_i hev
          simp only [List.length_append, be16_length, heb, hel, List.length_cons,
            List.length_nil] at hev ⊢
          omega

/-- successive deltas (from the origin) are representable in `i16` -/
def DeltasRepresentable : Int → Int → List Point → Prop
  | _, _, [] => True
  | lx, ly, p :: ps => inI16 (p.x - lx) ∧ inI16 (p.y - ly) ∧ DeltasRepresentable p.x p.y ps

/-- `compute_point_deltas` panics (overflow-checked `point.x - last_x`) exactly when some delta
between successive points does not fit `i16`. -/
theorem deltas_ok_iff (pts : List Point) : ∀ lx ly,
    (computePointDeltas lx ly pts).isSome ↔ DeltasRepresentable lx ly pts := by
  induction pts with
  | nil => intro lx ly; simp [computePointDeltas, DeltasRepresentable]
  | cons p ps ih =>
    intro lx ly
    simp only [computePointDeltas, DeltasRepresentable]
    split
    · rename_i h
      simp only [Option.isSome_map, ih p.x p.y]
      exact ⟨fun hh => ⟨h.1, h.2, hh⟩, fun hh => hh.2.2⟩
    · rename_i h
      simp only [Option.isSome_none, Bool.false_eq_true, false_iff]
      intro hh; exact h ⟨hh.1, hh.2.1⟩

/-- **write_simple_ok_iff.**  Exactly which glyphs (with ≤ 65535 points) `SimpleGlyph::write_into`
accepts without panicking: fewer than 32767 contours, at most 65535 instruction bytes, and — unless
there are no contours at all, in which case nothing is written — a non-empty first contour
(`cur as u16 - 1` underflows otherwise) and representable deltas. -/
theorem write_simple_ok_iff (g : SimpleGlyph) (hmax : g.contours.flatten.length ≤ 65535) :
    (writeSimple g).isSome ↔
      g.contours.length < 32767 ∧ g.instructions.length < 65536 ∧
      (g.contours = [] ∨ (g.contours.head? ≠ some [] ∧ DeltasRepresentable 0 0 g.contours.flatten)) := by
  have hend : ∀ (cs : List (List Point)) (cur : Nat), cur + cs.flatten.length ≤ 65535 →
      ((endPts cur cs).isSome ↔ (cs = [] ∨ cur + (cs.head?.getD []).length ≠ 0)) := by
    intro cs
    induction cs with
    | nil => intro cur _; simp [endPts]
    | cons c cs ih =>
      intro cur hb
      simp only [List.flatten_cons, List.length_append] at hb
      simp only [endPts, List.head?_cons, Option.getD_some]
      have hmod : (cur + c.length) % 65536 = cur + c.length := by omega
      rw [hmod]
      split
      · rename_i hz; simp [hz]
      · rename_i hz
        simp only [Option.isSome_map, ih (cur + c.length) (by omega)]
        simp only [reduceCtorEq, false_or, ne_eq, hz, not_false_eq_true, iff_true]
        cases cs with
        | nil => exact Or.inl rfl
        | cons c2 cs2 => right; simp only [List.head?_cons, Option.getD_some]; omega
  unfold writeSimple
  split
  · rename_i h
    simp only [Option.isSome_none, Bool.false_eq_true, false_iff]
    intro hh; omega
  · rename_i h
    have h' : g.contours.length < 32767 ∧ g.instructions.length < 65536 := by omega
    split
    · rename_i h0
      have : g.contours = [] := List.eq_nil_of_length_eq_zero h0
      simp [h', this]
    · rename_i h0
      have hne : g.contours ≠ [] := by intro e; rw [e] at h0; exact h0 rfl
      have he := hend g.contours 0 (by omega)
      have hd := deltas_ok_iff g.contours.flatten 0 0
      simp only [h'.1, h'.2, true_and, hne, false_or]
      cases hc : g.contours with
      | nil => exact absurd hc hne
      | cons c cs =>
        rw [hc] at he hd
        simp only [reduceCtorEq, false_or, Nat.zero_add, List.head?_cons, Option.getD_some] at he
        simp only [List.head?_cons, ne_eq, Option.some.injEq]
        cases h1 : endPts 0 (c :: cs) with
        | none =>
          rw [h1] at he
          simp only [Option.isSome_none, Bool.false_eq_true, false_iff, ne_eq] at he
          simp only [Option.isSome_none, Bool.false_eq_true, false_iff]
          intro hh; exact hh.1 (List.eq_nil_of_length_eq_zero (by omega))
        | some eps =>
          rw [h1] at he
          simp only [Option.isSome_some, true_iff] at he
          have hcne : ¬ (c = []) := by intro e; rw [e] at he; exact he rfl
          cases h2 : computePointDeltas 0 0 (c :: cs).flatten with
          | none =>
            rw [h2] at hd
            simp only [Option.isSome_none, Bool.false_eq_true, false_iff] at hd
            simp only [Option.isSome_none, Bool.false_eq_true, false_iff]
            intro hh; exact hd hh.2
          | some ds =>
            rw [h2] at hd
            simp only [Option.isSome_some, true_iff] at hd
            simp only [Option.isSome_some, true_iff]
            exact ⟨hcne, hd⟩

/-! ## composite glyphs -/

/-- **component_roundtrip.**  One component record: for every glyph id (`u16`), anchor (`i16` offsets
or `u16` point numbers), F2Dot14 transform (raw `i16` bits) and user flags, and for each of the three
"extra" flags the writer passes (none, MORE_COMPONENTS, WE_HAVE_INSTRUCTIONS), `ComponentIter::next`
on the bytes of `Component::write_into` yields the same glyph id, anchor (byte form chosen iff both
arguments fit `i8`/`u8`, word form otherwise) and transform (nothing / one scale / x-y scale / 2×2
chosen by `Transform::compute_flags`), consumes exactly those bytes, and the flags word converts back
(`From<CompositeGlyphFlags> for ComponentFlags`) to the user flags. -/
theorem component_roundtrip (c : Component) (hv : c.Valid) (e : Nat) (he : e ∈ [0, 0x20, 0x100])
    (rest : List Nat) :
    ∃ flags, readComponent (c.bytes e ++ rest) = some (⟨flags, c.glyph, c.anchor, c.transform⟩, rest)
      ∧ ComponentFlags.ofBits flags = c.flags
      ∧ hasBit flags MORE_COMPONENTS = (e == 0x20) ∧ hasBit flags HAVE_INSTR = (e == 0x100) := by
  have wf := word_facts c e he
  exact ⟨c.word e, readComponent_bytes c hv e he rest, wf.2.2.2.2.2.2.2.2.2, wf.2.2.2.2.2.2.2.1,
    wf.2.2.2.2.2.2.2.2.1⟩

/-- **composite_glyph_roundtrip.**  For ANY composite glyph with at least one component (the
writer's `expect`; `validate` rejects an empty one), `i16` bounding box, valid component fields and at
most 65535 instruction bytes: the written bytes start with a negative contour count (so `Glyph::read`
dispatches to the composite reader), the generated reader parses them, the bounding box is the
glyph's, `components()` yields exactly the components added — ids, anchors, transforms, user flags,
in order, every one but the last flagged MORE_COMPONENTS — and `count_and_instructions` returns the
component count and the instructions (`None` iff there are none). -/
theorem composite_glyph_roundtrip (g : CompositeGlyph) (bytes : List Nat)
    (hbox : inI16 g.xMin ∧ inI16 g.yMin ∧ inI16 g.xMax ∧ inI16 g.yMax)
    (hv : ∀ c ∈ g.components, c.Valid) (hil : g.instructions.length < 65536)
    (hw : writeComposite g = some bytes) :
    i16At bytes 0 = some (-1) ∧
    ∃ v, readComposite bytes = some v ∧
      v.xMin = g.xMin ∧ v.yMin = g.yMin ∧ v.xMax = g.xMax ∧ v.yMax = g.yMax ∧
      v.components.map (fun r => (r.glyph, r.anchor, r.transform, ComponentFlags.ofBits r.flags))
        = g.components.map (fun c => (c.glyph, c.anchor, c.transform, c.flags)) ∧
      v.components.map (fun r => hasBit r.flags MORE_COMPONENTS)
        = (List.range g.components.length).map (fun i => decide (i + 1 < g.components.length)) ∧
      v.count = g.components.length ∧
      v.instructions = (if g.instructions.isEmpty then none else some g.instructions) := by
  unfold writeComposite at hw
  split at hw
  · cases hw
  · rename_i hne
    have hne' : g.components ≠ [] := by intro e; rw [e] at hne; exact hne rfl
    simp only [Option.some.injEq] at hw
    obtain ⟨pad, hpad, _⟩ := padEven_cases
      (be16 (-1) ++ be16 g.xMin ++ be16 g.yMin ++ be16 g.xMax ++ be16 g.yMax
        ++ componentsBytes (!g.instructions.isEmpty) g.components
        ++ (if (!g.instructions.isEmpty) = true then be16 g.instructions.length ++ g.instructions else []))
    rw [hpad] at hw
    let cd := componentsBytes (!g.instructions.isEmpty) g.components
        ++ ((if (!g.instructions.isEmpty) = true then be16 (g.instructions.length : Int) ++ g.instructions
            else []) ++ pad)
    have hbytes : bytes = be16 (-1) ++ (be16 g.xMin ++ (be16 g.yMin ++ (be16 g.xMax ++
        (be16 g.yMax ++ cd)))) := by
      rw [← hw]; simp only [cd, List.append_assoc]
    have r0 : i16At bytes 0 = some (-1) :=
      i16At_at bytes [] _ (-1) 0 (by unfold inI16; omega) rfl (by rw [hbytes]; rfl)
    have r2 : i16At bytes 2 = some g.xMin :=
      i16At_at bytes (be16 (-1)) (be16 g.yMin ++ (be16 g.xMax ++ (be16 g.yMax ++ cd))) g.xMin 2
        hbox.1 rfl (by rw [hbytes])
    have r4 : i16At bytes 4 = some g.yMin :=
      i16At_at bytes (be16 (-1) ++ be16 g.xMin) (be16 g.xMax ++ (be16 g.yMax ++ cd)) g.yMin 4
        hbox.2.1 rfl (by rw [hbytes]; simp only [List.append_assoc])
    have r6 : i16At bytes 6 = some g.xMax :=
      i16At_at bytes (be16 (-1) ++ be16 g.xMin ++ be16 g.yMin) (be16 g.yMax ++ cd) g.xMax 6
        hbox.2.2.1 rfl (by rw [hbytes]; simp only [List.append_assoc])
    have r8 : i16At bytes 8 = some g.yMax :=
      i16At_at bytes (be16 (-1) ++ be16 g.xMin ++ be16 g.yMin ++ be16 g.xMax) cd g.yMax 8
        hbox.2.2.2 rfl (by rw [hbytes]; simp only [List.append_assoc])
    have hdrop : bytes.drop 10 = cd := by
      have d : bytes = (be16 (-1) ++ be16 g.xMin ++ be16 g.yMin ++ be16 g.xMax ++ be16 g.yMax) ++ cd := by
        rw [hbytes]; simp only [List.append_assoc]
      rw [d]; exact List.drop_left' rfl
    have hlen : ¬ (bytes.length < 10) := by
      rw [hbytes]; simp only [List.length_append, be16_length]; omega
    refine ⟨r0, ?_⟩
    unfold readComposite
    simp only [hlen, ↓reduceIte, hdrop, r2, r4, r6, r8, Option.getD_some]
    refine ⟨_, rfl, rfl, rfl, rfl, rfl, ?_⟩
    have hcl := comps_len_ge (!g.instructions.isEmpty) g.components
    have hrc := readComponents_bytes (!g.instructions.isEmpty) g.components hne' hv (cd.length + 1)
      ((if (!g.instructions.isEmpty) = true then be16 (g.instructions.length : Int) ++ g.instructions
            else []) ++ pad) (by simp only [cd, List.length_append]; omega)
    have hci := countAndInstructions_bytes g.components g.instructions pad hne' hv hil
    simp only []
    rw [show (componentsBytes (!g.instructions.isEmpty) g.components
        ++ ((if (!g.instructions.isEmpty) = true then be16 (g.instructions.length : Int) ++ g.instructions
            else []) ++ pad)) = cd from rfl] at hrc hci
    rw [hrc, hci]
    refine ⟨expected_proj _ _, expected_more _ _, rfl, ?_⟩
    cases g.instructions.isEmpty <;> rfl

/-! ## loca -/

/-- **loca_short_iff.**  `LocaFormat::new` picks the short format iff the last offset is below
0x20000 and every offset is even. -/
theorem loca_short_iff (offs : List Nat) :
    locaIsLong offs = false ↔ (offs.getLast?.getD 0 < 0x20000 ∧ ∀ o ∈ offs, o % 2 = 0) := by
  unfold locaIsLong
  simp [List.all_eq_true]

/-- **loca_roundtrip.**  For every ascending list of `u32` offsets, the table written in the format
`LocaFormat::new` chooses — whichever it is — reads back (`Loca::read` with that format,
`get_raw(i)` for every `i`) as exactly the offsets. -/
theorem loca_roundtrip (offs : List Nat) (h32 : ∀ o ∈ offs, o < 4294967296)
    (hmono : ∀ o ∈ offs, o ≤ offs.getLast?.getD 0) :
    readLoca (writeLoca offs) (locaIsLong offs) = some offs := by
  unfold readLoca writeLoca
  cases hl : locaIsLong offs with
  | true => simp only [↓reduceIte]; exact chunks4_be32 offs h32
  | false =>
    have := (loca_short_iff offs).mp hl
    simp only [Bool.false_eq_true, ↓reduceIte]
    apply chunks2_half
    intro o ho
    have hm := hmono o ho
    exact ⟨by omega, this.2 o ho⟩

/-- both formats are lossless on their own domain: long for any `u32` offsets, short for even offsets
below 0x20000 (so a caller forcing either format still reads back what was written) -/
theorem loca_long_roundtrip (offs : List Nat) (h32 : ∀ o ∈ offs, o < 4294967296) :
    readLoca (offs.flatMap be32) true = some offs := by
  unfold readLoca; simp only [↓reduceIte]; exact chunks4_be32 offs h32

theorem loca_short_roundtrip (offs : List Nat) (h : ∀ o ∈ offs, o < 0x20000 ∧ o % 2 = 0) :
    readLoca (offs.flatMap (fun o => be16 ((o / 2 % 65536 : Nat) : Int))) false = some offs := by
  unfold readLoca; simp only [Bool.false_eq_true, ↓reduceIte]; exact chunks2_half offs h

/-- **accepted_simple_le_65535_points.**  `validate` (since `fix:` 006a7c4) rejects what the format
cannot hold: a simple glyph that `dump_table` / `add_glyph` accept has at most 65535 points and at
most 65535 instruction bytes, so the `≤ 65535 points` hypothesis of `simple_glyph_roundtrip` is
implied by acceptance. -/
theorem accepted_simple_le_65535_points (g : SimpleGlyph) (b : List Nat)
    (h : writeGlyph (.simple g) = .ok b) :
    g.contours.flatten.length ≤ 65535 ∧ g.instructions.length ≤ 65535 := by
  simp only [writeGlyph] at h
  split at h
  · cases h
  · rename_i hv
    split at h
    · rename_i bb hw
      refine ⟨by rw [List.length_flatten]; omega, ?_⟩
      unfold writeSimple at hw
      split at hw
      · cases hw
      · omega
    · cases h

/-! ## both point decoders agree on every well-formed glyph, whatever the flag run lengths -/

/-- **read_points_fast_eq_points_on_valid.**  Take ANY well-formed simple-glyph point data: a flag
array given as a list of items — a flag byte with the REPEAT bit and a repeat count `0..255` (count 0
included: two bytes for one point), or a plain flag byte — in ANY run-length coding (not only the
shortest one the writer emits), standing for `last + 1 ≤ 65535` points, followed by exactly the
x bytes and y bytes the flags announce (in any of the legal forms: short, long, same) and any padding.
Then `read_points_fast` (fixed code, `fix:` d12a1b2: flag window of two bytes per point) succeeds with
one entry per point, and the slow decoder `points()` yields exactly the same points: the same on-curve
bits, and the same coordinates (`points()` accumulates in `i16`, `read_points_fast::<i32>` in `i32`:
equal after the `as i16` every consumer applies, and literally equal whenever the running sums are
`i16` values, as in every valid glyph). -/
theorem read_points_fast_eq_points_on_valid (v : SimpleView) (items : List RepeatableFlag)
    (xs ys pad : List Nat) (last : Nat)
    (hl : v.endPts.getLast? = some last) (hn : last + 1 = (expandRaw items).length)
    (hmax : (expandRaw items).length ≤ 65535) (hrep : ∀ i ∈ items, i.rep ≤ 255)
    (hx : xs.length = ((expandRaw items).map xSize).sum)
    (hy : ys.length = ((expandRaw items).map ySize).sum)
    (hg : v.glyphData = items.flatMap RepeatableFlag.bytes ++ (xs ++ (ys ++ pad))) :
    ∃ fast : List (Int × Int × Nat), v.readPointsFast = some fast ∧ fast.length = last + 1 ∧
      v.points = fast.map (fun t => (⟨wrapI16 t.1, wrapI16 t.2.1, t.2.2 != 0⟩ : Point)) := by
  have hne : items ≠ [] := by
    intro e; rw [e] at hn; simp [expandRaw] at hn
  have hcl := flatMap_bytes_length items
  have hc2 := cost_le_two items
  have hnp : v.numPoints = (expandRaw items).length := by
    unfold SimpleView.numPoints; rw [hl]; exact hn
  obtain ⟨X, Y, hX, hY, hXl, hYl, hdec⟩ :=
    coords_agree (expandRaw items) xs ys (ys ++ pad) pad [] pad 0 0 hx hy
  -- the fast decoder
  have hfast : v.readPointsFast = some ((X.zip (Y.zip (expandRaw items))).map
      (fun t => (t.1, t.2.1, t.2.2 &&& 1))) := by
    unfold SimpleView.readPointsFast
    simp only [hnp, hg]
    have hn0 : ¬ ((expandRaw items).length = 0) := by omega
    simp only [hn0, ↓reduceIte]
    rw [List.take_append]
    have hk : (items.flatMap RepeatableFlag.bytes).length
        ≤ min (2 * (expandRaw items).length)
          ((items.flatMap RepeatableFlag.bytes ++ (xs ++ (ys ++ pad))).length) := by
      simp only [List.length_append, hcl]; omega
    rw [List.take_of_length_le hk, fastFlags_items_any items _ hne]
    simp only [ne_eq, not_true_eq_false, ↓reduceIte]
    rw [← hcl, List.drop_left, hX]
    simp only []
    rw [hY]
  refine ⟨_, hfast, ?_, ?_⟩
  · simp [hXl, hYl, hn]
  · -- the slow decoder
    have hres := resolve_items_any items (xs ++ (ys ++ pad)) 0 0 0
    simp only [Nat.zero_add] at hres
    unfold SimpleView.points
    rw [hl]
    simp only []
    have h1 : ¬ (last + 1 > 65535) := by omega
    simp only [h1, ↓reduceIte, hn, hg, hres]
    have h2 : ¬ ((items.flatMap RepeatableFlag.bytes ++ (xs ++ (ys ++ pad))).length
        < rleCost items + ((expandRaw items).map xSize).sum + ((expandRaw items).map ySize).sum) := by
      simp only [List.length_append, hcl]; omega
    simp only [h2, ↓reduceIte]
    rw [← hcl, ← hx]
    simp only [List.take_left', List.drop_left', List.take_left, List.drop_left]
    unfold PointIter.new
    rw [collect_items]
    · have : wrapI16 0 = 0 := by decide
      rw [this] at hdec
      simp only [List.append_nil] at hdec
      rw [hdec]
      have h1' : ¬ ((expandRaw items).length > 65535) := by omega
      simp only [List.map_map, h1', ↓reduceIte]
      apply List.map_congr_left
      intro t _
      simp [hasBit, ON_CURVE]
    · have := length_le_256_cost items hrep
      rw [hcl]; omega

/-! ## GlyfLocaBuilder: glyph i of the built tables is the i-th glyph added -/

/-- **build_get_glyf.**  Let `GlyfLocaBuilder` accept a sequence `gs` of simple / composite / empty
glyphs (no `add_glyph` failed or panicked) and produce `glyf` (shorter than 4 GiB, the `as u32`
limit) and the raw offsets `loca`.  Then
* there is one offset more than glyphs;
* the loca table written in the format `LocaFormat::new` chooses — short iff `glyf` is shorter than
  0x20000 bytes (every glyph is padded to even length) — reads back as exactly those offsets;
* for every `i`, `Loca::get_glyf(i)` hands the glyph reader exactly the bytes that writing glyph `i`
  alone produces, at their position in `glyf` — or reports "no outline" (`Ok(None)`) iff those bytes
  are empty (empty glyph, or simple glyph without contours).
Combined with `simple_glyph_roundtrip` / `composite_glyph_roundtrip` this is: glyph `i` decodes to
the i-th glyph added, in either location format. -/
theorem build_get_glyf (gs : List Glyph) (glyf loca : List Nat)
    (hb : build gs = some (glyf, loca)) (h32 : glyf.length < 4294967296) :
    loca.length = gs.length + 1 ∧
    (locaIsLong loca = false ↔ glyf.length < 0x20000) ∧
    readLoca (writeLoca loca) (locaIsLong loca) = some loca ∧
    ∃ bs : List (List Nat), gs.map writeGlyph = bs.map WriteResult.ok ∧ glyf = bs.flatten ∧
      ∀ i (hi : i < bs.length), getGlyf loca glyf i =
        if bs[i] = [] then GetGlyf.none else GetGlyf.bytes (prefixLen bs i) bs[i] := by
  unfold build at hb
  obtain ⟨bs, h1, h2, h3⟩ := build_spec gs [] [0] glyf loca hb
  simp only [List.nil_append, List.length_nil, List.cons_append] at h2 h3
  have hlen : bs.length = gs.length := by
    have := congrArg List.length h1; simpa using this.symm
  have hev : ∀ b ∈ bs, b.length % 2 = 0 := by
    intro b hb'
    obtain ⟨i, hi, rfl⟩ := List.getElem_of_mem hb'
    have hgi : i < gs.length := by omega
    have : writeGlyph gs[i] = .ok bs[i] := by
      have := congrArg (fun l => l[i]?) h1
      simp only [List.getElem?_map, List.getElem?_eq_getElem hgi, List.getElem?_eq_getElem hi,
        Option.map_some, Option.some.injEq] at this
      exact this
    exact writeGlyph_even _ _ this
  subst h2
  have hp := offs_props bs 0 (by omega) hev rfl
  simp only [Nat.zero_add] at hp
  have hlast : loca.getLast?.getD 0 = bs.flatten.length := by rw [h3, hp.2]; rfl
  have hloclen : loca.length = gs.length + 1 := by
    rw [h3, ← hlen]
    have : ∀ (l : List (List Nat)) (s : Nat), (offsFrom s l).length = l.length := by
      intro l; induction l with
      | nil => intro s; rfl
      | cons b l ih => intro s; simp [offsFrom, ih]
    simp [this]
  refine ⟨hloclen, ?_, ?_, bs, h1, rfl, ?_⟩
  · rw [loca_short_iff, hlast]
    constructor
    · intro h; exact h.1
    · intro h; refine ⟨h, ?_⟩
      intro o ho; rw [h3] at ho; exact (hp.1 o ho).2
  · apply loca_roundtrip
    · intro o ho; rw [h3] at ho; have := (hp.1 o ho).1; omega
    · intro o ho; rw [hlast]; rw [h3] at ho; exact (hp.1 o ho).1
  · intro i hi
    rw [h3]
    exact getGlyf_built bs i hi h32

/-! ## GlyfLocaBuilder histories: `add_glyph` failures in the middle -/

/-- one step: a glyph that fails validation leaves the builder exactly as it was -/
theorem add_err_leaves_state_unchanged (g : Glyph) (gs : List Glyph) (glyf loca : List Nat)
    (h : addOutcome g = .err) : buildHistFrom (g :: gs) glyf loca = buildHistFrom gs glyf loca := by
  unfold addOutcome at h
  simp only [buildHistFrom]
  split <;> simp_all

/-- a history goes through (no panic) iff no single `add_glyph` call panics -/
theorem buildHistFrom_isSome (gs : List Glyph) (glyf loca : List Nat) :
    (buildHistFrom gs glyf loca).isSome ↔ ∀ g ∈ gs, addOutcome g ≠ .trap := by
  induction gs generalizing glyf loca with
  | nil => simp [buildHistFrom]
  | cons g gs ih =>
    simp only [buildHistFrom, addOutcome, List.mem_cons, forall_eq_or_imp]
    split <;> simp_all [addOutcome]

/-- **history = the accepted glyphs alone.**  The state reached by ANY interleaving of accepted and
rejected `add_glyph` calls is the state reached by adding just the accepted glyphs, in order. -/
theorem buildHistFrom_accepted (gs : List Glyph) (glyf loca : List Nat) (r : List Nat × List Nat)
    (h : buildHistFrom gs glyf loca = some r) : buildGlyfLoca (accepted gs) glyf loca = some r := by
  induction gs generalizing glyf loca with
  | nil => simpa [buildHistFrom, accepted, buildGlyfLoca] using h
  | cons g gs ih =>
    simp only [buildHistFrom] at h
    split at h
    · rename_i b hb
      have : accepted (g :: gs) = g :: accepted gs := by simp [accepted, addOutcome, hb]
      rw [this]; simp only [buildGlyfLoca, hb]; exact ih _ _ h
    · rename_i hb
      have : accepted (g :: gs) = accepted gs := by simp [accepted, addOutcome, hb]
      rw [this]; exact ih _ _ h
    · cases h

/-- a history without rejected glyphs is the plain `build` -/
theorem buildHistFrom_all_accepted (gs : List Glyph) (glyf loca : List Nat)
    (h : ∀ g ∈ gs, addOutcome g = .ok) : buildHistFrom gs glyf loca = buildGlyfLoca gs glyf loca := by
  induction gs generalizing glyf loca with
  | nil => rfl
  | cons g gs ih =>
    have hg := h g (by simp)
    have ih' := fun glyf loca => ih glyf loca (fun g' hg' => h g' (by simp [hg']))
    unfold addOutcome at hg
    simp only [buildHistFrom, buildGlyfLoca]
    split <;> simp_all

theorem buildHist_all_accepted (gs : List Glyph) (h : ∀ g ∈ gs, addOutcome g = .ok) :
    buildHist gs = build gs := buildHistFrom_all_accepted gs [] [0] h

/-- **build_get_glyf_history.**  `build_get_glyf` for ANY history of `add_glyph` calls on one builder —
accepted glyphs, `Glyph::Empty`, and glyphs rejected by validation (too many points / instruction
bytes, composite without components) in any interleaving, the caller carrying on after each `Err` —
provided no call panicked.  With `accepted gs` the glyphs whose call returned `Ok`, in order:
* loca has one entry more than accepted glyphs (a rejected glyph gets no glyph id);
* `glyf` is exactly the concatenation of the accepted glyphs' own (even-padded) bytes: a rejected
  glyph occupies no bytes;
* the format `LocaFormat::new` chooses is short iff `glyf` is shorter than 0x20000 bytes and the
  written loca reads back as the offsets;
* for every glyph id `i`, `get_glyf(i)` hands out exactly the bytes of the `i`-th ACCEPTED glyph at
  their position (or `Ok(None)` iff those bytes are empty). -/
theorem build_get_glyf_history (gs : List Glyph) (glyf loca : List Nat)
    (hb : buildHist gs = some (glyf, loca)) (h32 : glyf.length < 4294967296) :
    loca.length = (accepted gs).length + 1 ∧
    (locaIsLong loca = false ↔ glyf.length < 0x20000) ∧
    readLoca (writeLoca loca) (locaIsLong loca) = some loca ∧
    ∃ bs : List (List Nat), (accepted gs).map writeGlyph = bs.map WriteResult.ok ∧ glyf = bs.flatten ∧
      ∀ i (hi : i < bs.length), getGlyf loca glyf i =
        if bs[i] = [] then GetGlyf.none else GetGlyf.bytes (prefixLen bs i) bs[i] :=
  build_get_glyf (accepted gs) glyf loca (buildHistFrom_accepted gs [] [0] (glyf, loca) hb) h32

/-- the outcomes the caller sees are `Ok` exactly for the accepted glyphs (as many `Ok`s as glyph ids) -/
theorem histOutcomes_ok_count (gs : List Glyph) (h : ∀ g ∈ gs, addOutcome g ≠ .trap) :
    histOutcomes gs = gs.map addOutcome ∧
    ((gs.map addOutcome).filter (· = .ok)).length = (accepted gs).length := by
  constructor
  · induction gs with
    | nil => rfl
    | cons g gs ih =>
      have hg := h g (by simp)
      have := ih (fun g' hg' => h g' (by simp [hg']))
      simp only [histOutcomes, List.map_cons]
      first
        | rw [this]
        | (split <;> simp_all)
  · simp [accepted, List.filter_map, Function.comp_def]

/-- **built_simple_glyph_reads_back.**  The composition, spelled out for simple glyphs: if glyph `i`
of an accepted sequence is a simple glyph with contours (i16 fields; acceptance itself bounds the
point count by 65535 since `fix:` 006a7c4), then what
`get_glyf(i)` returns from the built tables parses to a glyph whose contours (cut by the end points
from the decoded points), bounding box and instructions are exactly those of the glyph added. -/
theorem built_simple_glyph_reads_back (gs : List Glyph) (glyf loca : List Nat)
    (hb : build gs = some (glyf, loca)) (h32 : glyf.length < 4294967296)
    (i : Nat) (hi : i < gs.length) (g : SimpleGlyph) (hg : gs[i] = .simple g)
    (hbox : inI16 g.xMin ∧ inI16 g.yMin ∧ inI16 g.xMax ∧ inI16 g.yMax)
    (hpts : PointsInRange g.contours.flatten) (hne : g.contours ≠ []) :
    ∃ start data v, getGlyf loca glyf i = .bytes start data ∧ readSimple data = some v ∧
      contoursOf 0 v.endPts v.points = some g.contours ∧
      (v.xMin, v.yMin, v.xMax, v.yMax) = (g.xMin, g.yMin, g.xMax, g.yMax) ∧
      v.instructions = g.instructions := by
  obtain ⟨_, _, _, bs, h1, h2, h3⟩ := build_get_glyf gs glyf loca hb h32
  have hlen : bs.length = gs.length := by
    have := congrArg List.length h1; simpa using this.symm
  have hi' : i < bs.length := by omega
  have hwi : writeGlyph gs[i] = .ok bs[i] := by
    have := congrArg (fun l => l[i]?) h1
    simp only [List.getElem?_map, List.getElem?_eq_getElem hi, List.getElem?_eq_getElem hi',
      Option.map_some, Option.some.injEq] at this
    exact this
  rw [hg] at hwi
  simp only [writeGlyph] at hwi
  split at hwi
  · cases hwi
  · rename_i hval
    have hmax : g.contours.flatten.length ≤ 65535 := by
      rw [List.length_flatten]; omega
    split at hwi
    · rename_i b hw
      simp only [WriteResult.ok.injEq] at hwi
      obtain ⟨v, hr, _, hx1, hx2, hx3, hx4, _, hins, _, _, hcont⟩ :=
        simple_glyph_roundtrip g b hbox hpts hmax hne hw
      have hbne : b ≠ [] := by
        intro e; rw [e] at hr; simp [readSimple, i16At, u16At] at hr
      refine ⟨prefixLen bs i, bs[i], v, ?_, by rw [← hwi]; exact hr, hcont, ?_, hins⟩
      · rw [h3 i hi', ← hwi]; simp [hbne]
      · rw [hx1, hx2, hx3, hx4]
    · cases hwi

/-- **built_composite_glyph_reads_back.**  The composition for composite glyphs: if glyph `i` of an
accepted sequence is a composite glyph (i16 bbox, valid component fields), then `get_glyf(i)` on the
built tables returns bytes that dispatch to the composite reader and yield exactly the components
added (ids, anchors, transforms, user flags, in order), their count, the bounding box and the
instructions. -/
theorem built_composite_glyph_reads_back (gs : List Glyph) (glyf loca : List Nat)
    (hb : build gs = some (glyf, loca)) (h32 : glyf.length < 4294967296)
    (i : Nat) (hi : i < gs.length) (g : CompositeGlyph) (hg : gs[i] = .composite g)
    (hbox : inI16 g.xMin ∧ inI16 g.yMin ∧ inI16 g.xMax ∧ inI16 g.yMax)
    (hv : ∀ c ∈ g.components, c.Valid) :
    ∃ start data v, getGlyf loca glyf i = .bytes start data ∧ i16At data 0 = some (-1) ∧
      readComposite data = some v ∧
      v.components.map (fun r => (r.glyph, r.anchor, r.transform, ComponentFlags.ofBits r.flags))
        = g.components.map (fun c => (c.glyph, c.anchor, c.transform, c.flags)) ∧
      v.count = g.components.length ∧
      (v.xMin, v.yMin, v.xMax, v.yMax) = (g.xMin, g.yMin, g.xMax, g.yMax) ∧
      v.instructions = (if g.instructions.isEmpty then none else some g.instructions) := by
  obtain ⟨_, _, _, bs, h1, h2, h3⟩ := build_get_glyf gs glyf loca hb h32
  have hlen : bs.length = gs.length := by
    have := congrArg List.length h1; simpa using this.symm
  have hi' : i < bs.length := by omega
  have hwi : writeGlyph gs[i] = .ok bs[i] := by
    have := congrArg (fun l => l[i]?) h1
    simp only [List.getElem?_map, List.getElem?_eq_getElem hi, List.getElem?_eq_getElem hi',
      Option.map_some, Option.some.injEq] at this
    exact this
  rw [hg] at hwi
  simp only [writeGlyph] at hwi
  split at hwi
  · cases hwi
  · rename_i hval
    split at hwi
    · rename_i b hw
      simp only [WriteResult.ok.injEq] at hwi
      have hil : g.instructions.length < 65536 := by omega
      obtain ⟨h0, v, hr, hx1, hx2, hx3, hx4, hcomps, _, hcount, hins⟩ :=
        composite_glyph_roundtrip g b hbox hv hil hw
      have hbne : b ≠ [] := by
        intro e; rw [e] at h0; simp [i16At, u16At] at h0
      refine ⟨prefixLen bs i, bs[i], v, ?_, by rw [← hwi]; exact h0, by rw [← hwi]; exact hr,
        hcomps, hcount, ?_, hins⟩
      · rw [h3 i hi', ← hwi]; simp [hbne]
      · rw [hx1, hx2, hx3, hx4]
    · cases hwi

/-! ## BezPath → glyph → unscaled draw (integer-coordinate line/quadratic paths) -/

/-- **elide_sound.**  `InterpolatableContourBuilder::build` drops point `i` of a contour only if it
is on-curve, both its cyclic neighbours are off-curve, and it is EXACTLY their midpoint (integer
coordinates); off-curve points are never dropped — so both neighbours of a dropped point survive
and the reader's midpoint insertion restores it. -/
theorem elide_sound (l : List Point) (i : Nat) (h : isImplicit l i = true) :
    ∃ p0 p1 p2, l[i]? = some p1 ∧ wrapPrev l i = some p0 ∧ wrapNext l i = some p2 ∧
      p1.on = true ∧ p0.on = false ∧ p2.on = false ∧
      p0.x + p2.x = 2 * p1.x ∧ p0.y + p2.y = 2 * p1.y := by
  unfold isImplicit at h
  split at h
  · rename_i p1 p0 p2 h1 h0 h2
    exact ⟨p0, p1, p2, h1, h0, h2, implicit3_spec _ _ _ h⟩
  · cases h

theorem elide_keeps_off_curve (l : List Point) (i : Nat) (p : Point) (hp : l[i]? = some p)
    (hoff : p.on = false) : isImplicit l i = false := by
  unfold isImplicit
  rw [hp]
  split
  · rename_i p1 p0 p2 h1 _ _
    simp only [Option.some.injEq] at h1
    subst h1
    exact off_not_implicit _ _ _ hoff
  · rfl

/-- **from_bezpath_contours.**  For a path made of closed contours `M s (L|Q)* Z` with integer
coordinates, `SimpleGlyph::from_bezpath` succeeds; contour `k` of the glyph is the elision of the
builder's points for contour `k` of the path (`closedPts`: move point, one on-curve point per line,
off+on per quadratic, a final point equal to the move point removed); there are no instructions. -/
theorem from_bezpath_contours (cs : List PContour) :
    ∃ g, fromBezpath (cs.flatMap PContour.els) = .ok g ∧
      g.contours = cs.map (fun c => elide c.pts) ∧ g.instructions = [] := by
  obtain ⟨s', h1, h2⟩ := run_contours cs [] none
  unfold fromBezpath
  rw [h1]
  refine ⟨_, rfl, ?_, rfl⟩
  simp only [St.final, curList, List.append_nil, List.nil_append] at h2
  simp only []
  cases hcur : s'.cur with
  | none =>
    rw [hcur] at h2
    simp only [List.append_nil] at h2
    rw [h2, List.map_map]; rfl
  | some c0 =>
    rw [hcur] at h2
    simp only [] at h2 ⊢
    rw [h2, List.map_map]; rfl

/-- what a pen must receive for a closed contour of the path, in unscaled 26.6 units: `move` to the
start, the segments in order (a last straight segment back to the start is left to `close`),
`close` -/
def contourCmds (c : PContour) : List ToPath.Cmd :=
  ToPath.Cmd.move (64 * c.sx) (64 * c.sy) :: (closeNorm c.sx c.sy c.segs).map Seg.cmd
    ++ [ToPath.Cmd.close]

/-- **bezpath_draws_back.**  Any integer-coordinate (i16 range) path made of closed line/quadratic
contours, turned into a glyph by `from_bezpath` and drawn unscaled by skrifa (`to_path`, FreeType
style, over the glyph's points and end points), produces — for EVERY such path, whatever points the
builder elided, including an elided start point — exactly the path's own `move / line / quad / close`
sequence with the same coordinates (×64 in 26.6), without error. -/
theorem bezpath_draws_back (cs : List PContour) (hb : ∀ c ∈ cs, c.Bounded) (g : SimpleGlyph)
    (hg : fromBezpath (cs.flatMap PContour.els) = .ok g) :
    drawUnscaled (g.contours.flatten.map fastPt) (endSpec 0 g.contours)
      = (cs.flatMap contourCmds, none) := by
  obtain ⟨g', hg', hc, _⟩ := from_bezpath_contours cs
  rw [hg] at hg'
  simp only [Except.ok.injEq] at hg'
  subst hg'
  have hdraw : ∀ c ∈ cs, ToPath.contourToPath ToPath.fixedCoord .freeType ((elide c.pts).map toPt)
      (((elide c.pts).map toPt).getLast?.getD ⟨0, 0, 0⟩) = (contourCmds c, none) :=
    fun c hcm => draw_path_contour c (hb c hcm)
  have hne : ∀ l ∈ g.contours, l ≠ [] := by
    rw [hc]
    intro l hl
    obtain ⟨c, _, rfl⟩ := List.mem_map.mp hl
    obtain ⟨t, ht, _⟩ := closedPts_head ⟨c.sx, c.sy, true⟩ c.segs
    unfold PContour.pts; rw [ht]
    exact elide_ne_nil _ t rfl
  have herr : ∀ l ∈ g.contours, (ToPath.contourToPath ToPath.fixedCoord .freeType (l.map toPt)
      ((l.map toPt).getLast?.getD ⟨0, 0, 0⟩)).2 = none := by
    rw [hc]
    intro l hl
    obtain ⟨c, hcm, rfl⟩ := List.mem_map.mp hl
    rw [hdraw c hcm]
  have := toPathGo_contours g.contours [] g.contours.flatten 0 (by simp) hne herr
  unfold drawUnscaled ToPath.toPath
  simp only [List.map_map, fastPt, Function.comp_def]
  simp only [List.length_nil] at this
  rw [this, hc, List.flatMap_map]
  congr 1
  have hfm : ∀ (l : List PContour) (f g : PContour → List ToPath.Cmd), (∀ c ∈ l, f c = g c) →
      l.flatMap f = l.flatMap g := by
    intro l f g
    induction l with
    | nil => intro _; rfl
    | cons c l ih =>
      intro h
      rw [List.flatMap_cons, List.flatMap_cons, h c (by simp), ih (fun x hx => h x (by simp [hx]))]
  apply hfm
  intro c hcm
  rw [hdraw c hcm]

/-- **bezpath_glyph_draws_back.**  The same through the bytes: if the glyph built from such a path
is accepted by the writer, then the bytes parse, `read_points_fast` succeeds, and drawing the decoded
points with the decoded end points is exactly the path's command sequence. -/
theorem bezpath_glyph_draws_back (cs : List PContour) (hne : cs ≠ []) (hb : ∀ c ∈ cs, c.Bounded)
    (g : SimpleGlyph) (hg : fromBezpath (cs.flatMap PContour.els) = .ok g) (bytes : List Nat)
    (hw : writeGlyph (.simple g) = .ok bytes) :
    ∃ v pts, readSimple bytes = some v ∧ v.readPointsFast = some pts ∧
      drawUnscaled pts v.endPts = (cs.flatMap contourCmds, none) := by
  obtain ⟨g', hg', hc, hins⟩ := from_bezpath_contours cs
  have hbox := boxPts_bounded cs hb
  have hdraw := bezpath_draws_back cs hb g hg
  have hmax := (accepted_simple_le_65535_points g bytes hw).1
  rw [hg] at hg'
  simp only [Except.ok.injEq] at hg'
  subst hg'
  -- bounding box and points are i16 values
  have hgbox : inI16 g.xMin ∧ inI16 g.yMin ∧ inI16 g.xMax ∧ inI16 g.yMax := by
    unfold fromBezpath at hg
    split at hg
    · cases hg
    · simp only [Except.ok.injEq] at hg
      subst hg
      refine ⟨minL_in _ ?_, minL_in _ ?_, maxL_in _ ?_, maxL_in _ ?_⟩ <;>
      · intro v hv
        obtain ⟨q, hq, rfl⟩ := List.mem_map.mp hv
        first | exact (hbox q hq).1 | exact (hbox q hq).2
  have hpts : PointsInRange g.contours.flatten := by
    intro p hp
    rw [hc] at hp
    obtain ⟨l, hl, hpl⟩ := List.mem_flatten.mp hp
    obtain ⟨c, hcm, rfl⟩ := List.mem_map.mp hl
    have hp' := elide_subset _ p hpl
    obtain ⟨hx, hy, hs⟩ := hb c hcm
    obtain ⟨t, ht, hsub⟩ := closedPts_head ⟨c.sx, c.sy, true⟩ c.segs
    unfold PContour.pts at hp'
    rw [ht] at hp'
    simp only [List.mem_cons] at hp'
    rcases hp' with rfl | hp'
    · exact ⟨hx, hy⟩
    · exact seg_pts_bounded c.segs hs p (hsub p hp')
  have hcne : g.contours ≠ [] := by
    rw [hc]; intro e; exact hne (List.map_eq_nil_iff.mp e)
  simp only [writeGlyph] at hw
  split at hw
  · cases hw
  · split at hw
    · rename_i b hws
      simp only [WriteResult.ok.injEq] at hw
      subst hw
      obtain ⟨v, hr, _, _, _, _, _, hends, _, _, hfast, _⟩ :=
        simple_glyph_roundtrip g b hgbox hpts hmax hcne hws
      refine ⟨v, _, hr, hfast, ?_⟩
      rw [hends]
      exact hdraw
    · cases hw

/-! ## non-vacuity -/

/-- a 300-point glyph (one flag run of 300: items with repeat bytes 255 and 42) satisfies every
hypothesis of `simple_glyph_roundtrip` -/
def g300 : SimpleGlyph :=
  ⟨0, 0, 299, 0, [(List.range 300).map (fun (i : Nat) => ⟨(i : Int), 0, true⟩)], []⟩

example : (writeSimple g300).isSome = true := by decide +kernel
example : (iterFromFlags none (List.replicate 299 0x33)) = [⟨0x3B, 255⟩, ⟨0x3B, 42⟩] := by
  decide +kernel
example : (iterFromFlags none (List.replicate 257 0x33)) = [⟨0x3B, 255⟩, ⟨0x33, 0⟩] := by
  decide +kernel
example : (iterFromFlags none [1, 1, 5, 5, 5]) = [⟨1, 0⟩, ⟨1, 0⟩, ⟨13, 2⟩] := by decide
example : PointsInRange g300.contours.flatten ∧ g300.contours.flatten.length ≤ 65535
    ∧ g300.contours ≠ [] := by
  refine ⟨?_, by decide +kernel, by decide⟩
  intro p hp
  simp only [g300, List.flatten_cons, List.flatten_nil, List.append_nil, List.mem_map,
    List.mem_range] at hp
  obtain ⟨i, hi, rfl⟩ := hp
  simp only [inI16]; omega
example : DeltasRepresentable 0 0 [⟨-32768, 0, true⟩, ⟨-1, 0, true⟩, ⟨32766, 5, false⟩] := by
  simp [DeltasRepresentable, inI16]
example : ¬ DeltasRepresentable 0 0 [⟨-32768, 0, true⟩, ⟨32767, 0, true⟩] := by
  simp [DeltasRepresentable, inI16]
example : locaIsLong [0, 0x1FFFE] = false ∧ locaIsLong [0, 0x20000] = true
    ∧ locaIsLong [0, 7, 8] = true ∧ locaIsLong [] = false := by decide

/-- a composite with a byte-sized offset anchor + plain transform, a word-sized point anchor + 2×2
transform, and instructions: hypotheses of `composite_glyph_roundtrip` are satisfiable -/
def cg2 : CompositeGlyph :=
  ⟨-5, 0, 700, 800,
   [⟨3, .offset 127 (-128), ⟨true, false, false, false, true⟩, ⟨16384, 0, 0, 16384⟩⟩,
    ⟨65535, .point 256 0, ⟨false, true, false, false, false⟩, ⟨8192, -1, 1, -32768⟩⟩],
   [0xB0, 0x01]⟩

example : (writeComposite cg2).isSome = true := by decide +kernel
example : ∀ c ∈ cg2.components, c.Valid := by
  intro c hc
  simp only [cg2, List.mem_cons, List.not_mem_nil, or_false] at hc
  rcases hc with rfl | rfl <;> simp [Component.Valid, Anchor.Valid, Transform.Valid, inI16]
example : (cg2.components.map (fun c => c.anchor.bytes.length + c.transform.bytes.length)) = [2, 12] := by
  decide +kernel

/-- a sequence with an empty glyph, a triangle and the composite above is accepted by the builder -/
def tri : SimpleGlyph :=
  ⟨0, 0, 300, 256, [[⟨0, 0, true⟩, ⟨300, 0, true⟩, ⟨150, 256, false⟩]], [1, 2, 3]⟩

example : (build [.empty, .simple tri, .composite cg2, .simple ⟨0, 0, 0, 0, [], []⟩]).isSome = true := by
  decide +kernel
example : (build [.empty, .simple tri]).map (fun r => r.2) = some [0, 0, 26] := by decide +kernel

/-- the 3-point glyph whose flags are all REPEAT with count 0 (two flag bytes per point — legal, not
optimal; the pre-fix window of `num_points` bytes made `read_points_fast` fail on it): both decoders -/
def repeat0 : List Nat :=
  [0x00, 0x01, 0, 0, 0, 0, 0x01, 0xf4, 0x01, 0xf4, 0x00, 0x02, 0x00, 0x00,
   0x3f, 0x00, 0x3f, 0x00, 0x3f, 0x00, 1, 2, 3, 4, 5, 6]
example : (readSimple repeat0).map (·.readPointsFast) = some (some [(1, 4, 1), (3, 9, 1), (6, 15, 1)]) := by
  decide +kernel
example : (readSimple repeat0).map (·.points) = some [⟨1, 4, true⟩, ⟨3, 9, true⟩, ⟨6, 15, true⟩] := by
  decide +kernel
/-- the hypotheses of `read_points_fast_eq_points_on_valid` hold for it -/
example : (readSimple repeat0).map (·.glyphData) =
    some (([⟨0x3f, 0⟩, ⟨0x3f, 0⟩, ⟨0x3f, 0⟩] : List RepeatableFlag).flatMap RepeatableFlag.bytes
      ++ ([1, 2, 3] ++ ([4, 5, 6] ++ []))) ∧
    (expandRaw [⟨0x3f, 0⟩, ⟨0x3f, 0⟩, ⟨0x3f, 0⟩]).length = 3 ∧
    ((expandRaw [⟨0x3f, 0⟩, ⟨0x3f, 0⟩, ⟨0x3f, 0⟩]).map xSize).sum = 3 := by decide +kernel
/-- flags that end before every point has one: an error in the fast decoder, no points in the slow one -/
example : (readSimple (repeat0.take 18)).map (·.readPointsFast) = some none ∧
    (readSimple (repeat0.take 18)).map (·.points) = some [] := by decide +kernel

/-- a history with rejected glyphs in the middle (composites without components fail validation): the
builder carries on, only the accepted glyphs get glyph ids and bytes, and the plain `build` of the same
list gives up -/
def noComps : CompositeGlyph := ⟨1, 2, 3, 4, [], []⟩
example : addOutcome (.composite noComps) = .err := by decide +kernel
example : (buildHist [.empty, .composite noComps, .simple tri, .composite noComps, .empty]).map (fun r => r.2)
    = some [0, 0, 26, 26] := by decide +kernel
example : accepted [.empty, .composite noComps, .simple tri, .composite noComps, .empty]
    = [.empty, .simple tri, .empty] := by decide +kernel
example : build [.empty, .composite noComps, .simple tri] = none := by decide +kernel
example : buildHist [.empty, .composite noComps, .simple tri] = build [.empty, .simple tri] := by decide +kernel
/-- a panic (an empty first contour underflows `cur as u16 - 1`) ends the history -/
example : histOutcomes [.composite noComps, .simple ⟨0, 0, 0, 0, [[]], []⟩, .empty] = [.err, .trap] := by
  decide +kernel

/-- a "circle" of four quadratics whose on-curve points (including the START point) are all implied:
the glyph keeps only the four off-curve points, and the draw starts at the re-created midpoint -/
def circle : PContour := ⟨0, 1, [.quad 1 1 1 0, .quad 1 (-1) 0 (-1), .quad (-1) (-1) (-1) 0, .quad (-1) 1 0 1]⟩

example : circle.Bounded := by
  refine ⟨by decide, by decide, ?_⟩
  intro s hs
  simp only [circle, List.mem_cons, List.not_mem_nil, or_false] at hs
  rcases hs with rfl | rfl | rfl | rfl <;> simp [Seg.Bounded, inI16]
example : (fromBezpath circle.els).toOption.map (·.contours) =
    some [[⟨1, 1, false⟩, ⟨1, -1, false⟩, ⟨-1, -1, false⟩, ⟨-1, 1, false⟩]] := by decide +kernel
example : contourCmds circle = [.move 0 64, .quad 64 64 64 0, .quad 64 (-64) 0 (-64),
    .quad (-64) (-64) (-64) 0, .quad (-64) 64 0 64, .close] := by decide +kernel
/-- a triangle closed by an explicit line back to the start: the duplicate point is removed and the
closing line is left to `close` -/
example : contourCmds ⟨0, 0, [.line 10 0, .line 5 8, .line 0 0]⟩ =
    [.move 0 0, .line 640 0, .line 320 512, .close] := by decide +kernel
example : isImplicit [⟨0, 1, true⟩, ⟨1, 1, false⟩, ⟨1, 0, true⟩, ⟨1, -1, false⟩] 2 = true := by
  decide +kernel

end FontVerif.C09
