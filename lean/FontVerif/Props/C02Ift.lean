/-
C02 — skrifa and IFT client APIs are total on hostile fonts and arguments.

Core 4: the IFT client's font-controlled loops that are not covered by C18 (what a patch application produces) and
C19 (intersection / selection): URI template expansion is total with an output length linear in the template, and
the table-keyed / glyph-keyed patch containers can only announce as many entries as their own length pays for, so
the parse-and-apply loops are bounded by the patch length.  The models are C18's / C19's (Model/UriTemplate.lean,
Model/TableKeyed.lean, Model/GlyphKeyed.lean, tied to the Rust by those properties' correspondence harnesses).
-/
import FontVerif.Model.UriTemplate
import FontVerif.Model.TableKeyed
import FontVerif.Model.GlyphKeyed
namespace FontVerif.C02
open FontVerif FontVerif.UriTemplate FontVerif.Ift
set_option linter.unusedVariables false

/-! ### URI templates (`uri_templates.rs`) -/

/-- one input byte appends at most `max 3 (max |id| |id64|)` output bytes (`%XX`, or a whole variable value) -/
theorem takeInput_len (idv id64 : List Nat) (st st' : ParseState × List Nat) (v : Nat)
    (h : takeInput idv id64 st v = some st') :
    st'.2.length ≤ st.2.length + max 3 (max idv.length id64.length) := by
  obtain ⟨state, out⟩ := st
  unfold takeInput at h
  simp only [] at h
  have hK : 3 ≤ max 3 (max idv.length id64.length) := Nat.le_max_left _ _
  have h1 : idv.length ≤ max 3 (max idv.length id64.length) :=
    Nat.le_trans (Nat.le_max_left _ _) (Nat.le_max_right _ _)
  have h2 : id64.length ≤ max 3 (max idv.length id64.length) :=
    Nat.le_trans (Nat.le_max_right _ _) (Nat.le_max_right _ _)
  generalize max 3 (max idv.length id64.length) = K at *
  split at h
  · split at h <;> simp at h <;> subst h <;> simp [percentEncoded] <;> omega
  · split at h
    · simp at h; subst h; simp; omega
    · simp at h
  · split at h <;> simp at h <;> subst h <;> simp <;> omega

/-- **URI template expansion is total and its output is linear in the template**: `expand_template_inner` is a
    single pass over the template bytes (structural recursion in the model, a `for` loop in the Rust); it returns an
    error value (`none`) or at most `|template| · max 3 (max |id| |id64|)` bytes. -/
theorem uri_expansion_length_le (template idv id64 out : List Nat)
    (h : expandInner template idv id64 = some out) :
    out.length ≤ template.length * max 3 (max idv.length id64.length) := by
  unfold expandInner at h
  have key : ∀ (t : List Nat) (st st' : ParseState × List Nat), expandInner.go idv id64 t st = some st' →
      st'.2.length ≤ st.2.length + t.length * max 3 (max idv.length id64.length) := by
    intro t
    induction t with
    | nil => intro st st' hg; simp [expandInner.go] at hg; subst hg; simp
    | cons v vs ih =>
      intro st st' hg
      unfold expandInner.go at hg
      split at hg
      · simp at hg
      · rename_i st1 ht
        have h1 := takeInput_len idv id64 st st1 v ht
        have h2 := ih st1 st' hg
        simp only [List.length_cons]
        rw [Nat.succ_mul]
        omega
  split at h
  · rename_i o hg
    simp at h; subst h
    have := key template (.literal, []) _ hg
    simpa using this
  · simp at h

/-- a template with no expression and only copied literals expands to itself -/
example : expandInner [47, 102, 111, 111] [49] [50] = some [47, 102, 111, 111] := by decide +kernel
/-- `{id}` inserts the id; an unterminated expression is an error -/
example : expandInner [47, 123, 105, 100, 125] [65, 66] [] = some [47, 65, 66] := by decide +kernel
example : expandInner [47, 123, 105, 100] [65, 66] [] = none := by decide +kernel

/-! ### table-keyed patches (`table_keyed.rs`) -/

/-- **the entry count is paid for by the patch length**: `TableKeyedPatch::read` succeeds only if the offset array of
    `patches_count + 1` entries lies inside the patch, so `apply_table_keyed_patch`'s loop runs at most
    `(|patch| - 30) / 4` times -/
theorem table_keyed_count_le (p : Bytes) (c : Nat) (h : tkRead p = .ok c) : 4 * c + 30 ≤ p.length := by
  unfold tkRead at h
  split at h
  · simp at h
  · split at h
    · simp at h; subst h; omega
    · simp at h

/-- the loop makes at most one decoder call per entry -/
theorem table_keyed_decoder_calls_le (p : Bytes) (font : Font) (dec : Decoder) :
    ∀ (n i : Nat) (acc acc' : TKAcc), tkLoop p font dec i n acc = .ok acc' → acc'.calls ≤ acc.calls + n := by
  intro n
  induction n with
  | zero => intro i acc acc' h; simp [tkLoop] at h; subst h; omega
  | succ n ih =>
    intro i acc acc' h
    unfold tkLoop at h
    split at h
    · simp at h
    · rename_i ent he
      split at h
      · simp at h
      · rename_i acc1 hs
        have h1 := ih _ _ _ h
        have h2 : acc1.calls ≤ acc.calls + 1 := by
          unfold tkStep at hs
          split at hs
          · simp at hs; subst hs; omega
          · simp only [] at hs
            split at hs
            · simp at hs; subst hs; simp
            · split at hs
              · simp at hs
              · simp at hs
              · simp at hs; subst hs; simp
        omega

/-- whole application: decoder calls ≤ entry count ≤ (patch length - 30) / 4 -/
theorem table_keyed_work_le (p : Bytes) (c : Nat) (font out : Font) (dec : Decoder) (calls : Nat)
    (hr : tkRead p = .ok c) (h : applyTableKeyedCore p c font dec = .ok (out, calls)) :
    4 * calls + 30 ≤ p.length := by
  have hc := table_keyed_count_le p c hr
  unfold applyTableKeyedCore at h
  split at h
  · simp at h
  · split at h
    · simp at h
    · rename_i acc ha
      simp at h
      obtain ⟨_, h2⟩ := h
      subst h2
      have := table_keyed_decoder_calls_le p font dec c 0 _ _ ha
      simp at this
      omega

/-! ### glyph-keyed patches (`glyph_keyed.rs`) -/

/-- **the glyph and table counts are paid for by the decoded payload length**: `GlyphPatches::read` succeeds only if the
    gid array, the tag array and the `glyph_count * table_count + 1` offsets lie inside the payload, so every loop of
    `apply_glyph_keyed_patches` over (table, glyph) pairs runs at most `|payload| / 4` times -/
theorem glyph_patches_counts_le (raw : Bytes) (wide : Bool) (gp : GlyphPatches) (h : gpRead raw wide = .ok gp) :
    2 * gp.glyphCount + 4 * gp.tables.length + 4 * (gp.glyphCount * gp.tables.length) + 9 ≤ raw.length := by
  unfold gpRead at h
  split at h
  · rename_i gc tc h1 h2
    simp only [] at h
    generalize hw : (if wide = true then 3 else 2) = w at h
    have hw2 : 2 ≤ w := by rw [← hw]; split <;> omega
    split at h
    · rename_i hle
      injection h with h; subst h
      have hlen : ∀ (w n : Nat) (b : Bytes), (beArray w n b).length = n := by
        intro w n; induction n with
        | zero => intro b; rfl
        | succ n ih => intro b; simp [beArray, ih]
      simp only [hlen]
      have : gc * 2 ≤ gc * w := Nat.mul_le_mul_left _ hw2
      generalize gc * w = a at *
      generalize gc * tc = m at *
      omega
    · cases h
  · cases h

/-- the glyph data iterator yields one item per (gid, offset pair) it is given, or stops early with an error -/
theorem glyph_data_len (raw : Bytes) :
    ∀ (l : List (Nat × Nat × Nat)) (prev : Option Nat) (r : List (Nat × Bytes)),
      glyphData raw prev l = .ok r → r.length = l.length := by
  intro l
  induction l with
  | nil => intro prev r h; simp [glyphData] at h; subst h; rfl
  | cons x xs ih =>
    intro prev r h
    obtain ⟨g, s, e⟩ := x
    unfold glyphData at h
    repeat' split at h
    all_goals first | (simp at h; done) | skip
    rename_i r1 hr
    simp at h; subst h
    simp [ih _ _ hr]

end FontVerif.C02
