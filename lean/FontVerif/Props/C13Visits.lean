/-
C13 — exact visit counts of the two exponential graph shapes, and closed forms of the visit bound.
(Known finding C13-nested-paintglyph-exponential / DESIGN §6-7 and the shared-child PaintComposite DAG
found by C02: tables of a few hundred bytes whose painting is only stopped by the depth limit 64.)
-/
import FontVerif.Model.Paint
import FontVerif.Model.PaintBytes
import FontVerif.Lemmas.Paint
import FontVerif.Lemmas.PaintDepth
import FontVerif.Lemmas.PaintChain
import FontVerif.Props.C13
set_option linter.unusedVariables false
namespace FontVerif.C13Visits
open FontVerif FontVerif.Paint

/-- **Exact: a DAG of `d` `PaintComposite` tables whose source and backdrop are the same next paint**
(`d + 1` paint tables, `8·d + 5` bytes, `d ≤ 63`) paints successfully and visits `2^(d+1) − 1` paint
nodes, for every client: both `Offset24`s are followed in full, nothing is shared at run time. -/
theorem composite_dag_visits (c : Client) (d : Nat) (h : d < MAX_TRAVERSAL_DEPTH) :
    ∃ st, paintV1 (compDag d) c 0 = some (none, st) ∧ st.visits = compVisits d ∧
      st.visits + 1 = 2 ^ (d + 1) := by
  have hres : ∃ n, (compDag d).resolve 0 = some n := by
    by_cases h0 : 0 < d
    · exact ⟨_, comp_resolve_inner d 0 h0⟩
    · have : d = 0 := by omega
      subst this; exact ⟨_, comp_resolve_last 0⟩
  obtain ⟨n, hn⟩ := hres
  have hs := comp_step d c d 0 (by omega) MAX_TRAVERSAL_DEPTH
    (by simp only [MAX_TRAVERSAL_DEPTH] at h ⊢; omega) n hn [0] St.init
  unfold paintV1
  have hb : (compDag d).base 0 = .found 0 := rfl
  have hclip : (compDag d).clip 0 = none := rfl
  have enter_nil : enter [] 0 = .ok [0] := rfl
  simp only [hb, enter_nil, hn, hclip, pushClip, popClipIf]
  generalize trav (compDag d) c MAX_TRAVERSAL_DEPTH n [0] St.init = r at hs
  obtain ⟨ha, hv⟩ := hs
  simp only [ha]
  refine ⟨_, rfl, ?_, ?_⟩
  · rw [hv]; simp [St.init]
  · rw [hv]; simp only [St.init, Nat.zero_add]; exact compVisits_closed d

/-- **General upper bound, closed form**: with `k ≥ 2` bounding the length of every `PaintColrLayers`,
`visits · (k − 1) < k^64`. -/
theorem visit_bound_closed (inst : Instance) (c : Client) (k : Nat) (hk : 2 ≤ k) (hl : LayersBounded inst k)
    (gid : Gid) (r : Option PErr) (st : St) (h : paintV1 inst c gid = some (r, st)) :
    st.visits * (k - 1) < k ^ MAX_TRAVERSAL_DEPTH := by
  have hb := C13.visit_bound inst c k hk hl gid r st h
  have hc := geom_closed k (by omega) MAX_TRAVERSAL_DEPTH
  have : st.visits * (k - 1) ≤ geom k MAX_TRAVERSAL_DEPTH * (k - 1) := Nat.mul_le_mul_right _ hb
  omega

/-- **Graphs whose `PaintColrLayers` have at most two layers** (in particular graphs without any): fewer
than `2^64` visits — and `composite_dag_visits` / `C13.glyph_chain_visits` show that `2^64 − 1`
(`d = 63`) resp. `3·2^62 − 1` are reached, so the exponent is exact: `visits ≤ 2^depth − 1` with
`depth ≤ 64`. -/
theorem visit_bound_binary (inst : Instance) (c : Client) (hl : LayersBounded inst 2)
    (gid : Gid) (r : Option PErr) (st : St) (h : paintV1 inst c gid = some (r, st)) :
    st.visits < 2 ^ MAX_TRAVERSAL_DEPTH := by
  have := visit_bound_closed inst c 2 (by omega) hl gid r st h
  simpa using this

/-! ### non-vacuity, also from table bytes -/

private def unimpl : Client := Client.ofModes 1 0

example : (paintV1 (compDag 5) unimpl 0).map (fun r => (r.1, r.2.visits)) = some (none, 63) := by decide

/-- the tight case of `visit_bound_binary`'s hypothesis: `compDag` has no `PaintColrLayers` at all -/
example (d : Nat) : LayersBounded (compDag d) 2 := by
  intro id first num h
  simp only [compDag] at h
  split at h
  · cases h
  · split at h <;> cases h

/-- the COLR table bytes of the composite DAG of depth 3 (header, base glyph list: glyph 1 → paint @44,
three `PaintComposite`s of 8 bytes whose two offsets are both 8, one `PaintSolid`): 15 visits = 2^4 − 1 -/
private def compDagBytes3 : List Nat :=
  [0,1, 0,0, 0,0,0,0, 0,0,0,0, 0,0,
   0,0,0,34, 0,0,0,0, 0,0,0,0, 0,0,0,0, 0,0,0,0,
   0,0,0,1, 0,1, 0,0,0,10,
   32, 0,0,8, 3, 0,0,8,
   32, 0,0,8, 3, 0,0,8,
   32, 0,0,8, 3, 0,0,8,
   2, 0,0, 0x40,0]

example : (PaintBytes.paintBytes compDagBytes3 unimpl 1).map (fun r => (r.1, r.2.visits)) = some (none, 15) := by
  decide +kernel

/-- the bytes of a chain of three nested `PaintGlyph`s over a solid: 11 = 3·2^2 − 1 visits -/
private def glyphChainBytes3 : List Nat :=
  [0,1, 0,0, 0,0,0,0, 0,0,0,0, 0,0,
   0,0,0,34, 0,0,0,0, 0,0,0,0, 0,0,0,0, 0,0,0,0,
   0,0,0,1, 0,1, 0,0,0,10,
   10, 0,0,6, 0,9,
   10, 0,0,6, 0,9,
   10, 0,0,6, 0,9,
   2, 0,0, 0x40,0]

example : (PaintBytes.paintBytes glyphChainBytes3 unimpl 1).map (fun r => (r.1, r.2.visits)) = some (none, 11) := by
  decide +kernel

end FontVerif.C13Visits
